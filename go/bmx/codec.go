package bmx

import (
	"bytes"
	"encoding/hex"
	"strings"

	"golang.org/x/net/html"
)

// HexField encodes bytes as lower-case hex; the empty string is "-".
func HexField(b []byte) string {
	if len(b) == 0 {
		return "-"
	}
	return hex.EncodeToString(b)
}

// HexS is HexField on a string.
func HexS(s string) string { return HexField([]byte(s)) }

// Tokenize runs the real x/net/html tokenizer to the first ErrorToken.
func Tokenize(in []byte) []html.Token {
	z := html.NewTokenizer(bytes.NewReader(in))
	var out []html.Token
	for {
		if z.Next() == html.ErrorToken {
			return out
		}
		out = append(out, z.Token())
	}
}

func encAttrs(as []html.Attribute) string {
	parts := make([]string, len(as))
	for i, a := range as {
		parts[i] = HexS(a.Key) + "=" + HexS(a.Val)
	}
	return strings.Join(parts, ",")
}

// EncTokens is the canonical token-stream encoding shared with BM.Driver.Codec.
func EncTokens(ts []html.Token) string {
	if len(ts) == 0 {
		return "-"
	}
	parts := make([]string, len(ts))
	for i, t := range ts {
		switch t.Type {
		case html.TextToken:
			parts[i] = "T" + HexS(t.Data)
		case html.StartTagToken:
			parts[i] = "S" + HexS(t.Data) + "(" + encAttrs(t.Attr) + ")"
		case html.EndTagToken:
			parts[i] = "E" + HexS(t.Data)
		case html.SelfClosingTagToken:
			parts[i] = "X" + HexS(t.Data) + "(" + encAttrs(t.Attr) + ")"
		case html.CommentToken:
			parts[i] = "C" + HexS(t.Data)
		case html.DoctypeToken:
			parts[i] = "D" + HexS(t.Data)
		}
	}
	return strings.Join(parts, ";")
}
