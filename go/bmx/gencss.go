package bmx

import (
	"math/rand"
	"os"
	"strings"
)

// CSSValuePool: generic CSS value material, independent of any handler.
var CSSValuePool = []string{
	"0", "1", "10", "100", "1px", "-1px", "1.5em", ".5em", "10%", "1e3", "1.", "0.5", "1.0", "2s", "100ms", "-2s",
	"red", "blue", "#fff", "#ffff", "#ffffff", "#ffffffff", "#ggg", "rgb(1,2,3)", "rgb(1, 2, 3)", "rgb(100%,0%,0%)", "rgba(1,2,3,0.5)", "rgba(1,2,3,1.0)",
	"hsl(120,50%,50%)", "hsl(360, 100%, 100%)", "hsla(120,50%,50%,0.3)", "rgb(256,0,0)",
	"url(http://a.b/c.png)", "url('http://a.b/c.png')", "url(\"https://a.b/c.png\")", "url(httpx://a)", "url(javascript:alert(1))", "url(data:x)", "url(http://a.b/c.png",
	"none", "auto", "initial", "inherit", "unset", "left", "center", "top", "bottom", "solid", "thin", "bold", "italic", "serif", "'a b'", "arial", "times new roman",
	"cubic-bezier(0,0,1,1)", "cubic-bezier(0.1,0.2,0.3,1)", "cubic-bezier(0<1,0,0,0)", "steps(2,start)", "steps(2, end)", "steps(2)",
	"blur(2px)", "brightness(50%)", "contrast(50%)", "drop-shadow(1px 1px 1px red)", "drop-shadow(1px 1px)", "grayscale(50%)", "hue-rotate(90)", "invert(50%)", "opacity(50%)", "saturate(50%)", "sepia(50%)",
	"matrix(1,2,3,4,5,6)", "matrix(1, 2, 3, 4, 5, 6)", "translate(1px,2px)", "scale(2)", "rotate(90)", "rotatex(90)", "rotate3d(1,0.5,1.0,90)", "skew(1px)", "skewx(1px,2px)", "perspective(1px)",
	"rect(1px,2px,3px,4px)", "rect(1px, 2px, 3px, 4px)", "span 2", "digits 2", "\"a\"", "'a'", "'«' '»'", "\"«\" \"»\"", "all", "width", "width, height", "a,b",
	"1 2", "1px 2px", "1px 2px 3px 4px", "1px 2px 3px 4px 5px", "left top", "center center", "10px 10px", "1/2", "1 / 2", "/", "row dense", "repeat-x", "border-box",
	// FindString / ReplaceAll material: matches at the start, in the middle, repeated, adjacent, with what is left over clean or not
	"drop-shadow(1px 1px) red", "drop-shadow(1px 1px)red)", "reddrop-shadow(1px 1px))", "drop-shadow(1px 1px)drop-shadow(2px 2px))", "drop-shadow(1px 1px))", "drop-shadow(1px 1px 1px 1px)#fff)",
	"translate(1px,2px", "1pxtranslatex(", "translatex(translatey(1px)", "scale(scale(1px,2px)", "translate(1px,<)", "translate3d(1px,2px,3px)", "scalez(1px))", "translatey()",
	"skew(1px,2px", "skewx(skewy(1px)", "1pxskewy(", "skew(1px;2px)", "perspective(perspective(1px)", "1perspective(px)", "perspective(1px))", "perspective()", "é translate(1px)", "translate(1px)\xc3",
	"", " ", "  ", ",", ";", "<", ">", "<script>", "0<script>", "\\", "\\72 ed", "@import", "expression(alert(1))", "javascript:alert(1)", "(", ")", "x(", "1.0<", "1x0", "é", "\xff", "ſ", "K",
	"1px solid red", "thin dotted #fff", "bold 12px/14px serif", "italic bold 1em arial", "x 1s ease 2s 3 normal both running", "red url(http://a.b/c.png) no-repeat left top",
}

// CSSGen draws values for handler-level cases.
type CSSGen struct {
	R     *rand.Rand
	Vocab []string
	Props []string
}

func readLines(path string) []string {
	b, err := os.ReadFile(path)
	if err != nil {
		return nil
	}
	var out []string
	for _, l := range strings.Split(string(b), "\n") {
		if l != "" {
			out = append(out, l)
		}
	}
	return out
}

// NewCSSGen loads the vocabularies the extractor wrote.
func NewCSSGen(r *rand.Rand, workDir string) *CSSGen {
	g := &CSSGen{R: r, Vocab: readLines(workDir + "/css_vocab.txt"), Props: readLines(workDir + "/css_props.txt")}
	if len(g.Vocab) == 0 {
		g.Vocab = []string{"initial", "inherit"}
	}
	if len(g.Props) == 0 {
		g.Props = []string{"color", "width"}
	}
	return g
}

// Hostile fragments of C18.
var Hostile = []string{"<", ">", "<script>", "\\", "\\3c ", "@import", "@", "expression(", "expression(alert(1))", "url(javascript:alert(1))", "url(data:text/html,x)",
	"javascript:", "data:", "url(", "url(httpx://a)", "url(//evil)", "url(http", "(", ")", "\"", "'", ";", "}", "{", "\x00", "\n", "/*", "*/", "!important", "ſ", "K"}

// Token draws one value token.
func (g *CSSGen) Token(accepted []string) string {
	r := g.R
	switch k := r.Intn(10); {
	case k < 4 && len(accepted) > 0:
		return accepted[r.Intn(len(accepted))]
	case k < 7:
		return CSSValuePool[r.Intn(len(CSSValuePool))]
	default:
		return g.Vocab[r.Intn(len(g.Vocab))]
	}
}

// Value draws a value of 1..4 tokens with separators, optionally damaged.
func (g *CSSGen) Value(accepted []string) string {
	r := g.R
	n := 1 + r.Intn(4)
	if r.Intn(3) == 0 {
		n = 1
	}
	var b strings.Builder
	for i := 0; i < n; i++ {
		if i > 0 {
			b.WriteString(Pick(r, []string{" ", " ", " ", ",", ", ", "/", " / ", "  ", ";"}))
		}
		b.WriteString(g.Token(accepted))
	}
	s := b.String()
	if r.Intn(4) == 0 {
		h := Hostile[r.Intn(len(Hostile))]
		switch r.Intn(4) {
		case 0:
			s = h + s
		case 1:
			s = s + h
		case 2:
			s = s + " " + h
		default:
			p := r.Intn(len(s) + 1)
			s = s[:p] + h + s[p:]
		}
	}
	return s
}
