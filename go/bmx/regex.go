package bmx

import (
	"fmt"
	"regexp/syntax"
	"sort"
	"strings"
	"unicode"
)

// Node is the Lean-side regex AST (BM.Re) as a Go value.
type Node struct {
	Op     string // E N A D ^ $ b e C . | * + ? s p q
	Ranges [][2]rune
	Sub    []*Node
}

// foldOrbit returns the simple-fold orbit of r as sorted single-rune ranges.
func foldOrbit(r rune) [][2]rune {
	rs := []rune{r}
	for f := unicode.SimpleFold(r); f != r; f = unicode.SimpleFold(f) {
		rs = append(rs, f)
	}
	sort.Slice(rs, func(i, j int) bool { return rs[i] < rs[j] })
	out := make([][2]rune, len(rs))
	for i, x := range rs {
		out[i] = [2]rune{x, x}
	}
	return out
}

func catNodes(ns []*Node) *Node {
	if len(ns) == 0 {
		return &Node{Op: "E"}
	}
	n := ns[len(ns)-1]
	for i := len(ns) - 2; i >= 0; i-- {
		n = &Node{Op: ".", Sub: []*Node{ns[i], n}}
	}
	return n
}

func altNodes(ns []*Node) *Node {
	if len(ns) == 0 {
		return &Node{Op: "N"}
	}
	n := ns[len(ns)-1]
	for i := len(ns) - 2; i >= 0; i-- {
		n = &Node{Op: "|", Sub: []*Node{ns[i], n}}
	}
	return n
}

// FromSyntax translates a simplified regexp/syntax tree. It fails loudly on node
// kinds the Lean matcher does not implement.
func FromSyntax(re *syntax.Regexp) (*Node, error) {
	switch re.Op {
	case syntax.OpNoMatch:
		return &Node{Op: "N"}, nil
	case syntax.OpEmptyMatch:
		return &Node{Op: "E"}, nil
	case syntax.OpLiteral:
		var ns []*Node
		for _, r := range re.Rune {
			if re.Flags&syntax.FoldCase != 0 {
				ns = append(ns, &Node{Op: "C", Ranges: foldOrbit(r)})
			} else {
				ns = append(ns, &Node{Op: "C", Ranges: [][2]rune{{r, r}}})
			}
		}
		return catNodes(ns), nil
	case syntax.OpCharClass:
		n := &Node{Op: "C"}
		for i := 0; i+1 < len(re.Rune); i += 2 {
			n.Ranges = append(n.Ranges, [2]rune{re.Rune[i], re.Rune[i+1]})
		}
		return n, nil
	case syntax.OpAnyCharNotNL:
		return &Node{Op: "D"}, nil
	case syntax.OpAnyChar:
		return &Node{Op: "A"}, nil
	case syntax.OpBeginLine:
		return &Node{Op: "b"}, nil
	case syntax.OpEndLine:
		return &Node{Op: "e"}, nil
	case syntax.OpBeginText:
		return &Node{Op: "^"}, nil
	case syntax.OpEndText:
		return &Node{Op: "$"}, nil
	case syntax.OpCapture:
		return FromSyntax(re.Sub[0])
	case syntax.OpStar, syntax.OpPlus, syntax.OpQuest:
		sub, err := FromSyntax(re.Sub[0])
		if err != nil {
			return nil, err
		}
		op := map[syntax.Op]string{syntax.OpStar: "*", syntax.OpPlus: "+", syntax.OpQuest: "?"}[re.Op]
		if re.Flags&syntax.NonGreedy != 0 {
			op = map[syntax.Op]string{syntax.OpStar: "s", syntax.OpPlus: "p", syntax.OpQuest: "q"}[re.Op]
		}
		return &Node{Op: op, Sub: []*Node{sub}}, nil
	case syntax.OpConcat, syntax.OpAlternate:
		var ns []*Node
		for _, s := range re.Sub {
			n, err := FromSyntax(s)
			if err != nil {
				return nil, err
			}
			ns = append(ns, n)
		}
		if re.Op == syntax.OpConcat {
			return catNodes(ns), nil
		}
		return altNodes(ns), nil
	}
	return nil, fmt.Errorf("regexp node kind %v is not modelled", re.Op)
}

// ParseRe parses a pattern the way regexp.MustCompile does (Perl flags) and simplifies it.
func ParseRe(pattern string) (*Node, error) {
	re, err := syntax.Parse(pattern, syntax.Perl)
	if err != nil {
		return nil, err
	}
	return FromSyntax(re.Simplify())
}

// Sexp is the prefix notation parsed by BM.Re.parse.
func (n *Node) Sexp() string {
	var b strings.Builder
	n.sexp(&b)
	return b.String()
}

func (n *Node) sexp(b *strings.Builder) {
	switch n.Op {
	case "C":
		b.WriteString("C")
		for i, r := range n.Ranges {
			if i > 0 {
				b.WriteString(",")
			}
			fmt.Fprintf(b, "%x-%x", r[0], r[1])
		}
		b.WriteString(";")
	default:
		b.WriteString(n.Op)
		for _, s := range n.Sub {
			s.sexp(b)
		}
	}
}

// Lean renders the node as a Lean term of type BM.Re.
func (n *Node) Lean() string {
	switch n.Op {
	case "E":
		return ".empty"
	case "N":
		return ".none"
	case "A":
		return ".anyNL"
	case "D":
		return ".any"
	case "^":
		return ".bot"
	case "$":
		return ".eot"
	case "b":
		return ".bol"
	case "e":
		return ".eol"
	case "C":
		parts := make([]string, len(n.Ranges))
		for i, r := range n.Ranges {
			parts[i] = fmt.Sprintf("(%d, %d)", r[0], r[1])
		}
		return ".cls [" + strings.Join(parts, ", ") + "]"
	case ".":
		return "(.cat (" + n.Sub[0].Lean() + ") (" + n.Sub[1].Lean() + "))"
	case "|":
		return "(.alt (" + n.Sub[0].Lean() + ") (" + n.Sub[1].Lean() + "))"
	}
	name := map[string]string{"*": "star", "+": "plus", "?": "quest", "s": "starL", "p": "plusL", "q": "questL"}[n.Op]
	return "(." + name + " (" + n.Sub[0].Lean() + "))"
}
