package bmx

import (
	"math/rand"
	"strings"
)

// attributes the sanitiser itself rewrites (C20's class excludes value patterns on them)
var rewritten = map[string]bool{"href": true, "src": true, "cite": true, "rel": true, "target": true, "crossorigin": true, "sandbox": true}

var rawTextNames = map[string]bool{"iframe": true, "noembed": true, "noframes": true, "noscript": true, "plaintext": true, "xmp": true,
	"script": true, "style": true, "title": true, "textarea": true}

// RandPolicyOpsIdem draws a history inside C20's class where that can be arranged
// syntactically (the Lean oracle decides class membership exactly).
func RandPolicyOpsIdem(r *rand.Rand) []*Op {
	var out []*Op
	for _, o := range RandPolicyOps(r) {
		switch o.Kind {
		case "AC", "RW", "UN", "ZERO":
			continue
		case "AE":
			var ns []string
			for _, n := range o.Names {
				if !rawTextNames[strings.ToLower(n)] {
					ns = append(ns, n)
				}
			}
			if len(ns) == 0 {
				continue
			}
			o.Names = ns
		case "AA":
			for _, n := range o.Names {
				if rewritten[strings.ToLower(n)] {
					o.Re = nil
				}
			}
			if o.Scope == "E" {
				var ns []string
				for _, n := range o.ScopeEl {
					if !rawTextNames[strings.ToLower(n)] {
						ns = append(ns, n)
					}
				}
				if len(ns) == 0 {
					continue
				}
				o.ScopeEl = ns
			}
		}
		out = append(out, o)
	}
	if len(out) == 0 {
		out = []*Op{{Kind: "AE", Names: []string{"b"}}}
	}
	return out
}

var (
	urlSchemes = []string{"http", "https", "HTTP", "mailto", "ftp", "data", "javascript", "JaVa", "x-app", "a", "1a", "a+b.c-d", "", "", ""}
	urlHosts   = []string{"example.com", "a.b", "EXAMPLE.com", "[::1]", "[::1]:80", "[fe80::1%25en0]", "host:80", "host:", "host:port", "user@host", "user:pw@host", "u%20ser@host",
		"é.example", "a%41.b", "a%2fb", "a b", "", "", "host\\evil", "h<o>st", "a&b=c", "%zz", "[::1", "::1]"}
	urlPaths = []string{"", "/", "/a", "/a/b", "a", "a/b", "./a", "../a", "/%2f}", "/%2f", "%2f", "/a%20b", "/a b", "/a;b,c", "/a:b", "a:b", "/é", "/%zz", "/%", "/a?b", "/*", "*", "//", "///x", "/a//b", "/\\", "\\", "/{}", "/[x]", "/a|b", "/^", "/~", "/a'b", "/\"q\"", "/<x>"}
	urlQueries   = []string{"", "", "?", "?a=b", "?a=b&c=d", "?a b", "?%zz", "?é", "?a=<b>", "?a#b", "??", "?a=b?"}
	urlFragments = []string{"", "", "#", "#f", "#f g", "#%zz", "#é", "#a#b", "#!x", "#(x)", "#a%20b", "#<x>"}
)

// RandURL composes a URL-ish string from parts, sometimes with noise.
func RandURL(r *rand.Rand) string {
	var b strings.Builder
	if r.Intn(12) == 0 {
		b.WriteString(Pick(r, []string{" ", "\t", "\n", "\x00", " ", "\x0b"}))
	}
	s := Pick(r, urlSchemes)
	if s != "" {
		b.WriteString(s)
		b.WriteString(":")
	}
	switch r.Intn(5) {
	case 0, 1:
		b.WriteString("//")
		b.WriteString(Pick(r, urlHosts))
	case 2:
		if r.Intn(3) == 0 {
			b.WriteString(Pick(r, []string{"/", "\\\\", "///", "/\\"}))
			b.WriteString(Pick(r, urlHosts))
		}
	}
	b.WriteString(Pick(r, urlPaths))
	b.WriteString(Pick(r, urlQueries))
	b.WriteString(Pick(r, urlFragments))
	out := b.String()
	if r.Intn(10) == 0 && len(out) > 0 {
		p := r.Intn(len(out))
		out = out[:p] + Pick(r, []string{" ", "\t", "\n", "\r", "\x7f", "%", ":", "#", "?", "/", "@", "[", "]", "\xff"}) + out[p:]
	}
	if r.Intn(12) == 0 {
		out += Pick(r, []string{" ", "\n", " ", "\t"})
	}
	return out
}

// RandURLPolicyOps draws only URL-related options.
func RandURLPolicyOps(r *rand.Rand) []*Op {
	n := 1 + r.Intn(6)
	var ops []*Op
	for i := 0; i < n; i++ {
		o := &Op{}
		switch r.Intn(8) {
		case 0, 1, 2:
			o.Kind = "US"
			o.Names = pickN(r, Schemes, 3)
		case 3:
			o.Kind = "UC"
			o.Names = []string{Pick(r, Schemes)}
			o.Cb = Pick(r, URLCallbacks)
		case 4:
			o.Kind = "USM"
			o.Re = NewRE(Pick(r, SchemeRegexPool))
		case 5, 6:
			o.Kind = "RU"
			o.Flag = r.Intn(3) != 0
		default:
			o.Kind = Pick(r, []string{"PU", "NF", "TB"})
			o.Flag = r.Intn(3) != 0
		}
		ops = append(ops, o)
	}
	return ops
}

// RandStylePolicyOps draws style rules (default handlers most of the time).
func RandStylePolicyOps(r *rand.Rand, props []string) []*Op {
	n := 1 + r.Intn(5)
	var ops []*Op
	var pats []*RE
	for i := 0; i < n; i++ {
		o := &Op{Kind: "AS"}
		k := 1 + r.Intn(6)
		for j := 0; j < k; j++ {
			if r.Intn(6) == 0 {
				o.Names = append(o.Names, Pick(r, StyleProps))
			} else {
				o.Names = append(o.Names, props[r.Intn(len(props))])
			}
		}
		switch r.Intn(8) {
		case 0:
			o.Handler = Pick(r, StyleHandlers)
		case 1:
			o.Enum = StyleEnums[r.Intn(len(StyleEnums))]
		case 2:
			o.Re = NewRE(Pick(r, RegexPool))
		}
		randScope(r, o, pats)
		if o.Scope == "E" {
			o.ScopeEl = []string{Pick(r, []string{"b", "div", "span", "p"})}
		}
		ops = append(ops, o)
	}
	return ops
}

// --- C19 ---------------------------------------------------------------------------

// MatcherExamples are the documented example values of each exported matcher.
var MatcherExamples = map[string][]string{
	"CellAlign":            {"center", "justify", "left", "right", "char", "CENTER", "Left"},
	"CellVerticalAlign":    {"baseline", "bottom", "middle", "top", "TOP"},
	"Direction":            {"rtl", "ltr", "RTL"},
	"ImageAlign":           {"left", "right", "top", "texttop", "middle", "absmiddle", "baseline", "bottom", "absbottom"},
	"Integer":              {"0", "1", "42", "007"},
	"ISO8601":              {"1997", "1997-07", "1997-07-16", "1997-07-16T19:20+01:00", "1997-07-16T19:20:30+01:00", "1997-07-16T19:20:30.45+01:00", "1997-07-16T19:20Z", "1997-07-16 19:20"},
	"ListType":             {"circle", "disc", "square", "a", "A", "i", "I", "1"},
	"SpaceSeparatedTokens": {"a", "a b", "nofollow noopener", "foo-bar_baz", "é ü", "x1 y2"},
	"Number":               {"1", "1.5", ".5", "-1", "+1", "1e3", "1.5E-3", "0"},
	"NumberOrPercent":      {"1", "100", "50%", "0%"},
	"Paragraph":            {"", "Hello, world!", "it's [ok] (really) a/b\\c", "Ünïcode 123", "a_b-c."},
}

// MatcherAlphabet: the matcher's own characters for the bounded-exhaustive enumeration.
var MatcherAlphabet = map[string]string{
	"CellAlign": "centrjusfyliLghC", "CellVerticalAlign": "baselinotmdpT", "Direction": "rtlRTL", "ImageAlign": "leftrighopxmdabsn",
	"Integer": "019", "ISO8601": "0129-:T.Z+", "ListType": "circledsquaAI1", "SpaceSeparatedTokens": "a1_-\t", "Number": "019.-+eE",
	"NumberOrPercent": "019%", "Paragraph": "a1-_',[]!./\\()\n",
}

// MatcherHostile: substitutions tried at every position of every documented example.
var MatcherHostile = []string{"<", ">", "\"", "=", "`", "\x00", "\n", " ", "&", "'", ";", "(", "ſ", "K", ".", "x", "%", "é", "\x7f"}

// --- C17 ---------------------------------------------------------------------------

func isRuleOp(o *Op) bool {
	switch o.Kind {
	case "ZERO":
		return false
	case "AE", "AEM", "AA", "AS", "USM", "DA", "AC":
		return true
	}
	return false
}

func flipCase(r *rand.Rand, xs []string) []string {
	out := make([]string, len(xs))
	for i, x := range xs {
		switch r.Intn(3) {
		case 0:
			out[i] = strings.ToUpper(x)
		case 1:
			out[i] = strings.ToLower(x)
		default:
			out[i] = x
		}
	}
	return out
}

// PermuteHistory returns a history with the same rule set: rule-adding calls shuffled
// (switch-like calls keep their positions relative to each other), names re-cased,
// multi-name calls sometimes split.
func PermuteHistory(r *rand.Rand, ops []*Op) []*Op {
	var rules, switches []*Op
	zero := false
	for _, o := range ops {
		if o.Kind == "ZERO" {
			zero = true
			continue
		}
		cp := *o
		switch cp.Kind {
		case "AE", "SK", "AK", "US":
			cp.Names = flipCase(r, cp.Names)
		case "AA", "AS":
			cp.Names = flipCase(r, cp.Names)
			cp.ScopeEl = flipCase(r, cp.ScopeEl)
		case "UC":
			cp.Names = flipCase(r, cp.Names)
		}
		if isRuleOp(&cp) {
			if cp.Kind == "AE" && len(cp.Names) > 1 && r.Intn(2) == 0 {
				for _, n := range cp.Names {
					rules = append(rules, &Op{Kind: "AE", Names: []string{n}})
				}
				continue
			}
			rules = append(rules, &cp)
		} else {
			switches = append(switches, &cp)
		}
	}
	r.Shuffle(len(rules), func(i, j int) { rules[i], rules[j] = rules[j], rules[i] })
	// interleave, keeping the order inside each class
	var out []*Op
	if zero {
		out = append(out, &Op{Kind: "ZERO"})
	}
	i, j := 0, 0
	for i < len(rules) || j < len(switches) {
		if i < len(rules) && (j >= len(switches) || r.Intn(2) == 0) {
			out = append(out, rules[i])
			i++
		} else {
			out = append(out, switches[j])
			j++
		}
	}
	return out
}
