package bmx

import (
	"math/rand"
	"strings"
)

// Vocabulary of the generated policies and documents.
var (
	Elements = []string{"a", "area", "link", "base", "b", "i", "p", "div", "span", "img", "br", "hr", "input",
		"blockquote", "q", "del", "ins", "audio", "video", "source", "track", "embed", "iframe", "script",
		"style", "title", "textarea", "noscript", "object", "table", "td", "svg", "my-el", "my-x", "x-foo",
		"select", "font", "xmp", "noembed", "noframes", "frameset", "nostyle", "details", "time", "x-caf\u00e9", "x-gr\u00f6\u00dfe", "x-\u03c0"}
	VoidElements = []string{"area", "base", "br", "col", "embed", "hr", "img", "input", "link", "meta", "param", "source", "track", "wbr"}
	AttrNames    = []string{"href", "src", "cite", "id", "class", "title", "rel", "target", "style", "crossorigin",
		"sandbox", "alt", "width", "data-x", "data-foo-bar", "onclick", "name", "type", "lang", "dir", "open", "datetime"}
	RegexPool = []string{
		`^[0-9]+$`, `^[a-z]+$`, `(?i)^(left|right)$`, `.`, `(?i)|nowrap`, `[a-zA-Z]{2,20}`,
		`^[\p{L}\p{N}\s\-_',\[\]!\./\\\(\)]*$`, `^([\s\p{L}\p{N}_-]+)$`, `^(a|b|i)$`, `^.*$`, `javascript`,
		`^(?:red|blue)$`, `^#[0-9a-f]{3}$`, `(?i)^(rtl|ltr)$`, `^[0-9]+[%]?$`, `^x`, `[a-zA-Z0-9\:\-_\.]+`,
	}
	ElementRegexPool = []string{`^my-`, `^x-[a-z]+$`, `^(b|i|script)$`, `-`, `^s`, `^.{1,2}$`, `(?i)^MY-X$`, `^x-[\p{L}\p{N}-]+$`}
	SchemeRegexPool  = []string{`^https?$`, `^(ftp|tel)$`, `^j`, `^x-`}
	Schemes          = []string{"http", "https", "mailto", "ftp", "data", "javascript", "tel", "x-app", "HTTP"}
	StyleProps       = []string{"color", "width", "background", "font-family", "text-align", "grid", "margin", "display", "x-prop", "COLOR"}
	URLCallbacks     = []string{"always", "never", "noquery", "host=example.com", "host=a.b", "opaqueprefix=image/"}
	Rewriters        = []string{"id", "sethost=cdn.example", "clearquery", "proxy=proxy.example", "relproxy"}
	StyleHandlers    = []string{"always", "never", "noparen", "eq=red", "eq=1px"}
	StyleEnums       = [][]string{{"red", "blue"}, {"LEFT", "right"}, {"1px", "2px", "auto"}, {"straße", "K"}}
)

func pickN(r *rand.Rand, xs []string, max int) []string {
	n := 1 + r.Intn(max)
	out := make([]string, 0, n)
	for i := 0; i < n; i++ {
		x := xs[r.Intn(len(xs))]
		if r.Intn(8) == 0 {
			x = strings.ToUpper(x)
		}
		out = append(out, x)
	}
	return out
}

func randScope(r *rand.Rand, o *Op, pats []*RE) {
	switch r.Intn(6) {
	case 0, 1, 2:
		o.Scope = "E"
		o.ScopeEl = pickN(r, Elements, 3)
	case 3:
		o.Scope = "M"
		if len(pats) > 0 && r.Intn(2) == 0 {
			o.ScopeRe = pats[r.Intn(len(pats))] // reuse an identity
		} else {
			o.ScopeRe = NewRE(Pick(r, ElementRegexPool))
		}
	default:
		o.Scope = "G"
	}
}

// RandOp draws one builder call. pats collects element-pattern identities for reuse.
func RandOp(r *rand.Rand, pats *[]*RE) *Op {
	o := &Op{}
	switch k := r.Intn(100); {
	case k < 14:
		o.Kind = "AE"
		o.Names = pickN(r, Elements, 4)
	case k < 19:
		o.Kind = "AEM"
		if len(*pats) > 0 && r.Intn(3) == 0 {
			o.Re = (*pats)[r.Intn(len(*pats))]
		} else {
			o.Re = NewRE(Pick(r, ElementRegexPool))
			*pats = append(*pats, o.Re)
		}
	case k < 47:
		o.Kind = "AA"
		if r.Intn(8) == 0 {
			o.Empty = true // AllowNoAttrs().<scope>
		} else {
			o.Names = pickN(r, AttrNames, 3)
			o.Empty = r.Intn(10) == 0
		}
		if len(o.Names) > 0 && r.Intn(2) == 0 {
			o.Re = NewRE(Pick(r, RegexPool))
		}
		randScope(r, o, *pats)
		if o.Scope == "G" && len(o.Names) == 0 {
			o.Scope = "E"
			o.ScopeEl = pickN(r, Elements, 3)
		}
		if o.Scope == "M" {
			*pats = append(*pats, o.ScopeRe)
		}
	case k < 57:
		o.Kind = "AS"
		o.Names = pickN(r, StyleProps, 3)
		switch r.Intn(5) {
		case 0:
			o.Handler = Pick(r, StyleHandlers)
		case 1:
			o.Enum = StyleEnums[r.Intn(len(StyleEnums))]
		case 2:
			o.Re = NewRE(Pick(r, RegexPool))
		case 3:
			o.Handler = Pick(r, StyleHandlers)
			o.Enum = StyleEnums[r.Intn(len(StyleEnums))]
			o.Re = NewRE(Pick(r, RegexPool))
		default:
			// no matcher at all: css.GetDefaultHandler
		}
		randScope(r, o, *pats)
		if o.Scope == "M" {
			*pats = append(*pats, o.ScopeRe)
		}
	case k < 59:
		o.Kind = "DA"
	case k < 61:
		o.Kind = "AC"
	case k < 63:
		o.Kind = "USM"
		o.Re = NewRE(Pick(r, SchemeRegexPool))
	case k < 65:
		o.Kind = "RW"
		o.Cb = Pick(r, Rewriters)
	case k < 80:
		o.Kind = Pick(r, []string{"NF", "NFQ", "NR", "NRQ", "CO", "TB", "PU", "RU", "RU", "SP", "UN"})
		o.Flag = r.Intn(4) != 0
		if o.Kind == "UN" {
			o.Flag = r.Intn(4) == 0
		}
	case k < 88:
		o.Kind = "US"
		o.Names = pickN(r, Schemes, 3)
	case k < 91:
		o.Kind = "UC"
		o.Names = []string{Pick(r, Schemes)}
		o.Cb = Pick(r, URLCallbacks)
	case k < 94:
		o.Kind = "SB"
		n := r.Intn(4)
		for i := 0; i < n; i++ {
			o.Names = append(o.Names, Pick(r, SandboxNames))
		}
	case k < 97:
		o.Kind = "SK"
		o.Names = pickN(r, Elements, 2)
	default:
		o.Kind = "AK"
		o.Names = pickN(r, []string{"script", "style", "iframe", "object", "title", "noscript", "b"}, 2)
	}
	return o
}

// RandPolicyOps draws a builder history.
func RandPolicyOps(r *rand.Rand) []*Op {
	var pats []*RE
	n := 1 + r.Intn(14)
	ops := make([]*Op, 0, n+1)
	if r.Intn(7) == 0 {
		ops = append(ops, &Op{Kind: "ZERO"}) // built on Policy{} instead of NewPolicy()
	}
	for i := 0; i < n; i++ {
		ops = append(ops, RandOp(r, &pats))
	}
	return ops
}

// --- documents -------------------------------------------------------------------

var (
	URLPool = []string{"http://example.com/", "https://a.b/c?d=e#f", "/rel/path", "rel", "//host/x", "mailto:x@y.z",
		"javascript:alert(1)", "JaVaScRiPt:alert(1)", " javascript:alert(1)", "java\tscript:alert(1)", "data:text/html,<b>",
		"data:image/png;base64,iVBORw0KGgo=", "data:image/png;base64,iVBO Rw0K\nGgo=", "vbscript:x", "ftp://h/", "tel:+1", "x-app:open",
		"http://ex ample.com", "http://[::1]:80/", "http://user:pw@host/", "http://host:port/", "http://a.b/%zz", "/%2f}", "/a b", "?q=1", "#frag",
		"http:\\\\host", "http:/path", "http:opaque", ":nos", "a:b", "./a:b", "HTTP://UP.CASE/", "http://é.example/ü", "", " ", "//", "///x", "http://a.b/c?", "http://a.b/?x=<y>&z=\"",
		"http://a.b/p%41th", "http://%41.b/", "http://a.b/#fr ag", "http://a.b/#%zz", "*", "http://host/a;b,c", "https://example.com/x y", "%", "http://a.b/\x00", "http://a.b/\x7f",
		"/search?q=&amp;lt;", "http://example.com/p?x=&amp;amp;y", "?a=1&amp;copy=2", "http://a.b/?x=&lt;y", "/a&#47;b", "data: text/plain", "data:image/png;base64 iVBOR", "data:\ttext/plain", "data:x y,z",
		"data:image/gif;base64,R0lG ODlh", "DATA:image/png;base64,AAAA", "http://a.b/?q=%26amp%3B", "mailto:a@b.c?subject=x&amp;body=y",
		"javascript:1/alert(1)", "JavaScript:80/alert(1)", "data:443/text/html,x", "vbscript:8080", "localhost:8080/path", "x:1", "/%2Fexample.com/caf\u00e9", "/%2fevil.example/a|b", "%2F%2Fexample.com/x^y", "/%2F%2Fa.b/\"q\"",
		"http://a.b/?a%26b=1", "https://a.b/p?x%3Cy=1&amp;a%22b=2", "http://a.b/?a&amp;b=1&amp;%3C=2", "http://a.b/?%27=1",
		// relative references whose fragment (or query) holds a colon; data URIs whose media type grows when lower-cased; upper-case data / base64
		"#fn:1", "notes.html#sec:2", "chart.png#xywh=percent:5,5,90,90", "p?t=1:2", "a#b:c/d", "data:\u023a\u023a\u023a\u023a;base64,a b", "data:\u0130\u023e;base64,a\nb", "DATA:image/png;BASE64,a\nb", "data:IMAGE/PNG;Base64,AA AA",
		"https:tracker.example.net/pixel.gif", "http:a.b/c", "mailto:x"}
	RelPool    = []string{"help ", "help\t", "author\n", " help", "help  me", "nofollow ", " ", "external\u00a0nofollow", "noopener\vnofollow", "nofollow\u0085noreferrer", "noreferrer\u2003x", "", "nofollow", "noopener", "noreferrer", "nofollow noopener", "xnofollowx", "NOFOLLOW", "author", "a b c", "noopenerx", "no follow",
		// tokens of which a link type is a proper prefix or suffix, before and after the genuine token
		"nofollow-sponsored nofollow", "NoFollowed x", "noreferrer/v2 noreferrer", "noopener-strict noopener", "nofollow-x", "xnofollow nofollow", "nofollow nofollow-x", "noreferrer-a noopener-b nofollow-c"}
	TargetPool = []string{"_blank", "_BLANK", "_self", "", "x", " _blank"}
	StylePool  = []string{"color: red\\3000", "color: red\\2028", "color: red\\a0", "font-family: serif\\00a0;", "color: \\3000", "color: red\\85", "color: a\\2003 b", "color: red\\1680;width: 1px", "color: red\\205f", "color: red", "color:red;", "COLOR: RED", "color: red; width: 1px", "width:1px;color:blue;x-prop:y", "color: \\72 ed",
		"color: b\\6C ue", "color: \\52 ED", "width: expressi\\6F n(1)", "color: r\\00006Cd", "x-prop: \\A9 x", "color: \\4F range", "color: r\\65 d", "background: url(javascript:alert(1))", "background: url('http://a.b/c.png')", "color: red !important", "color: red ! IMPORTANT ;",
		"-webkit-color: red", "-moz--webkit-width: 2px", "col-o-or: red", "co-ms-lor: red", "widmso-th: 1px", "-webkit-col-o-or: red", "color-o-: red", "transfor-ms-m: none", "-o-col-tc-or: blue",
		"font-family: \\1f4a9, serif", "font-family: \\1f4a9\\1f4a9, serif", "color: \\1f600\\1f600", "mso-color: blue", "font-family: 'a b', serif", "font-family: \\110000 x", "color: expression(alert(1))",
		"text-align: LEFT", "text-align: right;;", ";color:red", "color", "color:", ":red", "color: red; } x { y: z", "{color:red}", "color: red /* c */", "color: /* c */ red",
		"color: red; /* unclosed", "color: 'unclosed", "width: 1px; grid: 1px 1px 1px", "margin: 1px 2px", "display: none", "color:red;color:blue", "color: re\\d", "color: red\\9",
		"x-prop: straSSe", "x-prop: STRAßE", "x-prop: K", "color: red; width: 1PX ", "color:\tred", "color: red\r\nwidth:1px", "color: red\x00", "width: 10%", "color: #fff", "color: rgb(1,2,3)",
		"a:b:c", "color: red; -->", "<!-- color: red", "color: \"}\"; width: 1px", "@import 'x'; color: red", "color: red; @media", "width: 1e3px", "width: .5em", "width: 1.", "color: U+0-7F",
		"color: \xff", "color\xff: red", "\xef\xbb\xbfcolor: red", "color: url( 'a' )", "color: u\\72l(x)", "color: x(", "color: x()", "color: a~=b", "color: a|b", "color: $=x", "color: *", "color: <", "color: <!--x"}
	TextPool = []string{"hello", " ", "a & b", "1 < 2", "x > y", "&amp;", "&lt;script&gt;", "\"q\"", "'s'", "\r\n", "é", "\x00", "&#60;", "&notit;", "tab\there", "<", "&", "]]>", "MARK", "&#13;", "a&#xD;b", "cr\rlf", "&#13;&#10;", "&#10;",
		// an incomplete UTF-8 sequence right before an entity or markup-looking text
		"caf\xc3&lt;b&gt;", "\xe2\x82&lt;i&gt;x", "\xf0&amp;&lt;", "\xc3<", "x\xe2\x82\xac\xe2&gt;"}
)

// SampleRe draws a string from the language of n (best effort; anchors ignored).
func SampleRe(r *rand.Rand, n *Node, depth int) string {
	switch n.Op {
	case "E", "N", "^", "$", "b", "e":
		return ""
	case "A", "D":
		return Pick(r, []string{"a", "Z", "0", " ", "<", "é", "-"})
	case "C":
		if len(n.Ranges) == 0 {
			return ""
		}
		rg := n.Ranges[r.Intn(len(n.Ranges))]
		span := int(rg[1]-rg[0]) + 1
		if span > 64 {
			span = 64
		}
		return string(rg[0] + rune(r.Intn(span)))
	case ".":
		return SampleRe(r, n.Sub[0], depth) + SampleRe(r, n.Sub[1], depth)
	case "|":
		return SampleRe(r, n.Sub[r.Intn(2)], depth)
	case "?", "q":
		if r.Intn(2) == 0 {
			return ""
		}
		return SampleRe(r, n.Sub[0], depth)
	case "*", "s", "+", "p":
		k := r.Intn(4)
		if n.Op == "+" || n.Op == "p" {
			k++
		}
		var b strings.Builder
		for i := 0; i < k; i++ {
			b.WriteString(SampleRe(r, n.Sub[0], depth+1))
		}
		return b.String()
	}
	return ""
}

// DocGen grows documents from a policy's own vocabulary plus controlled damage.
type DocGen struct {
	R        *rand.Rand
	Els      []string       // element names worth using (policy's + a few others)
	Attrs    []string       // attribute names worth using
	ValueRes map[string][]*RE // attr name -> value patterns seen in the policy
	AllRes   []*RE
	// TrustImpl: let the implementation pre-filter candidate tags in Conforming(); off = build
	// candidates from the rules alone (so a defect that drops conforming tags stays visible)
	TrustImpl bool
}

// NewDocGen inspects a builder history.
func NewDocGen(r *rand.Rand, ops []*Op) *DocGen {
	g := &DocGen{R: r, ValueRes: map[string][]*RE{}}
	seenE, seenA := map[string]bool{}, map[string]bool{}
	addE := func(e string) {
		e = strings.ToLower(e)
		if !seenE[e] {
			seenE[e] = true
			g.Els = append(g.Els, e)
		}
	}
	addA := func(a string) {
		a = strings.ToLower(a)
		if !seenA[a] {
			seenA[a] = true
			g.Attrs = append(g.Attrs, a)
		}
	}
	for _, o := range ops {
		switch o.Kind {
		case "AE", "SK", "AK":
			for _, e := range o.Names {
				addE(e)
			}
		case "AEM":
			addE(elementFor(r, o.Re))
		case "AA", "AS":
			if o.Kind == "AA" {
				for _, a := range o.Names {
					addA(a)
					if o.Re != nil {
						g.ValueRes[strings.ToLower(a)] = append(g.ValueRes[strings.ToLower(a)], o.Re)
						g.AllRes = append(g.AllRes, o.Re)
					}
				}
			} else {
				addA("style")
			}
			for _, e := range o.ScopeEl {
				addE(e)
			}
			if o.ScopeRe != nil {
				addE(elementFor(r, o.ScopeRe))
			}
		}
	}
	for i := 0; i < 4; i++ {
		addE(Pick(r, Elements))
		addA(Pick(r, AttrNames))
	}
	for _, a := range []string{"href", "src", "rel", "target", "style"} {
		if r.Intn(2) == 0 {
			addA(a)
		}
	}
	for _, e := range []string{"a", "img", "iframe", "script", "b"} {
		if r.Intn(2) == 0 {
			addE(e)
		}
	}
	return g
}

// elementFor finds a vocabulary name matched by an element pattern, or samples one.
func elementFor(r *rand.Rand, re *RE) string {
	var hits []string
	for _, e := range Elements {
		if re.Go.MatchString(e) {
			hits = append(hits, e)
		}
	}
	if len(hits) > 0 {
		return hits[r.Intn(len(hits))]
	}
	s := strings.ToLower(SampleRe(r, re.Node, 0))
	if s == "" || !(s[0] >= 'a' && s[0] <= 'z') || strings.ContainsAny(s, " \t\n\f\r/>") {
		return "my-el"
	}
	return s
}

// Value draws a value for attribute name a.
func (g *DocGen) Value(a string) string {
	r := g.R
	switch a {
	case "href", "src", "cite":
		if r.Intn(5) == 0 {
			break
		}
		return Pick(r, URLPool)
	case "rel":
		if r.Intn(4) != 0 {
			return Pick(r, RelPool)
		}
	case "target":
		if r.Intn(4) != 0 {
			return Pick(r, TargetPool)
		}
	case "style":
		if r.Intn(8) != 0 {
			s := Pick(r, StylePool)
			if r.Intn(4) == 0 {
				s += "; " + Pick(r, StylePool)
			}
			return s
		}
	case "sandbox":
		n := r.Intn(4)
		var parts []string
		for i := 0; i < n; i++ {
			if r.Intn(4) == 0 {
				parts = append(parts, Pick(r, []string{"allow-all", "ALLOW-FORMS", "x"}))
			} else {
				parts = append(parts, Pick(r, SandboxNames))
			}
		}
		return strings.Join(parts, Pick(r, []string{" ", "  ", "\t", " ", "\n"}))
	case "crossorigin":
		return Pick(r, []string{"anonymous", "use-credentials", "", "x"})
	}
	if res := g.ValueRes[a]; len(res) > 0 && r.Intn(3) != 0 {
		return SampleRe(r, res[r.Intn(len(res))].Node, 0)
	}
	if len(g.AllRes) > 0 && r.Intn(3) == 0 {
		return SampleRe(r, g.AllRes[r.Intn(len(g.AllRes))].Node, 0)
	}
	return Pick(r, []string{"", "x", "1", "left", "a b", "<", "\"", "'", "&amp;", "é", "10%", "nowrap", "red", "en"})
}

func quoteAttr(r *rand.Rand, v string) string {
	switch k := r.Intn(10); {
	case k < 6:
		return "\"" + strings.NewReplacer("&", "&amp;", "\"", "&#34;").Replace(v) + "\""
	case k < 8:
		return "'" + strings.NewReplacer("&", "&amp;", "'", "&#39;").Replace(v) + "'"
	default:
		if v == "" || strings.ContainsAny(v, " \t\n\f\r>\"'=`<&") {
			return "\"" + strings.NewReplacer("&", "&amp;", "\"", "&quot;").Replace(v) + "\""
		}
		return v
	}
}

func (g *DocGen) tag(name string) string {
	r := g.R
	var b strings.Builder
	b.WriteString("<")
	if r.Intn(10) == 0 {
		b.WriteString(strings.ToUpper(name))
	} else {
		b.WriteString(name)
	}
	n := r.Intn(4)
	if r.Intn(3) == 0 {
		n = 0
	}
	for i := 0; i < n; i++ {
		a := g.Attrs[r.Intn(len(g.Attrs))]
		b.WriteString(" ")
		b.WriteString(a)
		if r.Intn(12) != 0 {
			b.WriteString("=")
			b.WriteString(quoteAttr(r, g.Value(a)))
		}
	}
	if r.Intn(15) == 0 {
		b.WriteString("/")
	}
	b.WriteString(">")
	return b.String()
}

func isVoid(name string) bool {
	for _, v := range VoidElements {
		if v == name {
			return true
		}
	}
	return false
}

// Doc emits a mostly well-nested document of roughly n nodes.
func (g *DocGen) Doc(n int) []byte {
	r := g.R
	var b strings.Builder
	var stack []string
	for i := 0; i < n; i++ {
		switch k := r.Intn(20); {
		case k < 6:
			b.WriteString(Pick(r, TextPool))
		case k < 14:
			e := g.Els[r.Intn(len(g.Els))]
			b.WriteString(g.tag(e))
			if !isVoid(e) {
				stack = append(stack, e)
			}
		case k < 18:
			if len(stack) > 0 {
				b.WriteString("</" + stack[len(stack)-1] + ">")
				stack = stack[:len(stack)-1]
			}
		case k == 18:
			b.WriteString(Pick(r, []string{"<!-- c -->", "<!DOCTYPE html>", "<![CDATA[x]]>", "<?pi?>", "<!--->", "<!-- a -- b -->", "<!-- > -->"}))
		default:
			// controlled damage
			b.WriteString(Pick(r, []string{"</b>", "<", "<a href=", "</", "<x", "&", "<script>alert(1)</script>", "<style>x{}</style>", "<script/>MARK</script>"}))
		}
	}
	if r.Intn(4) != 0 {
		for i := len(stack) - 1; i >= 0; i-- {
			b.WriteString("</" + stack[i] + ">")
		}
	}
	return []byte(b.String())
}
