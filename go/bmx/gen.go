// Package bmx holds what the extractor and the correspondence harness share:
// input generators, the builder-op vocabulary, canonical encodings.
package bmx

import (
	"math/rand"
	"strings"
)

// Frag is the alphabet of the malformed-input stream: every piece is something the
// x/net/html tokenizer treats specially somewhere.
var Frag = []string{
	"<", ">", "</", "/>", "/", "=", "\"", "'", " ", "  ", "\t", "\n", "\r", "\r\n", "\f", "\x00",
	"<!--", "-->", "--!>", "--", "-", "!", "<!", "<?", "?>", "<![CDATA[", "]]>", "<!DOCTYPE", "<!doctype html>",
	"&", ";", "&amp;", "&amp", "&lt;", "&lt", "&gt;", "&gt", "&quot;", "&#34;", "&#39;", "&#13;", "&#x3c;", "&#60;", "&#60", "&#x3C",
	"&#0;", "&#x80;", "&#xD800;", "&#x110000;", "&#99999999999;", "&#x;", "&#;", "&#1", "&#12x", "&notit;", "&notin;", "&not", "&nGt;", "&ampx", "&amp=", "&copy=",
	"a", "b", "p", "i", "img", "br", "div", "span", "script", "style", "iframe", "title", "textarea", "xmp", "plaintext",
	"noscript", "noembed", "noframes", "object", "svg", "math", "my-el", "A", "SCRIPT", "Style", "ScRiPt", "IMG", "TITLE",
	"href", "src", "id", "class", "onclick", "style", "rel", "target", "HREF", "data-x", "cite",
	"http://a.b/c", "javascript:alert(1)", "x", "y", "1", "0", "é", "İ", "K", " ", "😀", "\xff", "\xc3", "\xe2\x82", "\xed\xa0\x80",
	"<a", "<b>", "</b>", "<script>", "</script>", "<style>", "</style>", "<title>", "</title>", "<textarea>", "</textarea>",
	"<iframe>", "</iframe>", "<script/>", "<br/>", "<img src=x>", "<a href=\"", "<p ", "</p >", "</scr", "</SCRIPT ", "<!---", "<!-->",
	"<scriptx", "</scriptx", "<!--<script>", "<script ", "`", "\\", ":", "(", ")", ",", ".", "#", "%", "+", "[", "]", "{", "}", "|", "~", "^", "$", "*", "@", "_",
}

// RandMalformed draws n fragments.
func RandMalformed(r *rand.Rand, n int) []byte {
	var b strings.Builder
	for i := 0; i < n; i++ {
		b.WriteString(Frag[r.Intn(len(Frag))])
	}
	return []byte(b.String())
}

// RandBytes draws n bytes biased towards markup-significant ones.
func RandBytes(r *rand.Rand, n int) []byte {
	const hot = "<>/=\"' \t\n\r\f\x00&;#!-?[]xX0123456789abcdefsScCrRiIpPtT"
	b := make([]byte, n)
	for i := range b {
		switch r.Intn(10) {
		case 0:
			b[i] = byte(r.Intn(256))
		default:
			b[i] = hot[r.Intn(len(hot))]
		}
	}
	return b
}

// Pick returns a random element.
func Pick(r *rand.Rand, xs []string) string { return xs[r.Intn(len(xs))] }
