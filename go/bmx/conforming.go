package bmx

import (
	"strings"

	"github.com/microcosm-cc/bluemonday"
	"golang.org/x/net/html"
)

// Conforming grows a canonical, well-nested document whose tags the real policy keeps
// unchanged (the implementation is used only to *find* candidates; whether a document
// conforms is decided independently by the Lean oracle).
func (g *DocGen) Conforming(pol *bluemonday.Policy, n int) []byte {
	r := g.R
	var b strings.Builder
	var stack []string
	lastText := false
	for i := 0; i < n; i++ {
		switch k := r.Intn(10); {
		case k < 3:
			if !lastText {
				b.WriteString(html.EscapeString(Pick(r, []string{"hello", "a & b", "1 < 2", "x", "é", "tab\there", "q\"uote", "it's"})))
				lastText = true
			}
		case k < 8:
			if len(g.Els) == 0 {
				continue
			}
			e := g.Els[r.Intn(len(g.Els))]
			if rawTextNames[e] || !(e[0] >= 'a' && e[0] <= 'z') {
				continue
			}
			var attrs []html.Attribute
			na := r.Intn(3)
			seen := map[string]bool{}
			for j := 0; j < na && len(g.Attrs) > 0; j++ {
				a := g.Attrs[r.Intn(len(g.Attrs))]
				if seen[a] || strings.ContainsAny(a, " =\"'<>/") {
					continue
				}
				seen[a] = true
				attrs = append(attrs, html.Attribute{Key: a, Val: g.Value(a)})
			}
			tok := html.Token{Type: html.StartTagToken, Data: e, Attr: attrs}
			src := tok.String()
			if g.TrustImpl {
				out := pol.Sanitize(src)
				if out != src && !(len(attrs) > 0 && strings.HasPrefix(out, "<"+e+" ")) {
					continue // the policy does not keep this tag
				}
			}
			b.WriteString(src)
			lastText = false
			if !isVoid(e) {
				stack = append(stack, e)
			}
		default:
			if len(stack) > 0 {
				b.WriteString("</" + stack[len(stack)-1] + ">")
				stack = stack[:len(stack)-1]
				lastText = false
			}
		}
	}
	for i := len(stack) - 1; i >= 0; i-- {
		b.WriteString("</" + stack[i] + ">")
	}
	return []byte(b.String())
}
