package bmx

import (
	"fmt"
	"net/url"
	"regexp"
	"strings"

	"github.com/microcosm-cc/bluemonday"
)

// RE is one compiled regexp value: an identity (the pointer, numbered), its source,
// and its translation for the Lean side.
type RE struct {
	ID   int
	Src  string
	Go   *regexp.Regexp
	Node *Node
}

var reCounter int

// NewRE compiles src (a fresh identity each call, as a fresh MustCompile would be).
func NewRE(src string) *RE {
	n, err := ParseRe(src)
	if err != nil {
		panic(fmt.Sprintf("regex %q: %v", src, err))
	}
	reCounter++
	return &RE{ID: reCounter, Src: src, Go: regexp.MustCompile(src), Node: n}
}

func (r *RE) enc() string {
	if r == nil {
		return "-"
	}
	return fmt.Sprintf("%d~%s", r.ID, r.Node.Sexp())
}

// Op is one builder call in protocol form.
type Op struct {
	Kind    string   // AE AEM AA AS DA AC USM RW NF NFQ NR NRQ CO TB PU RU US UC SB SP SK AK UN
	Names   []string // element / attribute / property / scheme / sandbox names
	Re      *RE      // value pattern (AA, AS), element pattern (AEM), scheme pattern (USM)
	Empty   bool     // AA: AllowNoAttrs
	Scope   string   // E M G
	ScopeEl []string
	ScopeRe *RE
	Handler string   // AS: named handler ("" = none); "default" handled via no matcher at all
	Enum    []string // AS
	Flag    bool
	Cb      string // UC / RW: named callback
}

func hexList(xs []string) string {
	if len(xs) == 0 {
		return "-"
	}
	parts := make([]string, len(xs))
	for i, x := range xs {
		parts[i] = HexS(x)
	}
	return strings.Join(parts, ",")
}

func flag(b bool) string {
	if b {
		return "1"
	}
	return "0"
}

func (o *Op) scopeEnc() string {
	switch o.Scope {
	case "E":
		return "E:" + hexList(o.ScopeEl)
	case "M":
		return "M:" + o.ScopeRe.enc()
	}
	return "G:-"
}

// Encode renders the op for the Lean driver.
func (o *Op) Encode() string {
	switch o.Kind {
	case "AE", "US", "SB", "SK", "AK":
		return o.Kind + ":" + hexList(o.Names)
	case "AEM", "USM":
		return o.Kind + ":" + o.Re.enc()
	case "AA":
		return "AA:" + hexList(o.Names) + ":" + o.Re.enc() + ":" + flag(o.Empty) + ":" + o.scopeEnc()
	case "AS":
		h := "-"
		if o.Handler != "" {
			h = HexS(o.Handler)
		}
		return "AS:" + hexList(o.Names) + ":" + h + ":" + hexList(o.Enum) + ":" + o.Re.enc() + ":" + o.scopeEnc()
	case "DA", "AC", "ZERO":
		return o.Kind
	case "NF", "NFQ", "NR", "NRQ", "CO", "TB", "PU", "RU", "SP", "UN":
		return o.Kind + ":" + flag(o.Flag)
	case "UC":
		return "UC:" + HexS(o.Names[0]) + ":" + HexS(o.Cb)
	case "DU":
		// AllowDataURIImages(): RequireParseableURLs(true) and the library's own check for data:
		return "PU:1!UC:" + HexS("data") + ":" + HexS("datauri")
	case "RW":
		return "RW:" + HexS(o.Cb)
	}
	panic("unknown op kind " + o.Kind)
}

// EncodeOps renders a builder history.
func EncodeOps(ops []*Op) string {
	if len(ops) == 0 {
		return "-"
	}
	parts := make([]string, len(ops))
	for i, o := range ops {
		parts[i] = o.Encode()
	}
	return strings.Join(parts, "!")
}

// URLPolicy returns the Go callback for a named URL check.
func URLPolicy(name string) func(*url.URL) bool {
	switch {
	case name == "always":
		return func(*url.URL) bool { return true }
	case name == "never":
		return func(*url.URL) bool { return false }
	case name == "noquery":
		return func(u *url.URL) bool { return u.RawQuery == "" }
	case strings.HasPrefix(name, "host="):
		h := name[5:]
		return func(u *url.URL) bool { return u.Host == h }
	case strings.HasPrefix(name, "opaqueprefix="):
		h := name[13:]
		return func(u *url.URL) bool { return strings.HasPrefix(u.Opaque, h) }
	}
	panic("unknown url policy " + name)
}

// Rewriter returns the Go callback for a named src rewriter.
func Rewriter(name string) func(*url.URL) {
	switch {
	case name == "id":
		return func(*url.URL) {}
	case strings.HasPrefix(name, "sethost="):
		h := name[8:]
		return func(u *url.URL) { u.Host = h }
	case name == "clearquery":
		return func(u *url.URL) { u.RawQuery = "" }
	case name == "relproxy":
		// rewrites to a relative reference: something the policy itself may not accept from a user
		return func(u *url.URL) {
			old := u.String()
			*u = url.URL{Path: "/media-proxy", RawQuery: "u=" + url.QueryEscape(old)}
		}
	case strings.HasPrefix(name, "proxy="):
		h := name[6:]
		return func(u *url.URL) {
			old := u.String()
			u.Scheme = "https"
			u.Host = h
			u.Opaque = ""
			u.User = nil
			u.Path = "/proxy"
			u.RawPath = ""
			u.OmitHost = false
			u.ForceQuery = false
			u.RawQuery = "u=" + url.QueryEscape(old)
			u.Fragment = ""
			u.RawFragment = ""
		}
	}
	panic("unknown rewriter " + name)
}

// StyleHandler returns the Go callback for a named style handler.
func StyleHandler(name string) func(string) bool {
	switch {
	case name == "always":
		return func(string) bool { return true }
	case name == "never":
		return func(string) bool { return false }
	case name == "noparen":
		return func(v string) bool { return !strings.ContainsAny(v, "(\\") }
	case strings.HasPrefix(name, "eq="):
		h := name[3:]
		return func(v string) bool { return v == h }
	}
	panic("unknown style handler " + name)
}

var sandboxByName = map[string]bluemonday.SandboxValue{
	"allow-downloads":                         bluemonday.SandboxAllowDownloads,
	"allow-downloads-without-user-activation": bluemonday.SandboxAllowDownloadsWithoutUserActivation,
	"allow-forms":                             bluemonday.SandboxAllowForms,
	"allow-modals":                            bluemonday.SandboxAllowModals,
	"allow-orientation-lock":                  bluemonday.SandboxAllowOrientationLock,
	"allow-pointer-lock":                      bluemonday.SandboxAllowPointerLock,
	"allow-popups":                            bluemonday.SandboxAllowPopups,
	"allow-popups-to-escape-sandbox":          bluemonday.SandboxAllowPopupsToEscapeSandbox,
	"allow-presentation":                      bluemonday.SandboxAllowPresentation,
	"allow-same-origin":                       bluemonday.SandboxAllowSameOrigin,
	"allow-scripts":                           bluemonday.SandboxAllowScripts,
	"allow-storage-access-by-user-activation": bluemonday.SandboxAllowStorageAccessByUserActivation,
	"allow-top-navigation":                    bluemonday.SandboxAllowTopNavigation,
	"allow-top-navigation-by-user-activation": bluemonday.SandboxAllowTopNavigationByUserActivation,
}

// SandboxNames lists the fourteen sandbox tokens in declaration order.
var SandboxNames = []string{
	"allow-downloads", "allow-downloads-without-user-activation", "allow-forms", "allow-modals",
	"allow-orientation-lock", "allow-pointer-lock", "allow-popups", "allow-popups-to-escape-sandbox",
	"allow-presentation", "allow-same-origin", "allow-scripts", "allow-storage-access-by-user-activation",
	"allow-top-navigation", "allow-top-navigation-by-user-activation",
}

func reGo(r *RE) *regexp.Regexp {
	if r == nil {
		return nil
	}
	return r.Go
}

// Apply performs the builder call on the real policy.
func (o *Op) Apply(p *bluemonday.Policy) {
	switch o.Kind {
	case "ZERO":
		// pseudo-op: handled by Build / NewBase
	case "AE":
		p.AllowElements(o.Names...)
	case "AEM":
		p.AllowElementsMatching(o.Re.Go)
	case "AA":
		b := p.AllowAttrs(o.Names...)
		if len(o.Names) == 0 {
			b = p.AllowNoAttrs()
		} else if o.Empty {
			b = b.AllowNoAttrs()
		}
		if o.Re != nil {
			b = b.Matching(o.Re.Go)
		}
		switch o.Scope {
		case "E":
			b.OnElements(o.ScopeEl...)
		case "M":
			b.OnElementsMatching(o.ScopeRe.Go)
		default:
			b.Globally()
		}
	case "AS":
		b := p.AllowStyles(o.Names...)
		if o.Re != nil {
			b = b.Matching(o.Re.Go)
		}
		if len(o.Enum) > 0 {
			b = b.MatchingEnum(o.Enum...)
		}
		if o.Handler != "" {
			b = b.MatchingHandler(StyleHandler(o.Handler))
		}
		switch o.Scope {
		case "E":
			b.OnElements(o.ScopeEl...)
		case "M":
			b.OnElementsMatching(o.ScopeRe.Go)
		default:
			b.Globally()
		}
	case "DA":
		p.AllowDataAttributes()
	case "AC":
		p.AllowComments()
	case "USM":
		p.AllowURLSchemesMatching(o.Re.Go)
	case "RW":
		p.RewriteSrc(Rewriter(o.Cb))
	case "NF":
		p.RequireNoFollowOnLinks(o.Flag)
	case "NFQ":
		p.RequireNoFollowOnFullyQualifiedLinks(o.Flag)
	case "NR":
		p.RequireNoReferrerOnLinks(o.Flag)
	case "NRQ":
		p.RequireNoReferrerOnFullyQualifiedLinks(o.Flag)
	case "CO":
		p.RequireCrossOriginAnonymous(o.Flag)
	case "TB":
		p.AddTargetBlankToFullyQualifiedLinks(o.Flag)
	case "PU":
		p.RequireParseableURLs(o.Flag)
	case "RU":
		p.AllowRelativeURLs(o.Flag)
	case "US":
		p.AllowURLSchemes(o.Names...)
	case "UC":
		p.AllowURLSchemeWithCustomPolicy(o.Names[0], URLPolicy(o.Cb))
	case "DU":
		p.AllowDataURIImages()
	case "SB":
		vals := make([]bluemonday.SandboxValue, len(o.Names))
		for i, n := range o.Names {
			vals[i] = sandboxByName[n]
		}
		p.RequireSandboxOnIFrame(vals...)
	case "SP":
		p.AddSpaceWhenStrippingTag(o.Flag)
	case "SK":
		p.SkipElementsContent(o.Names...)
	case "AK":
		p.AllowElementsContent(o.Names...)
	case "UN":
		p.AllowUnsafe(o.Flag)
	default:
		panic("unknown op kind " + o.Kind)
	}
}

// Build applies a history to a fresh NewPolicy() — or, when the history starts with the
// pseudo-op ZERO, to a zero-value Policy{} (which the library initialises lazily).
func Build(ops []*Op) *bluemonday.Policy {
	p := bluemonday.NewPolicy()
	if len(ops) > 0 && ops[0].Kind == "ZERO" {
		p = &bluemonday.Policy{}
	}
	for _, o := range ops {
		if o.Kind == "ZERO" {
			continue
		}
		o.Apply(p)
	}
	return p
}

// NewBase returns the policy value a history starts from.
func NewBase(ops []*Op) *bluemonday.Policy {
	if len(ops) > 0 && ops[0].Kind == "ZERO" {
		return &bluemonday.Policy{}
	}
	return bluemonday.NewPolicy()
}

// RegexNamer returns the VerifDump naming callback for the regexps used in ops.
func RegexNamer(ops []*Op) bluemonday.VerifRegexName {
	m := map[*regexp.Regexp]int{}
	for _, o := range ops {
		for _, r := range []*RE{o.Re, o.ScopeRe} {
			if r != nil {
				m[r.Go] = r.ID
			}
		}
	}
	return func(r *regexp.Regexp) string {
		if id, ok := m[r]; ok {
			return fmt.Sprintf("r%d", id)
		}
		return "r?"
	}
}
