package main

import (
	"crypto/sha256"
	"encoding/hex"
	"fmt"
	"go/ast"
	"go/parser"
	"go/token"
	"path/filepath"
	"sort"
	"strconv"
	"strings"

	"verif/bmx"
)

// Translation of the straight-line builder-call sequences of policies.go, helpers.go
// and cmd/*/main.go into lists of BM.BuilderOp (BM/Gen/Shipped.lean).

type reVar struct {
	name, src string
	id        int
}

type shipX struct {
	fset    *token.FileSet
	reVars  map[string]*reVar   // package-level regexps (by identifier)
	helpers map[string]*ast.FuncDecl
	nextID  int
	inline  []*reVar // inline MustCompile occurrences, in execution order
	closure map[string]string // hash of the only closure argument we accept
}

func (x *shipX) pos(n ast.Node) string { return x.fset.Position(n.Pos()).String() }

func strArgs(x *shipX, args []ast.Expr) []string {
	out := make([]string, len(args))
	for i, a := range args {
		bl, ok := a.(*ast.BasicLit)
		if !ok || bl.Kind != token.STRING {
			fatal("%s: argument is not a string literal", x.pos(a))
		}
		s, err := strconv.Unquote(bl.Value)
		if err != nil {
			fatal("%v", err)
		}
		out[i] = s
	}
	return out
}

func leanNames(xs []string) string {
	parts := make([]string, len(xs))
	for i, s := range xs {
		parts[i] = leanBytes(s)
	}
	return "[" + strings.Join(parts, ", ") + "]"
}

// regex resolves a regexp argument to a Lean `Pat` term.
func (x *shipX) regex(e ast.Expr) string {
	switch v := e.(type) {
	case *ast.Ident:
		if rv, ok := x.reVars[v.Name]; ok {
			return fmt.Sprintf("⟨%d, Re.matchBytes pat%s⟩", rv.id, rv.name)
		}
	case *ast.SelectorExpr: // bluemonday.Integer from cmd/
		if isIdent(v.X, "bluemonday") {
			if rv, ok := x.reVars[v.Sel.Name]; ok {
				return fmt.Sprintf("⟨%d, Re.matchBytes pat%s⟩", rv.id, rv.name)
			}
		}
	case *ast.CallExpr:
		if sel, ok := v.Fun.(*ast.SelectorExpr); ok && isIdent(sel.X, "regexp") && sel.Sel.Name == "MustCompile" && len(v.Args) == 1 {
			src := x.stringLit(v.Args[0])
			x.nextID++
			rv := &reVar{name: fmt.Sprintf("Inline%d", x.nextID), src: src, id: x.nextID}
			x.inline = append(x.inline, rv)
			return fmt.Sprintf("⟨%d, Re.matchBytes pat%s⟩", rv.id, rv.name)
		}
	}
	fatal("%s: regexp argument not understood", x.pos(e))
	return ""
}

// stringLit evaluates a string literal or a concatenation of literals.
func (x *shipX) stringLit(e ast.Expr) string {
	switch v := e.(type) {
	case *ast.BasicLit:
		s, err := strconv.Unquote(v.Value)
		if err != nil {
			fatal("%v", err)
		}
		return s
	case *ast.BinaryExpr:
		if v.Op == token.ADD {
			return x.stringLit(v.X) + x.stringLit(v.Y)
		}
	case *ast.ParenExpr:
		return x.stringLit(v.X)
	}
	fatal("%s: not a constant string", x.pos(e))
	return ""
}

func boolArg(x *shipX, args []ast.Expr) string {
	if len(args) == 1 {
		if isIdent(args[0], "true") {
			return "true"
		}
		if isIdent(args[0], "false") {
			return "false"
		}
	}
	fatal("%s: boolean literal expected", x.pos(args[0]))
	return ""
}

type chainCall struct {
	name string
	args []ast.Expr
	node *ast.CallExpr
}

// chain flattens p.A(..).B(..).C(..) into [A B C]; ok=false if the root is not `recv`.
func chain(e ast.Expr, recv string) ([]chainCall, bool) {
	call, ok := e.(*ast.CallExpr)
	if !ok {
		return nil, false
	}
	sel, ok := call.Fun.(*ast.SelectorExpr)
	if !ok {
		return nil, false
	}
	if isIdent(sel.X, recv) {
		return []chainCall{{sel.Sel.Name, call.Args, call}}, true
	}
	prev, ok := chain(sel.X, recv)
	if !ok {
		return nil, false
	}
	return append(prev, chainCall{sel.Sel.Name, call.Args, call}), true
}

var boolOps = map[string]string{
	"RequireNoFollowOnLinks":                 "requireNoFollowOnLinks",
	"RequireNoFollowOnFullyQualifiedLinks":   "requireNoFollowOnFullyQualifiedLinks",
	"RequireNoReferrerOnLinks":               "requireNoReferrerOnLinks",
	"RequireNoReferrerOnFullyQualifiedLinks": "requireNoReferrerOnFullyQualifiedLinks",
	"RequireCrossOriginAnonymous":            "requireCrossOriginAnonymous",
	"AddTargetBlankToFullyQualifiedLinks":    "addTargetBlankToFullyQualifiedLinks",
	"RequireParseableURLs":                   "requireParseableURLs",
	"AllowRelativeURLs":                      "allowRelativeURLs",
	"AddSpaceWhenStrippingTag":               "addSpaceWhenStrippingTag",
	"AllowUnsafe":                            "allowUnsafe",
}

// ops translates one builder statement into Lean BuilderOp terms.
func (x *shipX) ops(cs []chainCall, depth int) []string {
	if depth > 8 {
		fatal("helper expansion too deep")
	}
	first := cs[0]
	switch first.name {
	case "AllowElements":
		return []string{"(.allowElements " + leanNames(strArgs(x, first.args)) + ")"}
	case "AllowURLSchemes":
		return []string{"(.allowURLSchemes " + leanNames(strArgs(x, first.args)) + ")"}
	case "SkipElementsContent":
		return []string{"(.skipElementsContent " + leanNames(strArgs(x, first.args)) + ")"}
	case "AllowElementsContent":
		return []string{"(.allowElementsContent " + leanNames(strArgs(x, first.args)) + ")"}
	case "AllowDataAttributes":
		return []string{".allowDataAttributes"}
	case "AllowComments":
		return []string{".allowComments"}
	case "AllowURLSchemeWithCustomPolicy":
		scheme := strArgs(x, first.args[:1])[0]
		fl, ok := first.args[1].(*ast.FuncLit)
		if !ok {
			fatal("%s: custom URL policy is not a function literal", x.pos(first.node))
		}
		h := sha256.Sum256([]byte(srcOf(x.fset, fl)))
		x.closure["dataURIImage"] = hex.EncodeToString(h[:])
		return []string{"(.allowURLSchemeWithCustomPolicy " + leanBytes(scheme) + " dataURIImagePolicy)"}
	case "AllowAttrs", "AllowNoAttrs":
		names := []string{}
		empty := "false"
		if first.name == "AllowAttrs" {
			names = strArgs(x, first.args)
		} else {
			empty = "true"
		}
		re := "none"
		for _, c := range cs[1:] {
			switch c.name {
			case "Matching":
				re = "(some " + x.regex(c.args[0]) + ")"
			case "AllowNoAttrs":
				empty = "true"
			case "OnElements":
				return []string{fmt.Sprintf("(.allowAttrs %s %s %s (.onElements %s))", leanNames(names), re, empty, leanNames(strArgs(x, c.args)))}
			case "OnElementsMatching":
				return []string{fmt.Sprintf("(.allowAttrs %s %s %s (.onElementsMatching %s))", leanNames(names), re, empty, x.regex(c.args[0]))}
			case "Globally":
				return []string{fmt.Sprintf("(.allowAttrs %s %s %s .globally)", leanNames(names), re, empty)}
			default:
				fatal("%s: attribute builder method %s not modelled", x.pos(c.node), c.name)
			}
		}
		fatal("%s: attribute builder chain without terminal call", x.pos(first.node))
	default:
		if op, ok := boolOps[first.name]; ok && len(cs) == 1 {
			return []string{"(." + op + " " + boolArg(x, first.args) + ")"}
		}
		if fd, ok := x.helpers[first.name]; ok && len(cs) == 1 && len(first.args) == 0 {
			return x.body(fd, depth+1)
		}
	}
	fatal("%s: builder call %s not modelled", x.pos(first.node), first.name)
	return nil
}

// body translates the statements of a function whose receiver/policy variable is `p`.
func (x *shipX) body(fd *ast.FuncDecl, depth int) []string {
	var out []string
	for _, st := range fd.Body.List {
		switch s := st.(type) {
		case *ast.ExprStmt:
			cs, ok := chain(s.X, "p")
			if !ok {
				// tolerated: statements that do not touch the policy come after it is built
				// (cmd/: reading stdin, printing); they must not mention p at all
				mentions := false
				ast.Inspect(s, func(n ast.Node) bool {
					if id, ok := n.(*ast.Ident); ok && id.Name == "p" {
						mentions = true
					}
					return true
				})
				if mentions {
					if call, ok := s.X.(*ast.CallExpr); ok && isSanitizeUse(call) {
						continue
					}
					fatal("%s: statement uses the policy in a way that is not modelled", x.pos(s))
				}
				continue
			}
			out = append(out, x.ops(cs, depth)...)
		case *ast.AssignStmt, *ast.ReturnStmt, *ast.IfStmt, *ast.DeclStmt:
			// `p := NewPolicy()` / `return p` / error handling in cmd: checked by the caller
		default:
			fatal("%s: statement kind %T not modelled", x.pos(st), st)
		}
	}
	return out
}

// isSanitizeUse recognises fmt.Fprint(os.Stdout, p.Sanitize(string(dirty))).
func isSanitizeUse(call *ast.CallExpr) bool {
	found := false
	ast.Inspect(call, func(n ast.Node) bool {
		if sel, ok := n.(*ast.SelectorExpr); ok && isIdent(sel.X, "p") && sel.Sel.Name == "Sanitize" {
			found = true
		}
		return true
	})
	return found
}

func (x *shipX) collectReVars(f *ast.File) {
	for _, d := range f.Decls {
		gd, ok := d.(*ast.GenDecl)
		if !ok || gd.Tok != token.VAR {
			continue
		}
		for _, sp := range gd.Specs {
			vs := sp.(*ast.ValueSpec)
			if len(vs.Names) != 1 || len(vs.Values) != 1 {
				continue
			}
			call, ok := vs.Values[0].(*ast.CallExpr)
			if !ok {
				continue
			}
			sel, ok := call.Fun.(*ast.SelectorExpr)
			if !ok || !isIdent(sel.X, "regexp") || sel.Sel.Name != "MustCompile" {
				continue
			}
			x.nextID++
			x.reVars[vs.Names[0].Name] = &reVar{name: vs.Names[0].Name, src: x.stringLit(call.Args[0]), id: x.nextID}
		}
	}
}

func baseOf(fd *ast.FuncDecl) string {
	base := ""
	ast.Inspect(fd.Body, func(n ast.Node) bool {
		as, ok := n.(*ast.AssignStmt)
		if !ok || len(as.Lhs) != 1 || !isIdent(as.Lhs[0], "p") || len(as.Rhs) != 1 {
			return true
		}
		if call, ok := as.Rhs[0].(*ast.CallExpr); ok {
			switch fn := call.Fun.(type) {
			case *ast.Ident:
				base = fn.Name
			case *ast.SelectorExpr:
				base = fn.Sel.Name
			}
		}
		return true
	})
	return base
}

func genShipped(outDir string) {
	x := &shipX{fset: token.NewFileSet(), reVars: map[string]*reVar{}, helpers: map[string]*ast.FuncDecl{}, closure: map[string]string{}}
	parse := func(path string) *ast.File {
		f, err := parser.ParseFile(x.fset, path, nil, 0)
		if err != nil {
			fatal("parse %s: %v", path, err)
		}
		return f
	}
	helpersF := parse("/repo/helpers.go")
	policiesF := parse("/repo/policies.go")
	x.collectReVars(helpersF)
	exported := make([]string, 0)
	for n := range x.reVars {
		exported = append(exported, n)
	}
	sort.Strings(exported)
	for _, d := range helpersF.Decls {
		if fd, ok := d.(*ast.FuncDecl); ok && fd.Recv != nil {
			x.helpers[fd.Name.Name] = fd
		}
	}
	type policyDef struct {
		name, base string
		ops        []string
	}
	var defs []policyDef
	for _, d := range policiesF.Decls {
		fd, ok := d.(*ast.FuncDecl)
		if !ok || fd.Recv != nil {
			continue
		}
		switch fd.Name.Name {
		case "UGCPolicy":
			if baseOf(fd) != "NewPolicy" {
				fatal("UGCPolicy does not start from NewPolicy()")
			}
			defs = append(defs, policyDef{"ugc", "newPolicy", x.body(fd, 0)})
		case "StrictPolicy":
			// must be `return NewPolicy()`
			ok := len(fd.Body.List) == 1
			if ok {
				rs, isRet := fd.Body.List[0].(*ast.ReturnStmt)
				ok = isRet && len(rs.Results) == 1
				if ok {
					call, isCall := rs.Results[0].(*ast.CallExpr)
					ok = isCall && isIdent(call.Fun, "NewPolicy") && len(call.Args) == 0
				}
			}
			if !ok {
				fatal("StrictPolicy is no longer `return NewPolicy()`; BM.strictPolicy must be revisited")
			}
		case "StripTagsPolicy":
		default:
			fatal("policies.go: unknown constructor %s", fd.Name.Name)
		}
	}
	// cmd tools
	for _, tool := range []string{"sanitise_ugc", "sanitise_html_email"} {
		f := parse("/repo/cmd/" + tool + "/main.go")
		x.collectReVars(f)
		for _, d := range f.Decls {
			fd, ok := d.(*ast.FuncDecl)
			if !ok || fd.Name.Name != "main" {
				continue
			}
			if baseOf(fd) != "UGCPolicy" {
				fatal("cmd/%s does not start from UGCPolicy()", tool)
			}
			name := "cmdUgc"
			if tool == "sanitise_html_email" {
				name = "cmdHtmlEmail"
			}
			defs = append(defs, policyDef{name, "ugcPolicy", x.body(fd, 0)})
		}
	}

	var b strings.Builder
	b.WriteString("import BM.Shipped\n/- GENERATED by go/cmd/extract from /repo/helpers.go, policies.go, cmd/*/main.go — do not edit. -/\nnamespace BM.Gen\nopen BM\n\n")
	all := make([]*reVar, 0)
	for _, rv := range x.reVars {
		all = append(all, rv)
	}
	all = append(all, x.inline...)
	sort.Slice(all, func(i, j int) bool { return all[i].id < all[j].id })
	for _, rv := range all {
		n, err := bmx.ParseRe(rv.src)
		if err != nil {
			fatal("regexp %s: %v", rv.name, err)
		}
		fmt.Fprintf(&b, "/-- `%s` -/\ndef pat%s : Re :=\n  %s\n\n", strings.ReplaceAll(rv.src, "-/", "- /"), rv.name, n.Lean())
	}
	b.WriteString("/-- regexp identity ↦ hex of its source (for source-named policy dumps) -/\ndef reSources : List (Nat × String) := [\n")
	for i, rv := range all {
		fmt.Fprintf(&b, "  (%d, %s)", rv.id, leanStr(hex.EncodeToString([]byte(rv.src))))
		if i+1 < len(all) {
			b.WriteString(",")
		}
		b.WriteString("\n")
	}
	b.WriteString("]\n\n")
	b.WriteString("/-- the exported value patterns of helpers.go, by name -/\ndef exportedMatchers : List (String × Re) := [\n")
	var em []string
	for _, n := range exported {
		if ast.IsExported(n) {
			em = append(em, fmt.Sprintf("  (%s, pat%s)", leanStr(n), n))
		}
	}
	b.WriteString(strings.Join(em, ",\n") + "\n]\n\n")
	fmt.Fprintf(&b, "/-- sha256 of the source of the closure passed to AllowURLSchemeWithCustomPolicy in AllowDataURIImages -/\ndef dataURIImageClosureHash : String := %s\n\n", leanStr(x.closure["dataURIImage"]))
	for _, d := range defs {
		fmt.Fprintf(&b, "def %sOps : List BuilderOp := [\n  %s\n]\n\n", d.name, strings.Join(d.ops, ",\n  "))
		fmt.Fprintf(&b, "def %sPolicy : Policy := applyOps defaultHandler %s %sOps\n\n", d.name, d.base, d.name)
	}
	b.WriteString("end BM.Gen\n")
	writeFile(filepath.Join(outDir, "Shipped.lean"), b.String())
}
