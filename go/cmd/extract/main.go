// Command extract regenerates /verif/lean/BM/Gen/*.lean from the current /repo
// working tree (and from the pinned dependencies it is built against).
package main

import (
	"flag"
	"os"
	"path/filepath"
)

var workDir string

func main() {
	out := flag.String("out", "/verif/lean/BM/Gen", "output directory for generated Lean files")
	only := flag.String("only", "", "generate only this file (entities|...)")
	flag.StringVar(&workDir, "work", "/verif/work", "directory for non-Lean artefacts (vocabularies)")
	flag.Parse()
	if err := os.MkdirAll(*out, 0o755); err != nil {
		fatal("%v", err)
	}
	gens := []struct {
		name string
		fn   func(string)
	}{
		{"entities", genEntities},
		{"scanner", genScanner},
		{"unicode", genUnicode},
		{"defaults", genDefaults},
		{"handlers", genHandlers},
		{"shipped", genShipped},
		{"sanfacts", genSanFacts},
		{"builderfacts", genBuilderFacts},
		{"srcpins", genSrcPins},
	}
	for _, g := range gens {
		if *only == "" || *only == g.name {
			g.fn(*out)
		}
	}
	_ = filepath.Join
}
