package main

import (
	"bytes"
	"crypto/sha256"
	"fmt"
	"go/ast"
	"go/parser"
	"go/printer"
	"go/token"
	"path/filepath"
	"sort"
	"strconv"
	"strings"

	"verif/bmx"
)

// Translation of css/handlers.go into the Go-lite AST of BM/Golite.lean.
// Anything outside the fragment stops the extractor (exit 2) instead of being guessed.

type hx struct {
	fset    *token.FileSet
	regexes map[string]bool
}

func (h *hx) pos(n ast.Node) string { return h.fset.Position(n.Pos()).String() }

func leanStr(s string) string { return strconv.Quote(s) }

func (h *hx) exprList(es []ast.Expr) string {
	parts := make([]string, len(es))
	for i, e := range es {
		parts[i] = h.expr(e)
	}
	return "[" + strings.Join(parts, ", ") + "]"
}

func isIdent(e ast.Expr, name string) bool {
	id, ok := e.(*ast.Ident)
	return ok && id.Name == name
}

func (h *hx) expr(e ast.Expr) string {
	switch x := e.(type) {
	case *ast.ParenExpr:
		return h.expr(x.X)
	case *ast.Ident:
		switch x.Name {
		case "true":
			return "(.bool true)"
		case "false":
			return "(.bool false)"
		case "nil":
			return ".nil"
		}
		return "(.var " + leanStr(x.Name) + ")"
	case *ast.BasicLit:
		switch x.Kind {
		case token.STRING:
			s, err := strconv.Unquote(x.Value)
			if err != nil {
				fatal("%s: %v", h.pos(x), err)
			}
			return "(.str " + leanBytes(s) + ")"
		case token.INT:
			return "(.int " + x.Value + ")"
		}
	case *ast.CompositeLit:
		at, ok := x.Type.(*ast.ArrayType)
		if !ok || at.Len != nil {
			break
		}
		if isIdent(at.Elt, "string") {
			return "(.strs " + h.exprList(x.Elts) + ")"
		}
		if _, ok := at.Elt.(*ast.FuncType); ok {
			names := make([]string, len(x.Elts))
			for i, el := range x.Elts {
				id, ok := el.(*ast.Ident)
				if !ok {
					fatal("%s: function list element is not an identifier", h.pos(el))
				}
				names[i] = leanStr(id.Name)
			}
			return "(.funcs [" + strings.Join(names, ", ") + "])"
		}
	case *ast.UnaryExpr:
		if x.Op == token.NOT {
			return "(.not " + h.expr(x.X) + ")"
		}
	case *ast.BinaryExpr:
		switch x.Op {
		case token.LAND, token.LOR, token.EQL, token.NEQ, token.LSS, token.GTR, token.LEQ, token.GEQ, token.ADD:
			return "(.bin " + leanStr(x.Op.String()) + " " + h.expr(x.X) + " " + h.expr(x.Y) + ")"
		}
	case *ast.IndexExpr:
		return "(.index " + h.expr(x.X) + " " + h.expr(x.Index) + ")"
	case *ast.SliceExpr:
		if x.Low != nil && x.High == nil && x.Max == nil {
			return "(.sliceFrom " + h.expr(x.X) + " " + h.expr(x.Low) + ")"
		}
	case *ast.CallExpr:
		return h.call(x)
	}
	fatal("%s: expression outside the modelled fragment: %T", h.pos(e), e)
	return ""
}

// replaceAllEmpty recognises string(RE.ReplaceAll([]byte(x), []byte{})).
func (h *hx) replaceAllEmpty(x *ast.CallExpr) (string, bool) {
	if !isIdent(x.Fun, "string") || len(x.Args) != 1 {
		return "", false
	}
	inner, ok := x.Args[0].(*ast.CallExpr)
	if !ok || len(inner.Args) != 2 {
		return "", false
	}
	sel, ok := inner.Fun.(*ast.SelectorExpr)
	if !ok || sel.Sel.Name != "ReplaceAll" {
		return "", false
	}
	re, ok := sel.X.(*ast.Ident)
	if !ok || !h.regexes[re.Name] {
		return "", false
	}
	conv, ok := inner.Args[0].(*ast.CallExpr)
	if !ok || len(conv.Args) != 1 {
		return "", false
	}
	if at, ok := conv.Fun.(*ast.ArrayType); !ok || !isIdent(at.Elt, "byte") {
		return "", false
	}
	empty, ok := inner.Args[1].(*ast.CompositeLit)
	if !ok || len(empty.Elts) != 0 {
		return "", false
	}
	return "(.reDelete " + leanStr(re.Name) + " " + h.expr(conv.Args[0]) + ")", true
}

func (h *hx) call(x *ast.CallExpr) string {
	if s, ok := h.replaceAllEmpty(x); ok {
		return s
	}
	switch fn := x.Fun.(type) {
	case *ast.Ident:
		switch fn.Name {
		case "append":
			if len(x.Args) == 2 {
				if x.Ellipsis.IsValid() {
					return "(.call \"appendSpread\" " + h.exprList(x.Args) + ")"
				}
				return "(.call \"append\" " + h.exprList(x.Args) + ")"
			}
		case "len", "in", "splitValues", "multiSplit", "recursiveCheck":
			return "(.call " + leanStr(fn.Name) + " " + h.exprList(x.Args) + ")"
		default:
			if strings.HasSuffix(fn.Name, "Handler") && len(x.Args) == 1 {
				return "(.handler " + leanStr(fn.Name) + " " + h.expr(x.Args[0]) + ")"
			}
		}
	case *ast.SelectorExpr:
		recv, ok := fn.X.(*ast.Ident)
		if !ok {
			break
		}
		if recv.Name == "strings" {
			switch fn.Sel.Name {
			case "Split", "TrimSpace", "TrimSuffix":
				return "(.call " + leanStr("strings."+fn.Sel.Name) + " " + h.exprList(x.Args) + ")"
			}
		} else if h.regexes[recv.Name] && len(x.Args) == 1 {
			switch fn.Sel.Name {
			case "MatchString":
				return "(.reMatch " + leanStr(recv.Name) + " " + h.expr(x.Args[0]) + ")"
			case "FindString":
				return "(.reFind " + leanStr(recv.Name) + " " + h.expr(x.Args[0]) + ")"
			}
		}
	}
	fatal("%s: call outside the modelled fragment", h.pos(x))
	return ""
}

func (h *hx) block(b *ast.BlockStmt) string {
	if b == nil {
		return "[]"
	}
	parts := make([]string, 0, len(b.List))
	for _, s := range b.List {
		parts = append(parts, h.stmt(s))
	}
	return "[" + strings.Join(parts, ",\n    ") + "]"
}

func (h *hx) stmt(s ast.Stmt) string {
	switch x := s.(type) {
	case *ast.AssignStmt:
		if len(x.Lhs) == 1 && len(x.Rhs) == 1 && (x.Tok == token.DEFINE || x.Tok == token.ASSIGN) {
			id, ok := x.Lhs[0].(*ast.Ident)
			if ok {
				return "(.assign " + leanStr(id.Name) + " " + h.expr(x.Rhs[0]) + ")"
			}
		}
	case *ast.ReturnStmt:
		if len(x.Results) == 1 {
			return "(.ret " + h.expr(x.Results[0]) + ")"
		}
	case *ast.BranchStmt:
		if x.Label == nil {
			switch x.Tok {
			case token.BREAK:
				return ".brk"
			case token.CONTINUE:
				return ".cont"
			}
		}
	case *ast.IfStmt:
		if x.Init == nil {
			els := "[]"
			switch e := x.Else.(type) {
			case nil:
			case *ast.BlockStmt:
				els = h.block(e)
			case *ast.IfStmt:
				els = "[" + h.stmt(e) + "]"
			default:
				fatal("%s: else form not modelled", h.pos(x))
			}
			return "(.ifS " + h.expr(x.Cond) + " " + h.block(x.Body) + " " + els + ")"
		}
	case *ast.RangeStmt:
		if isIdent(x.Key, "_") && x.Tok == token.DEFINE {
			if v, ok := x.Value.(*ast.Ident); ok {
				return "(.forRange " + leanStr(v.Name) + " " + h.expr(x.X) + " " + h.block(x.Body) + ")"
			}
		}
	}
	fatal("%s: statement outside the modelled fragment: %T", h.pos(s), s)
	return ""
}

func srcOf(fset *token.FileSet, n ast.Node) string {
	var b bytes.Buffer
	printer.Fprint(&b, fset, n)
	return b.String()
}

func genHandlers(outDir string) {
	fset := token.NewFileSet()
	f, err := parser.ParseFile(fset, "/repo/css/handlers.go", nil, 0)
	if err != nil {
		fatal("parse handlers.go: %v", err)
	}
	h := &hx{fset: fset, regexes: map[string]bool{}}
	var b strings.Builder
	b.WriteString("import BM.Golite\n/- GENERATED by go/cmd/extract from /repo/css/handlers.go — do not edit. -/\nnamespace BM.Gen\nopen BM.Golite\n\n")

	// package-level vars: regexps, colorValues, defaultStyleHandlers
	type reDef struct{ name, src string }
	var res []reDef
	var table [][2]string
	var colors []string
	for _, d := range f.Decls {
		gd, ok := d.(*ast.GenDecl)
		if !ok || gd.Tok != token.VAR {
			continue
		}
		for _, sp := range gd.Specs {
			vs := sp.(*ast.ValueSpec)
			if len(vs.Names) != 1 || len(vs.Values) != 1 {
				fatal("%s: unexpected var spec", h.pos(vs))
			}
			name := vs.Names[0].Name
			switch v := vs.Values[0].(type) {
			case *ast.CallExpr:
				sel, ok := v.Fun.(*ast.SelectorExpr)
				if !ok || !isIdent(sel.X, "regexp") || sel.Sel.Name != "MustCompile" || len(v.Args) != 1 {
					fatal("%s: var %s is not a regexp.MustCompile literal", h.pos(v), name)
				}
				lit, ok := v.Args[0].(*ast.BasicLit)
				if !ok {
					fatal("%s: regexp %s is not a literal", h.pos(v), name)
				}
				src, err := strconv.Unquote(lit.Value)
				if err != nil {
					fatal("%v", err)
				}
				res = append(res, reDef{name, src})
				h.regexes[name] = true
			case *ast.CompositeLit:
				switch name {
				case "defaultStyleHandlers":
					for _, el := range v.Elts {
						kv := el.(*ast.KeyValueExpr)
						k, _ := strconv.Unquote(kv.Key.(*ast.BasicLit).Value)
						id, ok := kv.Value.(*ast.Ident)
						if !ok {
							fatal("%s: handler table value is not an identifier", h.pos(kv))
						}
						table = append(table, [2]string{k, id.Name})
					}
				case "colorValues":
					for _, el := range v.Elts {
						s, _ := strconv.Unquote(el.(*ast.BasicLit).Value)
						colors = append(colors, s)
					}
				default:
					fatal("%s: unknown package variable %s", h.pos(v), name)
				}
			default:
				fatal("%s: unknown package variable %s", h.pos(vs), name)
			}
		}
	}
	sort.Slice(res, func(i, j int) bool { return res[i].name < res[j].name })
	for _, r := range res {
		n, err := bmx.ParseRe(r.src)
		if err != nil {
			fatal("css regexp %s: %v", r.name, err)
		}
		fmt.Fprintf(&b, "/-- `%s` -/\ndef cssRe%s : Re :=\n  %s\n\n", strings.ReplaceAll(r.src, "-/", "- /"), r.name, n.Lean())
	}
	b.WriteString("def cssRegexes : List (String × Re) := [\n")
	for i, r := range res {
		fmt.Fprintf(&b, "  (%s, cssRe%s)", leanStr(r.name), r.name)
		if i+1 < len(res) {
			b.WriteString(",")
		}
		b.WriteString("\n")
	}
	b.WriteString("]\n\n")
	fmt.Fprintf(&b, "def colorValues : List Bytes :=\n  %s\n\n", leanBytesList(colors))
	b.WriteString("def defaultStyleHandlers : List (Bytes × String) := [\n")
	for i, kv := range table {
		fmt.Fprintf(&b, "  (%s, %s)", leanBytes(kv[0]), leanStr(kv[1]))
		if i+1 < len(table) {
			b.WriteString(",")
		}
		b.WriteString("\n")
	}
	b.WriteString("]\n\n")

	// functions
	skip := map[string]bool{"multiSplit": true, "recursiveCheck": true, "recursiveCheckFrom": true, "in": true, "splitValues": true, "GetDefaultHandler": true}
	var names []string
	hashes := map[string]string{}
	for _, d := range f.Decls {
		fd, ok := d.(*ast.FuncDecl)
		if !ok {
			continue
		}
		if skip[fd.Name.Name] {
			hashes[fd.Name.Name] = fmt.Sprintf("%x", sha256.Sum256([]byte(srcOf(fset, fd))))
			continue
		}
		if fd.Recv != nil || len(fd.Type.Params.List) != 1 || len(fd.Type.Params.List[0].Names) != 1 {
			fatal("%s: handler %s has an unexpected signature", h.pos(fd), fd.Name.Name)
		}
		param := fd.Type.Params.List[0].Names[0].Name
		// colorValues is a package-level []string used as a plain value
		body := h.block(fd.Body)
		fmt.Fprintf(&b, "def fn%s : Func := { name := %s, param := %s, body :=\n    %s }\n\n",
			fd.Name.Name, leanStr(fd.Name.Name), leanStr(param), body)
		names = append(names, fd.Name.Name)
	}
	b.WriteString("def cssFuncs : List Func := [\n")
	for i, n := range names {
		fmt.Fprintf(&b, "  fn%s", n)
		if i+1 < len(names) {
			b.WriteString(",")
		}
		b.WriteString("\n")
	}
	b.WriteString("]\n\n")
	b.WriteString("def cssProgram : Program := { funcs := cssFuncs, regexes := cssRegexes }\n\n")
	// helper pins
	b.WriteString("/-- sha256 of the printed source of the four hand-modelled helpers -/\ndef helperHashes : List (String × String) := [\n")
	hn := []string{"in", "multiSplit", "recursiveCheck", "recursiveCheckFrom", "splitValues", "GetDefaultHandler"}
	for i, n := range hn {
		fmt.Fprintf(&b, "  (%s, %s)", leanStr(n), leanStr(hashes[n]))
		if i+1 < len(hn) {
			b.WriteString(",")
		}
		b.WriteString("\n")
	}
	b.WriteString("]\n\nend BM.Gen\n")
	writeFile(filepath.Join(outDir, "CssHandlers.lean"), b.String())

	// vocabulary for the handler-level generators: every string literal in a function body
	seen := map[string]bool{}
	var vocab []string
	for _, d := range f.Decls {
		fd, ok := d.(*ast.FuncDecl)
		if !ok {
			continue
		}
		ast.Inspect(fd.Body, func(n ast.Node) bool {
			if bl, ok := n.(*ast.BasicLit); ok && bl.Kind == token.STRING {
				if s, err := strconv.Unquote(bl.Value); err == nil && !seen[s] && s != "" {
					seen[s] = true
					vocab = append(vocab, s)
				}
			}
			return true
		})
	}
	for _, c := range colors {
		if !seen[c] {
			seen[c] = true
			vocab = append(vocab, c)
		}
	}
	sort.Strings(vocab)
	var props []string
	for _, kv := range table {
		props = append(props, kv[0])
	}
	writeFile(filepath.Join(workDir, "css_vocab.txt"), strings.Join(vocab, "\n")+"\n")
	writeFile(filepath.Join(workDir, "css_props.txt"), strings.Join(props, "\n")+"\n")
}
