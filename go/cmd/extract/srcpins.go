package main

import (
	"bytes"
	"crypto/sha1"
	"fmt"
	"go/ast"
	"go/parser"
	"go/printer"
	"go/token"
	"os"
	"path/filepath"
	"sort"
	"strings"
)

// genSrcPins fingerprints the hand-modelled source: for every non-test, non-hook .go file of the
// package, every top-level declaration (functions by receiver and name; var / const / type groups
// by their names) with the SHA-1 of its printed syntax — comments and layout do not count.  The
// two long functions are split further: `sanitize` into the statements around its token switch
// and one unit per case clause, `sanitizeAttrs` into its top-level statements (the statements of
// the `if linkable(elementName)` block one level deeper).  BM/Props/SrcPin/Cxx.lean states, per
// property, which units the model and the proofs of that property were written against; a change
// to one of them — or, for the whole-policy properties, a new declaration or file — breaks that
// statement, and only that property's obligations.
func genSrcPins(out string) {
	fset := token.NewFileSet()
	files, err := filepath.Glob("/repo/*.go")
	if err != nil {
		fatal("%v", err)
	}
	sort.Strings(files)
	type unit struct{ name, hash string }
	var units []unit
	hashOf := func(n interface{}) string {
		var buf bytes.Buffer
		cfg := printer.Config{Mode: printer.RawFormat}
		if err := cfg.Fprint(&buf, token.NewFileSet(), n); err != nil {
			fatal("print: %v", err)
		}
		// position-independent: collapse all white space
		s := strings.Join(strings.Fields(buf.String()), " ")
		return fmt.Sprintf("%x", sha1.Sum([]byte(s)))[:16]
	}
	text := func(n ast.Node) string {
		var buf bytes.Buffer
		printer.Fprint(&buf, token.NewFileSet(), n)
		s := strings.Join(strings.Fields(buf.String()), " ")
		if len(s) > 60 {
			s = s[:60]
		}
		return s
	}
	label := func(s ast.Stmt) string {
		switch x := s.(type) {
		case *ast.IfStmt:
			return "if:" + text(x.Cond)
		case *ast.ForStmt, *ast.RangeStmt:
			if r, ok := s.(*ast.RangeStmt); ok {
				return "for:range " + text(r.X)
			}
			return "for"
		case *ast.AssignStmt:
			return "assign:" + text(x.Lhs[0])
		case *ast.SwitchStmt:
			if x.Tag != nil {
				return "switch:" + text(x.Tag)
			}
			return "switch"
		case *ast.ReturnStmt:
			return "return"
		case *ast.DeclStmt:
			return "decl:" + text(x.Decl)
		case *ast.ExprStmt:
			return "expr:" + text(x.X)
		case *ast.LabeledStmt:
			return "label:" + x.Label.Name
		}
		return fmt.Sprintf("%T", s)
	}
	add := func(name string, n interface{}) { units = append(units, unit{name, hashOf(n)}) }
	for _, path := range files {
		base := filepath.Base(path)
		if strings.HasSuffix(base, "_test.go") || base == "verif_hooks.go" || base == "doc.go" {
			continue
		}
		f, err := parser.ParseFile(fset, path, nil, 0)
		if err != nil {
			fatal("%s: %v", base, err)
		}
		for _, d := range f.Decls {
			switch x := d.(type) {
			case *ast.FuncDecl:
				name := x.Name.Name
				if x.Recv != nil && len(x.Recv.List) > 0 {
					name = text(x.Recv.List[0].Type) + "." + name
				}
				unitName := base + "/func/" + name
				if base == "sanitize.go" && x.Name.Name == "sanitize" && x.Body != nil {
					// one unit per case clause of the token switch, one for everything around it
					var sw *ast.SwitchStmt
					ast.Inspect(x.Body, func(n ast.Node) bool {
						if s, ok := n.(*ast.SwitchStmt); ok && sw == nil && s.Tag != nil && text(s.Tag) == "token.Type" {
							sw = s
							return false
						}
						return true
					})
					if sw == nil {
						fatal("sanitize.go: the token switch of sanitize() was not found")
					}
					for _, c := range sw.Body.List {
						cc := c.(*ast.CaseClause)
						cn := "default"
						if len(cc.List) > 0 {
							cn = text(cc.List[0])
						}
						add(unitName+"/case:"+cn, cc)
					}
					sw.Body.List = nil
					add(unitName+"/around-switch", x)
					continue
				}
				if base == "sanitize.go" && x.Name.Name == "sanitizeAttrs" && x.Body != nil {
					add(unitName+"/signature", x.Type)
					seen := map[string]int{}
					var walk func(prefix string, list []ast.Stmt, depth int)
					walk = func(prefix string, list []ast.Stmt, depth int) {
						for _, s := range list {
							l := prefix + "/" + label(s)
							seen[l]++
							if seen[l] > 1 {
								l = fmt.Sprintf("%s#%d", l, seen[l])
							}
							if is, ok := s.(*ast.IfStmt); ok && depth == 0 && text(is.Cond) == "linkable(elementName)" && is.Else == nil {
								walk(l, is.Body.List, depth+1)
								continue
							}
							add(l, s)
						}
					}
					walk(unitName, x.Body.List, 0)
					continue
				}
				add(unitName, x)
			case *ast.GenDecl:
				if x.Tok == token.IMPORT {
					continue
				}
				var names []string
				for _, sp := range x.Specs {
					switch s := sp.(type) {
					case *ast.ValueSpec:
						for _, n := range s.Names {
							names = append(names, n.Name)
						}
					case *ast.TypeSpec:
						names = append(names, s.Name.Name)
					}
				}
				n := strings.Join(names, ",")
				if len(n) > 80 {
					n = n[:80]
				}
				add(base+"/"+x.Tok.String()+"/"+n, x)
			}
		}
	}
	var b strings.Builder
	b.WriteString("/- GENERATED by go/cmd/extract from /repo/*.go — do not edit. -/\nnamespace BM.Gen\n\n")
	b.WriteString("/-- (unit, SHA-1 prefix of its printed syntax) for every declaration of the package, in source order -/\n")
	b.WriteString("def srcPins : List (String × String) := [\n")
	for i, u := range units {
		sep := ","
		if i == len(units)-1 {
			sep = ""
		}
		fmt.Fprintf(&b, "  (%q, %q)%s\n", u.name, u.hash, sep)
	}
	b.WriteString("]\n\n/-- the units that are not functions: package-level variables, constants and types -/\n")
	b.WriteString("def srcState : List (String × String) := [\n")
	var st []unit
	for _, u := range units {
		if !strings.Contains(u.name, "/func/") {
			st = append(st, u)
		}
	}
	for i, u := range st {
		sep := ","
		if i == len(st)-1 {
			sep = ""
		}
		fmt.Fprintf(&b, "  (%q, %q)%s\n", u.name, u.hash, sep)
	}
	b.WriteString("]\n\nend BM.Gen\n")
	if err := os.WriteFile(filepath.Join(out, "SrcPins.lean"), []byte(b.String()), 0o644); err != nil {
		fatal("%v", err)
	}
}
