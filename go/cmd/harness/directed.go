package main

import (
	"sort"
	"fmt"
	"strings"

	"verif/bmx"

	"github.com/microcosm-cc/bluemonday"
	"github.com/microcosm-cc/bluemonday/css"
)

func cssGetDefault(prop string) func(string) bool { return css.GetDefaultHandler(prop) }

var _ = bluemonday.NewPolicy

// C05: script/style in every syntactic form, with unique markers ZQ<n> in the bodies
func directedC05(c *ctx) {
	policies := [][]*bmx.Op{
		{{Kind: "AE", Names: []string{"b", "p"}}},
		{{Kind: "AE", Names: []string{"script", "style", "b"}}},
		{{Kind: "AE", Names: []string{"script", "style"}}, {Kind: "AK", Names: []string{"script", "style"}}},
		{{Kind: "AEM", Re: bmx.NewRE(`^s`)}, {Kind: "AK", Names: []string{"script", "style"}}},
		{{Kind: "AEM", Re: bmx.NewRE(`.`)}, {Kind: "AA", Names: []string{"type", "src"}, Scope: "G"}, {Kind: "AK", Names: []string{"script", "style"}}, {Kind: "SP", Flag: true}},
		{{Kind: "AA", Empty: true, Scope: "E", ScopeEl: []string{"script", "style"}}, {Kind: "AA", Names: []string{"src", "type"}, Scope: "E", ScopeEl: []string{"script", "style"}}, {Kind: "AC"}},
		{{Kind: "AE", Names: []string{"svg", "math", "title", "textarea", "xmp"}}, {Kind: "AK", Names: []string{"script", "style", "title"}}},
		// nothing allowed at all (StrictPolicy's shape), with each of the switches that do not allow anything
		{{Kind: "SP", Flag: false}},
		{{Kind: "SP", Flag: true}, {Kind: "AC"}},
		{{Kind: "AK", Names: []string{"script", "style", "title"}}},
		{{Kind: "SK", Names: []string{"b"}}, {Kind: "RU", Flag: true}},
	}
	m := 0
	mark := func() string { m++; return fmt.Sprintf("ZQ%d", m) }
	names := []string{"script", "style", "SCRIPT", "Style", "sCrIpT", "scrıpt", "ſcript", "scrİpt", "script\x00", "scriptx", "xscript"}
	forms := func(n string) []string {
		a, b, d := mark(), mark(), mark()
		return []string{
			"<" + n + ">" + a + "</" + n + ">",
			"<" + n + "/>" + a + "</" + n + ">",
			"<" + n + " type=\"text/x\" src=x>" + a + "</" + n + ">after",
			"<" + n + ">" + a,
			"<" + n + "><!--" + a + "</" + n + ">" + b + "--></" + n + ">",
			"<" + n + "><!--<" + n + ">" + a + "</" + n + ">" + b + "</" + n + ">",
			"<svg><" + n + ">" + a + "</" + n + "></svg>",
			"<math><" + n + "/>" + a + "</" + n + "></math>",
			"<b><" + n + ">" + a + "</b>" + b + "</" + n + ">" + d,
			"<" + n + ">" + a + "</" + n + " ><" + n + ">" + b + "</" + n + "\n>",
			"<title><" + n + ">" + a + "</" + n + "></title>",
			"<" + n + "/><b>" + a + "</b></" + n + ">",
			"</" + n + ">" + "<" + n + " />" + a + "</" + n + ">",
			"<" + n + "//>" + a + "</" + n + ">",
			"<" + n + " a=/>" + a + "</" + n + ">",
			// a body that contains tags of its own, also after svg / math (foreign content for a tree builder, not for the tokenizer)
			"<" + n + "><b>" + a + "</b>;" + b + "</" + n + ">",
			"<svg><" + n + "><a href=x>" + a + "</a></" + n + "></svg>",
			"<svg><" + n + "><b>" + a + "</b>;" + b + "</" + n + ">",
			"<math><p><" + n + "><i>" + a + "</i><!-- " + b + " --></" + n + ">" + d,
			"<SVG><title>t</title><" + n + "><b>" + a + "</b></" + n + "></SVG>",
		}
	}
	for _, ops := range policies {
		pid, pol := c.policy(ops)
		for _, n := range names {
			for _, f := range forms(n) {
				c.san(pid, pol, []byte(f))
			}
		}
	}
	for _, name := range []string{"@STRICT", "@UGC"} {
		pid, pol := c.shipped(name)
		for _, n := range names {
			for _, f := range forms(n) {
				c.san(pid, pol, []byte(f))
			}
		}
	}
	families["san"](c)
}

// C08/C09: all well-nested documents of bounded depth over a small alphabet of element kinds
func directedNesting(c *ctx) {
	type kind struct{ open, close string }
	// kept, kept-with-attr, dropped-bare (needs attrs), disallowed, disallowed-skip, pattern-kept, void kept, void dropped, skip void
	kinds := []kind{
		{"<b>", "</b>"}, {"<a href=\"http://x/\">", "</a>"}, {"<a>", "</a>"}, {"<u>", "</u>"}, {"<object>", "</object>"},
		{"<my-el>", "</my-el>"}, {"<br>", ""}, {"<img>", ""}, {"<iframe>", "</iframe>"}, {"<my-x id=1>", "</my-x>"}, {"<span>", "</span>"},
		{"<frameset>", "</frameset>"}, {"<object data=x>", "</object>"}, {"<script>", "</script>"}, {"<style>", "</style>"}, {"<x-caf\u00e9>", "</x-caf\u00e9>"},
	}
	policies := [][]*bmx.Op{
		{{Kind: "AE", Names: []string{"b", "br"}}, {Kind: "AA", Names: []string{"href"}, Scope: "E", ScopeEl: []string{"a"}}, {Kind: "AA", Names: []string{"src"}, Scope: "E", ScopeEl: []string{"img"}},
			{Kind: "AEM", Re: bmx.NewRE(`^my-`)}, {Kind: "AA", Names: []string{"id"}, Scope: "M", ScopeRe: bmx.NewRE(`^my-x$`)}, {Kind: "US", Names: []string{"http"}}},
		{{Kind: "AE", Names: []string{"b", "br", "span"}}, {Kind: "AA", Names: []string{"href"}, Scope: "E", ScopeEl: []string{"a"}}, {Kind: "SK", Names: []string{"u", "span", "br"}},
			{Kind: "AK", Names: []string{"object"}}, {Kind: "AA", Names: []string{"id"}, Scope: "G"}, {Kind: "SP", Flag: c.r.Intn(2) == 0}},
		{{Kind: "AA", Names: []string{"id"}, Scope: "M", ScopeRe: bmx.NewRE(`^my-`)}, {Kind: "AE", Names: []string{"iframe", "object"}}, {Kind: "AA", Empty: true, Scope: "M", ScopeRe: bmx.NewRE(`^my-el$`)}},
		// AllowUnsafe: script/style are ordinary elements, also inside skipped ones
		{{Kind: "UN", Flag: true}, {Kind: "AE", Names: []string{"script", "b"}}, {Kind: "AA", Names: []string{"href"}, Scope: "E", ScopeEl: []string{"a"}}},
		// names outside ASCII in the skip-content set (x-café is one of the kinds)
		{{Kind: "AE", Names: []string{"b", "span"}}, {Kind: "SK", Names: []string{"x-caf\u00e9", "u", "X-CAF\u00c9"}}, {Kind: "AA", Names: []string{"href"}, Scope: "E", ScopeEl: []string{"a"}}},
		// an element of the skip-content set that is allowed (with attributes, or by a pattern), inside disallowed skip-content elements
		{{Kind: "AE", Names: []string{"b"}}, {Kind: "AA", Names: []string{"data"}, Scope: "E", ScopeEl: []string{"object"}}, {Kind: "SK", Names: []string{"u", "my-el"}},
			{Kind: "AEM", Re: bmx.NewRE(`^my-`)}, {Kind: "AA", Names: []string{"href"}, Scope: "E", ScopeEl: []string{"a"}}},
		// ... and whose tags are kept (bare through AllowNoAttrs on a pattern, or with a surviving attribute)
		{{Kind: "AE", Names: []string{"b"}}, {Kind: "SK", Names: []string{"u", "my-el", "my-x"}}, {Kind: "AA", Empty: true, Scope: "M", ScopeRe: bmx.NewRE(`^my-el$`)},
			{Kind: "AA", Names: []string{"id"}, Scope: "M", ScopeRe: bmx.NewRE(`^my-x$`)}, {Kind: "AA", Names: []string{"href"}, Scope: "E", ScopeEl: []string{"a"}}},
	}
	depth := 3
	if c.n > 20000 {
		depth = 4
	}
	t := 0
	for _, ops := range policies {
		pid, pol := c.policy(ops)
		var rec func(prefix string, closers []string, d int)
		rec = func(prefix string, closers []string, d int) {
			// close everything: a complete well-nested document
			doc := prefix
			for i := len(closers) - 1; i >= 0; i-- {
				doc += "t" + closers[i]
			}
			c.san(pid, pol, []byte(doc))
			if len(closers) >= 2 && t%3 == 0 {
				// the two innermost end tags in the wrong order (tag soup must not break the bookkeeping)
				soup := prefix
				for i := len(closers) - 1; i >= 0; i-- {
					j := i
					if i == len(closers)-1 {
						j = i - 1
					} else if i == len(closers)-2 {
						j = i + 1
					}
					soup += "t" + closers[j]
				}
				c.san(pid, pol, []byte(soup+"</a></b>"))
			}
			if d == depth {
				return
			}
			for _, k := range kinds {
				t++
				txt := fmt.Sprintf("T%d", t%7)
				if k.close == "" {
					rec(prefix+k.open+txt, closers, d+1)
				} else {
					rec(prefix+k.open+txt, append(append([]string{}, closers...), k.close), d+1)
					// sibling form: open+close then continue
					if d+1 < depth {
						rec(prefix+k.open+txt+k.close, closers, d+1)
					}
				}
			}
		}
		rec("", nil, 0)
	}
	// depth: hundreds to thousands of simultaneously open elements of one kind (dropped for lack of
	// attributes, kept, disallowed skip-content, pattern-kept), closed in order; thresholds around
	// powers of two
	{
		pid, pol := c.policy(policies[0])
		pid2, pol2 := c.policy(policies[1])
		for _, k := range []kind{{"<a>", "</a>"}, {"<b>", "</b>"}, {"<a href=\"http://x/\">", "</a>"}, {"<object>", "</object>"}, {"<my-el>", "</my-el>"}, {"<u>", "</u>"}} {
			for _, n := range []int{100, 255, 256, 257, 511, 512, 513, 600, 1023, 1025, 2049} {
				if c.n < 20000 && n != 257 && n != 513 {
					continue
				}
				doc := strings.Repeat(k.open, n) + "<b>text</b>" + strings.Repeat(k.close, n) + "after"
				c.san(pid, pol, []byte(doc))
				c.san(pid2, pol2, []byte(doc))
			}
		}
	}
	// an element pattern registered through AllowNoAttrs after the policy has sanitised that element
	for v := 0; v < 3; v++ {
		first := []*bmx.Op{{Kind: "AE", Names: []string{"b", "div"}}, {Kind: "AA", Names: []string{"id"}, Scope: "M", ScopeRe: bmx.NewRE(`^y-`)}}
		later := []*bmx.Op{{Kind: "AA", Empty: true, Scope: "M", ScopeRe: bmx.NewRE(`^x-`)}}
		if v == 1 {
			later = []*bmx.Op{{Kind: "AEM", Re: bmx.NewRE(`^x-`)}}
		}
		if v == 2 {
			later = []*bmx.Op{{Kind: "AA", Names: []string{"id"}, Scope: "M", ScopeRe: bmx.NewRE(`^x-`)}}
		}
		probes := []string{"<x-card>hello</x-card>", "<b><x-card id=1>t</x-card></b>"}
		pid, pol := c.policyStaged([][]*bmx.Op{first, later}, probes)
		for _, d := range []string{"<x-card>hello</x-card>", "<b><x-card id=\"1\">t</x-card></b>", "<div><x-a><x-b id=\"2\">u</x-b></x-a></div>"} {
			c.san(pid, pol, []byte(d))
		}
	}
	families["san"](c)
}

// C01: raw-text / RCDATA elements that the policy allows, with bodies that look like markup,
// after svg / math start tags (where a tree builder, but not the tokenizer, is in foreign
// content), with and without comments allowed
func directedC01(c *ctx) {
	raws := []string{"title", "textarea", "xmp", "noscript", "iframe", "noembed", "noframes", "plaintext"}
	pres := []string{"", "<svg>", "<svg><p>", "<math>", "<svg></svg>", "<svg><foreignObject>", "<MATH><mi>", "<svg><svg></svg>"}
	policies := [][]*bmx.Op{
		{{Kind: "AE", Names: append([]string{"svg", "math", "p", "b"}, raws...)}, {Kind: "AC"}},
		{{Kind: "AE", Names: append([]string{"svg", "math", "p"}, raws[:4]...)}},
		{{Kind: "AE", Names: []string{"p", "b", "title", "textarea"}}, {Kind: "AC"}, {Kind: "SP", Flag: true}},
		{{Kind: "AEM", Re: bmx.NewRE(`^(svg|math|title|xmp|noscript|p)$`)}, {Kind: "AC"}, {Kind: "AK", Names: []string{"iframe", "noembed"}}},
	}
	// a disallowed element first as a self-closing tag and then as a start tag (with and without
	// attributes), after a start tag of an allowed element: whatever the loop remembers about
	// "the most recent start tag" must not be taken for the rules of the next one
	{
		ops := []*bmx.Op{{Kind: "AE", Names: []string{"b", "p"}}, {Kind: "AA", Names: []string{"id", "href"}, Scope: "G"}, {Kind: "AEM", Re: bmx.NewRE(`^my-`)}}
		pid, pol := c.policy(ops)
		for _, a := range []string{"<b>", "<p id=1>", "<my-el>", "<b/>", ""} {
			for _, d := range []string{"svg", "form", "u", "zz-top", "object", "B2"} {
				for _, shape := range []string{"%[1]sx<%[2]s/>y<%[2]s>z</%[2]s>", "%[1]s<%[2]s/><%[2]s id=x>z</%[2]s>", "%[1]s<%[2]s id=1/><%[2]s id=2>z", "<%[2]s/>%[1]s<%[2]s>z</%[2]s>",
					"%[1]s<%[2]s></%[2]s><%[2]s>z", "%[1]s</%[2]s><%[2]s>z"} {
					c.san(pid, pol, []byte(fmt.Sprintf(shape, a, d)))
				}
			}
		}
	}
	for _, ops := range policies {
		pid, pol := c.policy(ops)
		for _, pre := range pres {
			for _, r := range raws {
				for _, body := range []string{"<!-- </" + r + "><img src=x onerror=alert(1)> -->", "<b>x</b>", "<img src=x onerror=alert(1)>", "<!-- c -->",
					"</" + r + " ><img src=x>", "<script>alert(1)</script>", "<!--><img src=x>-->", "<!-- --!><img src=x>", "&lt;img src=x&gt;"} {
					c.san(pid, pol, []byte(pre+"<"+r+">"+body+"</"+r+">t"))
				}
			}
		}
	}
	families["san"](c)
}

// policies are values (C13, C17): building and extending other policies — from every shipped
// constructor, through every table a builder call can write, in both orders — must not change
// what a finished policy does.  One `indep` line per (finished policy, probe, extension).
func independence(c *ctx) {
	probes := []string{"<a>bare</a><a href=\"http://x/\">l</a><span>s</span>", "<title>T</title><noscript>N</noscript><button>B</button>k",
		"<iframe>I</iframe><object>O</object>t<x-foo>f</x-foo>", "<b>x</b><x-a id=\"1\">y</x-a><p style=\"color: red\">p</p>",
		"<script>s</script><style>t</style>u<img src=\"data:text/html;base64,PHNjcmlwdD4=\">", "<del cite=\"ftp://x/\">d</del><a href=\"ftp://x/\">f</a>"}
	type victim struct {
		pid int
		pol *bluemonday.Policy
	}
	var victims []victim
	for _, name := range []string{"@UGC", "@STRICT"} {
		pid, pol := c.shipped(name)
		victims = append(victims, victim{pid, pol})
	}
	for _, ops := range [][]*bmx.Op{
		{{Kind: "AE", Names: []string{"a", "b", "span"}}, {Kind: "AA", Names: []string{"href"}, Scope: "E", ScopeEl: []string{"a"}}},
		{{Kind: "AE", Names: []string{"p", "title"}}, {Kind: "AS", Names: []string{"color"}, Scope: "G"}, {Kind: "AK", Names: []string{"title"}}},
	} {
		pid, pol := c.policy(ops)
		victims = append(victims, victim{pid, pol})
	}
	before := map[[2]int]string{}
	for vi, v := range victims {
		for pi, pr := range probes {
			before[[2]int{vi, pi}] = safeSanitize(v.pol, []byte(pr))
		}
	}
	ctors := []func() *bluemonday.Policy{bluemonday.NewPolicy, bluemonday.UGCPolicy, bluemonday.StrictPolicy}
	re := bmx.NewRE(`^x-`)
	exts := [][]*bmx.Op{
		{{Kind: "SK", Names: []string{"x-foo", "button"}}, {Kind: "AA", Empty: true, Scope: "E", ScopeEl: []string{"a", "x-foo"}}},
		{{Kind: "AA", Empty: true, Scope: "E", ScopeEl: []string{"x-foo"}}, {Kind: "AK", Names: []string{"iframe", "object", "noscript", "title", "script", "style", "button"}}},
		{{Kind: "AK", Names: []string{"title", "noscript"}}, {Kind: "SK", Names: []string{"b", "span", "p"}}},
		{{Kind: "AE", Names: []string{"title", "x-foo", "iframe"}}, {Kind: "AEM", Re: re}, {Kind: "AA", Names: []string{"id", "style"}, Scope: "G"}, {Kind: "AA", Names: []string{"id"}, Scope: "M", ScopeRe: re},
			{Kind: "AS", Names: []string{"color", "width"}, Scope: "G"}, {Kind: "AS", Names: []string{"color"}, Scope: "E", ScopeEl: []string{"p"}}},
		{{Kind: "US", Names: []string{"ftp", "data"}}, {Kind: "DU"}, {Kind: "UC", Names: []string{"http"}, Cb: "never"}, {Kind: "USM", Re: bmx.NewRE(`^f`)}, {Kind: "RU", Flag: true}},
		{{Kind: "UN", Flag: true}, {Kind: "AC"}, {Kind: "SP", Flag: true}, {Kind: "NF", Flag: false}, {Kind: "TB", Flag: true}, {Kind: "PU", Flag: false}, {Kind: "DA"}},
		// the chained builder forms, as the first thing the other policy does
		{{Kind: "AA", Names: []string{"href", "id"}, Empty: true, Scope: "E", ScopeEl: []string{"a", "font", "img", "x-foo", "span"}}},
		{{Kind: "AA", Names: []string{"id"}, Empty: true, Scope: "M", ScopeRe: bmx.NewRE(`^(x-|a$|span$)`)}},
		{{Kind: "AA", Names: []string{"id"}, Empty: true, Re: bmx.NewRE(`^[0-9]$`), Scope: "E", ScopeEl: []string{"a", "x-foo"}}, {Kind: "AS", Names: []string{"color"}, Enum: []string{"red"}, Scope: "E", ScopeEl: []string{"p"}}},
	}
	for ei, ext := range exts {
		for ci, ctor := range ctors {
			other := ctor()
			order := append([]*bmx.Op{}, ext...)
			if (ei+ci)%2 == 1 {
				for i, j := 0, len(order)-1; i < j; i, j = i+1, j-1 {
					order[i], order[j] = order[j], order[i]
				}
			}
			for _, o := range order {
				o.Apply(other)
			}
			safeSanitize(other, []byte(probes[(ei+ci)%len(probes)]))
			for vi, v := range victims {
				for pi, pr := range probes {
					fmt.Fprintf(c.w, "indep %d %s %s %s\n", v.pid, bmx.HexField([]byte(pr)), before[[2]int{vi, pi}], safeSanitize(v.pol, []byte(pr)))
				}
			}
		}
	}
}

// tag soup: up to three start tags (dropped for lack of attributes, kept with an attribute, not
// allowed, kept, skip-content) followed by up to four end tags of the opened elements in every
// order and multiplicity — the bookkeeping of dropped / kept / skipped elements must survive
// end tags that arrive out of order, twice, or for an element that is not the innermost one
func directedSoup(c *ctx) {
	type kind struct{ open, close string }
	kinds := []kind{{"<a>", "</a>"}, {"<a href=\"/x\">", "</a>"}, {"<bdo>", "</bdo>"}, {"<b>", "</b>"}, {"<u>", "</u>"}}
	for v := 0; v < 2; v++ {
		// a and bdo are allowed only with an attribute (a bare one is dropped and remembered), b is kept, u is not allowed and its content skipped
		ops := []*bmx.Op{{Kind: "AE", Names: []string{"b", "i"}}, {Kind: "AA", Names: []string{"href"}, Scope: "E", ScopeEl: []string{"a"}},
			{Kind: "AA", Names: []string{"dir"}, Scope: "E", ScopeEl: []string{"bdo"}},
			{Kind: "SK", Names: []string{"u"}}, {Kind: "RU", Flag: true}, {Kind: "SP", Flag: v == 1}}
		pid, pol := c.policy(ops)
		var opens func(prefix string, closers []string, d int)
		opens = func(prefix string, closers []string, d int) {
			if d > 0 {
				var distinct []string
				for _, cl := range closers {
					seen := false
					for _, x := range distinct {
						seen = seen || x == cl
					}
					if !seen {
						distinct = append(distinct, cl)
					}
				}
				var closes func(doc string, m int)
				closes = func(doc string, m int) {
					if m > 0 {
						c.san(pid, pol, []byte(doc+"z"))
					}
					if m == 4 {
						return
					}
					for _, cl := range distinct {
						closes(doc+cl, m+1)
					}
				}
				closes(prefix+"t", 0)
			}
			if d == 3 {
				return
			}
			for _, k := range kinds {
				opens(prefix+k.open, append(append([]string{}, closers...), k.close), d+1)
			}
		}
		opens("", nil, 0)
	}
	directedComments(c)
}

// directedComments: comments under AllowComments whose text, once the tokenizer has decoded its
// character references, begins or ends like a comment terminator, holds tags, or holds the pieces of
// a terminator; around and inside kept, dropped and skipped elements.
func directedComments(c *ctx) {
	bodies := []string{"&gt; <b> is bold", "-&gt;<b>x", "&#62;<i>y", "&GT<b>z", ">", "->", "--!&gt;<b>", "&amp;gt;", "-", "--", "!", "[if (gte mso 9)&(lt mso 16)]><b>x</b><![endif]",
		"x--&gt;<b>y", "x--!&gt;<i>", "<!--", "--!", "&lt;!--", "a&amp;b", "a&b", "&#45;&#45;&gt;<b>q", "x-", "x--", "x--!", "&#x2d;->", "<b>in</b>", "</p><b>", "<script>s()</script>", ""}
	for v := 0; v < 3; v++ {
		ops := []*bmx.Op{{Kind: "AE", Names: []string{"b", "i", "p"}}, {Kind: "AC"}, {Kind: "SK", Names: []string{"u"}}}
		if v == 1 {
			ops = append(ops, &bmx.Op{Kind: "SP", Flag: true})
		}
		if v == 2 {
			ops = []*bmx.Op{{Kind: "AC"}}
		}
		pid, pol := c.policy(ops)
		for _, b := range bodies {
			for _, f := range []string{"<p>one <!--%s--> two</p>", "<!--%s-->", "<b><!--%s--></b><i>t</i>", "<u>s<!--%s--></u>after", "<x><!--%s--></x>", "<p><!--%s--!>t</p>", "<p><!--%s"} {
				c.san(pid, pol, []byte(fmt.Sprintf(f, b)))
			}
		}
	}
}

// C11: all orders and multiplicities of href/rel/target × rel values × the 32 option sets
func directedC11(c *ctx) {
	hrefs := []string{"http://example.com/", "/local", "//host/x", "http:\\\\host", "mailto:a@b.c", "#f", "HTTPS://UP/", "http:/nohost", "",
		"/%2Fexample.com/caf\u00e9", "%2F%2Fexample.com/x|y", "/%2fevil.example/a^b",
		"///x", "http:///host/p", "////host", "/\t/host", " //host", "https:host", "//"}
	rels := []string{"external\u00a0nofollow", "noopener\vnofollow noreferrer\u0085x", "", "nofollow", "noopener", "noreferrer", "nofollow noopener noreferrer", "xnofollowx", "NOFOLLOW", "author", "noopenerx", "NoOpener", "nofollow x", "a\tnofollow", "nofollow nofollow"}
	targets := []string{"_blank", "_BLANK", "_self", "", "_blanK"}
	els := []string{"a", "area", "link", "base", "b"}
	for opt := 0; opt < 32; opt++ {
		ops := []*bmx.Op{
			{Kind: "AE", Names: els}, {Kind: "AA", Names: []string{"href", "rel", "target", "id"}, Scope: "G"},
			{Kind: "US", Names: []string{"http", "https", "mailto"}}, {Kind: "RU", Flag: true},
			{Kind: "NF", Flag: opt&1 != 0}, {Kind: "NFQ", Flag: opt&2 != 0}, {Kind: "NR", Flag: opt&4 != 0}, {Kind: "NRQ", Flag: opt&8 != 0}, {Kind: "TB", Flag: opt&16 != 0},
		}
		if opt%5 == 3 {
			// URL checking switched off again after the link options were set: the options stay on
			ops = append(ops, &bmx.Op{Kind: "PU", Flag: false})
		}
		if opt%7 == 2 {
			ops = append(ops, &bmx.Op{Kind: "CO", Flag: true}, &bmx.Op{Kind: "AA", Names: []string{"crossorigin"}, Scope: "E", ScopeEl: []string{"link"}})
		}
		pid, pol := c.policy(ops)
		per := c.n / 32
		if per < 40 {
			per = 40
		}
		for k := 0; k < per; k++ {
			el := els[c.r.Intn(len(els))]
			var attrs []string
			na := 1 + c.r.Intn(4)
			for i := 0; i < na; i++ {
				switch c.r.Intn(7) {
				case 0, 1, 2:
					attrs = append(attrs, "href=\""+hrefs[c.r.Intn(len(hrefs))]+"\"")
				case 3, 4:
					attrs = append(attrs, "rel=\""+rels[c.r.Intn(len(rels))]+"\"")
				case 5:
					attrs = append(attrs, "target=\""+targets[c.r.Intn(len(targets))]+"\"")
				default:
					attrs = append(attrs, "id=\"x\"")
				}
			}
			c.san(pid, pol, []byte("<"+el+" "+strings.Join(attrs, " ")+">t</"+el+">"))
		}
	}
	// the link options as a state machine: every sequence of up to three setter calls (each option
	// switched on or off), on a bare policy and after AllowStandardURLs's own RequireNoFollowOnLinks(true):
	// an option is what its last call said, whatever was said about the others in between
	{
		type call struct {
			kind string
			on   bool
		}
		var calls []call
		for _, k := range []string{"NF", "NFQ", "NR", "NRQ", "TB"} {
			calls = append(calls, call{k, true}, call{k, false})
		}
		var seqs [][]call
		for _, a := range calls {
			seqs = append(seqs, []call{a})
			for _, b := range calls {
				if b.kind == a.kind {
					continue
				}
				seqs = append(seqs, []call{a, b})
				for _, d := range calls {
					if d.kind == b.kind || (d.kind != a.kind && c.r.Intn(4) != 0) {
						continue
					}
					seqs = append(seqs, []call{a, b, d})
				}
			}
		}
		docs := []string{"<a href=\"http://example.com/\">t</a>", "<a href=\"/local\">t</a>", "<a href=\"http://example.com/\" target=\"_blank\" rel=\"author\">t</a>", "<area href=\"//host/x\">"}
		for si, sq := range seqs {
			ops := []*bmx.Op{{Kind: "AE", Names: els}, {Kind: "AA", Names: []string{"href", "rel", "target"}, Scope: "G"}, {Kind: "US", Names: []string{"http", "https"}}, {Kind: "RU", Flag: true}}
			if si%2 == 1 {
				ops = append(ops, &bmx.Op{Kind: "NF", Flag: true})
			}
			for _, k := range sq {
				ops = append(ops, &bmx.Op{Kind: k.kind, Flag: k.on})
			}
			pid, pol := c.policy(ops)
			for _, d := range docs {
				c.san(pid, pol, []byte(d))
			}
		}
		c.stat("link_option_sequences", len(seqs))
	}
	families["san"](c)
}

// C12: crossorigin / sandbox values
func directedC12(c *ctx) {
	sandboxCases(c, c.san)
	// one to four crossorigin attributes with every combination of three values, with other attributes
	// before, between and after them, where the rules let crossorigin through and where they do not
	for v := 0; v < 2; v++ {
		names := []string{"src", "id", "href"}
		if v == 0 {
			names = append(names, "crossorigin")
		}
		ops := []*bmx.Op{{Kind: "AE", Names: []string{"img", "audio", "link", "b"}}, {Kind: "AA", Names: names, Scope: "G"}, {Kind: "CO", Flag: true}}
		pid, pol := c.policy(ops)
		vals := []string{"use-credentials", "anonymous", ""}
		for n := 1; n <= 4; n++ {
			total := 1
			for i := 0; i < n; i++ {
				total *= len(vals)
			}
			for code := 0; code < total; code++ {
				k := code
				tag := "<img id=\"1\""
				for i := 0; i < n; i++ {
					tag += " crossorigin=\"" + vals[k%len(vals)] + "\""
					if i == 1 && code%2 == 0 {
						tag += " src=\"x.png\""
					}
					k /= len(vals)
				}
				c.san(pid, pol, []byte(tag+" id=\"2\">"))
			}
		}
	}
	cos := []string{"anonymous", "use-credentials", "", "ANONYMOUS", "x"}
	for mask := 0; mask < 64; mask++ {
		var sb []string
		for i, n := range bmx.SandboxNames {
			if (mask*37+i*11)%5 < 2 {
				sb = append(sb, n)
			}
		}
		ops := []*bmx.Op{
			{Kind: "AE", Names: []string{"audio", "img", "link", "script", "video", "iframe", "b"}},
			{Kind: "AA", Names: []string{"src", "crossorigin", "sandbox", "id", "href"}, Scope: "G"},
			{Kind: "CO", Flag: mask%3 != 0},
		}
		if mask%4 != 0 {
			if mask%8 == 1 {
				sb = nil // RequireSandboxOnIFrame() with no values: the strictest setting
			}
			ops = append(ops, &bmx.Op{Kind: "SB", Names: sb})
		}
		pid, pol := c.policy(ops)
		per := c.n / 64
		if per < 20 {
			per = 20
		}
		for k := 0; k < per; k++ {
			el := bmx.Pick(c.r, []string{"audio", "img", "link", "video", "iframe", "iframe", "b"})
			var attrs []string
			na := c.r.Intn(4)
			for i := 0; i < na; i++ {
				switch c.r.Intn(4) {
				case 0:
					attrs = append(attrs, "crossorigin=\""+cos[c.r.Intn(len(cos))]+"\"")
				case 1, 2:
					var toks []string
					for j := c.r.Intn(5); j > 0; j-- {
						if c.r.Intn(5) == 0 {
							toks = append(toks, bmx.Pick(c.r, []string{"allow-all", "ALLOW-FORMS", "x", "allow-forms x"}))
						} else {
							toks = append(toks, bmx.Pick(c.r, bmx.SandboxNames))
						}
					}
					attrs = append(attrs, "sandbox=\""+strings.Join(toks, bmx.Pick(c.r, []string{" ", "  ", "\t", "\n", "\f"}))+"\"")
				default:
					attrs = append(attrs, "id=\"x\"")
				}
			}
			c.san(pid, pol, []byte("<"+el+" "+strings.Join(attrs, " ")+">"))
		}
	}
	families["san"](c)
}

// C03: every listed position × obfuscated URLs × scheme policies
func directedC12extra(c *ctx) {
	for opt := 0; opt < 8; opt++ {
		ops := []*bmx.Op{{Kind: "AE", Names: []string{"link", "img", "a"}}, {Kind: "AA", Names: []string{"href", "src", "rel", "crossorigin", "id"}, Scope: "G"},
			{Kind: "US", Names: []string{"https"}}, {Kind: "CO", Flag: true}, {Kind: "NF", Flag: opt&1 != 0}, {Kind: "NR", Flag: opt&2 != 0}, {Kind: "TB", Flag: opt&4 != 0}}
		pid, pol := c.policy(ops)
		for _, d := range []string{"<link id=1 crossorigin=\"use-credentials\">", "<link rel=stylesheet href=\"javascript:x\" crossorigin=\"use-credentials\">", "<link id=2>",
			"<link href=\"https://a.b/c.css\" crossorigin=x>", "<img src=\"javascript:alert(1)\">", "<img src=\"javascript:alert(1)\" id=3 crossorigin=use-credentials>", "<a id=4 crossorigin=x>t</a>"} {
			c.san(pid, pol, []byte(d))
		}
	}
}

func directedC03(c *ctx) {
	pos := [][2]string{{"a", "href"}, {"area", "href"}, {"base", "href"}, {"link", "href"}, {"blockquote", "cite"}, {"del", "cite"}, {"ins", "cite"}, {"q", "cite"},
		{"audio", "src"}, {"embed", "src"}, {"iframe", "src"}, {"img", "src"}, {"input", "src"}, {"script", "src"}, {"source", "src"}, {"track", "src"}, {"video", "src"},
		{"b", "href"}, {"div", "src"}, {"form", "action"}}
	var els []string
	for _, p := range pos {
		els = append(els, p[0])
	}
	urls := append([]string{}, bmx.URLPool...)
	for _, s := range []string{"javascript:alert(1)", "JAVASCRIPT:alert(1)", "&#106;avascript:alert(1)", "java&#9;script:alert(1)", "&#1;javascript:alert(1)", "jav\nascript:alert(1)",
		"javascript&colon;alert(1)", "\x01javascript:alert(1)", " javascript:alert(1)", "vbscript:msgbox(1)", "data:text/html;base64,PHNjcmlwdD4=", "livescript:x", "feed:javascript:x",
		"http://a.b/\tx", "http://a.b/ x", "//evil.com/x", "\\\\evil.com\\x", "/\\evil.com", "http:evil.com", "https:/evil.com"} {
		urls = append(urls, s)
	}
	for v := 0; v < 12; v++ {
		ops := []*bmx.Op{{Kind: "AE", Names: els}, {Kind: "AA", Names: []string{"href", "src", "cite", "action"}, Scope: "G"}, {Kind: "UN", Flag: false}}
		ops = append(ops, bmx.RandURLPolicyOps(c.r)...)
		if v%3 == 0 {
			ops = append(ops, &bmx.Op{Kind: "RW", Cb: bmx.Pick(c.r, bmx.Rewriters)})
		}
		if v%4 == 1 {
			ops = append(ops, &bmx.Op{Kind: "AA", Names: []string{"src", "href"}, Re: bmx.NewRE(`.`), Scope: "E", ScopeEl: []string{"img", "a"}})
		}
		pid, pol := c.policy(ops)
		for _, p := range pos {
			for k := 0; k < 14; k++ {
				u := urls[c.r.Intn(len(urls))]
				if k > 9 {
					u = bmx.RandURL(c.r)
				}
				u = strings.NewReplacer("\"", "&quot;").Replace(u)
				c.san(pid, pol, []byte("<"+p[0]+" "+p[1]+"=\""+u+"\" id=x>"))
				if k%3 == 0 {
					// the same URL attribute repeated on one tag: a harmless value first
					good := bmx.Pick(c.r, []string{"http://example.com/", "/rel", "https://a.b/c", "mailto:x@y.z", "#f"})
					c.san(pid, pol, []byte("<"+p[0]+" "+p[1]+"=\""+good+"\" "+p[1]+"=\""+u+"\">"))
					c.san(pid, pol, []byte("<"+p[0]+" "+p[1]+"=\""+u+"\" id=y "+p[1]+"=\""+good+"\" "+p[1]+"=\""+u+"\">"))
				}
			}
		}
	}
	// AllowDataURIImages: the library's own check of data: URLs (media type, base64 payload of any length)
	{
		ops := []*bmx.Op{{Kind: "AE", Names: []string{"img", "a"}}, {Kind: "AA", Names: []string{"src", "href"}, Scope: "G"}, {Kind: "US", Names: []string{"https"}}, {Kind: "DU"}}
		pid, pol := c.policy(ops)
		payloads := []string{"", "A", "AA", "AAA", "AAAA", "UklGRh4A", "UklGRh4AAABXRUJQ", "UklGRg==", "R0lGODlh", "R0lG", "iVBORw0KGgo=", "iVBORw0KGgoAAAAN", "/9j/", "/9j/4AAQ", "PHN2Zz4=", "PHN2", "====", "A===", "AB==", "ABC=", "AB=C",
			"UklGRh4A\nAABXRUJQ", "UklGRh4A AABX", "!!!!", "UklGRh4AAABXRUJQVlA4"}
		for _, mt := range []string{"image/webp", "image/png", "image/gif", "image/jpeg", "image/svg+xml", "image/bmp", "text/html", "IMAGE/PNG", "image/webp;charset=x"} {
			for _, pl := range payloads {
				c.san(pid, pol, []byte("<img src=\"data:"+mt+";base64,"+pl+"\">"))
			}
			c.san(pid, pol, []byte("<img src=\"data:"+mt+",plain\"><a href=\"data:"+mt+";base64,AAAA\">t</a><img src=\"data:"+mt+";base64,AAAA?q#f\">"))
		}
	}
	// a scheme admitted by a scheme pattern, used, then given a custom check (the check must bind)
	for v := 0; v < 4; v++ {
		base := []*bmx.Op{{Kind: "AE", Names: []string{"a", "img", "q"}}, {Kind: "AA", Names: []string{"href", "src", "cite"}, Scope: "G"},
			{Kind: "USM", Re: bmx.NewRE(`^(app|x-[a-z]+)$`)}, {Kind: "US", Names: []string{"https"}}}
		later := []*bmx.Op{{Kind: "UC", Names: []string{"app"}, Cb: "host=good.example"}}
		if v%2 == 1 {
			later = append(later, &bmx.Op{Kind: "UC", Names: []string{"x-note"}, Cb: "never"})
		}
		probes := []string{"<a href=\"app://bad.example/x\">t</a>", "<img src=\"x-note://h/1\">", "<q cite=\"app://good.example/\">q</q>"}
		pid, pol := c.policyStaged([][]*bmx.Op{base, later}, probes)
		for _, d := range append(probes, "<a href=\"app://good.example/ok\">t</a>", "<a href=\"x-other://h/\">t</a>", "<a href=\"https://a.b/\">t</a>") {
			c.san(pid, pol, []byte(d))
		}
	}
	// a src rewriter whose target the policy itself would not accept from a user
	for v := 0; v < 4; v++ {
		ops := []*bmx.Op{{Kind: "AE", Names: []string{"img", "audio"}}, {Kind: "AA", Names: []string{"src"}, Scope: "G"},
			{Kind: "US", Names: []string{"http"}}, {Kind: "RU", Flag: v%2 == 1}, {Kind: "RW", Cb: []string{"relproxy", "proxy=proxy.example", "relproxy", "sethost=cdn.example"}[v]}}
		pid, pol := c.policy(ops)
		for _, d := range []string{"<img src=\"http://a.example/1.png\">", "<audio src=\"http://a.example/a.mp3?x=1\"></audio>", "<img src=\"/local.png\">", "<img src=\"https://a.example/2.png\">"} {
			c.san(pid, pol, []byte(d))
		}
		// every URL of the pool as a src under the rewriter (what the validated URL prints as need not
		// parse again: the attribute is dropped then, not passed on)
		for _, u := range append(append([]string{}, bmx.URLPool...), "/%2fa\"b.tracker.example.net/pixel.gif", "/%2F^/x.png", "%2f/{x}.host/p.gif", "/%2fhost%3Ax/<.mp4", "/%2f`x`/y", "/%2Fa|b/c") {
			c.san(pid, pol, []byte("<img src=\""+strings.ReplaceAll(u, "\"", "&quot;")+"\"><audio src='"+strings.ReplaceAll(u, "'", "&#39;")+"'></audio>"))
		}
	}
	families["san"](c)
}

// directedPatterns: element patterns that are anchored literals, unanchored literals and half-anchored
// ones, against element names that equal, contain, start or end with the literal.
func directedPatterns(c *ctx) {
	pats := []string{`^a$`, `^b$`, `^x-note$`, `\Aabc\z`, `^(?:abc)$`, `abc`, `^abc`, `abc$`, `^(a|b)$`, `^[a]$`, `a`, `^$`, `^x-`}
	names := []string{"a", "b", "abc", "xabcx", "abcx", "xabc", "iframe", "textarea", "base", "object", "embed", "button", "x-note", "x-notepad", "my-x-note", "x", "ab", "table"}
	for i, ps := range pats {
		re := bmx.NewRE(ps)
		var ops []*bmx.Op
		switch i % 3 {
		case 0:
			ops = []*bmx.Op{{Kind: "AEM", Re: re}, {Kind: "AA", Names: []string{"id"}, Scope: "G"}}
		case 1:
			ops = []*bmx.Op{{Kind: "AA", Names: []string{"id"}, Scope: "M", ScopeRe: re}, {Kind: "AS", Names: []string{"color"}, Scope: "M", ScopeRe: bmx.NewRE(ps)}, {Kind: "AA", Names: []string{"style"}, Scope: "G"}}
		default:
			ops = []*bmx.Op{{Kind: "AA", Empty: true, Scope: "M", ScopeRe: re}, {Kind: "AE", Names: []string{"i"}}}
		}
		pid, pol := c.policy(ops)
		for _, n := range names {
			c.san(pid, pol, []byte("<"+n+" id=\"1\" style=\"color: red\">t</"+n+">u<"+n+">v</"+n+"><"+n+"/>"))
		}
	}
}

// C07: documents written entirely in the policy's own vocabulary, canonical serialisation
func directedC07(c *ctx) {
	for i := 0; i < c.n; {
		ops := bmx.RandPolicyOpsIdem(c.r)
		pid, pol := c.policy(ops)
		g := bmx.NewDocGen(c.r, ops)
		for k := 0; k < 8; k++ {
			g.TrustImpl = k%2 == 0
			c.san(pid, pol, g.Conforming(pol, 1+c.r.Intn(10)))
			i++
		}
	}
	// relative references with a colon after the path (fragment, query), percent-escapes, dots, and
	// the other spellings a conforming page may use, under the shipped UGC policy and under a
	// hand-built one with relative URLs allowed
	{
		rels := []string{"#fn:1", "notes.html#sec:2", "chart.png#xywh=percent:5,5,90,90", "p?t=1:2", "a#b:c/d", "?x=a:b", "./a:b", "../up/x.html", "x/y;z=1", "a%3Ab", "#", "?", "p#", "//host.example/p?q#f:1",
			"/abs/path#t=1:30", "img.png?w=1&h=2", "page.html#top"}
		upid, upol := c.shipped("@UGC")
		ops := []*bmx.Op{{Kind: "AE", Names: []string{"a", "img", "q", "b"}}, {Kind: "AA", Names: []string{"href", "src", "cite"}, Scope: "G"}, {Kind: "US", Names: []string{"https"}}, {Kind: "RU", Flag: true}}
		pid, pol := c.policy(ops)
		for _, u := range rels {
			for _, d := range []string{"<a href=\"%s\" rel=\"nofollow\">t</a>", "<img src=\"%s\">", "<q cite=\"%s\">q</q>"} {
				c.san(upid, upol, []byte(fmt.Sprintf(d, u)))
				c.san(pid, pol, []byte(fmt.Sprintf(strings.Replace(d, " rel=\"nofollow\"", "", 1), u)))
			}
		}
	}
	// URLs with raw text outside ASCII: every UTF-8 continuation byte (U+00C0..U+00FF encode as C3 80..C3 BF)
	// in the query, the fragment, the path and a mailto address, and the control characters that are
	// white space for unicode.IsSpace but not for the library
	{
		upid, upol := c.shipped("@UGC")
		ops := []*bmx.Op{{Kind: "AE", Names: []string{"a", "img", "q", "b"}}, {Kind: "AA", Names: []string{"href", "src", "cite"}, Scope: "G"}, {Kind: "US", Names: []string{"https", "mailto"}}}
		pid, pol := c.policy(ops)
		var urls []string
		for r := rune(0xC0); r <= 0xFF; r++ {
			ch := string(r)
			urls = append(urls, "https://example.com/search?q=voil"+ch, "https://example.com/p#s"+ch+"x")
			if r%8 == 0 {
				urls = append(urls, "https://example.com/"+ch+"/x", "mailto:j"+ch+"@example.com")
			}
		}
		for _, ch := range []string{"\u0420\u0445", "\u3000", "\u2003", "\u0085", "\u00a0", "\r", "\v", "\f", "\u200b", "\ufeff"} {
			urls = append(urls, "https://example.com/?q=a"+ch+"b", "https://example.com/a"+ch+"b")
		}
		for _, u := range urls {
			c.san(upid, upol, []byte("<a href=\""+u+"\" rel=\"nofollow\">t</a>"))
			c.san(pid, pol, []byte("<a href=\""+u+"\">t</a><img src=\""+u+"\">"))
		}
	}
	// one attribute covered by an element rule and a global rule with different patterns
	for v := 0; v < 8; v++ {
		ops := []*bmx.Op{
			{Kind: "AE", Names: []string{"span", "b"}},
			{Kind: "AA", Names: []string{"class"}, Re: bmx.NewRE(`^(lead|muted)$`), Scope: "G"},
			{Kind: "AA", Names: []string{"class"}, Re: bmx.NewRE(`^badge-[a-z]+$`), Scope: "E", ScopeEl: []string{"span"}},
			{Kind: "AA", Names: []string{"title"}, Re: bmx.NewRE(`^[a-z ]+$`), Scope: "M", ScopeRe: bmx.NewRE(`^s`)},
			{Kind: "AA", Names: []string{"title"}, Re: bmx.NewRE(`^[0-9]+$`), Scope: "G"},
		}
		c.r.Shuffle(len(ops), func(i, j int) { ops[i], ops[j] = ops[j], ops[i] })
		pid, pol := c.policy(ops)
		for _, d := range []string{"<span class=\"muted\">x</span>", "<span class=\"badge-new\">x</span>", "<b class=\"lead\">x</b>",
			"<span title=\"42\">x</span>", "<span class=\"lead\" title=\"a b\">x<b class=\"muted\" title=\"7\">y</b></span>"} {
			c.san(pid, pol, []byte(d))
		}
	}
	// two element patterns that both match, each with its own value pattern for the same attribute;
	// a scheme registered with a custom check and then plainly (the later call replaces the check)
	for v := 0; v < 6; v++ {
		pa, pb := bmx.NewRE(`^x-`), bmx.NewRE(`-wide$`)
		ops := []*bmx.Op{
			{Kind: "AA", Names: []string{"size"}, Re: bmx.NewRE(`^(small|medium)$`), Scope: "M", ScopeRe: pa},
			{Kind: "AA", Names: []string{"size"}, Re: bmx.NewRE(`^(large|huge)$`), Scope: "M", ScopeRe: pb},
			{Kind: "AA", Names: []string{"tone"}, Re: bmx.NewRE(`^[a-z]+$`), Scope: "M", ScopeRe: pa},
			{Kind: "UC", Names: []string{"https"}, Cb: "host=example.org"},
			{Kind: "US", Names: []string{"https", "mailto"}},
			{Kind: "AA", Names: []string{"href"}, Scope: "E", ScopeEl: []string{"a"}},
		}
		if v%2 == 1 {
			ops[0], ops[1] = ops[1], ops[0]
		}
		if v >= 3 {
			ops[3], ops[4] = ops[4], ops[3] // custom check registered last: it stays
		}
		pid, pol := c.policy(ops)
		for _, d := range []string{"<x-card-wide size=\"large\">c</x-card-wide>", "<x-card-wide size=\"small\">c</x-card-wide>",
			"<x-card size=\"medium\" tone=\"warm\">c</x-card>", "<y-wide size=\"huge\">c</y-wide>",
			"<x-a-wide size=\"huge\" tone=\"cold\">c<x-b size=\"small\">d</x-b></x-a-wide>",
			"<a href=\"https://www.example.com/index.html\">home</a>", "<a href=\"https://example.org/\">org</a>", "<a href=\"mailto:a@example.org\">m</a>"} {
			c.san(pid, pol, []byte(d))
		}
	}
	// rules bound to an element pattern after the policy has been used (same regexp value reused)
	for v := 0; v < 4; v++ {
		re := bmx.NewRE(`^my-`)
		first := []*bmx.Op{{Kind: "AEM", Re: re}, {Kind: "AA", Names: []string{"kind"}, Re: bmx.NewRE(`^[0-9]+$`), Scope: "M", ScopeRe: re}}
		later := []*bmx.Op{{Kind: "AA", Names: []string{"size"}, Re: bmx.NewRE(`^(big|small)$`), Scope: "M", ScopeRe: re}}
		if v%2 == 1 {
			later = []*bmx.Op{{Kind: "AA", Empty: true, Scope: "M", ScopeRe: bmx.NewRE(`^x-`)}, {Kind: "AA", Names: []string{"size"}, Scope: "M", ScopeRe: re}}
		}
		probes := []string{"<my-card kind=\"42\">c</my-card>", "<x-card>hello</x-card>"}
		pid, pol := c.policyStaged([][]*bmx.Op{first, later}, probes)
		for _, d := range []string{"<my-card kind=\"42\" size=\"big\">c</my-card>", "<my-list kind=\"7\" size=\"small\">l</my-list>", "<x-card>hello</x-card>", "<my-card size=\"big\">c</my-card>"} {
			c.san(pid, pol, []byte(d))
		}
	}
	// element names outside ASCII, allowed by name and by pattern: conforming content is unchanged
	for v := 0; v < 2; v++ {
		ops := []*bmx.Op{{Kind: "AE", Names: []string{"x-caf\u00e9", "x-\u03c0", "b"}}, {Kind: "AA", Names: []string{"id"}, Scope: "G"},
			{Kind: "AA", Names: []string{"lang"}, Scope: "E", ScopeEl: []string{"x-gr\u00f6\u00dfe"}}}
		if v == 1 {
			ops = []*bmx.Op{{Kind: "AEM", Re: bmx.NewRE(`^x-[\p{L}\p{N}-]+$`)}, {Kind: "AE", Names: []string{"b"}}, {Kind: "AA", Names: []string{"id", "lang"}, Scope: "G"}}
		}
		pid, pol := c.policy(ops)
		for _, d := range []string{"<x-caf\u00e9 id=\"a\">t</x-caf\u00e9>", "<x-\u03c0>t</x-\u03c0><b>u</b>", "<b><x-caf\u00e9>n</x-caf\u00e9></b>",
			"<x-gr\u00f6\u00dfe lang=\"de\">g</x-gr\u00f6\u00dfe>", "<x-\u03c0 id=\"p\"><x-caf\u00e9 id=\"c\">c</x-caf\u00e9></x-\u03c0>"} {
			c.san(pid, pol, []byte(d))
		}
	}
	// long tokens: a conforming document is returned unchanged whatever its size
	{
		ops := []*bmx.Op{{Kind: "AE", Names: []string{"p", "b"}}, {Kind: "AA", Names: []string{"title"}, Scope: "G"}}
		pid, pol := c.policy(ops)
		for _, n := range []int{5000, 70000, 140000, 1<<20 + 17} {
			for _, doc := range []string{"<p>" + strings.Repeat("lorem ipsum ", n/12) + "</p>", "<p title=\"" + strings.Repeat("a", n) + "\">t</p>",
				strings.Repeat("<b>x</b>", n/8)} {
				ok := pol.Sanitize(doc) == doc && string(pol.SanitizeBytes([]byte(doc))) == doc && pol.SanitizeReader(strings.NewReader(doc)).String() == doc
				fmt.Fprintf(c.w, "big %d %d %s\n", pid, len(doc), b01(ok))
			}
		}
	}
	pid, pol := c.shipped("@UGC")
	g := bmx.NewDocGen(c.r, nil)
	g.Els = strings.Fields("article aside figure section summary h1 h2 h3 hgroup br div hr p span wbr abbr cite code em mark s strong sub sup var b i pre small u rp rt ruby dl dt dd caption")
	g.Attrs = []string{"id", "title", "lang", "dir"}
	for k := 0; k < c.n/4; k++ {
		c.san(pid, pol, g.Conforming(pol, 1+c.r.Intn(12)))
	}
}

// C02: every combination of rule sources for one attribute (explicit element, two
// overlapping element patterns, global), each absent / with a value pattern / without
func directedC02(c *ctx) {
	res := []string{`^a+$`, `^b+$`, `^c+$`, `^d+$`}
	vals := []string{"aaa", "bbb", "ccc", "ddd", "zzz", "", "x\" onmouseover=\"alert(1)"}
	for mask := 0; mask < 81; mask++ {
		for _, explicit := range []bool{false, true} {
			p1, p2 := bmx.NewRE(`^my-`), bmx.NewRE(`-x$`)
			ops := []*bmx.Op{{Kind: "AEM", Re: p1}}
			if explicit {
				ops = append(ops, &bmx.Op{Kind: "AE", Names: []string{"my-x"}})
			}
			m := mask
			for src := 0; src < 4; src++ {
				st := m % 3
				m /= 3
				if st == 0 {
					continue
				}
				o := &bmx.Op{Kind: "AA", Names: []string{"class"}}
				if st == 1 {
					o.Re = bmx.NewRE(res[src])
				}
				switch src {
				case 0:
					o.Scope, o.ScopeEl = "E", []string{"my-x"}
				case 1:
					o.Scope, o.ScopeRe = "M", p1
				case 2:
					o.Scope, o.ScopeRe = "M", p2
				default:
					o.Scope = "G"
				}
				ops = append(ops, o)
			}
			if mask%5 == 0 {
				ops = append(ops, &bmx.Op{Kind: "AA", Empty: true, Scope: "M", ScopeRe: p2})
			}
			pid, pol := c.policy(ops)
			for _, v := range vals {
				c.san(pid, pol, []byte("<my-x class=\""+v+"\">t</my-x><my-y class=\""+v+"\">u</my-y>"))
			}
			c.san(pid, pol, []byte("<my-x class>t</my-x><my-x>u</my-x><my-x class=aaa class=zzz id=1>v</my-x>"))
		}
	}
	// two value patterns for one attribute in one scope, the first with an inline flag
	for _, scope := range []string{"E", "M", "G"} {
		mk := func(src string) *bmx.Op {
			o := &bmx.Op{Kind: "AA", Names: []string{"align"}, Re: bmx.NewRE(src), Scope: scope}
			if scope == "E" {
				o.ScopeEl = []string{"td"}
			}
			if scope == "M" {
				o.ScopeRe = bmx.NewRE(`^t[dh]$`)
			}
			return o
		}
		pid, pol := c.policy([]*bmx.Op{{Kind: "AE", Names: []string{"td"}}, mk(`(?i)^(left|right)$`), mk(`^(start|end)$`)})
		for _, v := range []string{"left", "LEFT", "start", "START", "End", "end", "center"} {
			c.san(pid, pol, []byte("<td align=\""+v+"\">t</td>"))
		}
	}
	// data attributes: names around the documented shape data-*
	for _, withClass := range []bool{false, true} {
		ops := []*bmx.Op{{Kind: "AE", Names: []string{"b"}}, {Kind: "DA"}}
		if withClass {
			ops = append(ops, &bmx.Op{Kind: "AA", Names: []string{"class"}, Scope: "G"})
		}
		pid, pol := c.policy(ops)
		for _, n := range dataAttrNames {
			c.san(pid, pol, []byte("<b "+n+"=\"v\">t</b>"))
		}
	}
	families["san"](c)
}

var dataAttrNames = []string{"data-a", "data-foo-bar", "data-", "data", "xdata-foo", ":data-id", "v-bind:data-id", "[attr.data-id]", "adata-x",
	"data-xml", "data-xmlfoo", "data-a:b", "data-a;b", "data-adata-;x", "data-data-a", "data-A", "DATA-a", "data-é", "data-1", "data--", "data-a.b", "data-a_b",
	"on\"data-x", "data-a<b", "data-a=b", "class", "dataset", "data-a/b"}

// C18 through the policy: matcher-less style rules for several properties in one call, each of
// which must get the default handler of its own property (none for an unknown property)
// what is judged must be what is written: values in which a marker pair that some layer might
// treat as a comment, a string or an escape straddles a hostile fragment, with the opening
// marker inside one accepted token (url(...), a quoted string) and the closing one inside another
func directedJudgedVsEmitted(c *ctx) {
	pairs := [][2]string{{"/*", "*/"}, {"<!--", "-->"}, {"\\", " "}, {"/*", "*/ /*"}, {"//", "\n"}, {"\\2f *", "*\\2f "}}
	hostile := []string{"expression(alert(1))", "url(javascript:alert(1))", "url('javascript:alert(1)')", "url(data:text/html,x)", "javascript:alert(1)", "@import 'x'"}
	type cont struct{ pre, post string }
	conts := []cont{{"url(http://a/", ")"}, {"url('http://a/", "')"}, {"'a", "'"}, {"\"a", "\""}, {"", ""}}
	props := []string{"background-image", "list-style-image", "font-family", "color", "cursor", "background", "list-style", "content", "quotes"}
	aa := &bmx.Op{Kind: "AA", Names: []string{"style"}, Scope: "G"}
	as := &bmx.Op{Kind: "AS", Names: props, Scope: "G"}
	pid, pol := c.policy([]*bmx.Op{{Kind: "AE", Names: []string{"div"}}, aa, as})
	emit := func(prop, v string) {
		c.san(pid, pol, []byte("<div style=\""+strings.ReplaceAll(prop+": "+v, "\"", "&quot;")+"\">t</div>"))
	}
	for _, prop := range props {
		for _, v := range []string{"red /* c */", "/* c */ red", "re/**/d", "url(http://a/b.png) /* x */", "none /* x */", "'a' /* x */", "red/* x", "red */", "red /*/ x /*/"} {
			emit(prop, v)
		}
	}
	t := 0
	for _, pr := range pairs {
		for _, h := range hostile {
			for _, c1 := range conts {
				for _, c2 := range conts {
					for _, sep := range []string{", ", " "} {
						t++
						prop := props[t%len(props)]
						emit(prop, c1.pre+pr[0]+c1.post+sep+h+sep+c2.pre+pr[1]+c2.post)
						if t%4 == 0 {
							emit(props[(t/4)%3], c1.pre+pr[0]+c1.post+sep+h+sep+c2.pre+pr[1]+"/"+c2.post)
						}
					}
				}
			}
		}
	}
}

func directedC18(c *ctx) {
	directedJudgedVsEmitted(c)
	props := [][]string{{"background-image", "width", "color", "behavior"}, {"color", "list-style-image", "no-such-prop", "height"}, {"width", "behavior"}}
	for _, names := range props {
		for _, scope := range []string{"E", "M", "G"} {
			as := &bmx.Op{Kind: "AS", Names: names, Scope: scope}
			aa := &bmx.Op{Kind: "AA", Names: []string{"style"}, Scope: "G"}
			switch scope {
			case "E":
				as.ScopeEl = []string{"div", "x-a"}
			case "M":
				as.ScopeRe = bmx.NewRE(`^(div|x-)`)
			}
			pid, pol := c.policy([]*bmx.Op{{Kind: "AE", Names: []string{"div", "x-a", "span"}}, aa, as})
			vals := []string{"url(http://a.b/c.png)", "none", "inherit", "1px", "red", "expression(alert(1))", "url(javascript:alert(1))"}
			for _, el := range []string{"div", "x-a", "span"} {
				for _, v := range vals {
					var decls []string
					for _, n := range names {
						decls = append(decls, n+": "+v)
					}
					c.san(pid, pol, []byte("<"+el+" style=\""+strings.Join(decls, "; ")+"\">t</"+el+">"))
				}
			}
		}
	}
}

// C10: every combination of style-rule sources (element, element pattern, global) for an
// element that is declared by name or only matched by a pattern
func directedC10(c *ctx) {
	directedJudgedVsEmitted(c)
	styles := []string{"color: red", "color: blue", "color: red; position: fixed", "position: fixed; color: red", "COLOR: RED",
		"color: expression(alert(1))", "background: url(javascript:alert(1)); color: red", "color: \\72 ed", "-webkit-color: red;;", "color:red;width:1px", "color"}
	for mask := 0; mask < 27; mask++ {
		for variant := 0; variant < 4; variant++ {
			pat := bmx.NewRE(`^(td|my-x)$`)
			var ops []*bmx.Op
			el := "td"
			if variant >= 2 {
				el = "my-x"
			}
			if variant%2 == 0 {
				// declared by name, style allowed as an ordinary attribute (the README's pattern)
				ops = append(ops, &bmx.Op{Kind: "AA", Names: []string{"style", "colspan"}, Scope: "E", ScopeEl: []string{el}})
			} else {
				ops = append(ops, &bmx.Op{Kind: "AA", Names: []string{"style", "colspan"}, Scope: "M", ScopeRe: pat})
			}
			m := mask
			for src := 0; src < 3; src++ {
				st := m % 3
				m /= 3
				if st == 0 {
					continue
				}
				o := &bmx.Op{Kind: "AS", Names: []string{"color", "width"}}
				if st == 1 {
					o.Enum = []string{"red", "1px"}
				}
				switch src {
				case 0:
					o.Scope, o.ScopeEl = "E", []string{el}
				case 1:
					o.Scope, o.ScopeRe = "M", pat
				default:
					o.Scope = "G"
				}
				ops = append(ops, o)
			}
			pid, pol := c.policy(ops)
			for _, st := range styles {
				c.san(pid, pol, []byte("<"+el+" style=\""+st+"\" colspan=2>t</"+el+"><"+el+" style=\""+st+"\">u</"+el+">"))
			}
		}
	}
	// two element patterns with their own style rules: an element matching both is sanitised
	// first, then elements matching only one (rules must not leak from one pattern to the other)
	for v := 0; v < 4; v++ {
		pa, pb := bmx.NewRE(`^x-`), bmx.NewRE(`-wide$`)
		ops := []*bmx.Op{
			{Kind: "AA", Names: []string{"style"}, Scope: "M", ScopeRe: bmx.NewRE(`^(x-|y-)`)},
			{Kind: "AS", Names: []string{"color"}, Scope: "M", ScopeRe: pa},
			{Kind: "AS", Names: []string{"width"}, Scope: "M", ScopeRe: pb},
		}
		if v%2 == 1 {
			ops[1], ops[2] = ops[2], ops[1]
		}
		pid, pol := c.policy(ops)
		for _, d := range []string{"<x-a-wide style=\"color: red; width: 1px\">b</x-a-wide>", "<x-a style=\"color: red; width: 1px\">a</x-a>",
			"<y-wide style=\"color: red; width: 1px\">w</y-wide>", "<x-b-wide style=\"width: 2px; color: blue\">b</x-b-wide>", "<x-c style=\"width: 1px\">c</x-c>"} {
			c.san(pid, pol, []byte(d))
		}
	}
	// style rules given to two elements in one call, then a further rule for only one of them
	for v := 0; v < 2; v++ {
		ops := []*bmx.Op{{Kind: "AA", Names: []string{"style"}, Scope: "G"}, {Kind: "AE", Names: []string{"div", "span"}},
			{Kind: "AS", Names: []string{"color"}, Scope: "E", ScopeEl: []string{"div", "span"}},
			{Kind: "AS", Names: []string{"position"}, Enum: []string{"fixed"}, Scope: "E", ScopeEl: []string{[]string{"div", "span"}[v]}}}
		pid, pol := c.policy(ops)
		for _, d := range []string{"<span style=\"position: fixed; color: red\">s</span>", "<div style=\"position: fixed; color: red\">d</div>"} {
			c.san(pid, pol, []byte(d))
		}
	}
	// a property with neither matcher nor default handler as the only style rule, with style
	// also allowed as an ordinary attribute: the style attribute is still governed by the style rules
	for _, prop := range []string{"aspect-ratio", "gap", "colour"} {
		for _, scope := range []string{"G", "E"} {
			as := &bmx.Op{Kind: "AS", Names: []string{prop}, Scope: scope, ScopeEl: []string{"div"}}
			aa := &bmx.Op{Kind: "AA", Names: []string{"style"}, Scope: scope, ScopeEl: []string{"div"}}
			pid, pol := c.policy([]*bmx.Op{{Kind: "AE", Names: []string{"div"}}, aa, as})
			for _, d := range []string{"<div style=\"" + prop + ": 16/9; position: fixed; width: expression(alert(1))\">t</div>", "<div style=\"position: fixed\">t</div>", "<div style=\"" + prop + ": 1\">t</div>"} {
				c.san(pid, pol, []byte(d))
			}
		}
	}
	families["san"](c)
}

// directedStaged: a policy is its rule set, so using it between builder calls must leave no trace.
// Every builder call that changes the verdict for an element (allow it by name or by pattern, give
// it rules, put it in or take it out of the skip-content set), with the name spelt in lower, upper
// and mixed case, is made after the half-built policy has sanitised that element; the model applies
// all the calls at once.
func directedStaged(c *ctx) {
	spell := func(s string, k int) string {
		switch k {
		case 1:
			return strings.ToUpper(s)
		case 2:
			return strings.ToUpper(s[:1]) + s[1:]
		}
		return s
	}
	bases := [][]*bmx.Op{
		{{Kind: "AE", Names: []string{"b", "i"}}, {Kind: "AEM", Re: bmx.NewRE(`^my-`)}},
		{{Kind: "AE", Names: []string{"b", "i"}}, {Kind: "AA", Names: []string{"id"}, Scope: "M", ScopeRe: bmx.NewRE(`^y-`)}},
		{{Kind: "AE", Names: []string{"b", "i"}}, {Kind: "AA", Names: []string{"id"}, Scope: "G"}},
		{{Kind: "AE", Names: []string{"b", "i"}}, {Kind: "AEM", Re: bmx.NewRE(`^my-`)}, {Kind: "SP", Flag: true}},
	}
	n := 0
	for bi, base := range bases {
		for _, el := range []string{"title", "x-hid", "object", "u", "script"} {
			for sp := 0; sp < 3; sp++ {
				name := spell(el, sp)
				laters := [][]*bmx.Op{
					{{Kind: "AK", Names: []string{name}}},
					{{Kind: "SK", Names: []string{name}}},
					{{Kind: "AE", Names: []string{name}}},
					{{Kind: "AA", Empty: true, Scope: "E", ScopeEl: []string{name}}},
					{{Kind: "AA", Names: []string{"id"}, Scope: "E", ScopeEl: []string{name}}},
					{{Kind: "AEM", Re: bmx.NewRE(`^` + el + `$`)}},
					{{Kind: "AA", Names: []string{"id"}, Scope: "M", ScopeRe: bmx.NewRE(`^` + el[:1])}},
					{{Kind: "AE", Names: []string{name}}, {Kind: "AK", Names: []string{name}}},
				}
				for li, later := range laters {
					if sp > 0 && li >= 5 {
						continue // patterns are case-sensitive and the tokenizer lower-cases: one spelling
					}
					first := append([]*bmx.Op{}, base...)
					if (bi+li)%2 == 0 && li != 1 {
						first = append(first, &bmx.Op{Kind: "SK", Names: []string{el}})
					}
					probes := []string{"<" + el + ">inside</" + el + ">after", "<" + el + " id=\"1\">x", "</" + el + ">", "<" + el + "/>z"}
					pid, pol := c.policyStaged([][]*bmx.Op{first, later}, probes)
					for _, d := range append(probes, "<b><"+el+" id=\"1\">t<i>u</i></"+el+">w</b>", "<my-a>m</my-a><y-a id=\"2\">y</y-a>") {
						c.san(pid, pol, []byte(d))
					}
					n++
				}
			}
		}
	}
	c.stat("staged_policies", n)
	// overlapping element patterns with different rules: an element both match, then elements only one of
	// them matches carrying the other's attributes and style properties — in one document and across calls
	for v := 0; v < 3; v++ {
		ops := []*bmx.Op{{Kind: "AA", Names: []string{"foo"}, Scope: "M", ScopeRe: bmx.NewRE(`^my-`)},
			{Kind: "AA", Names: []string{"bar"}, Scope: "M", ScopeRe: bmx.NewRE(`-box$`)},
			{Kind: "AA", Names: []string{"baz"}, Re: bmx.NewRE(`^[0-9]+$`), Scope: "M", ScopeRe: bmx.NewRE(`^my-b`)}}
		if v >= 1 {
			ops = append(ops, &bmx.Op{Kind: "AA", Names: []string{"style"}, Scope: "G"},
				&bmx.Op{Kind: "AS", Names: []string{"color"}, Enum: []string{"red"}, Scope: "M", ScopeRe: bmx.NewRE(`^my-`)},
				&bmx.Op{Kind: "AS", Names: []string{"width"}, Enum: []string{"1px"}, Scope: "M", ScopeRe: bmx.NewRE(`-box$`)})
		}
		if v == 2 {
			ops = append(ops, &bmx.Op{Kind: "AEM", Re: bmx.NewRE(`^(my|a)-`)})
		}
		pid, pol := c.policy(ops)
		for rep := 0; rep < 3; rep++ {
			for _, d := range []string{"<my-box foo=\"1\" bar=\"2\" baz=\"3\" style=\"color: red; width: 1px\">both</my-box>",
				"<my-x bar=\"2\" foo=\"1\" baz=\"3\" style=\"width: 1px; color: red\">first only</my-x>",
				"<a-box foo=\"1\" bar=\"2\" style=\"color: red; width: 1px\">second only</a-box>",
				"<my-box bar=\"2\">b</my-box><my-y bar=\"2\" baz=\"x\">y</my-y><a-box foo=\"1\">a</a-box>"} {
				c.san(pid, pol, []byte(d))
			}
		}
	}
	directedPatterns(c)
	directedNameFolding(c)
	switch c.prop {
	case "C03", "C04", "C07", "C13", "C17":
		directedSchemes(c, c.san)
	}
}

// directedOverlap: several builder calls that give rules to the same attribute (or style property) in
// the same scope, each call naming several attributes: every attribute keeps every rule it was given
// and only those (rule lists of different attributes share nothing).
func directedOverlap(c *ctx) {
	attrs := []string{"title", "lang", "id", "name"}
	vals := []string{"abc", "123", "ab1", "", "ABC", "a-b"}
	pats := []string{`^[a-z]+$`, `^[0-9]+$`, `^[a-z0-9]+$`, `^.{0,2}$`}
	scopes := []func() *bmx.Op{
		func() *bmx.Op { return &bmx.Op{Scope: "E", ScopeEl: []string{"b", "i"}} },
		func() *bmx.Op { return &bmx.Op{Scope: "G"} },
		func() *bmx.Op { return &bmx.Op{Scope: "M", ScopeRe: bmx.NewRE(`^(b|my-.*)$`)} },
	}
	n := 0
	for si, sc := range scopes {
		var sharedRe *bmx.RE
		if si == 2 {
			sharedRe = bmx.NewRE(`^(b|my-.*)$`)
		}
		mk := func(names []string, re *bmx.RE) *bmx.Op {
			o := sc()
			if sharedRe != nil {
				o.ScopeRe = sharedRe
			}
			o.Kind, o.Names, o.Re = "AA", names, re
			return o
		}
		for first := 2; first <= 4; first++ {
			for again := 0; again < first; again++ {
				for variant := 0; variant < 3; variant++ {
					ops := []*bmx.Op{{Kind: "AE", Names: []string{"b", "i", "u"}}, {Kind: "AEM", Re: bmx.NewRE(`^my-`)}}
					ops = append(ops, mk(append([]string{}, attrs[:first]...), bmx.NewRE(pats[0])))
					switch variant {
					case 0:
						ops = append(ops, mk([]string{attrs[again]}, bmx.NewRE(pats[1])))
					case 1:
						ops = append(ops, mk([]string{attrs[again]}, nil))
					case 2:
						ops = append(ops, mk([]string{attrs[again], attrs[(again+1)%first]}, bmx.NewRE(pats[3])), mk([]string{attrs[again]}, bmx.NewRE(pats[1])))
					}
					pid, pol := c.policy(ops)
					for _, el := range []string{"b", "u", "my-x"} {
						for _, v := range vals {
							doc := "<" + el
							for _, a := range attrs {
								doc += " " + a + "=\"" + v + "\""
							}
							c.san(pid, pol, []byte(doc+">t</"+el+">"))
						}
					}
					n++
				}
			}
		}
	}
	// style properties: the same shape through AllowStyles
	props := []string{"color", "width", "float", "text-align"}
	svals := []string{"red", "10px", "left", "center", "#fff", "x1"}
	for si := 0; si < 3; si++ {
		sharedRe := bmx.NewRE(`^(b|my-.*)$`)
		mk := func(names []string, re *bmx.RE, enum []string) *bmx.Op {
			o := &bmx.Op{Kind: "AS", Names: names, Re: re, Enum: enum, Scope: []string{"E", "G", "M"}[si]}
			if si == 0 {
				o.ScopeEl = []string{"b", "i"}
			}
			if si == 2 {
				o.ScopeRe = sharedRe
			}
			return o
		}
		for first := 2; first <= 4; first++ {
			for again := 0; again < first; again++ {
				for variant := 0; variant < 5; variant++ {
					ops := []*bmx.Op{{Kind: "AE", Names: []string{"b", "i", "u"}}, {Kind: "AEM", Re: bmx.NewRE(`^my-`)}, {Kind: "AA", Names: []string{"style"}, Scope: "G"}}
					if variant == 4 {
						// several registered properties in one call, each left to its own default handler: the
						// last one named changes with `again`
						ops = append(ops, mk(append(append([]string{}, props[again:first]...), props[:again]...), nil, nil))
					} else if variant == 3 {
						// several properties in one call, each left to its own default handler (one has none)
						rot := append(append([]string{}, props[again:first]...), props[:again]...)
						// ... or only a longer or shorter name that has one: color-scheme, margin-inline-start, colo
						ops = append(ops, mk(append(rot, "x-unregistered", "color-scheme", "margin-inline-start", "colo", "width-"), nil, nil))
					} else {
						ops = append(ops, mk(append([]string{}, props[:first]...), bmx.NewRE(`^[a-z]+$`), nil))
					}
					switch variant {
					case 0:
						ops = append(ops, mk([]string{props[again]}, bmx.NewRE(`^[0-9]+px$`), nil))
					case 1:
						ops = append(ops, mk([]string{props[again]}, nil, []string{"#fff", "x1"}))
					case 2:
						ops = append(ops, mk([]string{props[again]}, nil, nil))
					}
					pid, pol := c.policy(ops)
					for _, el := range []string{"b", "u", "my-x"} {
						for _, v := range svals {
							doc := "<" + el + " style=\""
							for _, p := range append(props, "x-unregistered", "color-scheme", "margin-inline-start", "colo", "width-") {
								doc += p + ": " + v + "; "
							}
							c.san(pid, pol, []byte(doc+"\">t</"+el+">"))
						}
					}
					n++
				}
			}
		}
	}
	c.stat("overlap_policies", n)
	directedHistories(c)
}

// directedHistories: histories in which one call creates several rule lists and later calls extend
// them one at a time (different elements, different attributes, every scope; attributes and
// styles), an element that is allowed bare through a pattern and also named by a call, and switch
// options set on a zero-value Policy{} before the first call that initialises it.
func directedHistories(c *ctx) {
	n := 0
	pats := []string{`^[a-z]+$`, `^[0-9]+$`, `^.{0,2}$`, `^[A-Z]+$`}
	vals := []string{"abc", "123", "a1", "", "ABC", "a-b"}
	attrDocs := func(pid int, pol *bluemonday.Policy) {
		for _, el := range []string{"b", "i", "u", "my-x", "my-y"} {
			for _, v := range vals {
				c.san(pid, pol, []byte("<"+el+" title=\""+v+"\" lang=\""+v+"\" id=\""+v+"\">t</"+el+">"))
			}
		}
	}
	type sc struct {
		one, other, both func() *bmx.Op
	}
	sharedRe, sharedRe2 := bmx.NewRE(`^(b|my-x)$`), bmx.NewRE(`^(i|my-y)$`)
	scopes := []sc{
		{func() *bmx.Op { return &bmx.Op{Scope: "E", ScopeEl: []string{"b"}} }, func() *bmx.Op { return &bmx.Op{Scope: "E", ScopeEl: []string{"i"}} },
			func() *bmx.Op { return &bmx.Op{Scope: "E", ScopeEl: []string{"b", "i"}} }},
		{func() *bmx.Op { return &bmx.Op{Scope: "G"} }, func() *bmx.Op { return &bmx.Op{Scope: "G"} }, func() *bmx.Op { return &bmx.Op{Scope: "G"} }},
		{func() *bmx.Op { return &bmx.Op{Scope: "M", ScopeRe: sharedRe} }, func() *bmx.Op { return &bmx.Op{Scope: "M", ScopeRe: sharedRe2} },
			func() *bmx.Op { return &bmx.Op{Scope: "M", ScopeRe: sharedRe} }},
	}
	aa := func(o *bmx.Op, names []string, re string) *bmx.Op {
		o.Kind, o.Names = "AA", names
		if re != "" {
			o.Re = bmx.NewRE(re)
		}
		return o
	}
	for _, s := range scopes {
		for order := 0; order < 2; order++ {
			for shape := 0; shape < 3; shape++ {
				ops := []*bmx.Op{{Kind: "AE", Names: []string{"b", "i", "u"}}, {Kind: "AEM", Re: bmx.NewRE(`^my-`)}}
				ops = append(ops, aa(s.both(), []string{"title", "lang", "id"}, pats[0]))
				var l1, l2 *bmx.Op
				switch shape {
				case 0: // the same attribute, extended on one element (pattern) and then on the other
					l1, l2 = aa(s.one(), []string{"title"}, pats[1]), aa(s.other(), []string{"title"}, pats[2])
				case 1: // two attributes of the same scope, one after the other
					l1, l2 = aa(s.both(), []string{"title"}, pats[1]), aa(s.both(), []string{"lang"}, pats[3])
				case 2: // the second extension has no pattern
					l1, l2 = aa(s.one(), []string{"lang"}, pats[1]), aa(s.both(), []string{"id"}, "")
				}
				if order == 1 {
					l1, l2 = l2, l1
				}
				ops = append(ops, l1, l2)
				pid, pol := c.policy(ops)
				attrDocs(pid, pol)
				n++
			}
		}
	}
	// the same through AllowStyles
	as := func(o *bmx.Op, names []string, re string, enum []string) *bmx.Op {
		o.Kind, o.Names, o.Enum = "AS", names, enum
		if re != "" {
			o.Re = bmx.NewRE(re)
		}
		return o
	}
	for _, s := range scopes {
		for shape := 0; shape < 3; shape++ {
			ops := []*bmx.Op{{Kind: "AE", Names: []string{"b", "i", "u"}}, {Kind: "AEM", Re: bmx.NewRE(`^my-`)}, {Kind: "AA", Names: []string{"style"}, Scope: "G"}}
			ops = append(ops, as(s.both(), []string{"color", "width", "float"}, `^[a-z]+$`, nil))
			switch shape {
			case 0:
				ops = append(ops, as(s.one(), []string{"color"}, `^[0-9]+px$`, nil), as(s.other(), []string{"color"}, ``, []string{"#fff", "x1"}))
			case 1:
				ops = append(ops, as(s.both(), []string{"color"}, `^[0-9]+px$`, nil), as(s.both(), []string{"width"}, ``, []string{"#fff", "x1"}))
			case 2:
				ops = append(ops, as(s.one(), []string{"width"}, ``, nil), as(s.both(), []string{"float"}, `^#[a-f]+$`, nil))
			}
			pid, pol := c.policy(ops)
			for _, el := range []string{"b", "i", "u", "my-x", "my-y"} {
				for _, v := range []string{"red", "10px", "left", "#fff", "x1"} {
					c.san(pid, pol, []byte("<"+el+" style=\"color: "+v+"; width: "+v+"; float: "+v+"\">t</"+el+">"))
				}
			}
			n++
		}
	}
	// allowed bare through a pattern, and also named by a call
	for _, named := range [][]*bmx.Op{
		{{Kind: "AE", Names: []string{"x-card"}}},
		{{Kind: "AA", Names: []string{"id"}, Scope: "E", ScopeEl: []string{"x-card", "a"}}},
		{{Kind: "AA", Names: []string{"href"}, Scope: "E", ScopeEl: []string{"a"}}},
		{{Kind: "AE", Names: []string{"a", "x-card", "span"}}},
		{},
	} {
		for order := 0; order < 2; order++ {
			bare := []*bmx.Op{{Kind: "AA", Empty: true, Scope: "M", ScopeRe: bmx.NewRE(`^(x-card|a|span)$`)}}
			ops := append(append([]*bmx.Op{}, bare...), named...)
			if order == 1 {
				ops = append(append([]*bmx.Op{}, named...), bare...)
			}
			pid, pol := c.policy(ops)
			for _, d := range []string{"<x-card>t</x-card>", "<a>t</a>", "<span>t</span>", "<x-card id=\"1\">t</x-card>", "<a href=\"/x\">t</a>", "<a id=\"1\">t</a>", "<x-other>t</x-other>", "<A>t</A><SPAN>u</SPAN>"} {
				c.san(pid, pol, []byte(d))
			}
			n++
		}
	}
	// switch options set on a zero-value Policy{} before the first call that initialises it
	for _, sw := range []*bmx.Op{{Kind: "SP", Flag: true}, {Kind: "NF", Flag: true}, {Kind: "NR", Flag: true}, {Kind: "NFQ", Flag: true}, {Kind: "NRQ", Flag: true},
		{Kind: "TB", Flag: true}, {Kind: "CO", Flag: true}, {Kind: "PU", Flag: true}, {Kind: "RU", Flag: true}, {Kind: "AC"}, {Kind: "DA"}} {
		for _, later := range [][]*bmx.Op{
			{{Kind: "AE", Names: []string{"b", "a", "img"}}},
			{{Kind: "AA", Names: []string{"href", "src", "data-x"}, Scope: "E", ScopeEl: []string{"a", "img", "b"}}},
			{{Kind: "US", Names: []string{"http"}}, {Kind: "AA", Names: []string{"href", "src"}, Scope: "G"}, {Kind: "AE", Names: []string{"a", "img"}}},
			{},
		} {
			ops := append([]*bmx.Op{{Kind: "ZERO"}, sw}, later...)
			pid, pol := c.policy(ops)
			for _, d := range []string{"<p>Hello</p><p>World</p><b>x</b>", "<a href=\"http://h/p\">t</a><img src=\"http://h/i\"><!--c-->", "<a href=\"/rel\" data-x=\"1\">t</a><b data-x=\"2\">u</b>", "<i>a</i><i>b</i>"} {
				c.san(pid, pol, []byte(d))
			}
			n++
		}
	}
	c.stat("history_policies", n)
}


// sandboxCases: policies with a sandbox list and iframe sandbox values that repeat a keyword in the
// same and in different letter case, with other white space, and with unknown keywords in between.
func sandboxCases(c *ctx, emit func(pid int, pol *bluemonday.Policy, in []byte)) {
	vals := []string{"allow-forms Allow-Forms", "ALLOW-FORMS allow-forms allow-scripts", "allow-forms allow-forms", "Allow-Scripts x ALLOW-SCRIPTS", "allow-forms\tallow-forms\nallow-scripts",
		"  allow-scripts  ", "allow-popups allow-forms", "x y", "", "allow-forms,allow-scripts", "allow-scripts allow-forms allow-scripts allow-forms", "allow-form allow-formss", "Allow-Forms"}
	for v := 0; v < 4; v++ {
		ops := []*bmx.Op{{Kind: "AE", Names: []string{"iframe", "b"}}, {Kind: "AA", Names: []string{"sandbox", "id"}, Scope: "E", ScopeEl: []string{"iframe"}}}
		switch v {
		case 0:
			ops = append(ops, &bmx.Op{Kind: "SB", Names: []string{"allow-forms", "allow-scripts"}})
		case 1:
			ops = append(ops, &bmx.Op{Kind: "SB", Names: []string{"allow-forms"}})
		case 2:
			ops = append(ops, &bmx.Op{Kind: "SB", Names: nil})
		}
		pid, pol := c.policy(ops)
		for _, sv := range vals {
			emit(pid, pol, []byte("<iframe sandbox=\""+sv+"\"></iframe><iframe id=\"1\" sandbox=\""+sv+"\" sandbox=\"allow-forms\">t</iframe><b sandbox=\""+sv+"\">b</b>"))
		}
	}
}

// directedSchemes: the registrations of one URL scheme as a state machine — plainly, with a custom
// check, through AllowDataURIImages, in another letter case — in every order of up to three calls.
func directedSchemes(c *ctx, emit func(pid int, pol *bluemonday.Policy, in []byte)) {
	mk := []func() *bmx.Op{
		func() *bmx.Op { return &bmx.Op{Kind: "US", Names: []string{"data"}} },
		func() *bmx.Op { return &bmx.Op{Kind: "US", Names: []string{"DATA", "https"}} },
		func() *bmx.Op { return &bmx.Op{Kind: "DU"} },
		func() *bmx.Op { return &bmx.Op{Kind: "UC", Names: []string{"data"}, Cb: "never"} },
		func() *bmx.Op { return &bmx.Op{Kind: "UC", Names: []string{"data"}, Cb: "host=good.example"} },
	}
	docs := []string{"<img src=\"data:image/png;base64,iVBORw0KGgo=\">", "<img src=\"data:text/html;base64,PHNjcmlwdD4=\">", "<a href=\"data:text/html,x\">t</a>", "<a href=\"https://good.example/\">t</a>",
		"<img src=\"data:image/gif;base64,R0lG ODlh\">", "<img src=\"DATA:image/png;base64,AAAA\">"}
	var seqs [][]int
	for a := range mk {
		seqs = append(seqs, []int{a})
		for b := range mk {
			seqs = append(seqs, []int{a, b})
			for d := range mk {
				if (a+b+d)%2 == 0 {
					seqs = append(seqs, []int{a, b, d})
				}
			}
		}
	}
	for _, sq := range seqs {
		ops := []*bmx.Op{{Kind: "AE", Names: []string{"img", "a"}}, {Kind: "AA", Names: []string{"src", "href"}, Scope: "G"}}
		for _, k := range sq {
			ops = append(ops, mk[k]())
		}
		pid, pol := c.policy(ops)
		for _, d := range docs {
			emit(pid, pol, []byte(d))
		}
		if c.prop == "C17" {
			// a scheme registration reflects its most recent setting: a plain registration replaces what
			// was there, custom checks registered after it are added (any one of them admits a URL, so
			// their order and repetitions do not matter) and make the plain one moot
			last := -1
			for i, k := range sq {
				if k <= 1 {
					last = i
				}
			}
			seen := map[int]bool{}
			var customs []int
			for _, k := range sq[last+1:] {
				if !seen[k] {
					seen[k] = true
					customs = append(customs, k)
				}
			}
			sort.Ints(customs)
			canon := []*bmx.Op{{Kind: "AE", Names: []string{"img", "a"}}, {Kind: "AA", Names: []string{"src", "href"}, Scope: "G"}}
			https := false
			for _, k := range sq {
				https = https || k == 1
			}
			if https {
				canon = append(canon, &bmx.Op{Kind: "US", Names: []string{"https"}})
			}
			if len(customs) == 0 {
				canon = append(canon, mk[0]())
			}
			for _, k := range customs {
				canon = append(canon, mk[k]())
			}
			nid, npol := c.policy(canon)
			for _, d := range docs {
				fmt.Fprintf(c.w, "perm %d %d %s %s %s\n", pid, nid, bmx.HexField([]byte(d)), safeSanitize(pol, []byte(d)), safeSanitize(npol, []byte(d)))
			}
		}
	}
	c.stat("scheme_sequences", len(seqs))
}

// directedNameFolding: element and attribute names that a too-generous normalisation would turn into
// names the policy knows — invisible format characters inside the name (soft hyphen, zero-width
// space / joiners, BOM), and letters outside ASCII whose lower or folded form is an ASCII letter
// (U+0130 → i, U+212A → k, U+017F → s).  The tokenizer lower-cases ASCII only and keeps the rest.
func directedNameFolding(c *ctx) {
	inv := []string{"\u00ad", "\u200b", "\u200c", "\u200d", "\ufeff", "\u2060"}
	var els []string
	for _, base := range []string{"script", "style", "title", "b", "div", "link", "iframe"} {
		for i, z := range inv {
			k := (i % (len(base))) + 0
			els = append(els, base[:k]+z+base[k:], base+z)
		}
	}
	els = append(els, "dİv", "lİnk", "linK", "marK", "ſcript", "ſtyle", "tİtle", "scrİpt", "SCRİPT", "K", "İ")
	attrs := []string{"cİte", "tİtle", "İd", "wİdth", "hreſ", "ſrc", "ſtyle", "st\u00adyle", "hr\u200bef", "onclİck", "onKeydown", "TİTLE", "K", "cite\u00ad"}
	policies := [][]*bmx.Op{
		{{Kind: "AE", Names: []string{"b", "div", "title", "p"}}, {Kind: "AA", Names: []string{"id", "title", "cite", "href", "src", "width", "style"}, Scope: "G"}, {Kind: "US", Names: []string{"https"}}, {Kind: "AS", Names: []string{"color"}, Scope: "G"}},
		{{Kind: "UN", Flag: true}, {Kind: "AE", Names: []string{"script", "style", "b", "link"}}, {Kind: "AA", Names: []string{"id", "href"}, Scope: "G"}},
		{{Kind: "AEM", Re: bmx.NewRE(`^(div|link|mark|b)$`)}, {Kind: "AA", Names: []string{"id", "title"}, Scope: "M", ScopeRe: bmx.NewRE(`^(div|b)$`)}},
	}
	type pp struct {
		pid int
		pol *bluemonday.Policy
	}
	var pols []pp
	for _, ops := range policies {
		pid, pol := c.policy(ops)
		pols = append(pols, pp{pid, pol})
	}
	for _, name := range []string{"@UGC", "@STRICT"} {
		pid, pol := c.shipped(name)
		pols = append(pols, pp{pid, pol})
	}
	for _, q := range pols {
		for _, e := range els {
			c.san(q.pid, q.pol, []byte("a<"+e+" id=\"1\">text &lt;img onerror=x&gt; <b>in</b></"+e+">after"))
			c.san(q.pid, q.pol, []byte("<"+e+"/>x<"+strings.ToUpper(e)+">y"))
		}
		for _, a := range attrs {
			c.san(q.pid, q.pol, []byte("<b "+a+"=\"javascript:alert(1)\">t</b><blockquote "+a+"=\"data:text/html,x\" cite=\"https://a.b/\">q</blockquote><div "+a+"=\"v\" id=\"1\" "+strings.ToUpper(a)+"=\"w\">d</div>"))
		}
	}
}
