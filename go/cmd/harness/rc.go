package main

import (
	"fmt"
	"strings"

	"github.com/microcosm-cc/bluemonday/css"
)

// rc: css.recursiveCheck driven directly (hook css.VerifRecursiveCheck) with handler functions
// of the harness's own making that count their invocations.  A function is a set of groups
// (start, length) of the value list t0 … t(n-1); the tokens are distinct, so the joined string
// a function is called with names its group.  One line per case:
//   rc <n> <k> <sets> <verdict> <invocations>
// The model replays the memoised search (BM/RecCheck.lean) and must arrive at the same verdict
// after the same number of invocations; the invocations must stay within k·n(n+1)/2 (C14).
func init() {
	families["rc"] = func(c *ctx) {
		type grp struct{ s, l int }
		run := func(n int, sets [][]grp) {
			toks := make([]string, n)
			for i := range toks {
				toks[i] = fmt.Sprintf("t%d", i)
			}
			calls := 0
			limit := 4*len(sets)*n*(n+1)/2 + 16
			var fs []func(string) bool
			var enc []string
			for _, set := range sets {
				acc := map[string]bool{}
				var e []string
				for _, g := range set {
					acc[strings.Join(toks[g.s:g.s+g.l], " ")] = true
					e = append(e, fmt.Sprintf("%d:%d", g.s, g.l))
				}
				if len(e) == 0 {
					enc = append(enc, "-")
				} else {
					enc = append(enc, strings.Join(e, ","))
				}
				fs = append(fs, func(v string) bool {
					calls++
					if calls > limit {
						panic("rc-over-limit")
					}
					return acc[v]
				})
			}
			res := func() (r string) {
				defer func() {
					if e := recover(); e != nil {
						if e == "rc-over-limit" {
							r = "OVER"
						} else {
							r = "PANIC"
						}
					}
				}()
				return b01(css.VerifRecursiveCheck(toks, fs))
			}()
			fmt.Fprintf(c.w, "rc %d %d %s %s %d\n", n, len(sets), strings.Join(enc, ";"), res, calls)
		}
		// every group up to a given length, minus those containing the last value: the search
		// fails, and without the failed table it would take exponentially many invocations
		allBut := func(n, maxLen int, withLast bool) []grp {
			var gs []grp
			for s := 0; s < n; s++ {
				for l := 1; l <= maxLen && s+l <= n; l++ {
					if !withLast && s+l == n {
						continue
					}
					gs = append(gs, grp{s, l})
				}
			}
			return gs
		}
		sizes := []int{0, 1, 2, 3, 4, 5, 6, 8, 12, 16, 17, 24, 31, 32, 33, 48, 62, 63, 64, 65, 66, 72, 90}
		if c.n > 2000 {
			sizes = append(sizes, 127, 128, 129, 160)
		}
		for _, n := range sizes {
			for _, k := range []int{1, 2, 3} {
				for _, maxLen := range []int{1, 2, 3} {
					for _, withLast := range []bool{false, true} {
						if n > 66 && (k > 2 || maxLen > 2) {
							continue
						}
						sets := make([][]grp, k)
						for j := range sets {
							sets[j] = allBut(n, maxLen, withLast)
						}
						run(n, sets)
					}
				}
				// only the last function accepts, and only long groups
				sets := make([][]grp, k)
				if n >= 2 {
					sets[k-1] = allBut(n, 2, true)
				}
				run(n, sets)
			}
		}
		// random sparse and dense acceptance
		done := len(sizes) * 21
		for i := done; i < c.n; i++ {
			n := 1 + c.r.Intn(14)
			if i%9 == 0 {
				n = 20 + c.r.Intn(50)
			}
			k := 1 + c.r.Intn(4)
			dens := []int{2, 4, 8, 16}[c.r.Intn(4)]
			sets := make([][]grp, k)
			for j := range sets {
				for s := 0; s < n; s++ {
					for l := 1; l <= 4 && s+l <= n; l++ {
						if c.r.Intn(16) < dens {
							sets[j] = append(sets[j], grp{s, l})
						}
					}
				}
			}
			run(n, sets)
		}
	}
}

// hlp: the three string helpers of css/handlers.go through their hooks, against their Lean models.
func init() {
	families["hlp"] = func(c *ctx) {
		pieces := []string{"a", "b", "1px", "", " ", ",", "/", "red", "RED", "Straße", "K", "İ", "\xff", "\xc3", "a b", " a ", "\ta\n", " x ", " ", "x,y", "//", ", ,", "a/b/c", "\\", "<", "@", ">"}
		pick := func() string { return pieces[c.r.Intn(len(pieces))] }
		join := func(n int, sep string) string {
			var xs []string
			for i := 0; i < n; i++ {
				xs = append(xs, pick())
			}
			return strings.Join(xs, sep)
		}
		enc := func(xs []string) string {
			if len(xs) == 0 {
				return "-"
			}
			var hs []string
			for _, x := range xs {
				hs = append(hs, bmxHex(x))
			}
			return strings.Join(hs, ",")
		}
		for i := 0; i < c.n; i++ {
			switch i % 3 {
			case 0:
				v := join(c.r.Intn(6), []string{",", ", ", " , ", ""}[c.r.Intn(4)])
				fmt.Fprintf(c.w, "hlp sv %s %s\n", bmxHex(v), enc(css.VerifSplitValues(v)))
			case 1:
				v := join(c.r.Intn(7), []string{" ", "/", " / ", ","}[c.r.Intn(4)])
				seps := [][]string{{" "}, {" ", "/"}, {"/", " "}, {",", " ", "/"}, {}, {"ab"}, {"//"}}[c.r.Intn(7)]
				fmt.Fprintf(c.w, "hlp ms %s %s %s\n", bmxHex(v), enc(seps), enc(css.VerifMultiSplit(v, seps...)))
			default:
				var a, b []string
				for k := c.r.Intn(4); k > 0; k-- {
					a = append(a, pick())
				}
				for k := c.r.Intn(6); k > 0; k-- {
					b = append(b, pick())
				}
				fmt.Fprintf(c.w, "hlp in %s %s %s\n", enc(a), enc(b), b01(css.VerifIn(a, b)))
			}
		}
	}
}

func bmxHex(s string) string {
	if s == "" {
		return "e"
	}
	return fmt.Sprintf("%x", s)
}
