package main

import (
	"regexp"
	"bufio"
	"bytes"
	"errors"
	"fmt"
	"go/ast"
	"go/parser"
	"go/token"
	"io"
	"net/url"
	"os"
	"os/exec"
	"path/filepath"
	"sort"
	"strconv"
	"strings"
	"sync"
	"time"

	"verif/bmx"

	"github.com/microcosm-cc/bluemonday"
	"golang.org/x/net/html"
)

// corpus collects every string literal of /repo's *_test.go files that looks like markup:
// the suite's own inputs and expectations, re-extracted on every run.
func corpus() []string {
	var out []string
	seen := map[string]bool{}
	files, _ := filepath.Glob("/repo/*_test.go")
	sort.Strings(files)
	fset := token.NewFileSet()
	for _, f := range files {
		af, err := parser.ParseFile(fset, f, nil, 0)
		if err != nil {
			continue
		}
		ast.Inspect(af, func(n ast.Node) bool {
			bl, ok := n.(*ast.BasicLit)
			if !ok || bl.Kind != token.STRING {
				return true
			}
			s, err := strconv.Unquote(bl.Value)
			if err != nil || len(s) < 3 || len(s) > 3000 || seen[s] {
				return true
			}
			if strings.ContainsAny(s, "<&") {
				seen[s] = true
				out = append(out, s)
			}
			return true
		})
	}
	return out
}

// ugcOpsApprox mirrors UGCPolicy's vocabulary for the document generator only (the
// policy under test is always the real bluemonday.UGCPolicy()).
func ugcVocabOps() []*bmx.Op {
	els := strings.Fields("article aside details figure section summary h1 h2 h3 h4 h5 h6 hgroup blockquote br div hr p span wbr a map area img abbr acronym cite code dfn em figcaption mark s samp strong sub sup var q time b i pre small strike tt u bdi bdo rp rt ruby del ins ol ul li dl dt dd table caption col colgroup thead tr td th tbody tfoot meter progress script style iframe object")
	attrs := strings.Fields("dir lang id title open cite href name alt coords rel shape usemap datetime type value height width summary align span valign abbr colspan rowspan headers scope nowrap min max src style onclick target")
	return []*bmx.Op{{Kind: "AE", Names: els}, {Kind: "AA", Names: attrs, Scope: "G"}}
}

func init() {
	families["shipped"] = func(c *ctx) {
		cor := corpus()
		c.stat("corpus", len(cor))
		// other code in the same process derives richer policies from the shipped constructors;
		// what the constructors return afterwards (and returned before) must not notice
		early := bluemonday.UGCPolicy()
		derive := func() {
			bluemonday.UGCPolicy().AllowElementsMatching(regexp.MustCompile(`^x-`)).AllowAttrs("onload", "style").OnElementsMatching(regexp.MustCompile(`^(x-|iframe$|form$)`))
			bluemonday.UGCPolicy().AllowStyles("position").Globally()
			bluemonday.UGCPolicy().AllowElementsContent("object", "title", "iframe").SkipElementsContent("p")
			bluemonday.UGCPolicy().AllowNoAttrs().OnElementsMatching(regexp.MustCompile(`^(embed|x-.*)$`))
			bluemonday.StrictPolicy().AllowElements("script", "b").AllowAttrs("onclick").Globally().AllowUnsafe(true)
			bluemonday.NewPolicy().AllowElementsContent("object").AllowElements("i")
			bluemonday.UGCPolicy().AllowAttrs("style", "onclick", "background").OnElements("td", "th", "table")
			// elements UGCPolicy allows without any attribute rule of their own
			bluemonday.UGCPolicy().AllowAttrs("style", "onclick").OnElements("span", "div", "p", "b", "code", "em", "li", "h1", "strong", "i")
			bluemonday.UGCPolicy().AllowStyles("position", "color").OnElements("span", "div", "b")
			q := bluemonday.NewPolicy()
			q.SkipElementsContent("x-hidden")
			q.AllowNoAttrs().OnElements("a", "q")
			q.AllowElementsContent("iframe", "object", "noscript")
			r2 := bluemonday.NewPolicy()
			r2.AllowNoAttrs().OnElements("span")
			r2.AllowElementsContent("title")
		}
		derive()
		polluted := []string{"<x-a onload=\"1\" style=\"position: fixed\">t</x-a>", "<object>secret</object><title>t</title>", "<p>kept</p><embed>", "<b onclick=\"1\">b</b><script>s</script><i>i</i>",
			"<iframe onload=x></iframe><form onload=y>f</form>", "<table><tr><td style=\"x\" onclick=\"y\" background=\"z\">c</td></tr></table>", "<a>bare</a><q>q</q><span>s</span>",
			"<iframe>t</iframe><noscript>n</noscript><title>ti</title>",
			"<span style=\"color: red\" onclick=\"y\">s</span><div onclick=\"z\">d</div><code style=\"x\">c</code><li onclick=\"1\">l</li><h1 style=\"position: fixed\">h</h1>"}
		{
			c.pid++
			fmt.Fprintf(c.w, "policy %d %s %s\n", c.pid, "@UGC", bmx.HexS(early.VerifDump(sourceNamer)))
			for _, d := range polluted {
				c.san(c.pid, early, []byte(d))
			}
		}
		for _, name := range []string{"@STRICT", "@UGC"} {
			pid, pol := c.shipped(name)
			for _, d := range polluted {
				c.san(pid, pol, []byte(d))
			}
			for _, s := range cor {
				c.san(pid, pol, []byte(s))
			}
			for _, bad := range []string{"javascript:alert(1)", "JaVaScRiPt:alert(1)", "data:text/html,x", "vbscript:x", "not a url", " ", "http://ex ample.com/",
				"javascript:1/alert(1)", "JavaScript:80/alert(1)", "data:443/text/html,x", "vbscript:8080", "&#106;avascript:65535/x", "/%2Fexample.com/caf\u00e9"} {
				for _, pos := range [][2]string{{"a", "href"}, {"area", "href"}, {"img", "src"}, {"blockquote", "cite"}, {"q", "cite"}, {"del", "cite"}} {
					for _, first := range []string{"not a url", "http://example.com/", "", "javascript:x", "/ok"} {
						c.san(pid, pol, []byte("<"+pos[0]+" "+pos[1]+"=\""+first+"\" "+pos[1]+"=\""+bad+"\">x</"+pos[0]+">"))
						c.san(pid, pol, []byte("<"+pos[0]+" "+pos[1]+"=\""+first+"\" "+pos[1]+"=\""+first+"\" "+pos[1]+"=\""+bad+"\" title=t>x"))
					}
				}
			}
			g := bmx.NewDocGen(c.r, ugcVocabOps())
			for i := 0; i < c.n/2; i++ {
				switch i % 4 {
				case 0:
					c.san(pid, pol, bmx.RandMalformed(c.r, 1+c.r.Intn(24)))
				default:
					c.san(pid, pol, g.Doc(1+c.r.Intn(16)))
				}
			}
		}
	}

	// C20: S(S(x)) against S(x)
	families["idem"] = func(c *ctx) {
		emit := func(pid int, pol *bluemonday.Policy, in []byte) {
			o1 := pol.Sanitize(string(in))
			o2 := pol.Sanitize(o1)
			fmt.Fprintf(c.w, "idem %d %s %s %s\n", pid, bmx.HexField(in), bmx.HexS(o1), bmx.HexS(o2))
		}
		cor := corpus()
		for _, name := range []string{"@STRICT", "@UGC"} {
			pid, pol := c.shipped(name)
			for _, s := range cor {
				emit(pid, pol, []byte(s))
			}
			// characters whose escaped and raw forms the tokenizer reads differently (CR, NUL, the escaped five),
			// as references and raw, next to ordinary text, in text and in attribute values
			for _, s := range []string{"a&#13;b", "x&#xD;&#10;y", "<p>l1&#13;l2</p>", "t&#13;", "&#13;t", "a\rb", "a\r\nb", "a&#0;b", "a\x00b", "q&amp;#13;r",
				"<p title=\"a&#13;b\">t</p>", "<a href=\"http://x.com/a&#13;b\">t</a>", "&amp;amp;lt; &#38;#60; &lt;b&gt;", "1 &#60; 2 &#62; 0 &#34;q&#34; &#39;s&#39;",
				"<b>&#x26;#x3c;script&#x26;#x3e;</b>", "caf\u00e9 &eacute; &#233; &#xE9;", "&nbsp;&#160;\u00a0", "&notit; &notin; &amp", "<i>a</i>&#13;<i>b</i>"} {
				emit(pid, pol, []byte(s))
			}
			g := bmx.NewDocGen(c.r, ugcVocabOps())
			for i := 0; i < c.n/4; i++ {
				emit(pid, pol, g.Doc(1+c.r.Intn(16)))
			}
			// every pooled URL (raw and HTML-escaped once more) in the UGC URL positions
			for _, u := range bmx.URLPool {
				for _, v := range []string{u, html.EscapeString(u), html.EscapeString(html.EscapeString(u))} {
					q := strings.NewReplacer("\"", "&quot;").Replace(v)
					emit(pid, pol, []byte("<a href=\""+q+"\">x</a><img src=\""+q+"\"><blockquote cite=\""+q+"\">y</blockquote>"))
				}
			}
			// every pooled rel value where the shipped policy binds a pattern to an attribute the link
			// options rewrite (rel on area), with and without an href
			for _, rv := range bmx.RelPool {
				emit(pid, pol, []byte("<area href=\"/x\" rel=\""+rv+"\"><area rel=\""+rv+"\"><a href=\"http://x.com/\" rel=\""+rv+"\">t</a><map name=\"m\"><area href=\"http://x.com/\" rel=\""+rv+"\" target=\"_blank\"></map>"))
			}
		}
		// which of rel / target / crossorigin the policy lets through by itself × the link options:
		// what the first pass adds must be what the second pass re-derives
		for allowMask := 0; allowMask < 8; allowMask++ {
			for opt := 0; opt < 32; opt++ {
				names := []string{"href"}
				for bi, n := range []string{"rel", "target", "crossorigin"} {
					if allowMask&(1<<bi) != 0 {
						names = append(names, n)
					}
				}
				ops := []*bmx.Op{{Kind: "AA", Names: names, Scope: "E", ScopeEl: []string{"a", "area", "link"}},
					{Kind: "US", Names: []string{"http", "https"}}, {Kind: "RU", Flag: true},
					{Kind: "NF", Flag: opt&1 != 0}, {Kind: "NFQ", Flag: opt&2 != 0}, {Kind: "NR", Flag: opt&4 != 0},
					{Kind: "NRQ", Flag: opt&8 != 0}, {Kind: "TB", Flag: opt&16 != 0}}
				if allowMask&4 != 0 || opt%3 == 0 {
					ops = append(ops, &bmx.Op{Kind: "CO", Flag: true}, &bmx.Op{Kind: "AA", Names: []string{"src"}, Scope: "E", ScopeEl: []string{"img", "video"}})
				}
				pid, pol := c.policy(ops)
				for _, d := range []string{"<a href=\"http://x.com/\">t</a>", "<a href=\"/rel\">t</a>", "<a target=\"_blank\" href=\"/r\">t</a>",
					"<a rel=\"author\" href=\"http://x.com/\" target=\"_self\">t</a>", "<a rel=\"author\" target=\"_blank\" href=\"http://x.com/\">t</a>", "<a href=\"/r\" rel=\"x\" target=\"_BLANK\">t</a>", "<img src=\"javascript:alert(1)\"><video src=\"vbscript:x\">v</video><link href=\"javascript:x\">", "<area href=\"http://x.com/\"><link href=\"http://x.com/\" crossorigin=\"x\">",
					// hrefs the URL check trims: what decides "fully qualified" must be the value that is emitted
					"<a href=\" http://x.com/\">t</a>", "<a href=\"http://x.com/ \">t</a><area href=\"\thttp://x.com/\">", "<a href=\"&#10;http://x.com/\" rel=\"author\">t</a>", "<a href=\" /rel \" target=\"_blank\">t</a>"} {
					emit(pid, pol, []byte(d))
				}
				// every rel value of the pool (tokens of which a link type is a prefix or a suffix, other
				// white space, upper case) on a link the options apply to
				if allowMask&1 != 0 {
					for ri, rv := range bmx.RelPool {
						if (ri+opt)%4 == 0 || opt == 31 {
							emit(pid, pol, []byte("<a href=\"http://x.com/\" rel=\""+rv+"\">t</a><a target=\"_blank\" rel=\""+rv+"\" href=\"/r\">u</a>"))
						}
					}
				}
			}
		}
		sandboxCases(c, emit)
		directedSchemes(c, emit)
		// inline styles through default handlers and matchers: what the first pass writes must be what the
		// second pass keeps (priorities, repeated priorities, escapes, case, spacing, empty and broken declarations)
		for si, sops := range [][]*bmx.Op{
			{{Kind: "AS", Names: []string{"color", "width", "float", "font-family", "text-align"}, Scope: "G"}},
			{{Kind: "AS", Names: []string{"color", "width"}, Scope: "E", ScopeEl: []string{"b"}}, {Kind: "AS", Names: []string{"float"}, Re: bmx.NewRE(`^[a-z !]+$`), Scope: "G"}},
			{{Kind: "AS", Names: []string{"color", "width", "float"}, Scope: "M", ScopeRe: bmx.NewRE(`^(b|i)$`)}},
		} {
			ops := append([]*bmx.Op{{Kind: "AE", Names: []string{"b", "i"}}, {Kind: "AA", Names: []string{"style"}, Scope: "G"}}, sops...)
			pid, pol := c.policy(ops)
			for _, st := range []string{"color: red !important !important", "color: red !important", "color: red ! important; width: 10px!important", "COLOR: RED; Width: 10PX", "color:red;;width:10px;", "color: r\\65 d; width: 1\\30 px",
				"float: left !important !important !important", "color: red; width: 10px !important !important; float: none", "color: red /*c*/; width: /**/10px", "font-family: 'a b', serif; text-align: center !important", "color : red ; width : 10px", "color: red; width"} {
				emit(pid, pol, []byte("<b style=\""+st+"\">t</b><i style=\""+st+"\">u</i>"))
			}
			_ = si
		}
		// escaping makes tokens grow: very long runs of characters that need escaping, twice
		for _, name := range []string{"@STRICT", "@UGC"} {
			pid, pol := c.shipped(name)
			for _, doc := range []string{"<p>" + strings.Repeat("\"", 300000) + "</p>", "<p title=\"" + strings.Repeat("&amp;", 60000) + "\">t</p>", strings.Repeat("<", 250000)} {
				o1 := pol.Sanitize(doc)
				fmt.Fprintf(c.w, "bigidem %d %d %s\n", pid, len(doc), b01(pol.Sanitize(o1) == o1 && o1 != ""))
			}
		}
		for i := 0; i < c.n/2; {
			ops := bmx.RandPolicyOpsIdem(c.r)
			pid, pol := c.policy(ops)
			g := bmx.NewDocGen(c.r, ops)
			for k := 0; k < 8; k++ {
				emit(pid, pol, g.Doc(1+c.r.Intn(14)))
				i++
			}
		}
	}

	// C15: the four entry points, chunkings, writer kinds, input buffer; cmd tools
	families["entry"] = func(c *ctx) {
		forcedMode := -1
		run := func(pid int, pol *bluemonday.Policy, in []byte) {
			orig := append([]byte(nil), in...)
			s := pol.Sanitize(string(in))
			b := pol.SanitizeBytes(in)
			mode := c.r.Intn(5)
			if forcedMode >= 0 {
				mode = forcedMode
			}
			rd := func() io.Reader { return &chunkReader{data: append([]byte(nil), in...), mode: mode, r: c.r} }
			rbuf := pol.SanitizeReader(rd())
			var w1 bytes.Buffer
			err1 := pol.SanitizeReaderToWriter(rd(), &w1)
			var w2 plainWriter
			err2 := pol.SanitizeReaderToWriter(rd(), &w2)
			unchanged := bytes.Equal(orig, in)
			fmt.Fprintf(c.w, "entry %d %s %s %s %s %s %s %s %d\n", pid, bmx.HexField(in), bmx.HexS(s), bmx.HexField(b),
				bmx.HexField(rbuf.Bytes()), bmx.HexField(w1.Bytes()), bmx.HexField(w2.buf), b01(unchanged && err1 == nil && err2 == nil), mode)
		}
		blanks := []string{"", " ", "\r", "\n", "\t \r\n", " ", "  ", "\x85", " \x00",
			// white space for strings.TrimSpace that is not HTML's: with a carriage return the tokenizer would rewrite
			"\v\r\n", "\u00a0\r", "\u2028\r\n ", "\u3000\r", "\u0085\r\n\u0085", "\f\v\r", " \u2003\r\n\t", "\r\u1680", "\u205f\r\u202f", "\u200b\r", "\ufeff\r\n"}
		for _, bl := range blanks {
			// every blank under the shipped policies (the random loop below draws one in eight)
			for _, name := range []string{"@UGC", "@STRICT"} {
				pid, pol := c.shipped(name)
				run(pid, pol, []byte(bl))
			}
		}
		for i := 0; i < c.n; {
			ops := bmx.RandPolicyOps(c.r)
			pid, pol := c.policy(ops)
			g := bmx.NewDocGen(c.r, ops)
			for k := 0; k < 8; k++ {
				switch k {
				case 6:
					run(pid, pol, []byte(blanks[c.r.Intn(len(blanks))]))
				case 7:
					run(pid, pol, bmx.RandMalformed(c.r, 1+c.r.Intn(30)))
				default:
					run(pid, pol, g.Doc(1+c.r.Intn(20)))
				}
				i++
			}
		}
		// single tokens around the sizes an adapter or a tokenizer might buffer by (512 … 64 KiB), with small
		// tokens before and after them, and inputs that start with a byte order mark or other bytes a layer
		// in front of the tokenizer might treat specially — under every chunking and both writer kinds
		{
			lpid, lpol := c.policy([]*bmx.Op{{Kind: "AE", Names: []string{"h1", "p", "b", "img"}}, {Kind: "AA", Names: []string{"title", "alt"}, Scope: "G"}, {Kind: "AC"}})
			for _, n := range []int{511, 512, 513, 1024, 4095, 4096, 4097, 8192, 65536, 70000} {
				long := strings.Repeat("lorem ipsum ", n/12+1)[:n]
				docs := []string{"<h1>Title</h1><p>" + long + "</p><b>after</b>", "<b>x</b><p title=\"" + long + "\">t</p>y",
					"<p>a</p><!--" + long + "--><p>b</p>", "s<img alt=\"" + long + "\">" + long + "<b>e</b>"}
				for di, d := range docs {
					forcedMode = (di + n) % 5
					run(lpid, lpol, []byte(d))
				}
			}
			for mode := 0; mode < 5; mode++ {
				forcedMode = mode
				for _, d := range []string{"\xef\xbb\xbf<b>bom</b>", "\xef\xbb\xbf", "\xef\xbbx<p>almost</p>", "\xfe\xff<b>x</b>", "\x00<b>nul</b>", "\r\n<p>crlf first</p>\r\n", "<", "&", "&#", "<!", "<!-", "</", "<b", "a\xc3"} {
					run(lpid, lpol, []byte(d))
				}
			}
			forcedMode = -1
		}
		// long inputs cross the tokenizer's 4096-byte buffer
		pid, pol := c.shipped("@UGC")
		g := bmx.NewDocGen(c.r, ugcVocabOps())
		for i := 0; i < 6; i++ {
			run(pid, pol, g.Doc(700+c.r.Intn(600)))
		}
		// the command-line tools
		for _, tool := range []string{"sanitise_ugc", "sanitise_html_email"} {
			bin := filepath.Join(c.work, "bin", tool)
			if _, err := os.Stat(bin); err != nil {
				c.stat("cmd_missing", tool)
				continue
			}
			name := map[string]string{"sanitise_ugc": "@CMDUGC", "sanitise_html_email": "@CMDEMAIL"}[tool]
			c.pid++
			fmt.Fprintf(c.w, "policy %d %s -\n", c.pid, name)
			special := [][]byte{[]byte(" \n"), []byte("\xef\xbb\xbf<b>bom</b>"), []byte("a\r\nb\r"), []byte("x\x00y"), []byte("\xff\xfe<p>"), []byte("<a href=\"http://example.com/\">t</a>\n"),
				[]byte("\n<p>leading newline</p>"), []byte("trailing space "), []byte("100%"), []byte("\xef\xbb\xbf")}
			for i := 0; i < 12+len(special); i++ {
				in := g.Doc(1 + c.r.Intn(30))
				if i < len(special) {
					in = special[i]
				}
				cmd := exec.Command(bin)
				cmd.Stdin = bytes.NewReader(in)
				out, err := cmd.Output()
				if err != nil {
					out = []byte("ERROR " + err.Error())
				}
				fmt.Fprintf(c.w, "cmd %d %s %s\n", c.pid, bmx.HexField(in), bmx.HexField(out))
			}
			// whatever arrives on stdin, however much: a self-contained unit (judged above through the
			// model as a document of its own) repeated to 1, 4, 5 and 9 MiB comes out as its result repeated
			{
				unit := []byte("<p>para <b>bold</b> &amp; <a href=\"http://example.com/\">link</a></p>\n")
				one := func(in []byte) []byte {
					cmd := exec.Command(bin)
					cmd.Stdin = bytes.NewReader(in)
					out, err := cmd.Output()
					if err != nil {
						return []byte("ERROR " + err.Error())
					}
					return out
				}
				uo := one(unit)
				fmt.Fprintf(c.w, "cmd %d %s %s\n", c.pid, bmx.HexField(unit), bmx.HexField(uo))
				for _, total := range []int{1 << 20, 4<<20 - len(unit), 4 << 20, 5 << 20, 9 << 20} {
					k := total/len(unit) + 1
					in := bytes.Repeat(unit, k)
					ok := bytes.Equal(one(in), bytes.Repeat(uo, k))
					fmt.Fprintf(c.w, "big %d %d %s\n", c.pid, len(in), b01(ok))
				}
			}
		}
	}

	// C16: injected write failures and reader failures
	families["fault"] = func(c *ctx) {
		// calls that end abruptly — the source fails, or a write fails — inside a skip-content element,
		// a script / style / raw-text element or a dropped element leave nothing behind: the next
		// ordinary document, under the same and under another policy, comes out as always
		{
			ops := []*bmx.Op{{Kind: "AE", Names: []string{"b", "p", "i"}}, {Kind: "AA", Names: []string{"href"}, Scope: "E", ScopeEl: []string{"a"}}}
			pid, pol := c.policy(ops)
			upid, upol := c.shipped("@UGC")
			ops3 := []*bmx.Op{{Kind: "UN", Flag: true}, {Kind: "AE", Names: []string{"b", "p", "script"}}}
			pid3, pol3 := c.policy(ops3)
			for _, doc := range []string{"a<object>b<b>c", "x<title>unclosed title", "<a>1<a>2<object>3", "t<frameset><b>u</b>", "s<script>var x = 1;", "y<style>b{color:red", "<iframe>zz<b>",
				"<noscript>n", "<b><a>dropped<i>", "<textarea>ta", "<svg><title>t"} {
				for fk := 0; fk < 4; fk++ {
					for _, pl := range []*bluemonday.Policy{pol, upol, pol3} {
						pl.SanitizeReaderToWriter(strings.NewReader(doc), &faultWriter{failAt: fk})
						pl.SanitizeReader(&failingReader{data: []byte(doc), failAt: len(doc) - fk, err: errInjected})
						pl.SanitizeReader(&failingReader{data: []byte(doc), failAt: len(doc) - fk, withData: true, err: io.ErrUnexpectedEOF})
					}
					for _, probe := range []string{"p<b>q</b>r &amp; s", "<p>after &lt;x&gt;</p>t"} {
						fmt.Fprintf(c.w, "after %d %s %s\n", pid, bmx.HexField([]byte(probe)), safeSanitize(pol, []byte(probe)))
						fmt.Fprintf(c.w, "after %d %s %s\n", upid, bmx.HexField([]byte(probe)), safeSanitize(upol, []byte(probe)))
						fmt.Fprintf(c.w, "after %d %s %s\n", pid3, bmx.HexField([]byte(probe)), safeSanitize(pol3, []byte(probe)))
					}
				}
			}
		}
		// long tokens through the streaming entry points, from sources that are not in-memory readers: a
		// text run, a comment, an attribute value and a raw-text body of more than one and more than four
		// MiB come out whole, whatever the reader looks like
		{
			ops := []*bmx.Op{{Kind: "AE", Names: []string{"p", "b", "pre"}}, {Kind: "AA", Names: []string{"title"}, Scope: "G"}, {Kind: "AC"}}
			pid, pol := c.policy(ops)
			sizes := []int{1<<20 + 17}
			if c.n > 2000 {
				sizes = append(sizes, 4<<20+3)
			}
			for _, n := range sizes {
				for di, doc := range []string{"<p>" + strings.Repeat("lorem ipsum ", n/12) + "</p>", "<pre title=\"" + strings.Repeat("a", n) + "\">t</pre>",
					"<p>x</p><!--" + strings.Repeat("c ", n/2) + "--><b>y</b>", strings.Repeat("plain text, no markup at all. ", n/30)} {
					ok := true
					for mode, mk := range []func() io.Reader{
						func() io.Reader { return &chunkReader{data: []byte(doc), mode: 0, r: c.r} },
						func() io.Reader { return bufio.NewReaderSize(strings.NewReader(doc), 4096) },
						func() io.Reader { return io.MultiReader(strings.NewReader(doc[:len(doc)/2]), strings.NewReader(doc[len(doc)/2:])) },
						func() io.Reader { return struct{ io.Reader }{strings.NewReader(doc)} },
					} {
						if pol.SanitizeReader(mk()).String() != doc {
							ok = false
							c.stat(fmt.Sprintf("bigstream_reader_doc%d_mode%d", di, mode), "differs")
						}
						var w bytes.Buffer
						if err := pol.SanitizeReaderToWriter(mk(), &w); err != nil || w.String() != doc {
							ok = false
							c.stat(fmt.Sprintf("bigstream_writer_doc%d_mode%d", di, mode), "differs")
						}
					}
					fmt.Fprintf(c.w, "big %d %d %s\n", pid, len(doc), b01(ok))
				}
			}
		}
		round := 0
		for i := 0; i < c.n; {
			ops := bmx.RandPolicyOps(c.r)
			if c.r.Intn(2) == 0 {
				ops = append(ops, &bmx.Op{Kind: "AC"})
			}
			round++
			if round%4 == 0 {
				// every kind of write: raw script/style text (AllowUnsafe), comments, spaces, tags, text
				ops = []*bmx.Op{{Kind: "UN", Flag: true}, {Kind: "AE", Names: []string{"script", "style", "b", "p"}}, {Kind: "AC"},
					{Kind: "SP", Flag: round%8 == 0}, {Kind: "AA", Names: []string{"id"}, Scope: "G"}}
			}
			pid, pol := c.policy(ops)
			g := bmx.NewDocGen(c.r, ops)
			for k := 0; k < 3; k++ {
				in := g.Doc(1 + c.r.Intn(10))
				if round%4 == 0 {
					in = []byte(bmx.Pick(c.r, []string{"<p>a<script>var x = 1 < 2;</script>b<!-- c --><style>p{}</style><i>c</i></p>",
						"<script>unterminated", "<b id=1>t</b><style>x{y:z}</style><!--c-->", "x<script>s</script><script>t</script>y"}))
				}
				if k == 1 && round%3 == 0 {
					// tokens longer than any buffer an adapter might chunk by
					in = []byte("<p>" + strings.Repeat("long text ", 900) + "</p><!--" + strings.Repeat("c", 5000) + "-->" + "<b>x</b>")
				}
				if k == 2 && round%2 == 1 {
					// a failure that lands inside an open skip-content / dropped element
					in = []byte(bmx.Pick(c.r, []string{"a<object>b<b>c", "x<title>unclosed", "<a>1<a>2<object>3<iframe>4", "t<frameset><b>u</b>"}))
				}
				if k == 0 && round%4 == 1 {
					// a failing write that is the last thing the call does: input that ends in stripped tags,
					// comments or skipped content, under a policy that writes a space for a stripped tag
					ops = append(ops, &bmx.Op{Kind: "SP", Flag: true})
					pid, pol = c.policy(ops)
					in = []byte(bmx.Pick(c.r, []string{"<p>hello</p><unknown>", "text<custom-tag/>", "<b>x</b><center></center><!-- c -->",
						"t<nosuch></nosuch>", "t<object>skipped</object>", "a<nosuch><nosuch2></nosuch2></nosuch>", "<nosuch>"}))
				}
				if strings.TrimSpace(string(in)) == "" {
					continue
				}
				var full bytes.Buffer
				cw := &faultWriter{failAt: -1}
				if err := pol.SanitizeReaderToWriter(bytes.NewReader(in), cw); err != nil {
					continue
				}
				full.Write(cw.accepted)
				total := cw.calls
				for fk := 0; fk <= total; fk++ {
					if fk >= 24 && fk < total-4 {
						// long outputs: the first writes and the last ones (the call's final writes included)
						continue
					}
					for _, perm := range []bool{false, true} {
						for _, sw := range []bool{false, true} {
							fw := &faultWriter{failAt: fk, permanent: perm}
							var w io.Writer = fw
							if sw {
								w = &faultStringWriter{fw}
							}
							err := pol.SanitizeReaderToWriter(bytes.NewReader(in), w)
							fmt.Fprintf(c.w, "fault %d %s %d %s %s %s %d %s %s\n", pid, bmx.HexField(in), fk, b01(perm), b01(sw),
								b01(err != nil), fw.calls, bmx.HexField(fw.accepted), bmx.HexField(full.Bytes()))
							i++
						}
					}
				}
				// calls made after the failed ones must not notice them
				for _, probe := range []string{"p<b>q</b>r", "<p>after</p>"} {
					fmt.Fprintf(c.w, "after %d %s %s\n", pid, bmx.HexField([]byte(probe)), safeSanitize(pol, []byte(probe)))
				}
				// a destination whose failing Write takes part of the data (half of it, or all of it)
				for fk := 0; fk <= total && fk < 12; fk++ {
					for _, frac := range []int{2, 1} {
						pw := &partialWriter{failAt: fk, frac: frac}
						err := pol.SanitizeReaderToWriter(bytes.NewReader(in), pw)
						fmt.Fprintf(c.w, "pfault %d %s %d %s %d %s %s\n", pid, bmx.HexField(in), fk, b01(err != nil), pw.calls,
							bmx.HexField(pw.accepted), bmx.HexField(full.Bytes()))
						i++
					}
				}
				// reader failures at a few offsets
				for _, off := range []int{0, 1, len(in) / 2, len(in) - 1, len(in)} {
					if off < 0 || off > len(in) {
						continue
					}
					for _, withData := range []bool{false, true} {
						// every kind of non-EOF failure a real source produces: a plain error, a short body,
						// errors that wrap io.EOF / io.ErrUnexpectedEOF (only io.EOF itself is a clean end)
						for _, ferr := range []error{errInjected, io.ErrUnexpectedEOF, fmt.Errorf("read body: %w", io.EOF), fmt.Errorf("gzip: %w", io.ErrUnexpectedEOF)} {
							var w bytes.Buffer
							err := pol.SanitizeReaderToWriter(&failingReader{data: in, failAt: off, withData: withData, err: ferr}, &w)
							rb := pol.SanitizeReader(&failingReader{data: in, failAt: off, withData: withData, err: ferr})
							fmt.Fprintf(c.w, "rfault %d %s %d %s %s %s %d\n", pid, bmx.HexField(in), off, b01(withData), b01(err != nil),
								bmx.HexField(w.Bytes()), rb.Len())
							// the caller uses the buffer it was handed (a placeholder for the failed document)
							rb.WriteString("[document unavailable]")
							i++
						}
					}
				}
				for _, probe := range []string{"p<b>q</b>r", string(in)} {
					fmt.Fprintf(c.w, "after %d %s %s\n", pid, bmx.HexField([]byte(probe)), safeSanitize(pol, []byte(probe)))
				}
			}
		}
	}

	// C13: one finished policy shared by goroutines
	families["conc"] = func(c *ctx) {
		for i := 0; i < c.n; {
			ops := bmx.RandPolicyOps(c.r)
			// overlapping element patterns and style rules make map iteration order matter most
			ops = append(ops, &bmx.Op{Kind: "AEM", Re: bmx.NewRE(`^my-`)}, &bmx.Op{Kind: "AA", Names: []string{"id", "class"}, Scope: "M", ScopeRe: bmx.NewRE(`^my-[a-z]+$`)},
				&bmx.Op{Kind: "AA", Names: []string{"id"}, Re: bmx.NewRE(`^[0-9]+$`), Scope: "M", ScopeRe: bmx.NewRE(`-`)},
				&bmx.Op{Kind: "AS", Names: []string{"color"}, Enum: []string{"red"}, Scope: "M", ScopeRe: bmx.NewRE(`^my-`)},
				&bmx.Op{Kind: "AS", Names: []string{"color", "width"}, Handler: "always", Scope: "M", ScopeRe: bmx.NewRE(`el$`)})
			// several rules for one attribute on one pattern (a rule slice with spare capacity), a rule
			// for the same attribute on two further overlapping patterns
			ps := bmx.NewRE(`^x-`)
			for _, e := range []string{"red", "blue", "green"} {
				ops = append(ops, &bmx.Op{Kind: "AS", Names: []string{"color"}, Enum: []string{e}, Scope: "M", ScopeRe: ps})
			}
			ops = append(ops, &bmx.Op{Kind: "AS", Names: []string{"color"}, Enum: []string{"left"}, Scope: "M", ScopeRe: bmx.NewRE(`-left$`)},
				&bmx.Op{Kind: "AS", Names: []string{"color"}, Enum: []string{"right"}, Scope: "M", ScopeRe: bmx.NewRE(`-right$`)},
				&bmx.Op{Kind: "AA", Names: []string{"style"}, Scope: "G"})
			pw := bmx.NewRE(`^w-`)
			for _, src := range []string{`^a+$`, `^b+$`, `^c+$`} {
				ops = append(ops, &bmx.Op{Kind: "AA", Names: []string{"title"}, Re: bmx.NewRE(src), Scope: "M", ScopeRe: pw})
			}
			ops = append(ops, &bmx.Op{Kind: "AA", Names: []string{"title"}, Re: bmx.NewRE(`^d+$`), Scope: "M", ScopeRe: bmx.NewRE(`-x$`)},
				&bmx.Op{Kind: "AA", Names: []string{"title"}, Re: bmx.NewRE(`^e+$`), Scope: "M", ScopeRe: bmx.NewRE(`^w-.*-x$`)})
			pid, pol := c.policy(ops)
			dumpFinished := pol.VerifDump(bmx.RegexNamer(ops))
			g := bmx.NewDocGen(c.r, ops)
			// calls that fail part-way (inside open skip-content / dropped elements) come first:
			// they must leave nothing behind
			for _, doc := range []string{"a<object>b<b>c", "x<title>unclosed", "<a>1<a>2<object>3", "t<frameset><b>u</b>"} {
				for fk := 0; fk < 3; fk++ {
					pol.SanitizeReaderToWriter(strings.NewReader(doc), &faultWriter{failAt: fk})
					pol.SanitizeReader(&failingReader{data: []byte(doc), failAt: len(doc) - 1 - fk})
				}
			}
			for _, probe := range []string{"p<b>q</b>r", "<p>after</p>"} {
				fmt.Fprintf(c.w, "after %d %s %s\n", pid, bmx.HexField([]byte(probe)), safeSanitize(pol, []byte(probe)))
			}
			inputs := make([][]byte, 16)
			seq := make([]string, len(inputs))
			for k := range inputs {
				inputs[k] = g.Doc(1 + c.r.Intn(14))
				if k%4 == 2 {
					v := bmx.Pick(c.r, []string{"red", "blue", "green", "left", "right", "black"})
					inputs[k] = []byte("<x-left style=\"color: " + v + "\">L</x-left><x-right style=\"color: " + v + "\">R</x-right><x-mid style=\"color: " + v + "\">M</x-mid>")
				}
				if k%4 == 1 {
					// property names from which one vendor prefix uncovers another: the order of stripping decides
					v := bmx.Pick(c.r, []string{"red", "blue"})
					inputs[k] = []byte("<my-a style=\"-moz--webkit-color: " + v + "; -webkit--moz-color: " + v + "; -o--ms-width: 1px; mso--webkit-color: " + v + "; -ms-mso-color: " + v + "\">p</my-a><x-left style=\"-webkit--o-color: left; -moz-mso-color: left\">q</x-left>")
				}
				if k%4 == 3 {
					v := bmx.Pick(c.r, []string{"aaa", "bbb", "ccc", "ddd", "eee", "zzz"})
					inputs[k] = []byte("<w-k-x title=\"" + v + "\">t</w-k-x><w-k title=\"" + v + "\">u</w-k><q-x title=\"" + v + "\">v</q-x>")
				}
				seq[k] = pol.Sanitize(string(inputs[k]))
			}
			// before any goroutine is started: the same calls once more give the same results, and the
			// policy reads as it did when it was finished (written out at once — a policy that grows with
			// use may not leave the concurrent phase)
			for k := range inputs {
				again := pol.Sanitize(string(inputs[k]))
				fmt.Fprintf(c.w, "conc %d %s %s %s\n", pid, bmx.HexField(inputs[k]), bmx.HexS(seq[k]), b01(again == seq[k]))
			}
			c.pid++
			dumpUsed := pol.VerifDump(bmx.RegexNamer(ops))
			fmt.Fprintf(c.w, "policy %d %s %s\n", c.pid, bmx.EncodeOps(ops), bmx.HexS(dumpUsed))
			fmt.Fprintf(c.w, "unchanged %d %s %s %s\n", pid, bmx.HexS(dumpFinished), bmx.HexS(dumpUsed), b01(dumpUsed == dumpFinished))
			c.w.Flush()
			const G = 12
			equal := make([]bool, len(inputs))
			for k := range equal {
				equal[k] = true
			}
			var mu sync.Mutex
			var wg sync.WaitGroup
			for gi := 0; gi < G; gi++ {
				wg.Add(1)
				go func(gi int) {
					defer wg.Done()
					for rep := 0; rep < 3; rep++ {
						for k := range inputs {
							kk := (k + gi) % len(inputs)
							var got string
							switch (gi + rep) % 3 {
							case 0:
								got = pol.Sanitize(string(inputs[kk]))
							case 1:
								got = string(pol.SanitizeBytes(inputs[kk]))
							default:
								got = pol.SanitizeReader(bytes.NewReader(inputs[kk])).String()
							}
							if got != seq[kk] && strings.TrimSpace(string(inputs[kk])) != "" {
								mu.Lock()
								equal[kk] = false
								mu.Unlock()
							}
						}
					}
				}(gi)
			}
			wg.Wait()
			dumpAfter := pol.VerifDump(bmx.RegexNamer(ops))
			c.pid++
			fmt.Fprintf(c.w, "policy %d %s %s\n", c.pid, bmx.EncodeOps(ops), bmx.HexS(dumpAfter)) // the policy is unchanged by use
			fmt.Fprintf(c.w, "unchanged %d %s %s %s\n", pid, bmx.HexS(dumpFinished), bmx.HexS(dumpAfter), b01(dumpAfter == dumpFinished))
			for k := range inputs {
				fmt.Fprintf(c.w, "conc %d %s %s %s\n", pid, bmx.HexField(inputs[k]), bmx.HexS(seq[k]), b01(equal[k]))
				i++
			}
		}
	}

	// C13: the CSS handlers are shared by every policy and every goroutine: each default handler, on
	// values it accepts and values it rejects, decides concurrently what it decides alone
	concCSS := func(c *ctx) {
		g := bmx.NewCSSGen(c.r, c.work)
		// the registered properties, and names near them that have no handler of their own (logical
		// variants, a segment more, a segment less): "no handler" must be as stable as "this handler"
		near := []string{"border-inline-width", "border-block-width", "border-block-color", "border-inline-style", "overflow-inline", "overflow-block", "margin-inline", "margin-block-start",
			"padding-inline-end", "inset-inline", "color-scheme", "border-width-x", "border", "border-top", "outline-inline", "min-inline-size", "max-block-size"}
		props := append(append([]string{}, g.Props...), near...)
		ops := []*bmx.Op{{Kind: "AE", Names: []string{"b"}}, {Kind: "AA", Names: []string{"style"}, Scope: "G"}, {Kind: "AS", Names: props, Scope: "G"}}
		pid, pol := c.policy(ops)
		all := append(append([]string{}, bmx.CSSValuePool...), g.Vocab...)
		var inputs [][]byte
		for _, prop := range near {
			for _, v := range []string{"thin", "1px", "red", "solid", "hidden", "auto", "initial", "light dark", "1px solid red"} {
				inputs = append(inputs, []byte("<b style=\""+prop+": "+v+"\">t</b>"))
			}
		}
		for _, prop := range g.Props {
			h := cssGetDefault(prop)
			nacc, nrej := 0, 0
			for _, k := range c.r.Perm(len(all)) {
				v := all[k]
				if strings.ContainsAny(v, "\"<>&;") {
					continue
				}
				ok := safeHandler(h, v) == "1"
				if ok && nacc < 5 {
					nacc++
				} else if !ok && nrej < 3 {
					nrej++
				} else {
					continue
				}
				inputs = append(inputs, []byte("<b style=\""+prop+": "+v+"\">t</b>"))
			}
		}
		seq := make([]string, len(inputs))
		for k := range inputs {
			seq[k] = pol.Sanitize(string(inputs[k]))
		}
		equal := make([]bool, len(inputs))
		for k := range equal {
			equal[k] = true
		}
		var mu sync.Mutex
		var wg sync.WaitGroup
		for gi := 0; gi < 12; gi++ {
			wg.Add(1)
			go func(gi int) {
				defer wg.Done()
				for k := range inputs {
					kk := (k*(2*gi+1) + gi*97) % len(inputs)
					if pol.Sanitize(string(inputs[kk])) != seq[kk] {
						mu.Lock()
						equal[kk] = false
						mu.Unlock()
					}
				}
			}(gi)
		}
		wg.Wait()
		for k := range inputs {
			fmt.Fprintf(c.w, "conc %d %s %s %s\n", pid, bmx.HexField(inputs[k]), bmx.HexS(seq[k]), b01(equal[k]))
		}
		c.stat("conc_css_inputs", len(inputs))
	}
	concPlain := families["conc"]
	families["conc"] = func(c *ctx) {
		concPlain(c)
		concCSS(c)
	}

	// C14: wall clock on size-parameterised adversarial families (the model side checks panics)
	families["time"] = func(c *ctx) {
		ops := []*bmx.Op{
			{Kind: "AE", Names: []string{"b", "div", "span", "p", "img", "a", "my-el"}},
			{Kind: "AEM", Re: bmx.NewRE(`^my-`)},
			{Kind: "AA", Names: []string{"href", "src", "id", "class", "title"}, Scope: "G"},
			{Kind: "AS", Names: bmx.NewCSSGen(c.r, c.work).Props, Scope: "G"},
			{Kind: "US", Names: []string{"http", "https", "data"}}, {Kind: "RU", Flag: true},
			{Kind: "RW", Cb: "sethost=cdn.example"}, {Kind: "DA"}, {Kind: "NF", Flag: true}, {Kind: "TB", Flag: true},
		}
		pid, pol := c.policy(ops)
		// every call has a deadline: a runaway input is reported with its wall clock so far, and the
		// family gives up after a few of them (the abandoned goroutines end with the process)
		budget := 10 * time.Second
		timeouts := 0
		timeit := func(in []byte) {
			if timeouts >= 3 {
				return
			}
			t0 := time.Now()
			done := make(chan string, 1)
			go func() { done <- safeSanitize(pol, in) }()
			var out string
			select {
			case out = <-done:
			case <-time.After(budget):
				timeouts++
				fmt.Fprintf(c.w, "timeonly %d %s TIMEOUT %d\n", pid, bmx.HexField(in), time.Since(t0).Microseconds())
				c.stat("deadline_exceeded", fmt.Sprint(timeouts))
				return
			}
			us := time.Since(t0).Microseconds()
			op := "time"
			if len(in) > 400 {
				op = "timeonly" // too long for the interpreted model to replay quickly; wall clock only
			}
			fmt.Fprintf(c.w, "%s %d %s %s %d\n", op, pid, bmx.HexField(in), out, us)
		}
		// escapes beyond the BMP, alone and repeated (the decoder's loop must advance on each of them)
		for _, v := range []string{"font-family: \\1f4a9, serif", "font-family: \\1f4a9\\1f4a9, serif", "color: \\1f600\\1f600\\1f600", "font-family: \\10ffff\\10ffff x",
			"font-family: a\\1f4a9 b\\1f4a9", "color: \\110000\\110000", "font-family: \\d800\\d800, serif"} {
			timeit([]byte("<b style=\"" + v + "\">x</b>"))
		}
		// shorthand values with exactly n components (no damaged token at the end)
		for _, n := range []int{15, 16, 17, 31, 32, 33, 63, 64, 65} {
			for _, sh := range []string{"margin", "border", "font", "transition", "grid"} {
				timeit([]byte("<b style=\"" + sh + ": " + strings.TrimSpace(strings.Repeat("1px ", n)) + "\">x</b>"))
			}
		}
		sizes := []int{2, 4, 8, 12, 16, 24, 32, 64, 128, 200}
		if c.n > 2000 {
			sizes = append(sizes, 400, 800)
		}
		shorthand := []string{"grid", "border", "background", "font", "animation", "transition", "margin", "padding", "flex", "columns", "outline", "list-style", "text-decoration", "border-image", "box-shadow", "text-shadow", "grid-template", "grid-area"}
		tokens := []string{"1px", "red", "solid", "auto", "a", "1", "none", "1s", "ease", "'x'", "url(http://a.b/c)"}
		for _, k := range sizes {
			for _, sh := range shorthand {
				for _, tok := range tokens[:4] {
					timeit([]byte("<b style=\"" + sh + ": " + strings.Repeat(tok+" ", k) + "<\">x</b>"))
				}
			}
			timeit([]byte(strings.Repeat("<div>", k*10) + "x" + strings.Repeat("</div>", k*10)))
			timeit([]byte(strings.Repeat("<b>", k*10)))
			timeit([]byte("<a " + strings.Repeat("id=x ", k*10) + ">"))
			timeit([]byte("<b style=\"" + strings.Repeat("color:red;", k*5) + "\">"))
			timeit([]byte("<b style=\"color: " + strings.Repeat("\\72 ", k*5) + "\">"))
			timeit([]byte("<b style=\"color: " + strings.Repeat("\\5c ", k*5) + "72\">"))
			timeit([]byte("<img src=\"/%2f}" + strings.Repeat("a", k) + "\">"))
			timeit([]byte("<img src=\"" + strings.Repeat("/%2f", k) + "}\">"))
			timeit([]byte(strings.Repeat("<my-el><object>", k*5)))
			timeit([]byte(strings.Repeat("&amp;", k*20)))
			timeit([]byte("<!--" + strings.Repeat("-", k*20)))
		}
		for i := 0; i < c.n; i++ {
			timeit(bmx.RandMalformed(c.r, 1+c.r.Intn(60)))
		}
	}

	// unit level: net/url
	families["url"] = func(c *ctx) {
		emit := func(s string) {
			u, err := url.Parse(s)
			if err != nil {
				fmt.Fprintf(c.w, "url %s err 0\n", bmx.HexS(s))
				return
			}
			fmt.Fprintf(c.w, "url %s %s %s\n", bmx.HexS(s), bmx.HexS(u.String()), b01(u.Host != ""))
			// the printed form, parsed and printed again (C20's URL lemma)
			s2 := u.String()
			u2, err := url.Parse(s2)
			if err != nil {
				fmt.Fprintf(c.w, "url %s err 0\n", bmx.HexS(s2))
			} else {
				fmt.Fprintf(c.w, "url %s %s %s\n", bmx.HexS(s2), bmx.HexS(u2.String()), b01(u2.Host != ""))
			}
		}
		for _, s := range bmx.URLPool {
			emit(s)
		}
		for i := 0; i < c.n; i++ {
			emit(bmx.RandURL(c.r))
		}
	}
	families["vurl"] = func(c *ctx) {
		for i := 0; i < c.n; {
			ops := bmx.RandURLPolicyOps(c.r)
			pid, pol := c.policy(ops)
			for k := 0; k < 12; k++ {
				s := bmx.RandURL(c.r)
				if k%3 == 0 {
					s = bmx.Pick(c.r, bmx.URLPool)
				}
				v, ok := pol.VerifValidURL(s)
				res := "none"
				if ok {
					res = bmx.HexS(v)
				}
				fmt.Fprintf(c.w, "vurl %d %s %s\n", pid, bmx.HexS(s), res)
				i++
			}
		}
	}
	families["uni"] = func(c *ctx) {
		frag := []string{"\\", "\\72", "\\72 ", "\\5c", "\\5c ", "\\0", "\\000072", "\\0000072", "\\110000", "\\d800", "\\dfff", "\\e000", "\\ffff", "\\10000", "\\20", "\\20 ", "\\a", "\\9 ",
			"\\a0", "\\2003", "\\g", "\\\\", "r", "e", "d", " ", "  ", "7", "2", "a", "f", "url(", ")", "javascript:", "\\6a", "\\3c", "\\3e", "\\22", "é", "\xff", "\\85", "\\1680", "\\feff"}
		for i := 0; i < c.n; i++ {
			var b strings.Builder
			n := 1 + c.r.Intn(6)
			for k := 0; k < n; k++ {
				b.WriteString(frag[c.r.Intn(len(frag))])
			}
			s := b.String()
			v, ok := bluemonday.VerifRemoveUnicode(s)
			res := "fail"
			if ok {
				res = bmx.HexS(v)
			}
			fmt.Fprintf(c.w, "uni %s %s\n", bmx.HexS(s), res)
		}
	}
	families["style"] = func(c *ctx) {
		g := bmx.NewCSSGen(c.r, c.work)
		for i := 0; i < c.n; {
			ops := bmx.RandStylePolicyOps(c.r, g.Props)
			pid, pol := c.policy(ops)
			for k := 0; k < 10; k++ {
				el := bmx.Pick(c.r, []string{"b", "div", "my-el", "span", "p"})
				var val string
				switch c.r.Intn(4) {
				case 0:
					val = bmx.Pick(c.r, bmx.StylePool)
				default:
					nd := 1 + c.r.Intn(3)
					var parts []string
					for d := 0; d < nd; d++ {
						prop := bmx.Pick(c.r, g.Props)
						if c.r.Intn(5) == 0 {
							prop = bmx.Pick(c.r, bmx.StyleProps)
						}
						if c.r.Intn(6) == 0 {
							prop = bmx.Pick(c.r, []string{"-webkit-", "-moz-", "mso-", "-o-"}) + prop
						}
						if c.r.Intn(8) == 0 {
							prop = strings.ToUpper(prop)
						}
						h := cssDefault(prop)
						var acc []string
						for _, t := range bmx.CSSValuePool {
							if h(t) {
								acc = append(acc, t)
							}
						}
						parts = append(parts, prop+bmx.Pick(c.r, []string{": ", ":", " : "})+g.Value(acc))
					}
					val = strings.Join(parts, bmx.Pick(c.r, []string{"; ", ";", " ; "}))
				}
				fmt.Fprintf(c.w, "style %d %s %s %s\n", pid, bmx.HexS(el), bmx.HexS(val), bmx.HexS(pol.VerifSanitizeStyles(val, el)))
				i++
			}
		}
	}

	// C19: the exported matchers
	families["mat"] = func(c *ctx) {
		ms := map[string]interface{ MatchString(string) bool }{
			"CellAlign": bluemonday.CellAlign, "CellVerticalAlign": bluemonday.CellVerticalAlign, "Direction": bluemonday.Direction,
			"ImageAlign": bluemonday.ImageAlign, "Integer": bluemonday.Integer, "ISO8601": bluemonday.ISO8601, "ListType": bluemonday.ListType,
			"SpaceSeparatedTokens": bluemonday.SpaceSeparatedTokens, "Number": bluemonday.Number, "NumberOrPercent": bluemonday.NumberOrPercent,
			"Paragraph": bluemonday.Paragraph,
		}
		names := make([]string, 0, len(ms))
		for n := range ms {
			names = append(names, n)
		}
		sort.Strings(names)
		for _, name := range names {
			m := ms[name]
			emit := func(v string) { fmt.Fprintf(c.w, "mat %s %s %s\n", name, bmx.HexS(v), b01(m.MatchString(v))) }
			for _, ex := range bmx.MatcherExamples[name] {
				fmt.Fprintf(c.w, "matex %s %s %s\n", name, bmx.HexS(ex), b01(m.MatchString(ex)))
				// single and double substitutions of documented examples
				for p := 0; p <= len(ex); p++ {
					for _, h := range bmx.MatcherHostile {
						emit(ex[:p] + h + ex[p:])
						if p < len(ex) {
							emit(ex[:p] + h + ex[p+1:])
						}
					}
				}
			}
			// search around the matcher's *current* regexp: strings sampled from its syntax tree,
			// plain and with one hostile insertion
			if re, ok := m.(interface{ String() string }); ok {
				if node, err := bmx.ParseRe(re.String()); err == nil {
					for k := 0; k < 400; k++ {
						v := bmx.SampleRe(c.r, node, 0)
						emit(v)
						h := bmx.MatcherHostile[c.r.Intn(len(bmx.MatcherHostile))]
						p := c.r.Intn(len(v) + 1)
						emit(v[:p] + h + v[p:])
					}
				}
			}
			// all strings up to a length bound over the matcher's alphabet plus hostile characters
			alpha := bmx.MatcherAlphabet[name] + "<>\"=`\x00 ſK.é"
			maxLen := 3
			if c.n > 5000 {
				maxLen = 4
			}
			var rec func(prefix string, d int)
			rec = func(prefix string, d int) {
				emit(prefix)
				if d == maxLen {
					return
				}
				for _, ch := range alpha {
					rec(prefix+string(ch), d+1)
				}
			}
			rec("", 0)
		}
	}

	// C17: permuted / re-cased histories, interleaved construction
	families["perm"] = func(c *ctx) {
		for i := 0; i < c.n; {
			ops := bmx.RandPolicyOps(c.r)
			ops2 := bmx.PermuteHistory(c.r, ops)
			// interleaved construction of two policies and a shipped one in between
			pa, pb := bmx.NewBase(ops), bmx.NewBase(ops2)
			ia, ib := 0, 0
			for ia < len(ops) || ib < len(ops2) {
				if ia < len(ops) && (ib >= len(ops2) || c.r.Intn(2) == 0) {
					ops[ia].Apply(pa)
					ia++
				} else {
					ops2[ib].Apply(pb)
					ib++
				}
				if c.r.Intn(5) == 0 {
					bluemonday.UGCPolicy().AllowElements("script").AllowAttrs("onclick").Globally()
				}
			}
			c.pid++
			ida := c.pid
			fmt.Fprintf(c.w, "policy %d %s %s\n", ida, bmx.EncodeOps(ops), bmx.HexS(pa.VerifDump(bmx.RegexNamer(ops))))
			c.pid++
			idb := c.pid
			fmt.Fprintf(c.w, "policy %d %s %s\n", idb, bmx.EncodeOps(ops2), bmx.HexS(pb.VerifDump(bmx.RegexNamer(ops2))))
			g := bmx.NewDocGen(c.r, ops)
			for k := 0; k < 6; k++ {
				in := g.Doc(1 + c.r.Intn(14))
				fmt.Fprintf(c.w, "perm %d %d %s %s %s\n", ida, idb, bmx.HexField(in), safeSanitize(pa, in), safeSanitize(pb, in))
				i++
			}
		}
	}

	// C17 "rules accumulate rather than replace one another": a policy with one more attribute
	// rule keeps at least what the policy without it keeps (mono lines; the extra rule is global,
	// on an element pattern, or on an element the history already names — a rule on a new name
	// would shadow pattern rules, which is the documented precedence, not a loss)
	monoFam := func(c *ctx) {
		attrs := []string{"title", "class", "id", "lang", "size", "dir"}
		resrc := []string{`^[a-z]+$`, `^[A-Z]+$`, `^[0-9]+$`, `^[a-z ]+$`, `^(x|y)$`}
		for i := 0; i < c.n/4; i++ {
			ops := bmx.RandPolicyOps(c.r)
			// make overlaps likely: a global rule and some named elements to refine
			ops = append(ops, &bmx.Op{Kind: "AE", Names: []string{"abbr", "span", "b"}},
				&bmx.Op{Kind: "AA", Names: []string{bmx.Pick(c.r, attrs)}, Re: bmx.NewRE(bmx.Pick(c.r, resrc)), Scope: "G"})
			var named []string
			for _, o := range ops {
				if o.Kind == "AE" {
					named = append(named, o.Names...)
				}
			}
			extra := &bmx.Op{Kind: "AA", Names: []string{bmx.Pick(c.r, attrs)}}
			if c.r.Intn(3) > 0 {
				extra.Re = bmx.NewRE(bmx.Pick(c.r, resrc))
			}
			switch c.r.Intn(3) {
			case 0:
				extra.Scope = "G"
			case 1:
				extra.Scope, extra.ScopeRe = "M", bmx.NewRE(bmx.Pick(c.r, []string{`^s`, `^my-`, `b`, `^[a-z]+$`}))
			default:
				extra.Scope, extra.ScopeEl = "E", []string{bmx.Pick(c.r, named)}
			}
			ops2 := append(append([]*bmx.Op{}, ops...), extra)
			ida, pa := c.policy(ops)
			idb, pb := c.policy(ops2)
			g := bmx.NewDocGen(c.r, ops2)
			for k := 0; k < 4; k++ {
				in := g.Doc(1 + c.r.Intn(12))
				fmt.Fprintf(c.w, "mono %d %d %s %s %s\n", ida, idb, bmx.HexField(in), safeSanitize(pa, in), safeSanitize(pb, in))
			}
			for _, v := range []string{"abc", "ABC", "42", "a b", "x"} {
				in := []byte("<abbr " + extra.Names[0] + "=\"" + v + "\">t</abbr><span " + extra.Names[0] + "=\"" + v + "\">u</span>")
				fmt.Fprintf(c.w, "mono %d %d %s %s %s\n", ida, idb, bmx.HexField(in), safeSanitize(pa, in), safeSanitize(pb, in))
			}
		}
	}
	// directed accumulation: one attribute (and one style property) with a rule in one scope, then a second
	// rule with another pattern in the same or another scope — over all pairs of scopes, on a base without
	// raw-text elements so that the accumulation oracle applies
	directedMono := func(c *ctx) {
		resrc := []string{`^[a-z]+$`, `^[A-Z]+$`, `^[0-9]+$`}
		scope := func(o *bmx.Op, k int) {
			switch k {
			case 0:
				o.Scope = "G"
			case 1:
				o.Scope, o.ScopeEl = "E", []string{"abbr"}
			default:
				o.Scope, o.ScopeRe = "M", bmx.NewRE(`^(abbr|span)$`)
			}
		}
		for s1 := 0; s1 < 3; s1++ {
			for s2 := 0; s2 < 3; s2++ {
				for r1 := 0; r1 < 3; r1++ {
					r2 := (r1 + 1 + (s1+s2)%2) % 3
					first := &bmx.Op{Kind: "AA", Names: []string{"lang"}, Re: bmx.NewRE(resrc[r1])}
					scope(first, s1)
					extra := &bmx.Op{Kind: "AA", Names: []string{"lang"}, Re: bmx.NewRE(resrc[r2])}
					scope(extra, s2)
					base := []*bmx.Op{{Kind: "AE", Names: []string{"abbr", "span", "b"}}, first}
					ida, pa := c.policy(base)
					idb, pb := c.policy(append(append([]*bmx.Op{}, base...), extra))
					for _, v := range []string{"abc", "ABC", "42"} {
						in := []byte("<abbr lang=\"" + v + "\">t</abbr><span lang=\"" + v + "\">u</span><b lang=\"" + v + "\">w</b>")
						fmt.Fprintf(c.w, "mono %d %d %s %s %s\n", ida, idb, bmx.HexField(in), safeSanitize(pa, in), safeSanitize(pb, in))
					}
					// the same for a style property: an enumeration in one scope, a pattern in the other
					sfirst := &bmx.Op{Kind: "AS", Names: []string{"color"}, Enum: []string{"red", "blue"}}
					scope(sfirst, s1)
					sextra := &bmx.Op{Kind: "AS", Names: []string{"color"}, Re: bmx.NewRE(`^#[0-9a-f]{3}$`)}
					scope(sextra, s2)
					sbase := []*bmx.Op{{Kind: "AE", Names: []string{"abbr", "span", "b"}}, {Kind: "AA", Names: []string{"style"}, Scope: "G"}, sfirst}
					if r1 == 1 {
						sbase[2], sextra = sextra, sfirst
					}
					if r1 < 2 {
						isa, psa := c.policy(sbase)
						isb, psb := c.policy(append(append([]*bmx.Op{}, sbase...), sextra))
						for _, v := range []string{"red", "#abc", "green"} {
							in := []byte("<abbr style=\"color: " + v + "\">t</abbr><span style=\"color: " + v + "\">u</span><b style=\"color: " + v + "\">w</b>")
							fmt.Fprintf(c.w, "mono %d %d %s %s %s\n", isa, isb, bmx.HexField(in), safeSanitize(psa, in), safeSanitize(psb, in))
						}
					}
				}
			}
		}
	}
	// a builder call that names several elements / attributes / properties is the same rule set as
	// one call per name: grouped and split histories must behave alike
	splitFam := func(c *ctx) {
		docs := []string{"<abbr lang=\"en\" title=\"t\" dir=\"ltr\">a</abbr><span lang=\"en\" title=\"t\" dir=\"ltr\">s</span><b lang=\"en\" title=\"t\" dir=\"ltr\">b</b>",
			"<abbr style=\"color: red; width: 1px\">a</abbr><span style=\"color: red; width: 1px\">s</span><b style=\"width: 1px\">b</b>",
			"<u>skip</u><i>kept</i><x-a lang=\"en\">x</x-a><x-b title=\"t\">y</x-b>"}
		type pair struct{ grouped, split []*bmx.Op }
		re := bmx.NewRE(`^x-`)
		pairs := []pair{
			{[]*bmx.Op{{Kind: "AA", Names: []string{"lang"}, Scope: "E", ScopeEl: []string{"abbr", "span"}}, {Kind: "AA", Names: []string{"title"}, Scope: "E", ScopeEl: []string{"span"}}},
				[]*bmx.Op{{Kind: "AA", Names: []string{"lang"}, Scope: "E", ScopeEl: []string{"abbr"}}, {Kind: "AA", Names: []string{"lang"}, Scope: "E", ScopeEl: []string{"span"}}, {Kind: "AA", Names: []string{"title"}, Scope: "E", ScopeEl: []string{"span"}}}},
			{[]*bmx.Op{{Kind: "AA", Names: []string{"lang", "title"}, Scope: "E", ScopeEl: []string{"abbr", "b"}}, {Kind: "AA", Names: []string{"dir"}, Scope: "E", ScopeEl: []string{"b"}}},
				[]*bmx.Op{{Kind: "AA", Names: []string{"lang"}, Scope: "E", ScopeEl: []string{"abbr"}}, {Kind: "AA", Names: []string{"title"}, Scope: "E", ScopeEl: []string{"abbr"}}, {Kind: "AA", Names: []string{"title", "lang"}, Scope: "E", ScopeEl: []string{"b"}}, {Kind: "AA", Names: []string{"dir"}, Scope: "E", ScopeEl: []string{"b"}}}},
			{[]*bmx.Op{{Kind: "AE", Names: []string{"abbr", "span", "b"}}, {Kind: "AA", Names: []string{"lang", "dir"}, Scope: "G"}},
				[]*bmx.Op{{Kind: "AE", Names: []string{"b"}}, {Kind: "AE", Names: []string{"span"}}, {Kind: "AA", Names: []string{"dir"}, Scope: "G"}, {Kind: "AE", Names: []string{"abbr"}}, {Kind: "AA", Names: []string{"lang"}, Scope: "G"}}},
			{[]*bmx.Op{{Kind: "AE", Names: []string{"abbr", "span", "b"}}, {Kind: "AA", Names: []string{"style"}, Scope: "G"}, {Kind: "AS", Names: []string{"color", "width"}, Scope: "E", ScopeEl: []string{"abbr", "span"}}, {Kind: "AS", Names: []string{"width"}, Scope: "E", ScopeEl: []string{"b"}}},
				[]*bmx.Op{{Kind: "AE", Names: []string{"abbr", "span", "b"}}, {Kind: "AA", Names: []string{"style"}, Scope: "G"}, {Kind: "AS", Names: []string{"color"}, Scope: "E", ScopeEl: []string{"abbr"}}, {Kind: "AS", Names: []string{"width"}, Scope: "E", ScopeEl: []string{"abbr"}},
					{Kind: "AS", Names: []string{"color", "width"}, Scope: "E", ScopeEl: []string{"span"}}, {Kind: "AS", Names: []string{"width"}, Scope: "E", ScopeEl: []string{"b"}}}},
			{[]*bmx.Op{{Kind: "AE", Names: []string{"i"}}, {Kind: "SK", Names: []string{"u", "x-a"}}, {Kind: "AA", Names: []string{"lang", "title"}, Scope: "M", ScopeRe: re}},
				[]*bmx.Op{{Kind: "AE", Names: []string{"i"}}, {Kind: "SK", Names: []string{"u"}}, {Kind: "AA", Names: []string{"title"}, Scope: "M", ScopeRe: re}, {Kind: "SK", Names: []string{"x-a"}}, {Kind: "AA", Names: []string{"lang"}, Scope: "M", ScopeRe: re}}},
		}
		for _, pr := range pairs {
			ida, pa := c.policy(pr.grouped)
			idb, pb := c.policy(pr.split)
			for _, d := range docs {
				in := []byte(d)
				fmt.Fprintf(c.w, "perm %d %d %s %s %s\n", ida, idb, bmx.HexField(in), safeSanitize(pa, in), safeSanitize(pb, in))
			}
		}
	}
	toggleFam := func(c *ctx) {
		hist := [][]*bmx.Op{
			{{Kind: "DU"}, {Kind: "US", Names: []string{"DATA"}}, {Kind: "DU"}},
			{{Kind: "US", Names: []string{"data"}}, {Kind: "DU"}},
			{{Kind: "DU"}, {Kind: "DU"}},
			{{Kind: "DU"}, {Kind: "US", Names: []string{"data"}}},
			{{Kind: "US", Names: []string{"https"}}, {Kind: "UC", Names: []string{"https"}, Cb: "host=good.example"}},
			{{Kind: "UC", Names: []string{"https"}, Cb: "host=good.example"}, {Kind: "US", Names: []string{"https"}}, {Kind: "UC", Names: []string{"https"}, Cb: "never"}},
		}
		// a scheme registration reflects its most recent setting: AllowURLSchemes(x) replaces whatever was
		// registered for x, a custom policy registered afterwards is added to it — so a history equals the
		// history that starts at the last plain registration of the scheme
		normal := [][]*bmx.Op{
			{{Kind: "US", Names: []string{"data"}}, {Kind: "DU"}},
			{{Kind: "US", Names: []string{"data"}}, {Kind: "DU"}},
			{{Kind: "DU"}},
			{{Kind: "US", Names: []string{"data"}}},
			{{Kind: "US", Names: []string{"https"}}, {Kind: "UC", Names: []string{"https"}, Cb: "host=good.example"}},
			{{Kind: "US", Names: []string{"https"}}, {Kind: "UC", Names: []string{"https"}, Cb: "never"}},
		}
		for hi, h := range hist {
			base := []*bmx.Op{{Kind: "AE", Names: []string{"img", "a"}}, {Kind: "AA", Names: []string{"src", "href"}, Scope: "G"}}
			ops := append(append([]*bmx.Op{}, base...), h...)
			pid, pol := c.policy(ops)
			nid, npol := c.policy(append(append([]*bmx.Op{}, base...), normal[hi]...))
			for _, d := range []string{"<img src=\"data:image/png;base64,iVBORw0KGgo=\">", "<img src=\"data:text/html;base64,PHNjcmlwdD4=\">", "<img src=\"data:,x\">",
				"<a href=\"https://good.example/\">g</a>", "<a href=\"https://evil.example/\">e</a>"} {
				c.san(pid, pol, []byte(d))
				fmt.Fprintf(c.w, "perm %d %d %s %s %s\n", pid, nid, bmx.HexField([]byte(d)), safeSanitize(pol, []byte(d)), safeSanitize(npol, []byte(d)))
			}
		}
	}
	permFam := families["perm"]
	families["perm"] = func(c *ctx) {
		// first, while the process has built no other policy: state shared between policies that an
		// earlier family had already disturbed would make "before" and "after" agree
		independence(c)
		permFam(c)
		monoFam(c)
		directedMono(c)
		splitFam(c)
		toggleFam(c)
		directedStaged(c)
		directedOverlap(c)
		independence(c)
	}
	concFam := families["conc"]
	families["conc"] = func(c *ctx) {
		independence(c)
		concFam(c)
		directedStaged(c)
	}

	// directed material for individual properties
	families["directed"] = func(c *ctx) {
		directedStaged(c)
		directedOverlap(c)
		switch c.prop {
		case "C01", "C05", "C06":
			directedComments(c)
		}
		switch c.prop {
		case "C01":
			directedC01(c)
		case "C05":
			directedC05(c)
		case "C08", "C09":
			directedSoup(c)
			directedNesting(c)
		case "C11":
			directedC11(c)
		case "C12":
			directedC12(c)
			directedC12extra(c)
		case "C03":
			directedC03(c)
		case "C07":
			directedC07(c)
		case "C14":
			directedSoup(c)
			directedC03(c)
		case "C02":
			directedC02(c)
		case "C10":
			directedC10(c)
		case "C18":
			directedC18(c)
		default:
			families["san"](c)
		}
	}
}

func cssDefault(prop string) func(string) bool {
	return cssGetDefault(strings.ToLower(prop))
}

// --- readers and writers ---------------------------------------------------------

type chunkReader struct {
	data []byte
	pos  int
	mode int // 0 whole, 1 one byte, 2 random, 3 data together with EOF, 4 zero-length reads interleaved
	r    interface{ Intn(int) int }
	zero bool
}

func (c *chunkReader) Read(p []byte) (int, error) {
	if c.pos >= len(c.data) {
		return 0, io.EOF
	}
	n := len(c.data) - c.pos
	switch c.mode {
	case 1:
		n = 1
	case 2:
		n = 1 + c.r.Intn(7)
	case 4:
		c.zero = !c.zero
		if c.zero {
			return 0, nil
		}
		n = 1 + c.r.Intn(5)
	}
	if n > len(c.data)-c.pos {
		n = len(c.data) - c.pos
	}
	if n > len(p) {
		n = len(p)
	}
	copy(p, c.data[c.pos:c.pos+n])
	c.pos += n
	if c.mode == 3 && c.pos >= len(c.data) {
		return n, io.EOF
	}
	return n, nil
}

type plainWriter struct{ buf []byte }

func (w *plainWriter) Write(p []byte) (int, error) { w.buf = append(w.buf, p...); return len(p), nil }

var errInjected = errors.New("injected fault")

type faultWriter struct {
	failAt    int
	permanent bool
	calls     int
	accepted  []byte
}

func (w *faultWriter) Write(p []byte) (int, error) {
	k := w.calls
	w.calls++
	if w.failAt >= 0 && (k == w.failAt || (w.permanent && k > w.failAt)) {
		return 0, errInjected
	}
	w.accepted = append(w.accepted, p...)
	return len(p), nil
}

// partialWriter has no WriteString; its failAt-th Write takes len/frac bytes and fails
type partialWriter struct {
	failAt, frac int
	calls        int
	accepted     []byte
}

func (w *partialWriter) Write(p []byte) (int, error) {
	k := w.calls
	w.calls++
	if k >= w.failAt {
		n := len(p) / w.frac
		if k > w.failAt {
			n = 0
		}
		w.accepted = append(w.accepted, p[:n]...)
		return n, errInjected
	}
	w.accepted = append(w.accepted, p...)
	return len(p), nil
}

type faultStringWriter struct{ *faultWriter }

func (w *faultStringWriter) WriteString(s string) (int, error) { return w.faultWriter.Write([]byte(s)) }

type failingReader struct {
	data     []byte
	pos      int
	failAt   int
	withData bool
	err      error
}

func (r *failingReader) Read(p []byte) (int, error) {
	if r.err == nil {
		r.err = errInjected
	}
	if r.pos >= r.failAt {
		return 0, r.err
	}
	n := r.failAt - r.pos
	if n > len(p) {
		n = len(p)
	}
	if n > 3 && !r.withData {
		n = 3
	}
	copy(p, r.data[r.pos:r.pos+n])
	r.pos += n
	if r.withData && r.pos >= r.failAt {
		return n, r.err
	}
	return n, nil
}

var _ = html.EscapeString
