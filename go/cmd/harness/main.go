// Command harness runs the real bluemonday (built from /repo's working tree with
// -tags verif) on generated cases and writes one protocol line per case; the Lean
// driver replays the same lines on the model and evaluates the oracles.
package main

import (
	"bufio"
	"flag"
	"fmt"
	"math/rand"
	"os"
	"regexp"

	"verif/bmx"

	"github.com/microcosm-cc/bluemonday"
	"github.com/microcosm-cc/bluemonday/css"
)

type ctx struct {
	w    *bufio.Writer
	r    *rand.Rand
	n    int
	work string
	prop string
	pid  int
}

func b01(b bool) string {
	if b {
		return "1"
	}
	return "0"
}

// safeSanitize runs Sanitize and reports a panic as the literal PANIC.
func safeSanitize(p *bluemonday.Policy, in []byte) (res string) {
	defer func() {
		if e := recover(); e != nil {
			res = "PANIC"
		}
	}()
	return bmx.HexField([]byte(p.Sanitize(string(in))))
}

// policy registers a built policy with the driver and returns its id.
func (c *ctx) policy(ops []*bmx.Op) (int, *bluemonday.Policy) {
	c.pid++
	pol := bmx.Build(ops)
	fmt.Fprintf(c.w, "policy %d %s %s\n", c.pid, bmx.EncodeOps(ops), bmx.HexS(pol.VerifDump(bmx.RegexNamer(ops))))
	return c.pid, pol
}

func sourceNamer(r *regexp.Regexp) string { return fmt.Sprintf("s%x", r.String()) }

// shipped registers one of the shipped constructors.
func (c *ctx) shipped(name string) (int, *bluemonday.Policy) {
	c.pid++
	var pol *bluemonday.Policy
	switch name {
	case "@STRICT":
		pol = bluemonday.StrictPolicy()
	case "@UGC":
		pol = bluemonday.UGCPolicy()
	}
	fmt.Fprintf(c.w, "policy %d %s %s\n", c.pid, name, bmx.HexS(pol.VerifDump(sourceNamer)))
	return c.pid, pol
}

func (c *ctx) san(pid int, pol *bluemonday.Policy, in []byte) {
	fmt.Fprintf(c.w, "san %d %s %s\n", pid, bmx.HexField(in), safeSanitize(pol, in))
}

func (c *ctx) stat(key string, v interface{}) { fmt.Fprintf(c.w, "# %s %v\n", key, v) }

var families = map[string]func(*ctx){}

func main() {
	family := flag.String("family", "tok", "case family")
	seed := flag.Int64("seed", 1, "PRNG seed")
	n := flag.Int("n", 1000, "number of cases")
	out := flag.String("out", "", "output file (default stdout)")
	work := flag.String("work", "/verif/work", "directory with extractor artefacts")
	prop := flag.String("prop", "", "property the run serves (selects directed material)")
	flag.Parse()
	w := bufio.NewWriterSize(os.Stdout, 1<<20)
	if *out != "" {
		f, err := os.Create(*out)
		if err != nil {
			fmt.Fprintln(os.Stderr, err)
			os.Exit(2)
		}
		defer f.Close()
		w = bufio.NewWriterSize(f, 1<<20)
	}
	defer w.Flush()
	c := &ctx{w: w, r: rand.New(rand.NewSource(*seed)), n: *n, work: *work, prop: *prop}
	fn, ok := families[*family]
	if !ok {
		fmt.Fprintln(os.Stderr, "unknown family", *family)
		os.Exit(2)
	}
	fn(c)
}

func init() {
	families["tok"] = func(c *ctx) {
		for i := 0; i < c.n; i++ {
			var in []byte
			switch i % 3 {
			case 0:
				in = bmx.RandMalformed(c.r, 1+c.r.Intn(12))
			case 1:
				in = bmx.RandBytes(c.r, 1+c.r.Intn(24))
			default:
				in = bmx.RandMalformed(c.r, 1+c.r.Intn(40))
			}
			fmt.Fprintf(c.w, "tok %s %s\n", bmx.HexField(in), bmx.EncTokens(bmx.Tokenize(in)))
		}
	}
	families["san"] = func(c *ctx) {
		for i := 0; i < c.n; {
			ops := bmx.RandPolicyOps(c.r)
			pid, pol := c.policy(ops)
			g := bmx.NewDocGen(c.r, ops)
			for k := 0; k < 8 && i < c.n; k++ {
				var in []byte
				if k == 7 {
					in = bmx.RandMalformed(c.r, 1+c.r.Intn(20))
				} else {
					in = g.Doc(1 + c.r.Intn(14))
				}
				c.san(pid, pol, in)
				i++
			}
		}
	}
	families["hdl"] = func(c *ctx) {
		g := bmx.NewCSSGen(c.r, c.work)
		all := append(append([]string{}, bmx.CSSValuePool...), g.Vocab...)
		per := (c.n + len(g.Props) - 1) / len(g.Props)
		acceptedN := 0
		for _, prop := range g.Props {
			h := css.GetDefaultHandler(prop)
			var accepted []string
			for _, t := range all {
				if h(t) {
					accepted = append(accepted, t)
				}
			}
			for k := 0; k < per; k++ {
				v := g.Value(accepted)
				ok := h(v)
				if ok {
					acceptedN++
				}
				fmt.Fprintf(c.w, "hdl %s %s %s\n", bmx.HexS(prop), bmx.HexS(v), b01(ok))
			}
		}
		for _, v := range all {
			fmt.Fprintf(c.w, "hdl %s %s %s\n", bmx.HexS("no-such-property"), bmx.HexS(v), b01(css.GetDefaultHandler("no-such-property")(v)))
		}
		c.stat("accepted", acceptedN)
		c.stat("properties", len(g.Props))
	}
}
