// Command harness runs the real bluemonday (built from /repo's working tree with
// -tags verif) on generated cases and writes one protocol line per case; the Lean
// driver replays the same lines on the model and evaluates the oracles.
package main

import (
	"runtime"
	"time"
	"strings"
	"sort"
	"bytes"
	"bufio"
	"flag"
	"fmt"
	"math/rand"
	"os"
	"regexp"

	"verif/bmx"

	"github.com/microcosm-cc/bluemonday"
	"github.com/microcosm-cc/bluemonday/css"
)

type ctx struct {
	w    *bufio.Writer
	r    *rand.Rand
	n    int
	work string
	useThenExtend int
	prop string
	pid  int
	sanN int
	kept []keptResult
	rich *bluemonday.Policy
	disturbances, retained, retainedChanged int
}

// keptResult is a SanitizeBytes result the harness holds on to while the library is used again.
type keptResult struct {
	pid      int
	in       []byte
	out, cpy []byte
}

func b01(b bool) string {
	if b {
		return "1"
	}
	return "0"
}

// safeSanitize runs Sanitize, reports a panic as the literal PANIC and a call that does not
// return within the deadline as the literal TIMEOUT (the runaway goroutine ends with the process;
// after a few of them the harness flushes what it has and stops).
func safeSanitize(p *bluemonday.Policy, in []byte) string {
	done := make(chan string, 1)
	go func() {
		defer func() {
			if e := recover(); e != nil {
				done <- "PANIC"
			}
		}()
		done <- bmx.HexField([]byte(p.Sanitize(string(in))))
	}()
	select {
	case r := <-done:
		return r
	case <-time.After(sanitizeDeadline):
		timeouts++
		if timeouts >= 3 && onTooManyTimeouts != nil {
			defer onTooManyTimeouts()
		}
		return "TIMEOUT"
	}
}

var (
	sanitizeDeadline  = 10 * time.Second
	timeouts          int
	onTooManyTimeouts func()
)

// policy registers a built policy with the driver and returns its id.
func (c *ctx) policy(ops []*bmx.Op) (int, *bluemonday.Policy) {
	c.pid++
	var pol *bluemonday.Policy
	zero := len(ops) > 0 && ops[0].Kind == "ZERO"
	if !zero && len(ops) >= 2 && c.r.Intn(4) == 0 {
		// use-then-extend: the policy sanitises documents written in its final vocabulary while
		// it is still half built; a policy is its rule set, so this must leave no trace
		pol = bmx.NewBase(ops)
		k := 1 + c.r.Intn(len(ops)-1)
		for _, o := range ops[:k] {
			o.Apply(pol)
		}
		g := bmx.NewDocGen(c.r, ops)
		for i := 0; i < 3; i++ {
			safeSanitize(pol, g.Doc(4+c.r.Intn(8)))
		}
		for _, o := range ops[k:] {
			o.Apply(pol)
		}
		c.useThenExtend++
	} else {
		pol = bmx.Build(ops)
	}
	fmt.Fprintf(c.w, "policy %d %s %s\n", c.pid, bmx.EncodeOps(ops), bmx.HexS(pol.VerifDump(bmx.RegexNamer(ops))))
	return c.pid, pol
}

// policyStaged builds a policy in stages and sanitises the probe documents between the stages:
// a policy is its rule set, so use between builder calls must leave no trace.  The model applies
// all the ops at once.
func (c *ctx) policyStaged(stages [][]*bmx.Op, probes []string) (int, *bluemonday.Policy) {
	var ops []*bmx.Op
	for _, st := range stages {
		ops = append(ops, st...)
	}
	c.pid++
	pol := bmx.NewBase(ops)
	for i, st := range stages {
		for _, o := range st {
			o.Apply(pol)
		}
		if i+1 < len(stages) {
			for _, pr := range probes {
				safeSanitize(pol, []byte(pr))
			}
		}
	}
	c.useThenExtend++
	fmt.Fprintf(c.w, "policy %d %s %s\n", c.pid, bmx.EncodeOps(ops), bmx.HexS(pol.VerifDump(bmx.RegexNamer(ops))))
	return c.pid, pol
}

// safeHandler calls a css handler and reports a panic as the literal PANIC.
func safeHandler(h func(string) bool, v string) (res string) {
	defer func() {
		if e := recover(); e != nil {
			res = "PANIC"
		}
	}()
	return b01(h(v))
}

func sourceNamer(r *regexp.Regexp) string { return fmt.Sprintf("s%x", r.String()) }

// shipped registers one of the shipped constructors.
func (c *ctx) shipped(name string) (int, *bluemonday.Policy) {
	c.pid++
	var pol *bluemonday.Policy
	switch name {
	case "@STRICT":
		pol = bluemonday.StrictPolicy()
	case "@UGC":
		pol = bluemonday.UGCPolicy()
	}
	fmt.Fprintf(c.w, "policy %d %s %s\n", c.pid, name, bmx.HexS(pol.VerifDump(sourceNamer)))
	return c.pid, pol
}

// san sanitises one document and writes the case.  Two things happen around the call that a policy
// (a pure function of its rule set, in the model) must not notice: every so often the library is
// disturbed first (a richer policy is used, and a SanitizeReader call is made to fail half way through
// its input), and one call in four goes through SanitizeBytes and its result is kept while the library
// is used again; if the kept bytes change, the case is written again with what they hold now.
func (c *ctx) san(pid int, pol *bluemonday.Policy, in []byte) {
	c.sanN++
	if c.sanN%256 == 0 {
		c.w.Flush() // what was found so far survives a crash of the library
	}
	if c.sanN%29 == 7 {
		c.disturb()
	}
	if c.sanN%4 == 1 {
		out, status := safeSanitizeBytes(pol, in)
		if status != "" {
			fmt.Fprintf(c.w, "san %d %s %s\n", pid, bmx.HexField(in), status)
			return
		}
		fmt.Fprintf(c.w, "san %d %s %s\n", pid, bmx.HexField(in), bmx.HexField(out))
		c.kept = append(c.kept, keptResult{pid, in, out, append([]byte{}, out...)})
		c.retained++
		if len(c.kept) >= 48 {
			c.flushKept()
		}
		return
	}
	fmt.Fprintf(c.w, "san %d %s %s\n", pid, bmx.HexField(in), safeSanitize(pol, in))
}

// flushKept looks at the results held so far: one that no longer reads as it did when it was
// returned is reported as the output of its call.
func (c *ctx) flushKept() {
	for _, k := range c.kept {
		if !bytes.Equal(k.out, k.cpy) {
			c.retainedChanged++
			fmt.Fprintf(c.w, "# the result of the next case changed after it was returned\n")
			fmt.Fprintf(c.w, "san %d %s %s\n", k.pid, bmx.HexField(k.in), bmx.HexField(k.out))
		}
	}
	c.kept = c.kept[:0]
}

// disturb uses the library in ways that must leave no trace on other calls.
func (c *ctx) disturb() {
	if c.rich == nil {
		c.rich = bluemonday.UGCPolicy().AllowUnsafe(true).AllowElements("script", "style").AllowElements("form", "input", "iframe", "button", "font").
			AllowAttrs("onclick", "style", "action", "type", "src", "background").Globally()
		c.rich.AllowComments()
		c.rich.AllowURLSchemes("javascript", "data", "vbscript", "ftp", "tel", "x-app", "http", "https", "mailto").AllowRelativeURLs(true)
		c.rich.AllowStyles("color", "position").Globally()
	}
	c.disturbances++
	doc := []byte("<script>alert(\"RICH\")</script><style>p{}</style><form action=\"http://evil.example/\" onclick=\"x()\"><input type=\"password\"><!-- c --><iframe src=\"http://evil.example/\"></iframe><p style=\"position: fixed\">to be continued")
	// URLs the rich policy accepts and most others do not (what it learnt about them is its own business)
	urls := "<a href=\"javascript:alert(1)\">j</a><img src=\"data:text/html,x\"><a href=\"vbscript:x\">v</a><a href=\"JaVaScRiPt:alert(1)\">J</a>"
	for i := 0; i < 4; i++ {
		u := strings.ReplaceAll(bmx.URLPool[(c.disturbances*4+i)%len(bmx.URLPool)], "\"", "&quot;")
		urls += "<a href=\"" + u + "\">t</a><img src=\"" + u + "\"><q cite=\"" + u + "\">q</q>"
	}
	func() {
		defer func() { recover() }()
		_ = c.rich.Sanitize(urls)
		_ = c.rich.SanitizeBytes(doc)
		_ = c.rich.Sanitize(string(doc))
		// the failing calls last: what they leave behind is what the next case meets
		c.rich.SanitizeReaderToWriter(&failingReader{data: doc, failAt: len(doc) - 9}, &bytes.Buffer{})
		c.rich.SanitizeReader(&failingReader{data: doc, failAt: len(doc) - 3 - c.disturbances%7})
	}()
}

func safeSanitizeBytes(p *bluemonday.Policy, in []byte) (out []byte, status string) {
	type res struct {
		out    []byte
		status string
	}
	done := make(chan res, 1)
	go func() {
		defer func() {
			if e := recover(); e != nil {
				done <- res{nil, "PANIC"}
			}
		}()
		done <- res{p.SanitizeBytes(append([]byte{}, in...)), ""}
	}()
	select {
	case r := <-done:
		return r.out, r.status
	case <-time.After(sanitizeDeadline):
		timeouts++
		if timeouts >= 3 && onTooManyTimeouts != nil {
			defer onTooManyTimeouts()
		}
		return nil, "TIMEOUT"
	}
}

func (c *ctx) stat(key string, v interface{}) { fmt.Fprintf(c.w, "# %s %v\n", key, v) }

var families = map[string]func(*ctx){}

func main() {
	family := flag.String("family", "tok", "case family")
	seed := flag.Int64("seed", 1, "PRNG seed")
	n := flag.Int("n", 1000, "number of cases")
	out := flag.String("out", "", "output file (default stdout)")
	work := flag.String("work", "/verif/work", "directory with extractor artefacts")
	prop := flag.String("prop", "", "property the run serves (selects directed material)")
	flag.Parse()
	w := bufio.NewWriterSize(os.Stdout, 1<<20)
	if *out != "" {
		f, err := os.Create(*out)
		if err != nil {
			fmt.Fprintln(os.Stderr, err)
			os.Exit(2)
		}
		defer f.Close()
		w = bufio.NewWriterSize(f, 1<<20)
	}
	defer w.Flush()
	c := &ctx{w: w, r: rand.New(rand.NewSource(*seed)), n: *n, work: *work, prop: *prop}
	onTooManyTimeouts = func() {
		fmt.Fprintf(w, "# stopped_after_timeouts %d\n", timeouts)
		w.Flush()
		os.Exit(0)
	}
	fn, ok := families[*family]
	if !ok {
		fmt.Fprintln(os.Stderr, "unknown family", *family)
		os.Exit(2)
	}
	if *family != "conc" && *family != "time" {
		// one P: whatever the library parks in a sync.Pool is handed straight back to the next call
		runtime.GOMAXPROCS(1)
	}
	fn(c)
	c.flushKept()
	c.stat("use_then_extend_policies", c.useThenExtend)
	c.stat("disturbances", c.disturbances)
	c.stat("results_kept", c.retained)
	c.stat("results_kept_changed", c.retainedChanged)
	c.aliasCheck()
}

// aliasCheck: results handed out earlier must not change when the library is used again, and
// the caller's input buffers must not be written to (C13 "independent of earlier calls",
// C15 "the caller's input buffer is never modified").  One `alias` line per probe.
func (c *ctx) aliasCheck() {
	if c.prop != "C13" && c.prop != "C15" && c.prop != "C01" {
		return
	}
	pols := []*bluemonday.Policy{bluemonday.UGCPolicy(), bluemonday.StrictPolicy(), bluemonday.UGCPolicy().AddSpaceWhenStrippingTag(true)}
	g := bmx.NewDocGen(c.r, ugcVocabOps())
	type held struct {
		in, inCopy, out, outCopy []byte
	}
	var hs []held
	for i := 0; i < 40; i++ {
		in := g.Doc(2 + c.r.Intn(30))
		h := held{in: in, inCopy: append([]byte{}, in...)}
		h.out = pols[i%len(pols)].SanitizeBytes(in)
		h.outCopy = append([]byte{}, h.out...)
		hs = append(hs, h)
		// interleave the other entry points
		_ = pols[(i+1)%len(pols)].Sanitize(string(g.Doc(1 + c.r.Intn(30))))
		_ = pols[(i+2)%len(pols)].SanitizeReader(bytes.NewReader(g.Doc(1 + c.r.Intn(30))))
	}
	for _, h := range hs {
		ok := bytes.Equal(h.in, h.inCopy) && bytes.Equal(h.out, h.outCopy)
		fmt.Fprintf(c.w, "alias %s %s %s %s\n", bmx.HexField(h.inCopy), bmx.HexField(h.outCopy), bmx.HexField(h.out), b01(ok))
	}
}

func init() {
	families["tok"] = func(c *ctx) {
		for i := 0; i < c.n; i++ {
			var in []byte
			switch i % 3 {
			case 0:
				in = bmx.RandMalformed(c.r, 1+c.r.Intn(12))
			case 1:
				in = bmx.RandBytes(c.r, 1+c.r.Intn(24))
			default:
				in = bmx.RandMalformed(c.r, 1+c.r.Intn(40))
			}
			fmt.Fprintf(c.w, "tok %s %s\n", bmx.HexField(in), bmx.EncTokens(bmx.Tokenize(in)))
		}
	}
	families["san"] = func(c *ctx) {
		for i := 0; i < c.n; {
			ops := bmx.RandPolicyOps(c.r)
			pid, pol := c.policy(ops)
			g := bmx.NewDocGen(c.r, ops)
			for k := 0; k < 8 && i < c.n; k++ {
				var in []byte
				if k == 7 {
					in = bmx.RandMalformed(c.r, 1+c.r.Intn(20))
				} else {
					in = g.Doc(1 + c.r.Intn(14))
				}
				c.san(pid, pol, in)
				i++
			}
		}
	}
	families["hdl"] = func(c *ctx) {
		g := bmx.NewCSSGen(c.r, c.work)
		all := append(append([]string{}, bmx.CSSValuePool...), g.Vocab...)
		per := (c.n + len(g.Props) - 1) / len(g.Props)
		acceptedN := 0
		for _, prop := range g.Props {
			h := css.GetDefaultHandler(prop)
			var accepted []string
			for _, t := range all {
				if h(t) {
					accepted = append(accepted, t)
				}
			}
			for k := 0; k < per; k++ {
				v := g.Value(accepted)
				ok := safeHandler(h, v)
				if ok == "1" {
					acceptedN++
				}
				fmt.Fprintf(c.w, "hdl %s %s %s\n", bmx.HexS(prop), bmx.HexS(v), ok)
			}
		}
		// systematic placement of every hostile fragment around and inside accepted values: as a
		// further list entry, as a further component, glued on, and inside url(...)
		nAcc := 2
		if c.n > 100000 {
			nAcc = 6
		}
		for _, prop := range g.Props {
			h := css.GetDefaultHandler(prop)
			var accepted []string
			for _, t := range all {
				if t != "" && h(t) {
					accepted = append(accepted, t)
				}
			}
			// the longest accepted values (lists, shorthands) and those with a url() first
			sort.SliceStable(accepted, func(i, j int) bool {
				ui, uj := strings.Contains(accepted[i], "url("), strings.Contains(accepted[j], "url(")
				if ui != uj {
					return ui
				}
				return len(accepted[i]) > len(accepted[j])
			})
			if len(accepted) > nAcc {
				accepted = append(accepted[:nAcc-1], accepted[len(accepted)-1])
			}
			for _, a := range accepted {
				for _, hf := range bmx.Hostile {
					vs := []string{a + ", " + hf, a + "," + hf, hf + ", " + a, a + " " + hf, hf + " " + a, a + hf, a + "/" + hf, a + ", " + a + " " + hf, a + hf + a, a + hf + " " + a,
						// a component that a second separator splits, with the fragment after it
						a + "/" + a + " " + hf, a + "/" + a + " " + hf + " " + a, a + " / " + a + " " + hf, a + "," + a + " " + hf + " " + a}
					if i := strings.Index(a, "url("); i >= 0 {
						if j := strings.Index(a[i:], ")"); j > 0 {
							vs = append(vs, a[:i+j]+hf+a[i+j:])
							q := i + j
							if a[q-1] == '\'' || a[q-1] == '"' {
								vs = append(vs, a[:q-1]+hf+a[q-1:])
							}
						}
					}
					for _, v := range vs {
						ok := safeHandler(h, v)
						if ok == "1" {
							acceptedN++
						}
						fmt.Fprintf(c.w, "hdl %s %s %s\n", bmx.HexS(prop), bmx.HexS(v), ok)
					}
				}
			}
		}
		// shorthand values with exactly n components, in sequence (state carried between calls)
		for _, prop := range []string{"margin", "border", "font", "transition", "background", "grid", "padding", "outline"} {
			h := css.GetDefaultHandler(prop)
			for _, n := range []int{1, 15, 16, 17, 18, 20, 22, 23, 31, 32, 33, 40, 41, 63, 64, 65} {
				for _, tok := range []string{"1px", "auto", "red"} {
					v := strings.TrimSpace(strings.Repeat(tok+" ", n))
					fmt.Fprintf(c.w, "hdl %s %s %s\n", bmx.HexS(prop), bmx.HexS(v), safeHandler(h, v))
				}
			}
		}
		// … and with a hostile component somewhere among exactly n components
		for _, prop := range []string{"margin", "border", "font", "transition", "background", "grid", "padding", "text-decoration"} {
			h := css.GetDefaultHandler(prop)
			for _, n := range []int{2, 16, 17, 32, 33, 63, 64, 65, 66} {
				for _, hf := range []string{"expression(alert(1))", "url(javascript:alert(1))", "<script>"} {
					for _, pos := range []int{n / 2, n - 1} {
						toks := make([]string, n)
						for i := range toks {
							toks[i] = "1px"
						}
						toks[pos] = hf
						v := strings.Join(toks, " ")
						fmt.Fprintf(c.w, "hdl %s %s %s\n", bmx.HexS(prop), bmx.HexS(v), safeHandler(h, v))
					}
				}
			}
		}
		for _, v := range all {
			fmt.Fprintf(c.w, "hdl %s %s %s\n", bmx.HexS("no-such-property"), bmx.HexS(v), b01(css.GetDefaultHandler("no-such-property")(v)))
		}
		c.stat("accepted", acceptedN)
		c.stat("properties", len(g.Props))
	}
}
