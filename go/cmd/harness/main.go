// Command harness runs the real bluemonday (built from /repo's working tree with
// -tags verif) on generated cases and writes one protocol line per case; the Lean
// driver replays the same lines on the model.
package main

import (
	"bufio"
	"flag"
	"fmt"
	"math/rand"
	"os"

	"verif/bmx"

	"github.com/microcosm-cc/bluemonday"
	"github.com/microcosm-cc/bluemonday/css"
)

// safeSanitize runs Sanitize and reports a panic as the literal PANIC.
func safeSanitize(p *bluemonday.Policy, in []byte) (res string) {
	defer func() {
		if e := recover(); e != nil {
			res = "PANIC"
		}
	}()
	return bmx.HexField([]byte(p.Sanitize(string(in))))
}

func b01(b bool) string {
	if b {
		return "1"
	}
	return "0"
}

func main() {
	family := flag.String("family", "tok", "case family")
	seed := flag.Int64("seed", 1, "PRNG seed")
	n := flag.Int("n", 1000, "number of cases")
	out := flag.String("out", "", "output file (default stdout)")
	work := flag.String("work", "/verif/work", "directory with extractor artefacts")
	flag.Parse()
	w := bufio.NewWriter(os.Stdout)
	if *out != "" {
		f, err := os.Create(*out)
		if err != nil {
			fmt.Fprintln(os.Stderr, err)
			os.Exit(2)
		}
		defer f.Close()
		w = bufio.NewWriter(f)
	}
	defer w.Flush()
	r := rand.New(rand.NewSource(*seed))
	switch *family {
	case "tok":
		for i := 0; i < *n; i++ {
			var in []byte
			switch i % 3 {
			case 0:
				in = bmx.RandMalformed(r, 1+r.Intn(12))
			case 1:
				in = bmx.RandBytes(r, 1+r.Intn(24))
			default:
				in = bmx.RandMalformed(r, 1+r.Intn(40))
			}
			fmt.Fprintf(w, "tok %s %s\n", bmx.HexField(in), bmx.EncTokens(bmx.Tokenize(in)))
		}
	case "san":
		pid := 0
		for i := 0; i < *n; {
			ops := bmx.RandPolicyOps(r)
			pid++
			pol := bmx.Build(ops)
			fmt.Fprintf(w, "policy %d %s %s\n", pid, bmx.EncodeOps(ops), bmx.HexS(pol.VerifDump(bmx.RegexNamer(ops))))
			g := bmx.NewDocGen(r, ops)
			for k := 0; k < 8 && i < *n; k++ {
				var in []byte
				if k == 7 {
					in = bmx.RandMalformed(r, 1+r.Intn(20))
				} else {
					in = g.Doc(1 + r.Intn(14))
				}
				out := safeSanitize(pol, in)
				fmt.Fprintf(w, "san %d %s %s\n", pid, bmx.HexField(in), out)
				i++
			}
		}
	case "hdl":
		g := bmx.NewCSSGen(r, *work)
		// per property: the single tokens its real handler accepts
		all := append(append([]string{}, bmx.CSSValuePool...), g.Vocab...)
		per := (*n + len(g.Props) - 1) / len(g.Props)
		for _, prop := range g.Props {
			h := css.GetDefaultHandler(prop)
			var accepted []string
			for _, t := range all {
				if h(t) {
					accepted = append(accepted, t)
				}
			}
			for k := 0; k < per; k++ {
				v := g.Value(accepted)
				fmt.Fprintf(w, "hdl %s %s %s\n", bmx.HexS(prop), bmx.HexS(v), b01(h(v)))
			}
		}
		for _, v := range all {
			fmt.Fprintf(w, "hdl %s %s %s\n", bmx.HexS("no-such-property"), bmx.HexS(v), b01(css.GetDefaultHandler("no-such-property")(v)))
		}
	default:
		fmt.Fprintln(os.Stderr, "unknown family")
		os.Exit(2)
	}
}
