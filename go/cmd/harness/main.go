// Command harness runs the real bluemonday (built from /repo's working tree with
// -tags verif) on generated cases and writes one protocol line per case; the Lean
// driver replays the same lines on the model.
package main

import (
	"bufio"
	"flag"
	"fmt"
	"math/rand"
	"os"

	"verif/bmx"
)

func main() {
	family := flag.String("family", "tok", "case family")
	seed := flag.Int64("seed", 1, "PRNG seed")
	n := flag.Int("n", 1000, "number of cases")
	out := flag.String("out", "", "output file (default stdout)")
	flag.Parse()
	w := bufio.NewWriter(os.Stdout)
	if *out != "" {
		f, err := os.Create(*out)
		if err != nil {
			fmt.Fprintln(os.Stderr, err)
			os.Exit(2)
		}
		defer f.Close()
		w = bufio.NewWriter(f)
	}
	defer w.Flush()
	r := rand.New(rand.NewSource(*seed))
	switch *family {
	case "tok":
		for i := 0; i < *n; i++ {
			var in []byte
			switch i % 3 {
			case 0:
				in = bmx.RandMalformed(r, 1+r.Intn(12))
			case 1:
				in = bmx.RandBytes(r, 1+r.Intn(24))
			default:
				in = bmx.RandMalformed(r, 1+r.Intn(40))
			}
			fmt.Fprintf(w, "tok %s %s\n", bmx.HexField(in), bmx.EncTokens(bmx.Tokenize(in)))
		}
	default:
		fmt.Fprintln(os.Stderr, "unknown family")
		os.Exit(2)
	}
}
