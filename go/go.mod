module verif

go 1.19

require (
	github.com/aymerick/douceur v0.2.0
	github.com/microcosm-cc/bluemonday v0.0.0
	golang.org/x/net v0.26.0
)

require github.com/gorilla/css v1.0.1 // indirect

replace github.com/microcosm-cc/bluemonday => /repo
