import BM.Basic
import BM.Regex
import BM.Html
