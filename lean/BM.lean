import BM.Basic
import BM.Regex
import BM.Html
import BM.Url
import BM.Css
import BM.Policy
import BM.Sanitize
