import BM.Driver.Main
def main : IO Unit := BM.Driver.main
