import BM.Gen.Shipped
import BM.Spec.More
import BM.Props.C01
import BM.Props.C04
import BM.Props.C02
import BM.Props.C03
import BM.Proofs.Keys
/-
  C04 (UGC half), at byte level, on the policy **regenerated from policies.go on every run**
  (`Gen.ugcPolicy` = the builder calls of `UGCPolicy()` applied to `NewPolicy()`):
  for every input, every token an HTML tokenizer reads from what UGCPolicy returns is a text or
  a tag of the documented UGC vocabulary (`Spec.ugcElements`), every attribute on it is in the
  documented attribute table for that element (`Spec.ugcAttrOk`) — no event handler, no style —
  and every href / cite / src is the printed form of a parsed URL whose scheme is http, https
  or mailto, or of a relative reference.  No comment, no doctype.
  What is not proved: the tree-builder (DOM) reading, and that a browser extracts the same scheme
  from the printed URL as net/url parsed (C03's open bridge; known finding `backslash-authority`
  concerns hosts, not schemes).
-/
namespace BM.Props
open BM BM.Html BM.Spec

set_option maxRecDepth 100000

theorem ugc_init : Gen.ugcPolicy.ensureInit = Gen.ugcPolicy := by
  have : Gen.ugcPolicy.initialized = true := by decide
  simp [Policy.ensureInit, this]

theorem map_contains_mem {ν : Type} : ∀ (m : Map Bytes ν) (k : Bytes), Map.contains m k = true → k ∈ m.map (·.1)
  | [], k, h => by simp [Map.contains, Map.get?] at h
  | (k', v) :: rest, k, h => by
    unfold Map.contains Map.get? at h
    by_cases hk : (k' == k) = true
    · simp only [beq_iff_eq] at hk; subst hk; simp
    · simp only [hk, Bool.false_eq_true, ↓reduceIte] at h
      have := map_contains_mem rest k h
      simp only [List.map_cons, List.mem_cons]
      exact .inr this

/-- the elements UGCPolicy allows are documented ones (no element patterns are registered) -/
theorem ugc_allows (n : Bytes) (h : allowsElement Gen.ugcPolicy n = true) : ugcElements.contains n = true := by
  have hnopat : Gen.ugcPolicy.elsMatchingAndAttrs = [] := by decide
  have hkeys : (Gen.ugcPolicy.elsAndAttrs.all fun e => ugcElements.contains e.1) = true := by decide
  unfold allowsElement at h
  rw [hnopat] at h
  simp only [List.any_nil, Bool.or_false] at h
  have hmem := map_contains_mem _ n h
  simp only [List.mem_map] at hmem
  obtain ⟨e, he, rfl⟩ := hmem
  exact List.all_eq_true.mp hkeys e he

theorem ugc_plain : Plain Gen.ugcPolicy.ensureInit := by
  rw [ugc_init]
  refine ⟨by decide, by decide, ?_⟩
  intro n hn
  cases h : allowsElement Gen.ugcPolicy n with
  | false => rfl
  | true =>
    exfalso
    have hv := ugc_allows n h
    simp only [isRawTagName, Bool.or_eq_true, beq_iff_eq] at hn
    rcases hn with ((((((((h' | h') | h') | h') | h') | h') | h') | h') | h') | h' <;> subst h' <;> revert hv <;> decide

/-- **C04-UGC, elements**: every token re-read from UGCPolicy's output is a text or a tag of a
    documented element; no comment, no doctype, no script/style/iframe/object/embed/form control/
    base/meta/link (none of them is in the documented vocabulary) -/
theorem C04_ugc_elements (input : Bytes) :
    ∀ k ∈ tokenize (Gen.ugcPolicy.sanitizeCore input),
      k.tt = .text ∨ (isTag k = true ∧ ugcElements.contains k.data = true) := by
  intro k hk
  rcases C01_bytes Gen.ugcPolicy ugc_plain input k hk with h | ⟨h1, h2⟩
  · exact .inl h
  · rw [ugc_init] at h2
    exact .inr ⟨h1, ugc_allows k.data h2⟩

theorem ugc_vocabulary_excludes :
    ∀ n ∈ [b!"script", b!"style", b!"iframe", b!"object", b!"embed", b!"form", b!"input", b!"button", b!"select",
           b!"textarea", b!"base", b!"meta", b!"link", b!"svg", b!"math", b!"frame", b!"frameset", b!"applet"],
      ugcElements.contains n = false := by decide

/-- the attribute rules UGCPolicy registered are documented ones -/
theorem ugc_rules_documented :
    (Gen.ugcPolicy.elsAndAttrs.all fun e => e.2.all fun r => ugcAttrOk e.1 r.1) = true ∧
    (Gen.ugcPolicy.globalAttrs.all fun r => ugcGlobalAttrs.contains r.1) = true := by decide

theorem map_get_mem {ν : Type} : ∀ (m : Map Bytes ν) (k : Bytes) (v : ν), Map.get? m k = some v → (k, v) ∈ m
  | [], k, v, h => by simp [Map.get?] at h
  | (k', v') :: rest, k, v, h => by
    unfold Map.get? at h
    by_cases hk : (k' == k) = true
    · simp only [hk, ↓reduceIte, Option.some.injEq] at h
      simp only [beq_iff_eq] at hk; subst hk; subst h; simp
    · simp only [hk, Bool.false_eq_true, ↓reduceIte] at h
      exact List.mem_cons_of_mem _ (map_get_mem rest k v h)

/-- **C04-UGC, attributes**: every attribute on every start / self-closing tag re-read from
    UGCPolicy's output is in the documented table for that element; in particular no `on…` event
    handler and no `style` (neither is in the table) -/
theorem C04_ugc_attrs (input : Bytes) :
    ∀ k ∈ tokenize (Gen.ugcPolicy.sanitizeCore input), (k.tt = .start ∨ k.tt = .selfClosing) →
      ∀ b ∈ k.attrs, ugcAttrOk k.data b.key = true := by
  intro k hk htt b hb
  have hne : k.attrs ≠ [] := by intro h; rw [h] at hb; simp at hb
  obtain ⟨t, _, aps, _, hr, hs⟩ := reread_open_tag Gen.ugcPolicy ugc_plain input k hk htt hne
  rw [ugc_init] at hr hs
  -- UGC has no element patterns: the rules are the element's own entry
  have haps : Gen.ugcPolicy.elsAndAttrs.get? k.data = some aps := by
    unfold Policy.attrRulesFor at hr
    cases hg : Gen.ugcPolicy.elsAndAttrs.get? k.data with
    | some a => rw [hg] at hr; simpa using hr
    | none =>
      rw [hg] at hr
      have hnopat : Gen.ugcPolicy.elsMatchingAndAttrs = [] := by decide
      simp [Policy.matchRegex, hnopat] at hr
  rcases sanitizeAttrs_keys Gen.ugcPolicy k.data t.attrs aps k.attrs hs b hb with ⟨b0, hb0, hkey⟩ | hadd
  · -- a first-pass survivor: justified by an element rule or a global rule
    obtain ⟨a, _, hj⟩ := firstPass_justified Gen.ugcPolicy k.data aps t.attrs b0 hb0
    rw [← hkey]
    cases hj with
    | data hd _ => exact absurd hd (by decide)
    | style v _ hsty _ _ =>
      exfalso
      have : Gen.ugcPolicy.hasStylePolicies k.data = false := by
        have h1 : Gen.ugcPolicy.globalStyles = [] := by decide
        have h2 : Gen.ugcPolicy.elsAndStyles = [] := by decide
        have h3 : Gen.ugcPolicy.elsMatchingAndStyles = [] := by decide
        simp [Policy.hasStylePolicies, h1, h2, h3, Map.get?]
      rw [this] at hsty; cases hsty
    | elementRule apl hget _ =>
      have hmem := map_get_mem _ _ _ haps
      have hrule := map_get_mem _ _ _ hget
      have := List.all_eq_true.mp ugc_rules_documented.1 _ hmem
      exact List.all_eq_true.mp this _ hrule
    | globalRule apl hget _ =>
      have hrule := map_get_mem _ _ _ hget
      have := List.all_eq_true.mp ugc_rules_documented.2 _ hrule
      simp only [ugcAttrOk, Bool.or_eq_true]
      exact .inl this
  · -- added by the sanitiser: only rel on a / area (RequireNoFollowOnLinks), the other options are off
    have helem := ugc_allows k.data (attrRulesFor_allows' hr)
    rcases hadd with ⟨hk', _, hel⟩ | ⟨_, htb, _⟩ | ⟨_, hco, _⟩ | ⟨_, hsb, _⟩
    · rw [hk']
      simp only [isHrefElement, Bool.or_eq_true, beq_iff_eq] at hel
      rcases hel with ((h | h) | h) | h <;> rw [h] at helem ⊢ <;> first | decide | (exact absurd helem (by decide))
    · exact absurd htb (by decide)
    · exact absurd hco (by decide)
    · exact absurd hsb (by decide)

/-- **C04-UGC, URLs**: every href / cite / src at a checked position is the printed form of a URL
    net/url parsed whose scheme is mailto, http or https, or of a relative reference -/
theorem C04_ugc_urls (input : Bytes) :
    ∀ k ∈ tokenize (Gen.ugcPolicy.sanitizeCore input), (k.tt = .start ∨ k.tt = .selfClosing) →
      ∀ b ∈ k.attrs, isUrlPosition k.data b.key = true →
        ∃ u : Url.URL, b.val = Url.print u ∧
          (u.scheme = b!"mailto" ∨ u.scheme = b!"http" ∨ u.scheme = b!"https" ∨ u.scheme = []) := by
  intro k hk htt b hb hpos
  have hreq : Gen.ugcPolicy.ensureInit.requireParseableURLs = true := by rw [ugc_init]; decide
  have hnr : Gen.ugcPolicy.ensureInit.srcRewriter = none := by rw [ugc_init]; rfl
  obtain ⟨raw, hv⟩ := C03_bytes Gen.ugcPolicy ugc_plain.toC hreq input k hk htt b hb hpos (fun _ => hnr)
  obtain ⟨_, u, _, hprint, hacc⟩ := validURL_sound _ raw b.val hreq hv
  refine ⟨u, hprint, ?_⟩
  rw [ugc_init] at hacc
  rcases hacc with ⟨_, hs⟩ | ⟨hs, _⟩
  · rcases hs with ⟨checks, hget, _⟩ | ⟨_, hre⟩
    · have hmem := map_get_mem _ _ _ hget
      have hschemes : (Gen.ugcPolicy.allowURLSchemes.all fun r =>
          [b!"mailto", b!"http", b!"https"].contains r.1) = true := by decide
      have := List.all_eq_true.mp hschemes _ hmem
      simp only [List.contains_cons, List.contains_nil, Bool.or_false, Bool.or_eq_true, beq_iff_eq] at this
      rcases this with h | h | h
      · exact .inl h
      · exact .inr (.inl h)
      · exact .inr (.inr (.inl h))
    · have : Gen.ugcPolicy.allowURLSchemeRegexps = [] := by decide
      rw [this] at hre; simp at hre
  · exact .inr (.inr (.inr hs))

/-- **C04-UGC, URLs as a browser reads them**: every href / cite / src at a checked position is,
    by the WHATWG scheme-state rules, a URL with scheme mailto, http or https — never javascript:,
    data:, vbscript: or any other — or a relative reference -/
theorem C04_ugc_urls_browser (input : Bytes) :
    ∀ k ∈ tokenize (Gen.ugcPolicy.sanitizeCore input), (k.tt = .start ∨ k.tt = .selfClosing) →
      ∀ b ∈ k.attrs, isUrlPosition k.data b.key = true →
        (∃ s, classifyUrl b.val = .scheme s ∧ [b!"mailto", b!"http", b!"https"].contains s = true) ∨
        classifyUrl b.val = .relative := by
  intro k hk htt b hb hpos
  have hreq : Gen.ugcPolicy.ensureInit.requireParseableURLs = true := by rw [ugc_init]; decide
  have hnr : Gen.ugcPolicy.ensureInit.srcRewriter = none := by rw [ugc_init]; rfl
  obtain ⟨raw, hv⟩ := C03_bytes Gen.ugcPolicy ugc_plain.toC hreq input k hk htt b hb hpos (fun _ => hnr)
  rcases C03_browser _ hreq raw b.val hv with ⟨s, hcl, _, hs⟩ | ⟨hrel, _, _⟩
  · left
    refine ⟨s, hcl, ?_⟩
    rw [ugc_init] at hs
    rcases hs with ⟨checks, hget⟩ | hre
    · have hmem := map_get_mem _ _ _ hget
      have hschemes : (Gen.ugcPolicy.allowURLSchemes.all fun r =>
          [b!"mailto", b!"http", b!"https"].contains r.1) = true := by decide
      exact List.all_eq_true.mp hschemes _ hmem
    · have : Gen.ugcPolicy.allowURLSchemeRegexps = [] := by decide
      rw [this] at hre; simp at hre
  · exact .inr hrel

/-- non-vacuity: the regenerated policy keeps documented markup and removes the rest -/
example : Gen.ugcPolicy.sanitizeCore b!"<a href=\"http://x/\" onclick=\"y\">t</a><script>1</script><p style=\"x\">p</p>" =
    b!"<a href=\"http://x/\" rel=\"nofollow\">t</a><p>p</p>" := by decide

end BM.Props
