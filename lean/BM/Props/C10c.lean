import BM.Props.C10
import BM.Proofs.ViewTables
import BM.Proofs.WFBuild
import BM.Proofs.Tables2
/-
  C10 for whole policies, by induction over builder histories: on any element, a declaration `sanitizeStyles`
  keeps has a property that some `AllowStyles(…)` call of the history names — for that element, through an element
  pattern that matches it (only when the element has no style rules of its own), or globally — and the matcher that
  call installed accepts the lower-cased, escape-decoded value.  (`T` is the behaviour of the compiled element
  patterns, by identity.)
-/
namespace BM.Props
open BM BM.Html

/-- a style rule for `prop` installed by a call of the history that applies to element `el` -/
def StyleRuleByCall (T : Nat → Bytes → Bool) (d : Bytes → Bytes → Bool) (ops : List BuilderOp) (el prop : Bytes)
    (sp : StylePolicy) : Prop :=
  ∃ op ∈ ops, op.addsElemStyle d el prop sp ∨ op.addsGlobalStyle d prop sp ∨
    ∃ r : Pat, T r.id el = true ∧ op.addsMatchStyle d r prop sp

/-- **C10 traced back to the builder history** -/
theorem C10_built_policy (T : Nat → Bytes → Bool) (d : Bytes → Bytes → Bool) (ops : List BuilderOp)
    (hpat : ∀ op ∈ ops, op.patsOK T) (el : Bytes) (dec : Css.Decl)
    (h : (applyOps d { initialized := true } ops).declAccepted
          ((applyOps d { initialized := true } ops).styleRulesFor el) dec = true) :
    ∃ tv, removeUnicode (toLowerGo dec.value) = some tv ∧
      ∃ sp, StyleRuleByCall T d ops el (trimPrefixes (toLowerGo dec.property) vendorPrefixes) sp ∧ okS sp tv = true := by
  have hw := wf_applyOps T d { initialized := true } rfl (wf_new T) ops hpat
  obtain ⟨_, _, _, hES, hGS⟩ := rules_applyOps d { initialized := true } rfl ops
  obtain ⟨_, _, hMS, _, _, _⟩ := rules2_applyOps d { initialized := true } rfl ops
  obtain ⟨tv, htv, hacc⟩ := (declAccepted_iff _ _ dec).mp h
  refine ⟨tv, htv, ?_⟩
  rcases hacc with ⟨sp, hsp, hok⟩ | ⟨sp, hsp, hok⟩
  · rcases (styleRulesFor_mem T _ hw el _ sp).mp hsp with ⟨_, hin⟩ | ⟨_, r, hr, hin⟩
    · rcases (hES el _ sp).mp hin with h0 | ⟨op, hop, ha⟩
      · simp [Policy.elemStyleRules, rulesOf, Map.get?] at h0
      · exact ⟨sp, ⟨op, hop, .inl ha⟩, hok⟩
    · rcases (hMS r _ sp).mp hin with h0 | ⟨op, hop, ha⟩
      · simp [Policy.matchStyleRules, rulesOf, Map.get?, patGet?] at h0
      · exact ⟨sp, ⟨op, hop, .inr (.inr ⟨r, hr, ha⟩)⟩, hok⟩
  · rcases (hGS _ sp).mp hsp with h0 | ⟨op, hop, ha⟩
    · simp [Policy.globalStyleRules, rulesOf, Map.get?] at h0
    · exact ⟨sp, ⟨op, hop, .inr (.inl ha)⟩, hok⟩

end BM.Props
