import BM.Proofs.Step
/-
  C02: only allowlisted attributes with accepted values.

  Proved (event level, every policy, element, attribute list): an attribute survives the
  first pass of `sanitizeAttrs` only if it is a data attribute (data attributes enabled and
  the name passes `isDataAttribute`), or a style attribute governed by style rules, or a
  rule registered for the element (explicit rules, or the merged rules of every matching
  pattern) or a global rule accepts its **original decoded value**; rules are additive (a
  value accepted by any one rule is kept); and a tag is written only with a non-empty
  attribute list or for an element allowed without attributes.
  Later passes only drop attributes, rewrite URL attributes, or add/force rel, target,
  crossorigin, sandbox (C03, C11, C12).
-/
namespace BM.Props
open BM BM.Html

/-- why an attribute may survive the first pass -/
inductive Justified (p : Policy) (el : Bytes) (aps : AttrRules) (a : Attr) : Attr → Prop where
  | data : p.allowDataAttributes = true → isDataAttribute a.key = true → Justified p el aps a a
  | style (v : Bytes) : a.key = b!"style" → p.hasStylePolicies el = true → v ≠ [] →
      v = p.sanitizeStyles a.val el → Justified p el aps a ⟨a.key, v⟩
  | elementRule (apl : List AttrPolicy) : aps.get? a.key = some apl →
      attrPoliciesAccept apl a.val = true → Justified p el aps a a
  | globalRule (apl : List AttrPolicy) : p.globalAttrs.get? a.key = some apl →
      attrPoliciesAccept apl a.val = true → Justified p el aps a a

theorem filterAttr_justified (p : Policy) (el : Bytes) (aps : AttrRules) (a b : Attr)
    (h : p.filterAttr el aps (p.hasStylePolicies el) a = some b) : Justified p el aps a b := by
  unfold Policy.filterAttr at h
  by_cases hd : (p.allowDataAttributes && isDataAttribute a.key) = true
  · simp only [hd, ↓reduceIte, Option.some.injEq] at h
    subst h
    simp only [Bool.and_eq_true] at hd
    exact .data hd.1 hd.2
  · simp only [hd, Bool.false_eq_true, ↓reduceIte] at h
    by_cases hs : (a.key == b!"style" && p.hasStylePolicies el) = true
    · simp only [hs, ↓reduceIte] at h
      simp only [Bool.and_eq_true, beq_iff_eq] at hs
      by_cases hv : (p.sanitizeStyles a.val el).isEmpty = true
      · simp [hv] at h
      · simp only [hv, Bool.false_eq_true, ↓reduceIte, Option.some.injEq] at h
        subst h
        exact .style _ hs.1 hs.2 (by simpa using hv) rfl
    · simp only [hs, Bool.false_eq_true, ↓reduceIte] at h
      cases hget : aps.get? a.key with
      | some apl =>
        by_cases hacc : attrPoliciesAccept apl a.val = true
        · simp only [hget, hacc, ↓reduceIte, Option.some.injEq] at h
          subst h; exact .elementRule apl hget hacc
        · simp only [hget, hacc, Bool.false_eq_true, ↓reduceIte] at h
          cases hg : p.globalAttrs.get? a.key with
          | some gpl =>
            by_cases hga : attrPoliciesAccept gpl a.val = true
            · simp only [hg, hga, ↓reduceIte, Option.some.injEq] at h
              subst h; exact .globalRule gpl hg hga
            · simp [hg, hga] at h
          | none => simp [hg] at h
      | none =>
        simp only [hget, Bool.false_eq_true, ↓reduceIte] at h
        cases hg : p.globalAttrs.get? a.key with
        | some gpl =>
          by_cases hga : attrPoliciesAccept gpl a.val = true
          · simp only [hg, hga, ↓reduceIte, Option.some.injEq] at h
            subst h; exact .globalRule gpl hg hga
          · simp [hg, hga] at h
        | none => simp [hg] at h

/-- rules are additive: a value accepted by one of several rules is accepted -/
theorem accept_append (l1 l2 : List AttrPolicy) (v : Bytes) :
    attrPoliciesAccept (l1 ++ l2) v = (attrPoliciesAccept l1 v || attrPoliciesAccept l2 v) := by
  simp [attrPoliciesAccept, List.any_append]

/-- every attribute that survives the first pass is justified by the policy -/
theorem firstPass_justified (p : Policy) (el : Bytes) (aps : AttrRules) (attrs : List Attr) :
    ∀ b ∈ attrs.filterMap (p.filterAttr el aps (p.hasStylePolicies el)),
      ∃ a ∈ attrs, Justified p el aps a b := by
  intro b hb
  obtain ⟨a, ha, hab⟩ := List.mem_filterMap.mp hb
  exact ⟨a, ha, filterAttr_justified p el aps a b hab⟩

/-- an element the policy permits only with attributes is never written bare -/
theorem C02_never_bare (p : Policy) (st : LoopState) (t : Token) (ws : List Write) (he : Emit p st t ws)
    (htt : t.tt = .start ∨ t.tt = .selfClosing) :
    ∀ w ∈ ws, w.data = [32] ∨ ∃ attrs : List Attr,
      w.data = ({ t with attrs := attrs } : Token).render ∧ (attrs ≠ [] ∨ p.allowNoAttrs t.data = true) := by
  cases he with
  | nothing => simp
  | space _ => intro w hw; simp at hw; subst hw; exact .inl rfl
  | comment h _ => rcases htt with h' | h' <;> simp [h'] at h
  | openTag aps attrs _ _ _ _ hbare _ =>
    intro w hw; simp at hw; subst hw
    refine .inr ⟨attrs, rfl, ?_⟩
    by_cases hne : attrs = []
    · right; subst hne; simpa using hbare
    · exact .inl hne
  | closeTag h _ _ => rcases htt with h' | h' <;> simp [h'] at h
  | text h _ _ => rcases htt with h' | h' <;> simp [h'] at h
  | rawText h _ _ => rcases htt with h' | h' <;> simp [h'] at h

/-- non-vacuity: two overlapping rules, the value matches only the second -/
example :
    let digits : Pat := ⟨1, fun v => v.all isDigit && !v.isEmpty⟩
    let lower : Pat := ⟨2, fun v => v.all isLowerA && !v.isEmpty⟩
    let p : Policy := { initialized := true, elsAndAttrs := [(b!"b", [(b!"id", [some digits, some lower])])] }
    p.sanitizeCore b!"<b id=abc>x</b><b id=A1>y</b><b>z</b>" = b!"<b id=\"abc\">x</b>yz" := by decide

end BM.Props
