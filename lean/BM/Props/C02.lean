import BM.Proofs.Step
import BM.Proofs.AttrsOK
import BM.Proofs.Prov
import BM.Proofs.ProvC
/-
  C02: only allowlisted attributes with accepted values.

  Proved (event level, every policy, element, attribute list): an attribute survives the
  first pass of `sanitizeAttrs` only if it is a data attribute (data attributes enabled and
  the name passes `isDataAttribute`), or a style attribute governed by style rules, or a
  rule registered for the element (explicit rules, or the merged rules of every matching
  pattern) or a global rule accepts its **original decoded value**; rules are additive (a
  value accepted by any one rule is kept); and a tag is written only with a non-empty
  attribute list or for an element allowed without attributes.
  Later passes only drop attributes, rewrite URL attributes, or add/force rel, target,
  crossorigin, sandbox (C03, C11, C12).
-/
namespace BM.Props
open BM BM.Html

/-- why an attribute may survive the first pass -/
inductive Justified (p : Policy) (el : Bytes) (aps : AttrRules) (a : Attr) : Attr → Prop where
  | data : p.allowDataAttributes = true → isDataAttribute a.key = true → Justified p el aps a a
  | style (v : Bytes) : a.key = b!"style" → p.hasStylePolicies el = true → v ≠ [] →
      v = p.sanitizeStyles a.val el → Justified p el aps a ⟨a.key, v⟩
  | elementRule (apl : List AttrPolicy) : aps.get? a.key = some apl →
      attrPoliciesAccept apl a.val = true → Justified p el aps a a
  | globalRule (apl : List AttrPolicy) : p.globalAttrs.get? a.key = some apl →
      attrPoliciesAccept apl a.val = true → Justified p el aps a a

theorem filterAttr_justified (p : Policy) (el : Bytes) (aps : AttrRules) (a b : Attr)
    (h : p.filterAttr el aps (p.hasStylePolicies el) a = some b) : Justified p el aps a b := by
  unfold Policy.filterAttr at h
  by_cases hd : (p.allowDataAttributes && isDataAttribute a.key) = true
  · simp only [hd, ↓reduceIte, Option.some.injEq] at h
    subst h
    simp only [Bool.and_eq_true] at hd
    exact .data hd.1 hd.2
  · simp only [hd, Bool.false_eq_true, ↓reduceIte] at h
    by_cases hs : (a.key == b!"style" && p.hasStylePolicies el) = true
    · simp only [hs, ↓reduceIte] at h
      simp only [Bool.and_eq_true, beq_iff_eq] at hs
      by_cases hv : (p.sanitizeStyles a.val el).isEmpty = true
      · simp [hv] at h
      · simp only [hv, Bool.false_eq_true, ↓reduceIte, Option.some.injEq] at h
        subst h
        exact .style _ hs.1 hs.2 (by simpa using hv) rfl
    · simp only [hs, Bool.false_eq_true, ↓reduceIte] at h
      cases hget : aps.get? a.key with
      | some apl =>
        by_cases hacc : attrPoliciesAccept apl a.val = true
        · simp only [hget, hacc, ↓reduceIte, Option.some.injEq] at h
          subst h; exact .elementRule apl hget hacc
        · simp only [hget, hacc, Bool.false_eq_true, ↓reduceIte] at h
          cases hg : p.globalAttrs.get? a.key with
          | some gpl =>
            by_cases hga : attrPoliciesAccept gpl a.val = true
            · simp only [hg, hga, ↓reduceIte, Option.some.injEq] at h
              subst h; exact .globalRule gpl hg hga
            · simp [hg, hga] at h
          | none => simp [hg] at h
      | none =>
        simp only [hget, Bool.false_eq_true, ↓reduceIte] at h
        cases hg : p.globalAttrs.get? a.key with
        | some gpl =>
          by_cases hga : attrPoliciesAccept gpl a.val = true
          · simp only [hg, hga, ↓reduceIte, Option.some.injEq] at h
            subst h; exact .globalRule gpl hg hga
          · simp [hg, hga] at h
        | none => simp [hg] at h

/-- rules are additive: a value accepted by one of several rules is accepted -/
theorem accept_append (l1 l2 : List AttrPolicy) (v : Bytes) :
    attrPoliciesAccept (l1 ++ l2) v = (attrPoliciesAccept l1 v || attrPoliciesAccept l2 v) := by
  simp [attrPoliciesAccept, List.any_append]

/-- every attribute that survives the first pass is justified by the policy -/
theorem firstPass_justified (p : Policy) (el : Bytes) (aps : AttrRules) (attrs : List Attr) :
    ∀ b ∈ attrs.filterMap (p.filterAttr el aps (p.hasStylePolicies el)),
      ∃ a ∈ attrs, Justified p el aps a b := by
  intro b hb
  obtain ⟨a, ha, hab⟩ := List.mem_filterMap.mp hb
  exact ⟨a, ha, filterAttr_justified p el aps a b hab⟩

/-- an element the policy permits only with attributes is never written bare -/
theorem C02_never_bare (p : Policy) (st : LoopState) (t : Token) (ws : List Write) (he : Emit p st t ws)
    (htt : t.tt = .start ∨ t.tt = .selfClosing) :
    ∀ w ∈ ws, w.data = [32] ∨ ∃ attrs : List Attr,
      w.data = ({ t with attrs := attrs } : Token).render ∧ (attrs ≠ [] ∨ p.allowNoAttrs t.data = true) := by
  cases he with
  | nothing => simp
  | space _ => intro w hw; simp at hw; subst hw; exact .inl rfl
  | comment h _ => rcases htt with h' | h' <;> simp [h'] at h
  | openTag aps attrs _ _ _ _ hbare _ =>
    intro w hw; simp at hw; subst hw
    refine .inr ⟨attrs, rfl, ?_⟩
    by_cases hne : attrs = []
    · right; subst hne; simpa using hbare
    · exact .inl hne
  | closeTag h _ _ => rcases htt with h' | h' <;> simp [h'] at h
  | text h _ _ => rcases htt with h' | h' <;> simp [h'] at h
  | rawText h _ _ => rcases htt with h' | h' <;> simp [h'] at h

/-! ### the whole of `sanitizeAttrs` -/

/-- attributes the sanitiser itself adds or forces -/
def forcedKey (k : Bytes) : Prop := k = b!"rel" ∨ k = b!"target" ∨ k = b!"crossorigin" ∨ k = b!"sandbox"
/-- attributes whose value the URL pass may replace by its normalised form -/
def urlKey (k : Bytes) : Prop := k = b!"href" ∨ k = b!"cite" ∨ k = b!"src"

/-- why an attribute may be in the result of `sanitizeAttrs`: it is one the sanitiser adds or
    forces, or it survived the first pass (so it is justified by the policy, on its original
    decoded value) and carries that value — or, for href/cite/src, what the URL pass made of it -/
def Kept (p : Policy) (el : Bytes) (aps : AttrRules) (attrs : List Attr) (b : Attr) : Prop :=
  forcedKey b.key ∨ ∃ a ∈ attrs, ∃ b0, Justified p el aps a b0 ∧ b0.key = b.key ∧ (b.val = b0.val ∨ urlKey b.key)

/-- a pass that keeps keys and changes values only of forced or URL attributes preserves `Kept` -/
theorem kept_map {p : Policy} {el : Bytes} {aps : AttrRules} {attrs : List Attr} {l : List Attr} (f : Attr → Attr)
    (hf : ∀ a, (f a).key = a.key ∧ ((f a).val = a.val ∨ forcedKey a.key ∨ urlKey a.key))
    (h : ∀ b ∈ l, Kept p el aps attrs b) : ∀ b ∈ l.map f, Kept p el aps attrs b := by
  intro b hb
  simp only [List.mem_map] at hb
  obtain ⟨a, ha, rfl⟩ := hb
  obtain ⟨hk, hv⟩ := hf a
  rcases h a ha with hforced | ⟨a0, ha0, b0, hj, hkey, hval⟩
  · exact .inl (by rw [hk]; exact hforced)
  · rcases hv with hv | hv | hv
    · exact .inr ⟨a0, ha0, b0, hj, by rw [hk]; exact hkey, by
        rcases hval with h' | h'
        · exact .inl (by rw [hv]; exact h')
        · exact .inr (by rw [hk]; exact h')⟩
    · exact .inl (by rw [hk]; exact hv)
    · exact .inr ⟨a0, ha0, b0, hj, by rw [hk]; exact hkey, .inr (by rw [hk]; exact hv)⟩

theorem kept_append {p : Policy} {el : Bytes} {aps : AttrRules} {attrs : List Attr} {l : List Attr} (x : Attr)
    (hx : forcedKey x.key) (h : ∀ b ∈ l, Kept p el aps attrs b) : ∀ b ∈ l ++ [x], Kept p el aps attrs b := by
  intro b hb
  simp only [List.mem_append, List.mem_singleton] at hb
  rcases hb with hb | rfl
  · exact h b hb
  · exact .inl hx

theorem kept_fixFirstTarget {p : Policy} {el : Bytes} {aps : AttrRules} {attrs : List Attr} :
    ∀ {l : List Attr}, (∀ b ∈ l, Kept p el aps attrs b) → ∀ b ∈ fixFirstTarget l, Kept p el aps attrs b
  | [], _ => by intro b hb; simp [fixFirstTarget] at hb
  | a :: as, h => by
    intro b hb
    unfold fixFirstTarget at hb
    split at hb
    · rename_i hk
      simp only [List.mem_cons] at hb
      rcases hb with rfl | hb
      · split
        · exact h a (by simp)
        · exact .inl (.inr (.inl (by simpa using hk)))
      · exact h b (by simp [hb])
    · simp only [List.mem_cons] at hb
      rcases hb with rfl | hb
      · exact h _ (by simp)
      · exact kept_fixFirstTarget (fun x hx => h x (by simp [hx])) b hb

theorem kept_urlPass {p : Policy} {el : Bytes} {aps : AttrRules} {attrs : List Attr} {l out : List Attr}
    (h : ∀ b ∈ l, Kept p el aps attrs b) (hm : mapMOpt (p.urlPassAttr el) l = some out) :
    ∀ b ∈ out, Kept p el aps attrs b := by
  intro b hb
  obtain ⟨a, ha, hab⟩ := mapMOpt_mem _ l out hm b hb
  have hk := urlPassAttr_key p el a b hab
  -- the value changes only when the key is href / cite / src
  have hv : b.val = a.val ∨ urlKey a.key := by
    by_cases h1 : a.key = b!"href"
    · exact .inr (.inl h1)
    · by_cases h2 : a.key = b!"cite"
      · exact .inr (.inr (.inl h2))
      · by_cases h3 : a.key = b!"src"
        · exact .inr (.inr (.inr h3))
        · have e1 : (a.key == b!"href") = false := by simpa using h1
          have e2 : (a.key == b!"cite") = false := by simpa using h2
          have e3 : (a.key == b!"src") = false := by simpa using h3
          unfold Policy.urlPassAttr at hab
          simp only [e1, e2, e3, Bool.false_eq_true, ↓reduceIte] at hab
          repeat' split at hab
          all_goals (simp at hab; subst hab; exact .inl rfl)
  rcases h a ha with hforced | ⟨a0, ha0, b0, hj, hkey, hval⟩
  · exact .inl (by rw [hk]; exact hforced)
  · refine .inr ⟨a0, ha0, b0, hj, by rw [hk]; exact hkey, ?_⟩
    rcases hv with hv | hv
    · rcases hval with h' | h'
      · exact .inl (by rw [hv]; exact h')
      · exact .inr (by rw [hk]; exact h')
    · exact .inr (by rw [hk]; exact hv)

theorem kept_addNoOpener {p : Policy} {el : Bytes} {aps : AttrRules} {attrs : List Attr} {l : List Attr}
    (h : ∀ b ∈ l, Kept p el aps attrs b) : ∀ b ∈ addNoOpener l, Kept p el aps attrs b := by
  unfold addNoOpener
  split
  · refine kept_map _ ?_ h
    intro a
    split
    · rename_i hk; exact ⟨rfl, .inr (.inl (.inl (by simpa using hk)))⟩
    · exact ⟨rfl, .inl rfl⟩
  · exact kept_append _ (.inl rfl) h

theorem kept_relFix {p : Policy} {el : Bytes} {aps : AttrRules} {attrs : List Attr} {l : List Attr} (nf nr : Bool)
    (h : ∀ b ∈ l, Kept p el aps attrs b) : ∀ b ∈ l.map (relFix nf nr), Kept p el aps attrs b := by
  refine kept_map _ ?_ h
  intro a
  unfold relFix
  split
  · rename_i hk
    simp only [Bool.and_eq_true, beq_iff_eq] at hk
    exact ⟨rfl, .inr (.inl (.inl hk.1))⟩
  · exact ⟨rfl, .inl rfl⟩

theorem kept_hardenLinks {p : Policy} {el : Bytes} {aps : AttrRules} {attrs : List Attr} {l : List Attr}
    (h : ∀ b ∈ l, Kept p el aps attrs b) : ∀ b ∈ p.hardenLinks el l, Kept p el aps attrs b := by
  unfold Policy.hardenLinks
  simp only
  split
  · exact h
  · repeat' (first
      | exact kept_relFix _ _ h
      | apply kept_addNoOpener
      | apply kept_fixFirstTarget
      | apply kept_append _ (.inl rfl)
      | apply kept_append _ (.inr (.inl rfl))
      | split)

theorem kept_forceCrossOrigin {p : Policy} {el : Bytes} {aps : AttrRules} {attrs : List Attr} {l : List Attr}
    (h : ∀ b ∈ l, Kept p el aps attrs b) : ∀ b ∈ p.forceCrossOrigin el l, Kept p el aps attrs b := by
  unfold Policy.forceCrossOrigin
  split
  · split
    · refine kept_map _ ?_ h
      intro a; unfold setVal; split
      · rename_i hk; exact ⟨rfl, .inr (.inl (.inr (.inr (.inl (by simpa using hk)))))⟩
      · exact ⟨rfl, .inl rfl⟩
    · exact kept_append _ (.inr (.inr (.inl rfl))) h
  · exact h

theorem kept_forceSandbox {p : Policy} {el : Bytes} {aps : AttrRules} {attrs : List Attr} {l : List Attr}
    (h : ∀ b ∈ l, Kept p el aps attrs b) : ∀ b ∈ p.forceSandbox el l, Kept p el aps attrs b := by
  unfold Policy.forceSandbox
  split
  · split
    · split
      · refine kept_map _ ?_ h
        intro a; unfold setVal; split
        · rename_i hk; exact ⟨rfl, .inr (.inl (.inr (.inr (.inr (by simpa using hk)))))⟩
        · exact ⟨rfl, .inl rfl⟩
      · exact kept_append _ (.inr (.inr (.inr rfl))) h
    · exact h
  · exact h

/-- **C02 for the whole of `sanitizeAttrs`** (every policy, element, attribute list): every
    attribute it returns is one the sanitiser adds or forces (rel, target, crossorigin, sandbox),
    or survived the first pass — hence is a well-formed data attribute with data attributes
    enabled, the filtered style attribute, or accepted on its original decoded value by a rule
    registered for the element (merged rules of every matching pattern) or globally — and still
    carries that value, except that href/cite/src may carry the URL pass's normalisation of it. -/
theorem C02_sanitizeAttrs (p : Policy) (el : Bytes) (attrs : List Attr) (aps : AttrRules) (out : List Attr)
    (h : p.sanitizeAttrs el attrs aps = some out) : ∀ b ∈ out, Kept p el aps attrs b := by
  unfold Policy.sanitizeAttrs at h
  split at h
  · rename_i he; simp at h; subst h; intro b hb; rw [List.isEmpty_iff.mp he] at hb; simp at hb
  · simp only at h
    have h1 : ∀ b ∈ attrs.filterMap (p.filterAttr el aps (p.hasStylePolicies el)), Kept p el aps attrs b := by
      intro b hb
      obtain ⟨a, ha, hj⟩ := firstPass_justified p el aps attrs b hb
      exact .inr ⟨a, ha, b, hj, rfl, .inl rfl⟩
    split at h
    · simp at h; subst h; exact h1
    · simp only [Option.map_eq_some_iff] at h
      obtain ⟨mid, hmid, rfl⟩ := h
      apply kept_forceSandbox
      apply kept_forceCrossOrigin
      unfold Policy.linkPasses at hmid
      split at hmid
      · simp only [Option.map_eq_some_iff] at hmid
        obtain ⟨m2, hm2, rfl⟩ := hmid
        have h2 : ∀ b ∈ m2, Kept p el aps attrs b := by
          split at hm2
          · exact kept_urlPass h1 hm2
          · simp at hm2; subst hm2; exact h1
        split
        · exact kept_hardenLinks h2
        · exact h2
      · simp at hmid; subst hmid; exact h1

/-- **C02 (byte level, plain policies)**: every attribute on every start or self-closing tag an
    HTML tokenizer reads from the returned bytes is `Kept` for an input tag of that element. -/
theorem C02_bytes (p : Policy) (hp : PlainC p.ensureInit) (input : Bytes) :
    ∀ k ∈ tokenize (p.sanitizeCore input), (k.tt = .start ∨ k.tt = .selfClosing) →
      ∀ b ∈ k.attrs, ∃ t ∈ tokenize input, ∃ aps, t.data = k.data ∧
        p.ensureInit.attrRulesFor k.data = some aps ∧ Kept p.ensureInit k.data aps t.attrs b := by
  intro k hk htt b hb
  have hne : k.attrs ≠ [] := by intro h; rw [h] at hb; simp at hb
  obtain ⟨t, ht, aps, hd, hr, hs⟩ := reread_open_tagC p hp input k hk htt hne
  exact ⟨t, ht, aps, hd, hr, C02_sanitizeAttrs p.ensureInit k.data t.attrs aps k.attrs hs b hb⟩

/-- (per-input form)  **C02 (byte level, plain policies)**: every attribute on every start or self-closing tag an
    HTML tokenizer reads from the returned bytes is `Kept` for an input tag of that element. -/
theorem C02_bytes_on (p : Policy) (input : Bytes) (hp : PlainOn p.ensureInit (tokenize input)) :
    ∀ k ∈ tokenize (p.sanitizeCore input), (k.tt = .start ∨ k.tt = .selfClosing) →
      ∀ b ∈ k.attrs, ∃ t ∈ tokenize input, ∃ aps, t.data = k.data ∧
        p.ensureInit.attrRulesFor k.data = some aps ∧ Kept p.ensureInit k.data aps t.attrs b := by
  intro k hk htt b hb
  have hne : k.attrs ≠ [] := by intro h; rw [h] at hb; simp at hb
  obtain ⟨t, ht, aps, hd, hr, hs⟩ := reread_open_tagOn p input hp k hk htt hne
  exact ⟨t, ht, aps, hd, hr, C02_sanitizeAttrs p.ensureInit k.data t.attrs aps k.attrs hs b hb⟩

/-- non-vacuity: two overlapping rules, the value matches only the second -/
example :
    let digits : Pat := ⟨1, fun v => v.all isDigit && !v.isEmpty⟩
    let lower : Pat := ⟨2, fun v => v.all isLowerA && !v.isEmpty⟩
    let p : Policy := { initialized := true, elsAndAttrs := [(b!"b", [(b!"id", [some digits, some lower])])] }
    p.sanitizeCore b!"<b id=abc>x</b><b id=A1>y</b><b>z</b>" = b!"<b id=\"abc\">x</b>yz" := by decide

end BM.Props
