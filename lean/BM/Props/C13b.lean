import BM.Props.C13
import BM.Props.C17b
/-
  C13, "results do not depend on map iteration order", for whole outputs.  Props/C13 shows that
  each place that ranges over a Go map is invariant under permutation of the entries; here the
  statement is about the bytes returned: `sanitize` reads the maps of a policy only through
  lookups by key and through "some entry matches / some rule accepts" (`Policy.view`,
  `sanitize_congr`), so two representations of the same tables — entries of every map and rules
  of every slice in any order — return the same bytes and panic on the same inputs.
-/
namespace BM.Props
open BM

/-- **no dependence on the order of entries in the policy's maps and slices** -/
theorem C13_map_order_output (T : Nat → Bytes → Bool) (p q : Policy) (hip : p.initialized = true)
    (hiq : q.initialized = true) (hp : p.WF T) (hq : q.WF T)
    (hsw : p.switches = q.switches) (h1 : SameTables p q) (h2 : SameTables2 p q)
    (hskip : ∀ el, p.setOfElementsToSkipContent.contains el = q.setOfElementsToSkipContent.contains el)
    (hsch : ∀ s, p.allowURLSchemes.get? s = q.allowURLSchemes.get? s) (input : Bytes) :
    p.sanitize input = q.sanitize input ∧ p.panics input = q.panics input :=
  C17_output_of_tables T p q hip hiq hp hq hsw h1 h2 hskip hsch input

/-- non-vacuity: two orders of the entries of the pattern table and of a rule slice -/
example :
    let r1 : Pat := ⟨1, fun s => s == b!"x-a"⟩
    let r2 : Pat := ⟨2, fun s => s.length == 3⟩
    let v : Pat := ⟨3, fun s => s == b!"1"⟩
    let p : Policy := { initialized := true, elsMatchingAndAttrs := [(r1, [(b!"id", [some v, none])]), (r2, [])] }
    let q : Policy := { initialized := true, elsMatchingAndAttrs := [(r2, []), (r1, [(b!"id", [none, some v])])] }
    p.sanitize b!"<x-a id=2>t</x-a>" = b!"<x-a id=\"2\">t</x-a>" ∧ q.sanitize b!"<x-a id=2>t</x-a>" = b!"<x-a id=\"2\">t</x-a>" := by
  decide

end BM.Props
