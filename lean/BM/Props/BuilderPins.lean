import BM.Gen.BuilderFacts
import BM.Policy
import BM.Proofs.Switches
/-
  T1 for the builder API (C17, C13): the state of a policy and who writes it, extracted by
  syntax from policy.go / helpers.go / policies.go on every run (BM/Gen/BuilderFacts.lean), is
  equal to the table below — the one `BM/Policy.lean` (`applyOpInit`), `Proofs/Switches`
  (`setSwitches`, `setsSkip`, `setsScheme`) and `Proofs/Rules` (`adds…`) were written against:

  * the Policy struct has exactly these 26 fields — the model's `Policy` has one field for each
    (a further field would be state the model does not know: a cache, a flag, a shared table);
  * every link option writes its own switch and `requireParseableURLs`; `AllowRelativeURLs`,
    `AllowURLSchemes` and `AllowURLSchemeWithCustomPolicy` reach it through `RequireParseableURLs`;
  * the terminal calls of the attribute / style builders write exactly one rule table each
    (plus the matching "allowed without attributes" set); `AllowElements…` write the element tables;
    `SkipElementsContent` / `AllowElementsContent` write only the skip-content set;
  * `init` is called by exactly the methods for which `BuilderOp.callsInit` is true (AllowAttrs /
    AllowNoAttrs / AllowStyles start the two builders);
  * the helpers and the shipped constructors write no field themselves: they are compositions
    of the methods above (their histories are regenerated separately, BM/Gen/Shipped.lean).
-/
namespace BM.Props

/-- the fields of the Policy struct the model was written against -/
def expectedPolicyFields : List (String × String) := [
  ("initialized", "bool"),
  ("addSpaces", "bool"),
  ("requireNoFollow", "bool"),
  ("requireNoFollowFullyQualifiedLinks", "bool"),
  ("requireNoReferrer", "bool"),
  ("requireNoReferrerFullyQualifiedLinks", "bool"),
  ("requireCrossOriginAnonymous", "bool"),
  ("requireSandboxOnIFrame", "map[string]bool"),
  ("addTargetBlankToFullyQualifiedLinks", "bool"),
  ("requireParseableURLs", "bool"),
  ("allowRelativeURLs", "bool"),
  ("allowDataAttributes", "bool"),
  ("allowComments", "bool"),
  ("elsAndAttrs", "map[string]map[string][]attrPolicy"),
  ("elsMatchingAndAttrs", "map[*regexp.Regexp]map[string][]attrPolicy"),
  ("globalAttrs", "map[string][]attrPolicy"),
  ("elsAndStyles", "map[string]map[string][]stylePolicy"),
  ("elsMatchingAndStyles", "map[*regexp.Regexp]map[string][]stylePolicy"),
  ("globalStyles", "map[string][]stylePolicy"),
  ("allowURLSchemes", "map[string][]urlPolicy"),
  ("allowURLSchemeRegexps", "[]*regexp.Regexp"),
  ("srcRewriter", "urlRewriter"),
  ("setOfElementsAllowedWithoutAttrs", "map[string]struct{}"),
  ("setOfElementsMatchingAllowedWithoutAttrs", "[]*regexp.Regexp"),
  ("setOfElementsToSkipContent", "map[string]struct{}"),
  ("allowUnsafe", "bool")
]


/-- (file, receiver, method, fields written, policy methods called) the model was written against -/
def expectedBuilderWrites : List (String × String × String × List String × List String) := [
  ("policy.go", "*Policy", "init", ["allowURLSchemeRegexps", "allowURLSchemes", "elsAndAttrs", "elsAndStyles", "elsMatchingAndAttrs", "elsMatchingAndStyles", "globalAttrs", "globalStyles", "initialized", "setOfElementsAllowedWithoutAttrs", "setOfElementsToSkipContent"], []),
  ("policy.go", "", "NewPolicy", [], ["addDefaultElementsWithoutAttrs", "addDefaultSkipElementContent"]),
  ("policy.go", "*Policy", "AllowAttrs", [], ["init"]),
  ("policy.go", "*Policy", "AllowDataAttributes", ["allowDataAttributes"], []),
  ("policy.go", "*Policy", "AllowComments", ["allowComments"], []),
  ("policy.go", "*Policy", "AllowNoAttrs", [], ["init"]),
  ("policy.go", "*attrPolicyBuilder", "AllowNoAttrs", [], []),
  ("policy.go", "*attrPolicyBuilder", "Matching", [], []),
  ("policy.go", "*attrPolicyBuilder", "OnElements", ["elsAndAttrs", "setOfElementsAllowedWithoutAttrs"], []),
  ("policy.go", "*attrPolicyBuilder", "OnElementsMatching", ["elsMatchingAndAttrs", "setOfElementsMatchingAllowedWithoutAttrs"], []),
  ("policy.go", "*attrPolicyBuilder", "Globally", ["globalAttrs"], []),
  ("policy.go", "*Policy", "AllowStyles", [], ["init"]),
  ("policy.go", "*stylePolicyBuilder", "Matching", [], []),
  ("policy.go", "*stylePolicyBuilder", "MatchingEnum", [], []),
  ("policy.go", "*stylePolicyBuilder", "MatchingHandler", [], []),
  ("policy.go", "*stylePolicyBuilder", "OnElements", ["elsAndStyles"], []),
  ("policy.go", "*stylePolicyBuilder", "OnElementsMatching", ["elsMatchingAndStyles"], []),
  ("policy.go", "*stylePolicyBuilder", "Globally", ["globalStyles"], []),
  ("policy.go", "*Policy", "AllowElements", ["elsAndAttrs"], ["init"]),
  ("policy.go", "*Policy", "AllowElementsMatching", ["elsMatchingAndAttrs"], ["init"]),
  ("policy.go", "*Policy", "AllowURLSchemesMatching", ["allowURLSchemeRegexps"], []),
  ("policy.go", "*Policy", "RewriteSrc", ["srcRewriter"], []),
  ("policy.go", "*Policy", "RequireNoFollowOnLinks", ["requireNoFollow", "requireParseableURLs"], []),
  ("policy.go", "*Policy", "RequireNoFollowOnFullyQualifiedLinks", ["requireNoFollowFullyQualifiedLinks", "requireParseableURLs"], []),
  ("policy.go", "*Policy", "RequireNoReferrerOnLinks", ["requireNoReferrer", "requireParseableURLs"], []),
  ("policy.go", "*Policy", "RequireNoReferrerOnFullyQualifiedLinks", ["requireNoReferrerFullyQualifiedLinks", "requireParseableURLs"], []),
  ("policy.go", "*Policy", "RequireCrossOriginAnonymous", ["requireCrossOriginAnonymous"], []),
  ("policy.go", "*Policy", "AddTargetBlankToFullyQualifiedLinks", ["addTargetBlankToFullyQualifiedLinks", "requireParseableURLs"], []),
  ("policy.go", "*Policy", "RequireParseableURLs", ["requireParseableURLs"], []),
  ("policy.go", "*Policy", "AllowRelativeURLs", ["allowRelativeURLs"], ["RequireParseableURLs"]),
  ("policy.go", "*Policy", "AllowURLSchemes", ["allowURLSchemes"], ["RequireParseableURLs", "init"]),
  ("policy.go", "*Policy", "AllowURLSchemeWithCustomPolicy", ["allowURLSchemes"], ["RequireParseableURLs", "init"]),
  ("policy.go", "*Policy", "RequireSandboxOnIFrame", ["requireSandboxOnIFrame"], []),
  ("policy.go", "*Policy", "AddSpaceWhenStrippingTag", ["addSpaces"], []),
  ("policy.go", "*Policy", "SkipElementsContent", ["setOfElementsToSkipContent"], ["init"]),
  ("policy.go", "*Policy", "AllowElementsContent", ["setOfElementsToSkipContent"], ["init"]),
  ("policy.go", "*Policy", "AllowUnsafe", ["allowUnsafe"], ["init"]),
  ("policy.go", "*Policy", "addDefaultElementsWithoutAttrs", ["setOfElementsAllowedWithoutAttrs"], ["init"]),
  ("policy.go", "*Policy", "addDefaultSkipElementContent", ["setOfElementsToSkipContent"], ["init"]),
  ("helpers.go", "*Policy", "AllowStandardURLs", [], ["AllowRelativeURLs", "AllowURLSchemes", "RequireNoFollowOnLinks", "RequireParseableURLs"]),
  ("helpers.go", "*Policy", "AllowStandardAttributes", [], ["AllowAttrs", "Globally", "Matching"]),
  ("helpers.go", "*Policy", "AllowStyling", [], ["AllowAttrs", "Globally", "Matching"]),
  ("helpers.go", "*Policy", "AllowImages", [], ["AllowAttrs", "AllowStandardURLs", "Matching", "OnElements"]),
  ("helpers.go", "*Policy", "AllowDataURIImages", [], ["AllowURLSchemeWithCustomPolicy", "RequireParseableURLs"]),
  ("helpers.go", "*Policy", "AllowLists", [], ["AllowAttrs", "AllowElements", "Matching", "OnElements"]),
  ("helpers.go", "*Policy", "AllowTables", [], ["AllowAttrs", "AllowElements", "Matching", "OnElements"]),
  ("helpers.go", "*Policy", "AllowIFrames", [], ["AllowAttrs", "OnElements", "RequireSandboxOnIFrame"]),
  ("policies.go", "", "StrictPolicy", [], ["NewPolicy"]),
  ("policies.go", "", "StripTagsPolicy", [], ["StrictPolicy"]),
  ("policies.go", "", "UGCPolicy", [], ["AllowAttrs", "AllowElements", "AllowImages", "AllowLists", "AllowStandardAttributes", "AllowStandardURLs", "AllowTables", "Matching", "NewPolicy", "OnElements"])
]


/-- **the builder API writes what the model says it writes** (regenerated from source every run) -/
theorem builder_facts_pin :
    Gen.policyFields = expectedPolicyFields ∧ Gen.builderWrites = expectedBuilderWrites := ⟨rfl, rfl⟩

/-- the methods that start with `p.init()` in the source are those for which the model's
    `callsInit` is true (the two builders are started by AllowAttrs / AllowNoAttrs / AllowStyles) -/
theorem callsInit_table :
    (expectedBuilderWrites.filter fun e => e.1 == "policy.go" && e.2.1 == "*Policy" && e.2.2.2.2.contains "init"
        && e.2.2.1 != "addDefaultElementsWithoutAttrs" && e.2.2.1 != "addDefaultSkipElementContent").map (·.2.2.1) =
      ["AllowAttrs", "AllowNoAttrs", "AllowStyles", "AllowElements", "AllowElementsMatching", "AllowURLSchemes",
       "AllowURLSchemeWithCustomPolicy", "SkipElementsContent", "AllowElementsContent", "AllowUnsafe"] ∧
    (BuilderOp.callsInit (.allowAttrs [] none false .globally) && BuilderOp.callsInit (.allowStyles [] {} .globally) &&
     BuilderOp.callsInit (.allowElements []) && BuilderOp.callsInit (.allowElementsMatching ⟨0, fun _ => false⟩) &&
     BuilderOp.callsInit (.allowURLSchemes []) && BuilderOp.callsInit (.allowURLSchemeWithCustomPolicy [] fun _ => false) &&
     BuilderOp.callsInit (.skipElementsContent []) && BuilderOp.callsInit (.allowElementsContent []) &&
     BuilderOp.callsInit (.allowUnsafe false) &&
     !BuilderOp.callsInit .allowDataAttributes && !BuilderOp.callsInit .allowComments &&
     !BuilderOp.callsInit (.allowURLSchemesMatching ⟨0, fun _ => false⟩) && !BuilderOp.callsInit (.requireParseableURLs true) &&
     !BuilderOp.callsInit (.requireNoFollowOnLinks true) && !BuilderOp.callsInit (.addSpaceWhenStrippingTag true) &&
     !BuilderOp.callsInit (.requireSandboxOnIFrame []) && !BuilderOp.callsInit (.allowRelativeURLs true)) = true := by
  constructor
  · decide
  · rfl

end BM.Props
