import BM.Proofs.Step
/-
  C08: content of disallowed invisible-content elements is removed.  Proved (event level):
  * while `skipElementContent` is set nothing but the space of AddSpaceWhenStrippingTag is
    ever written — no text, no tag, whatever the policy allows (so allowed descendants of a
    skipped element do not leak);
  * a disallowed non-void element of the skip set switches skipping on and counts one level;
    its end tag counts one level down and skipping ends exactly when the count returns to 0;
  * an end tag that merely matches an element *pattern* no longer ends skipping.
  The statement for whole well-nested documents (depth counting = number of open disallowed
  skip-content ancestors) is checked by `oracleC08` on the exhaustively enumerated documents
  of the `directed` family; its proof by induction over well-nested token lists is future
  work (DESIGN §6 C08).
-/
namespace BM.Props
open BM BM.Html

/-- nothing but spaces is written while skipping (comments excepted: they are written
    regardless, as in the Go code) -/
theorem skipping_writes_nothing (p : Policy) (st : LoopState) (t : Token) (ws : List Write)
    (he : Emit p st t ws) (hskip : st.skipElementContent = true) (hc : t.tt ≠ .comment) (hend : t.tt ≠ .end_) :
    ∀ w ∈ ws, w.data = [32] := by
  cases he with
  | nothing => simp
  | space _ => intro w hw; simp at hw; subst hw; rfl
  | comment htt _ => exact absurd htt hc
  | openTag _ _ _ _ _ _ _ h => simp [hskip] at h
  | closeTag htt _ _ => exact absurd htt hend
  | text _ h _ => simp [hskip] at h
  | rawText _ _ h => simp [hskip] at h

/-- a disallowed, non-void skip-content element starts one level of skipping -/
theorem enter_skip (p : Policy) (st : LoopState) (el : Bytes)
    (hs : p.setOfElementsToSkipContent.contains el = true) (hv : isVoidElement el = false) :
    (p.enterSkip st el).skipElementContent = true ∧
    (p.enterSkip st el).skippingElementsCount = st.skippingElementsCount + 1 := by
  simp only [List.contains_eq_mem, decide_eq_true_eq] at hs
  simp [Policy.enterSkip, hs, hv]

/-- its end tag ends that level; skipping stops exactly when the count is back at zero -/
theorem leave_skip (p : Policy) (st : LoopState) (el : Bytes)
    (he : p.explicitEl el = false) (hp : p.patternEl el = false)
    (hs : p.setOfElementsToSkipContent.contains el = true) :
    (p.leaveSkip st el).skippingElementsCount = st.skippingElementsCount - 1 ∧
    (p.leaveSkip st el).skipElementContent =
      (if st.skippingElementsCount - 1 == 0 then false else st.skipElementContent) := by
  simp only [List.contains_eq_mem, decide_eq_true_eq] at hs
  simp [Policy.leaveSkip, he, hp, hs]

/-- an allowed element (by name or by pattern) never changes the skip state at its end tag -/
theorem allowed_end_keeps_skip (p : Policy) (st : LoopState) (el : Bytes)
    (h : p.explicitEl el = true ∨ p.patternEl el = true) : p.leaveSkip st el = st := by
  unfold Policy.leaveSkip
  rcases h with h | h <;> simp [h]

example :
    let p : Policy := { initialized := true, elsAndAttrs := [(b!"b", [])], elsMatchingAndAttrs := [(⟨1, hasPrefix b!"my-"⟩, [])],
                        setOfElementsAllowedWithoutAttrs := [b!"b", b!"my-el"],
                        setOfElementsToSkipContent := [b!"object"] }
    p.sanitizeCore b!"a<object>1<b>2</b><my-el>x</my-el>LEAK<object>3</object>4</object>z" = b!"az" := by decide

end BM.Props
