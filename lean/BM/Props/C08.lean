import BM.Proofs.Step
import BM.Proofs.SkipText
import BM.Props.C09
import BM.Proofs.ProvC
import BM.Proofs.SkipTextSp
/-
  C08: content of disallowed invisible-content elements is removed.  Proved (event level):
  * while `skipElementContent` is set nothing but the space of AddSpaceWhenStrippingTag is
    ever written — no text, no tag, whatever the policy allows (so allowed descendants of a
    skipped element do not leak);
  * a disallowed non-void element of the skip set switches skipping on and counts one level;
    its end tag counts one level down and skipping ends exactly when the count returns to 0;
  * an end tag that merely matches an element *pattern* no longer ends skipping.
  The statement for whole well-nested documents is `C08_events` / `C08_bytes`: the text written
  (re-read from the returned bytes, for plain policies) is exactly the input's text outside
  every disallowed skip-content element (`Spec.visibleTextAux`: depth = number of open
  disallowed skip-content ancestors), proved with the open-element simulation of
  `Proofs/Nesting.lean` for inputs without script/style tags (their bodies are C05's).
-/
namespace BM.Props
open BM BM.Html BM.Spec

/-- nothing but spaces is written while skipping (comments excepted: they are written
    regardless, as in the Go code) -/
theorem skipping_writes_nothing (p : Policy) (st : LoopState) (t : Token) (ws : List Write)
    (he : Emit p st t ws) (hskip : st.skipElementContent = true) (hc : t.tt ≠ .comment) (hend : t.tt ≠ .end_) :
    ∀ w ∈ ws, w.data = [32] := by
  cases he with
  | nothing => simp
  | space _ => intro w hw; simp at hw; subst hw; rfl
  | comment htt _ => exact absurd htt hc
  | openTag _ _ _ _ _ _ _ h => simp [hskip] at h
  | closeTag htt _ _ => exact absurd htt hend
  | text _ h _ => simp [hskip] at h
  | rawText _ _ h => simp [hskip] at h

/-- a disallowed, non-void skip-content element starts one level of skipping -/
theorem enter_skip (p : Policy) (st : LoopState) (el : Bytes)
    (hs : p.setOfElementsToSkipContent.contains el = true) (hv : isVoidElement el = false) :
    (p.enterSkip st el).skipElementContent = true ∧
    (p.enterSkip st el).skippingElementsCount = st.skippingElementsCount + 1 := by
  simp only [List.contains_eq_mem, decide_eq_true_eq] at hs
  simp [Policy.enterSkip, hs, hv]

/-- its end tag ends that level; skipping stops exactly when the count is back at zero -/
theorem leave_skip (p : Policy) (st : LoopState) (el : Bytes)
    (he : p.explicitEl el = false) (hp : p.patternEl el = false)
    (hs : p.setOfElementsToSkipContent.contains el = true) :
    (p.leaveSkip st el).skippingElementsCount = st.skippingElementsCount - 1 ∧
    (p.leaveSkip st el).skipElementContent =
      (if st.skippingElementsCount - 1 == 0 then false else st.skipElementContent) := by
  simp only [List.contains_eq_mem, decide_eq_true_eq] at hs
  simp [Policy.leaveSkip, he, hp, hs]

/-- an allowed element (by name or by pattern) never changes the skip state at its end tag -/
theorem allowed_end_keeps_skip (p : Policy) (st : LoopState) (el : Bytes)
    (h : p.explicitEl el = true ∨ p.patternEl el = true) : p.leaveSkip st el = st := by
  unfold Policy.leaveSkip
  rcases h with h | h <;> simp [h]

example :
    let p : Policy := { initialized := true, elsAndAttrs := [(b!"b", [])], elsMatchingAndAttrs := [(⟨1, hasPrefix b!"my-"⟩, [])],
                        setOfElementsAllowedWithoutAttrs := [b!"b", b!"my-el"],
                        setOfElementsToSkipContent := [b!"object"] }
    p.sanitizeCore b!"a<object>1<b>2</b><my-el>x</my-el>LEAK<object>3</object>4</object>z" = b!"az" := by decide

/-! ### whole documents -/

/-- **C08 (event level)**: for every policy without AllowUnsafe and AddSpaceWhenStrippingTag and
    every well-nested input without script/style tags, the loop writes the serialisation of a
    token list whose text is exactly the input's text outside every disallowed skip-content
    element; nesting of such elements is honoured (the depth is counted). -/
theorem C08_events (p : Policy) (hu : p.ensureInit.allowUnsafe = false) (hs : p.ensureInit.addSpaces = false)
    (input : Bytes) (hwn : wellNested (tokenize input) = true)
    (hnos : ∀ t ∈ tokenize input, isTag t = true → isScriptOrStyle t.data = false) :
    ∃ ws toks, p.ensureInit.run {} (tokenize input) = (ws, false) ∧
      RunWrites p.ensureInit (tokenize input) ws toks ∧
      textOf toks = visibleTextAux p.ensureInit 0 [] (tokenize input) :=
  nest_text p.ensureInit hu hs (tokenize input) [] {} (abs_init _) rfl (by simp)
    (tokenizeAux_nameOK _ _ _) hnos hwn

/-- **C08 (byte level, plain policies)**: the text an HTML tokenizer reads from the returned bytes
    is exactly the input's text outside every disallowed skip-content element. -/
theorem C08_bytes (p : Policy) (hp : Plain p.ensureInit) (hs : p.ensureInit.addSpaces = false)
    (input : Bytes) (hwn : wellNested (tokenize input) = true)
    (hnos : ∀ t ∈ tokenize input, isTag t = true → isScriptOrStyle t.data = false) :
    textOf (tokenize (p.sanitizeCore input)) = visibleTextAux p.ensureInit 0 [] (tokenize input) := by
  obtain ⟨ws, toks, hrun, ⟨hbytes, hprov⟩, htext⟩ := C08_events p hp.noUnsafe hs input hwn hnos
  have hseg : ∀ k ∈ toks, SegOK k := by
    intro k hk
    obtain ⟨t, ht, hpr⟩ := hprov k hk
    exact prov_segOK hp (tokenize_wf input t ht) hpr
  have hb : p.sanitizeCore input = renderAll toks := by
    unfold Policy.sanitizeCore Policy.sanitizeTokens
    rw [hrun]
    simp only
    unfold TokBytes at hbytes
    rw [hbytes, flatten_map_render]
  rw [hb, tokenize_renderAll toks hseg, textOf_coalesce]
  simpa using htext

/-- non-vacuity: nested skipped elements, an allowed element inside a skipped one -/
example :
    let p : Policy := { initialized := true, elsAndAttrs := [(b!"b", [])], setOfElementsAllowedWithoutAttrs := [b!"b"],
                        setOfElementsToSkipContent := [b!"object", b!"title"] }
    visibleTextAux p 0 [] (tokenize b!"a<object>x<b>y</b><object>z</object>w</object>c<i>d</i>") = b!"acd" ∧
    p.sanitizeCore b!"a<object>x<b>y</b><object>z</object>w</object>c<i>d</i>" = b!"acd" := by decide

/-- **C08 (byte level), comments allowed or not**: the same for every policy without AllowUnsafe and
    without a raw-text element on its allowlist — comments that come through are not text -/
theorem C08_bytesC (p : Policy) (hp : PlainC p.ensureInit) (hs : p.ensureInit.addSpaces = false)
    (input : Bytes) (hwn : wellNested (tokenize input) = true)
    (hnos : ∀ t ∈ tokenize input, isTag t = true → isScriptOrStyle t.data = false) :
    textOf (tokenize (p.sanitizeCore input)) = visibleTextAux p.ensureInit 0 [] (tokenize input) := by
  obtain ⟨ws, toks, hrun, ⟨hbytes, hprov⟩, htext⟩ := C08_events p hp.noUnsafe hs input hwn hnos
  have hseg : ∀ k ∈ toks, SegOKC k := by
    intro k hk
    obtain ⟨t, ht, hpr⟩ := hprov k hk
    exact prov_segOKC hp (tokenize_wf input t ht) hpr
  have hb : p.sanitizeCore input = renderAll toks := by
    unfold Policy.sanitizeCore Policy.sanitizeTokens
    rw [hrun]
    simp only
    unfold TokBytes at hbytes
    rw [hbytes, flatten_map_render]
  rw [hb, tokenize_renderAllC toks hseg, textOf_coalesce, textOf_map_reread]
  simpa using htext

/-- (per-input form)  **C08 (byte level), comments allowed or not**: the same for every policy without AllowUnsafe and
    without a raw-text element on its allowlist — comments that come through are not text -/
theorem C08_bytesC_on (p : Policy) (hs : p.ensureInit.addSpaces = false)
    (input : Bytes) (hp : PlainOn p.ensureInit (tokenize input)) (hwn : wellNested (tokenize input) = true)
    (hnos : ∀ t ∈ tokenize input, isTag t = true → isScriptOrStyle t.data = false) :
    textOf (tokenize (p.sanitizeCore input)) = visibleTextAux p.ensureInit 0 [] (tokenize input) := by
  obtain ⟨ws, toks, hrun, ⟨hbytes, hprov⟩, htext⟩ := C08_events p hp.noUnsafe hs input hwn hnos
  have hseg : ∀ k ∈ toks, SegOKC k := by
    intro k hk
    obtain ⟨t, ht, hpr⟩ := hprov k hk
    exact prov_segOKOn (hp.noRaw t ht) (tokenize_wf input t ht) hpr
  have hb : p.sanitizeCore input = renderAll toks := by
    unfold Policy.sanitizeCore Policy.sanitizeTokens
    rw [hrun]
    simp only
    unfold TokBytes at hbytes
    rw [hbytes, flatten_map_render]
  rw [hb, tokenize_renderAllC toks hseg, textOf_coalesce, textOf_map_reread]
  simpa using htext

/-! ### with AddSpaceWhenStrippingTag -/

/-- **C08 (event level), AddSpaceWhenStrippingTag or not**: for every policy without AllowUnsafe and every
    well-nested input without script/style tags, the text the loop writes is — space characters aside,
    since every removed tag may have left one — exactly the input's text outside every disallowed
    skip-content element -/
theorem C08_events_spaces (p : Policy) (hu : p.ensureInit.allowUnsafe = false)
    (input : Bytes) (hwn : wellNested (tokenize input) = true)
    (hnos : ∀ t ∈ tokenize input, isTag t = true → isScriptOrStyle t.data = false) :
    ∃ ws toks, p.ensureInit.run {} (tokenize input) = (ws, false) ∧
      RunWrites p.ensureInit (tokenize input) ws toks ∧
      noSp (textOf toks) = noSp (visibleTextAux p.ensureInit 0 [] (tokenize input)) :=
  nest_text_sp p.ensureInit hu (tokenize input) [] {} (abs_init _) rfl (by simp)
    (tokenizeAux_nameOK _ _ _) hnos hwn

/-- **C08 (byte level), AddSpaceWhenStrippingTag or not, comments allowed or not**: the text an HTML
    tokenizer reads from the returned bytes is, space characters aside, the input's text outside every
    disallowed skip-content element — nothing inside one appears, everything outside does -/
theorem C08_bytes_spaces (p : Policy) (hp : PlainC p.ensureInit)
    (input : Bytes) (hwn : wellNested (tokenize input) = true)
    (hnos : ∀ t ∈ tokenize input, isTag t = true → isScriptOrStyle t.data = false) :
    noSp (textOf (tokenize (p.sanitizeCore input))) = noSp (visibleTextAux p.ensureInit 0 [] (tokenize input)) := by
  obtain ⟨ws, toks, hrun, ⟨hbytes, hprov⟩, htext⟩ := C08_events_spaces p hp.noUnsafe input hwn hnos
  have hseg : ∀ k ∈ toks, SegOKC k := by
    intro k hk
    obtain ⟨t, ht, hpr⟩ := hprov k hk
    exact prov_segOKC hp (tokenize_wf input t ht) hpr
  have hb : p.sanitizeCore input = renderAll toks := by
    unfold Policy.sanitizeCore Policy.sanitizeTokens
    rw [hrun]
    simp only
    unfold TokBytes at hbytes
    rw [hbytes, flatten_map_render]
  rw [hb, tokenize_renderAllC toks hseg, textOf_coalesce, textOf_map_reread]
  simpa using htext

/-- (per-input form)  **C08 (byte level), AddSpaceWhenStrippingTag or not, comments allowed or not**: the text an HTML
    tokenizer reads from the returned bytes is, space characters aside, the input's text outside every
    disallowed skip-content element — nothing inside one appears, everything outside does -/
theorem C08_bytes_spaces_on (p : Policy)
    (input : Bytes) (hp : PlainOn p.ensureInit (tokenize input)) (hwn : wellNested (tokenize input) = true)
    (hnos : ∀ t ∈ tokenize input, isTag t = true → isScriptOrStyle t.data = false) :
    noSp (textOf (tokenize (p.sanitizeCore input))) = noSp (visibleTextAux p.ensureInit 0 [] (tokenize input)) := by
  obtain ⟨ws, toks, hrun, ⟨hbytes, hprov⟩, htext⟩ := C08_events_spaces p hp.noUnsafe input hwn hnos
  have hseg : ∀ k ∈ toks, SegOKC k := by
    intro k hk
    obtain ⟨t, ht, hpr⟩ := hprov k hk
    exact prov_segOKOn (hp.noRaw t ht) (tokenize_wf input t ht) hpr
  have hb : p.sanitizeCore input = renderAll toks := by
    unfold Policy.sanitizeCore Policy.sanitizeTokens
    rw [hrun]
    simp only
    unfold TokBytes at hbytes
    rw [hbytes, flatten_map_render]
  rw [hb, tokenize_renderAllC toks hseg, textOf_coalesce, textOf_map_reread]
  simpa using htext

/-- non-vacuity: spaces are added, hidden text stays hidden -/
example :
    let p : Policy := { initialized := true, addSpaces := true, elsAndAttrs := [(b!"b", [])],
                        setOfElementsAllowedWithoutAttrs := [b!"b"], setOfElementsToSkipContent := [b!"object"] }
    p.sanitizeCore b!"a<object>x<b>y</b></object>c<i>d</i>" = b!"a  c d " := by decide

end BM.Props
