import BM.Props.C03
import BM.Proofs.Switches
import BM.Proofs.Tables2
/-
  C03 for whole policies, by induction over builder histories.  `C03_browser` speaks of the policy's scheme
  table; here the table is traced back to the calls that filled it: for a policy built from `NewPolicy()` by
  any history of builder calls, a URL value that survives has, for a browser, a scheme that some
  `AllowURLSchemes` / `AllowURLSchemeWithCustomPolicy` call of the history names (in some letter case) or
  that a registered scheme pattern matches — or it is relative and relative URLs are allowed.  So a scheme
  no call ever named (javascript, vbscript, data, …) reaches no output, whatever else the history did.
-/
namespace BM.Props
open BM BM.Html

/-- the call registers scheme `s` (lower case), plainly or with a custom check -/
def namesScheme (s : Bytes) : BuilderOp → Prop
  | .allowURLSchemes names => s ∈ names.map toLowerName
  | .allowURLSchemeWithCustomPolicy scheme _ => toLowerName scheme = s
  | _ => False

/-- the call registers a scheme pattern that matches `s` -/
def patternsScheme (s : Bytes) : BuilderOp → Prop
  | .allowURLSchemesMatching r => r.test s = true
  | _ => False

theorem setsScheme_some (s : Bytes) (op : BuilderOp) (st : Option (List UrlPolicy)) (c : List UrlPolicy)
    (h : op.setsScheme s st = some c) : st.isSome = true ∨ namesScheme s op := by
  cases op with
  | allowURLSchemes names =>
    simp only [BuilderOp.setsScheme] at h
    split at h
    · rename_i hc
      right
      simpa [namesScheme] using hc
    · left; simp [h]
  | allowURLSchemeWithCustomPolicy scheme f =>
    simp only [BuilderOp.setsScheme] at h
    split at h
    · rename_i hc; exact .inr hc
    · left; simp [h]
  | _ => left; simp only [BuilderOp.setsScheme] at h; simp [h]

theorem foldl_setsScheme_some (s : Bytes) (ops : List BuilderOp) (st : Option (List UrlPolicy)) (c : List UrlPolicy)
    (h : ops.foldl (fun st op => op.setsScheme s st) st = some c) :
    st.isSome = true ∨ ∃ op ∈ ops, namesScheme s op := by
  induction ops generalizing st with
  | nil => left; simp only [List.foldl_nil] at h; simp [h]
  | cons op rest ih =>
    simp only [List.foldl_cons] at h
    rcases ih _ h with h1 | ⟨o, ho, hn⟩
    · obtain ⟨c', hc'⟩ := Option.isSome_iff_exists.mp h1
      rcases setsScheme_some s op st c' hc' with h2 | h2
      · exact .inl h2
      · exact .inr ⟨op, List.mem_cons_self, h2⟩
    · exact .inr ⟨o, List.mem_cons_of_mem _ ho, hn⟩

/-- the scheme patterns after one call: what was there, plus the pattern an `AllowURLSchemesMatching` call is given -/
def newSchemePatterns : BuilderOp → List Pat
  | .allowURLSchemesMatching r => [r]
  | _ => []

theorem schemeRegexps_applyOpInit (d : Bytes → Bytes → Bool) (p : Policy) (op : BuilderOp) :
    (applyOpInit d p op).allowURLSchemeRegexps = p.allowURLSchemeRegexps ++ newSchemePatterns op := by
  cases op with
  | allowElements names =>
    simp only [applyOpInit, newSchemePatterns, List.append_nil]
    rw [foldl_allowURLSchemeRegexps]; exact fun _ _ => rfl
  | allowAttrs names re ae scope =>
    cases scope with
    | onElements els =>
      simp only [applyOpInit, newSchemePatterns, List.append_nil]
      rw [foldl_allowURLSchemeRegexps]; exact fun b a => attrsOnElement_allowURLSchemeRegexps b _ _ _ _
    | onElementsMatching r' =>
      simp only [applyOpInit, newSchemePatterns, List.append_nil]
      split <;> (rw [foldl_allowURLSchemeRegexps]; exact fun _ _ => rfl)
    | globally =>
      simp only [applyOpInit, newSchemePatterns, List.append_nil]
      rw [foldl_allowURLSchemeRegexps]; exact fun _ _ => rfl
  | allowStyles names m scope =>
    cases scope with
    | onElements els =>
      simp only [applyOpInit, newSchemePatterns, List.append_nil]
      rw [foldl_allowURLSchemeRegexps]
      intro b a
      rw [foldl_allowURLSchemeRegexps]; exact fun _ _ => rfl
    | onElementsMatching r' =>
      simp only [applyOpInit, newSchemePatterns, List.append_nil]
      rw [foldl_allowURLSchemeRegexps]; exact fun _ _ => rfl
    | globally =>
      simp only [applyOpInit, newSchemePatterns, List.append_nil]
      rw [foldl_allowURLSchemeRegexps]; exact fun _ _ => rfl
  | allowURLSchemes schemes =>
    simp only [applyOpInit, newSchemePatterns, List.append_nil]
    rw [foldl_allowURLSchemeRegexps]; exact fun _ _ => rfl
  | skipElementsContent names =>
    simp only [applyOpInit, newSchemePatterns, List.append_nil]
    rw [foldl_allowURLSchemeRegexps]; exact fun _ _ => rfl
  | allowElementsContent names =>
    simp only [applyOpInit, newSchemePatterns, List.append_nil]
    rw [foldl_allowURLSchemeRegexps]; exact fun _ _ => rfl
  | allowElementsMatching r' =>
    simp only [applyOpInit, newSchemePatterns, List.append_nil]
    split <;> rfl
  | allowURLSchemesMatching r' => rfl
  | _ => simp only [applyOpInit, newSchemePatterns, List.append_nil]

/-- a registered scheme pattern was registered by a call of the history (`AllowURLSchemesMatching` appends
    the very pattern it is given) -/
theorem schemeRegexps_applyOps (d : Bytes → Bytes → Bool) (p : Policy) (hi : p.initialized = true)
    (ops : List BuilderOp) (q : Pat) (hq : q ∈ (applyOps d p ops).allowURLSchemeRegexps) :
    q ∈ p.allowURLSchemeRegexps ∨ ∃ op ∈ ops, q ∈ newSchemePatterns op := by
  unfold applyOps at hq
  induction ops generalizing p with
  | nil => exact .inl hq
  | cons op rest ih =>
    simp only [List.foldl_cons] at hq
    rcases ih (applyOp d p op) (applyOp_initialized d p hi op) hq with h | ⟨o, ho, he⟩
    · rw [applyOp_init_eq d p hi, schemeRegexps_applyOpInit, List.mem_append] at h
      rcases h with h | h
      · exact .inl h
      · exact .inr ⟨op, List.mem_cons_self, h⟩
    · exact .inr ⟨o, List.mem_cons_of_mem _ ho, he⟩

/-- **C03 for every policy built from `NewPolicy()`**: a URL value that `validURL` lets through has, for a
    browser, a non-empty scheme that some call of the history registered by name (in some letter case) or
    that a scheme pattern registered by some call matches; or it is a non-empty relative reference and
    relative URLs are allowed.  A scheme that no call named and no registered pattern matches never comes out. -/
theorem C03_built_policy (d : Bytes → Bytes → Bool) (ops : List BuilderOp)
    (hreq : (applyOps d { initialized := true } ops).requireParseableURLs = true) (raw v : Bytes)
    (h : (applyOps d { initialized := true } ops).validURL raw = some v) :
    (∃ s, Spec.classifyUrl v = .scheme s ∧ s ≠ [] ∧
      ((∃ op ∈ ops, namesScheme s op) ∨ (∃ op ∈ ops, patternsScheme s op))) ∨
    (Spec.classifyUrl v = .relative ∧ (applyOps d { initialized := true } ops).allowRelativeURLs = true ∧ v ≠ []) := by
  rcases C03_browser _ hreq raw v h with ⟨s, hc, hne, hs⟩ | hrel
  · left
    refine ⟨s, hc, hne, ?_⟩
    rcases hs with ⟨checks, hget⟩ | hre
    · left
      rw [scheme_applyOps d _ rfl ops s] at hget
      rcases foldl_setsScheme_some s ops _ checks hget with h0 | h1
      · simp [Map.get?] at h0
      · exact h1
    · right
      obtain ⟨q, hq, ht⟩ := List.any_eq_true.mp hre
      rcases schemeRegexps_applyOps d _ rfl ops q hq with h0 | ⟨op, hop, hin⟩
      · simp at h0
      · refine ⟨op, hop, ?_⟩
        cases op with
        | allowURLSchemesMatching r =>
          simp only [newSchemePatterns, List.mem_singleton] at hin
          subst hin; exact ht
        | _ => simp [newSchemePatterns] at hin
  · exact .inr hrel

/-- in particular: when no call of the history names `javascript` and none registers a scheme pattern, no
    surviving URL value is a `javascript:` URL for a browser — however the input spelled, padded or encoded it -/
theorem C03_built_no_javascript (d : Bytes → Bytes → Bool) (ops : List BuilderOp)
    (hreq : (applyOps d { initialized := true } ops).requireParseableURLs = true)
    (hn : ∀ op ∈ ops, ¬ namesScheme b!"javascript" op) (hp : ∀ op ∈ ops, newSchemePatterns op = [])
    (raw v : Bytes) (h : (applyOps d { initialized := true } ops).validURL raw = some v) :
    Spec.classifyUrl v ≠ .scheme b!"javascript" := by
  intro hc
  rcases C03_built_policy d ops hreq raw v h with ⟨s, hs, _, hn' | hp'⟩ | ⟨hr, _, _⟩
  · rw [hc] at hs
    injection hs with hs
    subst hs
    obtain ⟨op, hop, hno⟩ := hn'
    exact hn op hop hno
  · obtain ⟨op, hop, hpo⟩ := hp'
    have := hp op hop
    cases op <;> simp [patternsScheme, newSchemePatterns] at hpo this
  · rw [hc] at hr; cases hr

/-- the premises are met by an ordinary history: `AllowURLSchemes("HTTP", "mailto")`, `AllowAttrs("href").OnElements("a")` -/
example :
    let ops := [BuilderOp.allowURLSchemes [b!"HTTP", b!"mailto"],
                BuilderOp.allowAttrs [b!"href"] none false (.onElements [b!"a"])]
    (applyOps (fun _ _ => false) { initialized := true } ops).requireParseableURLs = true ∧
    (∀ op ∈ ops, ¬ namesScheme b!"javascript" op) ∧ (∀ op ∈ ops, newSchemePatterns op = []) := by
  refine ⟨by decide, ?_, ?_⟩
  · intro op hop
    simp only [List.mem_cons, List.not_mem_nil, or_false] at hop
    rcases hop with rfl | rfl
    · show ¬ (b!"javascript" ∈ [b!"HTTP", b!"mailto"].map toLowerName)
      decide
    · exact id
  · intro op hop
    simp only [List.mem_cons, List.not_mem_nil, or_false] at hop
    rcases hop with rfl | rfl <;> rfl

/-! ### the src rewriter -/

/-- what C03 says of a src attribute when a rewriter `f` is installed: at a checked src position its value is
    the printed form of `f` applied to the URL the check accepted, for one of the src values the tag had -/
def SrcRewritten (p : Policy) (f : UrlRewriter) (el : Bytes) (attrs : List Attr) (b : Attr) : Prop :=
  b.key = b!"src" → Spec.isUrlPosition el b!"src" = true →
    ∃ a ∈ attrs, a.key = b!"src" ∧ ∃ u parsed, p.validURL a.val = some u ∧ Url.parse u = some parsed ∧
      b.val = Url.print (f parsed)

theorem srcRewritten_passInv (p : Policy) (f : UrlRewriter) (el : Bytes) (attrs : List Attr) :
    PassInv (SrcRewritten p f el attrs) where
  added := by
    intro x hx hk
    rcases hx with h | h | h | h <;> rw [h] at hk <;> exact absurd hk (by decide)
  stable := by
    intro a b hk hv ha hkb hpos
    rw [hk] at hkb
    obtain ⟨a0, h0, h1, u, parsed, h2, h3, h4⟩ := ha hkb hpos
    exact ⟨a0, h0, h1, u, parsed, h2, h3, by rw [hv]; exact h4⟩

/-- **C03, the rewriter clause, for the whole of `sanitizeAttrs`**: with URL checking on and a src rewriter
    installed, every src returned at one of the nine src positions is the rewriter's result — printed — on the
    URL the check accepted and net/url parsed again, for a src value of the input tag; a src whose URL is refused,
    or does not parse again, is dropped -/
theorem C03_sanitizeAttrs_rewriter (p : Policy) (hreq : p.requireParseableURLs = true) (f : UrlRewriter)
    (hf : p.srcRewriter = some f) (el : Bytes) (attrs : List Attr) (aps : AttrRules) (out : List Attr)
    (h : p.sanitizeAttrs el attrs aps = some out) : ∀ b ∈ out, SrcRewritten p f el attrs b := by
  refine sanitizeAttrs_after_urlPass (srcRewritten_passInv p f el attrs) p el attrs aps out h ?_
  intro mid hmid
  constructor
  · intro hnot b _ _ hpos
    exfalso
    exact hnot ⟨(urlPosition_cases el b!"src" hpos).1, hreq⟩
  · intro _ _ m2 hm2 b hb hkb hpos
    obtain ⟨a, ha, hab⟩ := mapMOpt_mem _ mid m2 hm2 b hb
    have hk := urlPassAttr_key p el a b hab
    -- `a` survived the first pass: it is an attribute of the tag with the same key (and, not being a style
    -- attribute, the same value)
    have hka : a.key = b!"src" := by rw [← hk]; exact hkb
    obtain ⟨a0, ha0, hfa⟩ : ∃ a0 ∈ attrs, p.filterAttr el aps (p.hasStylePolicies el) a0 = some a := by
      rw [hmid] at ha
      obtain ⟨a0, h0, h1⟩ := List.mem_filterMap.mp ha
      exact ⟨a0, h0, h1⟩
    have ha0eq : a0 = a := by
      have hkey := filterAttr_key p el aps _ a0 a hfa
      unfold Policy.filterAttr at hfa
      have hns : (a0.key == b!"style") = false := by rw [← hkey, hka]; decide
      simp only [hns, Bool.false_and, Bool.false_eq_true, ↓reduceIte] at hfa
      repeat' split at hfa
      all_goals first | (simp only [Option.some.injEq] at hfa; exact hfa) | cases hfa
    subst ha0eq
    obtain ⟨_, hc⟩ := urlPosition_cases el b!"src" hpos
    rcases hc with ⟨hkey, _⟩ | ⟨hkey, _⟩ | ⟨_, hel, hnh, hnc⟩
    · exact absurd hkey (by decide)
    · exact absurd hkey (by decide)
    · unfold Policy.urlPassAttr at hab
      simp only [hnh, hnc, hel, hka, beq_self_eq_true, Bool.false_eq_true, ↓reduceIte, hf] at hab
      split at hab
      · simp at hab
      · rename_i u hu
        split at hab
        · simp at hab
        · rename_i parsed hparsed
          simp only [Option.some.injEq] at hab
          subst hab
          exact ⟨a0, ha0, hka, u, parsed, hu, hparsed, rfl⟩

/-- (per-input form)  **the rewriter clause at byte level**: on every tag re-read from the returned bytes, a src
    at a checked position is the rewriter's result for a src value of an input tag of that name -/
theorem C03_bytes_rewriter_on (p : Policy) (hreq : p.ensureInit.requireParseableURLs = true) (f : UrlRewriter)
    (hf : p.ensureInit.srcRewriter = some f) (input : Bytes) (hp : PlainOn p.ensureInit (tokenize input)) :
    ∀ k ∈ tokenize (p.sanitizeCore input), (k.tt = .start ∨ k.tt = .selfClosing) → ∀ b ∈ k.attrs,
      ∃ t ∈ tokenize input, t.data = k.data ∧ SrcRewritten p.ensureInit f k.data t.attrs b := by
  intro k hk htt b hb
  have hne : k.attrs ≠ [] := by intro h; rw [h] at hb; simp at hb
  obtain ⟨t, ht, aps, hd, _, hs⟩ := reread_open_tagOn p input hp k hk htt hne
  exact ⟨t, ht, hd, C03_sanitizeAttrs_rewriter p.ensureInit hreq f hf k.data t.attrs aps k.attrs hs b hb⟩

end BM.Props
