import BM.Props.C06
/-
  C06, per input and for every combination of the two options that touch text: comments allowed or not,
  AddSpaceWhenStrippingTag set or not.  The hypothesis is on the run (`PlainOn`: no AllowUnsafe, and no
  raw-text tag *of this input* names an allowed element), not on the policy; the conclusions are those of
  `C06_bytes` / `C06_bytes_spaces`.  And `oracleC06` — which is what every generated case is held to — is
  proved to hold of the model's output in that class (`oracleC06_model`).
-/
namespace BM.Props
open BM BM.Html BM.Spec

theorem quiet_step_toksOn {p : Policy} (hu : p.allowUnsafe = false) (hs : p.addSpaces = false) {st : LoopState} {t : Token}
    (hraw : isRawTagName t.data = true → allowsElement p t.data = false)
    (hwf : TokWF t) (hq : Quiet st) {st' : LoopState} {ws : List Write} (h : p.step st t = some (st', ws)) :
    ∃ toks : List Token, ws.map (·.data) = toks.map Token.render ∧ (∀ k ∈ toks, SegOKC k) ∧
      textOf toks = textOf [t] := by
  by_cases htt : t.tt = .text
  · have := text_written_once p st t htt hq.1 hq.2
    rw [this] at h
    simp only [Option.some.injEq, Prod.mk.injEq] at h
    obtain ⟨_, rfl⟩ := h
    refine ⟨[⟨.text, t.data, []⟩], by simp [Token.render], by intro k hk; simp at hk; subst hk; exact .inl (by simp [SegOK]), ?_⟩
    rw [textOf_cons, textOf_cons, htt]
  · obtain ⟨toks, hr, hf⟩ := emit_toksOn hu hraw hwf (step_emit p st t st' ws h)
    refine ⟨toks, hr, fun k hk => (hf k hk).1, ?_⟩
    have hnt : ∀ k ∈ toks, (k.tt == TT.text) = false := by
      intro k hk
      obtain ⟨_, hor⟩ := hf k hk
      rcases hor with ⟨_, (⟨_, (⟨_, hsp⟩ | ⟨ht, _⟩)⟩ | ⟨hkt, _⟩)⟩ | ⟨hkc, _⟩
      · rw [hs] at hsp; cases hsp
      · exact absurd ht htt
      · rw [hkt]; revert htt; cases t.tt <;> intro htt <;> first | rfl | exact absurd rfl htt
      · rw [hkc]; rfl
    have h1 : textOf toks = [] := by
      unfold textOf
      rw [List.filter_eq_nil_iff.mpr (fun k hk => by simp [hnt k hk])]
      rfl
    have h2 : textOf [t] = [] := by
      have : (t.tt == TT.text) = false := by
        revert htt; cases t.tt <;> intro htt <;> first | rfl | exact absurd rfl htt
      rw [textOf_cons, this]; rfl
    rw [h1, h2]

theorem run_textOn {p : Policy} (hu : p.allowUnsafe = false) (hs : p.addSpaces = false) (ts : List Token)
    (hraw : ∀ t ∈ ts, isRawTagName t.data = true → allowsElement p t.data = false)
    (hwf : ∀ t ∈ ts, TokWF t) (hc : ∀ t ∈ ts, CalmTok p t) :
    ∀ st, Quiet st → StackInv st → ∃ toks : List Token,
      (p.run st ts).1.map (·.data) = toks.map Token.render ∧ (∀ k ∈ toks, SegOKC k) ∧
      textOf toks = textOf ts := by
  induction ts with
  | nil => intro st _ _; exact ⟨[], by simp [Policy.run], by simp, rfl⟩
  | cons t ts ih =>
    intro st hq hi
    obtain ⟨st', ws, hstep, hi'⟩ := step_safe p st t (tokWF_nameOK (hwf t (by simp))) hi
    have hq' := step_quiet p st t st' ws hstep hq (hc t (by simp))
    obtain ⟨k1, hr1, hs1, ht1⟩ := quiet_step_toksOn hu hs (hraw t (by simp)) (hwf t (by simp)) hq hstep
    obtain ⟨k2, hr2, hs2, ht2⟩ := ih (fun x hx => hraw x (by simp [hx])) (fun x hx => hwf x (by simp [hx]))
      (fun x hx => hc x (by simp [hx])) st' hq' hi'
    refine ⟨k1 ++ k2, ?_, ?_, ?_⟩
    · unfold Policy.run; simp only [hstep]; simp [hr1, hr2]
    · intro k hk; simp only [List.mem_append] at hk
      rcases hk with h | h
      · exact hs1 k h
      · exact hs2 k h
    · rw [textOf_append, ht1, ht2]
      have : t :: ts = [t] ++ ts := rfl
      rw [this, textOf_append]

/-- (per-input form)  **C06 (byte level), comments allowed or not**: for every policy and every input such
    that no AllowUnsafe is set, no raw-text tag of the input names an allowed element and no tag of the input
    is script/style or in the skip-content set, the text an HTML tokenizer reads from the output equals the
    text it reads from the input -/
theorem C06_bytes_on (p : Policy) (input : Bytes) (hp : PlainOn p.ensureInit (tokenize input))
    (hs : p.ensureInit.addSpaces = false) (hc : ∀ t ∈ tokenize input, CalmTok p.ensureInit t) :
    textOf (tokenize (p.sanitizeCore input)) = textOf (tokenize input) := by
  obtain ⟨toks, hr, hseg, htext⟩ :=
    run_textOn hp.noUnsafe hs (tokenize input) hp.noRaw (tokenize_wf input) hc {} ⟨rfl, rfl⟩ stackInv_init
  have hb : p.sanitizeCore input = renderAll toks := by
    unfold Policy.sanitizeCore Policy.sanitizeTokens
    rw [hr, flatten_map_render]
  rw [hb, tokenize_renderAllC toks hseg, textOf_coalesce, textOf_map_reread]
  simpa using htext

/-! ### the added-space clause, comments allowed or not -/

theorem quiet_tag_step_spOn {p : Policy} (hu : p.allowUnsafe = false) (hs : p.addSpaces = true) {st : LoopState} {t : Token}
    (hraw : isRawTagName t.data = true → allowsElement p t.data = false)
    (hwf : TokWF t) (hq : Quiet st) (hc : CalmTok p t) (htag : isTag t = true)
    {st' : LoopState} {ws : List Write} (h : p.step st t = some (st', ws)) :
    ∃ k : Token, ws.map (·.data) = [k.render] ∧ SegOKC k ∧ ((k.tt = .text ∧ k.data = [32]) ∨ isTag k = true) := by
  obtain ⟨toks, hr, hf⟩ := emit_toksOn hu hraw hwf (step_emit p st t st' ws h)
  obtain ⟨hss, _⟩ := hc htag
  have hsp : p.space = [⟨[32]⟩] := by simp [Policy.space, hs]
  have hone : ∃ w, ws = [w] := by
    unfold Policy.step at h
    unfold isTag at htag
    split at h
    · rename_i htt; rw [htt] at htag; exact absurd htag (by decide)
    · rename_i htt; rw [htt] at htag; exact absurd htag (by decide)
    · unfold Policy.stepStart at h
      simp only [hss, Bool.false_and, Bool.false_eq_true, ↓reduceIte] at h
      repeat' split at h
      all_goals (simp at h)
      all_goals (obtain ⟨_, rfl⟩ := h)
      · exact ⟨_, hsp⟩
      · exact ⟨_, hsp⟩
      · unfold emitUnlessSkipping
        have : (markKept { st with mostRecentlyStartedToken := t.data } t.data).skipElementContent = false := by
          unfold markKept; split <;> exact hq.1
        simp [this]
    · unfold Policy.stepEnd at h
      have hcr : (clearRecent st t.data).skipElementContent = false := by
        unfold clearRecent; split <;> exact hq.1
      generalize clearRecent st t.data = st1 at h hcr
      simp only [hss, Bool.false_and, Bool.false_eq_true, ↓reduceIte] at h
      repeat' split at h
      all_goals (simp at h)
      all_goals (obtain ⟨_, rfl⟩ := h)
      · exact ⟨_, hsp⟩
      · exact ⟨_, hsp⟩
      · unfold emitUnlessSkipping
        have : (p.leaveSkip (popMarker st1 t.data) t.data).skipElementContent = false := by
          have h1 : (popMarker st1 t.data).skipElementContent = false := by
            unfold popMarker; split <;> exact hcr
          unfold Policy.leaveSkip; split
          · simp only; split
            · rfl
            · exact h1
          · exact h1
        simp [this]
    · unfold Policy.stepSelfClosing at h
      simp only [hss, Bool.false_and, Bool.false_eq_true, ↓reduceIte] at h
      repeat' split at h
      all_goals (simp at h)
      all_goals (obtain ⟨_, rfl⟩ := h)
      · exact ⟨_, hsp⟩
      · exact ⟨_, hsp⟩
      · unfold emitUnlessSkipping; simp [hq.1]
    · rename_i htt; rw [htt] at htag; exact absurd htag (by decide)
  obtain ⟨w, rfl⟩ := hone
  cases toks with
  | nil => simp at hr
  | cons k rest =>
    cases rest with
    | cons _ _ => simp at hr
    | nil =>
      refine ⟨k, by simpa using hr, (hf k (by simp)).1, ?_⟩
      obtain ⟨_, hor⟩ := hf k (by simp)
      rcases hor with ⟨_, (⟨hkt, (⟨hd, _⟩ | ⟨ht, _⟩)⟩ | ⟨hkt, _⟩)⟩ | ⟨_, htc, _⟩
      · exact .inl ⟨hkt, hd⟩
      · unfold isTag at htag
        rw [ht] at htag; exact absurd htag (by decide)
      · right
        unfold isTag at htag ⊢
        rw [hkt]; exact htag
      · unfold isTag at htag
        rw [htc] at htag; exact absurd htag (by decide)

theorem tagCount_map_reread (ts : List Token) : tagCount (ts.map reread) = tagCount ts := by
  induction ts with
  | nil => rfl
  | cons t ts ih =>
    rw [List.map_cons, tagCount_cons, tagCount_cons, ih]
    have : isTag (reread t) = isTag t := by unfold isTag; rw [reread_tt]
    rw [this]

theorem run_text_spOn {p : Policy} (hu : p.allowUnsafe = false) (hs : p.addSpaces = true) (ts : List Token)
    (hraw : ∀ t ∈ ts, isRawTagName t.data = true → allowsElement p t.data = false)
    (hwf : ∀ t ∈ ts, TokWF t) (hc : ∀ t ∈ ts, CalmTok p t) :
    ∀ st, Quiet st → StackInv st → ∃ toks : List Token,
      (p.run st ts).1.map (·.data) = toks.map Token.render ∧ (∀ k ∈ toks, SegOKC k) ∧
      (textOf toks).length + tagCount toks = (textOf ts).length + tagCount ts ∧
      noSpaces (textOf toks) = noSpaces (textOf ts) := by
  induction ts with
  | nil => intro st _ _; exact ⟨[], by simp [Policy.run], by simp, rfl, rfl⟩
  | cons t ts ih =>
    intro st hq hi
    obtain ⟨st', ws, hstep, hi'⟩ := step_safe p st t (tokWF_nameOK (hwf t (by simp))) hi
    have hq' := step_quiet p st t st' ws hstep hq (hc t (by simp))
    obtain ⟨k2, hr2, hs2, hm2, hn2⟩ :=
      ih (fun x hx => hraw x (by simp [hx])) (fun x hx => hwf x (by simp [hx])) (fun x hx => hc x (by simp [hx])) st' hq' hi'
    have hthis : ∃ k1 : List Token, ws.map (·.data) = k1.map Token.render ∧ (∀ k ∈ k1, SegOKC k) ∧
        (textOf k1).length + tagCount k1 = (textOf [t]).length + tagCount [t] ∧
        noSpaces (textOf k1) = noSpaces (textOf [t]) := by
      by_cases htt : t.tt = .text
      · have := text_written_once p st t htt hq.1 hq.2
        rw [this] at hstep
        simp only [Option.some.injEq, Prod.mk.injEq] at hstep
        obtain ⟨_, rfl⟩ := hstep
        refine ⟨[⟨.text, t.data, []⟩], by simp [Token.render],
          by intro k hk; simp at hk; subst hk; exact .inl (by simp [SegOK]), ?_, ?_⟩
        · rw [textOf_cons, textOf_cons, tagCount_cons, tagCount_cons, htt]; simp [isTag, htt, textOf, tagCount, tt_beq]
        · rw [textOf_cons, textOf_cons, htt]
      · by_cases htag : isTag t = true
        · obtain ⟨k, hr, hseg, hor⟩ :=
            quiet_tag_step_spOn hu hs (hraw t (by simp)) (hwf t (by simp)) hq (hc t (by simp)) htag hstep
          have htne : (t.tt == TT.text) = false := by
            revert htt; cases t.tt <;> intro htt <;> first | rfl | exact absurd rfl htt
          refine ⟨[k], by simpa using hr, by intro x hx; simp at hx; subst hx; exact hseg, ?_, ?_⟩
          · rw [textOf_cons, textOf_cons, tagCount_cons, tagCount_cons, htne, htag]
            rcases hor with ⟨hkt, hkd⟩ | hk
            · have : isTag k = false := by unfold isTag; rw [hkt]; rfl
              simp [hkt, hkd, this, textOf, tagCount, tt_beq]
            · have hkne : (k.tt == TT.text) = false := by
                unfold isTag at hk; revert hk; cases k.tt <;> intro hk <;> first | rfl | exact absurd hk (by decide)
              simp [hkne, hk, textOf, tagCount]
          · rw [textOf_cons, textOf_cons, htne]
            rcases hor with ⟨hkt, hkd⟩ | hk
            · simp [hkt, hkd, textOf, noSpaces, tt_beq]
            · have hkne : (k.tt == TT.text) = false := by
                unfold isTag at hk; revert hk; cases k.tt <;> intro hk <;> first | rfl | exact absurd hk (by decide)
              simp [hkne, textOf]
        · -- a comment or doctype: nothing, or the comment itself when comments are allowed
          have hcd : t.tt = .comment ∨ t.tt = .doctype := by
            unfold isTag at htag
            revert htt htag; cases t.tt <;> intro htt htag
            · exact absurd rfl htt
            · exact absurd (by decide) htag
            · exact absurd (by decide) htag
            · exact absurd (by decide) htag
            · exact .inl rfl
            · exact .inr rfl
          have htne : (t.tt == TT.text) = false := by
            rcases hcd with h | h <;> rw [h] <;> rfl
          have htagf : isTag t = false := by simpa using htag
          have hws : ws = [] ∨ (ws = [⟨t.render⟩] ∧ t.tt = .comment) := by
            unfold Policy.step at hstep
            rcases hcd with h | h
            · simp only [h, Option.some.injEq, Prod.mk.injEq] at hstep
              by_cases hac : p.allowComments = true
              · simp only [hac, ↓reduceIte] at hstep; exact .inr ⟨hstep.2.symm, h⟩
              · simp only [hac, Bool.false_eq_true, ↓reduceIte] at hstep; exact .inl hstep.2.symm
            · simp only [h, Option.some.injEq, Prod.mk.injEq] at hstep
              exact .inl hstep.2.symm
          rcases hws with hws | ⟨hws, htc⟩
          · subst hws
            refine ⟨[], rfl, by simp, ?_, ?_⟩
            · rw [textOf_cons, tagCount_cons, htne, htagf]; simp [textOf, tagCount]
            · rw [textOf_cons, htne]; simp [textOf]
          · subst hws
            exact ⟨[t], by simp, by intro k hk; simp at hk; subst hk; exact .inr htc, rfl, rfl⟩
    obtain ⟨k1, hr1, hs1, hm1, hn1⟩ := hthis
    refine ⟨k1 ++ k2, ?_, ?_, ?_, ?_⟩
    · unfold Policy.run; simp only [hstep]; simp [hr1, hr2]
    · intro k hk; simp only [List.mem_append] at hk
      rcases hk with h | h
      · exact hs1 k h
      · exact hs2 k h
    · have e : t :: ts = [t] ++ ts := rfl
      rw [e, textOf_append, textOf_append, tagCount_append, tagCount_append, List.length_append, List.length_append]
      omega
    · have e : t :: ts = [t] ++ ts := rfl
      rw [e, textOf_append, textOf_append, noSpaces_append, noSpaces_append, hn1, hn2]

/-- (per-input form)  **C06, the added-space clause (byte level), comments allowed or not**: the text re-read
    from the output is the input's text plus exactly one space per removed tag -/
theorem C06_bytes_spaces_on (p : Policy) (input : Bytes) (hp : PlainOn p.ensureInit (tokenize input))
    (hs : p.ensureInit.addSpaces = true) (hc : ∀ t ∈ tokenize input, CalmTok p.ensureInit t) :
    let to := tokenize (p.sanitizeCore input)
    let ti := tokenize input
    noSpaces (textOf to) = noSpaces (textOf ti) ∧
    (textOf to).length + tagCount to = (textOf ti).length + tagCount ti := by
  obtain ⟨toks, hr, hseg, hm, hn⟩ :=
    run_text_spOn hp.noUnsafe hs (tokenize input) hp.noRaw (tokenize_wf input) hc {} ⟨rfl, rfl⟩ stackInv_init
  have hb : p.sanitizeCore input = renderAll toks := by
    unfold Policy.sanitizeCore Policy.sanitizeTokens
    rw [hr, flatten_map_render]
  simp only
  rw [hb, tokenize_renderAllC toks hseg, textOf_coalesce, tagCount_coalesce, textOf_map_reread, tagCount_map_reread]
  simp only [List.nil_append]
  exact ⟨hn, hm⟩

/-! ### the oracle on the model -/

theorem calm_of_inClass (p : Policy) (input : Bytes) (h : inClassC06 p input = true) :
    ∀ t ∈ tokenize input, CalmTok p t := by
  unfold inClassC06 at h
  simp only [Bool.and_eq_true, List.all_eq_true] at h
  intro t ht htag
  have := h.2 t ht
  rw [htag] at this
  simp only [Bool.not_true, Bool.false_or, Bool.not_eq_true', Bool.or_eq_false_iff] at this
  exact ⟨this.1, this.2⟩

/-- `oracleC06` holds of the model's output, for every policy and input with no AllowUnsafe and no allowed
    raw-text tag in the input — with or without comments, with or without added spaces -/
theorem oracleC06_model (p : Policy) (input : Bytes) (hp : PlainOn p.ensureInit (tokenize input)) :
    oracleC06 p.ensureInit input (p.sanitizeCore input) = true := by
  unfold oracleC06
  cases hin : inClassC06 p.ensureInit input with
  | false => rfl
  | true =>
    have hc := calm_of_inClass p.ensureInit input hin
    cases hs : p.ensureInit.addSpaces with
    | false =>
      simp only [Bool.not_true, Bool.false_or, Bool.false_eq_true, ↓reduceIte, beq_iff_eq]
      exact C06_bytes_on p input hp hs hc
    | true =>
      obtain ⟨h1, h2⟩ := C06_bytes_spaces_on p input hp hs hc
      simp only [Bool.not_true, Bool.false_or, ↓reduceIte, Bool.and_eq_true, beq_iff_eq]
      exact ⟨h1, h2⟩

/-- the class is inhabited by a case with a comment, a kept tag, a dropped tag and added spaces -/
example :
    let p : Policy := { initialized := true, elsAndAttrs := [(b!"b", [])], setOfElementsAllowedWithoutAttrs := [b!"b"],
                        allowComments := true, addSpaces := true }
    inClassC06 p.ensureInit b!"a<!--c--><i>x</i> <b>d</b>" = true ∧
    p.sanitizeCore b!"a<!--c--><i>x</i> <b>d</b>" = b!"a<!--c--> x  <b>d</b>" := by decide

end BM.Props
