import BM.Sanitize
import BM.Props.Pins
import BM.Proofs.Prov
import BM.Proofs.ProvC
/-
  C12: forced attributes.  Proved for every policy, element and attribute list:
  * with RequireCrossOriginAnonymous, what `sanitizeAttrs` returns for audio / img / link /
    script / video, if non-empty, has at least one `crossorigin` and every `crossorigin`
    equals `anonymous`;
  * with RequireSandboxOnIFrame, what it returns for iframe has at least one `sandbox`, and
    every sandbox value is a space-joined, duplicate-free sub-list of the configured values
    in input order; an added one is empty.
  (A non-empty list is what "emitted with attributes" means: the loop writes the tag with
  exactly this list.)
-/
namespace BM.Props
open BM BM.Html

theorem setVal_key (k : Bytes) (v : Attr → Bytes) (a : Attr) : (setVal k v a).key = a.key := by
  unfold setVal; split <;> rfl

theorem setVal_val (k : Bytes) (v : Attr → Bytes) (a : Attr) (h : (setVal k v a).key = k) :
    (setVal k v a).val = v a := by
  have hk : a.key = k := by rw [setVal_key] at h; exact h
  unfold setVal; simp [hk]

theorem setVal_other (k : Bytes) (v : Attr → Bytes) (a : Attr) (h : a.key ≠ k) : setVal k v a = a := by
  unfold setVal; simp [h]

theorem forceCrossOrigin_spec (p : Policy) (el : Bytes) (clean : List Attr)
    (ho : p.requireCrossOriginAnonymous = true) (hel : isCrossOriginElement el = true) (hne : clean ≠ []) :
    (∃ a ∈ p.forceCrossOrigin el clean, a.key = b!"crossorigin") ∧
    (∀ a ∈ p.forceCrossOrigin el clean, a.key = b!"crossorigin" → a.val = b!"anonymous") := by
  have hlen : clean.length > 0 := List.length_pos_iff.mpr hne
  unfold Policy.forceCrossOrigin
  simp only [ho, hel, hlen, decide_true, Bool.and_self, ↓reduceIte]
  split
  · rename_i hany
    obtain ⟨x, hx, hk⟩ := List.any_eq_true.mp hany
    simp only [beq_iff_eq] at hk
    constructor
    · exact ⟨setVal _ _ x, List.mem_map.mpr ⟨x, hx, rfl⟩, by rw [setVal_key]; exact hk⟩
    · intro a ha hak
      obtain ⟨y, _, rfl⟩ := List.mem_map.mp ha
      exact setVal_val _ _ y hak
  · rename_i hnone
    constructor
    · exact ⟨⟨b!"crossorigin", b!"anonymous"⟩, by simp, rfl⟩
    · intro a ha hak
      simp only [List.mem_append, List.mem_singleton] at ha
      rcases ha with ha | rfl
      · exfalso
        apply hnone
        exact List.any_eq_true.mpr ⟨a, ha, by simp [hak]⟩
      · rfl

/-- `dedupKeep` keeps only allowed values, without duplicates, in input order -/
theorem dedupKeep_spec (allowed : List Bytes) (vs acc : List Bytes)
    (hacc : acc.Nodup ∧ ∀ v ∈ acc, v ∈ allowed) :
    (dedupKeep allowed vs acc).Nodup ∧ ∀ v ∈ dedupKeep allowed vs acc, v ∈ allowed := by
  induction vs generalizing acc with
  | nil =>
    simp only [dedupKeep]
    exact ⟨hacc.1.perm (List.reverse_perm acc).symm, fun v hv => hacc.2 v (List.mem_reverse.mp hv)⟩
  | cons v vs ih =>
    unfold dedupKeep
    split
    · rename_i hk
      simp only [Bool.and_eq_true, List.contains_eq_mem, decide_eq_true_eq, Bool.not_eq_true',
        decide_eq_false_iff_not] at hk
      apply ih
      refine ⟨List.nodup_cons.mpr ⟨hk.2, hacc.1⟩, ?_⟩
      intro x hx
      simp only [List.mem_cons] at hx
      rcases hx with rfl | hx
      · exact hk.1
      · exact hacc.2 x hx
    · exact ih acc hacc

theorem forceSandbox_spec (p : Policy) (allowed : List Bytes) (clean : List Attr)
    (ho : p.requireSandboxOnIFrame = some allowed) :
    (∃ a ∈ p.forceSandbox b!"iframe" clean, a.key = b!"sandbox") ∧
    (∀ a ∈ p.forceSandbox b!"iframe" clean, a.key = b!"sandbox" →
      ∃ toks : List Bytes, a.val = joinBytes [32] toks ∧ toks.Nodup ∧ ∀ v ∈ toks, v ∈ allowed) := by
  unfold Policy.forceSandbox
  simp only [ho, beq_self_eq_true, ↓reduceIte]
  split
  · rename_i hany
    obtain ⟨x, hx, hk⟩ := List.any_eq_true.mp hany
    simp only [beq_iff_eq] at hk
    constructor
    · exact ⟨setVal _ _ x, List.mem_map.mpr ⟨x, hx, rfl⟩, by rw [setVal_key]; exact hk⟩
    · intro a ha hak
      obtain ⟨y, _, rfl⟩ := List.mem_map.mp ha
      have := dedupKeep_spec allowed (fields y.val) [] ⟨List.nodup_nil, by simp⟩
      exact ⟨_, setVal_val _ _ y hak, this.1, this.2⟩
  · rename_i hnone
    constructor
    · exact ⟨⟨b!"sandbox", []⟩, by simp, rfl⟩
    · intro a ha hak
      simp only [List.mem_append, List.mem_singleton] at ha
      rcases ha with ha | rfl
      · exfalso
        apply hnone
        exact List.any_eq_true.mpr ⟨a, ha, by simp [hak]⟩
      · exact ⟨[], by simp [joinBytes], List.nodup_nil, by simp⟩

theorem filter_map_setVal (k k' : Bytes) (v : Attr → Bytes) (l : List Attr) (h : k' ≠ k) :
    (l.map (setVal k v)).filter (·.key == k') = l.filter (·.key == k') := by
  induction l with
  | nil => rfl
  | cons a as ih =>
    simp only [List.map_cons, List.filter_cons, setVal_key]
    by_cases ha : a.key = k'
    · have : a.key ≠ k := fun e => h (ha ▸ e)
      simp [ha, setVal_other k v a this, ih]
    · simp [ha, ih]

/-- the sandbox block does not touch attributes with other names -/
theorem forceSandbox_other_keys (p : Policy) (el : Bytes) (clean : List Attr) (k : Bytes) (hk : k ≠ b!"sandbox") :
    ((p.forceSandbox el clean).filter (·.key == k)) = clean.filter (·.key == k) := by
  unfold Policy.forceSandbox
  split
  · split
    · split
      · exact filter_map_setVal _ _ _ _ hk
      · simp [List.filter_append, Ne.symm hk]
    · rfl
  · rfl

/-- **C12** on what `sanitizeAttrs` returns -/
theorem C12_sanitizeAttrs (p : Policy) (el : Bytes) (attrs : List Attr) (aps : AttrRules) (out : List Attr)
    (h : p.sanitizeAttrs el attrs aps = some out) (hne : out ≠ []) :
    (p.requireCrossOriginAnonymous = true → isCrossOriginElement el = true →
      (∃ a ∈ out, a.key = b!"crossorigin") ∧ ∀ a ∈ out, a.key = b!"crossorigin" → a.val = b!"anonymous") ∧
    (∀ allowed, p.requireSandboxOnIFrame = some allowed → el = b!"iframe" →
      (∃ a ∈ out, a.key = b!"sandbox") ∧
      ∀ a ∈ out, a.key = b!"sandbox" →
        ∃ toks : List Bytes, a.val = joinBytes [32] toks ∧ toks.Nodup ∧ ∀ v ∈ toks, v ∈ allowed) := by
  unfold Policy.sanitizeAttrs at h
  split at h
  · rename_i he
    simp only [Option.some.injEq] at h; subst h
    exact absurd (List.isEmpty_iff.mp he) hne
  · simp only at h
    split at h
    · rename_i he
      simp only [Option.some.injEq] at h; subst h
      exact absurd (List.isEmpty_iff.mp he) hne
    · simp only [Option.map_eq_some_iff] at h
      obtain ⟨mid, _, rfl⟩ := h
      constructor
      · intro ho hel
        by_cases hmid : mid = []
        · -- the crossorigin block does not fire on an empty list; the result can then only be
          -- non-empty through the sandbox block, i.e. for iframe, which is not a crossorigin element
          subst hmid
          exfalso
          have hif : (el == b!"iframe") = false := by
            cases h : el == b!"iframe" with
            | false => rfl
            | true => simp only [beq_iff_eq] at h; subst h; simp [isCrossOriginElement] at hel
          apply hne
          simp only [Policy.forceCrossOrigin, List.length_nil, gt_iff_lt, Nat.lt_irrefl, decide_false,
            Bool.and_false, Bool.false_and, Bool.false_eq_true, ↓reduceIte, Policy.forceSandbox, hif]
          split <;> rfl
        · have hco := forceCrossOrigin_spec p el mid ho hel hmid
          have hf := forceSandbox_other_keys p el (p.forceCrossOrigin el mid) b!"crossorigin" (by decide)
          constructor
          · obtain ⟨a, ha, hk⟩ := hco.1
            have : a ∈ (p.forceCrossOrigin el mid).filter (·.key == b!"crossorigin") := by
              simp [List.mem_filter, ha, hk]
            rw [← hf] at this
            exact ⟨a, (List.mem_filter.mp this).1, hk⟩
          · intro a ha hk
            have : a ∈ (p.forceSandbox el (p.forceCrossOrigin el mid)).filter (·.key == b!"crossorigin") := by
              simp [List.mem_filter, ha, hk]
            rw [hf] at this
            exact hco.2 a (List.mem_filter.mp this).1 hk
      · intro allowed ho hel
        subst hel
        exact forceSandbox_spec p allowed _ ho

/-- **C12 (byte level, plain policies)**: every start or self-closing tag with attributes that an
    HTML tokenizer reads from the returned bytes satisfies the forced-attribute postconditions —
    audio/img/link/script/video carry `crossorigin="anonymous"` and no other crossorigin value;
    iframe carries a sandbox attribute whose tokens are a duplicate-free subset of the allowed values. -/
theorem C12_bytes (p : Policy) (hp : PlainC p.ensureInit) (input : Bytes) :
    ∀ k ∈ Html.tokenize (p.sanitizeCore input), (k.tt = .start ∨ k.tt = .selfClosing) → k.attrs ≠ [] →
      (p.ensureInit.requireCrossOriginAnonymous = true → isCrossOriginElement k.data = true →
        (∃ a ∈ k.attrs, a.key = b!"crossorigin") ∧ ∀ a ∈ k.attrs, a.key = b!"crossorigin" → a.val = b!"anonymous") ∧
      (∀ allowed, p.ensureInit.requireSandboxOnIFrame = some allowed → k.data = b!"iframe" →
        (∃ a ∈ k.attrs, a.key = b!"sandbox") ∧
        ∀ a ∈ k.attrs, a.key = b!"sandbox" →
          ∃ toks : List Bytes, a.val = joinBytes [32] toks ∧ toks.Nodup ∧ ∀ v ∈ toks, v ∈ allowed) := by
  intro k hk htt hne
  obtain ⟨t, _, aps, _, _, hs⟩ := reread_open_tagC p hp input k hk htt hne
  exact C12_sanitizeAttrs p.ensureInit k.data t.attrs aps k.attrs hs hne

/-- (per-input form)  **C12 (byte level, plain policies)**: every start or self-closing tag with attributes that an
    HTML tokenizer reads from the returned bytes satisfies the forced-attribute postconditions —
    audio/img/link/script/video carry `crossorigin="anonymous"` and no other crossorigin value;
    iframe carries a sandbox attribute whose tokens are a duplicate-free subset of the allowed values. -/
theorem C12_bytes_on (p : Policy) (input : Bytes) (hp : PlainOn p.ensureInit (tokenize input)) :
    ∀ k ∈ Html.tokenize (p.sanitizeCore input), (k.tt = .start ∨ k.tt = .selfClosing) → k.attrs ≠ [] →
      (p.ensureInit.requireCrossOriginAnonymous = true → isCrossOriginElement k.data = true →
        (∃ a ∈ k.attrs, a.key = b!"crossorigin") ∧ ∀ a ∈ k.attrs, a.key = b!"crossorigin" → a.val = b!"anonymous") ∧
      (∀ allowed, p.ensureInit.requireSandboxOnIFrame = some allowed → k.data = b!"iframe" →
        (∃ a ∈ k.attrs, a.key = b!"sandbox") ∧
        ∀ a ∈ k.attrs, a.key = b!"sandbox" →
          ∃ toks : List Bytes, a.val = joinBytes [32] toks ∧ toks.Nodup ∧ ∀ v ∈ toks, v ∈ allowed) := by
  intro k hk htt hne
  obtain ⟨t, _, aps, _, _, hs⟩ := reread_open_tagOn p input hp k hk htt hne
  exact C12_sanitizeAttrs p.ensureInit k.data t.attrs aps k.attrs hs hne

/-- non-vacuity -/
example :
    let p : Policy := { initialized := true, elsAndAttrs := [(b!"img", [(b!"src", [none]), (b!"crossorigin", [none])])],
                        requireCrossOriginAnonymous := true }
    p.sanitizeCore b!"<img src=x crossorigin=use-credentials crossorigin>" =
      b!"<img src=\"x\" crossorigin=\"anonymous\" crossorigin=\"anonymous\">" := by decide

end BM.Props
