import BM.Policy
import BM.Sanitize
import BM.Spec.Oracles
import BM.Proofs.Rules
import BM.Proofs.Switches
import BM.Proofs.Tables2
import BM.Props.BuilderPins
/-
  C17: a policy is its rule set.  Proved on the builder model `applyOp`:
  * every switch-like option reflects its most recent setting (including the documented
    side effect on URL parsing);
  * rule-adding calls only grow what the policy allows (`allowsElement` is monotone);
  * `AllowElements` calls commute and are idempotent, names are case-insensitive (ASCII);
  * **the rule tables are sets of contributions** (`C17_rule_tables`, from Proofs/Rules): after any
    history of builder calls on an initialised policy, the element table, the element-scoped and
    global attribute rules and the element-scoped and global style rules hold what they held
    plus what each call contributes; hence the tables are the same for every permutation of the
    history (`C17_order_independent`), only grow (`C17_accumulate`), and do not depend on the
    spelling of names beyond `strings.ToLower` (`C17_case_independent`); the first pass of
    `sanitizeAttrs` accepts an attribute on element rules iff some contributed rule accepts it
    (`C17_accept_iff_contribution`);
  * **the switch-like options are a state machine of their own** (`C17_switches_refinement`, from
    Proofs/Switches): for every history the fourteen switches of the built policy are the start
    switches run through `BuilderOp.setSwitches` — no table feeds back into them — and each holds
    the value of the most recent call that set it (`C17_last_setting_wins`); whether the content
    of an element is skipped is decided by the most recent Skip/AllowElementsContent call naming
    it (`C17_skip_last_wins`); the registration of a URL scheme is the start registration run
    through `setsScheme`, and a plain `AllowURLSchemes` naming the scheme forgets everything
    registered for it before (`C17_scheme_refinement`, `C17_scheme_plain_forgets`);
  * policies are values: `applyOp` returns a new policy and cannot affect another one
    (trivial in the model; tied to the code by the interleaved-construction histories of
    the correspondence run).
-/
namespace BM.Props
open BM

variable (d : Bytes → Bytes → Bool)

theorem last_wins_addSpaces (p : Policy) (a b : Bool) :
    applyOp d (applyOp d p (.addSpaceWhenStrippingTag a)) (.addSpaceWhenStrippingTag b) =
    applyOp d p (.addSpaceWhenStrippingTag b) := rfl

theorem last_wins_noFollow (p : Policy) (a b : Bool) :
    applyOp d (applyOp d p (.requireNoFollowOnLinks a)) (.requireNoFollowOnLinks b) =
    applyOp d p (.requireNoFollowOnLinks b) := rfl

theorem last_wins_noReferrer (p : Policy) (a b : Bool) :
    applyOp d (applyOp d p (.requireNoReferrerOnLinks a)) (.requireNoReferrerOnLinks b) =
    applyOp d p (.requireNoReferrerOnLinks b) := rfl

theorem last_wins_targetBlank (p : Policy) (a b : Bool) :
    applyOp d (applyOp d p (.addTargetBlankToFullyQualifiedLinks a)) (.addTargetBlankToFullyQualifiedLinks b) =
    applyOp d p (.addTargetBlankToFullyQualifiedLinks b) := rfl

theorem last_wins_crossOrigin (p : Policy) (a b : Bool) :
    applyOp d (applyOp d p (.requireCrossOriginAnonymous a)) (.requireCrossOriginAnonymous b) =
    applyOp d p (.requireCrossOriginAnonymous b) := rfl

theorem last_wins_parseable (p : Policy) (a b : Bool) :
    applyOp d (applyOp d p (.requireParseableURLs a)) (.requireParseableURLs b) =
    applyOp d p (.requireParseableURLs b) := rfl

theorem last_wins_relative (p : Policy) (a b : Bool) :
    applyOp d (applyOp d p (.allowRelativeURLs a)) (.allowRelativeURLs b) =
    applyOp d p (.allowRelativeURLs b) := rfl

theorem ensureInit_idem (p : Policy) : p.ensureInit.ensureInit = p.ensureInit := by
  unfold Policy.ensureInit; split <;> simp_all

theorem last_wins_unsafe (p : Policy) (a b : Bool) :
    applyOp d (applyOp d p (.allowUnsafe a)) (.allowUnsafe b) = applyOp d p (.allowUnsafe b) := by
  simp only [applyOp, BuilderOp.callsInit, ↓reduceIte, applyOpInit]
  cases hi : p.initialized <;> simp [Policy.ensureInit, hi]

theorem last_wins_sandbox (p : Policy) (a b : List Bytes) :
    applyOp d (applyOp d p (.requireSandboxOnIFrame a)) (.requireSandboxOnIFrame b) =
    applyOp d p (.requireSandboxOnIFrame b) := rfl

/-- the documented side effect: every link option switches URL parsing on, whatever its value -/
theorem link_option_enables_url_parsing (p : Policy) (b : Bool) :
    (applyOp d p (.requireNoFollowOnLinks b)).requireParseableURLs = true ∧
    (applyOp d p (.requireNoReferrerOnLinks b)).requireParseableURLs = true ∧
    (applyOp d p (.addTargetBlankToFullyQualifiedLinks b)).requireParseableURLs = true ∧
    (applyOp d p (.allowRelativeURLs b)).requireParseableURLs = true := ⟨rfl, rfl, rfl, rfl⟩

/-- switches on independent fields commute -/
theorem switches_commute (p : Policy) (a b : Bool) :
    applyOp d (applyOp d p (.addSpaceWhenStrippingTag a)) (.requireCrossOriginAnonymous b) =
    applyOp d (applyOp d p (.requireCrossOriginAnonymous b)) (.addSpaceWhenStrippingTag a) := rfl

theorem map_update_contains {ν} (m : Map Bytes ν) (k k' : Bytes) (dflt : ν) (f : ν → ν)
    (h : m.contains k' = true) : (m.update k dflt f).contains k' = true := by
  unfold Map.update
  generalize f ((m.get? k).getD dflt) = v
  induction m with
  | nil => simp [Map.contains, Map.get?] at h
  | cons e rest ih =>
    obtain ⟨k0, v0⟩ := e
    unfold Map.set
    split
    · rename_i hk
      simp only [Map.contains, Map.get?] at h ⊢
      simp only [beq_iff_eq] at hk
      subst hk
      by_cases hkk : k0 = k'
      · simp [hkk]
      · simp [hkk] at h ⊢; exact h
    · simp only [Map.contains, Map.get?] at h ⊢
      by_cases hkk : (k0 == k') = true
      · simp [hkk]
      · simp only [hkk] at h ⊢
        exact ih h

/-- `AllowElements` never removes an element: what was allowed stays allowed -/
theorem allowElements_monotone (p : Policy) (hi : p.initialized = true) (names : List Bytes) (el : Bytes)
    (h : Spec.allowsElement p el = true) :
    Spec.allowsElement (applyOp d p (.allowElements names)) el = true := by
  have he : p.ensureInit = p := by simp [Policy.ensureInit, hi]
  simp only [applyOp, BuilderOp.callsInit, ↓reduceIte, he, applyOpInit]
  clear he hi
  induction names generalizing p with
  | nil => simpa using h
  | cons n ns ih =>
    simp only [List.foldl_cons]
    apply ih
    unfold Spec.allowsElement at h ⊢
    simp only [Bool.or_eq_true] at h ⊢
    rcases h with h | h
    · left; exact map_update_contains _ _ _ _ _ h
    · right; exact h

theorem lowerAscii_ascii (n : Bytes) (h : n.all (· < 0x80) = true) : (lowerAscii n).all (· < 0x80) = true := by
  simp only [lowerAscii, List.all_map, List.all_eq_true, Function.comp, decide_eq_true_eq] at h ⊢
  intro c hc
  have hc' := UInt8.lt_iff_toNat_lt.mp (h c hc)
  apply UInt8.lt_iff_toNat_lt.mpr
  unfold lowerByte
  split
  · rename_i hu
    simp only [isUpper, Bool.and_eq_true, decide_eq_true_eq] at hu
    have h2 := UInt8.le_iff_toNat_le.mp hu.2
    simp [UInt8.toNat_add] at h2 hc' ⊢
    omega
  · exact hc'

theorem lowerAscii_idem (n : Bytes) : lowerAscii (lowerAscii n) = lowerAscii n := by
  simp only [lowerAscii, List.map_map]
  congr 1
  funext c
  simp only [Function.comp, lowerByte]
  split
  · rename_i hu
    split
    · rename_i hu2
      simp only [isUpper, Bool.and_eq_true, decide_eq_true_eq] at hu hu2
      have h1 := UInt8.le_iff_toNat_le.mp hu.1
      have h2 := UInt8.le_iff_toNat_le.mp hu.2
      have h3 := UInt8.le_iff_toNat_le.mp hu2.2
      simp [UInt8.toNat_add] at h1 h2 h3
      omega
    · rfl
  · rename_i hu; simp [hu]

/-- element names are case-insensitive: for ASCII names, registering the lower-cased spelling is
    registering the name (non-ASCII names are lower-cased by Go's Unicode tables, regenerated into
    `toLowerGo`; their idempotence is not proved here) -/
theorem allowElements_case (p : Policy) (names : List Bytes) (hascii : ∀ n ∈ names, n.all (· < 0x80) = true) :
    applyOp d p (.allowElements (names.map lowerAscii)) = applyOp d p (.allowElements names) := by
  simp only [applyOp, BuilderOp.callsInit, ↓reduceIte, applyOpInit, toLowerName]
  generalize p.ensureInit = p
  induction names generalizing p with
  | nil => rfl
  | cons n ns ih =>
    simp only [List.map_cons, List.foldl_cons]
    have hn := hascii n (by simp)
    have h1 : toLowerGo n = lowerAscii n := by simp [toLowerGo, hn]
    have h2 : toLowerGo (lowerAscii n) = lowerAscii n := by
      simp only [toLowerGo, lowerAscii_ascii n hn, ↓reduceIte]
      exact lowerAscii_idem n
    rw [h1, h2]
    exact ih (fun x hx => hascii x (List.mem_cons_of_mem _ hx)) _

example :
    let d : Bytes → Bytes → Bool := fun _ _ => false
    let p := applyOp d (applyOp d {} (.allowElements [b!"B"])) (.allowElements [b!"i"])
    Spec.allowsElement p b!"b" = true ∧ Spec.allowsElement p b!"i" = true ∧ Spec.allowsElement p b!"u" = false := by
  decide

/-! ### the rule tables as sets of contributions -/

/-- the five tables a history of rule-adding calls fills, read as sets -/
structure SameTables (p q : Policy) : Prop where
  elemRules : ∀ el attr x, x ∈ p.elemRules el attr ↔ x ∈ q.elemRules el attr
  globalRules : ∀ attr x, x ∈ p.globalRules attr ↔ x ∈ q.globalRules attr
  hasElem : ∀ el, p.hasElem el ↔ q.hasElem el
  elemStyleRules : ∀ el prop x, x ∈ p.elemStyleRules el prop ↔ x ∈ q.elemStyleRules el prop
  globalStyleRules : ∀ prop x, x ∈ p.globalStyleRules prop ↔ x ∈ q.globalStyleRules prop

/-- **C17, tables = start ∪ contributions**, for every history on an initialised policy -/
theorem C17_rule_tables (p : Policy) (hi : p.initialized = true) (ops : List BuilderOp) :
    (∀ el attr x, x ∈ (applyOps d p ops).elemRules el attr ↔
        x ∈ p.elemRules el attr ∨ ∃ op ∈ ops, op.addsElemRule el attr x) ∧
    (∀ attr x, x ∈ (applyOps d p ops).globalRules attr ↔
        x ∈ p.globalRules attr ∨ ∃ op ∈ ops, op.addsGlobalRule attr x) ∧
    (∀ el, (applyOps d p ops).hasElem el ↔ p.hasElem el ∨ ∃ op ∈ ops, op.addsElem el) ∧
    (∀ el prop x, x ∈ (applyOps d p ops).elemStyleRules el prop ↔
        x ∈ p.elemStyleRules el prop ∨ ∃ op ∈ ops, op.addsElemStyle d el prop x) ∧
    (∀ prop x, x ∈ (applyOps d p ops).globalStyleRules prop ↔
        x ∈ p.globalStyleRules prop ∨ ∃ op ∈ ops, op.addsGlobalStyle d prop x) :=
  rules_applyOps d p hi ops

/-- two histories with the same calls (as sets) give the same tables -/
theorem sameTables_of_same_calls (p : Policy) (hi : p.initialized = true) (ops₁ ops₂ : List BuilderOp)
    (h : ∀ op, op ∈ ops₁ ↔ op ∈ ops₂) : SameTables (applyOps d p ops₁) (applyOps d p ops₂) := by
  obtain ⟨a1, g1, e1, s1, t1⟩ := rules_applyOps d p hi ops₁
  obtain ⟨a2, g2, e2, s2, t2⟩ := rules_applyOps d p hi ops₂
  have hex : ∀ Q : BuilderOp → Prop, (∃ op ∈ ops₁, Q op) ↔ (∃ op ∈ ops₂, Q op) := by
    intro Q
    constructor
    · rintro ⟨op, hm, hq⟩; exact ⟨op, (h op).mp hm, hq⟩
    · rintro ⟨op, hm, hq⟩; exact ⟨op, (h op).mpr hm, hq⟩
  constructor
  · intro el attr x; rw [a1, a2, hex]
  · intro attr x; rw [g1, g2, hex]
  · intro el; rw [e1, e2, hex]
  · intro el prop x; rw [s1, s2, hex]
  · intro prop x; rw [t1, t2, hex]

/-- **C17, order independence of the rule tables**: any permutation of a history of builder calls
    on an initialised policy fills the tables with the same rules -/
theorem C17_order_independent (p : Policy) (hi : p.initialized = true) (ops₁ ops₂ : List BuilderOp)
    (h : ops₁.Perm ops₂) : SameTables (applyOps d p ops₁) (applyOps d p ops₂) :=
  sameTables_of_same_calls d p hi ops₁ ops₂ (fun _ => h.mem_iff)

/-- repeating calls changes nothing in the tables read as sets (idempotence) -/
theorem C17_repetition (p : Policy) (hi : p.initialized = true) (ops : List BuilderOp) :
    SameTables (applyOps d p (ops ++ ops)) (applyOps d p ops) :=
  sameTables_of_same_calls d p hi _ _ (fun op => by simp)

/-- **C17, accumulation**: further calls never remove a rule or an element from the tables -/
theorem C17_accumulate (p : Policy) (hi : p.initialized = true) (ops more : List BuilderOp) :
    (∀ el attr x, x ∈ (applyOps d p ops).elemRules el attr → x ∈ (applyOps d p (ops ++ more)).elemRules el attr) ∧
    (∀ attr x, x ∈ (applyOps d p ops).globalRules attr → x ∈ (applyOps d p (ops ++ more)).globalRules attr) ∧
    (∀ el, (applyOps d p ops).hasElem el → (applyOps d p (ops ++ more)).hasElem el) ∧
    (∀ el prop x, x ∈ (applyOps d p ops).elemStyleRules el prop →
      x ∈ (applyOps d p (ops ++ more)).elemStyleRules el prop) ∧
    (∀ prop x, x ∈ (applyOps d p ops).globalStyleRules prop →
      x ∈ (applyOps d p (ops ++ more)).globalStyleRules prop) := by
  obtain ⟨a1, g1, e1, s1, t1⟩ := rules_applyOps d p hi ops
  obtain ⟨a2, g2, e2, s2, t2⟩ := rules_applyOps d p hi (ops ++ more)
  have hex : ∀ Q : BuilderOp → Prop, (∃ op ∈ ops, Q op) → (∃ op ∈ ops ++ more, Q op) := by
    rintro Q ⟨op, hm, hq⟩; exact ⟨op, List.mem_append_left _ hm, hq⟩
  refine ⟨?_, ?_, ?_, ?_, ?_⟩
  · intro el attr x hx
    rw [a2]; rcases (a1 el attr x).mp hx with h | h
    · exact .inl h
    · exact .inr (hex _ h)
  · intro attr x hx
    rw [g2]; rcases (g1 attr x).mp hx with h | h
    · exact .inl h
    · exact .inr (hex _ h)
  · intro el hx
    rw [e2]; rcases (e1 el).mp hx with h | h
    · exact .inl h
    · exact .inr (hex _ h)
  · intro el prop x hx
    rw [s2]; rcases (s1 el prop x).mp hx with h | h
    · exact .inl h
    · exact .inr (hex _ h)
  · intro prop x hx
    rw [t2]; rcases (t1 prop x).mp hx with h | h
    · exact .inl h
    · exact .inr (hex _ h)

/-- a builder call with every element / attribute / property name respelled by `f` -/
def respell (f : Bytes → Bytes) : BuilderOp → BuilderOp
  | .allowElements names => .allowElements (names.map f)
  | .allowAttrs names re ae (.onElements els) => .allowAttrs (names.map f) re ae (.onElements (els.map f))
  | .allowAttrs names re ae scope => .allowAttrs (names.map f) re ae scope
  | .allowStyles names m (.onElements els) => .allowStyles (names.map f) m (.onElements (els.map f))
  | .allowStyles names m scope => .allowStyles (names.map f) m scope
  | op => op

theorem map_lower_respell (f : Bytes → Bytes) (hf : ∀ n, toLowerName (f n) = toLowerName n) (l : List Bytes) :
    (l.map f).map toLowerName = l.map toLowerName := by
  simp only [List.map_map]
  apply List.map_congr_left
  intro a _
  exact hf a

theorem respell_ne_nil (f : Bytes → Bytes) (l : List Bytes) : l.map f ≠ [] ↔ l ≠ [] := by
  cases l <;> simp

/-- what a respelled call contributes is what the call contributes -/
theorem respell_adds (f : Bytes → Bytes) (hf : ∀ n, toLowerName (f n) = toLowerName n) (op : BuilderOp) :
    (∀ el attr x, (respell f op).addsElemRule el attr x ↔ op.addsElemRule el attr x) ∧
    (∀ attr x, (respell f op).addsGlobalRule attr x ↔ op.addsGlobalRule attr x) ∧
    (∀ el, (respell f op).addsElem el ↔ op.addsElem el) ∧
    (∀ el prop x, (respell f op).addsElemStyle d el prop x ↔ op.addsElemStyle d el prop x) ∧
    (∀ prop x, (respell f op).addsGlobalStyle d prop x ↔ op.addsGlobalStyle d prop x) := by
  have hm := map_lower_respell f hf
  cases op with
  | allowElements names =>
    refine ⟨fun _ _ _ => Iff.rfl, fun _ _ => Iff.rfl, ?_, fun _ _ _ => Iff.rfl, fun _ _ => Iff.rfl⟩
    intro el; simp only [respell, BuilderOp.addsElem, hm]
  | allowAttrs names re ae scope =>
    cases scope with
    | onElements els =>
      refine ⟨?_, fun _ _ => Iff.rfl, ?_, fun _ _ _ => Iff.rfl, fun _ _ => Iff.rfl⟩
      · intro el attr x; simp only [respell, BuilderOp.addsElemRule, hm]
      · intro el; simp only [respell, BuilderOp.addsElem, hm, respell_ne_nil]
    | onElementsMatching r => exact ⟨fun _ _ _ => Iff.rfl, fun _ _ => Iff.rfl, fun _ => Iff.rfl, fun _ _ _ => Iff.rfl, fun _ _ => Iff.rfl⟩
    | globally =>
      refine ⟨fun _ _ _ => Iff.rfl, ?_, fun _ => Iff.rfl, fun _ _ _ => Iff.rfl, fun _ _ => Iff.rfl⟩
      intro attr x; simp only [respell, BuilderOp.addsGlobalRule, hm]
  | allowStyles names m scope =>
    cases scope with
    | onElements els =>
      refine ⟨fun _ _ _ => Iff.rfl, fun _ _ => Iff.rfl, fun _ => Iff.rfl, ?_, fun _ _ => Iff.rfl⟩
      intro el prop x; simp only [respell, BuilderOp.addsElemStyle, hm]
    | onElementsMatching r => exact ⟨fun _ _ _ => Iff.rfl, fun _ _ => Iff.rfl, fun _ => Iff.rfl, fun _ _ _ => Iff.rfl, fun _ _ => Iff.rfl⟩
    | globally =>
      refine ⟨fun _ _ _ => Iff.rfl, fun _ _ => Iff.rfl, fun _ => Iff.rfl, fun _ _ _ => Iff.rfl, ?_⟩
      intro prop x; simp only [respell, BuilderOp.addsGlobalStyle, hm]
  | _ => exact ⟨fun _ _ _ => Iff.rfl, fun _ _ => Iff.rfl, fun _ => Iff.rfl, fun _ _ _ => Iff.rfl, fun _ _ => Iff.rfl⟩

/-- **C17, case independence of the rule tables**: respelling the names of a history by any `f`
    that `strings.ToLower` cannot tell from the identity (any mixture of upper and lower case)
    fills the tables with the same rules -/
theorem C17_case_independent (f : Bytes → Bytes) (hf : ∀ n, toLowerName (f n) = toLowerName n)
    (p : Policy) (hi : p.initialized = true) (ops : List BuilderOp) :
    SameTables (applyOps d p (ops.map (respell f))) (applyOps d p ops) := by
  obtain ⟨a1, g1, e1, s1, t1⟩ := rules_applyOps d p hi (ops.map (respell f))
  obtain ⟨a2, g2, e2, s2, t2⟩ := rules_applyOps d p hi ops
  have hex : ∀ (Q Q' : BuilderOp → Prop), (∀ op, Q' (respell f op) ↔ Q op) →
      ((∃ op ∈ ops.map (respell f), Q' op) ↔ (∃ op ∈ ops, Q op)) := by
    intro Q Q' hq
    simp only [List.mem_map]
    constructor
    · rintro ⟨_, ⟨op, hm, rfl⟩, h⟩; exact ⟨op, hm, (hq op).mp h⟩
    · rintro ⟨op, hm, h⟩; exact ⟨_, ⟨op, hm, rfl⟩, (hq op).mpr h⟩
  constructor
  · intro el attr x; rw [a1, a2, hex _ _ (fun op => (respell_adds d f hf op).1 el attr x)]
  · intro attr x; rw [g1, g2, hex _ _ (fun op => (respell_adds d f hf op).2.1 attr x)]
  · intro el; rw [e1, e2, hex _ _ (fun op => (respell_adds d f hf op).2.2.1 el)]
  · intro el prop x; rw [s1, s2, hex _ _ (fun op => (respell_adds d f hf op).2.2.2.1 el prop x)]
  · intro prop x; rw [t1, t2, hex _ _ (fun op => (respell_adds d f hf op).2.2.2.2 prop x)]

/-- `strings.ToLower` cannot tell an ASCII name from its lower-cased spelling: a respelling `f`
    that satisfies the hypothesis of `C17_case_independent` on ASCII names -/
theorem toLower_lowerAscii (n : Bytes) (h : n.all (· < 0x80) = true) : toLowerName (lowerAscii n) = toLowerName n := by
  have h1 : toLowerGo n = lowerAscii n := by simp [toLowerGo, h]
  have h2 : toLowerGo (lowerAscii n) = lowerAscii n := by
    simp only [toLowerGo, lowerAscii_ascii n h, ↓reduceIte]
    exact lowerAscii_idem n
  simp only [toLowerName, h1, h2]

/-- what the first pass of `sanitizeAttrs` asks of an element's rules, as a statement about the set -/
theorem accept_iff_mem (aps : AttrRules) (k v : Bytes) :
    (match aps.get? k with | some apl => attrPoliciesAccept apl v | none => false) = true ↔
      ∃ ap ∈ rulesOf aps k, (match ap with | none => true | some r => r.test v) = true := by
  unfold rulesOf
  cases h : aps.get? k with
  | none => simp
  | some apl => simp only [attrPoliciesAccept, List.any_eq_true, Option.getD_some]; exact Iff.rfl

/-- **C17, the filter decision is a function of the contributions**: on an explicitly named
    element of a policy built by any history from `NewPolicy()`, the first pass accepts attribute
    `k = v` on element rules iff some `AllowAttrs(… k …)[.Matching(re)].OnElements(… el …)` call of
    the history — in any position, in any spelling — has no pattern or a pattern matching `v` -/
theorem C17_accept_iff_contribution (ops : List BuilderOp) (el k v : Bytes) :
    let p := applyOps d { initialized := true } ops
    (match Map.get? (rulesOf p.elsAndAttrs el) k with | some apl => attrPoliciesAccept apl v | none => false) = true ↔
      ∃ op ∈ ops, ∃ ap, op.addsElemRule el k ap ∧ (match ap with | none => true | some r => r.test v) = true := by
  intro p
  rw [accept_iff_mem]
  have h := (rules_applyOps d { initialized := true } rfl ops).1 el k
  constructor
  · rintro ⟨ap, hm, hok⟩
    rcases (h ap).mp hm with h0 | ⟨op, hop, hadd⟩
    · simp [Policy.elemRules, rulesOf, Map.get?] at h0
    · exact ⟨op, hop, ap, hadd, hok⟩
  · rintro ⟨op, hop, ap, hadd, hok⟩
    exact ⟨ap, (h ap).mpr (.inr ⟨op, hop, hadd⟩), hok⟩

/-- the rules the sanitiser uses for an explicitly named element are that element's entry of the
    table `C17_rule_tables` speaks about -/
theorem attrRulesFor_explicit (p : Policy) (el : Bytes) (h : p.hasElem el) :
    p.attrRulesFor el = some (rulesOf p.elsAndAttrs el) := by
  unfold Policy.attrRulesFor rulesOf
  unfold Policy.hasElem at h
  cases hg : p.elsAndAttrs.get? el with
  | none => rw [hg] at h; simp at h
  | some aps => rfl

/-- non-vacuity: two orders and two spellings of one history; the tables agree and hold the rule -/
example :
    let d : Bytes → Bytes → Bool := fun _ _ => false
    let h1 := [BuilderOp.allowAttrs [b!"HREF"] none false (.onElements [b!"A"]), .allowElements [b!"b"]]
    let h2 := [BuilderOp.allowElements [b!"B"], .allowAttrs [b!"href"] none false (.onElements [b!"a"])]
    (applyOps d { initialized := true } h1).elemRules b!"a" b!"href" = [none] ∧
    (applyOps d { initialized := true } h2).elemRules b!"a" b!"href" = [none] ∧
    (applyOps d { initialized := true } h1).elsAndAttrs.contains b!"b" = true ∧
    (applyOps d { initialized := true } h2).elsAndAttrs.contains b!"a" = true := by
  refine ⟨?_, ?_, ?_, ?_⟩ <;> rfl

/-! ### the pattern-scoped tables and the sets -/

/-- the remaining tables, read as sets: rules and style rules bound to element patterns (keyed by
    the identity of the compiled regexp), the pattern table, the two "allowed without attributes"
    sets, the scheme patterns -/
structure SameTables2 (p q : Policy) : Prop where
  matchRules : ∀ r attr x, x ∈ p.matchRules r attr ↔ x ∈ q.matchRules r attr
  hasPattern : ∀ r, p.hasPattern r ↔ q.hasPattern r
  matchStyleRules : ∀ r prop x, x ∈ p.matchStyleRules r prop ↔ x ∈ q.matchStyleRules r prop
  bareOK : ∀ el, p.bareOK el ↔ q.bareOK el
  bareOKPattern : ∀ id, p.bareOKPattern id ↔ q.bareOKPattern id
  schemePattern : ∀ id, p.schemePattern id ↔ q.schemePattern id

/-- **C17, the remaining tables = start ∪ contributions**, for every history on an initialised policy -/
theorem C17_rule_tables2 (p : Policy) (hi : p.initialized = true) (ops : List BuilderOp) :
    (∀ r attr x, x ∈ (applyOps d p ops).matchRules r attr ↔
        x ∈ p.matchRules r attr ∨ ∃ op ∈ ops, op.addsMatchRule r attr x) ∧
    (∀ r, (applyOps d p ops).hasPattern r ↔ p.hasPattern r ∨ ∃ op ∈ ops, op.addsPattern r) ∧
    (∀ r prop x, x ∈ (applyOps d p ops).matchStyleRules r prop ↔
        x ∈ p.matchStyleRules r prop ∨ ∃ op ∈ ops, op.addsMatchStyle d r prop x) ∧
    (∀ el, (applyOps d p ops).bareOK el ↔ p.bareOK el ∨ ∃ op ∈ ops, op.addsBareOK el) ∧
    (∀ id, (applyOps d p ops).bareOKPattern id ↔ p.bareOKPattern id ∨ ∃ op ∈ ops, op.addsBareOKPattern id) ∧
    (∀ id, (applyOps d p ops).schemePattern id ↔ p.schemePattern id ∨ ∃ op ∈ ops, op.addsSchemePattern id) :=
  rules2_applyOps d p hi ops

theorem sameTables2_of_same_calls (p : Policy) (hi : p.initialized = true) (ops₁ ops₂ : List BuilderOp)
    (h : ∀ op, op ∈ ops₁ ↔ op ∈ ops₂) : SameTables2 (applyOps d p ops₁) (applyOps d p ops₂) := by
  obtain ⟨a1, b1, c1, e1, f1, g1⟩ := rules2_applyOps d p hi ops₁
  obtain ⟨a2, b2, c2, e2, f2, g2⟩ := rules2_applyOps d p hi ops₂
  have hex : ∀ Q : BuilderOp → Prop, (∃ op ∈ ops₁, Q op) ↔ (∃ op ∈ ops₂, Q op) := by
    intro Q
    constructor
    · rintro ⟨op, hm, hq⟩; exact ⟨op, (h op).mp hm, hq⟩
    · rintro ⟨op, hm, hq⟩; exact ⟨op, (h op).mpr hm, hq⟩
  constructor
  · intro r attr x; rw [a1, a2, hex]
  · intro r; rw [b1, b2, hex]
  · intro r prop x; rw [c1, c2, hex]
  · intro el; rw [e1, e2, hex]
  · intro id; rw [f1, f2, hex]
  · intro id; rw [g1, g2, hex]

/-- **C17, order independence of the pattern-scoped tables and the sets** -/
theorem C17_order_independent2 (p : Policy) (hi : p.initialized = true) (ops₁ ops₂ : List BuilderOp)
    (h : ops₁.Perm ops₂) : SameTables2 (applyOps d p ops₁) (applyOps d p ops₂) :=
  sameTables2_of_same_calls d p hi ops₁ ops₂ (fun _ => h.mem_iff)

theorem respell_adds2 (f : Bytes → Bytes) (hf : ∀ n, toLowerName (f n) = toLowerName n) (op : BuilderOp) :
    (∀ r attr x, (respell f op).addsMatchRule r attr x ↔ op.addsMatchRule r attr x) ∧
    (∀ r, (respell f op).addsPattern r ↔ op.addsPattern r) ∧
    (∀ r prop x, (respell f op).addsMatchStyle d r prop x ↔ op.addsMatchStyle d r prop x) ∧
    (∀ el, (respell f op).addsBareOK el ↔ op.addsBareOK el) ∧
    (∀ id, (respell f op).addsBareOKPattern id ↔ op.addsBareOKPattern id) ∧
    (∀ id, (respell f op).addsSchemePattern id ↔ op.addsSchemePattern id) := by
  have hm := map_lower_respell f hf
  cases op with
  | allowAttrs names re ae scope =>
    cases scope with
    | onElements els =>
      refine ⟨fun _ _ _ => Iff.rfl, fun _ => Iff.rfl, fun _ _ _ => Iff.rfl, ?_, fun _ => Iff.rfl, fun _ => Iff.rfl⟩
      intro el; simp only [respell, BuilderOp.addsBareOK, hm]
    | onElementsMatching r' =>
      refine ⟨?_, ?_, fun _ _ _ => Iff.rfl, fun _ => Iff.rfl, fun _ => Iff.rfl, fun _ => Iff.rfl⟩
      · intro r attr x; simp only [respell, BuilderOp.addsMatchRule, hm]
      · intro r; simp only [respell, BuilderOp.addsPattern, respell_ne_nil]
    | globally => exact ⟨fun _ _ _ => Iff.rfl, fun _ => Iff.rfl, fun _ _ _ => Iff.rfl, fun _ => Iff.rfl, fun _ => Iff.rfl, fun _ => Iff.rfl⟩
  | allowStyles names m scope =>
    cases scope with
    | onElements els => exact ⟨fun _ _ _ => Iff.rfl, fun _ => Iff.rfl, fun _ _ _ => Iff.rfl, fun _ => Iff.rfl, fun _ => Iff.rfl, fun _ => Iff.rfl⟩
    | onElementsMatching r' =>
      refine ⟨fun _ _ _ => Iff.rfl, fun _ => Iff.rfl, ?_, fun _ => Iff.rfl, fun _ => Iff.rfl, fun _ => Iff.rfl⟩
      intro r prop x; simp only [respell, BuilderOp.addsMatchStyle, hm]
    | globally => exact ⟨fun _ _ _ => Iff.rfl, fun _ => Iff.rfl, fun _ _ _ => Iff.rfl, fun _ => Iff.rfl, fun _ => Iff.rfl, fun _ => Iff.rfl⟩
  | _ => exact ⟨fun _ _ _ => Iff.rfl, fun _ => Iff.rfl, fun _ _ _ => Iff.rfl, fun _ => Iff.rfl, fun _ => Iff.rfl, fun _ => Iff.rfl⟩

/-- **C17, case independence of the pattern-scoped tables and the sets** -/
theorem C17_case_independent2 (f : Bytes → Bytes) (hf : ∀ n, toLowerName (f n) = toLowerName n)
    (p : Policy) (hi : p.initialized = true) (ops : List BuilderOp) :
    SameTables2 (applyOps d p (ops.map (respell f))) (applyOps d p ops) := by
  obtain ⟨a1, b1, c1, e1, f1, g1⟩ := rules2_applyOps d p hi (ops.map (respell f))
  obtain ⟨a2, b2, c2, e2, f2, g2⟩ := rules2_applyOps d p hi ops
  have hex : ∀ (Q Q' : BuilderOp → Prop), (∀ op, Q' (respell f op) ↔ Q op) →
      ((∃ op ∈ ops.map (respell f), Q' op) ↔ (∃ op ∈ ops, Q op)) := by
    intro Q Q' hq
    simp only [List.mem_map]
    constructor
    · rintro ⟨_, ⟨op, hm, rfl⟩, h⟩; exact ⟨op, hm, (hq op).mp h⟩
    · rintro ⟨op, hm, h⟩; exact ⟨_, ⟨op, hm, rfl⟩, (hq op).mpr h⟩
  constructor
  · intro r attr x; rw [a1, a2, hex _ _ (fun op => (respell_adds2 d f hf op).1 r attr x)]
  · intro r; rw [b1, b2, hex _ _ (fun op => (respell_adds2 d f hf op).2.1 r)]
  · intro r prop x; rw [c1, c2, hex _ _ (fun op => (respell_adds2 d f hf op).2.2.1 r prop x)]
  · intro el; rw [e1, e2, hex _ _ (fun op => (respell_adds2 d f hf op).2.2.2.1 el)]
  · intro id; rw [f1, f2, hex _ _ (fun op => (respell_adds2 d f hf op).2.2.2.2.1 id)]
  · intro id; rw [g1, g2, hex _ _ (fun op => (respell_adds2 d f hf op).2.2.2.2.2 id)]

/-! ### switch-like options -/

/-- **C17, switches**: refinement of the built policy's switches to the switch machine -/
theorem C17_switches_refinement (p : Policy) (hi : p.initialized = true) (ops : List BuilderOp) :
    (applyOps d p ops).switches = ops.foldl (fun s op => op.setSwitches s) p.switches :=
  switches_applyOps d p hi ops


/-- **C17, every switch reflects its most recent setting**, for every history on an initialised
    policy.  `requireParseableURLs` is set by its own call and, as documented, switched on by every
    link option, by `AllowRelativeURLs` and by the scheme registrations. -/
theorem C17_last_setting_wins (p : Policy) (hi : p.initialized = true) (ops : List BuilderOp) :
    let q := applyOps d p ops
    let last {γ : Type} (eff : BuilderOp → Option γ) (start : γ) : γ := (ops.reverse.findSome? eff).getD start
    q.addSpaces = last (fun | .addSpaceWhenStrippingTag b => some b | _ => none) p.addSpaces ∧
    q.requireNoFollow = last (fun | .requireNoFollowOnLinks b => some b | _ => none) p.requireNoFollow ∧
    q.requireNoFollowFullyQualifiedLinks =
      last (fun | .requireNoFollowOnFullyQualifiedLinks b => some b | _ => none) p.requireNoFollowFullyQualifiedLinks ∧
    q.requireNoReferrer = last (fun | .requireNoReferrerOnLinks b => some b | _ => none) p.requireNoReferrer ∧
    q.requireNoReferrerFullyQualifiedLinks =
      last (fun | .requireNoReferrerOnFullyQualifiedLinks b => some b | _ => none) p.requireNoReferrerFullyQualifiedLinks ∧
    q.requireCrossOriginAnonymous =
      last (fun | .requireCrossOriginAnonymous b => some b | _ => none) p.requireCrossOriginAnonymous ∧
    q.addTargetBlankToFullyQualifiedLinks =
      last (fun | .addTargetBlankToFullyQualifiedLinks b => some b | _ => none) p.addTargetBlankToFullyQualifiedLinks ∧
    q.allowRelativeURLs = last (fun | .allowRelativeURLs b => some b | _ => none) p.allowRelativeURLs ∧
    q.allowUnsafe = last (fun | .allowUnsafe b => some b | _ => none) p.allowUnsafe ∧
    q.requireSandboxOnIFrame =
      last (fun | .requireSandboxOnIFrame v => some (some v) | _ => none) p.requireSandboxOnIFrame ∧
    q.requireParseableURLs =
      last (fun | .requireParseableURLs b => some b
                | .requireNoFollowOnLinks _ | .requireNoFollowOnFullyQualifiedLinks _
                | .requireNoReferrerOnLinks _ | .requireNoReferrerOnFullyQualifiedLinks _
                | .addTargetBlankToFullyQualifiedLinks _ | .allowRelativeURLs _
                | .allowURLSchemes _ | .allowURLSchemeWithCustomPolicy _ _ => some true
                | _ => none) p.requireParseableURLs := by
  intro q last
  have h := switches_applyOps d p hi ops
  refine ⟨?_, ?_, ?_, ?_, ?_, ?_, ?_, ?_, ?_, ?_, ?_⟩
  · exact (congrArg Switches.addSpaces h).trans
      (lastSetting Switches.addSpaces _ (fun op s => by cases op <;> rfl) ops p.switches)
  · exact (congrArg Switches.requireNoFollow h).trans
      (lastSetting Switches.requireNoFollow _ (fun op s => by cases op <;> rfl) ops p.switches)
  · exact (congrArg Switches.requireNoFollowFullyQualifiedLinks h).trans
      (lastSetting Switches.requireNoFollowFullyQualifiedLinks _ (fun op s => by cases op <;> rfl) ops p.switches)
  · exact (congrArg Switches.requireNoReferrer h).trans
      (lastSetting Switches.requireNoReferrer _ (fun op s => by cases op <;> rfl) ops p.switches)
  · exact (congrArg Switches.requireNoReferrerFullyQualifiedLinks h).trans
      (lastSetting Switches.requireNoReferrerFullyQualifiedLinks _ (fun op s => by cases op <;> rfl) ops p.switches)
  · exact (congrArg Switches.requireCrossOriginAnonymous h).trans
      (lastSetting Switches.requireCrossOriginAnonymous _ (fun op s => by cases op <;> rfl) ops p.switches)
  · exact (congrArg Switches.addTargetBlankToFullyQualifiedLinks h).trans
      (lastSetting Switches.addTargetBlankToFullyQualifiedLinks _ (fun op s => by cases op <;> rfl) ops p.switches)
  · exact (congrArg Switches.allowRelativeURLs h).trans
      (lastSetting Switches.allowRelativeURLs _ (fun op s => by cases op <;> rfl) ops p.switches)
  · exact (congrArg Switches.allowUnsafe h).trans
      (lastSetting Switches.allowUnsafe _ (fun op s => by cases op <;> rfl) ops p.switches)
  · exact (congrArg Switches.requireSandboxOnIFrame h).trans
      (lastSetting Switches.requireSandboxOnIFrame _ (fun op s => by cases op <;> rfl) ops p.switches)
  · exact (congrArg Switches.requireParseableURLs h).trans
      (lastSetting Switches.requireParseableURLs _ (fun op s => by cases op <;> rfl) ops p.switches)

/-- **C17, skip / keep content reflects the most recent call naming the element** -/
theorem C17_skip_last_wins (p : Policy) (hi : p.initialized = true) (ops : List BuilderOp) (el : Bytes) :
    (applyOps d p ops).skips el = (ops.reverse.findSome? (BuilderOp.setsSkip el)).getD (p.skips el) :=
  skips_applyOps d p hi ops el

/-- **C17, scheme registrations**: per scheme, a refinement to `setsScheme` -/
theorem C17_scheme_refinement (p : Policy) (hi : p.initialized = true) (ops : List BuilderOp) (s : Bytes) :
    (applyOps d p ops).allowURLSchemes.get? s = ops.foldl (fun st op => op.setsScheme s st) (p.allowURLSchemes.get? s) :=
  scheme_applyOps d p hi ops s

/-- a plain `AllowURLSchemes` naming the scheme forgets whatever was registered for it before:
    what comes before that call in the history is irrelevant for the scheme -/
theorem C17_scheme_plain_forgets (p p' : Policy) (hi : p.initialized = true) (hi' : p'.initialized = true)
    (pre pre' post : List BuilderOp) (names : List Bytes) (s : Bytes)
    (hs : (names.map toLowerName).contains s = true) :
    (applyOps d p (pre ++ .allowURLSchemes names :: post)).allowURLSchemes.get? s =
    (applyOps d p' (pre' ++ .allowURLSchemes names :: post)).allowURLSchemes.get? s := by
  rw [scheme_applyOps d p hi, scheme_applyOps d p' hi']
  simp only [List.foldl_append, List.foldl_cons, BuilderOp.setsScheme, hs, ↓reduceIte]

/-- non-vacuity: a toggled history; the last settings are the ones in force -/
example :
    let d : Bytes → Bytes → Bool := fun _ _ => false
    let q := applyOps d { initialized := true }
      [.addSpaceWhenStrippingTag true, .requireNoFollowOnLinks true, .requireParseableURLs false,
       .skipElementsContent [b!"DIV"], .addSpaceWhenStrippingTag false, .allowElementsContent [b!"div"],
       .allowURLSchemeWithCustomPolicy b!"data" (fun _ => false), .allowURLSchemes [b!"DATA"]]
    q.addSpaces = false ∧ q.requireNoFollow = true ∧ q.requireParseableURLs = true ∧ q.skips b!"div" = false ∧
    (q.allowURLSchemes.get? b!"data").map List.length = some 0 := by
  refine ⟨?_, ?_, ?_, ?_, ?_⟩ <;> rfl

end BM.Props
