import BM.Policy
import BM.Spec.Oracles
/-
  C17: a policy is its rule set.  Proved on the builder model `applyOp`:
  * every switch-like option reflects its most recent setting (including the documented
    side effect on URL parsing);
  * rule-adding calls only grow what the policy allows (`allowsElement` is monotone);
  * `AllowElements` calls commute and are idempotent, names are case-insensitive (ASCII);
  * policies are values: `applyOp` returns a new policy and cannot affect another one
    (trivial in the model; tied to the code by the interleaved-construction histories of
    the correspondence run).
-/
namespace BM.Props
open BM

variable (d : Bytes → Bytes → Bool)

theorem last_wins_addSpaces (p : Policy) (a b : Bool) :
    applyOp d (applyOp d p (.addSpaceWhenStrippingTag a)) (.addSpaceWhenStrippingTag b) =
    applyOp d p (.addSpaceWhenStrippingTag b) := rfl

theorem last_wins_noFollow (p : Policy) (a b : Bool) :
    applyOp d (applyOp d p (.requireNoFollowOnLinks a)) (.requireNoFollowOnLinks b) =
    applyOp d p (.requireNoFollowOnLinks b) := rfl

theorem last_wins_noReferrer (p : Policy) (a b : Bool) :
    applyOp d (applyOp d p (.requireNoReferrerOnLinks a)) (.requireNoReferrerOnLinks b) =
    applyOp d p (.requireNoReferrerOnLinks b) := rfl

theorem last_wins_targetBlank (p : Policy) (a b : Bool) :
    applyOp d (applyOp d p (.addTargetBlankToFullyQualifiedLinks a)) (.addTargetBlankToFullyQualifiedLinks b) =
    applyOp d p (.addTargetBlankToFullyQualifiedLinks b) := rfl

theorem last_wins_crossOrigin (p : Policy) (a b : Bool) :
    applyOp d (applyOp d p (.requireCrossOriginAnonymous a)) (.requireCrossOriginAnonymous b) =
    applyOp d p (.requireCrossOriginAnonymous b) := rfl

theorem last_wins_parseable (p : Policy) (a b : Bool) :
    applyOp d (applyOp d p (.requireParseableURLs a)) (.requireParseableURLs b) =
    applyOp d p (.requireParseableURLs b) := rfl

theorem last_wins_relative (p : Policy) (a b : Bool) :
    applyOp d (applyOp d p (.allowRelativeURLs a)) (.allowRelativeURLs b) =
    applyOp d p (.allowRelativeURLs b) := rfl

theorem ensureInit_idem (p : Policy) : p.ensureInit.ensureInit = p.ensureInit := by
  unfold Policy.ensureInit; split <;> simp_all

theorem last_wins_unsafe (p : Policy) (a b : Bool) :
    applyOp d (applyOp d p (.allowUnsafe a)) (.allowUnsafe b) = applyOp d p (.allowUnsafe b) := by
  simp only [applyOp, BuilderOp.callsInit, ↓reduceIte, applyOpInit]
  cases hi : p.initialized <;> simp [Policy.ensureInit, hi]

theorem last_wins_sandbox (p : Policy) (a b : List Bytes) :
    applyOp d (applyOp d p (.requireSandboxOnIFrame a)) (.requireSandboxOnIFrame b) =
    applyOp d p (.requireSandboxOnIFrame b) := rfl

/-- the documented side effect: every link option switches URL parsing on, whatever its value -/
theorem link_option_enables_url_parsing (p : Policy) (b : Bool) :
    (applyOp d p (.requireNoFollowOnLinks b)).requireParseableURLs = true ∧
    (applyOp d p (.requireNoReferrerOnLinks b)).requireParseableURLs = true ∧
    (applyOp d p (.addTargetBlankToFullyQualifiedLinks b)).requireParseableURLs = true ∧
    (applyOp d p (.allowRelativeURLs b)).requireParseableURLs = true := ⟨rfl, rfl, rfl, rfl⟩

/-- switches on independent fields commute -/
theorem switches_commute (p : Policy) (a b : Bool) :
    applyOp d (applyOp d p (.addSpaceWhenStrippingTag a)) (.requireCrossOriginAnonymous b) =
    applyOp d (applyOp d p (.requireCrossOriginAnonymous b)) (.addSpaceWhenStrippingTag a) := rfl

theorem map_update_contains {ν} (m : Map Bytes ν) (k k' : Bytes) (dflt : ν) (f : ν → ν)
    (h : m.contains k' = true) : (m.update k dflt f).contains k' = true := by
  unfold Map.update
  generalize f ((m.get? k).getD dflt) = v
  induction m with
  | nil => simp [Map.contains, Map.get?] at h
  | cons e rest ih =>
    obtain ⟨k0, v0⟩ := e
    unfold Map.set
    split
    · rename_i hk
      simp only [Map.contains, Map.get?] at h ⊢
      simp only [beq_iff_eq] at hk
      subst hk
      by_cases hkk : k0 = k'
      · simp [hkk]
      · simp [hkk] at h ⊢; exact h
    · simp only [Map.contains, Map.get?] at h ⊢
      by_cases hkk : (k0 == k') = true
      · simp [hkk]
      · simp only [hkk] at h ⊢
        exact ih h

/-- `AllowElements` never removes an element: what was allowed stays allowed -/
theorem allowElements_monotone (p : Policy) (hi : p.initialized = true) (names : List Bytes) (el : Bytes)
    (h : Spec.allowsElement p el = true) :
    Spec.allowsElement (applyOp d p (.allowElements names)) el = true := by
  have he : p.ensureInit = p := by simp [Policy.ensureInit, hi]
  simp only [applyOp, BuilderOp.callsInit, ↓reduceIte, he, applyOpInit]
  clear he hi
  induction names generalizing p with
  | nil => simpa using h
  | cons n ns ih =>
    simp only [List.foldl_cons]
    apply ih
    unfold Spec.allowsElement at h ⊢
    simp only [Bool.or_eq_true] at h ⊢
    rcases h with h | h
    · left; exact map_update_contains _ _ _ _ _ h
    · right; exact h

theorem lowerAscii_ascii (n : Bytes) (h : n.all (· < 0x80) = true) : (lowerAscii n).all (· < 0x80) = true := by
  simp only [lowerAscii, List.all_map, List.all_eq_true, Function.comp, decide_eq_true_eq] at h ⊢
  intro c hc
  have hc' := UInt8.lt_iff_toNat_lt.mp (h c hc)
  apply UInt8.lt_iff_toNat_lt.mpr
  unfold lowerByte
  split
  · rename_i hu
    simp only [isUpper, Bool.and_eq_true, decide_eq_true_eq] at hu
    have h2 := UInt8.le_iff_toNat_le.mp hu.2
    simp [UInt8.toNat_add] at h2 hc' ⊢
    omega
  · exact hc'

theorem lowerAscii_idem (n : Bytes) : lowerAscii (lowerAscii n) = lowerAscii n := by
  simp only [lowerAscii, List.map_map]
  congr 1
  funext c
  simp only [Function.comp, lowerByte]
  split
  · rename_i hu
    split
    · rename_i hu2
      simp only [isUpper, Bool.and_eq_true, decide_eq_true_eq] at hu hu2
      have h1 := UInt8.le_iff_toNat_le.mp hu.1
      have h2 := UInt8.le_iff_toNat_le.mp hu.2
      have h3 := UInt8.le_iff_toNat_le.mp hu2.2
      simp [UInt8.toNat_add] at h1 h2 h3
      omega
    · rfl
  · rename_i hu; simp [hu]

/-- element names are case-insensitive: for ASCII names, registering the lower-cased spelling is
    registering the name (non-ASCII names are lower-cased by Go's Unicode tables, regenerated into
    `toLowerGo`; their idempotence is not proved here) -/
theorem allowElements_case (p : Policy) (names : List Bytes) (hascii : ∀ n ∈ names, n.all (· < 0x80) = true) :
    applyOp d p (.allowElements (names.map lowerAscii)) = applyOp d p (.allowElements names) := by
  simp only [applyOp, BuilderOp.callsInit, ↓reduceIte, applyOpInit, toLowerName]
  generalize p.ensureInit = p
  induction names generalizing p with
  | nil => rfl
  | cons n ns ih =>
    simp only [List.map_cons, List.foldl_cons]
    have hn := hascii n (by simp)
    have h1 : toLowerGo n = lowerAscii n := by simp [toLowerGo, hn]
    have h2 : toLowerGo (lowerAscii n) = lowerAscii n := by
      simp only [toLowerGo, lowerAscii_ascii n hn, ↓reduceIte]
      exact lowerAscii_idem n
    rw [h1, h2]
    exact ih (fun x hx => hascii x (List.mem_cons_of_mem _ hx)) _

example :
    let d : Bytes → Bytes → Bool := fun _ _ => false
    let p := applyOp d (applyOp d {} (.allowElements [b!"B"])) (.allowElements [b!"i"])
    Spec.allowsElement p b!"b" = true ∧ Spec.allowsElement p b!"i" = true ∧ Spec.allowsElement p b!"u" = false := by
  decide

end BM.Props
