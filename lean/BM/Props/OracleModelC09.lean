import BM.Props.C09
import BM.Spec.More
/-
  The oracles on the model.  An oracle (BM/Spec) is evaluated on the *implementation's* output; a case
  on which implementation and model agree can only raise an alarm if the oracle is false on the model's
  output.  For the oracles below that cannot happen: the byte-level theorems say exactly that the
  oracle holds of what the model returns.  (Where a property has a known finding the corresponding
  statement is false by design and is not made.)
-/
namespace BM.Props
open BM BM.Html BM.Spec

/-- `oracleC09` holds of the model's output: every policy without AllowUnsafe, every input none of whose
    raw-text tags the policy allows -/
theorem oracleC09_model (p : Policy) (input : Bytes) (hp : PlainOn p.ensureInit (tokenize input)) :
    oracleC09 input (p.sanitizeCore input) = true := by
  unfold oracleC09
  cases hwn : wellNested (tokenize input) with
  | false => rfl
  | true => simp [C09_bytesC_on p input hp hwn]

end BM.Props
