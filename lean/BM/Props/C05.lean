import BM.Proofs.Step
import BM.Props.Pins
import BM.Proofs.Escape
import BM.Proofs.Bytes
import BM.Proofs.ProvC
/-
  C05: script and style never survive unless AllowUnsafe(true).

  Proved for every policy with AllowUnsafe off — whatever it allows by name or by pattern,
  whatever its skip set — and every token sequence (event level):
  * no write is the serialisation of a tag named script or style;
  * the text token that follows a script/style start tag *or self-closing tag* (the raw text
    the tokenizer produces for the element's body) writes nothing.
-/
namespace BM.Props
open BM BM.Html BM.Spec

inductive WriteKind5 (p : Policy) : Bytes → Prop where
  | text (d : Bytes) : WriteKind5 p (escape d)
  | space : WriteKind5 p [32]
  | comment (d : Bytes) : WriteKind5 p (Token.render ⟨.comment, d, []⟩)
  | tag (t : Token) : isTag t = true → isScriptOrStyle t.data = false → WriteKind5 p t.render

theorem emit_writeKind5 {p : Policy} (hu : p.allowUnsafe = false) {st : LoopState} {t : Token}
    {ws : List Write} (he : Emit p st t ws) : ∀ w ∈ ws, WriteKind5 p w.data := by
  cases he with
  | nothing => simp
  | space _ => intro w hw; simp at hw; subst hw; exact .space
  | comment htt hc =>
    intro w hw; simp at hw; subst hw
    have : t.render = Token.render ⟨.comment, t.data, []⟩ := by simp [Token.render, htt]
    simp only [this]; exact .comment t.data
  | openTag aps attrs htt haps hss _ _ _ =>
    intro w hw; simp at hw; subst hw
    refine .tag _ ?_ (by simpa [hu] using hss)
    rcases htt with h | h <;> (unfold isTag; rw [h]; rfl)
  | closeTag htt hss hall =>
    intro w hw; simp at hw; subst hw
    exact .tag _ (by unfold isTag; rw [htt]; rfl) (by simpa [hu] using hss)
  | text htt _ _ =>
    intro w hw; simp at hw; subst hw
    have : t.render = escape t.data := by simp [Token.render, htt]
    simp only [this]; exact .text t.data
  | rawText _ hun _ => simp [hu] at hun

/-- **C05 (tags)**: with AllowUnsafe off no write is a script or style tag, for any policy -/
theorem C05_no_script_style_tag (p : Policy) (hu : p.allowUnsafe = false) (input : Bytes) :
    ∀ w ∈ (p.run {} (tokenize input)).1, WriteKind5 p w.data := by
  intro w hw
  obtain ⟨st0, t, ws, _, he, hmem⟩ := run_emit p (tokenize input) {} w hw
  exact emit_writeKind5 hu he w hmem

/-- a script/style start or self-closing tag writes nothing and records the element -/
theorem script_open_step (p : Policy) (hu : p.allowUnsafe = false) (st : LoopState) (t : Token)
    (htt : t.tt = .start ∨ t.tt = .selfClosing) (hs : isScriptOrStyle t.data = true) :
    p.step st t = some ({ st with mostRecentlyStartedToken := t.data }, []) := by
  rcases htt with h | h
  · simp [Policy.step, h, Policy.stepStart, hs, hu]
  · simp [Policy.step, h, Policy.stepSelfClosing, hs, hu]

/-- text while the most recent start tag is script/style writes nothing -/
theorem script_body_step (p : Policy) (hu : p.allowUnsafe = false) (st : LoopState) (t : Token)
    (htt : t.tt = .text) (hs : isScriptOrStyle st.mostRecentlyStartedToken = true) :
    p.step st t = some (st, []) := by
  simp [Policy.step, htt, Policy.stepText, hs, hu]

/-- **C05 (bodies)**: a script/style tag (start or self-closing) and the text token after it
    contribute nothing to the output, for any policy with AllowUnsafe off -/
theorem C05_body_hidden (p : Policy) (hu : p.allowUnsafe = false) (st : LoopState) (t1 t2 : Token)
    (rest : List Token) (h1 : t1.tt = .start ∨ t1.tt = .selfClosing)
    (hs : isScriptOrStyle t1.data = true) (h2 : t2.tt = .text) :
    p.run st (t1 :: t2 :: rest) = p.run { st with mostRecentlyStartedToken := t1.data } rest := by
  have e1 := script_open_step p hu st t1 h1 hs
  have e2 := script_body_step p hu { st with mostRecentlyStartedToken := t1.data } t2 h2 (by simpa using hs)
  simp [Policy.run, e1, e2]

/-- non-vacuity (the self-closing form that used to leak) -/
example :
    let p : Policy := { initialized := true, elsAndAttrs := [(b!"script", []), (b!"b", [])],
                        setOfElementsAllowedWithoutAttrs := [b!"b", b!"script"] }
    p.sanitizeCore b!"<script/>ZQ1</script><b>k</b><SCRIPT>ZQ2</SCRIPT>" = b!"<b>k</b>" := by decide

/-- **C05 (byte level)**: for a plain policy — even one that names script or style, or matches
    them with a pattern — no token an HTML tokenizer finds in the returned bytes is a start,
    end or self-closing tag named script or style. -/
theorem C05_bytes (p : Policy) (hp : Plain p.ensureInit) (input : Bytes) :
    ∀ k ∈ tokenize (p.sanitizeCore input), isTag k = true → isScriptOrStyle k.data = false := by
  intro k hk htag
  obtain ⟨toks, _, hrt, hf⟩ := sanitizeTokens_roundtrip hp (tokenize input) (tokenize_wf input)
  unfold Policy.sanitizeCore at hk
  rw [hrt] at hk
  rcases mem_coalesce toks [] k hk with h | ⟨hmem, hne⟩
  · unfold isTag at htag; rw [h.1] at htag; exact absurd htag (by decide)
  · obtain ⟨t, _, _, hor⟩ := hf k hmem
    rcases hor with h | ⟨_, _, _, hss⟩
    · exact absurd h.1 hne
    · exact hss

/-- **C05 (byte level), comments allowed or not**: the same for every policy without AllowUnsafe
    and without a raw-text element on its allowlist, whether or not it allows comments -/
theorem C05_bytesC (p : Policy) (hp : PlainC p.ensureInit) (input : Bytes) :
    ∀ k ∈ tokenize (p.sanitizeCore input), isTag k = true → isScriptOrStyle k.data = false := by
  intro k hk htag
  obtain ⟨toks, _, hrt, hf⟩ := sanitizeTokens_roundtripC hp (tokenize input) (tokenize_wf input)
  unfold Policy.sanitizeCore at hk
  rw [hrt] at hk
  rcases mem_coalesce (toks.map reread) [] k hk with h | ⟨hmem, hne⟩
  · unfold isTag at htag; rw [h.1] at htag; exact absurd htag (by decide)
  · have hnc : k.tt ≠ .comment := by
      intro h; unfold isTag at htag; rw [h] at htag; exact absurd htag (by decide)
    obtain ⟨_, t, _, hor⟩ := hf k (mem_map_reread hmem hnc)
    rcases hor with ⟨_, (h | ⟨_, _, _, hss⟩)⟩ | ⟨h, _⟩
    · exact absurd h.1 hne
    · exact hss
    · exact absurd h hnc

/-- (per-input form)  **C05 (byte level), comments allowed or not**: the same for every policy without AllowUnsafe
    and without a raw-text element on its allowlist, whether or not it allows comments -/
theorem C05_bytesC_on (p : Policy) (input : Bytes) (hp : PlainOn p.ensureInit (tokenize input)) :
    ∀ k ∈ tokenize (p.sanitizeCore input), isTag k = true → isScriptOrStyle k.data = false := by
  intro k hk htag
  obtain ⟨toks, _, hrt, hf⟩ := sanitizeTokens_roundtripOn (tokenize input) hp (tokenize_wf input)
  unfold Policy.sanitizeCore at hk
  rw [hrt] at hk
  rcases mem_coalesce (toks.map reread) [] k hk with h | ⟨hmem, hne⟩
  · unfold isTag at htag; rw [h.1] at htag; exact absurd htag (by decide)
  · have hnc : k.tt ≠ .comment := by
      intro h; unfold isTag at htag; rw [h] at htag; exact absurd htag (by decide)
    obtain ⟨_, t, _, hor⟩ := hf k (mem_map_reread hmem hnc)
    rcases hor with ⟨_, (h | ⟨_, _, _, hss⟩)⟩ | ⟨h, _⟩
    · exact absurd h.1 hne
    · exact hss
    · exact absurd h hnc

end BM.Props
