import BM.Sanitize
/-
  C16: I/O failures are reported and the output stays a clean prefix.
  The model of the destination is `feed`: the sequence of `WriteString` calls the loop makes
  (`Policy.run`) is offered to a writer whose k-th call fails (transiently or for good).
-/
namespace BM.Props
open BM

/-- the fault-free run: every write is accepted, no error -/
theorem feed_none (ws : List Write) (n : Nat) :
    feed none false n ws = (ws.map (·.data), n + ws.length, false) := by
  induction ws generalizing n with
  | nil => simp [feed]
  | cons w ws ih => simp [feed, ih]; omega

/-- what a faulty destination accepted is a prefix of the fault-free write sequence -/
theorem feed_prefix (k : Nat) (perm : Bool) (ws : List Write) (n : Nat) :
    ∃ rest, ws.map (·.data) = (feed (some k) perm n ws).1 ++ rest := by
  induction ws generalizing n with
  | nil => exact ⟨[], by simp [feed]⟩
  | cons w ws ih =>
    unfold feed
    simp only
    by_cases hf : callFails k perm n = true
    · simp [hf]
    · obtain ⟨rest, hr⟩ := ih (n + 1)
      refine ⟨rest, ?_⟩
      simp [hf, hr]

/-- a failing call that is reached makes the run return an error, and no call follows it:
    the number of calls made is exactly `k + 1` -/
theorem feed_fail_reported (k : Nat) (perm : Bool) (ws : List Write)
    (n : Nat) (hn : n ≤ k) (hk : k < n + ws.length) :
    (feed (some k) perm n ws).2.2 = true ∧ (feed (some k) perm n ws).2.1 = k + 1 := by
  induction ws generalizing n with
  | nil => simp at hk; omega
  | cons w ws ih =>
    unfold feed
    simp only
    by_cases hkn : k = n
    · subst hkn
      have : callFails k perm k = true := by cases perm <;> simp [callFails]
      simp [this]
    · have hfalse : callFails k perm n = false := by
        cases perm <;> simp [callFails] <;> omega
      simp only [hfalse]
      have := ih (n + 1) (by omega) (by simp at hk; omega)
      simpa using this

/-- a failure index that is never reached changes nothing -/
theorem feed_fail_unreached (k : Nat) (perm : Bool) (ws : List Write) (n : Nat) (hk : n + ws.length ≤ k) :
    feed (some k) perm n ws = (ws.map (·.data), n + ws.length, false) := by
  induction ws generalizing n with
  | nil => simp [feed]
  | cons w ws ih =>
    unfold feed
    simp at hk
    have hfalse : callFails k perm n = false := by
      cases perm <;> simp [callFails] <;> omega
    simp only [hfalse]
    rw [ih (n + 1) (by omega)]
    simp; omega

/-- **C16 (writer half)** for every policy, input, failure index and failure kind:
    the accepted bytes are a prefix of the fault-free output; if the failing call is reached
    an error is returned and exactly `k+1` write calls were made (none after the failure) -/
theorem C16_writer (p : Policy) (input : Bytes) (k : Nat) (perm : Bool) :
    let ws := (p.run {} (Html.tokenize input)).1
    (∃ rest, ws.map (·.data) = (feed (some k) perm 0 ws).1 ++ rest) ∧
    (k < ws.length → (feed (some k) perm 0 ws).2.2 = true ∧ (feed (some k) perm 0 ws).2.1 = k + 1) ∧
    (ws.length ≤ k → (feed (some k) perm 0 ws).2.2 = false) := by
  intro ws
  refine ⟨feed_prefix k perm ws 0, ?_, ?_⟩
  · intro hk; exact feed_fail_reported k perm ws 0 (by omega) (by omega)
  · intro hk; rw [feed_fail_unreached k perm ws 0 (by omega)]

/-- non-vacuity: a run with several writes, failing at the second -/
example :
    let p : Policy := { initialized := true, elsAndAttrs := [(b!"b", [])], setOfElementsAllowedWithoutAttrs := [b!"b"] }
    let ws := (p.run {} (Html.tokenize b!"<b>x</b>")).1
    ws.length = 3 ∧ (feed (some 1) false 0 ws) = ([b!"<b>"], 2, true) := by decide

end BM.Props
