import BM.Sanitize
import BM.Entry
/-
  C16: I/O failures are reported and the output stays a clean prefix.
  The model of the destination is `feed`: the sequence of `WriteString` calls the loop makes
  (`Policy.run`) is offered to a writer whose k-th call fails (transiently or for good).
-/
namespace BM.Props
open BM

/-- the fault-free run: every write is accepted, no error -/
theorem feed_none (ws : List Write) (n : Nat) :
    feed none false n ws = (ws.map (·.data), n + ws.length, false) := by
  induction ws generalizing n with
  | nil => simp [feed]
  | cons w ws ih => simp [feed, ih]; omega

/-- what a faulty destination accepted is a prefix of the fault-free write sequence -/
theorem feed_prefix (k : Nat) (perm : Bool) (ws : List Write) (n : Nat) :
    ∃ rest, ws.map (·.data) = (feed (some k) perm n ws).1 ++ rest := by
  induction ws generalizing n with
  | nil => exact ⟨[], by simp [feed]⟩
  | cons w ws ih =>
    unfold feed
    simp only
    by_cases hf : callFails k perm n = true
    · simp [hf]
    · obtain ⟨rest, hr⟩ := ih (n + 1)
      refine ⟨rest, ?_⟩
      simp [hf, hr]

/-- a failing call that is reached makes the run return an error, and no call follows it:
    the number of calls made is exactly `k + 1` -/
theorem feed_fail_reported (k : Nat) (perm : Bool) (ws : List Write)
    (n : Nat) (hn : n ≤ k) (hk : k < n + ws.length) :
    (feed (some k) perm n ws).2.2 = true ∧ (feed (some k) perm n ws).2.1 = k + 1 := by
  induction ws generalizing n with
  | nil => simp at hk; omega
  | cons w ws ih =>
    unfold feed
    simp only
    by_cases hkn : k = n
    · subst hkn
      have : callFails k perm k = true := by cases perm <;> simp [callFails]
      simp [this]
    · have hfalse : callFails k perm n = false := by
        cases perm <;> simp [callFails] <;> omega
      simp only [hfalse]
      have := ih (n + 1) (by omega) (by simp at hk; omega)
      simpa using this

/-- a failure index that is never reached changes nothing -/
theorem feed_fail_unreached (k : Nat) (perm : Bool) (ws : List Write) (n : Nat) (hk : n + ws.length ≤ k) :
    feed (some k) perm n ws = (ws.map (·.data), n + ws.length, false) := by
  induction ws generalizing n with
  | nil => simp [feed]
  | cons w ws ih =>
    unfold feed
    simp at hk
    have hfalse : callFails k perm n = false := by
      cases perm <;> simp [callFails] <;> omega
    simp only [hfalse]
    rw [ih (n + 1) (by omega)]
    simp; omega

/-- **C16 (writer half)** for every policy, input, failure index and failure kind:
    the accepted bytes are a prefix of the fault-free output; if the failing call is reached
    an error is returned and exactly `k+1` write calls were made (none after the failure) -/
theorem C16_writer (p : Policy) (input : Bytes) (k : Nat) (perm : Bool) :
    let ws := (p.run {} (Html.tokenize input)).1
    (∃ rest, ws.map (·.data) = (feed (some k) perm 0 ws).1 ++ rest) ∧
    (k < ws.length → (feed (some k) perm 0 ws).2.2 = true ∧ (feed (some k) perm 0 ws).2.1 = k + 1) ∧
    (ws.length ≤ k → (feed (some k) perm 0 ws).2.2 = false) := by
  intro ws
  refine ⟨feed_prefix k perm ws 0, ?_, ?_⟩
  · intro hk; exact feed_fail_reported k perm ws 0 (by omega) (by omega)
  · intro hk; rw [feed_fail_unreached k perm ws 0 (by omega)]

/-- **C16 (reader half)** for every policy, every prefix the reader delivered before it failed, and
    whatever the destination does: `SanitizeReaderToWriter` returns an error and `SanitizeReader`
    returns an empty buffer -/
theorem C16_reader (p : Policy) (delivered : Bytes) (failAt : Option Nat) (perm : Bool) :
    (p.sanitizeRW delivered .failed failAt perm).2 = true ∧ p.sanitizeReaderM delivered .failed = [] := by
  unfold Policy.sanitizeReaderM Policy.sanitizeRW
  simp

/-- **C16 (writer half) on the entry point**: with a reader that ends normally, the funnel returns
    an error exactly when a write call that is reached fails, and what the destination accepted is
    a prefix of the fault-free result -/
theorem C16_entry_writer (p : Policy) (input : Bytes) (k : Nat) (perm : Bool) :
    let ws := (p.ensureInit.run {} (Html.tokenize input)).1
    ((p.sanitizeRW input .eof (some k) perm).2 = true ↔ k < ws.length) ∧
    ∃ rest, p.sanitizeCore input = (p.sanitizeRW input .eof (some k) perm).1.flatten ++ rest := by
  intro ws
  have hw := C16_writer p.ensureInit input k perm
  obtain ⟨⟨rest, hpre⟩, hfail, hok⟩ := hw
  constructor
  · have hdec : decide (ReadEnd.eof = ReadEnd.failed) = false := by decide
    unfold Policy.sanitizeRW
    simp only [hdec, Bool.or_false]
    constructor
    · intro h
      by_cases hk : k < ws.length
      · exact hk
      · have := hok (Nat.le_of_not_lt hk)
        rw [this] at h; cases h
    · intro hk; exact (hfail hk).1
  · refine ⟨rest.flatten, ?_⟩
    unfold Policy.sanitizeCore Policy.sanitizeTokens Policy.sanitizeRW
    simp only
    rw [hpre, List.flatten_append]

/-- non-vacuity: a run with several writes, failing at the second -/
example :
    let p : Policy := { initialized := true, elsAndAttrs := [(b!"b", [])], setOfElementsAllowedWithoutAttrs := [b!"b"] }
    let ws := (p.run {} (Html.tokenize b!"<b>x</b>")).1
    ws.length = 3 ∧ (feed (some 1) false 0 ws) = ([b!"<b>"], 2, true) := by decide

end BM.Props
