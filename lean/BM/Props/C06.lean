import BM.Proofs.Step
import BM.Proofs.Escape
import BM.Proofs.RoundTrip
/-
  C06: text is preserved exactly and always emitted escaped.  Proved (event level, all
  policies with AllowUnsafe off, all token sequences):
  * outside skipped content and outside script/style bodies a text token is written
    exactly once, as `escape data` — nothing else about the token reaches the output;
  * inside skipped content, or directly after a script/style tag, it writes nothing;
  * an escaped text contains none of `< > " '` and no raw CR, so it cannot become markup;
  * no other token writes text: tags write a tag or a space, comments a comment.
  Partial: that the tokenizer reads `escape data` back as `data` (the text half of the
  round trip RT) is proved separately (`Proofs/RoundTrip.lean`, as far as it has got); the
  equality of re-read texts is checked by `oracleC06` on every case.
-/
namespace BM.Props
open BM BM.Html

theorem text_written_once (p : Policy) (st : LoopState) (t : Token) (htt : t.tt = .text)
    (hskip : st.skipElementContent = false) (hrec : isScriptOrStyle st.mostRecentlyStartedToken = false) :
    p.step st t = some (st, [⟨escape t.data⟩]) := by
  simp [Policy.step, htt, Policy.stepText, hskip, hrec, Token.render]

theorem text_hidden_when_skipping (p : Policy) (st : LoopState) (t : Token) (htt : t.tt = .text)
    (hskip : st.skipElementContent = true) : p.step st t = some (st, []) := by
  simp [Policy.step, htt, Policy.stepText, hskip]

theorem text_hidden_in_script (p : Policy) (hu : p.allowUnsafe = false) (st : LoopState) (t : Token)
    (htt : t.tt = .text) (hrec : isScriptOrStyle st.mostRecentlyStartedToken = true) :
    p.step st t = some (st, []) := by
  simp [Policy.step, htt, Policy.stepText, hrec, hu]

/-- a text token never changes the loop state -/
theorem text_keeps_state (p : Policy) (st : LoopState) (t : Token) (htt : t.tt = .text) :
    ∃ ws, p.step st t = some (st, ws) := by
  simp [Policy.step, htt]

/-- with AddSpaceWhenStrippingTag off, the only writes that carry text are escaped texts:
    every other write starts with `<` (a tag or a comment) -/
theorem non_text_writes_are_markup (p : Policy) (hs : p.addSpaces = false) (hu : p.allowUnsafe = false)
    (st : LoopState) (t : Token) (ws : List Write) (he : Emit p st t ws) (hnt : t.tt ≠ .text) :
    ∀ w ∈ ws, w.data.head? = some 60 := by
  cases he with
  | nothing => simp
  | space h => simp [hs] at h
  | comment htt _ => intro w hw; simp at hw; subst hw; simp [Token.render, htt]
  | openTag _ _ htt _ _ _ _ _ =>
    intro w hw; simp at hw; subst hw
    rcases htt with h | h <;> simp [Token.render, h]
  | closeTag htt _ _ => intro w hw; simp at hw; subst hw; simp [Token.render, htt]
  | text htt _ _ => exact absurd htt hnt
  | rawText _ h _ => simp [hu] at h

example :
    let p : Policy := { initialized := true, elsAndAttrs := [(b!"b", [])], setOfElementsAllowedWithoutAttrs := [b!"b"] }
    p.sanitizeCore b!"a &amp; b <i>&lt;c&gt;</i> \"q\" <b>'s'\r</b>" =
      b!"a &amp; b &lt;c&gt; &#34;q&#34; <b>&#39;s&#39;\n</b>" := by decide

end BM.Props
