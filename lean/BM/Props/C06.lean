import BM.Proofs.Step
import BM.Proofs.Escape
import BM.Proofs.RoundTrip
import BM.Proofs.Bytes
import BM.Props.C14
/-
  C06: text is preserved exactly and always emitted escaped.  Proved (event level, all
  policies with AllowUnsafe off, all token sequences):
  * outside skipped content and outside script/style bodies a text token is written
    exactly once, as `escape data` — nothing else about the token reaches the output;
  * inside skipped content, or directly after a script/style tag, it writes nothing;
  * an escaped text contains none of `< > " '` and no raw CR, so it cannot become markup;
  * no other token writes text: tags write a tag or a space, comments a comment.
  Partial: that the tokenizer reads `escape data` back as `data` (the text half of the
  round trip RT) is proved separately (`Proofs/RoundTrip.lean`, as far as it has got); the
  equality of re-read texts is checked by `oracleC06` on every case.
-/
namespace BM.Props
open BM BM.Html BM.Spec

theorem text_written_once (p : Policy) (st : LoopState) (t : Token) (htt : t.tt = .text)
    (hskip : st.skipElementContent = false) (hrec : isScriptOrStyle st.mostRecentlyStartedToken = false) :
    p.step st t = some (st, [⟨escape t.data⟩]) := by
  simp [Policy.step, htt, Policy.stepText, hskip, hrec, Token.render]

theorem text_hidden_when_skipping (p : Policy) (st : LoopState) (t : Token) (htt : t.tt = .text)
    (hskip : st.skipElementContent = true) : p.step st t = some (st, []) := by
  simp [Policy.step, htt, Policy.stepText, hskip]

theorem text_hidden_in_script (p : Policy) (hu : p.allowUnsafe = false) (st : LoopState) (t : Token)
    (htt : t.tt = .text) (hrec : isScriptOrStyle st.mostRecentlyStartedToken = true) :
    p.step st t = some (st, []) := by
  simp [Policy.step, htt, Policy.stepText, hrec, hu]

/-- a text token never changes the loop state -/
theorem text_keeps_state (p : Policy) (st : LoopState) (t : Token) (htt : t.tt = .text) :
    ∃ ws, p.step st t = some (st, ws) := by
  simp [Policy.step, htt]

/-- with AddSpaceWhenStrippingTag off, the only writes that carry text are escaped texts:
    every other write starts with `<` (a tag or a comment) -/
theorem non_text_writes_are_markup (p : Policy) (hs : p.addSpaces = false) (hu : p.allowUnsafe = false)
    (st : LoopState) (t : Token) (ws : List Write) (he : Emit p st t ws) (hnt : t.tt ≠ .text) :
    ∀ w ∈ ws, w.data.head? = some 60 := by
  cases he with
  | nothing => simp
  | space h => simp [hs] at h
  | comment htt _ => intro w hw; simp at hw; subst hw; simp [Token.render, htt]
  | openTag _ _ htt _ _ _ _ _ =>
    intro w hw; simp at hw; subst hw
    rcases htt with h | h <;> simp [Token.render, h]
  | closeTag htt _ _ => intro w hw; simp at hw; subst hw; simp [Token.render, htt]
  | text htt _ _ => exact absurd htt hnt
  | rawText _ h _ => simp [hu] at h

/-! ### byte level -/

theorem tokWF_nameOK {t : Token} (h : TokWF t) : NameOK t := by
  intro htt
  unfold TokWF at h
  rw [htt] at h
  obtain ⟨⟨c, cs, hd, hc, _⟩, _⟩ := h
  rw [hd]
  simp only [List.head?_cons, ne_eq, Option.some.injEq]
  intro h47; subst h47; revert hc; decide

/-- what one quiet iteration writes, as tokens: the text itself for a text token, only tags
    otherwise (no spaces are added) -/
theorem quiet_step_toks {p : Policy} (hp : Plain p) (hs : p.addSpaces = false) {st : LoopState} {t : Token}
    (hwf : TokWF t) (hq : Quiet st) {st' : LoopState} {ws : List Write} (h : p.step st t = some (st', ws)) :
    ∃ toks : List Token, ws.map (·.data) = toks.map Token.render ∧ (∀ k ∈ toks, SegOK k) ∧
      textOf toks = textOf [t] := by
  by_cases htt : t.tt = .text
  · have := text_written_once p st t htt hq.1 hq.2
    rw [this] at h
    simp only [Option.some.injEq, Prod.mk.injEq] at h
    obtain ⟨_, rfl⟩ := h
    refine ⟨[⟨.text, t.data, []⟩], by simp [Token.render], by intro k hk; simp at hk; subst hk; simp [SegOK], ?_⟩
    rw [textOf_cons, textOf_cons, htt]
  · obtain ⟨toks, hr, hf⟩ := emit_toks hp hwf (step_emit p st t st' ws h)
    refine ⟨toks, hr, fun k hk => (hf k hk).1, ?_⟩
    have hnt : ∀ k ∈ toks, (k.tt == TT.text) = false := by
      intro k hk
      obtain ⟨_, hor⟩ := hf k hk
      rcases hor with ⟨_, (⟨_, hsp⟩ | ⟨ht, _⟩)⟩ | ⟨hkt, _⟩
      · rw [hs] at hsp; cases hsp
      · exact absurd ht htt
      · rw [hkt]; revert htt; cases t.tt <;> intro htt <;> first | rfl | exact absurd rfl htt
    have h1 : textOf toks = [] := by
      unfold textOf
      rw [List.filter_eq_nil_iff.mpr (fun k hk => by simp [hnt k hk])]
      rfl
    have h2 : textOf [t] = [] := by
      have : (t.tt == TT.text) = false := by
        revert htt; cases t.tt <;> intro htt <;> first | rfl | exact absurd rfl htt
      rw [textOf_cons, this]; rfl
    rw [h1, h2]

/-- in a quiet run without added spaces the written tokens carry exactly the input's text -/
theorem run_text {p : Policy} (hp : Plain p) (hs : p.addSpaces = false) (ts : List Token)
    (hwf : ∀ t ∈ ts, TokWF t) (hc : ∀ t ∈ ts, CalmTok p t) :
    ∀ st, Quiet st → StackInv st → ∃ toks : List Token,
      (p.run st ts).1.map (·.data) = toks.map Token.render ∧ (∀ k ∈ toks, SegOK k) ∧
      textOf toks = textOf ts := by
  induction ts with
  | nil => intro st _ _; exact ⟨[], by simp [Policy.run], by simp, rfl⟩
  | cons t ts ih =>
    intro st hq hi
    obtain ⟨st', ws, hstep, hi'⟩ := step_safe p st t (tokWF_nameOK (hwf t (by simp))) hi
    have hq' := step_quiet p st t st' ws hstep hq (hc t (by simp))
    obtain ⟨k1, hr1, hs1, ht1⟩ := quiet_step_toks hp hs (hwf t (by simp)) hq hstep
    obtain ⟨k2, hr2, hs2, ht2⟩ := ih (fun x hx => hwf x (by simp [hx])) (fun x hx => hc x (by simp [hx])) st' hq' hi'
    refine ⟨k1 ++ k2, ?_, ?_, ?_⟩
    · unfold Policy.run; simp only [hstep]; simp [hr1, hr2]
    · intro k hk; simp only [List.mem_append] at hk
      rcases hk with h | h
      · exact hs1 k h
      · exact hs2 k h
    · rw [textOf_append, ht1, ht2]
      have : t :: ts = [t] ++ ts := rfl
      rw [this, textOf_append]

/-- **C06 (byte level)**: for a plain policy (no AllowUnsafe, no comments, no raw-text element
    allowed) without AddSpaceWhenStrippingTag, and an input whose tags are neither script/style
    nor in the policy's skip-content set, the text an HTML tokenizer reads from the output
    equals the text it reads from the input — nothing lost, duplicated, altered or turned
    into markup. -/
theorem C06_bytes (p : Policy) (hp : Plain p.ensureInit) (hs : p.ensureInit.addSpaces = false) (input : Bytes)
    (hc : ∀ t ∈ tokenize input, CalmTok p.ensureInit t) :
    textOf (tokenize (p.sanitizeCore input)) = textOf (tokenize input) := by
  obtain ⟨toks, hr, hseg, htext⟩ :=
    run_text hp hs (tokenize input) (tokenize_wf input) hc {} ⟨rfl, rfl⟩ stackInv_init
  have hb : p.sanitizeCore input = renderAll toks := by
    unfold Policy.sanitizeCore Policy.sanitizeTokens
    rw [hr, flatten_map_render]
  rw [hb, tokenize_renderAll toks hseg, textOf_coalesce]
  simpa using htext

/-- non-vacuity: the hypotheses of `C06_bytes` are met by a concrete policy and input with
    kept tags, dropped tags and entities -/
example :
    let p : Policy := { initialized := true, elsAndAttrs := [(b!"b", [])], setOfElementsAllowedWithoutAttrs := [b!"b"],
                        setOfElementsToSkipContent := [b!"object"] }
    p.ensureInit.addSpaces = false ∧
    (∀ t ∈ tokenize b!"a &amp; <i>&lt;c</i> <b>d</b>", CalmTok p.ensureInit t) := by
  refine ⟨rfl, ?_⟩
  unfold CalmTok
  decide

example :
    let p : Policy := { initialized := true, elsAndAttrs := [(b!"b", [])], setOfElementsAllowedWithoutAttrs := [b!"b"] }
    p.sanitizeCore b!"a &amp; b <i>&lt;c&gt;</i> \"q\" <b>'s'\r</b>" =
      b!"a &amp; b &lt;c&gt; &#34;q&#34; <b>&#39;s&#39;\n</b>" := by decide

end BM.Props
