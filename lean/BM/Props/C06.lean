import BM.Proofs.Step
import BM.Proofs.Escape
import BM.Proofs.RoundTrip
import BM.Proofs.Bytes
import BM.Props.C14
import BM.Proofs.ProvC
/-
  C06: text is preserved exactly and always emitted escaped.  Proved (event level, all
  policies with AllowUnsafe off, all token sequences):
  * outside skipped content and outside script/style bodies a text token is written
    exactly once, as `escape data` — nothing else about the token reaches the output;
  * inside skipped content, or directly after a script/style tag, it writes nothing;
  * an escaped text contains none of `< > " '` and no raw CR, so it cannot become markup;
  * no other token writes text: tags write a tag or a space, comments a comment.
  Partial: that the tokenizer reads `escape data` back as `data` (the text half of the
  round trip RT) is proved separately (`Proofs/RoundTrip.lean`, as far as it has got); the
  equality of re-read texts is checked by `oracleC06` on every case.
-/
namespace BM.Props
open BM BM.Html BM.Spec

theorem text_written_once (p : Policy) (st : LoopState) (t : Token) (htt : t.tt = .text)
    (hskip : st.skipElementContent = false) (hrec : isScriptOrStyle st.mostRecentlyStartedToken = false) :
    p.step st t = some (st, [⟨escape t.data⟩]) := by
  simp [Policy.step, htt, Policy.stepText, hskip, hrec, Token.render]

theorem text_hidden_when_skipping (p : Policy) (st : LoopState) (t : Token) (htt : t.tt = .text)
    (hskip : st.skipElementContent = true) : p.step st t = some (st, []) := by
  simp [Policy.step, htt, Policy.stepText, hskip]

theorem text_hidden_in_script (p : Policy) (hu : p.allowUnsafe = false) (st : LoopState) (t : Token)
    (htt : t.tt = .text) (hrec : isScriptOrStyle st.mostRecentlyStartedToken = true) :
    p.step st t = some (st, []) := by
  simp [Policy.step, htt, Policy.stepText, hrec, hu]

/-- a text token never changes the loop state -/
theorem text_keeps_state (p : Policy) (st : LoopState) (t : Token) (htt : t.tt = .text) :
    ∃ ws, p.step st t = some (st, ws) := by
  simp [Policy.step, htt]

/-- with AddSpaceWhenStrippingTag off, the only writes that carry text are escaped texts:
    every other write starts with `<` (a tag or a comment) -/
theorem non_text_writes_are_markup (p : Policy) (hs : p.addSpaces = false) (hu : p.allowUnsafe = false)
    (st : LoopState) (t : Token) (ws : List Write) (he : Emit p st t ws) (hnt : t.tt ≠ .text) :
    ∀ w ∈ ws, w.data.head? = some 60 := by
  cases he with
  | nothing => simp
  | space h => simp [hs] at h
  | comment htt _ => intro w hw; simp at hw; subst hw; simp [Token.render, htt]
  | openTag _ _ htt _ _ _ _ _ =>
    intro w hw; simp at hw; subst hw
    rcases htt with h | h <;> simp [Token.render, h]
  | closeTag htt _ _ => intro w hw; simp at hw; subst hw; simp [Token.render, htt]
  | text htt _ _ => exact absurd htt hnt
  | rawText _ h _ => simp [hu] at h

/-! ### byte level -/

theorem tokWF_nameOK {t : Token} (h : TokWF t) : NameOK t := by
  intro htt
  unfold TokWF at h
  rw [htt] at h
  obtain ⟨⟨c, cs, hd, hc, _⟩, _⟩ := h
  rw [hd]
  simp only [List.head?_cons, ne_eq, Option.some.injEq]
  intro h47; subst h47; revert hc; decide

/-- what one quiet iteration writes, as tokens: the text itself for a text token, only tags
    otherwise (no spaces are added) -/
theorem quiet_step_toks {p : Policy} (hp : Plain p) (hs : p.addSpaces = false) {st : LoopState} {t : Token}
    (hwf : TokWF t) (hq : Quiet st) {st' : LoopState} {ws : List Write} (h : p.step st t = some (st', ws)) :
    ∃ toks : List Token, ws.map (·.data) = toks.map Token.render ∧ (∀ k ∈ toks, SegOK k) ∧
      textOf toks = textOf [t] := by
  by_cases htt : t.tt = .text
  · have := text_written_once p st t htt hq.1 hq.2
    rw [this] at h
    simp only [Option.some.injEq, Prod.mk.injEq] at h
    obtain ⟨_, rfl⟩ := h
    refine ⟨[⟨.text, t.data, []⟩], by simp [Token.render], by intro k hk; simp at hk; subst hk; simp [SegOK], ?_⟩
    rw [textOf_cons, textOf_cons, htt]
  · obtain ⟨toks, hr, hf⟩ := emit_toks hp hwf (step_emit p st t st' ws h)
    refine ⟨toks, hr, fun k hk => (hf k hk).1, ?_⟩
    have hnt : ∀ k ∈ toks, (k.tt == TT.text) = false := by
      intro k hk
      obtain ⟨_, hor⟩ := hf k hk
      rcases hor with ⟨_, (⟨_, hsp⟩ | ⟨ht, _⟩)⟩ | ⟨hkt, _⟩
      · rw [hs] at hsp; cases hsp
      · exact absurd ht htt
      · rw [hkt]; revert htt; cases t.tt <;> intro htt <;> first | rfl | exact absurd rfl htt
    have h1 : textOf toks = [] := by
      unfold textOf
      rw [List.filter_eq_nil_iff.mpr (fun k hk => by simp [hnt k hk])]
      rfl
    have h2 : textOf [t] = [] := by
      have : (t.tt == TT.text) = false := by
        revert htt; cases t.tt <;> intro htt <;> first | rfl | exact absurd rfl htt
      rw [textOf_cons, this]; rfl
    rw [h1, h2]

/-- in a quiet run without added spaces the written tokens carry exactly the input's text -/
theorem run_text {p : Policy} (hp : Plain p) (hs : p.addSpaces = false) (ts : List Token)
    (hwf : ∀ t ∈ ts, TokWF t) (hc : ∀ t ∈ ts, CalmTok p t) :
    ∀ st, Quiet st → StackInv st → ∃ toks : List Token,
      (p.run st ts).1.map (·.data) = toks.map Token.render ∧ (∀ k ∈ toks, SegOK k) ∧
      textOf toks = textOf ts := by
  induction ts with
  | nil => intro st _ _; exact ⟨[], by simp [Policy.run], by simp, rfl⟩
  | cons t ts ih =>
    intro st hq hi
    obtain ⟨st', ws, hstep, hi'⟩ := step_safe p st t (tokWF_nameOK (hwf t (by simp))) hi
    have hq' := step_quiet p st t st' ws hstep hq (hc t (by simp))
    obtain ⟨k1, hr1, hs1, ht1⟩ := quiet_step_toks hp hs (hwf t (by simp)) hq hstep
    obtain ⟨k2, hr2, hs2, ht2⟩ := ih (fun x hx => hwf x (by simp [hx])) (fun x hx => hc x (by simp [hx])) st' hq' hi'
    refine ⟨k1 ++ k2, ?_, ?_, ?_⟩
    · unfold Policy.run; simp only [hstep]; simp [hr1, hr2]
    · intro k hk; simp only [List.mem_append] at hk
      rcases hk with h | h
      · exact hs1 k h
      · exact hs2 k h
    · rw [textOf_append, ht1, ht2]
      have : t :: ts = [t] ++ ts := rfl
      rw [this, textOf_append]

/-- **C06 (byte level)**: for a plain policy (no AllowUnsafe, no comments, no raw-text element
    allowed) without AddSpaceWhenStrippingTag, and an input whose tags are neither script/style
    nor in the policy's skip-content set, the text an HTML tokenizer reads from the output
    equals the text it reads from the input — nothing lost, duplicated, altered or turned
    into markup. -/
theorem C06_bytes (p : Policy) (hp : Plain p.ensureInit) (hs : p.ensureInit.addSpaces = false) (input : Bytes)
    (hc : ∀ t ∈ tokenize input, CalmTok p.ensureInit t) :
    textOf (tokenize (p.sanitizeCore input)) = textOf (tokenize input) := by
  obtain ⟨toks, hr, hseg, htext⟩ :=
    run_text hp hs (tokenize input) (tokenize_wf input) hc {} ⟨rfl, rfl⟩ stackInv_init
  have hb : p.sanitizeCore input = renderAll toks := by
    unfold Policy.sanitizeCore Policy.sanitizeTokens
    rw [hr, flatten_map_render]
  rw [hb, tokenize_renderAll toks hseg, textOf_coalesce]
  simpa using htext

/-! ### the added-space clause -/

/-- what a quiet iteration on a tag writes when spaces are added: exactly one token, the tag or
    one space -/
theorem quiet_tag_step_sp {p : Policy} (hp : Plain p) (hs : p.addSpaces = true) {st : LoopState} {t : Token}
    (hwf : TokWF t) (hq : Quiet st) (hc : CalmTok p t) (htag : isTag t = true)
    {st' : LoopState} {ws : List Write} (h : p.step st t = some (st', ws)) :
    ∃ k : Token, ws.map (·.data) = [k.render] ∧ SegOK k ∧ ((k.tt = .text ∧ k.data = [32]) ∨ isTag k = true) := by
  obtain ⟨toks, hr, hf⟩ := emit_toks hp hwf (step_emit p st t st' ws h)
  obtain ⟨hss, _⟩ := hc htag
  have hsp : p.space = [⟨[32]⟩] := by simp [Policy.space, hs]
  have hone : ∃ w, ws = [w] := by
    unfold Policy.step at h
    unfold isTag at htag
    split at h
    · rename_i htt; rw [htt] at htag; exact absurd htag (by decide)
    · rename_i htt; rw [htt] at htag; exact absurd htag (by decide)
    · unfold Policy.stepStart at h
      simp only [hss, Bool.false_and, Bool.false_eq_true, ↓reduceIte] at h
      repeat' split at h
      all_goals (simp at h)
      all_goals (obtain ⟨_, rfl⟩ := h)
      · exact ⟨_, hsp⟩
      · exact ⟨_, hsp⟩
      · unfold emitUnlessSkipping
        have : (markKept { st with mostRecentlyStartedToken := t.data } t.data).skipElementContent = false := by
          unfold markKept; split <;> exact hq.1
        simp [this]
    · unfold Policy.stepEnd at h
      have hcr : (clearRecent st t.data).skipElementContent = false := by
        unfold clearRecent; split <;> exact hq.1
      generalize clearRecent st t.data = st1 at h hcr
      simp only [hss, Bool.false_and, Bool.false_eq_true, ↓reduceIte] at h
      repeat' split at h
      all_goals (simp at h)
      all_goals (obtain ⟨_, rfl⟩ := h)
      · exact ⟨_, hsp⟩
      · exact ⟨_, hsp⟩
      · unfold emitUnlessSkipping
        have : (p.leaveSkip (popMarker st1 t.data) t.data).skipElementContent = false := by
          have h1 : (popMarker st1 t.data).skipElementContent = false := by
            unfold popMarker; split <;> exact hcr
          unfold Policy.leaveSkip; split
          · simp only; split
            · rfl
            · exact h1
          · exact h1
        simp [this]
    · unfold Policy.stepSelfClosing at h
      simp only [hss, Bool.false_and, Bool.false_eq_true, ↓reduceIte] at h
      repeat' split at h
      all_goals (simp at h)
      all_goals (obtain ⟨_, rfl⟩ := h)
      · exact ⟨_, hsp⟩
      · exact ⟨_, hsp⟩
      · unfold emitUnlessSkipping; simp [hq.1]
    · rename_i htt; rw [htt] at htag; exact absurd htag (by decide)
  obtain ⟨w, rfl⟩ := hone
  -- one write, hence one token
  cases toks with
  | nil => simp at hr
  | cons k rest =>
    cases rest with
    | cons _ _ => simp at hr
    | nil =>
      refine ⟨k, by simpa using hr, (hf k (by simp)).1, ?_⟩
      obtain ⟨_, hor⟩ := hf k (by simp)
      rcases hor with ⟨hkt, (⟨hd, _⟩ | ⟨ht, _⟩)⟩ | ⟨hkt, _⟩
      · exact .inl ⟨hkt, hd⟩
      · unfold isTag at htag
        rw [ht] at htag; exact absurd htag (by decide)
      · right
        unfold isTag at htag ⊢
        rw [hkt]; exact htag

theorem tagCount_cons (t : Token) (ts : List Token) :
    tagCount (t :: ts) = (if isTag t then 1 else 0) + tagCount ts := by
  unfold tagCount
  by_cases h : isTag t = true <;> simp [List.filter_cons, h, Nat.add_comm]

theorem tagCount_append (a b : List Token) : tagCount (a ++ b) = tagCount a + tagCount b := by
  simp [tagCount, List.filter_append]

theorem noSpaces_append (a b : Bytes) : noSpaces (a ++ b) = noSpaces a ++ noSpaces b := by
  simp [noSpaces, List.filter_append]

/-- merging adjacent texts does not change the number of tags -/
theorem tagCount_coalesce : ∀ (ts : List Token) (d : Bytes), tagCount (coalesce d ts) = tagCount ts
  | [], d => by
    simp only [coalesce, flushText]
    split <;> simp [tagCount, isTag, tt_beq]
  | t :: ts, d => by
    simp only [coalesce]
    split
    · rename_i h
      have ht : t.tt = .text := by revert h; cases t.tt <;> intro h <;> first | rfl | exact absurd h (by decide)
      rw [tagCount_coalesce ts, tagCount_cons]
      simp [isTag, ht, tt_beq]
    · have hflush : tagCount (flushText d) = 0 := by
        unfold flushText; split <;> simp [tagCount, isTag, tt_beq]
      rw [tagCount_append, hflush, tagCount_cons, tagCount_cons, tagCount_coalesce ts]
      simp

/-- the measure of C06's added-space clause: text length plus number of tags, and the text with
    its spaces removed -/
theorem run_text_sp {p : Policy} (hp : Plain p) (hs : p.addSpaces = true) (ts : List Token)
    (hwf : ∀ t ∈ ts, TokWF t) (hc : ∀ t ∈ ts, CalmTok p t) :
    ∀ st, Quiet st → StackInv st → ∃ toks : List Token,
      (p.run st ts).1.map (·.data) = toks.map Token.render ∧ (∀ k ∈ toks, SegOK k) ∧
      (textOf toks).length + tagCount toks = (textOf ts).length + tagCount ts ∧
      noSpaces (textOf toks) = noSpaces (textOf ts) := by
  induction ts with
  | nil => intro st _ _; exact ⟨[], by simp [Policy.run], by simp, rfl, rfl⟩
  | cons t ts ih =>
    intro st hq hi
    obtain ⟨st', ws, hstep, hi'⟩ := step_safe p st t (tokWF_nameOK (hwf t (by simp))) hi
    have hq' := step_quiet p st t st' ws hstep hq (hc t (by simp))
    obtain ⟨k2, hr2, hs2, hm2, hn2⟩ :=
      ih (fun x hx => hwf x (by simp [hx])) (fun x hx => hc x (by simp [hx])) st' hq' hi'
    -- what this iteration writes
    have hthis : ∃ k1 : List Token, ws.map (·.data) = k1.map Token.render ∧ (∀ k ∈ k1, SegOK k) ∧
        (textOf k1).length + tagCount k1 = (textOf [t]).length + tagCount [t] ∧
        noSpaces (textOf k1) = noSpaces (textOf [t]) := by
      by_cases htt : t.tt = .text
      · have := text_written_once p st t htt hq.1 hq.2
        rw [this] at hstep
        simp only [Option.some.injEq, Prod.mk.injEq] at hstep
        obtain ⟨_, rfl⟩ := hstep
        refine ⟨[⟨.text, t.data, []⟩], by simp [Token.render], by intro k hk; simp at hk; subst hk; simp [SegOK], ?_, ?_⟩
        · rw [textOf_cons, textOf_cons, tagCount_cons, tagCount_cons, htt]; simp [isTag, htt, textOf, tagCount, tt_beq]
        · rw [textOf_cons, textOf_cons, htt]
      · by_cases htag : isTag t = true
        · obtain ⟨k, hr, hseg, hor⟩ := quiet_tag_step_sp hp hs (hwf t (by simp)) hq (hc t (by simp)) htag hstep
          have htne : (t.tt == TT.text) = false := by
            revert htt; cases t.tt <;> intro htt <;> first | rfl | exact absurd rfl htt
          refine ⟨[k], by simpa using hr, by intro x hx; simp at hx; subst hx; exact hseg, ?_, ?_⟩
          · rw [textOf_cons, textOf_cons, tagCount_cons, tagCount_cons, htne, htag]
            rcases hor with ⟨hkt, hkd⟩ | hk
            · have : isTag k = false := by unfold isTag; rw [hkt]; rfl
              simp [hkt, hkd, this, textOf, tagCount, tt_beq]
            · have hkne : (k.tt == TT.text) = false := by
                unfold isTag at hk; revert hk; cases k.tt <;> intro hk <;> first | rfl | exact absurd hk (by decide)
              simp [hkne, hk, textOf, tagCount]
          · rw [textOf_cons, textOf_cons, htne]
            rcases hor with ⟨hkt, hkd⟩ | hk
            · simp [hkt, hkd, textOf, noSpaces, tt_beq]
            · have hkne : (k.tt == TT.text) = false := by
                unfold isTag at hk; revert hk; cases k.tt <;> intro hk <;> first | rfl | exact absurd hk (by decide)
              simp [hkne, textOf]
        · -- a comment or doctype: nothing is written by a plain policy
          have hcd : t.tt = .comment ∨ t.tt = .doctype := by
            unfold isTag at htag
            revert htt htag; cases t.tt <;> intro htt htag
            · exact absurd rfl htt
            · exact absurd (by decide) htag
            · exact absurd (by decide) htag
            · exact absurd (by decide) htag
            · exact .inl rfl
            · exact .inr rfl
          have hws : ws = [] := by
            unfold Policy.step at hstep
            rcases hcd with h | h
            · simp only [h, hp.noComments, Bool.false_eq_true, ↓reduceIte, Option.some.injEq, Prod.mk.injEq] at hstep
              exact hstep.2.symm
            · simp only [h, Option.some.injEq, Prod.mk.injEq] at hstep
              exact hstep.2.symm
          subst hws
          have htne : (t.tt == TT.text) = false := by
            rcases hcd with h | h <;> rw [h] <;> rfl
          have htagf : isTag t = false := by simpa using htag
          refine ⟨[], rfl, by simp, ?_, ?_⟩
          · rw [textOf_cons, tagCount_cons, htne, htagf]; simp [textOf, tagCount]
          · rw [textOf_cons, htne]; simp [textOf]
    obtain ⟨k1, hr1, hs1, hm1, hn1⟩ := hthis
    refine ⟨k1 ++ k2, ?_, ?_, ?_, ?_⟩
    · unfold Policy.run; simp only [hstep]; simp [hr1, hr2]
    · intro k hk; simp only [List.mem_append] at hk
      rcases hk with h | h
      · exact hs1 k h
      · exact hs2 k h
    · have e : t :: ts = [t] ++ ts := rfl
      rw [e, textOf_append, textOf_append, tagCount_append, tagCount_append, List.length_append, List.length_append]
      omega
    · have e : t :: ts = [t] ++ ts := rfl
      rw [e, textOf_append, textOf_append, noSpaces_append, noSpaces_append, hn1, hn2]

/-- **C06, the added-space clause (byte level)**: for a plain policy with AddSpaceWhenStrippingTag
    and an input free of script/style/skip-content elements, the text re-read from the output is
    the input's text plus exactly one space per removed tag: the texts agree once spaces are
    removed, and text length + number of tags is the same on both sides. -/
theorem C06_bytes_spaces (p : Policy) (hp : Plain p.ensureInit) (hs : p.ensureInit.addSpaces = true) (input : Bytes)
    (hc : ∀ t ∈ tokenize input, CalmTok p.ensureInit t) :
    let to := tokenize (p.sanitizeCore input)
    let ti := tokenize input
    noSpaces (textOf to) = noSpaces (textOf ti) ∧
    (textOf to).length + tagCount to = (textOf ti).length + tagCount ti := by
  obtain ⟨toks, hr, hseg, hm, hn⟩ :=
    run_text_sp hp hs (tokenize input) (tokenize_wf input) hc {} ⟨rfl, rfl⟩ stackInv_init
  have hb : p.sanitizeCore input = renderAll toks := by
    unfold Policy.sanitizeCore Policy.sanitizeTokens
    rw [hr, flatten_map_render]
  simp only
  rw [hb, tokenize_renderAll toks hseg, textOf_coalesce, tagCount_coalesce]
  simp only [List.nil_append]
  exact ⟨hn, hm⟩

/-- non-vacuity: the hypotheses of `C06_bytes` are met by a concrete policy and input with
    kept tags, dropped tags and entities -/
example :
    let p : Policy := { initialized := true, elsAndAttrs := [(b!"b", [])], setOfElementsAllowedWithoutAttrs := [b!"b"],
                        setOfElementsToSkipContent := [b!"object"] }
    p.ensureInit.addSpaces = false ∧
    (∀ t ∈ tokenize b!"a &amp; <i>&lt;c</i> <b>d</b>", CalmTok p.ensureInit t) := by
  refine ⟨rfl, ?_⟩
  unfold CalmTok
  decide

example :
    let p : Policy := { initialized := true, elsAndAttrs := [(b!"b", [])], setOfElementsAllowedWithoutAttrs := [b!"b"] }
    p.sanitizeCore b!"a &amp; b <i>&lt;c&gt;</i> \"q\" <b>'s'\r</b>" =
      b!"a &amp; b &lt;c&gt; &#34;q&#34; <b>&#39;s&#39;\n</b>" := by decide

/-! ### comments allowed or not -/

theorem quiet_step_toksC {p : Policy} (hp : PlainC p) (hs : p.addSpaces = false) {st : LoopState} {t : Token}
    (hwf : TokWF t) (hq : Quiet st) {st' : LoopState} {ws : List Write} (h : p.step st t = some (st', ws)) :
    ∃ toks : List Token, ws.map (·.data) = toks.map Token.render ∧ (∀ k ∈ toks, SegOKC k) ∧
      textOf toks = textOf [t] := by
  by_cases htt : t.tt = .text
  · have := text_written_once p st t htt hq.1 hq.2
    rw [this] at h
    simp only [Option.some.injEq, Prod.mk.injEq] at h
    obtain ⟨_, rfl⟩ := h
    refine ⟨[⟨.text, t.data, []⟩], by simp [Token.render], by intro k hk; simp at hk; subst hk; exact .inl (by simp [SegOK]), ?_⟩
    rw [textOf_cons, textOf_cons, htt]
  · obtain ⟨toks, hr, hf⟩ := emit_toksC hp hwf (step_emit p st t st' ws h)
    refine ⟨toks, hr, fun k hk => (hf k hk).1, ?_⟩
    have hnt : ∀ k ∈ toks, (k.tt == TT.text) = false := by
      intro k hk
      obtain ⟨_, hor⟩ := hf k hk
      rcases hor with ⟨_, (⟨_, (⟨_, hsp⟩ | ⟨ht, _⟩)⟩ | ⟨hkt, _⟩)⟩ | ⟨hkc, _⟩
      · rw [hs] at hsp; cases hsp
      · exact absurd ht htt
      · rw [hkt]; revert htt; cases t.tt <;> intro htt <;> first | rfl | exact absurd rfl htt
      · rw [hkc]; rfl
    have h1 : textOf toks = [] := by
      unfold textOf
      rw [List.filter_eq_nil_iff.mpr (fun k hk => by simp [hnt k hk])]
      rfl
    have h2 : textOf [t] = [] := by
      have : (t.tt == TT.text) = false := by
        revert htt; cases t.tt <;> intro htt <;> first | rfl | exact absurd rfl htt
      rw [textOf_cons, this]; rfl
    rw [h1, h2]

theorem run_textC {p : Policy} (hp : PlainC p) (hs : p.addSpaces = false) (ts : List Token)
    (hwf : ∀ t ∈ ts, TokWF t) (hc : ∀ t ∈ ts, CalmTok p t) :
    ∀ st, Quiet st → StackInv st → ∃ toks : List Token,
      (p.run st ts).1.map (·.data) = toks.map Token.render ∧ (∀ k ∈ toks, SegOKC k) ∧
      textOf toks = textOf ts := by
  induction ts with
  | nil => intro st _ _; exact ⟨[], by simp [Policy.run], by simp, rfl⟩
  | cons t ts ih =>
    intro st hq hi
    obtain ⟨st', ws, hstep, hi'⟩ := step_safe p st t (tokWF_nameOK (hwf t (by simp))) hi
    have hq' := step_quiet p st t st' ws hstep hq (hc t (by simp))
    obtain ⟨k1, hr1, hs1, ht1⟩ := quiet_step_toksC hp hs (hwf t (by simp)) hq hstep
    obtain ⟨k2, hr2, hs2, ht2⟩ := ih (fun x hx => hwf x (by simp [hx])) (fun x hx => hc x (by simp [hx])) st' hq' hi'
    refine ⟨k1 ++ k2, ?_, ?_, ?_⟩
    · unfold Policy.run; simp only [hstep]; simp [hr1, hr2]
    · intro k hk; simp only [List.mem_append] at hk
      rcases hk with h | h
      · exact hs1 k h
      · exact hs2 k h
    · rw [textOf_append, ht1, ht2]
      have : t :: ts = [t] ++ ts := rfl
      rw [this, textOf_append]

/-- **C06 (byte level), comments allowed or not**: for every policy without AllowUnsafe, without a
    raw-text element on its allowlist and without AddSpaceWhenStrippingTag — whether or not it
    allows comments — and an input whose tags are neither script/style nor in the skip-content
    set, the text an HTML tokenizer reads from the output equals the text it reads from the input -/
theorem C06_bytesC (p : Policy) (hp : PlainC p.ensureInit) (hs : p.ensureInit.addSpaces = false) (input : Bytes)
    (hc : ∀ t ∈ tokenize input, CalmTok p.ensureInit t) :
    textOf (tokenize (p.sanitizeCore input)) = textOf (tokenize input) := by
  obtain ⟨toks, hr, hseg, htext⟩ :=
    run_textC hp hs (tokenize input) (tokenize_wf input) hc {} ⟨rfl, rfl⟩ stackInv_init
  have hb : p.sanitizeCore input = renderAll toks := by
    unfold Policy.sanitizeCore Policy.sanitizeTokens
    rw [hr, flatten_map_render]
  rw [hb, tokenize_renderAllC toks hseg, textOf_coalesce, textOf_map_reread]
  simpa using htext

end BM.Props
