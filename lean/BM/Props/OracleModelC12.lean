import BM.Props.C12
import BM.Spec.More
/-
  `oracleC12` on the model (see Props/OracleModelC09 for why this is stated): for every policy and every input
  none of whose raw-text tags names an allowed element, the oracle holds of what the model returns.  The
  crossorigin clause is `C12_bytes_on`; the sandbox clause is vacuous in this class, because an iframe tag in
  the output would come from an iframe tag of the input that the policy allows — a raw-text tag.
-/
namespace BM.Props
open BM BM.Html BM.Spec

theorem oracleC12_model (p : Policy) (input : Bytes) (hp : PlainOn p.ensureInit (tokenize input)) :
    oracleC12 p.ensureInit (p.sanitizeCore input) = true := by
  unfold oracleC12
  rw [List.all_eq_true]
  intro k hk
  by_cases hnt : ¬ (k.tt = .start ∨ k.tt = .selfClosing)
  · have : (!(k.tt == TT.start || k.tt == TT.selfClosing)) = true := by
      cases h : k.tt <;> simp_all <;> decide
    simp [this]
  have htt : k.tt = .start ∨ k.tt = .selfClosing := Classical.not_not.mp hnt
  by_cases hne : k.attrs = []
  · simp [hne]
  have h1 : (!(k.tt == TT.start || k.tt == TT.selfClosing) || k.attrs.isEmpty) = false := by
    have : k.attrs.isEmpty = false := by simpa using hne
    rcases htt with h | h <;> simp [h, this] <;> decide
  simp only [h1, Bool.false_eq_true, ↓reduceIte, Bool.and_eq_true]
  obtain ⟨hco, _⟩ := C12_bytes_on p input hp k hk htt hne
  constructor
  · by_cases hreq : (p.ensureInit.requireCrossOriginAnonymous && isCoEl k.data) = true
    · simp only [Bool.and_eq_true] at hreq
      obtain ⟨⟨a, ha, hka⟩, hall⟩ := hco hreq.1 hreq.2
      simp only [hreq.1, hreq.2, Bool.and_self, Bool.not_true, Bool.false_or, Bool.and_eq_true, List.any_eq_true,
        List.all_eq_true, Bool.or_eq_true, bne_iff_ne, ne_eq, beq_iff_eq]
      refine ⟨⟨a, ha, hka⟩, fun b hb => ?_⟩
      by_cases hkb : b.key = b!"crossorigin"
      · exact .inr (hall b hb hkb)
      · exact .inl hkb
    · have : (p.ensureInit.requireCrossOriginAnonymous && isCoEl k.data) = false := by simpa using hreq
      simp [this]
  · cases hsb : p.ensureInit.requireSandboxOnIFrame with
    | none => rfl
    | some allowed =>
      simp only [Bool.or_eq_true, bne_iff_ne, ne_eq]
      left
      intro hif
      obtain ⟨t, ht, aps, hd, hr, _⟩ := reread_open_tagOn p input hp k hk htt hne
      have hallow : allowsElement p.ensureInit t.data = true := by rw [hd]; exact attrRulesFor_allows' hr
      have hraw : isRawTagName t.data = true := by rw [hd, hif]; decide
      rw [hp.noRaw t ht hraw] at hallow
      cases hallow

end BM.Props
