import BM.Props.C10
import BM.Proofs.PassInv
import BM.Proofs.Prov
import BM.Proofs.ProvC
/-
  C10 composed: the style attribute in what `sanitizeAttrs` returns — and, for plain policies,
  on every tag re-read from the returned bytes — is exactly `sanitizeStyles` of an input style
  value (whose declaration-by-declaration characterisation is `C10_sanitizeStyles`), and is never
  empty: a style attribute with nothing left is removed.
-/
namespace BM.Props
open BM BM.Html BM.Spec

/-- what C10 says of one attribute of element `el` -/
def StyleFiltered (p : Policy) (el : Bytes) (attrs : List Attr) (b : Attr) : Prop :=
  b.key = b!"style" → ∃ a ∈ attrs, a.key = b!"style" ∧ b.val = p.sanitizeStyles a.val el ∧ b.val ≠ []

theorem styleFiltered_passInv (p : Policy) (el : Bytes) (attrs : List Attr) : PassInv (StyleFiltered p el attrs) where
  added := by
    intro x hx hk
    rcases hx with h | h | h | h <;> rw [h] at hk <;> exact absurd hk (by decide)
  stable := by
    intro a b hk hv ha hkb
    rw [hk] at hkb
    obtain ⟨a0, h0, h1, h2, h3⟩ := ha hkb
    exact ⟨a0, h0, h1, by rw [hv]; exact h2, by rw [hv]; exact h3⟩

theorem filterAttr_style (p : Policy) (el : Bytes) (aps : AttrRules) (a b : Attr)
    (hs : p.hasStylePolicies el = true) (h : p.filterAttr el aps true a = some b) (hk : b.key = b!"style") :
    a.key = b!"style" ∧ b.val = p.sanitizeStyles a.val el ∧ b.val ≠ [] := by
  have hka : a.key = b!"style" := by rw [← filterAttr_key p el aps true a b h]; exact hk
  unfold Policy.filterAttr at h
  have hnd : (p.allowDataAttributes && isDataAttribute a.key) = false := by
    have : isDataAttribute a.key = false := by rw [hka]; decide
    rw [this]; simp
  have hst : (a.key == b!"style" && true) = true := by rw [hka]; decide
  simp only [hnd, Bool.false_eq_true, ↓reduceIte, hst] at h
  split at h
  · cases h
  · rename_i hne
    injection h with h
    subst h
    exact ⟨hka, rfl, by simpa using hne⟩

/-- **C10 for the whole of `sanitizeAttrs`**: when style rules apply to the element, every style
    attribute returned is the declaration-by-declaration filtering of an input style attribute
    and is not empty -/
theorem C10_sanitizeAttrs (p : Policy) (el : Bytes) (attrs : List Attr) (aps : AttrRules) (out : List Attr)
    (hs : p.hasStylePolicies el = true) (h : p.sanitizeAttrs el attrs aps = some out) :
    ∀ b ∈ out, StyleFiltered p el attrs b := by
  refine sanitizeAttrs_after_urlPass (styleFiltered_passInv p el attrs) p el attrs aps out h ?_
  intro mid hmid
  have hfirst : ∀ b ∈ mid, StyleFiltered p el attrs b := by
    intro b hb hk
    rw [hmid, hs] at hb
    obtain ⟨a, ha, hab⟩ := List.mem_filterMap.mp hb
    obtain ⟨h1, h2, h3⟩ := filterAttr_style p el aps a b hs hab hk
    exact ⟨a, ha, h1, h2, h3⟩
  constructor
  · intro _; exact hfirst
  · intro _ _ m2 hm2 b hb hk
    obtain ⟨a, ha, hab⟩ := mapMOpt_mem _ mid m2 hm2 b hb
    have hkey := urlPassAttr_key p el a b hab
    -- style is not a URL attribute: the URL pass hands it on unchanged
    have hsame : b = a := by
      have hka : a.key = b!"style" := by rw [← hkey]; exact hk
      have e1 : (a.key == b!"href") = false := by rw [hka]; decide
      have e2 : (a.key == b!"cite") = false := by rw [hka]; decide
      have e3 : (a.key == b!"src") = false := by rw [hka]; decide
      unfold Policy.urlPassAttr at hab
      simp only [e1, e2, e3, Bool.false_eq_true, ↓reduceIte] at hab
      repeat' split at hab
      all_goals (simp at hab; exact hab.symm)
    subst hsame
    exact hfirst b ha hk

/-- **C10 (byte level, plain policies)** -/
theorem C10_bytes (p : Policy) (hp : PlainC p.ensureInit) (input : Bytes) :
    ∀ k ∈ tokenize (p.sanitizeCore input), (k.tt = .start ∨ k.tt = .selfClosing) →
      p.ensureInit.hasStylePolicies k.data = true →
      ∀ b ∈ k.attrs, b.key = b!"style" →
        ∃ t ∈ tokenize input, t.data = k.data ∧ ∃ a ∈ t.attrs, a.key = b!"style" ∧
          b.val = p.ensureInit.sanitizeStyles a.val k.data ∧ b.val ≠ [] := by
  intro k hk htt hs b hb hkey
  have hne : k.attrs ≠ [] := by intro h; rw [h] at hb; simp at hb
  obtain ⟨t, ht, aps, hd, _, hsan⟩ := reread_open_tagC p hp input k hk htt hne
  obtain ⟨a, ha, h1, h2, h3⟩ := C10_sanitizeAttrs p.ensureInit k.data t.attrs aps k.attrs hs hsan b hb hkey
  exact ⟨t, ht, hd, a, ha, h1, h2, h3⟩

/-- (per-input form)  **C10 (byte level, plain policies)** -/
theorem C10_bytes_on (p : Policy) (input : Bytes) (hp : PlainOn p.ensureInit (tokenize input)) :
    ∀ k ∈ tokenize (p.sanitizeCore input), (k.tt = .start ∨ k.tt = .selfClosing) →
      p.ensureInit.hasStylePolicies k.data = true →
      ∀ b ∈ k.attrs, b.key = b!"style" →
        ∃ t ∈ tokenize input, t.data = k.data ∧ ∃ a ∈ t.attrs, a.key = b!"style" ∧
          b.val = p.ensureInit.sanitizeStyles a.val k.data ∧ b.val ≠ [] := by
  intro k hk htt hs b hb hkey
  have hne : k.attrs ≠ [] := by intro h; rw [h] at hb; simp at hb
  obtain ⟨t, ht, aps, hd, _, hsan⟩ := reread_open_tagOn p input hp k hk htt hne
  obtain ⟨a, ha, h1, h2, h3⟩ := C10_sanitizeAttrs p.ensureInit k.data t.attrs aps k.attrs hs hsan b hb hkey
  exact ⟨t, ht, hd, a, ha, h1, h2, h3⟩

end BM.Props
