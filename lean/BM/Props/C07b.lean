import BM.Props.C07
import BM.Props.C20
import BM.Spec.More
import BM.Proofs.CssClean
import BM.Proofs.Congr
import BM.Proofs.UrlRelative
/-
  C07, from the specification's side.  `Spec.conformingDoc` is the decidable description of "a
  well-formed document that uses only elements, attributes and values the policy allows" that the
  oracle evaluates on every case.  Here it is tied to the theorem: for a policy whose attribute
  handling is pure filtering (`AttrSimple`: no URL checking, styles, forced attributes) and a
  document whose tags name elements the policy allows *by name*, a canonical document that is
  conforming in the specification's sense is returned byte for byte.  (Element patterns, URL
  checking and forced attributes: `C07_bytes` on `Conform`, and the oracle.)
-/
namespace BM.Props
open BM BM.Html BM.Spec

/-- a data attribute of the documented shape is one for `isDataAttribute`, when its name came out of
    the tokenizer (no white space in it) -/
theorem isDataAttribute_of_wellFormed (k : Bytes) (hk : ∀ x ∈ k, x ≠ 10) (h : wellFormedDataAttr k = true) :
    isDataAttribute k = true := by
  unfold wellFormedDataAttr at h
  unfold isDataAttribute
  cases hs : stripPrefix? b!"data-" k with
  | none => rw [hs] at h; cases h
  | some rest =>
    rw [hs] at h
    simp only [Bool.and_eq_true, Bool.not_eq_true', List.all_eq_true, decide_eq_true_eq] at h
    obtain ⟨⟨hne, hxml⟩, hall⟩ := h
    have hk' : k = b!"data-" ++ rest := stripPrefix?_eq _ _ _ hs
    have hrest10 : ∀ x ∈ rest, x ≠ 10 := fun x hx => hk x (by rw [hk']; exact List.mem_append_right _ hx)
    have hne' : rest.isEmpty = false := by simpa using hne
    have hhead : (rest.head? == some 10) = false := by
      cases rest with
      | nil => simp at hne'
      | cons c cs =>
        have := hrest10 c (by simp)
        simp [this]
    simp only [hne', hhead, Bool.or_self, Bool.false_eq_true, ↓reduceIte]
    have hnoxml : ∀ c cs, stripPrefix? b!"xml" rest = some (c :: cs) → False := by
      intro c cs hsx
      have hr : rest = b!"xml" ++ c :: cs := stripPrefix?_eq _ _ _ hsx
      have hp : hasPrefix b!"xml" rest = true := by unfold hasPrefix; rw [hsx]; rfl
      have hl : rest.length > 3 := by rw [hr]; simp
      simp only [hp, Bool.true_and, decide_eq_false_iff_not, Nat.not_lt] at hxml
      omega
    have hany : (rest.any fun c => isUpper c || c == 59) = false := by
      rw [List.any_eq_false]
      intro c hc
      have := hall c hc
      simp only [Bool.and_eq_true, Bool.not_eq_true', bne_iff_ne, ne_eq] at this
      simp [this.1, this.2]
    split
    · rename_i c cs hsx
      exact (hnoxml c cs hsx).elim
    · simp [hany]

theorem ruleAccepts_eq (apl : List AttrPolicy) (v : Bytes) : ruleAccepts apl v = attrPoliciesAccept apl v := by
  unfold ruleAccepts attrPoliciesAccept
  induction apl with
  | nil => rfl
  | cons ap rest ih =>
    simp only [List.any_cons, ih]
    cases ap <;> rfl

/-- the spec's rule lookup and the sanitiser's agree on an element allowed by name -/
theorem filterAttr_of_accepts (p : Policy) (el : Bytes) (aps : AttrRules) (a : Attr)
    (hel : p.elsAndAttrs.get? el = some aps) (hk : ∀ x ∈ a.key, x ≠ 10)
    (h : acceptsAttr p el a = true) : (p.filterAttr el aps false a).isSome = true := by
  have e : p.filterAttr el aps false a =
      if p.allowDataAttributes && isDataAttribute a.key then some a
      else if a.key == b!"style" && false then
        (let v := p.sanitizeStyles a.val el; if v.isEmpty then none else some ⟨a.key, v⟩)
      else if acceptBy aps a.key a.val then some a
      else if acceptBy p.globalAttrs a.key a.val then some a else none := rfl
  rw [e]
  unfold acceptsAttr at h
  simp only [Bool.or_eq_true, Bool.and_eq_true] at h
  rcases h with ⟨hd, hwf⟩ | hr
  · simp [hd, isDataAttribute_of_wellFormed a.key hk hwf]
  · by_cases hdata : (p.allowDataAttributes && isDataAttribute a.key) = true
    · simp [hdata]
    · simp only [hdata, Bool.false_eq_true, ↓reduceIte, Bool.and_false]
      unfold rulesFor at hr
      rw [hel] at hr
      simp only at hr
      rw [ruleAccepts_eq] at hr
      unfold attrPoliciesAccept at hr
      rw [List.any_append, Bool.or_eq_true] at hr
      rcases hr with hr | hr
      · have : acceptBy aps a.key a.val = true := by
          unfold acceptBy
          cases hg : aps.get? a.key with
          | none => rw [hg] at hr; simp at hr
          | some apl => rw [hg] at hr; simpa [attrPoliciesAccept] using hr
        simp [this]
      · have : acceptBy p.globalAttrs a.key a.val = true := by
          unfold acceptBy
          cases hg : p.globalAttrs.get? a.key with
          | none => rw [hg] at hr; simp at hr
          | some apl => rw [hg] at hr; simpa [attrPoliciesAccept] using hr
        simp only [this, ↓reduceIte]
        split <;> rfl

theorem attrOK_key_no_nl (a : Attr) (h : AttrOK a) : ∀ x ∈ a.key, x ≠ 10 := by
  obtain ⟨c, rest, hk, hc, hrest⟩ := h
  intro x hx hx10
  subst hx10
  rw [hk] at hx
  rcases List.mem_cons.mp hx with rfl | hx
  · revert hc; decide
  · have := hrest 10 hx
    revert this; decide

/-- **the specification's conforming start tag is the theorem's**, for an element allowed by name under a
    policy whose attribute handling is pure filtering -/
theorem conform_of_spec_start (p : Policy) (hs : AttrSimple p) (t : Token) (htt : t.tt = .start) (hwf : TokWF t)
    (hex : p.elsAndAttrs.contains t.data = true) (h : conformingTag p t = true) : Conform p t := by
  unfold conformingTag at h
  simp only [Bool.and_eq_true, Bool.not_eq_true', Bool.or_eq_true, List.all_eq_true] at h
  obtain ⟨⟨⟨_, hnr⟩, hbare⟩, hall⟩ := h
  unfold TokWF at hwf
  rw [htt] at hwf
  obtain ⟨hname, hattrs⟩ := hwf
  have hget : ∃ aps, p.elsAndAttrs.get? t.data = some aps := by
    unfold Map.contains at hex
    cases hg : p.elsAndAttrs.get? t.data with
    | none => rw [hg] at hex; cases hex
    | some aps => exact ⟨aps, rfl⟩
  obtain ⟨aps, hget⟩ := hget
  have hss : isScriptOrStyle t.data = false := by
    unfold isRawTagName at hnr
    unfold isScriptOrStyle
    simp only [Bool.or_eq_false_iff] at hnr ⊢
    exact ⟨hnr.1.1.1.1.2, hnr.1.1.1.2⟩
  refine ⟨?_, ?_⟩
  · unfold SegOK; rw [htt]; exact ⟨hname, hnr, hattrs⟩
  · rw [htt]
    refine ⟨hss, aps, ?_, ?_, ?_⟩
    · unfold Policy.attrRulesFor; rw [hget]
    · unfold Policy.cleanAttrs
      split
      · rfl
      · rw [simple_sanitizeAttrs p hs]
        congr 1
        apply List.filter_eq_self.mpr
        intro a ha
        have hacc := hall a ha
        exact filterAttr_of_accepts p t.data aps a hget (attrOK_key_no_nl a (hattrs a ha)) hacc.1.2
    · rcases hbare with hb | hb
      · left; intro hn; rw [hn] at hb; cases hb
      · right; exact hb

/-- an end tag of an element allowed by name -/
theorem conform_of_spec_end (p : Policy) (t : Token) (htt : t.tt = .end_) (hwf : TokWF t)
    (hex : p.elsAndAttrs.contains t.data = true) (hnr : isRawTagName t.data = false) : Conform p t := by
  unfold TokWF at hwf
  rw [htt] at hwf
  have hss : isScriptOrStyle t.data = false := by
    unfold isRawTagName at hnr
    unfold isScriptOrStyle
    simp only [Bool.or_eq_false_iff] at hnr ⊢
    exact ⟨hnr.1.1.1.1.2, hnr.1.1.1.2⟩
  refine ⟨?_, ?_⟩
  · unfold SegOK; rw [htt]; exact hwf
  · rw [htt]; exact ⟨hss, .inl hex⟩

/-- every tag of the document names an element the policy allows by name -/
def explicitDoc (p : Policy) (ts : List Token) : Bool :=
  ts.all fun t => !isTag t || p.elsAndAttrs.contains t.data

/-- **C07 from the specification's side**: under a policy whose attribute handling is pure filtering, a
    document in canonical serialisation that the *specification* calls conforming (`Spec.conformingDoc`,
    the predicate the oracle evaluates) and whose tags name elements allowed by name is returned byte for
    byte -/
theorem C07_spec_conforming (p : Policy) (hs : AttrSimple p.ensureInit) (inp : Bytes)
    (hcan : canonicalDoc inp = true) (hconf : conformingDoc p.ensureInit (tokenize inp) = true)
    (hexp : explicitDoc p.ensureInit (tokenize inp) = true) :
    p.sanitizeCore inp = inp := by
  have hren : renderAll (tokenize inp) = inp := by
    unfold canonicalDoc at hcan
    have hflat : ∀ ts : List Token, renderAll ts = ts.flatMap Token.render := by
      intro ts
      induction ts with
      | nil => rfl
      | cons t ts ih => simp [renderAll, ih]
    rw [hflat]
    exact (beq_iff_eq).mp hcan
  have hc : ∀ t ∈ tokenize inp, Conform p.ensureInit t := by
    intro t ht
    unfold conformingDoc at hconf
    simp only [Bool.and_eq_true, List.all_eq_true] at hconf
    have hct := hconf.2 t ht
    have hwf := tokenize_wf inp t ht
    unfold explicitDoc at hexp
    have hext := List.all_eq_true.mp hexp t ht
    cases htt : t.tt with
    | text => exact ⟨by unfold SegOK; rw [htt]; trivial, by rw [htt]; trivial⟩
    | start =>
      rw [htt] at hct
      have hex : p.ensureInit.elsAndAttrs.contains t.data = true := by
        simp only [isTag, htt, Bool.or_eq_true, Bool.not_eq_true'] at hext
        rcases hext with h | h
        · exact absurd h (by decide)
        · exact h
      exact conform_of_spec_start p.ensureInit hs t htt hwf hex hct
    | end_ =>
      rw [htt] at hct
      simp only [Bool.and_eq_true, Bool.not_eq_true'] at hct
      have hex : p.ensureInit.elsAndAttrs.contains t.data = true := by
        simp only [isTag, htt, Bool.or_eq_true, Bool.not_eq_true'] at hext
        rcases hext with h | h
        · exact absurd h (by decide)
        · exact h
      exact conform_of_spec_end p.ensureInit t htt hwf hex hct.2
    | selfClosing => rw [htt] at hct; cases hct
    | comment => rw [htt] at hct; cases hct
    | doctype => rw [htt] at hct; cases hct
  have := C07_bytes p (tokenize inp) hc
  rw [hren] at this
  exact this

/-- non-vacuity: a policy, a canonical conforming document with attributes, texts and nesting -/
example :
    let p : Policy := { initialized := true, elsAndAttrs := [(b!"b", []), (b!"a", [(b!"title", [none])])],
                        globalAttrs := [(b!"id", [none])], setOfElementsAllowedWithoutAttrs := [b!"b"] }
    canonicalDoc b!"<a title=\"x\" id=\"1\">1 &lt; 2 <b>t</b></a>" = true ∧
    conformingDoc p (tokenize b!"<a title=\"x\" id=\"1\">1 &lt; 2 <b>t</b></a>") = true ∧
    explicitDoc p (tokenize b!"<a title=\"x\" id=\"1\">1 &lt; 2 <b>t</b></a>") = true := by decide

/-! ### with URL checking -/

/-- attribute handling that is filtering plus the URL pass: no link options, styles, forced attributes,
    rewriter (`AttrSimple` without `noUrl`) -/
structure UrlFilter (p : Policy) : Prop where
  noFollow : p.requireNoFollow = false
  noFollowFQ : p.requireNoFollowFullyQualifiedLinks = false
  noReferrer : p.requireNoReferrer = false
  noReferrerFQ : p.requireNoReferrerFullyQualifiedLinks = false
  noBlank : p.addTargetBlankToFullyQualifiedLinks = false
  noStyle : ∀ el, p.hasStylePolicies el = false
  noCross : p.requireCrossOriginAnonymous = false
  noSandbox : p.requireSandboxOnIFrame = none
  noRewriter : p.srcRewriter = none

theorem urlFilter_sanitizeAttrs (p : Policy) (hs : UrlFilter p) (el : Bytes) (attrs : List Attr) (aps : AttrRules) :
    p.sanitizeAttrs el attrs aps =
      (let c := attrs.filter fun a => (p.filterAttr el aps false a).isSome
       if c.isEmpty then some c
       else if linkable el && p.requireParseableURLs then mapMOpt (p.urlPassAttr el) c else some c) := by
  unfold Policy.sanitizeAttrs
  split
  · rename_i h; simp [List.isEmpty_iff.mp h]
  · simp only [hs.noStyle el, filterMap_eq_filter]
    split
    · rename_i h; simp [h]
    · rename_i h
      unfold Policy.linkPasses Policy.forceSandbox Policy.forceCrossOrigin
      simp only [hs.noFollow, hs.noFollowFQ, hs.noReferrer, hs.noReferrerFQ, hs.noBlank, hs.noCross, hs.noSandbox,
        Bool.or_self, Bool.false_and, Bool.false_eq_true, ↓reduceIte, h]
      by_cases hl : linkable el = true
      · simp only [hl, ↓reduceIte, Bool.true_and]
        by_cases hu : p.requireParseableURLs = true
        · simp only [hu, ↓reduceIte]
          cases mapMOpt (p.urlPassAttr el) (List.filter (fun a => (p.filterAttr el aps false a).isSome) attrs) <;> rfl
        · have hu' : p.requireParseableURLs = false := by simpa using hu
          simp [hu']
      · have hl' : linkable el = false := by simpa using hl
        simp [hl']

/-- the model's URL positions are the specification's -/
theorem isUrlPosition_of_urlKeyFor (el k : Bytes) (h : urlKeyFor el = some k) : isUrlPosition el k = true := by
  unfold urlKeyFor at h
  unfold isUrlPosition
  by_cases h1 : isHrefElement el = true
  · simp only [h1, ↓reduceIte, Option.some.injEq] at h
    subst h
    unfold isHrefElement at h1
    simp only [beq_self_eq_true, Bool.true_and, h1, Bool.true_or]
  · have h1' : isHrefElement el = false := by simpa using h1
    simp only [h1', Bool.false_eq_true, ↓reduceIte] at h
    by_cases h2 : isCiteElement el = true
    · simp only [h2, ↓reduceIte, Option.some.injEq] at h
      subst h
      unfold isCiteElement at h2
      simp only [beq_self_eq_true, Bool.true_and, h2, Bool.true_or, Bool.or_true]
    · have h2' : isCiteElement el = false := by simpa using h2
      simp only [h2', Bool.false_eq_true, ↓reduceIte] at h
      by_cases h3 : isSrcElement el = true
      · simp only [h3, ↓reduceIte, Option.some.injEq] at h
        subst h
        unfold isSrcElement at h3
        simp only [beq_self_eq_true, Bool.true_and, h3, Bool.or_true]
      · have h3' : isSrcElement el = false := by simpa using h3
        simp [h3'] at h

/-- **a URL in the specification's normal form is a fixed point of `validURL`**: accepted by `Spec.urlOk`,
    printed as it is parsed, nothing for `TrimSpace` to remove, no white space or control character -/
theorem validURL_of_spec (p : Policy) (v : Bytes) (hreq : p.requireParseableURLs = true) (hne : v ≠ [])
    (hok : urlOk p v = true) (hpp : (Url.parse v).map Url.print = some v) (htrim : Css.trimSpace v = v)
    (hws : hasWsOrCtl v = false) : p.validURL v = some v := by
  obtain ⟨u, hu, hpr⟩ : ∃ u, Url.parse v = some u ∧ Url.print u = v := by
    cases hp : Url.parse v with
    | none => rw [hp] at hpp; cases hpp
    | some u => rw [hp] at hpp; simp only [Option.map_some, Option.some.injEq] at hpp; exact ⟨u, rfl, hpp⟩
  have hno : ∀ c : UInt8, c ≤ 32 → v.contains c = false := by
    intro c hc
    unfold hasWsOrCtl at hws
    rw [List.any_eq_false] at hws
    cases hcv : v.contains c with
    | false => rfl
    | true =>
      have hmem := List.contains_iff_mem.mp hcv
      have := hws c hmem
      simp only [Bool.or_eq_true, decide_eq_true_eq, not_or] at this
      exact absurd hc this.1
  have hclass := Url.printed_class v u hu
  rw [hpr] at hclass
  unfold Policy.validURL
  simp only [hreq, ↓reduceIte, htrim, hno 32 (by decide), hno 9 (by decide), hno 10 (by decide), Bool.or_self,
    Bool.false_eq_true, hu]
  unfold urlOk at hok
  rw [hclass] at hok
  by_cases hsch : u.scheme = []
  · simp only [hsch, ↓reduceIte, Bool.and_eq_true] at hok
    have hne' : v.isEmpty = false := by
      cases v with
      | nil => exact absurd rfl hne
      | cons _ _ => rfl
    simp only [hsch, List.isEmpty_nil, Bool.not_true, Bool.false_eq_true, ↓reduceIte, hok.1, hpr, hne', Bool.not_false,
      Bool.and_self]
  · have hsne : u.scheme.isEmpty = false := by
      cases hs : u.scheme with
      | nil => exact absurd hs hsch
      | cons _ _ => rfl
    simp only [hsch, ↓reduceIte, Bool.and_eq_true] at hok
    simp only [hsne, Bool.not_false, ↓reduceIte]
    obtain ⟨hok1, _⟩ := hok
    cases hg : p.allowURLSchemes.get? u.scheme with
    | none =>
      rw [hg] at hok1
      simp only at hok1 ⊢
      simp only [hok1, ↓reduceIte, hpr]
    | some checks =>
      rw [hg] at hok1
      simp only [hu, Bool.or_eq_true] at hok1 ⊢
      by_cases hce : checks.isEmpty = true
      · simp only [hce, ↓reduceIte, hpr]
      · simp only [hce, Bool.false_eq_true, ↓reduceIte]
        rcases hok1 with h | h
        · exact absurd h hce
        · simp only [h, ↓reduceIte, hpr]

theorem mapMOpt_id {α} (f : α → Option (Option α)) : ∀ (l : List α), (∀ a ∈ l, f a = some (some a)) → mapMOpt f l = some l := by
  intro l
  induction l with
  | nil => intro _; rfl
  | cons x xs ih =>
    intro h
    unfold mapMOpt
    rw [h x (by simp), ih (fun a ha => h a (by simp [ha]))]

/-- the URL values of the document hold no white space or control character (a `data:` URL may, and is
    then rewritten by the sanitiser: not covered here) -/
def urlsPlain (ts : List Token) : Bool :=
  ts.all fun t => t.attrs.all fun a => !isUrlPosition t.data a.key || !hasWsOrCtl a.val

/-- the conforming start tag, URL checking included -/
theorem conform_of_spec_start_url (p : Policy) (hs : UrlFilter p) (t : Token) (htt : t.tt = .start) (hwf : TokWF t)
    (hex : p.elsAndAttrs.contains t.data = true) (h : conformingTag p t = true)
    (hplain : (t.attrs.all fun a => !isUrlPosition t.data a.key || !hasWsOrCtl a.val) = true) : Conform p t := by
  unfold conformingTag at h
  simp only [Bool.and_eq_true, Bool.not_eq_true', Bool.or_eq_true, List.all_eq_true] at h
  obtain ⟨⟨⟨_, hnr⟩, hbare⟩, hall⟩ := h
  unfold TokWF at hwf
  rw [htt] at hwf
  obtain ⟨hname, hattrs⟩ := hwf
  have hget : ∃ aps, p.elsAndAttrs.get? t.data = some aps := by
    unfold Map.contains at hex
    cases hg : p.elsAndAttrs.get? t.data with
    | none => rw [hg] at hex; cases hex
    | some aps => exact ⟨aps, rfl⟩
  obtain ⟨aps, hget⟩ := hget
  have hss : isScriptOrStyle t.data = false := by
    unfold isRawTagName at hnr
    unfold isScriptOrStyle
    simp only [Bool.or_eq_false_iff] at hnr ⊢
    exact ⟨hnr.1.1.1.1.2, hnr.1.1.1.2⟩
  refine ⟨?_, ?_⟩
  · unfold SegOK; rw [htt]; exact ⟨hname, hnr, hattrs⟩
  · rw [htt]
    refine ⟨hss, aps, ?_, ?_, ?_⟩
    · unfold Policy.attrRulesFor; rw [hget]
    · unfold Policy.cleanAttrs
      split
      · rfl
      · rename_i hne
        rw [urlFilter_sanitizeAttrs p hs]
        have hfil : (t.attrs.filter fun a => (p.filterAttr t.data aps false a).isSome) = t.attrs := by
          apply List.filter_eq_self.mpr
          intro a ha
          have hacc := hall a ha
          exact filterAttr_of_accepts p t.data aps a hget (attrOK_key_no_nl a (hattrs a ha)) hacc.1.2
        simp only [hfil, hne, Bool.false_eq_true, ↓reduceIte]
        split
        · rename_i hlu
          simp only [Bool.and_eq_true] at hlu
          apply mapMOpt_id
          intro a ha
          rw [urlPassAttr_eq p hs.noRewriter]
          split
          · rename_i k hk
            split
            · rename_i hak
              have hak' : a.key = k := by simpa using hak
              have hpos : isUrlPosition t.data a.key = true := by rw [hak']; exact isUrlPosition_of_urlKeyFor _ _ hk
              have hacc := (hall a ha).2
              simp only [hlu.2, hpos, Bool.and_self, Bool.true_eq_false, false_or, beq_iff_eq] at hacc
              have hpl := List.all_eq_true.mp hplain a ha
              simp only [hpos, Bool.not_true, Bool.false_or, Bool.not_eq_true'] at hpl
              have hne' : a.val ≠ [] := by
                intro hn; have := hacc.1.1.1; rw [hn] at this; cases this
              rw [validURL_of_spec p a.val hlu.2 hne' hacc.1.1.2 hacc.1.2 hacc.2 hpl]
              rfl
            · rfl
          · rfl
        · rfl
    · rcases hbare with hb | hb
      · left; intro hn; rw [hn] at hb; cases hb
      · right; exact hb

/-- **C07 from the specification's side, URL checking included**: under a policy whose attribute handling is
    filtering plus the URL pass, a canonical document that `Spec.conformingDoc` calls conforming, whose tags
    name elements allowed by name and whose URL values hold no white space, is returned byte for byte — in
    particular `Spec.urlOk` together with "printed as parsed" and "nothing to trim" is a sufficient
    description of the URL values `validURL` leaves alone -/
theorem C07_spec_conforming_urls (p : Policy) (hs : UrlFilter p.ensureInit) (inp : Bytes)
    (hcan : canonicalDoc inp = true) (hconf : conformingDoc p.ensureInit (tokenize inp) = true)
    (hexp : explicitDoc p.ensureInit (tokenize inp) = true) (hplain : urlsPlain (tokenize inp) = true) :
    p.sanitizeCore inp = inp := by
  have hren : renderAll (tokenize inp) = inp := by
    unfold canonicalDoc at hcan
    have hflat : ∀ ts : List Token, renderAll ts = ts.flatMap Token.render := by
      intro ts
      induction ts with
      | nil => rfl
      | cons t ts ih => simp [renderAll, ih]
    rw [hflat]
    exact (beq_iff_eq).mp hcan
  have hc : ∀ t ∈ tokenize inp, Conform p.ensureInit t := by
    intro t ht
    unfold conformingDoc at hconf
    simp only [Bool.and_eq_true, List.all_eq_true] at hconf
    have hct := hconf.2 t ht
    have hwf := tokenize_wf inp t ht
    unfold explicitDoc at hexp
    have hext := List.all_eq_true.mp hexp t ht
    unfold urlsPlain at hplain
    have hpl := List.all_eq_true.mp hplain t ht
    cases htt : t.tt with
    | text => exact ⟨by unfold SegOK; rw [htt]; trivial, by rw [htt]; trivial⟩
    | start =>
      rw [htt] at hct
      have hex : p.ensureInit.elsAndAttrs.contains t.data = true := by
        simp only [isTag, htt, Bool.or_eq_true, Bool.not_eq_true'] at hext
        rcases hext with h | h
        · exact absurd h (by decide)
        · exact h
      exact conform_of_spec_start_url p.ensureInit hs t htt hwf hex hct hpl
    | end_ =>
      rw [htt] at hct
      simp only [Bool.and_eq_true, Bool.not_eq_true'] at hct
      have hex : p.ensureInit.elsAndAttrs.contains t.data = true := by
        simp only [isTag, htt, Bool.or_eq_true, Bool.not_eq_true'] at hext
        rcases hext with h | h
        · exact absurd h (by decide)
        · exact h
      exact conform_of_spec_end p.ensureInit t htt hwf hex hct.2
    | selfClosing => rw [htt] at hct; cases hct
    | comment => rw [htt] at hct; cases hct
    | doctype => rw [htt] at hct; cases hct
  have := C07_bytes p (tokenize inp) hc
  rw [hren] at this
  exact this

/-- non-vacuity: a link with a checked URL, a relative image source -/
example :
    let p : Policy := { initialized := true, requireParseableURLs := true, allowRelativeURLs := true,
                        allowURLSchemes := [(b!"https", [])],
                        elsAndAttrs := [(b!"a", [(b!"href", [none])]), (b!"img", [(b!"src", [none])])] }
    let d := b!"<a href=\"https://a.b/c?d=e#f\">t<img src=\"/x.png\"></a>"
    canonicalDoc d = true ∧ conformingDoc p (tokenize d) = true ∧ explicitDoc p (tokenize d) = true ∧
      urlsPlain (tokenize d) = true := by decide

end BM.Props
