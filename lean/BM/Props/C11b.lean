import BM.Props.C11
import BM.Props.Pins
import BM.Props.C12
import BM.Proofs.Prov
import BM.Proofs.ProvC
import BM.Proofs.HardenGo
/-
  C11 composed: from the hardening block to the whole of `sanitizeAttrs`, and to the bytes.
  The later passes (forced crossorigin / sandbox) leave href and rel attributes alone, so what
  `C11_hardenLinks` proves of the block holds of what `sanitizeAttrs` returns; for plain
  policies it holds of every a / area / link tag an HTML tokenizer reads from the output.
-/
namespace BM.Props
open BM BM.Html BM.Spec

/-- `l` has the same attributes named `k`, in the same order, as `l0` -/
def FiltEq (k : Bytes) (l0 l : List Attr) : Prop := l.filter (·.key == k) = l0.filter (·.key == k)

theorem filtEq_refl (k : Bytes) (l : List Attr) : FiltEq k l l := rfl

theorem filtEq_map {k : Bytes} {l0 l : List Attr} (f : Attr → Attr)
    (hf : ∀ a, (f a).key = a.key ∧ (a.key = k → f a = a)) (h : FiltEq k l0 l) : FiltEq k l0 (l.map f) := by
  unfold FiltEq at *
  rw [← h]
  clear h
  induction l with
  | nil => rfl
  | cons a as ih =>
    obtain ⟨hk, hv⟩ := hf a
    simp only [List.map_cons, List.filter_cons, hk]
    by_cases ha : a.key = k
    · simp [ha, hv ha, ih]
    · simp [ha, ih]

theorem filtEq_append {k : Bytes} {l0 l : List Attr} (x : Attr) (hx : x.key ≠ k) (h : FiltEq k l0 l) :
    FiltEq k l0 (l ++ [x]) := by
  unfold FiltEq at *
  simp [List.filter_append, hx, h]

theorem filtEq_fixFirstTarget {k : Bytes} (hk : k ≠ b!"target") {l0 : List Attr} :
    ∀ {l : List Attr}, FiltEq k l0 l → FiltEq k l0 (fixFirstTarget l) := by
  intro l h
  unfold FiltEq at *
  rw [← h]
  clear h
  induction l with
  | nil => rfl
  | cons a as ih =>
    unfold fixFirstTarget
    split
    · rename_i hka
      simp only [beq_iff_eq] at hka
      have hne : a.key ≠ k := fun e => hk (e ▸ hka)
      split
      · rfl
      · simp [List.filter_cons, hne]
    · simp only [List.filter_cons]
      split <;> simp [ih]

theorem filtEq_addNoOpener {k : Bytes} (hk : k ≠ b!"rel") {l0 l : List Attr} (h : FiltEq k l0 l) :
    FiltEq k l0 (addNoOpener l) := by
  unfold addNoOpener
  split
  · refine filtEq_map _ ?_ h
    intro a
    split
    · rename_i hka
      simp only [beq_iff_eq] at hka
      exact ⟨rfl, fun e => absurd (e ▸ hka : k = b!"rel") hk⟩
    · exact ⟨rfl, fun _ => rfl⟩
  · exact filtEq_append _ (by simpa using Ne.symm hk) h

theorem filtEq_relFix {k : Bytes} (hk : k ≠ b!"rel") {l0 l : List Attr} (nf nr : Bool) (h : FiltEq k l0 l) :
    FiltEq k l0 (l.map (relFix nf nr)) := by
  refine filtEq_map _ ?_ h
  intro a
  unfold relFix
  split
  · rename_i hka
    simp only [Bool.and_eq_true, beq_iff_eq] at hka
    exact ⟨rfl, fun e => absurd (e ▸ hka.1 : k = b!"rel") hk⟩
  · exact ⟨rfl, fun _ => rfl⟩

/-- the hardening block leaves every attribute other than rel and target alone -/
theorem hardenLinks_other_keys (p : Policy) (el : Bytes) (l : List Attr) (k : Bytes)
    (hr : k ≠ b!"rel") (ht : k ≠ b!"target") :
    (p.hardenLinks el l).filter (·.key == k) = l.filter (·.key == k) := by
  show FiltEq k l (p.hardenLinks el l)
  unfold Policy.hardenLinks
  simp only
  split
  · exact filtEq_refl k l
  · repeat' (first
      | exact filtEq_relFix hr _ _ (filtEq_refl k l)
      | apply filtEq_addNoOpener hr
      | apply filtEq_fixFirstTarget ht
      | apply filtEq_append _ (by simpa using Ne.symm hr)
      | apply filtEq_append _ (by simpa using Ne.symm ht)
      | split)

theorem forceCrossOrigin_other_keys (p : Policy) (el : Bytes) (clean : List Attr) (k : Bytes)
    (hk : k ≠ b!"crossorigin") : ((p.forceCrossOrigin el clean).filter (·.key == k)) = clean.filter (·.key == k) := by
  unfold Policy.forceCrossOrigin
  split
  · split
    · exact filter_map_setVal _ _ _ _ hk
    · simp [List.filter_append, Ne.symm hk]
  · rfl

theorem hasRel_of_filter {l l' : List Attr} (h : l.filter (·.key == b!"rel") = l'.filter (·.key == b!"rel")) :
    HasRel l → HasRel l' := by
  intro ⟨a, ha, hk⟩
  have : a ∈ l.filter (·.key == b!"rel") := List.mem_filter.mpr ⟨ha, by simp [hk]⟩
  rw [h] at this
  exact ⟨a, (List.mem_filter.mp this).1, hk⟩

theorem allRel_of_filter {t : Bytes} {l l' : List Attr} (h : l.filter (·.key == b!"rel") = l'.filter (·.key == b!"rel")) :
    AllRel t l → AllRel t l' := by
  intro hall a ha hk
  have : a ∈ l'.filter (·.key == b!"rel") := List.mem_filter.mpr ⟨ha, by simp [hk]⟩
  rw [← h] at this
  exact hall a (List.mem_filter.mp this).1 hk

/-- does some href of the list have a host (for net/url)? -/
def hasHostHref (l : List Attr) : Bool :=
  (l.filter (·.key == b!"href")).any fun a => match Url.parse a.val with
    | some u => !u.host.isEmpty
    | none => false

/-- **C11 for the whole of `sanitizeAttrs`** (every policy, attribute list, a / area / base / link):
    if the returned attribute list carries an href, then under RequireNoFollowOnLinks (or its
    fully-qualified variant when some href has a host) there is a rel attribute and every rel
    attribute has the token nofollow; likewise noreferrer. -/
theorem C11_sanitizeAttrs (p : Policy) (el : Bytes) (attrs : List Attr) (aps : AttrRules) (out : List Attr)
    (h : p.sanitizeAttrs el attrs aps = some out) (hel : isHrefElement el = true)
    (hhref : (out.filter (·.key == b!"href")).isEmpty = false) :
    ((p.requireNoFollow || (hasHostHref out && p.requireNoFollowFullyQualifiedLinks)) = true →
        HasRel out ∧ AllRel b!"nofollow" out) ∧
    ((p.requireNoReferrer || (hasHostHref out && p.requireNoReferrerFullyQualifiedLinks)) = true →
        HasRel out ∧ AllRel b!"noreferrer" out) := by
  have hlink : linkable el = true := by
    simp only [isHrefElement, Bool.or_eq_true, beq_iff_eq] at hel
    rcases hel with ((h' | h') | h') | h' <;> subst h' <;> decide
  unfold Policy.sanitizeAttrs at h
  split at h
  · rename_i he; simp at h; subst h
    rw [List.isEmpty_iff.mp he] at hhref; simp at hhref
  · simp only at h
    split at h
    · rename_i he; simp at h; subst h
      rw [List.isEmpty_iff.mp he] at hhref; simp at hhref
    · simp only [Option.map_eq_some_iff] at h
      obtain ⟨mid, hmid, rfl⟩ := h
      -- filters of href and rel on the result are those of `mid`
      have fh : ∀ k, k ≠ b!"crossorigin" → k ≠ b!"sandbox" →
          (p.forceSandbox el (p.forceCrossOrigin el mid)).filter (·.key == k) = mid.filter (·.key == k) := by
        intro k h1 h2
        rw [forceSandbox_other_keys p el _ k h2, forceCrossOrigin_other_keys p el _ k h1]
      have fhref := fh b!"href" (by decide) (by decide)
      have frel := fh b!"rel" (by decide) (by decide)
      rw [fhref] at hhref
      have hext : hasHostHref (p.forceSandbox el (p.forceCrossOrigin el mid)) = hasHostHref mid := by
        unfold hasHostHref; rw [fhref]
      rw [hext]
      unfold Policy.linkPasses at hmid
      simp only [hlink, ↓reduceIte, Option.map_eq_some_iff] at hmid
      obtain ⟨m2, _, rfl⟩ := hmid
      -- `mid` is either the hardened list or, with no option on, `m2` itself
      by_cases hg : ((p.requireNoFollow || p.requireNoFollowFullyQualifiedLinks || p.requireNoReferrer ||
          p.requireNoReferrerFullyQualifiedLinks || p.addTargetBlankToFullyQualifiedLinks) &&
          decide (m2.length > 0) && isHrefElement el) = true
      · simp only [hg, ↓reduceIte] at hhref frel ⊢
        have hh2 : (m2.filter (·.key == b!"href")).isEmpty = false := by
          rw [hardenLinks_other_keys p el m2 b!"href" (by decide) (by decide)] at hhref; exact hhref
        have hext2 : hasHostHref (p.hardenLinks el m2) = hasHostHref m2 := by
          unfold hasHostHref; rw [hardenLinks_other_keys p el m2 b!"href" (by decide) (by decide)]
        rw [hext2]
        have hc := C11_hardenLinks p el m2 hh2
        simp only at hc
        constructor
        · intro hnf
          obtain ⟨h1, h2⟩ := hc.1 hnf
          exact ⟨hasRel_of_filter frel.symm h1, allRel_of_filter frel.symm h2⟩
        · intro hnr
          obtain ⟨h1, h2⟩ := hc.2.1 hnr
          exact ⟨hasRel_of_filter frel.symm h1, allRel_of_filter frel.symm h2⟩
      · -- no hardening: then no option is on (the list is non-empty and the element is a link element)
        have hlen : decide (m2.length > 0) = true := by
          simp only [hg, Bool.false_eq_true, ↓reduceIte] at hhref
          cases m2 with
          | nil => simp at hhref
          | cons _ _ => simp
        have hflags : (p.requireNoFollow || p.requireNoFollowFullyQualifiedLinks || p.requireNoReferrer ||
            p.requireNoReferrerFullyQualifiedLinks || p.addTargetBlankToFullyQualifiedLinks) = false := by
          cases hf : (p.requireNoFollow || p.requireNoFollowFullyQualifiedLinks || p.requireNoReferrer ||
            p.requireNoReferrerFullyQualifiedLinks || p.addTargetBlankToFullyQualifiedLinks) with
          | false => rfl
          | true => rw [hf, hlen, hel] at hg; exact absurd rfl hg
        simp only [Bool.or_eq_false_iff] at hflags
        obtain ⟨⟨⟨⟨h1, h2⟩, h3⟩, h4⟩, _⟩ := hflags
        constructor
        · intro hnf; simp [h1, h2] at hnf
        · intro hnr; simp [h3, h4] at hnr

/-- **C11 (byte level, plain policies)**: every a / area / base / link start tag with an href that an
    HTML tokenizer reads from the returned bytes has, under the nofollow (noreferrer) options, a
    rel attribute, and each of its rel attributes has the token. -/
theorem C11_bytes (p : Policy) (hp : PlainC p.ensureInit) (input : Bytes) :
    ∀ k ∈ tokenize (p.sanitizeCore input), (k.tt = .start ∨ k.tt = .selfClosing) → isHrefElement k.data = true →
      (k.attrs.filter (·.key == b!"href")).isEmpty = false →
      ((p.ensureInit.requireNoFollow || (hasHostHref k.attrs && p.ensureInit.requireNoFollowFullyQualifiedLinks)) = true →
          HasRel k.attrs ∧ AllRel b!"nofollow" k.attrs) ∧
      ((p.ensureInit.requireNoReferrer || (hasHostHref k.attrs && p.ensureInit.requireNoReferrerFullyQualifiedLinks)) = true →
          HasRel k.attrs ∧ AllRel b!"noreferrer" k.attrs) := by
  intro k hk htt hel hhref
  have hne : k.attrs ≠ [] := by intro h; rw [h] at hhref; simp at hhref
  obtain ⟨t, _, aps, _, _, hs⟩ := reread_open_tagC p hp input k hk htt hne
  exact C11_sanitizeAttrs p.ensureInit k.data t.attrs aps k.attrs hs hel hhref

/-- (per-input form)  **C11 (byte level, plain policies)**: every a / area / base / link start tag with an href that an
    HTML tokenizer reads from the returned bytes has, under the nofollow (noreferrer) options, a
    rel attribute, and each of its rel attributes has the token. -/
theorem C11_bytes_on (p : Policy) (input : Bytes) (hp : PlainOn p.ensureInit (tokenize input)) :
    ∀ k ∈ tokenize (p.sanitizeCore input), (k.tt = .start ∨ k.tt = .selfClosing) → isHrefElement k.data = true →
      (k.attrs.filter (·.key == b!"href")).isEmpty = false →
      ((p.ensureInit.requireNoFollow || (hasHostHref k.attrs && p.ensureInit.requireNoFollowFullyQualifiedLinks)) = true →
          HasRel k.attrs ∧ AllRel b!"nofollow" k.attrs) ∧
      ((p.ensureInit.requireNoReferrer || (hasHostHref k.attrs && p.ensureInit.requireNoReferrerFullyQualifiedLinks)) = true →
          HasRel k.attrs ∧ AllRel b!"noreferrer" k.attrs) := by
  intro k hk htt hel hhref
  have hne : k.attrs ≠ [] := by intro h; rw [h] at hhref; simp at hhref
  obtain ⟨t, _, aps, _, _, hs⟩ := reread_open_tagOn p input hp k hk htt hne
  exact C11_sanitizeAttrs p.ensureInit k.data t.attrs aps k.attrs hs hel hhref

/-! ### the target / noopener clauses -/

/-- the target attributes of a list, in order (a browser uses the first) -/
def targets (l : List Attr) : List Attr := l.filter (·.key == b!"target")

/-- the first target attribute is `_blank` (ASCII case-insensitively) -/
def FirstTargetBlank (l : List Attr) : Prop :=
  ∃ a, (targets l).head? = some a ∧ asciiEqualFold a.val b!"_blank" = true

theorem targets_fixFirstTarget (l : List Attr) :
    targets (fixFirstTarget l) =
      match targets l with
      | [] => []
      | a :: as => (if asciiEqualFold a.val b!"_blank" then a else ⟨a.key, b!"_blank"⟩) :: as := by
  induction l with
  | nil => rfl
  | cons x xs ih =>
    unfold fixFirstTarget
    by_cases hx : (x.key == b!"target") = true
    · simp only [hx, ↓reduceIte, targets, List.filter_cons]
      split <;> simp [hx]
    · have hx' : (x.key == b!"target") = false := by simpa using hx
      simp only [hx', Bool.false_eq_true, ↓reduceIte, targets, List.filter_cons]
      exact ih

theorem targets_eq_of_filtEq {l0 l : List Attr} (h : FiltEq b!"target" l0 l) : targets l = targets l0 := h

/-- the hardening block, with "some href has a host" named `hasHostHref` -/
theorem hardenLinks_eq (p : Policy) (el : Bytes) (clean : List Attr) :
    p.hardenLinks el clean =
      (let externalLink := hasHostHref clean
       if (clean.filter (·.key == b!"href")).isEmpty then clean else
       let addNoFollow := p.requireNoFollow || (externalLink && p.requireNoFollowFullyQualifiedLinks)
       let addNoReferrer := p.requireNoReferrer || (externalLink && p.requireNoReferrerFullyQualifiedLinks)
       let addTargetBlank := externalLink && p.addTargetBlankToFullyQualifiedLinks
       let isA := el == b!"a"
       let hasRel := clean.any (·.key == b!"rel")
       let hasTarget := clean.any (·.key == b!"target")
       let out := clean.map (relFix addNoFollow addNoReferrer)
       let out := if isA && addTargetBlank then fixFirstTarget out else out
       let out :=
         if (addNoFollow || addNoReferrer) && !hasRel then out ++ [⟨b!"rel", newRelValue addNoFollow addNoReferrer⟩]
         else out
       let blankFound := isA &&
         ((clean.any fun a => a.key == b!"target" && asciiEqualFold a.val b!"_blank") || (addTargetBlank && hasTarget))
       let out := if isA && addTargetBlank && !blankFound then out ++ [⟨b!"target", b!"_blank"⟩] else out
       if blankFound || (isA && addTargetBlank) then addNoOpener out else out) := rfl

/-- with AddTargetBlankToFullyQualifiedLinks and a host-qualified href, the hardening block leaves
    an `a` element whose first target attribute is `_blank` -/
theorem hardenLinks_target (p : Policy) (clean : List Attr)
    (hhref : (clean.filter (·.key == b!"href")).isEmpty = false)
    (htb : (hasHostHref clean && p.addTargetBlankToFullyQualifiedLinks) = true) :
    FirstTargetBlank (p.hardenLinks b!"a" clean) := by
  rw [hardenLinks_eq]
  have hext : hasHostHref clean = true := by simp only [Bool.and_eq_true] at htb; exact htb.1
  have hopt : p.addTargetBlankToFullyQualifiedLinks = true := by simp only [Bool.and_eq_true] at htb; exact htb.2
  simp only [hhref, Bool.false_eq_true, ↓reduceIte, hext, hopt, beq_self_eq_true, Bool.true_and, Bool.and_true, Bool.or_true,
    Bool.and_self]
  -- the stages, read through `targets`
  generalize hnf : (p.requireNoFollow || p.requireNoFollowFullyQualifiedLinks) = nf
  generalize hnr : (p.requireNoReferrer || p.requireNoReferrerFullyQualifiedLinks) = nr
  have t0 : targets (clean.map (relFix nf nr)) = targets clean :=
    targets_eq_of_filtEq (filtEq_relFix (by decide) nf nr (filtEq_refl _ clean))
  have t1 := targets_fixFirstTarget (clean.map (relFix nf nr))
  rw [t0] at t1
  generalize ho1 : fixFirstTarget (clean.map (relFix nf nr)) = o1 at t1
  have t2 : targets (if ((nf || nr) && !clean.any fun x => x.key == b!"rel") = true then o1 ++ [⟨b!"rel", newRelValue nf nr⟩] else o1) = targets o1 := by
    split
    · simp [targets, List.filter_append]
    · rfl
  generalize ho2 : (if ((nf || nr) && !clean.any fun x => x.key == b!"rel") = true then o1 ++ [(⟨b!"rel", newRelValue nf nr⟩ : Attr)] else o1) = o2 at t2
  by_cases hany : clean.any (fun x => x.key == b!"target") = true
  · -- a target attribute is there: the first one is fixed
    simp only [hany, Bool.or_true, Bool.not_true, Bool.false_eq_true, ↓reduceIte]
    have t3 : targets (addNoOpener o2) = targets o2 :=
      targets_eq_of_filtEq (filtEq_addNoOpener (by decide) (filtEq_refl _ o2))
    unfold FirstTargetBlank
    rw [t3, t2, t1]
    have hne : targets clean ≠ [] := by
      obtain ⟨a, ha, hk⟩ := List.any_eq_true.mp hany
      intro he
      have : a ∈ targets clean := List.mem_filter.mpr ⟨ha, hk⟩
      rw [he] at this; simp at this
    cases hc : targets clean with
    | nil => exact absurd hc hne
    | cons a as =>
      simp only [List.head?_cons]
      by_cases hf : asciiEqualFold a.val b!"_blank" = true
      · exact ⟨a, by simp [hf], hf⟩
      · exact ⟨⟨a.key, b!"_blank"⟩, by simp [hf], asciiEqualFold_refl _⟩
  · -- no target attribute: one is appended
    have hany' : clean.any (fun x => x.key == b!"target") = false := by simpa using hany
    have hnb : (clean.any fun a => a.key == b!"target" && asciiEqualFold a.val b!"_blank") = false := by
      rw [List.any_eq_false] at hany' ⊢
      intro a ha
      have := hany' a ha
      simp [this]
    simp only [hany', hnb, Bool.or_self, Bool.not_false, ↓reduceIte]
    have t3 : targets (addNoOpener (o2 ++ [⟨b!"target", b!"_blank"⟩])) = targets (o2 ++ [⟨b!"target", b!"_blank"⟩]) :=
      targets_eq_of_filtEq (filtEq_addNoOpener (by decide) (filtEq_refl _ _))
    unfold FirstTargetBlank
    rw [t3]
    have hnil : targets clean = [] := by
      unfold targets
      apply List.filter_eq_nil_iff.mpr
      intro a ha
      have := List.any_eq_false.mp hany' a ha
      simpa using this
    have : targets (o2 ++ [⟨b!"target", b!"_blank"⟩]) = [⟨b!"target", b!"_blank"⟩] := by
      unfold targets at t2 t1 hnil ⊢
      rw [List.filter_append, t2, t1, hnil]
      rfl
    rw [this]
    exact ⟨_, rfl, by decide⟩

/-- without the target option (or on another element) the block leaves the target attributes alone -/
theorem hardenLinks_targets_kept (p : Policy) (el : Bytes) (clean : List Attr)
    (h : (el == b!"a" && (hasHostHref clean && p.addTargetBlankToFullyQualifiedLinks)) = false) :
    targets (p.hardenLinks el clean) = targets clean := by
  show FiltEq b!"target" clean (p.hardenLinks el clean)
  rw [hardenLinks_eq]
  simp only
  split
  · exact filtEq_refl _ clean
  · simp only [h, Bool.false_eq_true, ↓reduceIte, Bool.false_and, Bool.or_false]
    repeat' (first
      | exact filtEq_relFix (by decide) _ _ (filtEq_refl _ clean)
      | apply filtEq_addNoOpener (by decide)
      | apply filtEq_append _ (by show (b!"rel" : Bytes) ≠ b!"target"; decide)
      | split)

/-- the noopener clause of `C11_hardenLinks`, with "some href has a host" named `hasHostHref` -/
theorem C11_hardenLinks_noopener (p : Policy) (el : Bytes) (clean : List Attr)
    (hhref : (clean.filter (·.key == b!"href")).isEmpty = false)
    (h : ((el == b!"a" &&
        ((clean.any fun a => a.key == b!"target" && asciiEqualFold a.val b!"_blank") ||
         ((hasHostHref clean && p.addTargetBlankToFullyQualifiedLinks) && clean.any (·.key == b!"target")))) ||
      (el == b!"a" && (hasHostHref clean && p.addTargetBlankToFullyQualifiedLinks))) = true) :
    HasRel (p.hardenLinks el clean) ∧ AllRel b!"noopener" (p.hardenLinks el clean) :=
  (C11_hardenLinks p el clean hhref).2.2 h

/-- **C11, target and noopener clauses, for the whole of `sanitizeAttrs`** (element `a`, a returned
    attribute list that carries an href): with AddTargetBlankToFullyQualifiedLinks and a host-qualified
    href the first target attribute is `_blank`; and under any link option, if some target attribute
    of the result is `_blank`, there is a rel attribute and every rel attribute has the token noopener. -/
theorem C11_sanitizeAttrs_target (p : Policy) (attrs : List Attr) (aps : AttrRules) (out : List Attr)
    (h : p.sanitizeAttrs b!"a" attrs aps = some out)
    (hhref : (out.filter (·.key == b!"href")).isEmpty = false) :
    ((hasHostHref out && p.addTargetBlankToFullyQualifiedLinks) = true → FirstTargetBlank out) ∧
    ((p.requireNoFollow || p.requireNoFollowFullyQualifiedLinks || p.requireNoReferrer ||
        p.requireNoReferrerFullyQualifiedLinks || p.addTargetBlankToFullyQualifiedLinks) = true →
      ((targets out).any fun a => asciiEqualFold a.val b!"_blank") = true →
      HasRel out ∧ AllRel b!"noopener" out) := by
  unfold Policy.sanitizeAttrs at h
  split at h
  · rename_i he; simp at h; subst h
    rw [List.isEmpty_iff.mp he] at hhref; simp at hhref
  · simp only at h
    split at h
    · rename_i he; simp at h; subst h
      rw [List.isEmpty_iff.mp he] at hhref; simp at hhref
    · simp only [Option.map_eq_some_iff] at h
      obtain ⟨mid, hmid, rfl⟩ := h
      have fh : ∀ k, k ≠ b!"crossorigin" → k ≠ b!"sandbox" →
          (p.forceSandbox b!"a" (p.forceCrossOrigin b!"a" mid)).filter (·.key == k) = mid.filter (·.key == k) := by
        intro k h1 h2
        rw [forceSandbox_other_keys p _ _ k h2, forceCrossOrigin_other_keys p _ _ k h1]
      have fhref := fh b!"href" (by decide) (by decide)
      have frel := fh b!"rel" (by decide) (by decide)
      have ftgt : targets (p.forceSandbox b!"a" (p.forceCrossOrigin b!"a" mid)) = targets mid :=
        fh b!"target" (by decide) (by decide)
      rw [fhref] at hhref
      have hext : hasHostHref (p.forceSandbox b!"a" (p.forceCrossOrigin b!"a" mid)) = hasHostHref mid := by
        unfold hasHostHref; rw [fhref]
      rw [hext]
      unfold FirstTargetBlank
      rw [ftgt]
      unfold Policy.linkPasses at hmid
      have hlink : linkable b!"a" = true := by decide
      simp only [hlink, ↓reduceIte, Option.map_eq_some_iff] at hmid
      obtain ⟨m2, _, rfl⟩ := hmid
      have hela : isHrefElement b!"a" = true := by decide
      -- with any option on, the block runs: the list is non-empty (it has an href)
      have hrun : (p.requireNoFollow || p.requireNoFollowFullyQualifiedLinks || p.requireNoReferrer ||
          p.requireNoReferrerFullyQualifiedLinks || p.addTargetBlankToFullyQualifiedLinks) = true →
          ((p.requireNoFollow || p.requireNoFollowFullyQualifiedLinks || p.requireNoReferrer ||
            p.requireNoReferrerFullyQualifiedLinks || p.addTargetBlankToFullyQualifiedLinks) &&
            decide (m2.length > 0) && isHrefElement b!"a") = true := by
        intro hopt
        have hlen : decide (m2.length > 0) = true := by
          cases m2 with
          | nil => simp [hopt] at hhref
          | cons _ _ => simp
        rw [hopt, hlen, hela]; rfl
      constructor
      · intro htb
        have hopt : (p.requireNoFollow || p.requireNoFollowFullyQualifiedLinks || p.requireNoReferrer ||
            p.requireNoReferrerFullyQualifiedLinks || p.addTargetBlankToFullyQualifiedLinks) = true := by
          simp only [Bool.and_eq_true] at htb; simp [htb.2]
        have hg := hrun hopt
        simp only [hg, ↓reduceIte] at hhref htb ⊢
        have hh2 : (m2.filter (·.key == b!"href")).isEmpty = false := by
          rw [hardenLinks_other_keys p _ m2 b!"href" (by decide) (by decide)] at hhref; exact hhref
        have hext2 : hasHostHref (p.hardenLinks b!"a" m2) = hasHostHref m2 := by
          unfold hasHostHref; rw [hardenLinks_other_keys p _ m2 b!"href" (by decide) (by decide)]
        rw [hext2] at htb
        exact hardenLinks_target p m2 hh2 htb
      · intro hopt hblank
        have hg := hrun hopt
        simp only [hg, ↓reduceIte] at hhref hblank frel ⊢
        have hh2 : (m2.filter (·.key == b!"href")).isEmpty = false := by
          rw [hardenLinks_other_keys p _ m2 b!"href" (by decide) (by decide)] at hhref; exact hhref
        have hres : HasRel (p.hardenLinks b!"a" m2) ∧ AllRel b!"noopener" (p.hardenLinks b!"a" m2) := by
          apply C11_hardenLinks_noopener p b!"a" m2 hh2
          by_cases hatb : (hasHostHref m2 && p.addTargetBlankToFullyQualifiedLinks) = true
          · simp [hatb]
          · -- the block left the targets alone: a `_blank` was there before
            have hatb' : ((b!"a" : Bytes) == b!"a" && (hasHostHref m2 && p.addTargetBlankToFullyQualifiedLinks)) = false := by
              simp [hatb]
            rw [hardenLinks_targets_kept p _ m2 hatb'] at hblank
            have : (m2.any fun a => a.key == b!"target" && asciiEqualFold a.val b!"_blank") = true := by
              obtain ⟨a, ha, hf⟩ := List.any_eq_true.mp hblank
              obtain ⟨ham, hk⟩ := List.mem_filter.mp ha
              exact List.any_eq_true.mpr ⟨a, ham, by simp [hk, hf]⟩
            simp [this]
        exact ⟨hasRel_of_filter frel.symm hres.1, allRel_of_filter frel.symm hres.2⟩

/-- **C11, target and noopener clauses at byte level** (plain policies): on every `a` start tag with
    an href that an HTML tokenizer reads from the returned bytes -/
theorem C11_bytes_target (p : Policy) (hp : PlainC p.ensureInit) (input : Bytes) :
    ∀ k ∈ tokenize (p.sanitizeCore input), (k.tt = .start ∨ k.tt = .selfClosing) → k.data = b!"a" →
      (k.attrs.filter (·.key == b!"href")).isEmpty = false →
      ((hasHostHref k.attrs && p.ensureInit.addTargetBlankToFullyQualifiedLinks) = true → FirstTargetBlank k.attrs) ∧
      ((p.ensureInit.requireNoFollow || p.ensureInit.requireNoFollowFullyQualifiedLinks || p.ensureInit.requireNoReferrer ||
          p.ensureInit.requireNoReferrerFullyQualifiedLinks || p.ensureInit.addTargetBlankToFullyQualifiedLinks) = true →
        ((targets k.attrs).any fun a => asciiEqualFold a.val b!"_blank") = true →
        HasRel k.attrs ∧ AllRel b!"noopener" k.attrs) := by
  intro k hk htt hel hhref
  have hne : k.attrs ≠ [] := by intro h; rw [h] at hhref; simp at hhref
  obtain ⟨t, _, aps, _, _, hs⟩ := reread_open_tagC p hp input k hk htt hne
  rw [hel] at hs
  exact C11_sanitizeAttrs_target p.ensureInit t.attrs aps k.attrs hs hhref

/-- (per-input form)  **C11, target and noopener clauses at byte level** (plain policies): on every `a` start tag with
    an href that an HTML tokenizer reads from the returned bytes -/
theorem C11_bytes_target_on (p : Policy) (input : Bytes) (hp : PlainOn p.ensureInit (tokenize input)) :
    ∀ k ∈ tokenize (p.sanitizeCore input), (k.tt = .start ∨ k.tt = .selfClosing) → k.data = b!"a" →
      (k.attrs.filter (·.key == b!"href")).isEmpty = false →
      ((hasHostHref k.attrs && p.ensureInit.addTargetBlankToFullyQualifiedLinks) = true → FirstTargetBlank k.attrs) ∧
      ((p.ensureInit.requireNoFollow || p.ensureInit.requireNoFollowFullyQualifiedLinks || p.ensureInit.requireNoReferrer ||
          p.ensureInit.requireNoReferrerFullyQualifiedLinks || p.ensureInit.addTargetBlankToFullyQualifiedLinks) = true →
        ((targets k.attrs).any fun a => asciiEqualFold a.val b!"_blank") = true →
        HasRel k.attrs ∧ AllRel b!"noopener" k.attrs) := by
  intro k hk htt hel hhref
  have hne : k.attrs ≠ [] := by intro h; rw [h] at hhref; simp at hhref
  obtain ⟨t, _, aps, _, _, hs⟩ := reread_open_tagOn p input hp k hk htt hne
  rw [hel] at hs
  exact C11_sanitizeAttrs_target p.ensureInit t.attrs aps k.attrs hs hhref

end BM.Props
