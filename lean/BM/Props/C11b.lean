import BM.Props.C11
import BM.Props.Pins
import BM.Props.C12
import BM.Proofs.Prov
/-
  C11 composed: from the hardening block to the whole of `sanitizeAttrs`, and to the bytes.
  The later passes (forced crossorigin / sandbox) leave href and rel attributes alone, so what
  `C11_hardenLinks` proves of the block holds of what `sanitizeAttrs` returns; for plain
  policies it holds of every a / area / link tag an HTML tokenizer reads from the output.
-/
namespace BM.Props
open BM BM.Html BM.Spec

/-- `l` has the same attributes named `k`, in the same order, as `l0` -/
def FiltEq (k : Bytes) (l0 l : List Attr) : Prop := l.filter (·.key == k) = l0.filter (·.key == k)

theorem filtEq_refl (k : Bytes) (l : List Attr) : FiltEq k l l := rfl

theorem filtEq_map {k : Bytes} {l0 l : List Attr} (f : Attr → Attr)
    (hf : ∀ a, (f a).key = a.key ∧ (a.key = k → f a = a)) (h : FiltEq k l0 l) : FiltEq k l0 (l.map f) := by
  unfold FiltEq at *
  rw [← h]
  clear h
  induction l with
  | nil => rfl
  | cons a as ih =>
    obtain ⟨hk, hv⟩ := hf a
    simp only [List.map_cons, List.filter_cons, hk]
    by_cases ha : a.key = k
    · simp [ha, hv ha, ih]
    · simp [ha, ih]

theorem filtEq_append {k : Bytes} {l0 l : List Attr} (x : Attr) (hx : x.key ≠ k) (h : FiltEq k l0 l) :
    FiltEq k l0 (l ++ [x]) := by
  unfold FiltEq at *
  simp [List.filter_append, hx, h]

theorem filtEq_fixFirstTarget {k : Bytes} (hk : k ≠ b!"target") {l0 : List Attr} :
    ∀ {l : List Attr}, FiltEq k l0 l → FiltEq k l0 (fixFirstTarget l) := by
  intro l h
  unfold FiltEq at *
  rw [← h]
  clear h
  induction l with
  | nil => rfl
  | cons a as ih =>
    unfold fixFirstTarget
    split
    · rename_i hka
      simp only [beq_iff_eq] at hka
      have hne : a.key ≠ k := fun e => hk (e ▸ hka)
      split
      · rfl
      · simp [List.filter_cons, hne]
    · simp only [List.filter_cons]
      split <;> simp [ih]

theorem filtEq_addNoOpener {k : Bytes} (hk : k ≠ b!"rel") {l0 l : List Attr} (h : FiltEq k l0 l) :
    FiltEq k l0 (addNoOpener l) := by
  unfold addNoOpener
  split
  · refine filtEq_map _ ?_ h
    intro a
    split
    · rename_i hka
      simp only [beq_iff_eq] at hka
      exact ⟨rfl, fun e => absurd (e ▸ hka : k = b!"rel") hk⟩
    · exact ⟨rfl, fun _ => rfl⟩
  · exact filtEq_append _ (by simpa using Ne.symm hk) h

theorem filtEq_relFix {k : Bytes} (hk : k ≠ b!"rel") {l0 l : List Attr} (nf nr : Bool) (h : FiltEq k l0 l) :
    FiltEq k l0 (l.map (relFix nf nr)) := by
  refine filtEq_map _ ?_ h
  intro a
  unfold relFix
  split
  · rename_i hka
    simp only [Bool.and_eq_true, beq_iff_eq] at hka
    exact ⟨rfl, fun e => absurd (e ▸ hka.1 : k = b!"rel") hk⟩
  · exact ⟨rfl, fun _ => rfl⟩

/-- the hardening block leaves every attribute other than rel and target alone -/
theorem hardenLinks_other_keys (p : Policy) (el : Bytes) (l : List Attr) (k : Bytes)
    (hr : k ≠ b!"rel") (ht : k ≠ b!"target") :
    (p.hardenLinks el l).filter (·.key == k) = l.filter (·.key == k) := by
  show FiltEq k l (p.hardenLinks el l)
  unfold Policy.hardenLinks
  simp only
  split
  · exact filtEq_refl k l
  · repeat' (first
      | exact filtEq_relFix hr _ _ (filtEq_refl k l)
      | apply filtEq_addNoOpener hr
      | apply filtEq_fixFirstTarget ht
      | apply filtEq_append _ (by simpa using Ne.symm hr)
      | apply filtEq_append _ (by simpa using Ne.symm ht)
      | split)

theorem forceCrossOrigin_other_keys (p : Policy) (el : Bytes) (clean : List Attr) (k : Bytes)
    (hk : k ≠ b!"crossorigin") : ((p.forceCrossOrigin el clean).filter (·.key == k)) = clean.filter (·.key == k) := by
  unfold Policy.forceCrossOrigin
  split
  · split
    · exact filter_map_setVal _ _ _ _ hk
    · simp [List.filter_append, Ne.symm hk]
  · rfl

theorem hasRel_of_filter {l l' : List Attr} (h : l.filter (·.key == b!"rel") = l'.filter (·.key == b!"rel")) :
    HasRel l → HasRel l' := by
  intro ⟨a, ha, hk⟩
  have : a ∈ l.filter (·.key == b!"rel") := List.mem_filter.mpr ⟨ha, by simp [hk]⟩
  rw [h] at this
  exact ⟨a, (List.mem_filter.mp this).1, hk⟩

theorem allRel_of_filter {t : Bytes} {l l' : List Attr} (h : l.filter (·.key == b!"rel") = l'.filter (·.key == b!"rel")) :
    AllRel t l → AllRel t l' := by
  intro hall a ha hk
  have : a ∈ l'.filter (·.key == b!"rel") := List.mem_filter.mpr ⟨ha, by simp [hk]⟩
  rw [← h] at this
  exact hall a (List.mem_filter.mp this).1 hk

/-- does some href of the list have a host (for net/url)? -/
def hasHostHref (l : List Attr) : Bool :=
  (l.filter (·.key == b!"href")).any fun a => match Url.parse a.val with
    | some u => !u.host.isEmpty
    | none => false

/-- **C11 for the whole of `sanitizeAttrs`** (every policy, attribute list, a / area / base / link):
    if the returned attribute list carries an href, then under RequireNoFollowOnLinks (or its
    fully-qualified variant when some href has a host) there is a rel attribute and every rel
    attribute has the token nofollow; likewise noreferrer. -/
theorem C11_sanitizeAttrs (p : Policy) (el : Bytes) (attrs : List Attr) (aps : AttrRules) (out : List Attr)
    (h : p.sanitizeAttrs el attrs aps = some out) (hel : isHrefElement el = true)
    (hhref : (out.filter (·.key == b!"href")).isEmpty = false) :
    ((p.requireNoFollow || (hasHostHref out && p.requireNoFollowFullyQualifiedLinks)) = true →
        HasRel out ∧ AllRel b!"nofollow" out) ∧
    ((p.requireNoReferrer || (hasHostHref out && p.requireNoReferrerFullyQualifiedLinks)) = true →
        HasRel out ∧ AllRel b!"noreferrer" out) := by
  have hlink : linkable el = true := by
    simp only [isHrefElement, Bool.or_eq_true, beq_iff_eq] at hel
    rcases hel with ((h' | h') | h') | h' <;> subst h' <;> decide
  unfold Policy.sanitizeAttrs at h
  split at h
  · rename_i he; simp at h; subst h
    rw [List.isEmpty_iff.mp he] at hhref; simp at hhref
  · simp only at h
    split at h
    · rename_i he; simp at h; subst h
      rw [List.isEmpty_iff.mp he] at hhref; simp at hhref
    · simp only [Option.map_eq_some_iff] at h
      obtain ⟨mid, hmid, rfl⟩ := h
      -- filters of href and rel on the result are those of `mid`
      have fh : ∀ k, k ≠ b!"crossorigin" → k ≠ b!"sandbox" →
          (p.forceSandbox el (p.forceCrossOrigin el mid)).filter (·.key == k) = mid.filter (·.key == k) := by
        intro k h1 h2
        rw [forceSandbox_other_keys p el _ k h2, forceCrossOrigin_other_keys p el _ k h1]
      have fhref := fh b!"href" (by decide) (by decide)
      have frel := fh b!"rel" (by decide) (by decide)
      rw [fhref] at hhref
      have hext : hasHostHref (p.forceSandbox el (p.forceCrossOrigin el mid)) = hasHostHref mid := by
        unfold hasHostHref; rw [fhref]
      rw [hext]
      unfold Policy.linkPasses at hmid
      simp only [hlink, ↓reduceIte, Option.map_eq_some_iff] at hmid
      obtain ⟨m2, _, rfl⟩ := hmid
      -- `mid` is either the hardened list or, with no option on, `m2` itself
      by_cases hg : ((p.requireNoFollow || p.requireNoFollowFullyQualifiedLinks || p.requireNoReferrer ||
          p.requireNoReferrerFullyQualifiedLinks || p.addTargetBlankToFullyQualifiedLinks) &&
          decide (m2.length > 0) && isHrefElement el) = true
      · simp only [hg, ↓reduceIte] at hhref frel ⊢
        have hh2 : (m2.filter (·.key == b!"href")).isEmpty = false := by
          rw [hardenLinks_other_keys p el m2 b!"href" (by decide) (by decide)] at hhref; exact hhref
        have hext2 : hasHostHref (p.hardenLinks el m2) = hasHostHref m2 := by
          unfold hasHostHref; rw [hardenLinks_other_keys p el m2 b!"href" (by decide) (by decide)]
        rw [hext2]
        have hc := C11_hardenLinks p el m2 hh2
        simp only at hc
        constructor
        · intro hnf
          obtain ⟨h1, h2⟩ := hc.1 hnf
          exact ⟨hasRel_of_filter frel.symm h1, allRel_of_filter frel.symm h2⟩
        · intro hnr
          obtain ⟨h1, h2⟩ := hc.2.1 hnr
          exact ⟨hasRel_of_filter frel.symm h1, allRel_of_filter frel.symm h2⟩
      · -- no hardening: then no option is on (the list is non-empty and the element is a link element)
        have hlen : decide (m2.length > 0) = true := by
          simp only [hg, Bool.false_eq_true, ↓reduceIte] at hhref
          cases m2 with
          | nil => simp at hhref
          | cons _ _ => simp
        have hflags : (p.requireNoFollow || p.requireNoFollowFullyQualifiedLinks || p.requireNoReferrer ||
            p.requireNoReferrerFullyQualifiedLinks || p.addTargetBlankToFullyQualifiedLinks) = false := by
          cases hf : (p.requireNoFollow || p.requireNoFollowFullyQualifiedLinks || p.requireNoReferrer ||
            p.requireNoReferrerFullyQualifiedLinks || p.addTargetBlankToFullyQualifiedLinks) with
          | false => rfl
          | true => rw [hf, hlen, hel] at hg; exact absurd rfl hg
        simp only [Bool.or_eq_false_iff] at hflags
        obtain ⟨⟨⟨⟨h1, h2⟩, h3⟩, h4⟩, _⟩ := hflags
        constructor
        · intro hnf; simp [h1, h2] at hnf
        · intro hnr; simp [h3, h4] at hnr

/-- **C11 (byte level, plain policies)**: every a / area / base / link start tag with an href that an
    HTML tokenizer reads from the returned bytes has, under the nofollow (noreferrer) options, a
    rel attribute, and each of its rel attributes has the token. -/
theorem C11_bytes (p : Policy) (hp : Plain p.ensureInit) (input : Bytes) :
    ∀ k ∈ tokenize (p.sanitizeCore input), (k.tt = .start ∨ k.tt = .selfClosing) → isHrefElement k.data = true →
      (k.attrs.filter (·.key == b!"href")).isEmpty = false →
      ((p.ensureInit.requireNoFollow || (hasHostHref k.attrs && p.ensureInit.requireNoFollowFullyQualifiedLinks)) = true →
          HasRel k.attrs ∧ AllRel b!"nofollow" k.attrs) ∧
      ((p.ensureInit.requireNoReferrer || (hasHostHref k.attrs && p.ensureInit.requireNoReferrerFullyQualifiedLinks)) = true →
          HasRel k.attrs ∧ AllRel b!"noreferrer" k.attrs) := by
  intro k hk htt hel hhref
  have hne : k.attrs ≠ [] := by intro h; rw [h] at hhref; simp at hhref
  obtain ⟨t, _, aps, _, _, hs⟩ := reread_open_tag p hp input k hk htt hne
  exact C11_sanitizeAttrs p.ensureInit k.data t.attrs aps k.attrs hs hel hhref

end BM.Props
