import BM.Props.C04
import BM.Spec.More
/-
  The oracles on the model.  An oracle (BM/Spec) is evaluated on the *implementation's* output; a case
  on which implementation and model agree can only raise an alarm if the oracle is false on the model's
  output.  For the oracles below that cannot happen: the byte-level theorems say exactly that the
  oracle holds of what the model returns.  (Where a property has a known finding the corresponding
  statement is false by design and is not made.)
-/
namespace BM.Props
open BM BM.Html BM.Spec

/-- `oracleC04strict` holds of the model's output for every input -/
theorem oracleC04strict_model (input : Bytes) : oracleC04strict (strictPolicy.sanitizeCore input) = true := by
  unfold oracleC04strict
  rw [List.all_eq_true]
  intro c hc
  have := C04_strict_no_markup input c hc
  simp [this.1, this.2]

end BM.Props
