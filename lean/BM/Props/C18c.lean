import BM.Props.C18b
import BM.Props.C10
import BM.Proofs.WFBuild
import BM.Proofs.Tables2
/-
  C18 for whole policies, by induction over builder histories.  `C18_kept_declarations_clean` asks that
  every style rule which applies to an element accept clean values only; here that premise is discharged
  for every policy a program can build: start from `NewPolicy()`, make any calls at all — elements,
  attributes, URL rules, switches, and `AllowStyles(props…)` with any scope — provided every matcher a
  style call supplies itself (`Matching`, `MatchingEnum`, `MatchingHandler`) accepts clean values only.
  A call that supplies none gets the default handler of the property, which `C18_every_default_handler_clean`
  covers for every property and value, so a history without custom matchers needs no premise at all.
-/
namespace BM.Props
open BM BM.Golite

/-- every matcher the call installs accepts clean values only (calls that are not style calls install none) -/
def stylesCleanOnly : BuilderOp → Prop
  | .allowStyles _ m _ => ∀ prop, CleanOnly (mkStylePolicy defaultHandler m prop)
  | _ => True

/-- the call is not a style call, or is `AllowStyles(props…)` without `Matching…` -/
def defaultStylesOnly : BuilderOp → Prop
  | .allowStyles _ m _ => m.handler = none ∧ m.enum = [] ∧ m.re = none
  | _ => True

theorem stylesCleanOnly_of_default (op : BuilderOp) (h : defaultStylesOnly op) : stylesCleanOnly op := by
  cases op with
  | allowStyles names m scope =>
    obtain ⟨h1, h2, h3⟩ := h
    intro prop
    have e : mkStylePolicy defaultHandler m prop = mkStylePolicy defaultHandler {} prop := by
      simp [mkStylePolicy, h1, h2, h3]
    rw [e]
    exact default_matcher_cleanOnly_all prop
  | _ => trivial

theorem cleanOnly_of_addsElemStyle (op : BuilderOp) (h : stylesCleanOnly op) (el prop : Bytes) (sp : StylePolicy)
    (ha : op.addsElemStyle defaultHandler el prop sp) : CleanOnly sp := by
  cases op with
  | allowStyles names m scope =>
    cases scope with
    | onElements els =>
      obtain ⟨_, _, rfl⟩ := ha
      exact h prop
    | _ => exact ha.elim
  | _ => exact ha.elim

theorem cleanOnly_of_addsGlobalStyle (op : BuilderOp) (h : stylesCleanOnly op) (prop : Bytes) (sp : StylePolicy)
    (ha : op.addsGlobalStyle defaultHandler prop sp) : CleanOnly sp := by
  cases op with
  | allowStyles names m scope =>
    cases scope with
    | globally =>
      obtain ⟨_, rfl⟩ := ha
      exact h prop
    | _ => exact ha.elim
  | _ => exact ha.elim

theorem cleanOnly_of_addsMatchStyle (op : BuilderOp) (h : stylesCleanOnly op) (r : Pat) (prop : Bytes) (sp : StylePolicy)
    (ha : op.addsMatchStyle defaultHandler r prop sp) : CleanOnly sp := by
  cases op with
  | allowStyles names m scope =>
    cases scope with
    | onElementsMatching r' =>
      obtain ⟨_, _, rfl⟩ := ha
      exact h prop
    | _ => exact ha.elim
  | _ => exact ha.elim

/-- **C18 for every policy built from `NewPolicy()`**: after any history of builder calls whose own style
    matchers (if any) accept clean values only, on every element, every declaration `sanitizeStyles` keeps
    has a value that — lower-cased, escapes decoded — contains no backslash, angle bracket, at-sign,
    semicolon or brace.  (`T` is the behaviour of the compiled element patterns, by identity.) -/
theorem C18_built_policy_clean (T : Nat → Bytes → Bool) (ops : List BuilderOp)
    (hpat : ∀ op ∈ ops, op.patsOK T) (hst : ∀ op ∈ ops, stylesCleanOnly op)
    (el : Bytes) (dec : Css.Decl)
    (h : (applyOps defaultHandler { initialized := true } ops).declAccepted
          ((applyOps defaultHandler { initialized := true } ops).styleRulesFor el) dec = true) :
    ∃ tv, removeUnicode (toLowerGo dec.value) = some tv ∧ Clean tv := by
  have hw := wf_applyOps T defaultHandler { initialized := true } rfl (wf_new T) ops hpat
  obtain ⟨_, _, _, hES, hGS⟩ := rules_applyOps defaultHandler { initialized := true } rfl ops
  obtain ⟨_, _, hMS, _, _, _⟩ := rules2_applyOps defaultHandler { initialized := true } rfl ops
  refine C18_kept_declarations_clean _ el ?_ ?_ dec h
  · intro prop sp hsp
    rcases (styleRulesFor_mem T _ hw el prop sp).mp hsp with ⟨_, hin⟩ | ⟨_, r, _, hin⟩
    · rcases (hES el prop sp).mp hin with h0 | ⟨op, hop, ha⟩
      · simp [Policy.elemStyleRules, rulesOf, Map.get?] at h0
      · exact cleanOnly_of_addsElemStyle op (hst op hop) el prop sp ha
    · rcases (hMS r prop sp).mp hin with h0 | ⟨op, hop, ha⟩
      · simp [Policy.matchStyleRules, rulesOf, Map.get?, patGet?] at h0
      · exact cleanOnly_of_addsMatchStyle op (hst op hop) r prop sp ha
  · intro prop sp hsp
    rcases (hGS prop sp).mp hsp with h0 | ⟨op, hop, ha⟩
    · simp [Policy.globalStyleRules, rulesOf, Map.get?] at h0
    · exact cleanOnly_of_addsGlobalStyle op (hst op hop) prop sp ha

/-- … and with no premise on the matchers when the history supplies none: `AllowStyles(props…)` alone
    installs the default handlers, all of which accept clean values only -/
theorem C18_default_policy_clean (T : Nat → Bytes → Bool) (ops : List BuilderOp)
    (hpat : ∀ op ∈ ops, op.patsOK T) (hdef : ∀ op ∈ ops, defaultStylesOnly op)
    (el : Bytes) (dec : Css.Decl)
    (h : (applyOps defaultHandler { initialized := true } ops).declAccepted
          ((applyOps defaultHandler { initialized := true } ops).styleRulesFor el) dec = true) :
    ∃ tv, removeUnicode (toLowerGo dec.value) = some tv ∧ Clean tv :=
  C18_built_policy_clean T ops hpat (fun op hop => stylesCleanOnly_of_default op (hdef op hop)) el dec h

/-- **the style attribute a default-built policy writes**: whatever the input value and the element, the new
    value of the style attribute is the `"; "`-join of `property ": " value` over declarations every one of
    which has a clean value (C10's shape with C18's content) -/
theorem C18_sanitizeStyles_clean (T : Nat → Bytes → Bool) (ops : List BuilderOp)
    (hpat : ∀ op ∈ ops, op.patsOK T) (hdef : ∀ op ∈ ops, defaultStylesOnly op) (val el : Bytes) :
    ∃ decs : List Css.Decl,
      (applyOps defaultHandler { initialized := true } ops).sanitizeStyles val el =
        joinBytes b!"; " (decs.map fun d => d.property ++ b!": " ++ d.value) ∧
      ∀ d ∈ decs, ∃ tv, removeUnicode (toLowerGo d.value) = some tv ∧ Clean tv := by
  rw [C10_sanitizeStyles]
  cases Css.parseDeclarations (styleSource val) with
  | none => exact ⟨[], rfl, fun d hd => by simp at hd⟩
  | some decs =>
    refine ⟨decs.filter ((applyOps defaultHandler { initialized := true } ops).declAccepted
      ((applyOps defaultHandler { initialized := true } ops).styleRulesFor el)), rfl, ?_⟩
    intro d hd
    exact C18_default_policy_clean T ops hpat hdef el d (List.mem_filter.mp hd).2

/-- the premises are met by a history that does install style rules, on an element and globally -/
example : (∀ op ∈ [BuilderOp.allowStyles [b!"color"] {} (.onElements [b!"span"]),
                   BuilderOp.allowStyles [b!"width"] {} .globally,
                   BuilderOp.allowElements [b!"p"]], defaultStylesOnly op) := by
  intro op hop
  simp only [List.mem_cons, List.not_mem_nil, or_false] at hop
  rcases hop with rfl | rfl | rfl <;> simp [defaultStylesOnly]

end BM.Props
