import BM.Gen.SrcPins
/- WRITTEN by tools/repin.py from /repo at da0a256 (committed; re-checked against the regenerated
   BM/Gen/SrcPins.lean on every run).  The units of source the model and the proofs of C18 were
   written against: a change to one of them breaks `C18_source_pin`, and with it the obligations of
   this property only. -/
namespace BM.Props

def C18_units : List (String × String) := [
]

set_option maxRecDepth 100000 in
theorem C18_source_pin : C18_units.all (fun u => BM.Gen.srcPins.contains u) = true := by decide

end BM.Props
