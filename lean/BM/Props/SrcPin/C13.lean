import BM.Gen.SrcPins
/- WRITTEN by tools/repin.py from /repo at da0a256 (committed; re-checked against the regenerated
   BM/Gen/SrcPins.lean on every run).  The units of source the model and the proofs of C13 were
   written against: a change to one of them breaks `C13_source_pin`, and with it the obligations of
   this property only. -/
namespace BM.Props

def C13_units : List (String × String) := [
  ("policy.go/type/Policy", "3f228ec260944688"),
  ("sanitize.go/func/*Policy.sanitizeAttrs/label:attrsLoop", "9e43b5a0c3b5e942"),
  ("sanitize.go/func/*Policy.sanitizeStyles", "db2e9243434eb3a3"),
  ("sanitize.go/func/*Policy.allowNoAttrs", "94b9cd29f5bdc0f7"),
  ("sanitize.go/func/*Policy.validURL", "76fa5460391533f8"),
  ("sanitize.go/func/*Policy.matchRegex", "2e064bc838cea7fd")
]

set_option maxRecDepth 100000 in
theorem C13_source_pin : C13_units.all (fun u => BM.Gen.srcPins.contains u) = true := by decide

/-- the package-level variables, constants and types of the package (functions are not state): a new
    package-level variable — a cache, a pool, a shared default table, a sync.Once — or a changed one is a
    change to what a policy can share with other policies or remember between calls -/
def C13_inventory : List (String × String) := [
  ("helpers.go/var/CellAlign,CellVerticalAlign,Direction,ImageAlign,Integer,ISO8601,ListType,SpaceS", "6b749d40d9f47dae"),
  ("policy.go/type/Policy", "3f228ec260944688"),
  ("policy.go/type/attrPolicy", "b2ceb2423494d3be"),
  ("policy.go/type/stylePolicy", "7b015e5fb74f4933"),
  ("policy.go/type/attrPolicyBuilder", "4651cb16305a7ca8"),
  ("policy.go/type/stylePolicyBuilder", "e0d0db2057985649"),
  ("policy.go/type/urlPolicy", "285a2e431b67c8f2"),
  ("policy.go/type/urlRewriter", "d62ac156c80aa631"),
  ("policy.go/type/SandboxValue", "a9db4ddd8879c526"),
  ("policy.go/const/SandboxAllowDownloads,SandboxAllowDownloadsWithoutUserActivation,SandboxAllowFor", "5445d2e2c82af163"),
  ("sanitize.go/var/dataAttribute,dataAttributeXMLPrefix,dataAttributeInvalidChars,cssUnicodeChar,da", "2545e9727a056a18"),
  ("sanitize.go/type/Query", "f7f6082aee02d424"),
  ("sanitize.go/const/keptTagMarker", "8bc60fb6ea752b4e"),
  ("sanitize.go/type/asStringWriter", "8939da689d9e77eb"),
  ("sanitize.go/type/stringWriterWriter", "bfeb5d1524674eff")
]

set_option maxRecDepth 100000 in
theorem C13_inventory_pin : BM.Gen.srcState = C13_inventory := by decide

end BM.Props
