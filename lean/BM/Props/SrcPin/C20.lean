import BM.Gen.SrcPins
/- WRITTEN by tools/repin.py from /repo at da0a256 (committed; re-checked against the regenerated
   BM/Gen/SrcPins.lean on every run).  The units of source the model and the proofs of C20 were
   written against: a change to one of them breaks `C20_source_pin`, and with it the obligations of
   this property only. -/
namespace BM.Props

def C20_units : List (String × String) := [
  ("sanitize.go/func/*Policy.Sanitize", "9ba7d669ac7a66cc"),
  ("sanitize.go/func/*Policy.SanitizeBytes", "757e2ab378b5f7df"),
  ("sanitize.go/func/*Policy.SanitizeReader", "08410f91f837f43a"),
  ("sanitize.go/func/*Policy.SanitizeReaderToWriter", "567a76ba99acc83b"),
  ("sanitize.go/func/*Policy.sanitizeWithBuff", "a00e1f64f0d0c903"),
  ("sanitize.go/func/*Policy.sanitizeAttrs/if:linkable(elementName)/if:p.requireParseableURLs", "ef3f9f1514c2daf5"),
  ("sanitize.go/func/*Policy.sanitizeAttrs/if:linkable(elementName)/if:(p.requireNoFollow || p.requireNoFollowFullyQualifiedLinks |", "2b17c4a72363ce0c"),
  ("sanitize.go/func/*Policy.sanitizeAttrs/if:p.requireCrossOriginAnonymous && len(cleanAttrs) > 0", "2ca403c50501b381"),
  ("sanitize.go/func/*Policy.sanitizeAttrs/if:p.requireSandboxOnIFrame != nil && elementName == \"iframe\"", "2ea14c0ddfac8b22"),
  ("sanitize.go/func/*Policy.validURL", "76fa5460391533f8"),
  ("sanitize.go/func/hasRelToken", "d88938df06d162a2"),
  ("sanitize.go/func/asciiEqualFold", "184516e10d84df87")
]

set_option maxRecDepth 100000 in
theorem C20_source_pin : C20_units.all (fun u => BM.Gen.srcPins.contains u) = true := by decide

end BM.Props
