import BM.Gen.SrcPins
/- WRITTEN by tools/repin.py from /repo at da0a256 (committed; re-checked against the regenerated
   BM/Gen/SrcPins.lean on every run).  The units of source the model and the proofs of C10 were
   written against: a change to one of them breaks `C10_source_pin`, and with it the obligations of
   this property only. -/
namespace BM.Props

def C10_units : List (String × String) := [
  ("sanitize.go/var/dataAttribute,dataAttributeXMLPrefix,dataAttributeInvalidChars,cssUnicodeChar,da", "2545e9727a056a18"),
  ("sanitize.go/func/*Policy.Sanitize", "9ba7d669ac7a66cc"),
  ("sanitize.go/func/*Policy.SanitizeBytes", "757e2ab378b5f7df"),
  ("sanitize.go/func/*Policy.SanitizeReader", "08410f91f837f43a"),
  ("sanitize.go/func/*Policy.SanitizeReaderToWriter", "567a76ba99acc83b"),
  ("sanitize.go/func/*Policy.sanitizeWithBuff", "a00e1f64f0d0c903"),
  ("sanitize.go/func/*Policy.sanitizeAttrs/assign:hasStylePolicies", "d8da24d0fbb0b241"),
  ("sanitize.go/func/*Policy.sanitizeAttrs/assign:sps", "80bac3c862d757fd"),
  ("sanitize.go/func/*Policy.sanitizeAttrs/if:len(p.globalStyles) > 0 || (elementHasStylePolicies && len(s", "d8dee8fd87731ded"),
  ("sanitize.go/func/*Policy.sanitizeAttrs/if:!hasStylePolicies", "52aa2feffed83588"),
  ("sanitize.go/func/*Policy.sanitizeAttrs/label:attrsLoop", "9e43b5a0c3b5e942"),
  ("sanitize.go/func/*Policy.sanitizeStyles", "db2e9243434eb3a3"),
  ("sanitize.go/func/stringInSlice", "8114044bf0f38c43"),
  ("sanitize.go/func/removeUnicode", "ca51db9784a9f542")
]

set_option maxRecDepth 100000 in
theorem C10_source_pin : C10_units.all (fun u => BM.Gen.srcPins.contains u) = true := by decide

end BM.Props
