import BM.Gen.SrcPins
/- WRITTEN by tools/repin.py from /repo at da0a256 (committed; re-checked against the regenerated
   BM/Gen/SrcPins.lean on every run).  The units of source the model and the proofs of C06 were
   written against: a change to one of them breaks `C06_source_pin`, and with it the obligations of
   this property only. -/
namespace BM.Props

def C06_units : List (String × String) := [
  ("sanitize.go/func/*Policy.sanitize/case:html.StartTagToken", "06e5b6a502de1bc0"),
  ("sanitize.go/func/*Policy.sanitize/case:html.EndTagToken", "13ba196cca634709"),
  ("sanitize.go/func/*Policy.sanitize/case:html.TextToken", "c2658786898b5dd8"),
  ("sanitize.go/func/*Policy.sanitize/around-switch", "cd2e2ace16007f49")
]

set_option maxRecDepth 100000 in
theorem C06_source_pin : C06_units.all (fun u => BM.Gen.srcPins.contains u) = true := by decide

end BM.Props
