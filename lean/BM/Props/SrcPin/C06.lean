import BM.Gen.SrcPins
/- WRITTEN by tools/repin.py from /repo at da0a256 (committed; re-checked against the regenerated
   BM/Gen/SrcPins.lean on every run).  The units of source the model and the proofs of C06 were
   written against: a change to one of them breaks `C06_source_pin`, and with it the obligations of
   this property only. -/
namespace BM.Props

def C06_units : List (String × String) := [
  ("sanitize.go/func/*Policy.Sanitize", "9ba7d669ac7a66cc"),
  ("sanitize.go/func/*Policy.SanitizeBytes", "757e2ab378b5f7df"),
  ("sanitize.go/func/*Policy.SanitizeReader", "08410f91f837f43a"),
  ("sanitize.go/func/*Policy.SanitizeReaderToWriter", "567a76ba99acc83b"),
  ("sanitize.go/func/*Policy.sanitizeWithBuff", "a00e1f64f0d0c903"),
  ("sanitize.go/func/*Policy.sanitize/case:html.CommentToken", "320296cf3dc2a363"),
  ("sanitize.go/func/*Policy.sanitize/case:html.StartTagToken", "06e5b6a502de1bc0"),
  ("sanitize.go/func/*Policy.sanitize/case:html.EndTagToken", "13ba196cca634709"),
  ("sanitize.go/func/*Policy.sanitize/case:html.SelfClosingTagToken", "579a9bca378883dd"),
  ("sanitize.go/func/*Policy.sanitize/case:html.TextToken", "c2658786898b5dd8"),
  ("sanitize.go/func/*Policy.sanitize/around-switch", "cd2e2ace16007f49"),
  ("sanitize.go/func/normaliseElementName", "2bf67939cdf5b934")
]

set_option maxRecDepth 100000 in
theorem C06_source_pin : C06_units.all (fun u => BM.Gen.srcPins.contains u) = true := by decide

end BM.Props
