import BM.Gen.SrcPins
/- WRITTEN by tools/repin.py from /repo at da0a256 (committed; re-checked against the regenerated
   BM/Gen/SrcPins.lean on every run).  The units of source the model and the proofs of C04 were
   written against: a change to one of them breaks `C04_source_pin`, and with it the obligations of
   this property only. -/
namespace BM.Props

def C04_units : List (String × String) := [
  ("sanitize.go/func/*Policy.Sanitize", "9ba7d669ac7a66cc"),
  ("sanitize.go/func/*Policy.SanitizeBytes", "757e2ab378b5f7df"),
  ("sanitize.go/func/*Policy.SanitizeReader", "08410f91f837f43a"),
  ("sanitize.go/func/*Policy.SanitizeReaderToWriter", "567a76ba99acc83b"),
  ("sanitize.go/func/*Policy.sanitizeWithBuff", "a00e1f64f0d0c903"),
  ("sanitize.go/func/*Policy.sanitize/case:html.StartTagToken", "06e5b6a502de1bc0"),
  ("sanitize.go/func/*Policy.sanitize/case:html.EndTagToken", "13ba196cca634709"),
  ("sanitize.go/func/*Policy.sanitize/case:html.SelfClosingTagToken", "579a9bca378883dd"),
  ("sanitize.go/func/*Policy.sanitize/case:html.TextToken", "c2658786898b5dd8"),
  ("sanitize.go/func/*Policy.sanitize/around-switch", "cd2e2ace16007f49"),
  ("sanitize.go/func/*Policy.sanitizeAttrs/signature", "d913fc8aa3d2005f"),
  ("sanitize.go/func/*Policy.sanitizeAttrs/if:len(attrs) == 0", "c54c2c729dfa58ef"),
  ("sanitize.go/func/*Policy.sanitizeAttrs/assign:cleanAttrs", "d4506d12ad757ef2"),
  ("sanitize.go/func/*Policy.sanitizeAttrs/label:attrsLoop", "9e43b5a0c3b5e942"),
  ("sanitize.go/func/*Policy.sanitizeAttrs/if:len(cleanAttrs) == 0", "edfc5c0338cee2da"),
  ("sanitize.go/func/*Policy.sanitizeAttrs/if:linkable(elementName)/if:p.requireParseableURLs", "ef3f9f1514c2daf5"),
  ("sanitize.go/func/*Policy.sanitizeAttrs/return", "c7090781c01bac35"),
  ("sanitize.go/func/*Policy.validURL", "76fa5460391533f8"),
  ("sanitize.go/func/normaliseElementName", "2bf67939cdf5b934")
]

set_option maxRecDepth 100000 in
theorem C04_source_pin : C04_units.all (fun u => BM.Gen.srcPins.contains u) = true := by decide

end BM.Props
