import BM.Gen.SrcPins
/- WRITTEN by tools/repin.py from /repo at da0a256 (committed; re-checked against the regenerated
   BM/Gen/SrcPins.lean on every run).  The units of source the model and the proofs of C17 were
   written against: a change to one of them breaks `C17_source_pin`, and with it the obligations of
   this property only. -/
namespace BM.Props

def C17_units : List (String × String) := [
  ("helpers.go/func/*Policy.AllowStandardURLs", "c11a419a5c09ebee"),
  ("helpers.go/func/*Policy.AllowStandardAttributes", "947c885049be3390"),
  ("helpers.go/func/*Policy.AllowStyling", "0832cf03d990f1a3"),
  ("helpers.go/func/*Policy.AllowImages", "09c21772d109205c"),
  ("helpers.go/func/*Policy.AllowDataURIImages", "81bb01275591c61b"),
  ("helpers.go/func/*Policy.AllowLists", "b0e1fbabcdf9c2d9"),
  ("helpers.go/func/*Policy.AllowTables", "d734afb4416f074a"),
  ("helpers.go/func/*Policy.AllowIFrames", "4fa002e81e124fe3"),
  ("policies.go/func/StrictPolicy", "45a1a2543be2854d"),
  ("policies.go/func/StripTagsPolicy", "53c67b823dc78feb"),
  ("policies.go/func/UGCPolicy", "717f7c1f94ad198b"),
  ("policy.go/type/Policy", "3f228ec260944688"),
  ("policy.go/type/attrPolicy", "b2ceb2423494d3be"),
  ("policy.go/type/stylePolicy", "7b015e5fb74f4933"),
  ("policy.go/type/attrPolicyBuilder", "4651cb16305a7ca8"),
  ("policy.go/type/stylePolicyBuilder", "e0d0db2057985649"),
  ("policy.go/type/urlPolicy", "285a2e431b67c8f2"),
  ("policy.go/type/urlRewriter", "d62ac156c80aa631"),
  ("policy.go/type/SandboxValue", "a9db4ddd8879c526"),
  ("policy.go/const/SandboxAllowDownloads,SandboxAllowDownloadsWithoutUserActivation,SandboxAllowFor", "5445d2e2c82af163"),
  ("policy.go/func/*Policy.init", "edb72c91a06d72e3"),
  ("policy.go/func/NewPolicy", "170fc79790b013cd"),
  ("policy.go/func/*Policy.AllowAttrs", "7365d0a955e08d80"),
  ("policy.go/func/*Policy.AllowDataAttributes", "ef95a1fe2eb6e84f"),
  ("policy.go/func/*Policy.AllowComments", "ff5f2f64213e15f6"),
  ("policy.go/func/*Policy.AllowNoAttrs", "458e8c8f318a5d36"),
  ("policy.go/func/*attrPolicyBuilder.AllowNoAttrs", "771a5140e6730c24"),
  ("policy.go/func/*attrPolicyBuilder.Matching", "d69ef591e1edb93a"),
  ("policy.go/func/*attrPolicyBuilder.OnElements", "830f229b87a7da9a"),
  ("policy.go/func/*attrPolicyBuilder.OnElementsMatching", "64f1ba318ae8286b"),
  ("policy.go/func/*attrPolicyBuilder.Globally", "3b120e917624992b"),
  ("policy.go/func/*Policy.AllowStyles", "d7e16fa2c0e1cb5b"),
  ("policy.go/func/*stylePolicyBuilder.Matching", "13c6b021f83a19d8"),
  ("policy.go/func/*stylePolicyBuilder.MatchingEnum", "df949ae4b0adc24a"),
  ("policy.go/func/*stylePolicyBuilder.MatchingHandler", "d6948435c72a67d6"),
  ("policy.go/func/*stylePolicyBuilder.OnElements", "c307dbaf21cf6314"),
  ("policy.go/func/*stylePolicyBuilder.OnElementsMatching", "a54456f4e747eaf8"),
  ("policy.go/func/*stylePolicyBuilder.Globally", "83d9b9785d6b3890"),
  ("policy.go/func/*Policy.AllowElements", "841ba302b019bb42"),
  ("policy.go/func/*Policy.AllowElementsMatching", "00e3bd3ddbd1d802"),
  ("policy.go/func/*Policy.AllowURLSchemesMatching", "811d9352291a43ac"),
  ("policy.go/func/*Policy.RewriteSrc", "3bd386cafc46a012"),
  ("policy.go/func/*Policy.RequireNoFollowOnLinks", "d19f7dcfec89af33"),
  ("policy.go/func/*Policy.RequireNoFollowOnFullyQualifiedLinks", "9aa4a237291f5671"),
  ("policy.go/func/*Policy.RequireNoReferrerOnLinks", "c6b60a1e73a44b7c"),
  ("policy.go/func/*Policy.RequireNoReferrerOnFullyQualifiedLinks", "57e6d66db5b0389e"),
  ("policy.go/func/*Policy.RequireCrossOriginAnonymous", "3a41eb2cbc44a7ac"),
  ("policy.go/func/*Policy.AddTargetBlankToFullyQualifiedLinks", "1d8eb0e29c1e7478"),
  ("policy.go/func/*Policy.RequireParseableURLs", "b5dd12d927ad9cad"),
  ("policy.go/func/*Policy.AllowRelativeURLs", "ce4b4d62f57239ce"),
  ("policy.go/func/*Policy.AllowURLSchemes", "59db7fd5cd84fcc4"),
  ("policy.go/func/*Policy.AllowURLSchemeWithCustomPolicy", "ffbf9435142a0e97"),
  ("policy.go/func/*Policy.RequireSandboxOnIFrame", "8183cc320e6d2052"),
  ("policy.go/func/*Policy.AddSpaceWhenStrippingTag", "87822e3d89f24a46"),
  ("policy.go/func/*Policy.SkipElementsContent", "de78fa99290faa66"),
  ("policy.go/func/*Policy.AllowElementsContent", "3090c80764012020"),
  ("policy.go/func/*Policy.AllowUnsafe", "cac89d744b339682"),
  ("policy.go/func/*Policy.addDefaultElementsWithoutAttrs", "b02fcd94d2523b79"),
  ("policy.go/func/*Policy.addDefaultSkipElementContent", "a3085e66453f02a2")
]

set_option maxRecDepth 100000 in
theorem C17_source_pin : C17_units.all (fun u => BM.Gen.srcPins.contains u) = true := by decide

/-- the package-level variables, constants and types of the package (functions are not state): a new
    package-level variable — a cache, a pool, a shared default table, a sync.Once — or a changed one is a
    change to what a policy can share with other policies or remember between calls -/
def C17_inventory : List (String × String) := [
  ("helpers.go/var/CellAlign,CellVerticalAlign,Direction,ImageAlign,Integer,ISO8601,ListType,SpaceS", "6b749d40d9f47dae"),
  ("policy.go/type/Policy", "3f228ec260944688"),
  ("policy.go/type/attrPolicy", "b2ceb2423494d3be"),
  ("policy.go/type/stylePolicy", "7b015e5fb74f4933"),
  ("policy.go/type/attrPolicyBuilder", "4651cb16305a7ca8"),
  ("policy.go/type/stylePolicyBuilder", "e0d0db2057985649"),
  ("policy.go/type/urlPolicy", "285a2e431b67c8f2"),
  ("policy.go/type/urlRewriter", "d62ac156c80aa631"),
  ("policy.go/type/SandboxValue", "a9db4ddd8879c526"),
  ("policy.go/const/SandboxAllowDownloads,SandboxAllowDownloadsWithoutUserActivation,SandboxAllowFor", "5445d2e2c82af163"),
  ("sanitize.go/var/dataAttribute,dataAttributeXMLPrefix,dataAttributeInvalidChars,cssUnicodeChar,da", "2545e9727a056a18"),
  ("sanitize.go/type/Query", "f7f6082aee02d424"),
  ("sanitize.go/const/keptTagMarker", "8bc60fb6ea752b4e"),
  ("sanitize.go/type/asStringWriter", "8939da689d9e77eb"),
  ("sanitize.go/type/stringWriterWriter", "bfeb5d1524674eff")
]

set_option maxRecDepth 100000 in
theorem C17_inventory_pin : BM.Gen.srcState = C17_inventory := by decide

end BM.Props
