import BM.Gen.SrcPins
/- WRITTEN by tools/repin.py from /repo at da0a256 (committed; re-checked against the regenerated
   BM/Gen/SrcPins.lean on every run).  The units of source the model and the proofs of C11 were
   written against: a change to one of them breaks `C11_source_pin`, and with it the obligations of
   this property only. -/
namespace BM.Props

def C11_units : List (String × String) := [
  ("sanitize.go/func/*Policy.sanitizeAttrs/if:linkable(elementName)/if:(p.requireNoFollow || p.requireNoFollowFullyQualifiedLinks |", "2b17c4a72363ce0c"),
  ("sanitize.go/func/hasRelToken", "d88938df06d162a2"),
  ("sanitize.go/func/asciiEqualFold", "184516e10d84df87")
]

set_option maxRecDepth 100000 in
theorem C11_source_pin : C11_units.all (fun u => BM.Gen.srcPins.contains u) = true := by decide

end BM.Props
