import BM.Gen.SrcPins
/- WRITTEN by tools/repin.py from /repo at da0a256 (committed; re-checked against the regenerated
   BM/Gen/SrcPins.lean on every run).  The units of source the model and the proofs of C03 were
   written against: a change to one of them breaks `C03_source_pin`, and with it the obligations of
   this property only. -/
namespace BM.Props

def C03_units : List (String × String) := [
  ("sanitize.go/var/dataAttribute,dataAttributeXMLPrefix,dataAttributeInvalidChars,cssUnicodeChar,da", "2545e9727a056a18"),
  ("sanitize.go/func/*Policy.Sanitize", "9ba7d669ac7a66cc"),
  ("sanitize.go/func/*Policy.SanitizeBytes", "757e2ab378b5f7df"),
  ("sanitize.go/func/*Policy.SanitizeReader", "08410f91f837f43a"),
  ("sanitize.go/func/*Policy.SanitizeReaderToWriter", "567a76ba99acc83b"),
  ("sanitize.go/func/*Policy.sanitizeWithBuff", "a00e1f64f0d0c903"),
  ("sanitize.go/func/*Policy.sanitizeAttrs/if:linkable(elementName)/if:p.requireParseableURLs", "ef3f9f1514c2daf5"),
  ("sanitize.go/func/*Policy.validURL", "76fa5460391533f8"),
  ("sanitize.go/func/linkable", "71306b81c233939b")
]

set_option maxRecDepth 100000 in
theorem C03_source_pin : C03_units.all (fun u => BM.Gen.srcPins.contains u) = true := by decide

end BM.Props
