import BM.Gen.SrcPins
/- WRITTEN by tools/repin.py from /repo at da0a256 (committed; re-checked against the regenerated
   BM/Gen/SrcPins.lean on every run).  The units of source the model and the proofs of C02 were
   written against: a change to one of them breaks `C02_source_pin`, and with it the obligations of
   this property only. -/
namespace BM.Props

def C02_units : List (String × String) := [
  ("sanitize.go/var/dataAttribute,dataAttributeXMLPrefix,dataAttributeInvalidChars,cssUnicodeChar,da", "2545e9727a056a18"),
  ("sanitize.go/func/*Policy.Sanitize", "9ba7d669ac7a66cc"),
  ("sanitize.go/func/*Policy.SanitizeBytes", "757e2ab378b5f7df"),
  ("sanitize.go/func/*Policy.SanitizeReader", "08410f91f837f43a"),
  ("sanitize.go/func/*Policy.SanitizeReaderToWriter", "567a76ba99acc83b"),
  ("sanitize.go/func/*Policy.sanitizeWithBuff", "a00e1f64f0d0c903"),
  ("sanitize.go/func/*Policy.sanitize/case:html.StartTagToken", "06e5b6a502de1bc0"),
  ("sanitize.go/func/*Policy.sanitize/case:html.SelfClosingTagToken", "579a9bca378883dd"),
  ("sanitize.go/func/*Policy.sanitize/around-switch", "cd2e2ace16007f49"),
  ("sanitize.go/func/*Policy.sanitizeAttrs/signature", "d913fc8aa3d2005f"),
  ("sanitize.go/func/*Policy.sanitizeAttrs/if:len(attrs) == 0", "c54c2c729dfa58ef"),
  ("sanitize.go/func/*Policy.sanitizeAttrs/assign:hasStylePolicies", "d8da24d0fbb0b241"),
  ("sanitize.go/func/*Policy.sanitizeAttrs/assign:sps", "80bac3c862d757fd"),
  ("sanitize.go/func/*Policy.sanitizeAttrs/if:len(p.globalStyles) > 0 || (elementHasStylePolicies && len(s", "d8dee8fd87731ded"),
  ("sanitize.go/func/*Policy.sanitizeAttrs/if:!hasStylePolicies", "52aa2feffed83588"),
  ("sanitize.go/func/*Policy.sanitizeAttrs/assign:cleanAttrs", "d4506d12ad757ef2"),
  ("sanitize.go/func/*Policy.sanitizeAttrs/label:attrsLoop", "9e43b5a0c3b5e942"),
  ("sanitize.go/func/*Policy.sanitizeAttrs/if:len(cleanAttrs) == 0", "edfc5c0338cee2da"),
  ("sanitize.go/func/*Policy.sanitizeAttrs/return", "c7090781c01bac35"),
  ("sanitize.go/func/*Policy.allowNoAttrs", "94b9cd29f5bdc0f7"),
  ("sanitize.go/func/isDataAttribute", "391f11ab4465bab5"),
  ("sanitize.go/func/*Policy.matchRegex", "2e064bc838cea7fd")
]

set_option maxRecDepth 100000 in
theorem C02_source_pin : C02_units.all (fun u => BM.Gen.srcPins.contains u) = true := by decide

end BM.Props
