import BM.Props.C20
/-
  C20 per input.  `C20_fix` and its instances ask that the policy allow no raw-text element at all; here the
  hypothesis is on the run: no AllowUnsafe, no comments, and no raw-text tag *of this input* names an allowed
  element (`PlainOn`).  So a policy that allows `textarea`, `title` or `iframe` is covered on every input in
  which those elements do not occur.  The conclusions are unchanged: sanitize ∘ sanitize = sanitize.
-/
namespace BM.Props
open BM BM.Html BM.Spec

theorem emit_conformOn {p : Policy} (hu : p.allowUnsafe = false) (hnc : p.allowComments = false) (hs : AttrFix p)
    {st : LoopState} {t : Token} (hraw : isRawTagName t.data = true → allowsElement p t.data = false) (hwf : TokWF t)
    {ws : List Write} (he : Emit p st t ws) :
    ∃ toks : List Token, ws.map (·.data) = toks.map Token.render ∧ ∀ k ∈ toks, Conform p k := by
  obtain ⟨toks, hr, hf⟩ := emit_toksOn hu hraw hwf he
  cases he with
  | nothing => exact ⟨[], rfl, by simp⟩
  | space _ =>
    refine ⟨[⟨.text, [32], []⟩], by simp [render_space], ?_⟩
    intro k hk; simp at hk; subst hk; exact ⟨by simp [SegOK], trivial⟩
  | comment _ hc => rw [hnc] at hc; cases hc
  | openTag aps attrs htt haps hss hattrs hbare _ =>
    have hnss : isScriptOrStyle t.data = false := by simpa [hu] using hss
    have hb : attrs ≠ [] ∨ p.allowNoAttrs t.data = true := by
      cases attrs with
      | nil => right; simpa using hbare
      | cons _ _ => left; simp
    have hall := attrRulesFor_allows' haps
    have hnr : isRawTagName t.data = false := by
      cases h : isRawTagName t.data with
      | false => rfl
      | true => rw [hraw h] at hall; cases hall
    have hidem := hs t aps attrs hnr haps hattrs
    refine ⟨[{ t with attrs := attrs }], by simp, ?_⟩
    intro k hk; simp at hk; subst hk
    rcases htt with h | h
    · have hw : NameOK' t.data ∧ ∀ a ∈ t.attrs, AttrOK a := by
        unfold TokWF at hwf; rw [h] at hwf; exact hwf
      refine ⟨?_, ?_⟩
      · unfold SegOK; simp only [h]
        exact ⟨hw.1, hnr, allOK_cleanAttrs p t aps attrs hw.2 hattrs⟩
      · simp only [h]; exact ⟨hnss, aps, haps, hidem, hb⟩
    · have hw : NameOK' t.data ∧ ∀ a ∈ t.attrs, AttrOK a := by
        unfold TokWF at hwf; rw [h] at hwf; exact hwf
      refine ⟨?_, ?_⟩
      · unfold SegOK; simp only [h]
        exact ⟨hw.1, hnr, allOK_cleanAttrs p t aps attrs hw.2 hattrs⟩
      · simp only [h]; exact ⟨hnss, aps, haps, hidem, hb⟩
  | closeTag htt hss hall =>
    have hw : NameOK' t.data ∧ t.attrs = [] := by
      unfold TokWF at hwf; rw [htt] at hwf; exact hwf
    have hnss : isScriptOrStyle t.data = false := by simpa [hu] using hss
    refine ⟨[t], by simp, ?_⟩
    intro k hk; simp at hk; subst hk
    refine ⟨by unfold SegOK; simp only [htt]; exact hw, ?_⟩
    simp only [htt]
    refine ⟨hnss, ?_⟩
    unfold Policy.patternEl Policy.explicitEl
    cases hc : p.elsAndAttrs.contains k.data with
    | true => left; rfl
    | false => right; simpa [hc] using hall
  | text htt _ _ =>
    refine ⟨[⟨.text, t.data, []⟩], by simp [Token.render, htt], ?_⟩
    intro k hk; simp at hk; subst hk; exact ⟨by simp [SegOK], trivial⟩
  | rawText _ hun _ => rw [hu] at hun; cases hun

theorem run_conformOn {p : Policy} (hu : p.allowUnsafe = false) (hnc : p.allowComments = false) (hs : AttrFix p)
    (ts : List Token) (hraw : ∀ t ∈ ts, isRawTagName t.data = true → allowsElement p t.data = false)
    (hwf : ∀ t ∈ ts, TokWF t) :
    ∀ st, ∃ toks : List Token, (p.run st ts).1.map (·.data) = toks.map Token.render ∧ ∀ k ∈ toks, Conform p k := by
  induction ts with
  | nil => intro st; exact ⟨[], by simp [Policy.run], by simp⟩
  | cons t ts ih =>
    intro st
    unfold Policy.run
    split
    · exact ⟨[], by simp, by simp⟩
    · rename_i st' ws hstep
      obtain ⟨k1, hk1, hf1⟩ := emit_conformOn hu hnc hs (hraw t (by simp)) (hwf t (by simp)) (step_emit p st t st' ws hstep)
      obtain ⟨k2, hk2, hf2⟩ := ih (fun x hx => hraw x (by simp [hx])) (fun x hx => hwf x (by simp [hx])) st'
      refine ⟨k1 ++ k2, by simp [hk1, hk2], ?_⟩
      intro k hk
      simp only [List.mem_append] at hk
      rcases hk with h | h
      · exact hf1 k h
      · exact hf2 k h

/-- (per-input form)  **C20 (byte level) whenever the attribute pass has fixed points** -/
theorem C20_fix_on (p : Policy) (input : Bytes) (hp : PlainOn p.ensureInit (tokenize input))
    (hnc : p.ensureInit.allowComments = false) (hs : AttrFix p.ensureInit) :
    p.sanitizeCore (p.sanitizeCore input) = p.sanitizeCore input := by
  obtain ⟨toks, hr, hconf⟩ := run_conformOn hp.noUnsafe hnc hs (tokenize input) hp.noRaw (tokenize_wf input) {}
  have hb : p.sanitizeCore input = renderAll toks := by
    unfold Policy.sanitizeCore Policy.sanitizeTokens
    rw [hr, flatten_map_render]
  rw [hb]
  exact C07_bytes p toks hconf

theorem C20_simple_on (p : Policy) (input : Bytes) (hp : PlainOn p.ensureInit (tokenize input))
    (hnc : p.ensureInit.allowComments = false) (hs : AttrSimple p.ensureInit) :
    p.sanitizeCore (p.sanitizeCore input) = p.sanitizeCore input :=
  C20_fix_on p input hp hnc (attrFix_of_simple _ hs)

theorem C20_crossorigin_on (p : Policy) (input : Bytes) (hp : PlainOn p.ensureInit (tokenize input))
    (hnc : p.ensureInit.allowComments = false) (hs : CrossSimple p.ensureInit) :
    p.sanitizeCore (p.sanitizeCore input) = p.sanitizeCore input :=
  C20_fix_on p input hp hnc (attrFix_of_cross _ hs)

theorem C20_urls_on (p : Policy) (input : Bytes) (hp : PlainOn p.ensureInit (tokenize input))
    (hnc : p.ensureInit.allowComments = false) (hs : UrlSimple p.ensureInit) :
    p.sanitizeCore (p.sanitizeCore input) = p.sanitizeCore input :=
  C20_fix_on p input hp hnc (attrFix_of_url _ hs)

theorem C20_links_on (p : Policy) (input : Bytes) (hp : PlainOn p.ensureInit (tokenize input))
    (hnc : p.ensureInit.allowComments = false) (hs : LinkSimple p.ensureInit) :
    p.sanitizeCore (p.sanitizeCore input) = p.sanitizeCore input :=
  C20_fix_on p input hp hnc (attrFix_of_link _ hs)

/-- the per-input class is wider: a policy that allows `textarea` is not plain, but is `PlainOn` an input
    without one -/
example :
    let p : Policy := { initialized := true, elsAndAttrs := [(b!"b", []), (b!"textarea", [])],
                        setOfElementsAllowedWithoutAttrs := [b!"b", b!"textarea"] }
    PlainOn p.ensureInit (tokenize b!"x<b>y</b><i>z</i>") ∧ allowsElement p.ensureInit b!"textarea" = true := by
  refine ⟨⟨rfl, ?_⟩, by decide⟩
  decide

end BM.Props
