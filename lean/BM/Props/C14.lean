import BM.Sanitize
import BM.Props.Pins
import BM.Proofs.RecCheck
/-
  C14 (no panic): for every policy and every token sequence the loop never reaches one of
  the partial operations of the Go code:
  * `closingTagToSkipStack[len-1]` is only evaluated when the stack is non-empty, because
    `skipClosingTag ⇒ stack ≠ []` is an invariant of the loop;
  * the src rewriter is never handed a nil URL (the normalised URL is dropped when it does
    not parse again), so `sanitizeAttrs` always returns.
  The time half of C14 is tied to the code by the handler-call counts and the wall-clock
  families of the correspondence run (see DESIGN §6 C14); the cost theorems about the model
  of `recursiveCheck` are in this file as well.
-/
namespace BM.Props
open BM BM.Html

theorem mapMOpt_isSome {α β} (f : α → Option (Option β)) (l : List α) (hf : ∀ a, (f a).isSome = true) :
    (mapMOpt f l).isSome = true := by
  induction l with
  | nil => simp [mapMOpt]
  | cons x xs ih =>
    unfold mapMOpt
    have hx := hf x
    cases hfx : f x with
    | none => simp [hfx] at hx
    | some o =>
      cases hm : mapMOpt f xs with
      | none => simp [hm] at ih
      | some ys => cases o <;> simp

theorem urlPassAttr_isSome (p : Policy) (el : Bytes) (a : Attr) : (p.urlPassAttr el a).isSome = true := by
  unfold Policy.urlPassAttr
  repeat' split
  all_goals simp

theorem linkPasses_isSome (p : Policy) (el : Bytes) (clean : List Attr) :
    (p.linkPasses el clean).isSome = true := by
  unfold Policy.linkPasses
  split
  · simp only [Option.isSome_map]
    split
    · exact mapMOpt_isSome _ _ (urlPassAttr_isSome p el)
    · simp
  · simp

/-- `sanitizeAttrs` always returns (no nil dereference in the rewriter branch) -/
theorem sanitizeAttrs_isSome (p : Policy) (el : Bytes) (attrs : List Attr) (aps : AttrRules) :
    (p.sanitizeAttrs el attrs aps).isSome = true := by
  unfold Policy.sanitizeAttrs
  split
  · simp
  · simp only
    split
    · simp
    · simp only [Option.isSome_map]; exact linkPasses_isSome p el _

/-- shape of `closingTagToSkipStack` (top first): plain entries are element names (which
    never start with `/`), a marker `/name` always has a plain `name` somewhere below it -/
inductive StackWF : List Bytes → Prop where
  | nil : StackWF []
  | name (n : Bytes) (s : List Bytes) : n.head? ≠ some 47 → StackWF s → StackWF (n :: s)
  | marker (n : Bytes) (s : List Bytes) : n ∈ s → StackWF s → StackWF ((47 :: n) :: s)

theorem StackWF.tail {s : List Bytes} (h : StackWF s) : StackWF s.tail := by
  cases h with
  | nil => exact .nil
  | name _ _ _ h => exact h
  | marker _ _ _ h => exact h

/-- the loop invariant behind the stack access -/
def StackInv (st : LoopState) : Prop :=
  StackWF st.closingTagToSkipStack ∧ (st.skipClosingTag = true → st.closingTagToSkipStack ≠ [])

theorem stackInv_init : StackInv {} := ⟨.nil, by simp⟩

/-- element names as the tokenizer produces them never start with `/` -/
def NameOK (t : Token) : Prop := t.tt = .start → t.data.head? ≠ some 47

theorem cleanAttrs_isSome (p : Policy) (t : Token) (aps : AttrRules) : (p.cleanAttrs t aps).isSome = true := by
  unfold Policy.cleanAttrs
  split
  · simp
  · exact sanitizeAttrs_isSome p t.data t.attrs aps

theorem enterSkip_stack (p : Policy) (st : LoopState) (el : Bytes) :
    (p.enterSkip st el).skipClosingTag = st.skipClosingTag ∧
    (p.enterSkip st el).closingTagToSkipStack = st.closingTagToSkipStack := by
  unfold Policy.enterSkip; split <;> simp

theorem leaveSkip_stack (p : Policy) (st : LoopState) (el : Bytes) :
    (p.leaveSkip st el).skipClosingTag = st.skipClosingTag ∧
    (p.leaveSkip st el).closingTagToSkipStack = st.closingTagToSkipStack := by
  unfold Policy.leaveSkip; split <;> simp

theorem stackInv_congr {st st' : LoopState} (h1 : st'.skipClosingTag = st.skipClosingTag)
    (h2 : st'.closingTagToSkipStack = st.closingTagToSkipStack) (hi : StackInv st) : StackInv st' := by
  unfold StackInv; rw [h1, h2]; exact hi

theorem popMarker_inv (st : LoopState) (el : Bytes) (hi : StackInv st) : StackInv (popMarker st el) := by
  unfold popMarker
  split
  · rename_i hm
    simp only [Bool.and_eq_true, beq_iff_eq] at hm
    obtain ⟨hwf, _⟩ := hi
    cases hs : st.closingTagToSkipStack with
    | nil => simp [hs] at hm
    | cons e s =>
      rw [hs] at hwf hm
      simp only [List.head?_cons, Option.some.injEq] at hm
      refine ⟨by simpa using hwf.tail, ?_⟩
      intro _
      simp only [List.tail_cons]
      cases hwf with
      | name n _ hn _ => rw [hm.2] at hn; simp at hn
      | marker n _ hmem _ => exact List.ne_nil_of_mem hmem
  · exact hi

/-- a step from a state satisfying the invariant never panics and re-establishes it -/
theorem step_safe (p : Policy) (st : LoopState) (t : Token) (hn : NameOK t) (hi : StackInv st) :
    ∃ st' ws, p.step st t = some (st', ws) ∧ StackInv st' := by
  unfold Policy.step
  split
  · exact ⟨st, [], rfl, hi⟩
  · exact ⟨st, _, rfl, hi⟩
  · -- start
    rename_i htt
    unfold Policy.stepStart
    simp only
    have hi0 : StackInv { st with mostRecentlyStartedToken := t.data } := stackInv_congr rfl rfl hi
    generalize ({ st with mostRecentlyStartedToken := t.data } : LoopState) = st0 at hi0
    split
    · exact ⟨_, _, rfl, hi0⟩
    · split
      · exact ⟨_, _, rfl, stackInv_congr (enterSkip_stack p st0 t.data).1 (enterSkip_stack p st0 t.data).2 hi0⟩
      · rename_i aps _
        have hc := cleanAttrs_isSome p t aps
        split
        · rename_i hnone; simp [hnone] at hc
        · split
          · refine ⟨_, _, rfl, ?_⟩
            unfold pushDropped; split
            · exact hi0
            · exact ⟨.name _ _ (hn htt) hi0.1, by simp⟩
          · refine ⟨_, _, rfl, ?_⟩
            unfold markKept; split
            · rename_i hk
              simp only [Bool.and_eq_true, List.contains_eq_mem, decide_eq_true_eq] at hk
              exact ⟨.marker _ _ hk.2 hi0.1, by simp⟩
            · exact hi0
  · -- end
    unfold Policy.stepEnd
    have hi1 : StackInv (clearRecent st t.data) := by
      unfold clearRecent; split
      · exact stackInv_congr rfl rfl hi
      · exact hi
    generalize clearRecent st t.data = st1 at hi1
    simp only
    split
    · exact ⟨_, _, rfl, hi1⟩
    · split
      · rename_i hbad
        simp only [Bool.and_eq_true, List.isEmpty_iff] at hbad
        exact absurd hbad.2 (hi1.2 hbad.1)
      · split
        · refine ⟨_, _, rfl, ?_⟩
          unfold popDropped
          refine ⟨hi1.1.tail, ?_⟩
          simp only
          intro h
          split at h
          · simp at h
          · rename_i hne; simpa using hne
        · have hpm := popMarker_inv st1 t.data hi1
          have hl := leaveSkip_stack p (popMarker st1 t.data) t.data
          split <;> exact ⟨_, _, rfl, stackInv_congr hl.1 hl.2 hpm⟩
  · -- self-closing
    unfold Policy.stepSelfClosing
    simp only
    have hi0 : StackInv { st with mostRecentlyStartedToken := t.data } := stackInv_congr rfl rfl hi
    generalize ({ st with mostRecentlyStartedToken := t.data } : LoopState) = st0 at hi0
    split
    · exact ⟨_, _, rfl, hi0⟩
    · split
      · exact ⟨_, _, rfl, hi0⟩
      · rename_i aps _
        have hc := cleanAttrs_isSome p t aps
        split
        · rename_i hnone; simp [hnone] at hc
        · split <;> exact ⟨_, _, rfl, hi0⟩
  · exact ⟨st, _, rfl, hi⟩

/-- the whole loop never panics on tokens with well-formed names -/
theorem run_no_panic (p : Policy) (ts : List Token) (hts : ∀ t ∈ ts, NameOK t) :
    ∀ st, StackInv st → (p.run st ts).2 = false := by
  induction ts with
  | nil => intro st _; simp [Policy.run]
  | cons t ts ih =>
    intro st hi
    obtain ⟨st', ws, hs, hi'⟩ := step_safe p st t (hts t (by simp)) hi
    unfold Policy.run
    simp only [hs]
    exact ih (fun t' h => hts t' (by simp [h])) st' hi'

theorem readTagName_head (s : Bytes) (n r : Bytes) (h : readTagName s = some (n, r)) :
    n.head? = s.head? := by
  unfold readTagName at h
  split at h
  · simp at h
  · rename_i c cs
    cases hr : readTagNameAux cs with
    | none => simp [hr] at h
    | some x => simp [hr] at h; obtain ⟨rfl, _⟩ := h; simp

theorem readTag_head (s : Bytes) (n : Bytes) (as : List Attr) (r : Bytes)
    (h : readTag s = some (n, as, r)) : n.head? = s.head? := by
  unfold readTag at h
  split at h
  · simp at h
  · rename_i name r1 hn
    split at h
    · simp at h
    · simp at h
      obtain ⟨a, b, _, rfl, _⟩ := h
      exact readTagName_head s _ r1 hn

set_option maxRecDepth 8192 in
theorem lowerByte_alpha_ne_slash_fin :
    ∀ n : Fin 256, isAlpha (UInt8.ofNat n.val) = true → lowerByte (UInt8.ofNat n.val) ≠ 47 := by decide

theorem lowerByte_alpha_ne_slash (c : UInt8) (h : isAlpha c = true) : lowerByte c ≠ 47 := by
  have := lowerByte_alpha_ne_slash_fin ⟨c.toNat, c.toNat_lt⟩
  simp only [UInt8.ofNat_toNat] at this
  exact this h

theorem lowerAscii_head_ne_slash (n : Bytes) (c : UInt8) (h : n.head? = some c) (hc : isAlpha c = true) :
    (lowerAscii n).head? ≠ some 47 := by
  cases n with
  | nil => simp at h
  | cons x xs =>
    simp at h; subst h
    simp only [lowerAscii, List.map_cons, List.head?_cons, ne_eq, Option.some.injEq]
    exact lowerByte_alpha_ne_slash x hc

theorem readMarkupDeclaration_tt (s : Bytes) :
    (readMarkupDeclaration s).1 = .comment ∨ (readMarkupDeclaration s).1 = .doctype := by
  unfold readMarkupDeclaration
  repeat' split
  all_goals simp

theorem readMarkupDeclaration_not_start (s : Bytes) : (readMarkupDeclaration s).1 ≠ .start := by
  rcases readMarkupDeclaration_tt s with h | h <;> simp [h]

set_option maxHeartbeats 2000000 in
theorem next_nameOK (rawTag s : Bytes) (t : Token) (rt rest : Bytes)
    (h : next rawTag s = some (t, rt, rest)) : NameOK t := by
  intro htt
  unfold next at h
  simp only at h
  repeat' split at h
  all_goals (try (simp at h; done))
  all_goals (try (simp at h; obtain ⟨rfl, _, _⟩ := h; simp at htt; done))
  all_goals (try (simp at h; obtain ⟨rfl, _, _⟩ := h
                  exact lowerAscii_head_ne_slash _ _ (by rw [readTag_head _ _ _ _ ‹readTag _ = _›]; rfl) ‹isAlpha _ = true›))
  all_goals (try (simp at h; obtain ⟨rfl, _, _⟩ := h
                  simp only at htt
                  exact absurd htt (readMarkupDeclaration_not_start _)))
  all_goals (rename_i heq; repeat' split at heq
             all_goals (simp at heq)
             all_goals (obtain ⟨rfl, _⟩ := heq; simp at h; obtain ⟨rfl, _, _⟩ := h; simp at htt))

theorem tokenizeAux_nameOK (fuel : Nat) (rawTag s : Bytes) :
    ∀ t ∈ tokenizeAux fuel rawTag s, NameOK t := by
  induction fuel generalizing rawTag s with
  | zero => intro t ht; simp [tokenizeAux] at ht
  | succ n ih =>
    intro t ht
    unfold tokenizeAux at ht
    split at ht
    · simp at ht
    · rename_i t0 rt rest hnext
      simp only [List.mem_cons] at ht
      rcases ht with rfl | ht
      · exact next_nameOK rawTag s _ rt rest hnext
      · exact ih rt rest t ht

/-- **C14 (no panic)**: for every policy and every input, the loop over the tokenizer's
    output never reaches a partial operation -/
theorem C14_no_panic (p : Policy) (input : Bytes) : p.panics input = false := by
  unfold Policy.panics
  exact run_no_panic p.ensureInit (tokenize input) (tokenizeAux_nameOK _ _ _) {} stackInv_init

/-- non-vacuity: the invariant is exercised (dropped element, kept same-name child, marker) -/
example :
    let p : Policy := { initialized := true, elsAndAttrs := [(b!"a", [(b!"href", [none])])] }
    p.sanitizeCore b!"<a>1<a href=x>2</a>3</a>4</a>" = b!"1<a href=\"x\">2</a>34</a>" := by decide

end BM.Props
