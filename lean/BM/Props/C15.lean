import BM.Sanitize
import BM.Entry
import BM.Props.C16
/-
  C15: all entry points agree.  In the model the four entry points are defined on top of
  one function of the concatenated input (`sanitizeCore`): `Sanitize`/`SanitizeBytes` add
  the blank-input short cut, the reader entry points receive the same bytes in chunks.
  The theorems below state what that construction gives; the substance of C15 — that the
  real tokenizer's buffer refills are invisible — is not something this model can exhibit
  and is carried by the correspondence run (every chunking mode × both writer kinds, the
  input buffer compared before and after, and the two command-line tools).
-/
namespace BM.Props
open BM

/-- a reader delivers the input as a list of chunks (possibly empty ones) -/
def Policy.sanitizeReader (p : Policy) (chunks : List Bytes) : Bytes := p.sanitizeCore chunks.flatten

/-- **C15 (model)**: for non-blank input, Sanitize/SanitizeBytes and the reader entry points
    return the same bytes whatever the chunking -/
theorem C15_entry_points_agree (p : Policy) (chunks : List Bytes)
    (hnb : (Css.trimSpace chunks.flatten).isEmpty = false) :
    p.sanitize chunks.flatten = Policy.sanitizeReader p chunks := by
  simp [Policy.sanitize, Policy.sanitizeReader, hnb]

/-- chunking is irrelevant -/
theorem C15_chunking (p : Policy) (c1 c2 : List Bytes) (h : c1.flatten = c2.flatten) :
    Policy.sanitizeReader p c1 = Policy.sanitizeReader p c2 := by
  simp [Policy.sanitizeReader, h]

/-- blank input is returned unchanged by Sanitize / SanitizeBytes -/
theorem C15_blank (p : Policy) (input : Bytes) (hb : (Css.trimSpace input).isEmpty = true) :
    p.sanitize input = input := by
  simp [Policy.sanitize, hb]

/-! ### the entry points as sanitize.go writes them (BM/Entry.lean) -/

/-- a reader that ends with io.EOF into a buffer: the funnel's bytes -/
theorem sanitizeReaderM_eof (p : Policy) (d : Bytes) : p.sanitizeReaderM d .eof = p.sanitizeCore d := by
  unfold Policy.sanitizeReaderM Policy.sanitizeRW Policy.sanitizeCore Policy.sanitizeTokens
  simp [feed_none]

/-- **C15**: `Sanitize` / `SanitizeBytes`, written as blank check + `SanitizeReader` over the input,
    are the function `Policy.sanitize` every other theorem speaks about -/
theorem C15_sanitize_is_entry (p : Policy) (input : Bytes) : p.sanitizeEntry input = p.sanitize input := by
  unfold Policy.sanitizeEntry Policy.sanitize
  rw [sanitizeReaderM_eof]

/-- **C15**: what `SanitizeReaderToWriter` hands to a destination that never fails, from a reader
    that ends with io.EOF, is — write by write, so whether or not the destination implements
    `WriteString` — the bytes `SanitizeReader` returns -/
theorem C15_writer_agrees (p : Policy) (d : Bytes) :
    (p.sanitizeRW d .eof none false).2 = false ∧ (p.sanitizeRW d .eof none false).1.flatten = p.sanitizeReaderM d .eof := by
  unfold Policy.sanitizeReaderM Policy.sanitizeRW
  simp [feed_none]

example : (Css.trimSpace b!" \r\n\t").isEmpty = true := by decide
example : (Css.trimSpace b!" x ") = b!"x" := by decide

end BM.Props
