import BM.Proofs.Step
import BM.Proofs.Escape
import BM.Proofs.Bytes
import BM.Proofs.BytesC
/-
  C01: only allowlisted elements reach the output.

  Proved here, for every policy without AllowUnsafe and every input (event level): every
  `WriteString` the loop performs is (a) the escaping of a text, which contains no `<` `>`
  `"` `'`, (b) a single space, (c) a comment, only if comments are allowed, or (d) the
  serialisation of a start / end / self-closing tag whose element name the policy allows by
  name or by pattern.  Doctypes are never written.

  Not proved here (partial): that re-tokenising the concatenated writes yields exactly these
  events (the render/tokenize round trip RT of DESIGN §3.4), and the tree-builder clause.
  Those are covered by the oracle run on the implementation's output (`oracleC01`).
-/
namespace BM.Props
open BM BM.Html BM.Spec

/-- what one write can be -/
inductive WriteKind (p : Policy) : Bytes → Prop where
  | text (d : Bytes) : WriteKind p (escape d)
  | space : WriteKind p [32]
  | comment (d : Bytes) : p.allowComments = true → WriteKind p (Token.render ⟨.comment, d, []⟩)
  | tag (t : Token) : isTag t = true → allowsElement p t.data = true → WriteKind p t.render

theorem attrRulesFor_allows {p : Policy} {el : Bytes} {aps : AttrRules}
    (h : p.attrRulesFor el = some aps) : allowsElement p el = true := by
  unfold Policy.attrRulesFor at h
  unfold allowsElement
  split at h
  · rename_i a ha
    simp [Map.contains, ha]
  · unfold Policy.matchRegex at h
    simp only at h
    split at h
    · simp at h
    · rename_i hne
      simp only [Bool.or_eq_true]
      right
      simp only [List.isEmpty_iff] at hne
      obtain ⟨x, hx⟩ := List.exists_mem_of_ne_nil _ hne
      simp only [List.mem_filter] at hx
      exact List.any_eq_true.mpr ⟨x, hx.1, hx.2⟩

theorem emit_writeKind {p : Policy} (hu : p.allowUnsafe = false) {st : LoopState} {t : Token}
    {ws : List Write} (he : Emit p st t ws) : ∀ w ∈ ws, WriteKind p w.data := by
  cases he with
  | nothing => simp
  | space _ => intro w hw; simp at hw; subst hw; exact .space
  | comment htt hc =>
    intro w hw; simp at hw; subst hw
    have : t.render = Token.render ⟨.comment, t.data, []⟩ := by simp [Token.render, htt]
    simp only [this]; exact .comment t.data hc
  | openTag aps attrs htt haps _ _ _ _ =>
    intro w hw; simp at hw; subst hw
    refine .tag _ ?_ (attrRulesFor_allows haps)
    rcases htt with h | h <;> (unfold isTag; rw [h]; rfl)
  | closeTag htt _ hall =>
    intro w hw; simp at hw; subst hw
    refine .tag _ (by unfold isTag; rw [htt]; rfl) ?_
    simpa [allowsElement, Map.contains] using hall
  | text htt _ _ =>
    intro w hw; simp at hw; subst hw
    have : t.render = escape t.data := by simp [Token.render, htt]
    simp only [this]; exact .text t.data
  | rawText _ hun _ => simp [hu] at hun

/-- **C01 (event level)**: for every policy without AllowUnsafe and every input, every write is
    an escaped text, a space, an allowed comment, or a tag of an allowed element. -/
theorem C01_events (p : Policy) (hu : p.allowUnsafe = false) (input : Bytes) :
    ∀ w ∈ (p.run {} (tokenize input)).1, WriteKind p w.data := by
  intro w hw
  obtain ⟨st0, t, ws, _, he, hmem⟩ := run_emit p (tokenize input) {} w hw
  exact emit_writeKind hu he w hmem

/-- escaped text is inert: it cannot contain a tag opener or closer or a quote -/
theorem text_write_inert (d : Bytes) : ∀ c ∈ escape d, c ≠ 60 ∧ c ≠ 62 ∧ c ≠ 34 ∧ c ≠ 39 :=
  fun c hc => let h := escape_no_special d c hc; ⟨h.1, h.2.1, h.2.2.1, h.2.2.2.1⟩

/-- **C01 (byte level)**: for every *plain* policy (no AllowUnsafe, no comments, no raw-text
    element on its allowlist) and every input, every token an HTML tokenizer finds in the
    bytes the sanitiser returns is a text, or a start / end / self-closing tag naming an element
    the policy allows; no comment and no doctype is ever found.  Together with
    `C01_events` this removes the re-tokenisation gap for this class of policies. -/
theorem C01_bytes (p : Policy) (hp : Plain p.ensureInit) (input : Bytes) :
    ∀ k ∈ tokenize (p.sanitizeCore input),
      k.tt = .text ∨ (isTag k = true ∧ allowsElement p.ensureInit k.data = true) := by
  intro k hk
  obtain ⟨toks, _, hrt, hf⟩ := sanitizeTokens_roundtrip hp (tokenize input) (tokenize_wf input)
  unfold Policy.sanitizeCore at hk
  rw [hrt] at hk
  rcases mem_coalesce toks [] k hk with h | ⟨hmem, hne⟩
  · exact .inl h.1
  · obtain ⟨t, _, hseg, hor⟩ := hf k hmem
    rcases hor with h | ⟨_, _, hall, _⟩
    · exact absurd h.1 hne
    · refine .inr ⟨?_, hall⟩
      unfold SegOK at hseg
      unfold isTag
      cases htt : k.tt with
      | text => exact absurd htt hne
      | start => rfl
      | end_ => rfl
      | selfClosing => rfl
      | comment => rw [htt] at hseg; exact hseg.elim
      | doctype => rw [htt] at hseg; exact hseg.elim

/-- in particular the output of a plain policy contains no comment and no doctype -/
theorem C01_bytes_no_comment_doctype (p : Policy) (hp : Plain p.ensureInit) (input : Bytes) :
    ∀ k ∈ tokenize (p.sanitizeCore input), k.tt ≠ .comment ∧ k.tt ≠ .doctype := by
  intro k hk
  rcases C01_bytes p hp input k hk with h | ⟨h, _⟩
  · simp [h]
  · unfold isTag at h
    cases htt : k.tt <;> rw [htt] at h <;> first | exact absurd h (by decide) | exact ⟨by decide, by decide⟩

/-- non-vacuity of `Plain`: a policy that allows `b` and `a href` is plain -/
example : Plain ({ initialized := true, elsAndAttrs := [(b!"b", []), (b!"a", [(b!"href", [none])])],
                   setOfElementsAllowedWithoutAttrs := [b!"b"] } : Policy).ensureInit := by
  refine ⟨rfl, rfl, ?_⟩
  intro n hn
  simp only [isRawTagName, Bool.or_eq_true, beq_iff_eq] at hn
  rcases hn with ((((((((h | h) | h) | h) | h) | h) | h) | h) | h) | h <;> subst h <;> decide

/-- non-vacuity: a policy and an input for which tags are really written and really dropped -/
example :
    let p : Policy := { initialized := true, elsAndAttrs := [(b!"b", [])], setOfElementsAllowedWithoutAttrs := [b!"b"] }
    p.sanitizeCore b!"<b>x</b><i>y</i><!-- c --><!DOCTYPE html>" = b!"<b>x</b>y" := by decide

/-- **C01 (byte level), comments allowed or not**: for every policy without AllowUnsafe and without
    a raw-text element on its allowlist, every token an HTML tokenizer finds in the returned bytes
    is a text, a tag of an allowed element, or — only if the policy allows comments — a comment;
    never a doctype -/
theorem C01_bytesC (p : Policy) (hp : PlainC p.ensureInit) (input : Bytes) :
    ∀ k ∈ tokenize (p.sanitizeCore input),
      k.tt = .text ∨ (isTag k = true ∧ allowsElement p.ensureInit k.data = true) ∨
      (k.tt = .comment ∧ p.ensureInit.allowComments = true) := by
  intro k hk
  obtain ⟨toks, _, hrt, hf⟩ := sanitizeTokens_roundtripC hp (tokenize input) (tokenize_wf input)
  unfold Policy.sanitizeCore at hk
  rw [hrt] at hk
  rcases mem_coalesce (toks.map reread) [] k hk with h | ⟨hmem, hne⟩
  · exact .inl h.1
  · obtain ⟨k', hk', rfl⟩ := List.mem_map.mp hmem
    obtain ⟨hseg, t, _, hor⟩ := hf k' hk'
    rw [reread_tt] at hne ⊢
    rcases hor with (⟨hs, hor⟩) | ⟨hc, _, _, hac⟩
    · rcases hor with h | ⟨_, _, hall, _⟩
      · exact absurd h.1 hne
      · have hnc : k'.tt ≠ .comment := by
          intro h; unfold SegOK at hs; rw [h] at hs; exact hs
        rw [reread_of_ne k' hnc]
        refine .inr (.inl ⟨?_, hall⟩)
        unfold SegOK at hs
        unfold isTag
        cases htt : k'.tt with
        | text => exact absurd htt hne
        | start => rfl
        | end_ => rfl
        | selfClosing => rfl
        | comment => rw [htt] at hs; exact hs.elim
        | doctype => rw [htt] at hs; exact hs.elim
    · exact .inr (.inr ⟨hc, hac⟩)

/-- (per-input form)  **C01 (byte level), comments allowed or not**: for every policy without AllowUnsafe and without
    a raw-text element on its allowlist, every token an HTML tokenizer finds in the returned bytes
    is a text, a tag of an allowed element, or — only if the policy allows comments — a comment;
    never a doctype -/
theorem C01_bytesC_on (p : Policy) (input : Bytes) (hp : PlainOn p.ensureInit (tokenize input)) :
    ∀ k ∈ tokenize (p.sanitizeCore input),
      k.tt = .text ∨ (isTag k = true ∧ allowsElement p.ensureInit k.data = true) ∨
      (k.tt = .comment ∧ p.ensureInit.allowComments = true) := by
  intro k hk
  obtain ⟨toks, _, hrt, hf⟩ := sanitizeTokens_roundtripOn (tokenize input) hp (tokenize_wf input)
  unfold Policy.sanitizeCore at hk
  rw [hrt] at hk
  rcases mem_coalesce (toks.map reread) [] k hk with h | ⟨hmem, hne⟩
  · exact .inl h.1
  · obtain ⟨k', hk', rfl⟩ := List.mem_map.mp hmem
    obtain ⟨hseg, t, _, hor⟩ := hf k' hk'
    rw [reread_tt] at hne ⊢
    rcases hor with (⟨hs, hor⟩) | ⟨hc, _, _, hac⟩
    · rcases hor with h | ⟨_, _, hall, _⟩
      · exact absurd h.1 hne
      · have hnc : k'.tt ≠ .comment := by
          intro h; unfold SegOK at hs; rw [h] at hs; exact hs
        rw [reread_of_ne k' hnc]
        refine .inr (.inl ⟨?_, hall⟩)
        unfold SegOK at hs
        unfold isTag
        cases htt : k'.tt with
        | text => exact absurd htt hne
        | start => rfl
        | end_ => rfl
        | selfClosing => rfl
        | comment => rw [htt] at hs; exact hs.elim
        | doctype => rw [htt] at hs; exact hs.elim
    · exact .inr (.inr ⟨hc, hac⟩)

/-- non-vacuity: a policy that allows comments is in the class, and a comment comes through -/
example :
    let p : Policy := { initialized := true, allowComments := true, elsAndAttrs := [(b!"b", [])], setOfElementsAllowedWithoutAttrs := [b!"b"] }
    p.sanitizeCore b!"<b>x</b><!-- a > b --><!DOCTYPE html><i>y</i>" = b!"<b>x</b><!-- a > b -->y" := by decide

end BM.Props
