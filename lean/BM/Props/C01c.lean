import BM.Props.C01
import BM.Proofs.ViewTables
import BM.Proofs.WFBuild
import BM.Proofs.Tables2
/-
  C01 for whole policies, by induction over builder histories: an element a policy built from `NewPolicy()` allows
  — hence, by `C01_events` / `C01_bytesC`, every element whose tag reaches the output — was named by a call of the
  history (`AllowElements`, `AllowAttrs(…).OnElements`, `AllowNoAttrs().OnElements`, in any letter case) or is
  matched by an element pattern a call of the history registered.
-/
namespace BM.Props
open BM BM.Html BM.Spec

/-- a call of the history names element `n`, or registers an element pattern that matches it -/
def ElementByCall (T : Nat → Bytes → Bool) (ops : List BuilderOp) (n : Bytes) : Prop :=
  (∃ op ∈ ops, op.addsElem n) ∨ (∃ op ∈ ops, ∃ r : Pat, op.addsPattern r ∧ T r.id n = true)

theorem applyOps_init (d : Bytes → Bytes → Bool) (p : Policy) (hi : p.initialized = true) (ops : List BuilderOp) :
    (applyOps d p ops).initialized = true := by
  unfold applyOps
  induction ops generalizing p with
  | nil => exact hi
  | cons op rest ih => exact ih _ (applyOp_initialized d p hi op)

theorem allowsElement_built (T : Nat → Bytes → Bool) (d : Bytes → Bytes → Bool) (ops : List BuilderOp)
    (hpat : ∀ op ∈ ops, op.patsOK T) (n : Bytes)
    (h : allowsElement (applyOps d { initialized := true } ops) n = true) : ElementByCall T ops n := by
  have hw := wf_applyOps T d { initialized := true } rfl (wf_new T) ops hpat
  obtain ⟨_, _, hEl, _, _⟩ := rules_applyOps d { initialized := true } rfl ops
  obtain ⟨_, hPat, _, _, _, _⟩ := rules2_applyOps d { initialized := true } rfl ops
  unfold allowsElement at h
  simp only [Bool.or_eq_true] at h
  rcases h with h | h
  · left
    have : (applyOps d { initialized := true } ops).hasElem n := h
    rcases (hEl n).mp this with h0 | h1
    · simp [Policy.hasElem, Map.get?] at h0
    · exact h1
  · right
    obtain ⟨e, he, ht⟩ := List.any_eq_true.mp h
    have hget := patGet?_of_mem _ hw.idsA e he
    have hhas : (applyOps d { initialized := true } ops).hasPattern e.1 := by
      unfold Policy.hasPattern; rw [hget]; rfl
    rcases (hPat e.1).mp hhas with h0 | ⟨op, hop, ha⟩
    · simp [Policy.hasPattern, patGet?] at h0
    · refine ⟨op, hop, e.1, ha, ?_⟩
      rw [← hw.testA e he]; exact ht

/-- **C01 traced back to the builder history** (event level, every policy built from `NewPolicy()`, every token
    list): every tag written names an element some call of the history named or matched by a pattern -/
theorem C01_built_policy (T : Nat → Bytes → Bool) (d : Bytes → Bytes → Bool) (ops : List BuilderOp)
    (hpat : ∀ op ∈ ops, op.patsOK T) (input : Bytes)
    (hp : PlainOn (applyOps d { initialized := true } ops).ensureInit (tokenize input)) :
    ∀ k ∈ tokenize ((applyOps d { initialized := true } ops).sanitizeCore input),
      isTag k = true → ElementByCall T ops k.data := by
  intro k hk htag
  rcases C01_bytesC_on _ input hp k hk with h | ⟨_, hall⟩ | ⟨hc, _⟩
  · unfold isTag at htag; rw [h] at htag; exact absurd htag (by decide)
  · have hi : (applyOps d { initialized := true } ops).ensureInit = applyOps d { initialized := true } ops :=
      ensureInit_of_init _ (applyOps_init d _ rfl ops)
    rw [hi] at hall
    exact allowsElement_built T d ops hpat k.data hall
  · unfold isTag at htag; rw [hc] at htag; exact absurd htag (by decide)

end BM.Props
