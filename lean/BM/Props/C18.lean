import BM.CssDefault
import BM.Spec.More
import BM.Props.Pins
import BM.Proofs.RegexLemmas
/-
  C18: default CSS value handlers accept only inert, whole values.
  Proved: the lookup for a property that is not in the (regenerated) table yields a handler
  that rejects everything, for every value; the table and every handler body are regenerated
  from css/handlers.go on each run and the four helper functions are pinned by hash.
  Proved as well, **for every string**: each of the 38 anchored regular expressions the handlers
  use (regenerated from css/handlers.go) accepts only strings over an inert alphabet — no
  `< > \ @ { } ;`, no control character (`css_*_closed`, by `Re.search_alphabet`); so the
  leaves of the handlers cannot let a hostile fragment through, e.g. inside `url(...)`.
  Partial: `∀ v, handler v = true → Inert v` for each of the ~210 table entries is not proved
  in general (it needs an abstract interpretation of the Go-lite bodies, DESIGN §6 C18); it is
  checked on every accepted value of the `hdl` family (own-vocabulary tokens with hostile
  fragments at every position) by `Spec.inert`, on the implementation's own verdicts.
-/
namespace BM.Props
open BM

/-- `GetDefaultHandler(unknown)` is `BaseHandler`, which rejects every value -/
theorem unknown_property_rejects (prop : Bytes)
    (h : Gen.defaultStyleHandlers.find? (·.1 == prop) = none) (v : Bytes) :
    defaultHandler prop v = false := by
  simp [defaultHandler, h]

set_option maxRecDepth 100000 in
theorem no_such_property : Gen.defaultStyleHandlers.find? (·.1 == b!"no-such-property") = none := by decide


/-! ### the regular expressions of css/handlers.go are closed over an inert alphabet -/

/-- printable ASCII without `;` `<` `>` `@` `\` `{` `}` (and without `=` `?`-neighbours only
    where the expressions need none): no angle bracket, backslash, at-sign, brace, semicolon or
    control character -/
def inertA : List (Rune × Rune) := [(32, 58), (61, 61), (63, 63), (65, 91), (93, 122), (124, 124), (126, 126)]
/-- the same plus the typographic quotation marks of the `quotes` property -/
def inertQ : List (Rune × Rune) := inertA ++ [(0xAB, 0xAB), (0xBB, 0xBB), (0x2018, 0x201E), (0x2039, 0x203A)]

def ClosedCss (r : Re) (A : List (Rune × Rune)) : Prop :=
  ∀ s : Bytes, Re.matchBytes r s = true → ∀ c ∈ decodeRunes s, Re.inRanges c A = true

theorem closedCss_of (r : Re) (A : List (Rune × Rune)) (ha : Re.anchoredBoth r = true)
    (hw : Re.within (some A) r = true) : ClosedCss r A :=
  fun s h => Re.search_alphabet A r ha hw (decodeRunes s) h

set_option maxRecDepth 100000

theorem css_Alpha_closed : ClosedCss Gen.cssReAlpha inertA := closedCss_of _ _ (by decide) (by decide)
theorem css_Blur_closed : ClosedCss Gen.cssReBlur inertA := closedCss_of _ _ (by decide) (by decide)
theorem css_BrightnessCont_closed : ClosedCss Gen.cssReBrightnessCont inertA := closedCss_of _ _ (by decide) (by decide)
theorem css_Count_closed : ClosedCss Gen.cssReCount inertA := closedCss_of _ _ (by decide) (by decide)
theorem css_CubicBezier_closed : ClosedCss Gen.cssReCubicBezier inertA := closedCss_of _ _ (by decide) (by decide)
theorem css_Digits_closed : ClosedCss Gen.cssReDigits inertA := closedCss_of _ _ (by decide) (by decide)
theorem css_Font_closed : ClosedCss Gen.cssReFont inertA := closedCss_of _ _ (by decide) (by decide)
theorem css_Grayscale_closed : ClosedCss Gen.cssReGrayscale inertA := closedCss_of _ _ (by decide) (by decide)
theorem css_GridTemplateAreas_closed : ClosedCss Gen.cssReGridTemplateAreas inertA := closedCss_of _ _ (by decide) (by decide)
theorem css_HSL_closed : ClosedCss Gen.cssReHSL inertA := closedCss_of _ _ (by decide) (by decide)
theorem css_HSLA_closed : ClosedCss Gen.cssReHSLA inertA := closedCss_of _ _ (by decide) (by decide)
theorem css_HexRGB_closed : ClosedCss Gen.cssReHexRGB inertA := closedCss_of _ _ (by decide) (by decide)
theorem css_HueRotate_closed : ClosedCss Gen.cssReHueRotate inertA := closedCss_of _ _ (by decide) (by decide)
theorem css_Invert_closed : ClosedCss Gen.cssReInvert inertA := closedCss_of _ _ (by decide) (by decide)
theorem css_Length_closed : ClosedCss Gen.cssReLength inertA := closedCss_of _ _ (by decide) (by decide)
theorem css_Matrix_closed : ClosedCss Gen.cssReMatrix inertA := closedCss_of _ _ (by decide) (by decide)
theorem css_Matrix3D_closed : ClosedCss Gen.cssReMatrix3D inertA := closedCss_of _ _ (by decide) (by decide)
theorem css_NegTime_closed : ClosedCss Gen.cssReNegTime inertA := closedCss_of _ _ (by decide) (by decide)
theorem css_Numeric_closed : ClosedCss Gen.cssReNumeric inertA := closedCss_of _ _ (by decide) (by decide)
theorem css_NumericDecimal_closed : ClosedCss Gen.cssReNumericDecimal inertA := closedCss_of _ _ (by decide) (by decide)
theorem css_Opacity_closed : ClosedCss Gen.cssReOpacity inertA := closedCss_of _ _ (by decide) (by decide)
theorem css_Opactiy_closed : ClosedCss Gen.cssReOpactiy inertA := closedCss_of _ _ (by decide) (by decide)
theorem css_Position_closed : ClosedCss Gen.cssRePosition inertA := closedCss_of _ _ (by decide) (by decide)
theorem css_QuotedAlpha_closed : ClosedCss Gen.cssReQuotedAlpha inertA := closedCss_of _ _ (by decide) (by decide)
theorem css_RGB_closed : ClosedCss Gen.cssReRGB inertA := closedCss_of _ _ (by decide) (by decide)
theorem css_RGBA_closed : ClosedCss Gen.cssReRGBA inertA := closedCss_of _ _ (by decide) (by decide)
theorem css_Rect_closed : ClosedCss Gen.cssReRect inertA := closedCss_of _ _ (by decide) (by decide)
theorem css_Rotate_closed : ClosedCss Gen.cssReRotate inertA := closedCss_of _ _ (by decide) (by decide)
theorem css_Rotate3D_closed : ClosedCss Gen.cssReRotate3D inertA := closedCss_of _ _ (by decide) (by decide)
theorem css_Saturate_closed : ClosedCss Gen.cssReSaturate inertA := closedCss_of _ _ (by decide) (by decide)
theorem css_Sepia_closed : ClosedCss Gen.cssReSepia inertA := closedCss_of _ _ (by decide) (by decide)
theorem css_Span_closed : ClosedCss Gen.cssReSpan inertA := closedCss_of _ _ (by decide) (by decide)
theorem css_Steps_closed : ClosedCss Gen.cssReSteps inertA := closedCss_of _ _ (by decide) (by decide)
theorem css_Time_closed : ClosedCss Gen.cssReTime inertA := closedCss_of _ _ (by decide) (by decide)
theorem css_TransitionProp_closed : ClosedCss Gen.cssReTransitionProp inertA := closedCss_of _ _ (by decide) (by decide)
theorem css_URL_closed : ClosedCss Gen.cssReURL inertA := closedCss_of _ _ (by decide) (by decide)
theorem css_ZIndex_closed : ClosedCss Gen.cssReZIndex inertA := closedCss_of _ _ (by decide) (by decide)
theorem css_Quotes_closed : ClosedCss Gen.cssReQuotes inertQ := closedCss_of _ _ (by decide) (by decide)

/-- the inert alphabets contain none of the hostile characters of C18 and no control character -/
theorem inert_alphabets_exclude :
    ∀ A ∈ [inertA, inertQ], ∀ c ∈ [60, 62, 92, 64, 123, 125, 59, 0, 1, 8, 9, 10, 11, 12, 13, 27, 31, 127],
      Re.inRanges c A = false := by decide

/-- the five expressions that are *not* whole-value recognisers are exactly the ones the handlers
    use with FindString / ReplaceAll (their callers compare the remainder); a change that
    un-anchors another expression breaks this statement -/
theorem css_unanchored_are :
    (Gen.cssRegexes.filter fun nr => !Re.anchoredBoth nr.2).map (·.1) =
      ["DropShadow", "Perspective", "Skew", "TranslateScale"] := by decide

/-- spot checks of the spec-side predicate (these are tests, not the unbounded claim) -/
example : Spec.inert b!"url(http://a.b/c.png) no-repeat" = true ∧ Spec.inert b!"url(javascript:alert(1))" = false ∧
          Spec.inert b!"0<script>" = false ∧ Spec.inert b!"\\72 ed" = false ∧ Spec.inert b!"expression(1)" = false ∧
          Spec.inert b!"red url(data:x)" = false := by decide

end BM.Props
