import BM.CssDefault
import BM.Spec.More
import BM.Props.Pins
/-
  C18: default CSS value handlers accept only inert, whole values.
  Proved: the lookup for a property that is not in the (regenerated) table yields a handler
  that rejects everything, for every value; the table and every handler body are regenerated
  from css/handlers.go on each run and the four helper functions are pinned by hash.
  Partial: `∀ v, handler v = true → Inert v` for each of the ~210 table entries is not proved
  in general (it needs an abstract interpretation of the Go-lite bodies, DESIGN §6 C18); it is
  checked on every accepted value of the `hdl` family (own-vocabulary tokens with hostile
  fragments at every position) by `Spec.inert`, on the implementation's own verdicts.
-/
namespace BM.Props
open BM

/-- `GetDefaultHandler(unknown)` is `BaseHandler`, which rejects every value -/
theorem unknown_property_rejects (prop : Bytes)
    (h : Gen.defaultStyleHandlers.find? (·.1 == prop) = none) (v : Bytes) :
    defaultHandler prop v = false := by
  simp [defaultHandler, h]

set_option maxRecDepth 100000 in
theorem no_such_property : Gen.defaultStyleHandlers.find? (·.1 == b!"no-such-property") = none := by decide

/-- spot checks of the spec-side predicate (these are tests, not the unbounded claim) -/
example : Spec.inert b!"url(http://a.b/c.png) no-repeat" = true ∧ Spec.inert b!"url(javascript:alert(1))" = false ∧
          Spec.inert b!"0<script>" = false ∧ Spec.inert b!"\\72 ed" = false ∧ Spec.inert b!"expression(1)" = false ∧
          Spec.inert b!"red url(data:x)" = false := by decide

end BM.Props
