import BM.Gen.CssHandlers
import BM.Gen.Shipped
import BM.Gen.SanFacts
import BM.Sanitize
/-
  Source pins: the few pieces of /repo that are modelled by hand rather than regenerated
  (the four helpers of css/handlers.go and the closure in AllowDataURIImages) are pinned by
  the sha256 of their printed source, recomputed by the extractor on every run.  If one of
  them is edited, these theorems stop checking and the hand model has to be revisited.
-/
namespace BM.Props
open BM

theorem css_helper_pins :
    Gen.helperHashes =
      [("in", "cbdfdf275fce9a8979afe6afb4f1dd35454d527f3f62aeb486c847803eab1155"),
       ("multiSplit", "14163f3eb543958da885e7030253260bad8213b1d6d75f58c14002960712b9c8"),
       ("recursiveCheck", "ce0836b547aeb1980c206b5980aa38ddb1d9bf30ccc11f5ed34c5eef538868cc"),
       ("recursiveCheckFrom", "282a330187397d85ee25953354308019b6714d7273bba511c2af7c2afbd8ec7a"),
       ("splitValues", "ebf49946b8a3a2133d1830380b919a7b4c0e1413ec7b5b9dd32aa529a30d592e"),
       ("GetDefaultHandler", "4348291cdf0b8d658828947a72b32cfcd4f94d2311a2518f99f494461aa6dd72")] := by
  decide

/-- the closure `AllowDataURIImages` registers for the data scheme (hand model: `dataURIImagePolicy`) -/
theorem data_uri_closure_pin :
    Gen.dataURIImageClosureHash = "b0dfd2cef2417df9960d9ed7879140f24274abf1fc7ebed888385747310b14eb" := by decide

/-! ### the element tables of sanitize.go, by syntax -/

def hrefEls : List Bytes := [b!"a", b!"area", b!"base", b!"link"]
def citeEls : List Bytes := [b!"blockquote", b!"del", b!"ins", b!"q"]
def srcEls : List Bytes :=
  [b!"audio", b!"embed", b!"iframe", b!"img", b!"input", b!"script", b!"source", b!"track", b!"video"]
def coEls : List Bytes := [b!"audio", b!"img", b!"link", b!"script", b!"video"]
def voidEls : List Bytes :=
  [b!"area", b!"base", b!"br", b!"col", b!"embed", b!"hr", b!"img", b!"input", b!"link", b!"meta", b!"param",
   b!"source", b!"track", b!"wbr"]

/-- every `switch` over element names in sanitize.go, as the extractor reads it from the source on
    each run: the script/style gates of the token loop (three tag cases and the text case), the URL
    pass (href / cite / src groups), the link-hardening and crossorigin blocks, `linkable`,
    `isVoidElement`.  An element added to or dropped from any of these tables breaks this theorem. -/
theorem sanitize_switches_pin :
    Gen.sanitizeSwitches =
      [("sanitize", "normaliseElementName(…)", [[b!"script"], [b!"style"]]),
       ("sanitize", "normaliseElementName(…)", [[b!"script"], [b!"style"]]),
       ("sanitize", "normaliseElementName(…)", [[b!"script"], [b!"style"]]),
       ("sanitize", "mostRecentlyStartedToken", [[b!"script"], [b!"style"]]),
       ("sanitizeAttrs", "elementName", [hrefEls, citeEls, srcEls]),
       ("sanitizeAttrs", "elementName", [hrefEls]),
       ("sanitizeAttrs", "elementName", [coEls]),
       ("linkable", "elementName", [hrefEls, citeEls, srcEls]),
       ("isVoidElement", "elementName", [voidEls])] := by decide

/-- the model's predicates are exactly these tables -/
theorem model_element_tables (el : Bytes) :
    isHrefElement el = hrefEls.contains el ∧ isCiteElement el = citeEls.contains el ∧
    isSrcElement el = srcEls.contains el ∧ isCrossOriginElement el = coEls.contains el ∧
    isVoidElement el = voidEls.contains el ∧
    linkable el = (hrefEls.contains el || citeEls.contains el || srcEls.contains el) ∧
    isScriptOrStyle el = [b!"script", b!"style"].contains el := by
  have hd : ∀ l : Bytes, decide (el = l) = (el == l) := fun l => by
    cases h : el == l <;> simp_all
  refine ⟨?_, ?_, ?_, ?_, ?_, ?_, ?_⟩ <;>
    simp [isHrefElement, isCiteElement, isSrcElement, isCrossOriginElement, isVoidElement, linkable, isScriptOrStyle,
      hrefEls, citeEls, srcEls, coEls, voidEls, Bool.or_assoc] <;> simp only [hd]

end BM.Props
