import BM.Gen.CssHandlers
import BM.Gen.Shipped
/-
  Source pins: the few pieces of /repo that are modelled by hand rather than regenerated
  (the four helpers of css/handlers.go and the closure in AllowDataURIImages) are pinned by
  the sha256 of their printed source, recomputed by the extractor on every run.  If one of
  them is edited, these theorems stop checking and the hand model has to be revisited.
-/
namespace BM.Props
open BM

theorem css_helper_pins :
    Gen.helperHashes =
      [("in", "cbdfdf275fce9a8979afe6afb4f1dd35454d527f3f62aeb486c847803eab1155"),
       ("multiSplit", "14163f3eb543958da885e7030253260bad8213b1d6d75f58c14002960712b9c8"),
       ("recursiveCheck", "ce0836b547aeb1980c206b5980aa38ddb1d9bf30ccc11f5ed34c5eef538868cc"),
       ("recursiveCheckFrom", "282a330187397d85ee25953354308019b6714d7273bba511c2af7c2afbd8ec7a"),
       ("splitValues", "ebf49946b8a3a2133d1830380b919a7b4c0e1413ec7b5b9dd32aa529a30d592e"),
       ("GetDefaultHandler", "4348291cdf0b8d658828947a72b32cfcd4f94d2311a2518f99f494461aa6dd72")] := by
  decide

/-- the closure `AllowDataURIImages` registers for the data scheme (hand model: `dataURIImagePolicy`) -/
theorem data_uri_closure_pin :
    Gen.dataURIImageClosureHash = "b0dfd2cef2417df9960d9ed7879140f24274abf1fc7ebed888385747310b14eb" := by decide

end BM.Props
