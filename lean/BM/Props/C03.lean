import BM.Sanitize
import BM.Props.Pins
import BM.Spec.Oracles
import BM.Proofs.PassInv
import BM.Proofs.Prov
import BM.Proofs.UrlScheme
import BM.Proofs.UrlRelative
import BM.Proofs.ProvC
/-
  C03: URL attributes carry only allowed schemes (or allowed relative URLs).

  Proved: (1) what `validURL` returns under URL checking is always the re-serialisation
  `print u` of a URL `u` that net/url parsed from the trimmed value, and either `u` has a
  scheme that is on the allowlist (and, when custom checks are registered for it, approved
  by one of them) or matches a scheme pattern, or `u` has no scheme, relative URLs are
  allowed and the result is non-empty; (2) a value with inner space/tab/newline is rejected
  unless it starts with `data:`; (3) the URL pass drops an attribute exactly when `validURL`
  rejects it, at every one of the seventeen (element, attribute) positions.
  Partial: the bridge from net/url's `print u` to the scheme a *browser* extracts
  (`Spec.classifyUrl`) is not proved here; it is checked by the oracle on every case
  (`oracleC03`, and the `vurl` family which evaluates `Spec.urlOk` on every accepted value).
-/
namespace BM.Props
open BM BM.Html

/-- the scheme of a parsed URL is acceptable to the policy -/
def SchemeAccepted (p : Policy) (u : Url.URL) : Prop :=
  (u.scheme ≠ [] ∧
    ((∃ checks, p.allowURLSchemes.get? u.scheme = some checks ∧ (checks = [] ∨ checks.any (· u) = true)) ∨
     (p.allowURLSchemes.get? u.scheme = none ∧ p.allowURLSchemeRegexps.any (·.test u.scheme) = true))) ∨
  (u.scheme = [] ∧ p.allowRelativeURLs = true ∧ Url.print u ≠ [])

theorem validURL_sound (p : Policy) (raw v : Bytes) (hreq : p.requireParseableURLs = true)
    (h : p.validURL raw = some v) :
    ∃ raw' u, Url.parse raw' = some u ∧ v = Url.print u ∧ SchemeAccepted p u := by
  unfold Policy.validURL at h
  simp only [hreq, ↓reduceIte] at h
  split at h
  · simp at h
  · rename_i raw' _
    split at h
    · simp at h
    · rename_i u hu
      refine ⟨raw', u, hu, ?_⟩
      by_cases hs : u.scheme.isEmpty = true
      · simp only [hs, Bool.not_true, Bool.false_eq_true, ↓reduceIte] at h
        split at h
        · rename_i hrel
          simp only [Bool.and_eq_true, Bool.not_eq_true', List.isEmpty_eq_false_iff] at hrel
          simp only [Option.some.injEq] at h
          exact ⟨h.symm, .inr ⟨List.isEmpty_iff.mp hs, hrel.1, hrel.2⟩⟩
        · simp at h
      · simp only [hs, Bool.not_false, ↓reduceIte] at h
        have hne : u.scheme ≠ [] := fun e => hs (by simp [e])
        split at h
        · rename_i hget
          split at h
          · simp only [Option.some.injEq] at h
            exact ⟨h.symm, .inl ⟨hne, .inr ⟨hget, by assumption⟩⟩⟩
          · simp at h
        · rename_i policies hget
          split at h
          · rename_i hemp
            simp only [Option.some.injEq] at h
            exact ⟨h.symm, .inl ⟨hne, .inl ⟨policies, hget, .inl (List.isEmpty_iff.mp hemp)⟩⟩⟩
          · split at h
            · simp only [Option.some.injEq] at h
              exact ⟨h.symm, .inl ⟨hne, .inl ⟨policies, hget, .inr (by assumption)⟩⟩⟩
            · simp at h

/-- inner whitespace is only tolerated in data: URLs -/
theorem validURL_whitespace (p : Policy) (raw : Bytes) (hreq : p.requireParseableURLs = true)
    (hws : let t := Css.trimSpace raw; (t.contains 32 || t.contains 9 || t.contains 10) = true)
    (hnd : hasPrefix b!"data:" (Css.trimSpace raw) = false) : p.validURL raw = none := by
  unfold Policy.validURL
  simp only [hreq, ↓reduceIte]
  simp only at hws
  simp only [hws, ↓reduceIte, hnd, Bool.not_false]

/-- the URL pass keeps a URL attribute only with a value `validURL` returned -/
theorem urlPass_href (p : Policy) (el : Bytes) (a : Attr) (hel : isHrefElement el = true) (hk : a.key = b!"href") :
    p.urlPassAttr el a = some ((p.validURL a.val).map fun u => ⟨a.key, u⟩) := by
  simp [Policy.urlPassAttr, hel, hk]

theorem urlPass_cite (p : Policy) (el : Bytes) (a : Attr) (hel : isCiteElement el = true) (hk : a.key = b!"cite") :
    p.urlPassAttr el a = some ((p.validURL a.val).map fun u => ⟨a.key, u⟩) := by
  have : isHrefElement el = false := by
    revert hel; unfold isCiteElement isHrefElement
    intro h; simp only [Bool.or_eq_true, beq_iff_eq] at h
    rcases h with ((h | h) | h) | h <;> subst h <;> decide
  simp [Policy.urlPassAttr, hel, hk, this]

/-- the seventeen URL-checked positions of the statement are exactly what the model checks
    (the model is tied to the code by the `san`/`directed` correspondence families) -/
theorem url_positions :
    (∀ el ∈ [b!"a", b!"area", b!"base", b!"link"], isHrefElement el = true ∧ linkable el = true) ∧
    (∀ el ∈ [b!"blockquote", b!"del", b!"ins", b!"q"], isCiteElement el = true ∧ linkable el = true) ∧
    (∀ el ∈ [b!"audio", b!"embed", b!"iframe", b!"img", b!"input", b!"script", b!"source", b!"track", b!"video"],
        isSrcElement el = true ∧ linkable el = true) := by decide

/-! ### the whole of `sanitizeAttrs`, and the bytes -/

/-- the seventeen positions, decomposed the way the URL pass tests them -/
theorem urlPosition_cases (el k : Bytes) (h : Spec.isUrlPosition el k = true) :
    linkable el = true ∧
    ((k = b!"href" ∧ isHrefElement el = true) ∨
     (k = b!"cite" ∧ isCiteElement el = true ∧ isHrefElement el = false) ∨
     (k = b!"src" ∧ isSrcElement el = true ∧ isHrefElement el = false ∧ isCiteElement el = false)) := by
  unfold Spec.isUrlPosition at h
  simp only [Bool.or_eq_true, Bool.and_eq_true, beq_iff_eq] at h
  rcases h with (⟨hk, hel⟩ | ⟨hk, hel⟩) | ⟨hk, hel⟩
  · rcases hel with ((h | h) | h) | h <;> subst h <;> exact ⟨by decide, .inl ⟨hk, by decide⟩⟩
  · rcases hel with ((h | h) | h) | h <;> subst h <;> exact ⟨by decide, .inr (.inl ⟨hk, by decide, by decide⟩)⟩
  · rcases hel with (((((((h | h) | h) | h) | h) | h) | h) | h) | h <;> subst h <;>
      exact ⟨by decide, .inr (.inr ⟨hk, by decide, by decide, by decide⟩)⟩

/-- what C03 says of one attribute of element `el`: at a URL-checked position its value is one
    that `validURL` returned (a src under a rewriter is the rewriter's business) -/
def UrlChecked (p : Policy) (el : Bytes) (b : Attr) : Prop :=
  Spec.isUrlPosition el b.key = true → (b.key = b!"src" → p.srcRewriter = none) →
    ∃ raw, p.validURL raw = some b.val

theorem urlChecked_passInv (p : Policy) (el : Bytes) : PassInv (UrlChecked p el) where
  added := by
    intro x hx hpos
    exfalso
    obtain ⟨_, hc⟩ := urlPosition_cases el x.key hpos
    rcases hx with h | h | h | h <;> rcases hc with ⟨hk, _⟩ | ⟨hk, _⟩ | ⟨hk, _⟩ <;> rw [h] at hk <;> exact absurd hk (by decide)
  stable := by
    intro a b hk hv ha hpos hsrc
    rw [hk] at hpos hsrc
    obtain ⟨raw, hr⟩ := ha hpos hsrc
    exact ⟨raw, by rw [hv]; exact hr⟩

/-- **C03 for the whole of `sanitizeAttrs`** (every policy with URL checking on, every element and
    attribute list): every href / cite / src at one of the seventeen positions that is returned
    carries a value `validURL` returned — hence (`validURL_sound`) the printed form of a parsed
    URL whose scheme the policy accepts, or an allowed non-empty relative reference. -/
theorem C03_sanitizeAttrs (p : Policy) (hreq : p.requireParseableURLs = true) (el : Bytes) (attrs : List Attr)
    (aps : AttrRules) (out : List Attr) (h : p.sanitizeAttrs el attrs aps = some out) :
    ∀ b ∈ out, UrlChecked p el b := by
  refine sanitizeAttrs_after_urlPass (urlChecked_passInv p el) p el attrs aps out h ?_
  intro mid _
  constructor
  · intro hnot b _ hpos
    exfalso
    exact hnot ⟨(urlPosition_cases el b.key hpos).1, hreq⟩
  · intro _ _ m2 hm2 b hb hpos hsrc
    obtain ⟨a, _, hab⟩ := mapMOpt_mem _ mid m2 hm2 b hb
    have hk := urlPassAttr_key p el a b hab
    obtain ⟨_, hc⟩ := urlPosition_cases el b.key hpos
    rcases hc with ⟨hkey, hel⟩ | ⟨hkey, hel, hnh⟩ | ⟨hkey, hel, hnh, hnc⟩
    · rw [urlPass_href p el a hel (by rw [← hk]; exact hkey)] at hab
      simp only [Option.some.injEq, Option.map_eq_some_iff] at hab
      obtain ⟨u, hu, rfl⟩ := hab
      exact ⟨a.val, hu⟩
    · rw [urlPass_cite p el a hel (by rw [← hk]; exact hkey)] at hab
      simp only [Option.some.injEq, Option.map_eq_some_iff] at hab
      obtain ⟨u, hu, rfl⟩ := hab
      exact ⟨a.val, hu⟩
    · have hka : a.key = b!"src" := by rw [← hk]; exact hkey
      have hnone := hsrc hkey
      unfold Policy.urlPassAttr at hab
      simp only [hnh, hnc, hel, hka, beq_self_eq_true, Bool.false_eq_true, ↓reduceIte, hnone] at hab
      split at hab
      · simp at hab
      · rename_i u hu
        simp at hab; subst hab
        exact ⟨a.val, hu⟩

/-- **C03 (byte level, plain policies with URL checking)**: every href / cite / src at a checked
    position on a tag re-read from the returned bytes carries a value `validURL` returned. -/
theorem C03_bytes (p : Policy) (hp : PlainC p.ensureInit) (hreq : p.ensureInit.requireParseableURLs = true)
    (input : Bytes) :
    ∀ k ∈ tokenize (p.sanitizeCore input), (k.tt = .start ∨ k.tt = .selfClosing) →
      ∀ b ∈ k.attrs, UrlChecked p.ensureInit k.data b := by
  intro k hk htt b hb
  have hne : k.attrs ≠ [] := by intro h; rw [h] at hb; simp at hb
  obtain ⟨t, _, aps, _, _, hs⟩ := reread_open_tagC p hp input k hk htt hne
  exact C03_sanitizeAttrs p.ensureInit hreq k.data t.attrs aps k.attrs hs b hb

/-- (per-input form)  **C03 (byte level, plain policies with URL checking)**: every href / cite / src at a checked
    position on a tag re-read from the returned bytes carries a value `validURL` returned. -/
theorem C03_bytes_on (p : Policy) (hreq : p.ensureInit.requireParseableURLs = true)
    (input : Bytes) (hp : PlainOn p.ensureInit (tokenize input)) :
    ∀ k ∈ tokenize (p.sanitizeCore input), (k.tt = .start ∨ k.tt = .selfClosing) →
      ∀ b ∈ k.attrs, UrlChecked p.ensureInit k.data b := by
  intro k hk htt b hb
  have hne : k.attrs ≠ [] := by intro h; rw [h] at hb; simp at hb
  obtain ⟨t, _, aps, _, _, hs⟩ := reread_open_tagOn p input hp k hk htt hne
  exact C03_sanitizeAttrs p.ensureInit hreq k.data t.attrs aps k.attrs hs b hb

/-- **C03, what a browser makes of an accepted URL** (scheme half of the bridge): a value
    `validURL` returns either is classified by the WHATWG scheme-state rules as having a scheme —
    and then that scheme is on the policy's allowlist (approved by a custom check when some are
    registered) or matched by a scheme pattern — or it is the printed form of a scheme-less URL,
    relative URLs being allowed.  In particular no value with a scheme the policy does not accept
    (javascript:, vbscript:, data:, … however the input spelled, padded or entity-encoded it) comes
    out.  (The relative half is `C03_browser` below.) -/
theorem C03_browser_scheme (p : Policy) (hreq : p.requireParseableURLs = true) (raw v : Bytes)
    (h : p.validURL raw = some v) :
    (∃ s, Spec.classifyUrl v = .scheme s ∧ s ≠ [] ∧
      ((∃ checks, p.allowURLSchemes.get? s = some checks) ∨ p.allowURLSchemeRegexps.any (·.test s) = true)) ∨
    (∃ u : Url.URL, v = Url.print u ∧ u.scheme = [] ∧ p.allowRelativeURLs = true ∧ v ≠ []) := by
  obtain ⟨raw', u, hp, hv, hacc⟩ := validURL_sound p raw v hreq h
  rcases hacc with ⟨hne, hs⟩ | ⟨he, hrel, hnonempty⟩
  · left
    refine ⟨u.scheme, ?_, hne, ?_⟩
    · rw [hv]; exact Url.printed_scheme_is_browser_scheme raw' u hp hne
    · rcases hs with ⟨checks, hget, _⟩ | ⟨_, hre⟩
      · exact .inl ⟨checks, hget⟩
      · exact .inr hre
  · exact .inr ⟨u, hv, he, hrel, by rw [hv]; exact hnonempty⟩

/-- what a browser makes of a URL value under policy `p`: by the WHATWG scheme-state rules it has
    a scheme the policy accepts (allowlisted, or matched by a scheme pattern), or it is a non-empty
    relative reference and relative URLs are allowed -/
def BrowserOK (p : Policy) (v : Bytes) : Prop :=
  (∃ s, Spec.classifyUrl v = .scheme s ∧ s ≠ [] ∧
    ((∃ checks, p.allowURLSchemes.get? s = some checks) ∨ p.allowURLSchemeRegexps.any (·.test s) = true)) ∨
  (Spec.classifyUrl v = .relative ∧ p.allowRelativeURLs = true ∧ v ≠ [])

/-- **C03, both halves of the browser bridge**: every value `validURL` returns is, for a browser,
    a URL whose scheme the policy accepts or — only when relative URLs are allowed — a relative
    reference.  The classification a browser makes (after stripping C0/space and deleting tab and
    newlines) is exactly the one net/url made on the input (`Url.printed_class`). -/
theorem C03_browser (p : Policy) (hreq : p.requireParseableURLs = true) (raw v : Bytes)
    (h : p.validURL raw = some v) : BrowserOK p v := by
  obtain ⟨raw', u, hp, hv, hacc⟩ := validURL_sound p raw v hreq h
  rcases hacc with ⟨hne, hs⟩ | ⟨he, hrel, hnonempty⟩
  · left
    refine ⟨u.scheme, ?_, hne, ?_⟩
    · rw [hv]; exact Url.printed_scheme_is_browser_scheme raw' u hp hne
    · rcases hs with ⟨checks, hget, _⟩ | ⟨_, hre⟩
      · exact .inl ⟨checks, hget⟩
      · exact .inr hre
  · right
    refine ⟨?_, hrel, by rw [hv]; exact hnonempty⟩
    rw [hv]; exact Url.printed_relative_is_browser_relative raw' u hp he

/-- **C03 at byte level, as a browser reads it** (plain policies with URL checking, no src
    rewriter): every href / cite / src at a checked position on a tag re-read from the returned
    bytes is `BrowserOK` — no javascript:, data:, vbscript: … URL unless the policy accepts that
    scheme, and no relative URL unless relative URLs are allowed. -/
theorem C03_bytes_browser (p : Policy) (hp : PlainC p.ensureInit) (hreq : p.ensureInit.requireParseableURLs = true)
    (hnr : p.ensureInit.srcRewriter = none) (input : Bytes) :
    ∀ k ∈ tokenize (p.sanitizeCore input), (k.tt = .start ∨ k.tt = .selfClosing) →
      ∀ b ∈ k.attrs, Spec.isUrlPosition k.data b.key = true → BrowserOK p.ensureInit b.val := by
  intro k hk htt b hb hpos
  obtain ⟨raw, hv⟩ := C03_bytes p hp hreq input k hk htt b hb hpos (fun _ => hnr)
  exact C03_browser _ hreq raw b.val hv

/-- (per-input form)  **C03 at byte level, as a browser reads it** (plain policies with URL checking, no src
    rewriter): every href / cite / src at a checked position on a tag re-read from the returned
    bytes is `BrowserOK` — no javascript:, data:, vbscript: … URL unless the policy accepts that
    scheme, and no relative URL unless relative URLs are allowed. -/
theorem C03_bytes_browser_on (p : Policy) (hreq : p.ensureInit.requireParseableURLs = true)
    (hnr : p.ensureInit.srcRewriter = none) (input : Bytes) (hp : PlainOn p.ensureInit (tokenize input)) :
    ∀ k ∈ tokenize (p.sanitizeCore input), (k.tt = .start ∨ k.tt = .selfClosing) →
      ∀ b ∈ k.attrs, Spec.isUrlPosition k.data b.key = true → BrowserOK p.ensureInit b.val := by
  intro k hk htt b hb hpos
  obtain ⟨raw, hv⟩ := C03_bytes_on p hreq input hp k hk htt b hb hpos (fun _ => hnr)
  exact C03_browser _ hreq raw b.val hv

example :
    let p : Policy := { initialized := true, requireParseableURLs := true, allowURLSchemes := [(b!"https", [])] }
    p.validURL b!" HTTPS://Example.com/a b" = none ∧
    p.validURL b!" HTTPS://Example.com/a%20b " = some b!"https://Example.com/a%20b" ∧
    p.validURL b!"javascript:alert(1)" = none ∧ p.validURL b!"/rel" = none := by decide

/-- non-vacuity of the relative half: with relative URLs allowed, `a:b/c` spelled with an encoded
    colon is accepted, printed with `./` in front, and relative for the classifier -/
example :
    let p : Policy := { initialized := true, requireParseableURLs := true, allowRelativeURLs := true }
    p.validURL b!"./javascript:alert(1)" = some b!"./javascript:alert(1)" ∧
    Spec.classifyUrl b!"./javascript:alert(1)" = .relative ∧
    p.validURL b!"javascript:alert(1)" = none ∧
    p.validURL b!" x/a:b?q#f " = some b!"x/a:b?q#f" ∧ Spec.classifyUrl b!"x/a:b?q#f" = .relative := by decide

end BM.Props
