import BM.Sanitize
import BM.Spec.Oracles
/-
  C03: URL attributes carry only allowed schemes (or allowed relative URLs).

  Proved: (1) what `validURL` returns under URL checking is always the re-serialisation
  `print u` of a URL `u` that net/url parsed from the trimmed value, and either `u` has a
  scheme that is on the allowlist (and, when custom checks are registered for it, approved
  by one of them) or matches a scheme pattern, or `u` has no scheme, relative URLs are
  allowed and the result is non-empty; (2) a value with inner space/tab/newline is rejected
  unless it starts with `data:`; (3) the URL pass drops an attribute exactly when `validURL`
  rejects it, at every one of the seventeen (element, attribute) positions.
  Partial: the bridge from net/url's `print u` to the scheme a *browser* extracts
  (`Spec.classifyUrl`) is not proved here; it is checked by the oracle on every case
  (`oracleC03`, and the `vurl` family which evaluates `Spec.urlOk` on every accepted value).
-/
namespace BM.Props
open BM BM.Html

/-- the scheme of a parsed URL is acceptable to the policy -/
def SchemeAccepted (p : Policy) (u : Url.URL) : Prop :=
  (u.scheme ≠ [] ∧
    ((∃ checks, p.allowURLSchemes.get? u.scheme = some checks ∧ (checks = [] ∨ checks.any (· u) = true)) ∨
     (p.allowURLSchemes.get? u.scheme = none ∧ p.allowURLSchemeRegexps.any (·.test u.scheme) = true))) ∨
  (u.scheme = [] ∧ p.allowRelativeURLs = true ∧ Url.print u ≠ [])

theorem validURL_sound (p : Policy) (raw v : Bytes) (hreq : p.requireParseableURLs = true)
    (h : p.validURL raw = some v) :
    ∃ raw' u, Url.parse raw' = some u ∧ v = Url.print u ∧ SchemeAccepted p u := by
  unfold Policy.validURL at h
  simp only [hreq, ↓reduceIte] at h
  split at h
  · simp at h
  · rename_i raw' _
    split at h
    · simp at h
    · rename_i u hu
      refine ⟨raw', u, hu, ?_⟩
      by_cases hs : u.scheme.isEmpty = true
      · simp only [hs, Bool.not_true, Bool.false_eq_true, ↓reduceIte] at h
        split at h
        · rename_i hrel
          simp only [Bool.and_eq_true, Bool.not_eq_true', List.isEmpty_eq_false_iff] at hrel
          simp only [Option.some.injEq] at h
          exact ⟨h.symm, .inr ⟨List.isEmpty_iff.mp hs, hrel.1, hrel.2⟩⟩
        · simp at h
      · simp only [hs, Bool.not_false, ↓reduceIte] at h
        have hne : u.scheme ≠ [] := fun e => hs (by simp [e])
        split at h
        · rename_i hget
          split at h
          · simp only [Option.some.injEq] at h
            exact ⟨h.symm, .inl ⟨hne, .inr ⟨hget, by assumption⟩⟩⟩
          · simp at h
        · rename_i policies hget
          split at h
          · rename_i hemp
            simp only [Option.some.injEq] at h
            exact ⟨h.symm, .inl ⟨hne, .inl ⟨policies, hget, .inl (List.isEmpty_iff.mp hemp)⟩⟩⟩
          · split at h
            · simp only [Option.some.injEq] at h
              exact ⟨h.symm, .inl ⟨hne, .inl ⟨policies, hget, .inr (by assumption)⟩⟩⟩
            · simp at h

/-- inner whitespace is only tolerated in data: URLs -/
theorem validURL_whitespace (p : Policy) (raw : Bytes) (hreq : p.requireParseableURLs = true)
    (hws : let t := Css.trimSpace raw; (t.contains 32 || t.contains 9 || t.contains 10) = true)
    (hnd : hasPrefix b!"data:" (Css.trimSpace raw) = false) : p.validURL raw = none := by
  unfold Policy.validURL
  simp only [hreq, ↓reduceIte]
  simp only at hws
  simp only [hws, ↓reduceIte, hnd, Bool.not_false]

/-- the URL pass keeps a URL attribute only with a value `validURL` returned -/
theorem urlPass_href (p : Policy) (el : Bytes) (a : Attr) (hel : isHrefElement el = true) (hk : a.key = b!"href") :
    p.urlPassAttr el a = some ((p.validURL a.val).map fun u => ⟨a.key, u⟩) := by
  simp [Policy.urlPassAttr, hel, hk]

theorem urlPass_cite (p : Policy) (el : Bytes) (a : Attr) (hel : isCiteElement el = true) (hk : a.key = b!"cite") :
    p.urlPassAttr el a = some ((p.validURL a.val).map fun u => ⟨a.key, u⟩) := by
  have : isHrefElement el = false := by
    revert hel; unfold isCiteElement isHrefElement
    intro h; simp only [Bool.or_eq_true, beq_iff_eq] at h
    rcases h with ((h | h) | h) | h <;> subst h <;> decide
  simp [Policy.urlPassAttr, hel, hk, this]

/-- the seventeen URL-checked positions of the statement are exactly what the model checks
    (the model is tied to the code by the `san`/`directed` correspondence families) -/
theorem url_positions :
    (∀ el ∈ [b!"a", b!"area", b!"base", b!"link"], isHrefElement el = true ∧ linkable el = true) ∧
    (∀ el ∈ [b!"blockquote", b!"del", b!"ins", b!"q"], isCiteElement el = true ∧ linkable el = true) ∧
    (∀ el ∈ [b!"audio", b!"embed", b!"iframe", b!"img", b!"input", b!"script", b!"source", b!"track", b!"video"],
        isSrcElement el = true ∧ linkable el = true) := by decide

example :
    let p : Policy := { initialized := true, requireParseableURLs := true, allowURLSchemes := [(b!"https", [])] }
    p.validURL b!" HTTPS://Example.com/a b" = none ∧
    p.validURL b!" HTTPS://Example.com/a%20b " = some b!"https://Example.com/a%20b" ∧
    p.validURL b!"javascript:alert(1)" = none ∧ p.validURL b!"/rel" = none := by decide

end BM.Props
