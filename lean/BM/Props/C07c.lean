import BM.Props.C20f
import BM.Props.C07b
/-
  C07 with link options: "returned byte for byte, except for attributes the policy instructs the sanitiser to add
  or rewrite" — so a document that already carries what the policy would add is returned byte for byte.  For a
  policy with link options (no styles, forced crossorigin / sandbox, rewriter): a tag whose attributes the rules
  accept, whose URL values are already in the form `validURL` returns, and whose attribute list the hardening block
  leaves alone (`Hardened`: the rel tokens and the target it would add are there) is a fixed point of
  `sanitizeAttrs` (`sanitizeAttrs_fixed`), hence conforming (`conform_of_hardened`), hence — `C07_bytes` — a
  document of such tags is returned unchanged.  Instantiated on UGCPolicy it is the converse half of C04:
  a document in the UGC vocabulary that carries `rel="nofollow"` on its links passes through unchanged
  (`C04_ugc_conforming_unchanged`).
-/
namespace BM.Props
open BM BM.Html BM.Spec

/-- accepted by the rules, URL values in normal form, nothing for the hardening block to do ⇒ fixed point -/
theorem sanitizeAttrs_fixed (p : Policy) (el : Bytes) (h1 : p.hasStylePolicies el = false)
    (h2 : p.requireCrossOriginAnonymous = false) (h3 : p.requireSandboxOnIFrame = none)
    (attrs : List Attr) (aps : AttrRules)
    (hacc : ∀ a ∈ attrs, (p.filterAttr el aps false a).isSome = true)
    (hurl : p.requireParseableURLs = true → ∀ a ∈ attrs, p.urlPassAttr el a = some (some a))
    (hhard : p.hardenLinks el attrs = attrs) :
    p.sanitizeAttrs el attrs aps = some attrs := by
  rw [link_sanitizeAttrs3 p el h1 h2 h3]
  simp only
  have hf : attrs.filter (fun a => (p.filterAttr el aps false a).isSome) = attrs := List.filter_eq_self.mpr hacc
  rw [hf]
  split
  · rfl
  · unfold Policy.linkPasses
    split
    · have hu : (if p.requireParseableURLs = true then mapMOpt (p.urlPassAttr el) attrs else some attrs) = some attrs := by
        by_cases hrp : p.requireParseableURLs = true
        · simp only [hrp, ↓reduceIte]; exact mapMOpt_all_fix _ _ (hurl hrp)
        · simp only [hrp, Bool.false_eq_true, ↓reduceIte]
      simp only [hu, Option.map_some, hhard, ite_self]
    · rfl

/-- the hardening block leaves a list without href alone, and a hardened list alone -/
theorem hardenLinks_fixed (p : Policy) (el : Bytes) (attrs : List Attr)
    (h : (attrs.filter (·.key == b!"href")).isEmpty = false →
      Hardened (el == b!"a") (p.requireNoFollow || (extOf attrs && p.requireNoFollowFullyQualifiedLinks))
        (p.requireNoReferrer || (extOf attrs && p.requireNoReferrerFullyQualifiedLinks))
        (extOf attrs && p.addTargetBlankToFullyQualifiedLinks) attrs) :
    p.hardenLinks el attrs = attrs := by
  rw [hardenLinks_ext]
  split
  · rfl
  · rename_i he
    exact hardenCore_fixed _ _ _ _ attrs (h (by simpa using he))

/-- such a tag is conforming in the sense of `C07_bytes` -/
theorem conform_of_hardened (p : Policy) (t : Token) (hseg : SegOK t) (htt : t.tt = .start ∨ t.tt = .selfClosing)
    (hss : isScriptOrStyle t.data = false) (h1 : p.hasStylePolicies t.data = false)
    (h2 : p.requireCrossOriginAnonymous = false) (h3 : p.requireSandboxOnIFrame = none) (aps : AttrRules)
    (haps : p.attrRulesFor t.data = some aps)
    (hacc : ∀ a ∈ t.attrs, (p.filterAttr t.data aps false a).isSome = true)
    (hurl : p.requireParseableURLs = true → ∀ a ∈ t.attrs, p.urlPassAttr t.data a = some (some a))
    (hhard : p.hardenLinks t.data t.attrs = t.attrs)
    (hbare : t.attrs ≠ [] ∨ p.allowNoAttrs t.data = true) : Conform p t := by
  have hfix : p.cleanAttrs t aps = some t.attrs := by
    unfold Policy.cleanAttrs
    split
    · rfl
    · exact sanitizeAttrs_fixed p t.data h1 h2 h3 t.attrs aps hacc hurl hhard
  refine ⟨hseg, ?_⟩
  rcases htt with h | h <;> simp only [h] <;> exact ⟨hss, aps, haps, hfix, hbare⟩

/-- the general form: the list is what the rules accept (`u`, URL values in normal form) followed by what the
    hardening block appends to it (`E`, which the rules do not accept — so the next pass strips it and the block
    appends it again) -/
theorem sanitizeAttrs_fixed_appended (p : Policy) (el : Bytes) (h1 : p.hasStylePolicies el = false)
    (h2 : p.requireCrossOriginAnonymous = false) (h3 : p.requireSandboxOnIFrame = none)
    (u E : List Attr) (aps : AttrRules)
    (hacc : ∀ a ∈ u, (p.filterAttr el aps false a).isSome = true)
    (hE : ∀ a ∈ E, (p.filterAttr el aps false a).isSome = false)
    (hurl : p.requireParseableURLs = true → ∀ a ∈ u, p.urlPassAttr el a = some (some a))
    (hout : (if ((p.requireNoFollow || p.requireNoFollowFullyQualifiedLinks || p.requireNoReferrer ||
        p.requireNoReferrerFullyQualifiedLinks || p.addTargetBlankToFullyQualifiedLinks) &&
        decide (u.length > 0) && isHrefElement el) = true then p.hardenLinks el u else u) = u ++ E) :
    p.sanitizeAttrs el (u ++ E) aps = some (u ++ E) := by
  rw [link_sanitizeAttrs3 p el h1 h2 h3]
  simp only
  have hf : (u ++ E).filter (fun a => (p.filterAttr el aps false a).isSome) = u := by
    rw [List.filter_append, List.filter_eq_self.mpr hacc,
      List.filter_eq_nil_iff.mpr (fun a ha => by simp [hE a ha]), List.append_nil]
  rw [hf]
  by_cases hue : u.isEmpty = true
  · have hu : u = [] := List.isEmpty_iff.mp hue
    subst hu
    simp only [List.length_nil, Nat.lt_irrefl, decide_false, Bool.and_false, Bool.false_and, Bool.false_eq_true,
      ↓reduceIte, List.nil_append] at hout
    subst hout
    rfl
  · simp only [hue, Bool.false_eq_true, ↓reduceIte]
    unfold Policy.linkPasses
    by_cases hl : linkable el = true
    · have hu : (if p.requireParseableURLs = true then mapMOpt (p.urlPassAttr el) u else some u) = some u := by
        by_cases hrp : p.requireParseableURLs = true
        · simp only [hrp, ↓reduceIte]; exact mapMOpt_all_fix _ _ (hurl hrp)
        · simp only [hrp, Bool.false_eq_true, ↓reduceIte]
      simp only [hl, ↓reduceIte, hu, Option.map_some, hout]
    · have hl' : linkable el = false := by simpa using hl
      have hnh : isHrefElement el = false := by
        cases hh : isHrefElement el with
        | false => rfl
        | true =>
          exfalso
          unfold isHrefElement at hh
          unfold linkable at hl'
          simp only [Bool.or_eq_true] at hh
          simp only [Bool.or_eq_false_iff] at hl'
          rcases hh with ((h | h) | h) | h
          · rw [hl'.1.1.1.1.1.1.1.1.1.1.1.1.1.1.1.1] at h; cases h
          · rw [hl'.1.1.1.1.1.1.1.1.1.1.1.1.1.1.1.2] at h; cases h
          · rw [hl'.1.1.1.1.1.1.1.1.1.1.1.1.1.1.2] at h; cases h
          · rw [hl'.1.1.1.1.1.1.1.1.1.1.1.1.1.2] at h; cases h
      simp only [hnh, Bool.and_false, Bool.false_eq_true, ↓reduceIte] at hout
      have hE0 : E = [] := by
        have := congrArg List.length hout
        simp only [List.length_append] at this
        exact List.eq_nil_of_length_eq_zero (by omega)
      subst hE0
      simp [hl']

/-! ### the converse half of C04, on the regenerated UGCPolicy -/

set_option maxRecDepth 100000

/-- a start or self-closing tag written in the UGC vocabulary with valid values, carrying what UGCPolicy adds: its
    attribute list is `u ++ E`, where the regenerated rules accept every attribute of `u` for the element, the URL
    values in `u` are in the form the URL check returns, and `E` is exactly what UGCPolicy's link hardening appends to
    `u` (nothing, or `rel="nofollow"` where the rules do not let rel through: `a`, `link`; on `area`, where they do,
    the rel attribute with the token is part of `u` and `E` is empty) -/
def UgcTag (t : Token) : Prop :=
  isScriptOrStyle t.data = false ∧
  ∃ aps u E, t.attrs = u ++ E ∧ Gen.ugcPolicy.attrRulesFor t.data = some aps ∧
    (∀ a ∈ u, (Gen.ugcPolicy.filterAttr t.data aps false a).isSome = true) ∧
    (∀ a ∈ E, (Gen.ugcPolicy.filterAttr t.data aps false a).isSome = false) ∧
    (∀ a ∈ u, Gen.ugcPolicy.urlPassAttr t.data a = some (some a)) ∧
    (if (decide (u.length > 0) && isHrefElement t.data) = true then Gen.ugcPolicy.hardenLinks t.data u else u) = u ++ E ∧
    (t.attrs ≠ [] ∨ Gen.ugcPolicy.allowNoAttrs t.data = true)

/-- a token of a document "written entirely in that vocabulary with valid values" -/
def UgcDocToken (t : Token) : Prop :=
  SegOK t ∧
  match t.tt with
  | .text => True
  | .start => UgcTag t
  | .selfClosing => UgcTag t
  | .end_ => isScriptOrStyle t.data = false ∧
      (Gen.ugcPolicy.explicitEl t.data = true ∨ Gen.ugcPolicy.patternEl t.data = true)
  | .comment => False
  | .doctype => False

theorem ugc_noStyle (el : Bytes) : Gen.ugcPolicy.hasStylePolicies el = false := by
  have h1 : Gen.ugcPolicy.globalStyles = [] := by decide
  have h2 : Gen.ugcPolicy.elsAndStyles = [] := by decide
  have h3 : Gen.ugcPolicy.elsMatchingAndStyles = [] := by decide
  simp [Policy.hasStylePolicies, h1, h2, h3, Map.get?]

theorem ugc_conform (t : Token) (h : UgcDocToken t) : Conform Gen.ugcPolicy t := by
  obtain ⟨hseg, hrest⟩ := h
  have hreq : Gen.ugcPolicy.requireCrossOriginAnonymous = false := by decide
  have hsb : Gen.ugcPolicy.requireSandboxOnIFrame = none := by decide
  have tag : (t.tt = .start ∨ t.tt = .selfClosing) → UgcTag t → Conform Gen.ugcPolicy t := by
    intro htt ⟨hss, aps, u, E, hattrs, haps, hacc, hE, hurl, hout, hbare⟩
    have hfix : Gen.ugcPolicy.cleanAttrs t aps = some t.attrs := by
      unfold Policy.cleanAttrs
      split
      · rfl
      · rw [hattrs]
        refine sanitizeAttrs_fixed_appended Gen.ugcPolicy t.data (ugc_noStyle _) hreq hsb u E aps hacc hE (fun _ => hurl) ?_
        obtain ⟨f1, _, _, _⟩ := ugc_flags
        simpa [f1] using hout
    refine ⟨hseg, ?_⟩
    rcases htt with h | h <;> simp only [h] <;> exact ⟨hss, aps, haps, hfix, hbare⟩
  cases htt : t.tt with
  | text => exact ⟨hseg, by simp only [htt]⟩
  | start => rw [htt] at hrest; exact tag (.inl htt) hrest
  | selfClosing => rw [htt] at hrest; exact tag (.inr htt) hrest
  | end_ => rw [htt] at hrest; exact ⟨hseg, by simp only [htt]; exact hrest⟩
  | comment => rw [htt] at hrest; exact hrest.elim
  | doctype => rw [htt] at hrest; exact hrest.elim

/-- **C04, the converse half**: a document written entirely in the UGC vocabulary with valid values — every tag an
    element UGCPolicy allows, every attribute accepted by its rules for that element, every URL in the form the
    URL check returns, followed by the `rel="nofollow"` that UGCPolicy appends to a link (`UgcTag`) — in canonical
    serialisation is returned by UGCPolicy byte for byte.  (For a document without the `rel="nofollow"`, the first
    pass adds it — C11 — and the result is a document of this kind: `C20_ugc`.) -/
theorem C04_ugc_conforming_unchanged (toks : List Token) (h : ∀ t ∈ toks, UgcDocToken t) :
    Gen.ugcPolicy.sanitizeCore (renderAll toks) = renderAll toks := by
  apply C07_bytes Gen.ugcPolicy toks
  intro t ht
  rw [ugc_init]
  exact ugc_conform t (h t ht)


/-- the hypotheses are met by a link: `<a href="http://x.com/" rel="nofollow">` is `u ++ E` with `u` the href the
    rules accept and `E` the rel attribute UGCPolicy appends (and does not accept from the input) -/
example : UgcDocToken ⟨.start, b!"a", [⟨b!"href", b!"http://x.com/"⟩, ⟨b!"rel", b!"nofollow"⟩]⟩ := by
  refine ⟨?_, ?_⟩
  · unfold SegOK
    simp only
    refine ⟨⟨97, [], rfl, by decide, by simp⟩, by decide, ?_⟩
    intro a ha
    simp only [List.mem_cons, List.not_mem_nil, or_false] at ha
    rcases ha with rfl | rfl
    · exact ⟨104, b!"ref", rfl, by decide, by decide⟩
    · exact ⟨114, b!"el", rfl, by decide, by decide⟩
  show UgcTag _
  refine ⟨by decide, (Gen.ugcPolicy.elsAndAttrs.get? b!"a").getD [], [⟨b!"href", b!"http://x.com/"⟩],
    [⟨b!"rel", b!"nofollow"⟩], rfl, rfl, ?_, ?_, ?_, by decide, .inl (by decide)⟩
  · intro a ha; simp at ha; subst ha; decide
  · intro a ha; simp at ha; subst ha; decide
  · intro a ha; simp at ha; subst ha; decide

/-- a document of this kind, and one without the rel (tests, not the unbounded claim) -/
example :
    Gen.ugcPolicy.sanitizeCore b!"<p>x <a href=\"http://x.com/\" rel=\"nofollow\">t</a> <img src=\"/i.png\" alt=\"i\"></p>" =
      b!"<p>x <a href=\"http://x.com/\" rel=\"nofollow\">t</a> <img src=\"/i.png\" alt=\"i\"></p>" ∧
    Gen.ugcPolicy.sanitizeCore b!"<a href=\"http://x.com/\">t</a>" = b!"<a href=\"http://x.com/\" rel=\"nofollow\">t</a>" := by
  decide

end BM.Props
