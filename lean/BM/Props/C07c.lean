import BM.Props.C20f
import BM.Props.C07b
/-
  C07 with link options: "returned byte for byte, except for attributes the policy instructs the sanitiser to add
  or rewrite" — so a document that already carries what the policy would add is returned byte for byte.  For a
  policy with link options (no styles, forced crossorigin / sandbox, rewriter): a tag whose attributes the rules
  accept, whose URL values are already in the form `validURL` returns, and whose attribute list the hardening block
  leaves alone (`Hardened`: the rel tokens and the target it would add are there) is a fixed point of
  `sanitizeAttrs` (`sanitizeAttrs_fixed`), hence conforming (`conform_of_hardened`), hence — `C07_bytes` — a
  document of such tags is returned unchanged.  Instantiated on UGCPolicy it is the converse half of C04:
  a document in the UGC vocabulary that carries `rel="nofollow"` on its links passes through unchanged
  (`C04_ugc_conforming_unchanged`).
-/
namespace BM.Props
open BM BM.Html BM.Spec

/-- accepted by the rules, URL values in normal form, nothing for the hardening block to do ⇒ fixed point -/
theorem sanitizeAttrs_fixed (p : Policy) (el : Bytes) (h1 : p.hasStylePolicies el = false)
    (h2 : p.requireCrossOriginAnonymous = false) (h3 : p.requireSandboxOnIFrame = none)
    (attrs : List Attr) (aps : AttrRules)
    (hacc : ∀ a ∈ attrs, (p.filterAttr el aps false a).isSome = true)
    (hurl : p.requireParseableURLs = true → ∀ a ∈ attrs, p.urlPassAttr el a = some (some a))
    (hhard : p.hardenLinks el attrs = attrs) :
    p.sanitizeAttrs el attrs aps = some attrs := by
  rw [link_sanitizeAttrs3 p el h1 h2 h3]
  simp only
  have hf : attrs.filter (fun a => (p.filterAttr el aps false a).isSome) = attrs := List.filter_eq_self.mpr hacc
  rw [hf]
  split
  · rfl
  · unfold Policy.linkPasses
    split
    · have hu : (if p.requireParseableURLs = true then mapMOpt (p.urlPassAttr el) attrs else some attrs) = some attrs := by
        by_cases hrp : p.requireParseableURLs = true
        · simp only [hrp, ↓reduceIte]; exact mapMOpt_all_fix _ _ (hurl hrp)
        · simp only [hrp, Bool.false_eq_true, ↓reduceIte]
      simp only [hu, Option.map_some, hhard, ite_self]
    · rfl

/-- the hardening block leaves a list without href alone, and a hardened list alone -/
theorem hardenLinks_fixed (p : Policy) (el : Bytes) (attrs : List Attr)
    (h : (attrs.filter (·.key == b!"href")).isEmpty = false →
      Hardened (el == b!"a") (p.requireNoFollow || (extOf attrs && p.requireNoFollowFullyQualifiedLinks))
        (p.requireNoReferrer || (extOf attrs && p.requireNoReferrerFullyQualifiedLinks))
        (extOf attrs && p.addTargetBlankToFullyQualifiedLinks) attrs) :
    p.hardenLinks el attrs = attrs := by
  rw [hardenLinks_ext]
  split
  · rfl
  · rename_i he
    exact hardenCore_fixed _ _ _ _ attrs (h (by simpa using he))

/-- such a tag is conforming in the sense of `C07_bytes` -/
theorem conform_of_hardened (p : Policy) (t : Token) (hseg : SegOK t) (htt : t.tt = .start ∨ t.tt = .selfClosing)
    (hss : isScriptOrStyle t.data = false) (h1 : p.hasStylePolicies t.data = false)
    (h2 : p.requireCrossOriginAnonymous = false) (h3 : p.requireSandboxOnIFrame = none) (aps : AttrRules)
    (haps : p.attrRulesFor t.data = some aps)
    (hacc : ∀ a ∈ t.attrs, (p.filterAttr t.data aps false a).isSome = true)
    (hurl : p.requireParseableURLs = true → ∀ a ∈ t.attrs, p.urlPassAttr t.data a = some (some a))
    (hhard : p.hardenLinks t.data t.attrs = t.attrs)
    (hbare : t.attrs ≠ [] ∨ p.allowNoAttrs t.data = true) : Conform p t := by
  have hfix : p.cleanAttrs t aps = some t.attrs := by
    unfold Policy.cleanAttrs
    split
    · rfl
    · exact sanitizeAttrs_fixed p t.data h1 h2 h3 t.attrs aps hacc hurl hhard
  refine ⟨hseg, ?_⟩
  rcases htt with h | h <;> simp only [h] <;> exact ⟨hss, aps, haps, hfix, hbare⟩

/-! ### the converse half of C04, on the regenerated UGCPolicy -/

set_option maxRecDepth 100000

/-- a start or self-closing tag written in the UGC vocabulary with valid values, carrying what UGCPolicy adds -/
def UgcTag (t : Token) : Prop :=
  isScriptOrStyle t.data = false ∧
  ∃ aps, Gen.ugcPolicy.attrRulesFor t.data = some aps ∧
    (∀ a ∈ t.attrs, (Gen.ugcPolicy.filterAttr t.data aps false a).isSome = true) ∧
    (∀ a ∈ t.attrs, Gen.ugcPolicy.urlPassAttr t.data a = some (some a)) ∧
    (hasKey t.attrs b!"href" = true → HasRel t.attrs ∧ AllRel b!"nofollow" t.attrs) ∧
    hasKey t.attrs b!"target" = false ∧
    (t.attrs ≠ [] ∨ Gen.ugcPolicy.allowNoAttrs t.data = true)

/-- a token of a document "written entirely in that vocabulary with valid values" -/
def UgcDocToken (t : Token) : Prop :=
  SegOK t ∧
  match t.tt with
  | .text => True
  | .start => UgcTag t
  | .selfClosing => UgcTag t
  | .end_ => isScriptOrStyle t.data = false ∧
      (Gen.ugcPolicy.explicitEl t.data = true ∨ Gen.ugcPolicy.patternEl t.data = true)
  | .comment => False
  | .doctype => False

theorem ugc_noStyle (el : Bytes) : Gen.ugcPolicy.hasStylePolicies el = false := by
  have h1 : Gen.ugcPolicy.globalStyles = [] := by decide
  have h2 : Gen.ugcPolicy.elsAndStyles = [] := by decide
  have h3 : Gen.ugcPolicy.elsMatchingAndStyles = [] := by decide
  simp [Policy.hasStylePolicies, h1, h2, h3, Map.get?]

theorem ugc_hardened (el : Bytes) (attrs : List Attr)
    (hrel : hasKey attrs b!"href" = true → HasRel attrs ∧ AllRel b!"nofollow" attrs)
    (hnt : hasKey attrs b!"target" = false) : Gen.ugcPolicy.hardenLinks el attrs = attrs := by
  apply hardenLinks_fixed
  intro hne
  obtain ⟨f1, f2, f3, f4⟩ := ugc_flags
  have hhref : hasKey attrs b!"href" = true := by
    unfold hasKey
    cases hf : attrs.filter (·.key == b!"href") with
    | nil => rw [hf] at hne; cases hne
    | cons a _ =>
      have : a ∈ attrs.filter (·.key == b!"href") := by rw [hf]; simp
      obtain ⟨ha, hk⟩ := List.mem_filter.mp this
      exact List.any_eq_true.mpr ⟨a, ha, hk⟩
  simp only [f1, f2, f3, f4, Bool.true_or, Bool.and_false, Bool.or_false]
  refine ⟨fun _ => hrel hhref, fun h => Bool.noConfusion h, fun h => ?_, ?_⟩
  · simp only [Bool.and_false] at h; exact Bool.noConfusion h
  · intro hprem
    exfalso
    simp only [Bool.and_false, Bool.or_false, Bool.false_and, anyBlank_le attrs hnt] at hprem
    exact Bool.noConfusion hprem

theorem ugc_conform (t : Token) (h : UgcDocToken t) : Conform Gen.ugcPolicy t := by
  obtain ⟨hseg, hrest⟩ := h
  have hreq : Gen.ugcPolicy.requireCrossOriginAnonymous = false := by decide
  have hsb : Gen.ugcPolicy.requireSandboxOnIFrame = none := by decide
  have tag : (t.tt = .start ∨ t.tt = .selfClosing) → UgcTag t → Conform Gen.ugcPolicy t := by
    intro htt ⟨hss, aps, haps, hacc, hurl, hrel, hnt, hbare⟩
    exact conform_of_hardened Gen.ugcPolicy t hseg htt hss (ugc_noStyle _) hreq hsb aps haps hacc (fun _ => hurl)
      (ugc_hardened t.data t.attrs hrel hnt) hbare
  cases htt : t.tt with
  | text => exact ⟨hseg, by simp only [htt]⟩
  | start => rw [htt] at hrest; exact tag (.inl htt) hrest
  | selfClosing => rw [htt] at hrest; exact tag (.inr htt) hrest
  | end_ => rw [htt] at hrest; exact ⟨hseg, by simp only [htt]; exact hrest⟩
  | comment => rw [htt] at hrest; exact hrest.elim
  | doctype => rw [htt] at hrest; exact hrest.elim

/-- **C04, the converse half**: a document written entirely in the UGC vocabulary with valid values — every tag an
    element UGCPolicy allows, every attribute accepted by its rules for that element, every URL in the form the
    URL check returns, `rel` with `nofollow` on every tag that has an href, no `target` — in canonical
    serialisation is returned by UGCPolicy byte for byte.  (For a document without the `rel="nofollow"`, the first
    pass adds it — C11 — and the result is a document of this kind: `C20_ugc`.) -/
theorem C04_ugc_conforming_unchanged (toks : List Token) (h : ∀ t ∈ toks, UgcDocToken t) :
    Gen.ugcPolicy.sanitizeCore (renderAll toks) = renderAll toks := by
  apply C07_bytes Gen.ugcPolicy toks
  intro t ht
  rw [ugc_init]
  exact ugc_conform t (h t ht)

/-- a document of this kind, and one without the rel (tests, not the unbounded claim) -/
example :
    Gen.ugcPolicy.sanitizeCore b!"<p>x <a href=\"http://x.com/\" rel=\"nofollow\">t</a> <img src=\"/i.png\" alt=\"i\"></p>" =
      b!"<p>x <a href=\"http://x.com/\" rel=\"nofollow\">t</a> <img src=\"/i.png\" alt=\"i\"></p>" ∧
    Gen.ugcPolicy.sanitizeCore b!"<a href=\"http://x.com/\">t</a>" = b!"<a href=\"http://x.com/\" rel=\"nofollow\">t</a>" := by
  decide

end BM.Props
