import BM.Props.C18
import BM.Proofs.CssAbs
import BM.Proofs.ViewTables
/-
  C18, the composition of the leaves by the handler bodies.  `Proofs/CssAbs` proves a static analysis
  of Go-lite handler bodies sound against the interpreter; here it is run — by the kernel — on the
  handler table regenerated from css/handlers.go, with the regexps whose alphabet closure is
  proved in Props/C18 as clean leaves.  Result: for every property whose handler the analysis
  accepts (199 of the 213 table entries, 158 of the 169 handler functions) and **every value**,
  the default handler accepts the value only if it contains no backslash, angle bracket, at-sign,
  semicolon or brace (`C18_handlers_clean`).  The handlers it does not accept are pinned by name
  (`css_unanalysed`), so a change that makes another handler opaque to the analysis — or adds a
  handler — breaks an obligation instead of silently shrinking the claim.
-/
namespace BM.Props
open BM BM.Golite

/-- the regexps of css/handlers.go that are whole-value recognisers over an alphabet without
    hostile bytes (decided on the regenerated syntax trees) -/
def cssCleanRes : List String :=
  (Gen.cssRegexes.map (·.1)).filter fun r =>
    match cssCtx.regex? r with
    | some re => Re.anchoredBoth re && Re.within (some inertQ) re
    | none => false

/-- the regexps, anchored or not, that consume nothing but characters of that alphabet: the ones used
    with `FindString` and `ReplaceAll` are among them -/
def cssInertRes : List String :=
  (Gen.cssRegexes.map (·.1)).filter fun r =>
    match cssCtx.regex? r with
    | some re => Re.within (some inertQ) re
    | none => false

/-- package-level values: `colorValues` is a list of clean strings -/
def cssGlobals : AEnv := fun n => if n == "colorValues" then .cleanL else .other

def cssStep (fns : List String) : List String :=
  fns.filter fun f =>
    match cssCtx.func? f with
    | some fn => acheck { closedFns := fns, closedRes := cssCleanRes, inertRes := cssInertRes } 64 false false false false
        (cssGlobals.set fn.param (.covS .param)) [] fn.body
    | none => false

def cssIter : Nat → List String → List String
  | 0, l => l
  | n + 1, l => let l' := cssStep l; if l'.length == l.length then l else cssIter n l'

/-- the handlers the analysis accepts: the greatest set of handler functions each of which passes
    the analysis when calls to the others in the set count as clean -/
def cssClosed : List String := cssIter 8 (Gen.cssFuncs.map (·.name))

def cssA : ACtx := { closedFns := cssClosed, closedRes := cssCleanRes, inertRes := cssInertRes }

set_option maxRecDepth 1000000 in
/-- every accepted handler is defined and its body passes the analysis (run by the kernel on the
    regenerated bodies) -/
theorem css_bodies_ok : cssA.bodiesOK cssCtx cssGlobals 64 = true := by decide

set_option maxRecDepth 1000000 in
/-- the handler functions the analysis does not accept, by name -/
theorem css_unanalysed :
    (Gen.cssFuncs.map (·.name)).filter (fun f => !cssClosed.contains f) =
      [] := by decide

/-- the hostile bytes are outside the alphabet of the clean regexps -/
theorem inertQ_excludes : ∀ c ∈ [92, 60, 62, 64, 59, 123, 125], Re.inRanges c inertQ = false := by decide

theorem inertQ_inert : InertAlphabet inertQ := by
  intro b hb
  rcases hostile_cases hb with h | h | h | h | h | h | h <;> subst h
  · exact inertQ_excludes 92 (by simp)
  · exact inertQ_excludes 60 (by simp)
  · exact inertQ_excludes 62 (by simp)
  · exact inertQ_excludes 64 (by simp)
  · exact inertQ_excludes 59 (by simp)
  · exact inertQ_excludes 123 (by simp)
  · exact inertQ_excludes 125 (by simp)

theorem cssInertRes_within (r : String) (hr : r ∈ cssInertRes) (re : Re) (hre : cssCtx.regex? r = some re) :
    Re.within (some inertQ) re = true := by
  unfold cssInertRes at hr
  rw [List.mem_filter] at hr
  have hcond := hr.2
  rw [hre] at hcond
  exact hcond

theorem css_soundCtx : SoundCtx cssA cssCtx := by
  refine ⟨rfl, ?_, ?_, ?_⟩
  · intro r hr re hre s hm
    have hr' : r ∈ cssCleanRes := hr
    unfold cssCleanRes at hr'
    rw [List.mem_filter] at hr'
    have hcond := hr'.2
    rw [hre] at hcond
    simp only [Bool.and_eq_true] at hcond
    exact clean_of_match re inertQ (closedCss_of re inertQ hcond.1 hcond.2) inertQ_excludes s hm
  · intro r hr re hre s hcl
    exact clean_of_deleteAll inertQ inertQ_inert re (cssInertRes_within r hr re hre) s hcl
  · intro r hr re hre s
    exact clean_findString inertQ inertQ_inert re (cssInertRes_within r hr re hre) s

set_option maxRecDepth 1000000 in
theorem colorValues_clean : (Gen.colorValues.all cleanB) = true := by decide

theorem css_globals_rel (tv : Targets) : Rel cssA tv cssGlobals cssCtx.globals := by
  intro n val hn
  simp only [cssCtx, Env.get?] at hn
  unfold cssGlobals
  split at hn
  · rename_i hk
    have hk' : "colorValues" = n := by simpa using hk
    have : n = "colorValues" := hk'.symm
    subst this
    simp only [Option.some.injEq] at hn
    subst hn
    simp only [beq_self_eq_true, ↓reduceIte]
    refine ⟨Gen.colorValues, rfl, ?_⟩
    intro s hs
    exact (cleanB_iff s).mp (List.all_eq_true.mp colorValues_clean s hs)
  · cases hn

/-- **C18, the handler bodies**: every handler function the analysis accepts returns true only on
    values without backslash, angle bracket, at-sign, semicolon or brace — for every value, whatever the fuel -/
theorem C18_handler_functions_clean (f : String) (hf : f ∈ cssA.closedFns) (k : Nat) (v : Bytes)
    (h : callFn cssCtx k f v = some true) : Clean v := by
  have hall := handlers_sound cssA cssCtx css_soundCtx cssGlobals css_globals_rel 64 css_bodies_ok k
  exact hall f hf k (Nat.le_refl _) v h

/-- **C18, the table**: for every property of the default table whose handler is accepted — all but
    of them (`css_table_unanalysed` pins the exceptions: none) — and every value, `css.GetDefaultHandler(prop)(value)`
    is true only if the value holds no backslash (so no CSS escape), no `<` or `>`, no `@`, and no `;`, `{`
    or `}` (so it cannot end the declaration or the block it is written into) -/
theorem C18_handlers_clean (prop v : Bytes) (fn : String)
    (htab : Gen.defaultStyleHandlers.find? (·.1 == prop) = some (prop, fn)) (hfn : fn ∈ cssA.closedFns)
    (h : defaultHandler prop v = true) : Clean v := by
  unfold defaultHandler at h
  rw [htab] at h
  simp only at h
  unfold Golite.run at h
  cases hc : callFn cssCtx (fuelFor v) fn v with
  | none => rw [hc] at h; simp at h
  | some b =>
    rw [hc] at h
    simp only [Option.getD_some] at h
    subst h
    exact C18_handler_functions_clean fn hfn _ v hc

set_option maxRecDepth 1000000 in
/-- the properties of the table whose handler the analysis does not accept -/
theorem css_table_unanalysed :
    (Gen.defaultStyleHandlers.filter fun e => !cssA.closedFns.contains e.2).map (·.1) =
      [] := by decide

set_option maxRecDepth 1000000 in
/-- non-vacuity: `color` is in the table, its handler is accepted, and it accepts something -/
example : Gen.defaultStyleHandlers.find? (·.1 == b!"color") = some (b!"color", "ColorHandler") ∧
    "ColorHandler" ∈ cssA.closedFns ∧ defaultHandler b!"color" b!"red" = true ∧ defaultHandler b!"color" b!"r\\65 d" = false := by
  refine ⟨by decide, by decide, by decide, by decide⟩

/-! ### through the policy -/

/-- a style matcher that accepts clean values only -/
def CleanOnly (sp : StylePolicy) : Prop := ∀ v, okS sp v = true → Clean v

/-- the properties whose default handler the analysis does not vouch for -/
def cssUnanalysedProps : List Bytes :=
  (Gen.defaultStyleHandlers.filter fun e => !cssA.closedFns.contains e.2).map (·.1)

/-- **the matcher `AllowStyles(prop)` installs when it is given none** — the default handler of
    `prop`, or the reject-everything handler for a property outside the table — accepts clean values
    only, for every property outside `cssUnanalysedProps` (which is empty: `C18_every_default_handler_clean`) -/
theorem default_matcher_cleanOnly (prop : Bytes) (hprop : prop ∉ cssUnanalysedProps) :
    CleanOnly (mkStylePolicy defaultHandler {} prop) := by
  intro v hv
  have hsp : mkStylePolicy defaultHandler {} prop = { handler := some (defaultHandler prop) } := rfl
  rw [hsp] at hv
  simp only [okS] at hv
  cases hfind : Gen.defaultStyleHandlers.find? (·.1 == prop) with
  | none => simp [defaultHandler, hfind] at hv
  | some e =>
    obtain ⟨prop', fn⟩ := e
    have hmem := List.mem_of_find?_eq_some hfind
    have hkey : prop' = prop := by
      have := List.find?_some hfind
      simpa using this
    subst hkey
    have hfn : fn ∈ cssA.closedFns := by
      rcases hc : cssA.closedFns.contains fn with _ | _
      · exfalso
        apply hprop
        unfold cssUnanalysedProps
        exact List.mem_map.mpr ⟨(prop', fn), List.mem_filter.mpr ⟨hmem, by show (!cssA.closedFns.contains fn) = true; rw [hc]; rfl⟩, rfl⟩
      · exact List.contains_iff_mem.mp hc
    exact C18_handlers_clean prop' v fn hfind hfn hv

theorem cssUnanalysedProps_nil : cssUnanalysedProps = [] := css_table_unanalysed

/-- **C18, every default handler, every value**: `css.GetDefaultHandler(prop)(value)` — for each of the
    213 properties of the table and for every name outside it — is true only if the value holds no
    backslash (so no CSS escape), no `<` or `>`, no `@`, and no `;`, `{` or `}` -/
theorem C18_every_default_handler_clean (prop v : Bytes) (h : defaultHandler prop v = true) : Clean v := by
  have := default_matcher_cleanOnly prop (by rw [cssUnanalysedProps_nil]; simp) v
  apply this
  show okS (mkStylePolicy defaultHandler {} prop) v = true
  have hsp : mkStylePolicy defaultHandler {} prop = { handler := some (defaultHandler prop) } := rfl
  rw [hsp]
  simpa [okS] using h

/-- the matcher `AllowStyles(prop)` installs when it is given none accepts clean values only — every property -/
theorem default_matcher_cleanOnly_all (prop : Bytes) : CleanOnly (mkStylePolicy defaultHandler {} prop) :=
  default_matcher_cleanOnly prop (by rw [cssUnanalysedProps_nil]; simp)

/-- **C10 + C18 through `sanitizeStyles`**: if every style rule that applies to element `el` — its own
    or the merged pattern rules, and the global ones — accepts clean values only (as the default
    matchers do), then every declaration that `sanitizeStyles` keeps has a value that, lower-cased and
    with its escapes decoded, contains no backslash, angle bracket, at-sign, semicolon or brace -/
theorem C18_kept_declarations_clean (p : Policy) (el : Bytes)
    (hE : ∀ prop sp, sp ∈ rulesOf (p.styleRulesFor el) prop → CleanOnly sp)
    (hG : ∀ prop sp, sp ∈ p.globalStyleRules prop → CleanOnly sp)
    (dec : Css.Decl) (h : p.declAccepted (p.styleRulesFor el) dec = true) :
    ∃ tv, removeUnicode (toLowerGo dec.value) = some tv ∧ Clean tv := by
  obtain ⟨tv, htv, hacc⟩ := (declAccepted_iff p (p.styleRulesFor el) dec).mp h
  refine ⟨tv, htv, ?_⟩
  rcases hacc with ⟨sp, hsp, hok⟩ | ⟨sp, hsp, hok⟩
  · exact hE _ sp hsp tv hok
  · exact hG _ sp hsp tv hok

end BM.Props
