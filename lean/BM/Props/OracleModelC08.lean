import BM.Props.C08
import BM.Spec.More
/-
  `oracleC08` on the model (see Props/OracleModelC09 for why this is stated): in the class of `C08_bytesC_on` —
  no AllowUnsafe, no allowed raw-text tag in the input, no script/style tag in the input — the oracle holds
  of what the model returns, so a case on which implementation and model agree cannot raise a C08 alarm there.
  (Inputs with script/style tags are C05's; the oracle covers them, the byte-level theorem does not.)
-/
namespace BM.Props
open BM BM.Html BM.Spec

theorem oracleC08_model (p : Policy) (input : Bytes) (hp : PlainOn p.ensureInit (tokenize input))
    (hnos : ∀ t ∈ tokenize input, isTag t = true → isScriptOrStyle t.data = false) :
    oracleC08 p.ensureInit input (p.sanitizeCore input) = true := by
  unfold oracleC08
  cases hin : inClassC08 p.ensureInit input with
  | false => rfl
  | true =>
    unfold inClassC08 at hin
    simp only [Bool.and_eq_true, Bool.not_eq_true'] at hin
    obtain ⟨⟨⟨⟨⟨_, hs⟩, hwn⟩, _⟩, _⟩, _⟩ := hin
    simp only [Bool.not_true, Bool.false_or, beq_iff_eq]
    exact C08_bytesC_on p hs input hp hwn hnos

end BM.Props
