import BM.Props.C07
import BM.Props.C07b
import BM.Props.C07c
import BM.Props.SrcPin.C07
/- Top module of property C07: its theorems (BM.Props.C07) and the statement of which units of /repo's
   source its model and proofs were written against (BM/Props/SrcPin/C07.lean, re-checked against the
   regenerated fingerprints on every run).  Only `./check C07` builds this module, so a change to a
   unit breaks the obligations of the properties that depend on it and of no other. -/
