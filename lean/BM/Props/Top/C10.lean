import BM.Props.C10b
import BM.Props.C10c
import BM.Props.SrcPin.C10
/- Top module of property C10: its theorems (BM.Props.C10b) and the statement of which units of /repo's
   source its model and proofs were written against (BM/Props/SrcPin/C10.lean, re-checked against the
   regenerated fingerprints on every run).  Only `./check C10` builds this module, so a change to a
   unit breaks the obligations of the properties that depend on it and of no other. -/
