import BM.Props.C17b
import BM.Props.SrcPin.C17
/- Top module of property C17: its theorems (BM.Props.C17b) and the statement of which units of /repo's
   source its model and proofs were written against (BM/Props/SrcPin/C17.lean, re-checked against the
   regenerated fingerprints on every run).  Only `./check C17` builds this module, so a change to a
   unit breaks the obligations of the properties that depend on it and of no other. -/
