import BM.Props.C01
import BM.Props.C01c
import BM.Props.SrcPin.C01
import BM.Props.OracleModelC01
/- Top module of property C01: its theorems (BM.Props.C01) and the statement of which units of /repo's
   source its model and proofs were written against (BM/Props/SrcPin/C01.lean, re-checked against the
   regenerated fingerprints on every run).  Only `./check C01` builds this module, so a change to a
   unit breaks the obligations of the properties that depend on it and of no other. -/
