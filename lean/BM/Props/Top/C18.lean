import BM.Props.C18c
import BM.Props.SrcPin.C18
/- Top module of property C18: its theorems (BM.Props.C18) and the statement of which units of /repo's
   source its model and proofs were written against (BM/Props/SrcPin/C18.lean, re-checked against the
   regenerated fingerprints on every run).  Only `./check C18` builds this module, so a change to a
   unit breaks the obligations of the properties that depend on it and of no other. -/
