import BM.Props.C03c
import BM.Props.SrcPin.C03
/- Top module of property C03: its theorems (BM.Props.C03) and the statement of which units of /repo's
   source its model and proofs were written against (BM/Props/SrcPin/C03.lean, re-checked against the
   regenerated fingerprints on every run).  Only `./check C03` builds this module, so a change to a
   unit breaks the obligations of the properties that depend on it and of no other. -/
