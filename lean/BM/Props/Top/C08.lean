import BM.Props.C08
import BM.Props.OracleModelC08
import BM.Props.SrcPin.C08
/- Top module of property C08: its theorems (BM.Props.C08) and the statement of which units of /repo's
   source its model and proofs were written against (BM/Props/SrcPin/C08.lean, re-checked against the
   regenerated fingerprints on every run).  Only `./check C08` builds this module, so a change to a
   unit breaks the obligations of the properties that depend on it and of no other. -/
