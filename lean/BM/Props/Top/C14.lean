import BM.Props.C14
import BM.Props.SrcPin.C14
/- Top module of property C14: its theorems (BM.Props.C14) and the statement of which units of /repo's
   source its model and proofs were written against (BM/Props/SrcPin/C14.lean, re-checked against the
   regenerated fingerprints on every run).  Only `./check C14` builds this module, so a change to a
   unit breaks the obligations of the properties that depend on it and of no other. -/
