import BM.Props.C02
import BM.Props.C02c
import BM.Props.SrcPin.C02
/- Top module of property C02: its theorems (BM.Props.C02) and the statement of which units of /repo's
   source its model and proofs were written against (BM/Props/SrcPin/C02.lean, re-checked against the
   regenerated fingerprints on every run).  Only `./check C02` builds this module, so a change to a
   unit breaks the obligations of the properties that depend on it and of no other. -/
