import BM.Props.C04ugc
import BM.Props.C07c
import BM.Props.SrcPin.C04
import BM.Props.OracleModelC04
/- Top module of property C04: its theorems (BM.Props.C04ugc) and the statement of which units of /repo's
   source its model and proofs were written against (BM/Props/SrcPin/C04.lean, re-checked against the
   regenerated fingerprints on every run).  Only `./check C04` builds this module, so a change to a
   unit breaks the obligations of the properties that depend on it and of no other. -/
