import BM.Props.C09
import BM.Props.SrcPin.C09
import BM.Props.OracleModelC09
/- Top module of property C09: its theorems (BM.Props.C09) and the statement of which units of /repo's
   source its model and proofs were written against (BM/Props/SrcPin/C09.lean, re-checked against the
   regenerated fingerprints on every run).  Only `./check C09` builds this module, so a change to a
   unit breaks the obligations of the properties that depend on it and of no other. -/
