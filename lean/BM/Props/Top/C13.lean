import BM.Props.C13b
import BM.Props.SrcPin.C13
/- Top module of property C13: its theorems (BM.Props.C13b) and the statement of which units of /repo's
   source its model and proofs were written against (BM/Props/SrcPin/C13.lean, re-checked against the
   regenerated fingerprints on every run).  Only `./check C13` builds this module, so a change to a
   unit breaks the obligations of the properties that depend on it and of no other. -/
