import BM.Props.C19
import BM.Props.C19c
import BM.Props.SrcPin.C19
/- Top module of property C19: its theorems (BM.Props.C19) and the statement of which units of /repo's
   source its model and proofs were written against (BM/Props/SrcPin/C19.lean, re-checked against the
   regenerated fingerprints on every run).  Only `./check C19` builds this module, so a change to a
   unit breaks the obligations of the properties that depend on it and of no other. -/
