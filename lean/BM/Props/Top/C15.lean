import BM.Props.C15
import BM.Props.SrcPin.C15
/- Top module of property C15: its theorems (BM.Props.C15) and the statement of which units of /repo's
   source its model and proofs were written against (BM/Props/SrcPin/C15.lean, re-checked against the
   regenerated fingerprints on every run).  Only `./check C15` builds this module, so a change to a
   unit breaks the obligations of the properties that depend on it and of no other. -/
