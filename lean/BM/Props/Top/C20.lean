import BM.Props.C20f
import BM.Props.SrcPin.C20
/- Top module of property C20: its theorems (BM.Props.C20) and the statement of which units of /repo's
   source its model and proofs were written against (BM/Props/SrcPin/C20.lean, re-checked against the
   regenerated fingerprints on every run).  Only `./check C20` builds this module, so a change to a
   unit breaks the obligations of the properties that depend on it and of no other. -/
