import BM.Props.C05
import BM.Props.SrcPin.C05
/- Top module of property C05: its theorems (BM.Props.C05) and the statement of which units of /repo's
   source its model and proofs were written against (BM/Props/SrcPin/C05.lean, re-checked against the
   regenerated fingerprints on every run).  Only `./check C05` builds this module, so a change to a
   unit breaks the obligations of the properties that depend on it and of no other. -/
