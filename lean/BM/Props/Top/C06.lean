import BM.Props.C06c
import BM.Props.SrcPin.C06
/- Top module of property C06: its theorems (BM.Props.C06) and the statement of which units of /repo's
   source its model and proofs were written against (BM/Props/SrcPin/C06.lean, re-checked against the
   regenerated fingerprints on every run).  Only `./check C06` builds this module, so a change to a
   unit breaks the obligations of the properties that depend on it and of no other. -/
