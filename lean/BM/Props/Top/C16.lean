import BM.Props.C16
import BM.Props.SrcPin.C16
/- Top module of property C16: its theorems (BM.Props.C16) and the statement of which units of /repo's
   source its model and proofs were written against (BM/Props/SrcPin/C16.lean, re-checked against the
   regenerated fingerprints on every run).  Only `./check C16` builds this module, so a change to a
   unit breaks the obligations of the properties that depend on it and of no other. -/
