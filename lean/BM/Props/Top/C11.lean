import BM.Props.C11b
import BM.Props.C20e
import BM.Props.SrcPin.C11
/- Top module of property C11: its theorems (BM.Props.C11b) and the statement of which units of /repo's
   source its model and proofs were written against (BM/Props/SrcPin/C11.lean, re-checked against the
   regenerated fingerprints on every run).  Only `./check C11` builds this module, so a change to a
   unit breaks the obligations of the properties that depend on it and of no other. -/
