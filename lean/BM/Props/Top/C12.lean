import BM.Props.C12
import BM.Props.OracleModelC12
import BM.Props.SrcPin.C12
/- Top module of property C12: its theorems (BM.Props.C12) and the statement of which units of /repo's
   source its model and proofs were written against (BM/Props/SrcPin/C12.lean, re-checked against the
   regenerated fingerprints on every run).  Only `./check C12` builds this module, so a change to a
   unit breaks the obligations of the properties that depend on it and of no other. -/
