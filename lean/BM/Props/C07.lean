import BM.Proofs.Step
import BM.Props.C02
/-
  C07: conforming content passes through unchanged (rules are additive).  Proved (token level,
  every policy): outside skipped content
  * a start or self-closing tag of an allowed element (not script/style) whose attribute list
    is a fixed point of `sanitizeAttrs` and which is non-bare or allowed bare is written back
    exactly as `Token.String` renders it;
  * the end tag of an allowed element is written back exactly; a text is written as its
    escaping; and none of these changes the skip state;
  * rules are additive: a value accepted by any one of several rules for the attribute is
    accepted (`accept_append`), and registering a further rule never removes acceptance.
  With the render/tokenize round trip (canonical documents re-tokenise to their own tokens)
  this gives byte-for-byte pass-through; the round trip is proved separately as far as it has
  got, and pass-through is checked on policy-derived conforming documents by `oracleC07`.
-/
namespace BM.Props
open BM BM.Html

theorem conforming_start_unchanged (p : Policy) (st : LoopState) (t : Token) (aps : AttrRules)
    (htt : t.tt = .start) (hss : isScriptOrStyle t.data = false)
    (haps : p.attrRulesFor t.data = some aps) (hfix : p.cleanAttrs t aps = some t.attrs)
    (hbare : t.attrs ≠ [] ∨ p.allowNoAttrs t.data = true) (hskip : st.skipElementContent = false) :
    ∃ st', p.step st t = some (st', [⟨t.render⟩]) ∧ st'.skipElementContent = false := by
  obtain ⟨tt, data, attrs⟩ := t
  simp only at htt hss haps hfix hbare
  subst htt
  have hb : (attrs.isEmpty && !p.allowNoAttrs data) = false := by
    rcases hbare with h | h
    · cases ha : attrs with
      | nil => exact absurd ha h
      | cons _ _ => simp
    · simp [h]
  refine ⟨markKept { st with mostRecentlyStartedToken := data } data, ?_, ?_⟩
  · simp only [Policy.step, Policy.stepStart, hss, Bool.false_and, Bool.false_eq_true, ↓reduceIte,
      haps, hfix, hb]
    have hs : (markKept { st with mostRecentlyStartedToken := data } data).skipElementContent = false := by
      unfold markKept; split <;> simpa using hskip
    simp [emitUnlessSkipping, hs]
  · unfold markKept; split <;> simpa using hskip

theorem allowed_end_unchanged (p : Policy) (st : LoopState) (t : Token)
    (htt : t.tt = .end_) (hss : isScriptOrStyle t.data = false)
    (hall : p.explicitEl t.data = true ∨ p.patternEl t.data = true)
    (hstack : st.skipClosingTag = false) (hskip : st.skipElementContent = false) :
    ∃ st', p.step st t = some (st', [⟨t.render⟩]) ∧ st'.skipElementContent = false ∧ st'.skipClosingTag = false := by
  have hcr : (clearRecent st t.data).skipClosingTag = false ∧ (clearRecent st t.data).skipElementContent = false := by
    unfold clearRecent; split <;> simp [hstack, hskip]
  have hpm : popMarker (clearRecent st t.data) t.data = clearRecent st t.data := by
    simp [popMarker, hcr.1]
  have hls : p.leaveSkip (clearRecent st t.data) t.data = clearRecent st t.data := by
    unfold Policy.leaveSkip; rcases hall with h | h <;> simp [h]
  refine ⟨clearRecent st t.data, ?_, hcr.2, hcr.1⟩
  have hnot : (!p.explicitEl t.data && !p.patternEl t.data) = false := by
    rcases hall with h | h <;> simp [h]
  simp [Policy.step, htt, Policy.stepEnd, hss, hcr.1, hcr.2, hpm, hls, hnot, emitUnlessSkipping]

/-- registering one more rule for an attribute never removes acceptance -/
theorem more_rules_accept_more (apl : List AttrPolicy) (ap : AttrPolicy) (v : Bytes)
    (h : attrPoliciesAccept apl v = true) : attrPoliciesAccept (apl ++ [ap]) v = true := by
  rw [accept_append]; simp [h]

/-- a value accepted by the newly added rule is accepted whatever was registered before -/
theorem new_rule_accepts (apl : List AttrPolicy) (r : Pat) (v : Bytes) (h : r.test v = true) :
    attrPoliciesAccept (apl ++ [some r]) v = true := by
  rw [accept_append]; simp [attrPoliciesAccept, h]

example :
    let digits : Pat := ⟨1, fun v => v.all isDigit && !v.isEmpty⟩
    let lower : Pat := ⟨2, fun v => v.all isLowerA && !v.isEmpty⟩
    let p : Policy := { initialized := true, elsAndAttrs := [(b!"b", [(b!"id", [some digits, some lower])]), (b!"i", [])],
                        setOfElementsAllowedWithoutAttrs := [b!"i"] }
    p.sanitizeCore b!"<b id=\"abc\">x &amp; y<i>z</i></b><b id=\"42\"></b>" =
      b!"<b id=\"abc\">x &amp; y<i>z</i></b><b id=\"42\"></b>" := by decide

end BM.Props
