import BM.Proofs.Step
import BM.Props.C02
import BM.Proofs.Bytes
/-
  C07: conforming content passes through unchanged (rules are additive).  Proved (token level,
  every policy): outside skipped content
  * a start or self-closing tag of an allowed element (not script/style) whose attribute list
    is a fixed point of `sanitizeAttrs` and which is non-bare or allowed bare is written back
    exactly as `Token.String` renders it;
  * the end tag of an allowed element is written back exactly; a text is written as its
    escaping; and none of these changes the skip state;
  * rules are additive: a value accepted by any one of several rules for the attribute is
    accepted (`accept_append`), and registering a further rule never removes acceptance.
  With the render/tokenize round trip (canonical documents re-tokenise to their own tokens)
  this gives byte-for-byte pass-through; the round trip is proved separately as far as it has
  got, and pass-through is checked on policy-derived conforming documents by `oracleC07`.
-/
namespace BM.Props
open BM BM.Html BM.Spec

theorem conforming_start_unchanged (p : Policy) (st : LoopState) (t : Token) (aps : AttrRules)
    (htt : t.tt = .start) (hss : isScriptOrStyle t.data = false)
    (haps : p.attrRulesFor t.data = some aps) (hfix : p.cleanAttrs t aps = some t.attrs)
    (hbare : t.attrs ≠ [] ∨ p.allowNoAttrs t.data = true) (hskip : st.skipElementContent = false) :
    ∃ st', p.step st t = some (st', [⟨t.render⟩]) ∧ st'.skipElementContent = false := by
  obtain ⟨tt, data, attrs⟩ := t
  simp only at htt hss haps hfix hbare
  subst htt
  have hb : (attrs.isEmpty && !p.allowNoAttrs data) = false := by
    rcases hbare with h | h
    · cases ha : attrs with
      | nil => exact absurd ha h
      | cons _ _ => simp
    · simp [h]
  refine ⟨markKept { st with mostRecentlyStartedToken := data } data, ?_, ?_⟩
  · simp only [Policy.step, Policy.stepStart, hss, Bool.false_and, Bool.false_eq_true, ↓reduceIte,
      haps, hfix, hb]
    have hs : (markKept { st with mostRecentlyStartedToken := data } data).skipElementContent = false := by
      unfold markKept; split <;> simpa using hskip
    simp [emitUnlessSkipping, hs]
  · unfold markKept; split <;> simpa using hskip

theorem allowed_end_unchanged (p : Policy) (st : LoopState) (t : Token)
    (htt : t.tt = .end_) (hss : isScriptOrStyle t.data = false)
    (hall : p.explicitEl t.data = true ∨ p.patternEl t.data = true)
    (hstack : st.skipClosingTag = false) (hskip : st.skipElementContent = false) :
    ∃ st', p.step st t = some (st', [⟨t.render⟩]) ∧ st'.skipElementContent = false ∧ st'.skipClosingTag = false := by
  have hcr : (clearRecent st t.data).skipClosingTag = false ∧ (clearRecent st t.data).skipElementContent = false := by
    unfold clearRecent; split <;> simp [hstack, hskip]
  have hpm : popMarker (clearRecent st t.data) t.data = clearRecent st t.data := by
    simp [popMarker, hcr.1]
  have hls : p.leaveSkip (clearRecent st t.data) t.data = clearRecent st t.data := by
    unfold Policy.leaveSkip; rcases hall with h | h <;> simp [h]
  refine ⟨clearRecent st t.data, ?_, hcr.2, hcr.1⟩
  have hnot : (!p.explicitEl t.data && !p.patternEl t.data) = false := by
    rcases hall with h | h <;> simp [h]
  simp [Policy.step, htt, Policy.stepEnd, hss, hcr.1, hcr.2, hpm, hls, hnot, emitUnlessSkipping]

/-- registering one more rule for an attribute never removes acceptance -/
theorem more_rules_accept_more (apl : List AttrPolicy) (ap : AttrPolicy) (v : Bytes)
    (h : attrPoliciesAccept apl v = true) : attrPoliciesAccept (apl ++ [ap]) v = true := by
  rw [accept_append]; simp [h]

/-- a value accepted by the newly added rule is accepted whatever was registered before -/
theorem new_rule_accepts (apl : List AttrPolicy) (r : Pat) (v : Bytes) (h : r.test v = true) :
    attrPoliciesAccept (apl ++ [some r]) v = true := by
  rw [accept_append]; simp [attrPoliciesAccept, h]

/-! ### byte level: a canonical conforming document is returned byte for byte -/

/-- a token of a canonical conforming document: plain (well-formed name and keys, no raw-text
    element), allowed, not script/style, its attribute list a fixed point of `sanitizeAttrs`
    (every attribute and value allowed, nothing for the sanitiser to add or rewrite) and not
    bare unless the element may be bare -/
def Conform (p : Policy) (t : Token) : Prop :=
  SegOK t ∧
  match t.tt with
  | .text => True
  | .start => isScriptOrStyle t.data = false ∧ ∃ aps, p.attrRulesFor t.data = some aps ∧
      p.cleanAttrs t aps = some t.attrs ∧ (t.attrs ≠ [] ∨ p.allowNoAttrs t.data = true)
  | .selfClosing => isScriptOrStyle t.data = false ∧ ∃ aps, p.attrRulesFor t.data = some aps ∧
      p.cleanAttrs t aps = some t.attrs ∧ (t.attrs ≠ [] ∨ p.allowNoAttrs t.data = true)
  | .end_ => isScriptOrStyle t.data = false ∧ (p.explicitEl t.data = true ∨ p.patternEl t.data = true)
  | .comment => False
  | .doctype => False

/-- nothing is being skipped or dropped, and we are not inside a script/style body -/
def Clear (st : LoopState) : Prop :=
  st.skipElementContent = false ∧ st.skipClosingTag = false ∧ isScriptOrStyle st.mostRecentlyStartedToken = false

theorem conform_step (p : Policy) (st : LoopState) (t : Token) (hc : Conform p t) (hj : Clear st) :
    ∃ st', p.step st t = some (st', [⟨t.render⟩]) ∧ Clear st' := by
  obtain ⟨tt, data, attrs⟩ := t
  obtain ⟨_, hc⟩ := hc
  obtain ⟨hskip, hsct, hrec⟩ := hj
  cases tt with
  | comment => exact hc.elim
  | doctype => exact hc.elim
  | text =>
    exact ⟨st, by simp [Policy.step, Policy.stepText, hskip, hrec], hskip, hsct, hrec⟩
  | start =>
    obtain ⟨hss, aps, haps, hfix, hbare⟩ := hc
    simp only at hss haps hfix hbare
    have hb : (attrs.isEmpty && !p.allowNoAttrs data) = false := by
      rcases hbare with h | h
      · cases ha : attrs with
        | nil => exact absurd ha h
        | cons _ _ => simp
      · simp [h]
    have hmk : ∀ s : LoopState, s.skipClosingTag = false → markKept s data = s := by
      intro s h; simp [markKept, h]
    refine ⟨markKept { st with mostRecentlyStartedToken := data } data, ?_, ?_⟩
    · simp only [Policy.step, Policy.stepStart, hss, Bool.false_and, Bool.false_eq_true, ↓reduceIte,
        haps, hfix, hb]
      have hs : (markKept { st with mostRecentlyStartedToken := data } data).skipElementContent = false := by
        rw [hmk { st with mostRecentlyStartedToken := data } hsct]; exact hskip
      simp [emitUnlessSkipping, hs]
    · rw [hmk { st with mostRecentlyStartedToken := data } hsct]; exact ⟨hskip, hsct, hss⟩
  | selfClosing =>
    obtain ⟨hss, aps, haps, hfix, hbare⟩ := hc
    simp only at hss haps hfix hbare
    have hb : (attrs.isEmpty && !p.allowNoAttrs data) = false := by
      rcases hbare with h | h
      · cases ha : attrs with
        | nil => exact absurd ha h
        | cons _ _ => simp
      · simp [h]
    refine ⟨{ st with mostRecentlyStartedToken := data }, ?_, hskip, hsct, hss⟩
    simp [Policy.step, Policy.stepSelfClosing, hss, haps, hfix, hb, emitUnlessSkipping, hskip]
  | end_ =>
    obtain ⟨hss, hall⟩ := hc
    simp only at hss hall
    have hcr : Clear (clearRecent st data) := by
      unfold clearRecent; split
      · exact ⟨hskip, hsct, rfl⟩
      · exact ⟨hskip, hsct, hrec⟩
    obtain ⟨st', hstep, h1, h2⟩ := allowed_end_unchanged p st ⟨.end_, data, attrs⟩ rfl hss hall hsct hskip
    refine ⟨st', hstep, h1, h2, ?_⟩
    -- the state after an allowed end tag is `clearRecent st data`
    have : st' = clearRecent st data := by
      have hpm : popMarker (clearRecent st data) data = clearRecent st data := by
        simp [popMarker, hcr.2.1]
      have hls : p.leaveSkip (clearRecent st data) data = clearRecent st data := by
        unfold Policy.leaveSkip; rcases hall with h | h <;> simp [h]
      have hnot : (!p.explicitEl data && !p.patternEl data) = false := by
        rcases hall with h | h <;> simp [h]
      have h' : p.step st ⟨.end_, data, attrs⟩ = some (clearRecent st data, [⟨Token.render ⟨.end_, data, attrs⟩⟩]) := by
        simp [Policy.step, Policy.stepEnd, hss, hcr.1, hcr.2.1, hpm, hls, hnot, emitUnlessSkipping]
      rw [h'] at hstep
      simp at hstep
      exact hstep.symm
    rw [this]; exact hcr.2.2

/-- the loop writes a conforming token list back exactly -/
theorem conform_run (p : Policy) (ts : List Token) (hc : ∀ t ∈ ts, Conform p t) :
    ∀ st, Clear st → (p.run st ts).1.map (·.data) = ts.map Token.render := by
  induction ts with
  | nil => intro st _; simp [Policy.run]
  | cons t ts ih =>
    intro st hj
    obtain ⟨st', hs, hj'⟩ := conform_step p st t (hc t (by simp)) hj
    unfold Policy.run
    simp only [hs]
    simp [ih (fun x hx => hc x (by simp [hx])) st' hj']

theorem render_flushText (d : Bytes) : renderAll (flushText d) = escape d := by
  unfold flushText
  split
  · rename_i h; simp [List.isEmpty_iff.mp h, renderAll, escape]
  · simp [renderAll, Token.render]

/-- merging adjacent texts does not change the serialisation -/
theorem renderAll_coalesce : ∀ (ts : List Token) (d : Bytes), renderAll (coalesce d ts) = escape d ++ renderAll ts
  | [], d => by simp [coalesce, render_flushText, renderAll]
  | t :: ts, d => by
    simp only [coalesce]
    split
    · rename_i h
      have ht : t.tt = .text := by revert h; cases t.tt <;> intro h <;> first | rfl | exact absurd h (by decide)
      rw [renderAll_coalesce ts, escape_append]
      simp [renderAll, Token.render, ht, List.append_assoc]
    · rw [renderAll_append, render_flushText]
      simp [renderAll, renderAll_coalesce ts, escape]

theorem conform_coalesce (p : Policy) : ∀ (ts : List Token) (d : Bytes), (∀ t ∈ ts, Conform p t) →
    ∀ k ∈ coalesce d ts, Conform p k := by
  intro ts d hc k hk
  rcases mem_coalesce ts d k hk with ⟨h1, h2⟩ | ⟨h1, _⟩
  · obtain ⟨tt, data, attrs⟩ := k
    simp only at h1 h2; subst h1; subst h2
    exact ⟨by simp [SegOK], trivial⟩
  · exact hc k h1

/-- **C07 (byte level)**: the canonical serialisation of a conforming token list — texts, and
    tags of allowed elements whose attribute lists the sanitiser has nothing to remove, add
    or rewrite — is returned byte for byte, by every policy. -/
theorem C07_bytes (p : Policy) (toks : List Token) (hc : ∀ t ∈ toks, Conform p.ensureInit t) :
    p.sanitizeCore (renderAll toks) = renderAll toks := by
  have hseg : ∀ t ∈ toks, SegOK t := fun t ht => (hc t ht).1
  unfold Policy.sanitizeCore Policy.sanitizeTokens
  rw [tokenize_renderAll toks hseg,
    conform_run p.ensureInit (coalesce [] toks) (conform_coalesce p.ensureInit toks [] hc) {} ⟨rfl, rfl, rfl⟩,
    flatten_map_render, renderAll_coalesce]
  simp [escape]

/-- non-vacuity: a conforming token list for a concrete policy -/
example :
    let p : Policy := { initialized := true, elsAndAttrs := [(b!"b", []), (b!"a", [(b!"href", [none])])],
                        setOfElementsAllowedWithoutAttrs := [b!"b"] }
    ∀ t ∈ [(⟨.start, b!"a", [⟨b!"href", b!"x"⟩]⟩ : Token), ⟨.text, b!"1<2", []⟩, ⟨.start, b!"b", []⟩,
           ⟨.end_, b!"b", []⟩, ⟨.end_, b!"a", []⟩], Conform p.ensureInit t := by
  intro p t ht
  simp only [List.mem_cons, List.not_mem_nil, or_false] at ht
  rcases ht with rfl | rfl | rfl | rfl | rfl
  · refine ⟨⟨⟨97, [], rfl, by decide, by simp⟩, by decide, ?_⟩, by decide, [(b!"href", [none])], rfl, rfl, .inl (by simp)⟩
    intro a ha; simp at ha; subst ha
    exact ⟨104, b!"ref", rfl, by decide, by decide⟩
  · exact ⟨trivial, trivial⟩
  · exact ⟨⟨⟨98, [], rfl, by decide, by simp⟩, by decide, by simp⟩, by decide, [], rfl, rfl, .inr (by decide)⟩
  · exact ⟨⟨⟨98, [], rfl, by decide, by simp⟩, rfl⟩, by decide, .inl (by decide)⟩
  · exact ⟨⟨⟨97, [], rfl, by decide, by simp⟩, rfl⟩, by decide, .inl (by decide)⟩

example :
    let digits : Pat := ⟨1, fun v => v.all isDigit && !v.isEmpty⟩
    let lower : Pat := ⟨2, fun v => v.all isLowerA && !v.isEmpty⟩
    let p : Policy := { initialized := true, elsAndAttrs := [(b!"b", [(b!"id", [some digits, some lower])]), (b!"i", [])],
                        setOfElementsAllowedWithoutAttrs := [b!"i"] }
    p.sanitizeCore b!"<b id=\"abc\">x &amp; y<i>z</i></b><b id=\"42\"></b>" =
      b!"<b id=\"abc\">x &amp; y<i>z</i></b><b id=\"42\"></b>" := by decide

end BM.Props
