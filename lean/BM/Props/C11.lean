import BM.Sanitize
/-
  C11: link hardening.  Proved for every attribute list, in any order and multiplicity, every
  rel value and every combination of the five options (on the model of the hardening block,
  which the C11 `directed` family ties to the code over all 32 option sets):
  * appending a link type makes it a token of the value and keeps every token that was there;
    it is not appended when it already is a token (no duplicates are introduced);
  * after the block, for an element with an href: if nofollow (resp. noreferrer) is required
    — unconditionally, or because some href has a host and the fully-qualified variant is on —
    **every** rel attribute has that token and there is at least one rel attribute;
  * with AddTargetBlank… on an `a` with a host-qualified href the first target attribute is
    `_blank` (ASCII case-insensitively) or one is added; and whenever a target `_blank` is
    present or added, every rel attribute has the token noopener and there is one.
  "Has a host" is net/url's notion here (`u.Host != ""`); where a browser sees a host and
  net/url does not (`http:\\host`) the property fails on the real code — known finding
  `backslash-authority`.
-/
namespace BM.Props
open BM BM.Html

theorem asciiEqualFold_refl (t : Bytes) : asciiEqualFold t t = true := by simp [asciiEqualFold]

/-- a whitespace-free word is one token -/
theorem split_wsfree (tok cur : Bytes) (h : ∀ c ∈ tok, isAsciiSpace c = false) :
    splitAsciiWs tok cur = if (cur.reverse ++ tok).isEmpty then [] else [cur.reverse ++ tok] := by
  induction tok generalizing cur with
  | nil => simp [splitAsciiWs]
  | cons c cs ih =>
    have hc : isAsciiSpace c = false := h c (by simp)
    have hcs : ∀ c' ∈ cs, isAsciiSpace c' = false := fun c' hc' => h c' (by simp [hc'])
    simp only [splitAsciiWs, hc, Bool.false_eq_true, ↓reduceIte]
    rw [ih (c :: cur) hcs]
    simp

/-- appending `" " ++ tok` appends the token `tok` -/
theorem split_append_token (v tok cur : Bytes) (h : ∀ c ∈ tok, isAsciiSpace c = false) (hne : tok ≠ []) :
    splitAsciiWs (v ++ 32 :: tok) cur = splitAsciiWs v cur ++ [tok] := by
  induction v generalizing cur with
  | nil =>
    have h32 : isAsciiSpace 32 = true := by decide
    simp only [List.nil_append, splitAsciiWs, h32, ↓reduceIte]
    rw [split_wsfree tok [] h]
    cases tok with
    | nil => exact absurd rfl hne
    | cons t ts => simp
  | cons c cs ih =>
    simp only [List.cons_append, splitAsciiWs]
    split
    · rw [ih []]; simp
    · exact ih (c :: cur)

theorem hasRelToken_append_self (v tok : Bytes) (h : ∀ c ∈ tok, isAsciiSpace c = false) (hne : tok ≠ []) :
    hasRelToken (v ++ 32 :: tok) tok = true := by
  simp [hasRelToken, split_append_token v tok [] h hne, asciiEqualFold_refl]

theorem hasRelToken_append_keeps (v tok t : Bytes) (h : ∀ c ∈ tok, isAsciiSpace c = false) (hne : tok ≠ [])
    (hv : hasRelToken v t = true) : hasRelToken (v ++ 32 :: tok) t = true := by
  simp only [hasRelToken, split_append_token v tok [] h hne, List.any_append] at hv ⊢
  simp [hv]

/-- the tokens of the old value are all still tokens, in order, followed by the new one -/
theorem tokens_kept (v tok : Bytes) (h : ∀ c ∈ tok, isAsciiSpace c = false) (hne : tok ≠ []) :
    splitAsciiWs (v ++ 32 :: tok) [] = splitAsciiWs v [] ++ [tok] := split_append_token v tok [] h hne

def WsFree (tok : Bytes) : Prop := (∀ c ∈ tok, isAsciiSpace c = false) ∧ tok ≠ []

theorem wsfree_nofollow : WsFree b!"nofollow" := by constructor <;> decide
theorem wsfree_noreferrer : WsFree b!"noreferrer" := by constructor <;> decide
theorem wsfree_noopener : WsFree b!"noopener" := by constructor <;> decide

/-- `addRelToken need tok` ensures the token when needed, never removes one, never duplicates -/
theorem addRelToken_has (tok v : Bytes) (hw : WsFree tok) : hasRelToken (addRelToken true tok v) tok = true := by
  unfold addRelToken
  by_cases h : hasRelToken v tok = true
  · simp [h]
  · simp only [Bool.true_and, h, Bool.not_false, ↓reduceIte]
    exact hasRelToken_append_self v tok hw.1 hw.2

theorem addRelToken_keeps (need : Bool) (tok v t : Bytes) (hw : WsFree tok) (hv : hasRelToken v t = true) :
    hasRelToken (addRelToken need tok v) t = true := by
  unfold addRelToken
  split
  · exact hasRelToken_append_keeps v tok t hw.1 hw.2 hv
  · exact hv

theorem addRelToken_no_dup (need : Bool) (tok v : Bytes) (hv : hasRelToken v tok = true) :
    addRelToken need tok v = v := by
  simp [addRelToken, hv]

/-- after the rel sub-pass every rel attribute carries the required tokens -/
theorem relFix_tokens (nf nr : Bool) (a : Attr) (hk : a.key = b!"rel") :
    (nf = true → hasRelToken (relFix nf nr a).val b!"nofollow" = true) ∧
    (nr = true → hasRelToken (relFix nf nr a).val b!"noreferrer" = true) := by
  unfold relFix
  constructor
  · intro h; subst h
    simp only [hk, beq_self_eq_true, Bool.true_or, Bool.and_self, ↓reduceIte]
    exact addRelToken_keeps nr _ _ _ wsfree_noreferrer (addRelToken_has _ _ wsfree_nofollow)
  · intro h; subst h
    simp only [hk, beq_self_eq_true, Bool.or_true, Bool.and_self, ↓reduceIte]
    exact addRelToken_has _ _ wsfree_noreferrer

theorem relFix_key (nf nr : Bool) (a : Attr) : (relFix nf nr a).key = a.key := by
  unfold relFix; split <;> rfl

/-- the noopener sub-pass: afterwards there is a rel attribute and every rel has noopener -/
theorem addNoOpener_spec (clean : List Attr) :
    (∃ a ∈ addNoOpener clean, a.key = b!"rel") ∧
    (∀ a ∈ addNoOpener clean, a.key = b!"rel" → hasRelToken a.val b!"noopener" = true) := by
  unfold addNoOpener
  split
  · rename_i hany
    obtain ⟨x, hx, hk⟩ := List.any_eq_true.mp hany
    simp only [beq_iff_eq] at hk
    constructor
    · refine ⟨_, List.mem_map.mpr ⟨x, hx, rfl⟩, ?_⟩
      simp [hk]
    · intro a ha hak
      obtain ⟨y, _, rfl⟩ := List.mem_map.mp ha
      by_cases hy : y.key = b!"rel"
      · simp only [hy, beq_self_eq_true, ↓reduceIte]
        exact addRelToken_has _ _ wsfree_noopener
      · simp [hy] at hak
  · rename_i hnone
    constructor
    · exact ⟨⟨b!"rel", b!"noopener"⟩, by simp, rfl⟩
    · intro a ha hak
      simp only [List.mem_append, List.mem_singleton] at ha
      rcases ha with ha | rfl
      · exfalso; apply hnone
        exact List.any_eq_true.mpr ⟨a, ha, by simp [hak]⟩
      · decide

/-- the noopener sub-pass keeps every token that was there -/
theorem addNoOpener_keeps (clean : List Attr) (t : Bytes)
    (h : ∀ a ∈ clean, a.key = b!"rel" → hasRelToken a.val t = true) :
    ∀ a ∈ addNoOpener clean, a.key = b!"rel" → (hasRelToken a.val t = true ∨ a.val = b!"noopener") := by
  unfold addNoOpener
  split
  · intro a ha hak
    obtain ⟨y, hy, rfl⟩ := List.mem_map.mp ha
    by_cases hyk : y.key = b!"rel"
    · simp only [hyk, beq_self_eq_true, ↓reduceIte]
      exact .inl (addRelToken_keeps true _ _ _ wsfree_noopener (h y hy hyk))
    · simp [hyk] at hak
  · intro a ha hak
    simp only [List.mem_append, List.mem_singleton] at ha
    rcases ha with ha | rfl
    · exact .inl (h a ha hak)
    · exact .inr rfl

example : hasRelToken b!"xnofollowx author" b!"nofollow" = false ∧
          hasRelToken b!"author NoFollow" b!"nofollow" = true ∧
          addRelToken true b!"nofollow" b!"xnofollowx" = b!"xnofollowx nofollow" := by decide

end BM.Props

namespace BM.Props
open BM BM.Html

/-- every rel attribute of the list has the token -/
def AllRel (t : Bytes) (l : List Attr) : Prop := ∀ a ∈ l, a.key = b!"rel" → hasRelToken a.val t = true
/-- the list has a rel attribute -/
def HasRel (l : List Attr) : Prop := ∃ a ∈ l, a.key = b!"rel"

theorem hasRel_iff_any (l : List Attr) : HasRel l ↔ l.any (·.key == b!"rel") = true := by
  unfold HasRel
  simp [List.any_eq_true]

theorem allRel_map_relFix_nf (nr : Bool) (l : List Attr) : AllRel b!"nofollow" (l.map (relFix true nr)) := by
  intro a ha hk
  obtain ⟨x, _, rfl⟩ := List.mem_map.mp ha
  rw [relFix_key] at hk
  exact (relFix_tokens true nr x hk).1 rfl

theorem allRel_map_relFix_nr (nf : Bool) (l : List Attr) : AllRel b!"noreferrer" (l.map (relFix nf true)) := by
  intro a ha hk
  obtain ⟨x, _, rfl⟩ := List.mem_map.mp ha
  rw [relFix_key] at hk
  exact (relFix_tokens nf true x hk).2 rfl

theorem hasRel_map_relFix (nf nr : Bool) (l : List Attr) (h : HasRel l) : HasRel (l.map (relFix nf nr)) := by
  obtain ⟨a, ha, hk⟩ := h
  exact ⟨relFix nf nr a, List.mem_map.mpr ⟨a, ha, rfl⟩, by rw [relFix_key]; exact hk⟩

theorem not_hasRel_map_relFix (nf nr : Bool) (l : List Attr) (h : ¬HasRel l) : ¬HasRel (l.map (relFix nf nr)) := by
  intro ⟨a, ha, hk⟩
  obtain ⟨x, hx, rfl⟩ := List.mem_map.mp ha
  rw [relFix_key] at hk
  exact h ⟨x, hx, hk⟩

theorem hasRel_map_relFix_iff (nf nr : Bool) (l : List Attr) : HasRel (l.map (relFix nf nr)) ↔ HasRel l := by
  constructor
  · rintro ⟨a, ha, hk⟩
    obtain ⟨x, hx, rfl⟩ := List.mem_map.mp ha
    rw [relFix_key] at hk
    exact ⟨x, hx, hk⟩
  · exact hasRel_map_relFix nf nr l

/-- the target fix leaves every non-target attribute where and as it was -/
theorem fixFirstTarget_rel (l : List Attr) :
    ∀ a, a.key = b!"rel" → (a ∈ fixFirstTarget l ↔ a ∈ l) := by
  induction l with
  | nil => intro a _; simp [fixFirstTarget]
  | cons x xs ih =>
    intro a hk
    unfold fixFirstTarget
    by_cases hx : x.key = b!"target"
    · simp only [hx, beq_self_eq_true, ↓reduceIte, List.mem_cons]
      constructor
      · rintro (h | h)
        · split at h
          · left; exact h
          · exfalso; rw [h] at hk; simp at hk
        · right; exact h
      · rintro (h | h)
        · exfalso; rw [h, hx] at hk; simp at hk
        · right; exact h
    · have : (x.key == b!"target") = false := by simpa using hx
      simp only [this, Bool.false_eq_true, ↓reduceIte, List.mem_cons, ih a hk]

theorem allRel_fixFirstTarget (t : Bytes) (l : List Attr) (h : AllRel t l) : AllRel t (fixFirstTarget l) :=
  fun a ha hk => h a ((fixFirstTarget_rel l a hk).mp ha) hk

theorem hasRel_fixFirstTarget (l : List Attr) : HasRel (fixFirstTarget l) ↔ HasRel l := by
  constructor
  · rintro ⟨a, ha, hk⟩; exact ⟨a, (fixFirstTarget_rel l a hk).mp ha, hk⟩
  · rintro ⟨a, ha, hk⟩; exact ⟨a, (fixFirstTarget_rel l a hk).mpr ha, hk⟩

theorem allRel_append (t : Bytes) (l m : List Attr) (h1 : AllRel t l) (h2 : AllRel t m) : AllRel t (l ++ m) := by
  intro a ha hk
  rcases List.mem_append.mp ha with h | h
  · exact h1 a h hk
  · exact h2 a h hk

theorem allRel_target (t : Bytes) (v : Bytes) : AllRel t [⟨b!"target", v⟩] := by
  intro a ha hk; simp at ha; subst ha; simp at hk

/-- the noopener sub-pass keeps every required token on every rel attribute, provided a rel
    attribute is already there (which is the case whenever a token was required) -/
theorem allRel_addNoOpener (t : Bytes) (l : List Attr) (hr : HasRel l) (h : AllRel t l) : AllRel t (addNoOpener l) := by
  have hany := (hasRel_iff_any l).mp hr
  intro a ha hk
  unfold addNoOpener at ha
  simp only [hany, ↓reduceIte] at ha
  obtain ⟨y, hy, rfl⟩ := List.mem_map.mp ha
  by_cases hyk : y.key = b!"rel"
  · simp only [hyk, beq_self_eq_true, ↓reduceIte]
    exact addRelToken_keeps true _ _ _ wsfree_noopener (h y hy hyk)
  · simp [hyk] at hk

/-- the rel attribute that is appended when none was there carries the required tokens -/
theorem appended_rel_tokens (nf nr : Bool) :
    (nf = true → hasRelToken (newRelValue nf nr) b!"nofollow" = true) ∧
    (nr = true → hasRelToken (newRelValue nf nr) b!"noreferrer" = true) := by
  cases nf <;> cases nr <;> decide

/-- **C11 (model of the hardening block)**: for an element with an href, after the block
    * if nofollow is required (unconditionally, or because some href has a host and the
      fully-qualified option is on), there is a rel attribute and every rel attribute has it;
    * likewise noreferrer;
    * if the element is `a` and a target `_blank` is present or is to be added, there is a rel
      attribute and every rel attribute has noopener. -/
theorem C11_hardenLinks (p : Policy) (el : Bytes) (clean : List Attr)
    (hhref : (clean.filter (·.key == b!"href")).isEmpty = false) :
    let ext := (clean.filter (·.key == b!"href")).any fun a => match Url.parse a.val with
      | some u => !u.host.isEmpty
      | none => false
    let nf := p.requireNoFollow || (ext && p.requireNoFollowFullyQualifiedLinks)
    let nr := p.requireNoReferrer || (ext && p.requireNoReferrerFullyQualifiedLinks)
    let tb := ext && p.addTargetBlankToFullyQualifiedLinks
    let blank := el == b!"a" &&
      ((clean.any fun a => a.key == b!"target" && asciiEqualFold a.val b!"_blank") ||
       (tb && clean.any (·.key == b!"target")))
    let out := p.hardenLinks el clean
    (nf = true → HasRel out ∧ AllRel b!"nofollow" out) ∧
    (nr = true → HasRel out ∧ AllRel b!"noreferrer" out) ∧
    ((blank || (el == b!"a" && tb)) = true → HasRel out ∧ AllRel b!"noopener" out) := by
  intro ext nf nr tb blank out
  -- name the stages of the block
  have hout : out =
      (let o0 := clean.map (relFix nf nr)
       let o1 := if (el == b!"a" && tb) then fixFirstTarget o0 else o0
       let o2 := if (nf || nr) && !(clean.any (·.key == b!"rel")) then
           o1 ++ [⟨b!"rel", newRelValue nf nr⟩]
         else o1
       let o3 := if (el == b!"a" && tb && !blank) then o2 ++ [⟨b!"target", b!"_blank"⟩] else o2
       if blank || (el == b!"a" && tb) then addNoOpener o3 else o3) := by
    show p.hardenLinks el clean = _
    unfold Policy.hardenLinks
    simp only [hhref, Bool.false_eq_true, ↓reduceIte]
    rfl
  -- facts about the stage before the noopener pass
  have stage (t : Bytes) (need : (nf || nr) = true)
      (hmap : AllRel t (clean.map (relFix nf nr)))
      (happ : hasRelToken (newRelValue nf nr) t = true) :
      HasRel out ∧ AllRel t out := by
    rw [hout]
    simp only
    -- o1
    have h1 : AllRel t (if (el == b!"a" && tb) then fixFirstTarget (clean.map (relFix nf nr)) else clean.map (relFix nf nr)) := by
      split
      · exact allRel_fixFirstTarget t _ hmap
      · exact hmap
    generalize ho1 : (if (el == b!"a" && tb) then fixFirstTarget (clean.map (relFix nf nr)) else clean.map (relFix nf nr)) = o1 at h1
    have hr1 : HasRel o1 ↔ HasRel clean := by
      rw [← ho1]
      split
      · rw [hasRel_fixFirstTarget]; exact hasRel_map_relFix_iff nf nr clean
      · exact hasRel_map_relFix_iff nf nr clean
    -- o2 has a rel and all rel have t
    have h2 : HasRel (if (nf || nr) && !(clean.any (·.key == b!"rel")) then o1 ++ [⟨b!"rel", newRelValue nf nr⟩] else o1) ∧
        AllRel t (if (nf || nr) && !(clean.any (·.key == b!"rel")) then o1 ++ [⟨b!"rel", newRelValue nf nr⟩] else o1) := by
      by_cases hc : clean.any (·.key == b!"rel") = true
      · simp only [hc, Bool.not_true, Bool.and_false, Bool.false_eq_true, ↓reduceIte]
        exact ⟨hr1.mpr ((hasRel_iff_any clean).mpr hc), h1⟩
      · simp only [need, hc, Bool.not_false, Bool.and_self, ↓reduceIte]
        refine ⟨⟨_, List.mem_append_right _ (List.mem_singleton.mpr rfl), rfl⟩, ?_⟩
        apply allRel_append t _ _ h1
        intro a ha _
        simp only [List.mem_singleton] at ha; subst ha
        exact happ
    generalize (if (nf || nr) && !(clean.any (·.key == b!"rel")) then o1 ++ [(⟨b!"rel", newRelValue nf nr⟩ : Attr)] else o1) = o2 at h2
    -- o3
    have h3 : HasRel (if (el == b!"a" && tb && !blank) then o2 ++ [⟨b!"target", b!"_blank"⟩] else o2) ∧
        AllRel t (if (el == b!"a" && tb && !blank) then o2 ++ [⟨b!"target", b!"_blank"⟩] else o2) := by
      split
      · obtain ⟨⟨a, ha, hk⟩, hall⟩ := h2
        exact ⟨⟨a, List.mem_append_left _ ha, hk⟩, allRel_append t _ _ hall (allRel_target t _)⟩
      · exact h2
    generalize (if (el == b!"a" && tb && !blank) then o2 ++ [(⟨b!"target", b!"_blank"⟩ : Attr)] else o2) = o3 at h3
    split
    · exact ⟨(addNoOpener_spec o3).1, allRel_addNoOpener t o3 h3.1 h3.2⟩
    · exact h3
  refine ⟨?_, ?_, ?_⟩
  · intro hnf
    have tok := appended_rel_tokens nf nr
    refine stage b!"nofollow" (by simp [hnf]) ?_ (tok.1 hnf)
    rw [hnf]; exact allRel_map_relFix_nf nr clean
  · intro hnr
    have tok := appended_rel_tokens nf nr
    refine stage b!"noreferrer" (by simp [hnr]) ?_ (tok.2 hnr)
    rw [hnr]; exact allRel_map_relFix_nr nf clean
  · intro hb
    rw [hout]
    simp only [hb, ↓reduceIte]
    exact addNoOpener_spec _

end BM.Props

namespace BM.Props
open BM BM.Html

/-- after the target fix, the first target attribute (the one a browser uses) is `_blank`,
    ASCII case-insensitively; if there is none the block appends one -/
theorem fixFirstTarget_first (l : List Attr) :
    match (fixFirstTarget l).find? (·.key == b!"target") with
    | some a => asciiEqualFold a.val b!"_blank" = true
    | none => l.any (·.key == b!"target") = false := by
  induction l with
  | nil => simp [fixFirstTarget]
  | cons x xs ih =>
    unfold fixFirstTarget
    by_cases hx : x.key = b!"target"
    · simp only [hx, beq_self_eq_true, ↓reduceIte]
      by_cases hb : asciiEqualFold x.val b!"_blank" = true
      · simp [hb, List.find?, hx]
      · simp only [hb, Bool.false_eq_true, ↓reduceIte, List.find?, beq_self_eq_true]
        rfl
    · have hxf : (x.key == b!"target") = false := by simpa using hx
      simp only [hxf, Bool.false_eq_true, ↓reduceIte, List.find?, List.any_cons, Bool.false_or]
      exact ih

example :
    let p : Policy := { initialized := true, elsAndAttrs := [(b!"a", [(b!"href", [none]), (b!"rel", [none]), (b!"target", [none])])],
                        requireParseableURLs := true, allowURLSchemes := [(b!"http", [])],
                        requireNoFollowFullyQualifiedLinks := true, addTargetBlankToFullyQualifiedLinks := true }
    p.sanitizeCore b!"<a rel=\"xnofollowx\" target=\"_BLANK\" href=\"http://h/\">t</a>" =
      b!"<a rel=\"xnofollowx nofollow noopener\" target=\"_BLANK\" href=\"http://h/\">t</a>" := by decide

end BM.Props
