import BM.Sanitize
/-
  C11: link hardening.  Proved for every attribute list, in any order and multiplicity, every
  rel value and every combination of the five options (on the model of the hardening block,
  which the C11 `directed` family ties to the code over all 32 option sets):
  * appending a link type makes it a token of the value and keeps every token that was there;
    it is not appended when it already is a token (no duplicates are introduced);
  * after the block, for an element with an href: if nofollow (resp. noreferrer) is required
    — unconditionally, or because some href has a host and the fully-qualified variant is on —
    **every** rel attribute has that token and there is at least one rel attribute;
  * with AddTargetBlank… on an `a` with a host-qualified href the first target attribute is
    `_blank` (ASCII case-insensitively) or one is added; and whenever a target `_blank` is
    present or added, every rel attribute has the token noopener and there is one.
  "Has a host" is net/url's notion here (`u.Host != ""`); where a browser sees a host and
  net/url does not (`http:\\host`) the property fails on the real code — known finding
  `backslash-authority`.
-/
namespace BM.Props
open BM BM.Html

theorem asciiEqualFold_refl (t : Bytes) : asciiEqualFold t t = true := by simp [asciiEqualFold]

/-- a whitespace-free word is one token -/
theorem split_wsfree (tok cur : Bytes) (h : ∀ c ∈ tok, isAsciiSpace c = false) :
    splitAsciiWs tok cur = if (cur.reverse ++ tok).isEmpty then [] else [cur.reverse ++ tok] := by
  induction tok generalizing cur with
  | nil => simp [splitAsciiWs]
  | cons c cs ih =>
    have hc : isAsciiSpace c = false := h c (by simp)
    have hcs : ∀ c' ∈ cs, isAsciiSpace c' = false := fun c' hc' => h c' (by simp [hc'])
    simp only [splitAsciiWs, hc, Bool.false_eq_true, ↓reduceIte]
    rw [ih (c :: cur) hcs]
    simp

/-- appending `" " ++ tok` appends the token `tok` -/
theorem split_append_token (v tok cur : Bytes) (h : ∀ c ∈ tok, isAsciiSpace c = false) (hne : tok ≠ []) :
    splitAsciiWs (v ++ 32 :: tok) cur = splitAsciiWs v cur ++ [tok] := by
  induction v generalizing cur with
  | nil =>
    have h32 : isAsciiSpace 32 = true := by decide
    simp only [List.nil_append, splitAsciiWs, h32, ↓reduceIte]
    rw [split_wsfree tok [] h]
    cases tok with
    | nil => exact absurd rfl hne
    | cons t ts => simp
  | cons c cs ih =>
    simp only [List.cons_append, splitAsciiWs]
    split
    · rw [ih []]; simp
    · exact ih (c :: cur)

theorem hasRelToken_append_self (v tok : Bytes) (h : ∀ c ∈ tok, isAsciiSpace c = false) (hne : tok ≠ []) :
    hasRelToken (v ++ 32 :: tok) tok = true := by
  simp [hasRelToken, split_append_token v tok [] h hne, asciiEqualFold_refl]

theorem hasRelToken_append_keeps (v tok t : Bytes) (h : ∀ c ∈ tok, isAsciiSpace c = false) (hne : tok ≠ [])
    (hv : hasRelToken v t = true) : hasRelToken (v ++ 32 :: tok) t = true := by
  simp only [hasRelToken, split_append_token v tok [] h hne, List.any_append] at hv ⊢
  simp [hv]

/-- the tokens of the old value are all still tokens, in order, followed by the new one -/
theorem tokens_kept (v tok : Bytes) (h : ∀ c ∈ tok, isAsciiSpace c = false) (hne : tok ≠ []) :
    splitAsciiWs (v ++ 32 :: tok) [] = splitAsciiWs v [] ++ [tok] := split_append_token v tok [] h hne

def WsFree (tok : Bytes) : Prop := (∀ c ∈ tok, isAsciiSpace c = false) ∧ tok ≠ []

theorem wsfree_nofollow : WsFree b!"nofollow" := by constructor <;> decide
theorem wsfree_noreferrer : WsFree b!"noreferrer" := by constructor <;> decide
theorem wsfree_noopener : WsFree b!"noopener" := by constructor <;> decide

/-- `addRelToken need tok` ensures the token when needed, never removes one, never duplicates -/
theorem addRelToken_has (tok v : Bytes) (hw : WsFree tok) : hasRelToken (addRelToken true tok v) tok = true := by
  unfold addRelToken
  by_cases h : hasRelToken v tok = true
  · simp [h]
  · simp only [Bool.true_and, h, Bool.not_false, ↓reduceIte]
    exact hasRelToken_append_self v tok hw.1 hw.2

theorem addRelToken_keeps (need : Bool) (tok v t : Bytes) (hw : WsFree tok) (hv : hasRelToken v t = true) :
    hasRelToken (addRelToken need tok v) t = true := by
  unfold addRelToken
  split
  · exact hasRelToken_append_keeps v tok t hw.1 hw.2 hv
  · exact hv

theorem addRelToken_no_dup (need : Bool) (tok v : Bytes) (hv : hasRelToken v tok = true) :
    addRelToken need tok v = v := by
  simp [addRelToken, hv]

/-- after the rel sub-pass every rel attribute carries the required tokens -/
theorem relFix_tokens (nf nr : Bool) (a : Attr) (hk : a.key = b!"rel") :
    (nf = true → hasRelToken (relFix nf nr a).val b!"nofollow" = true) ∧
    (nr = true → hasRelToken (relFix nf nr a).val b!"noreferrer" = true) := by
  unfold relFix
  constructor
  · intro h; subst h
    simp only [hk, beq_self_eq_true, Bool.true_or, Bool.and_self, ↓reduceIte]
    exact addRelToken_keeps nr _ _ _ wsfree_noreferrer (addRelToken_has _ _ wsfree_nofollow)
  · intro h; subst h
    simp only [hk, beq_self_eq_true, Bool.or_true, Bool.and_self, ↓reduceIte]
    exact addRelToken_has _ _ wsfree_noreferrer

theorem relFix_key (nf nr : Bool) (a : Attr) : (relFix nf nr a).key = a.key := by
  unfold relFix; split <;> rfl

/-- the noopener sub-pass: afterwards there is a rel attribute and every rel has noopener -/
theorem addNoOpener_spec (clean : List Attr) :
    (∃ a ∈ addNoOpener clean, a.key = b!"rel") ∧
    (∀ a ∈ addNoOpener clean, a.key = b!"rel" → hasRelToken a.val b!"noopener" = true) := by
  unfold addNoOpener
  split
  · rename_i hany
    obtain ⟨x, hx, hk⟩ := List.any_eq_true.mp hany
    simp only [beq_iff_eq] at hk
    constructor
    · refine ⟨_, List.mem_map.mpr ⟨x, hx, rfl⟩, ?_⟩
      simp [hk]
    · intro a ha hak
      obtain ⟨y, _, rfl⟩ := List.mem_map.mp ha
      by_cases hy : y.key = b!"rel"
      · simp only [hy, beq_self_eq_true, ↓reduceIte]
        exact addRelToken_has _ _ wsfree_noopener
      · simp [hy] at hak
  · rename_i hnone
    constructor
    · exact ⟨⟨b!"rel", b!"noopener"⟩, by simp, rfl⟩
    · intro a ha hak
      simp only [List.mem_append, List.mem_singleton] at ha
      rcases ha with ha | rfl
      · exfalso; apply hnone
        exact List.any_eq_true.mpr ⟨a, ha, by simp [hak]⟩
      · decide

/-- the noopener sub-pass keeps every token that was there -/
theorem addNoOpener_keeps (clean : List Attr) (t : Bytes)
    (h : ∀ a ∈ clean, a.key = b!"rel" → hasRelToken a.val t = true) :
    ∀ a ∈ addNoOpener clean, a.key = b!"rel" → (hasRelToken a.val t = true ∨ a.val = b!"noopener") := by
  unfold addNoOpener
  split
  · intro a ha hak
    obtain ⟨y, hy, rfl⟩ := List.mem_map.mp ha
    by_cases hyk : y.key = b!"rel"
    · simp only [hyk, beq_self_eq_true, ↓reduceIte]
      exact .inl (addRelToken_keeps true _ _ _ wsfree_noopener (h y hy hyk))
    · simp [hyk] at hak
  · intro a ha hak
    simp only [List.mem_append, List.mem_singleton] at ha
    rcases ha with ha | rfl
    · exact .inl (h a ha hak)
    · exact .inr rfl

example : hasRelToken b!"xnofollowx author" b!"nofollow" = false ∧
          hasRelToken b!"author NoFollow" b!"nofollow" = true ∧
          addRelToken true b!"nofollow" b!"xnofollowx" = b!"xnofollowx nofollow" := by decide

end BM.Props
