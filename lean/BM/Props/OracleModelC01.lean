import BM.Props.C01
import BM.Spec.More
/-
  The oracles on the model.  An oracle (BM/Spec) is evaluated on the *implementation's* output; a case
  on which implementation and model agree can only raise an alarm if the oracle is false on the model's
  output.  For the oracles below that cannot happen: the byte-level theorems say exactly that the
  oracle holds of what the model returns.  (Where a property has a known finding the corresponding
  statement is false by design and is not made.)
-/
namespace BM.Props
open BM BM.Html BM.Spec

/-- `oracleC01` holds of the model's output: every policy without AllowUnsafe, every input none of whose
    raw-text tags the policy allows -/
theorem oracleC01_model (p : Policy) (input : Bytes) (hp : PlainOn p.ensureInit (tokenize input)) :
    oracleC01 p.ensureInit (p.sanitizeCore input) = true := by
  unfold oracleC01
  rw [List.all_eq_true]
  intro k hk
  unfold tokenOkC01
  rcases C01_bytesC_on p input hp k hk with h | ⟨htag, hall⟩ | ⟨hc, hac⟩
  · rw [h]
  · unfold isTag at htag
    simp only [Bool.or_eq_true] at htag
    cases htt : k.tt with
    | text => rfl
    | start => simpa using hall
    | end_ => simpa using hall
    | selfClosing => simpa using hall
    | comment => rw [htt] at htag; rcases htag with (h | h) | h <;> exact absurd h (by decide)
    | doctype => rw [htt] at htag; rcases htag with (h | h) | h <;> exact absurd h (by decide)
  · rw [hc]; exact hac

end BM.Props
