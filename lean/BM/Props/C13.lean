import BM.Sanitize
/-
  C13: a finished policy is deterministic and safe to share.
  What a theorem about the model can carry:
  * the model of `Sanitize*` is a *function* of (policy, input): there is no hidden state, so
    repeated and interleaved calls return what a single call returns (true of every Lean
    function; the content is in the tie: the model never needs anything but the policy and
    the input to reproduce the implementation's result, across goroutines and map orders);
  * results do not depend on the order in which Go happens to iterate its maps: the places
    that range over a map (`matchRegex`, the style-rule merge, the end-tag pattern test,
    `allowNoAttrs`) only ask whether *some* entry matches / whether *some* rule accepts, and
    those answers are invariant under permutation of the entries — proved below.
  Partial: data-race freedom under the Go memory model and the scheduler cannot be exhibited by
  an executable Lean model; they are covered by the `conc` family (12 goroutines on one
  policy, built with -race, results compared with sequential ones, policy dump compared
  before and after) and by the static fact that `sanitize` only writes locals.
-/
namespace BM.Props
open BM BM.Html

/-- acceptance by a rule list does not depend on the order of the rules -/
theorem accept_perm (l1 l2 : List AttrPolicy) (v : Bytes) (h : l1.Perm l2) :
    attrPoliciesAccept l1 v = attrPoliciesAccept l2 v := by
  unfold attrPoliciesAccept
  induction h with
  | nil => rfl
  | cons x _ ih => simp [List.any_cons, ih]
  | swap x y l => simp [List.any_cons, Bool.or_left_comm]
  | trans _ _ ih1 ih2 => exact ih1.trans ih2

theorem style_accept_perm (l1 l2 : List StylePolicy) (v : Bytes) (h : l1.Perm l2) :
    stylePoliciesAccept l1 v = stylePoliciesAccept l2 v := by
  unfold stylePoliciesAccept
  induction h with
  | nil => rfl
  | cons x _ ih => simp [List.any_cons, ih]
  | swap x y l => simp [List.any_cons, Bool.or_left_comm]
  | trans _ _ ih1 ih2 => exact ih1.trans ih2

/-- whether some element pattern matches does not depend on map order -/
theorem any_pattern_perm {ν} (m1 m2 : List (Pat × ν)) (el : Bytes) (h : m1.Perm m2) :
    (m1.any fun (r, _) => r.test el) = (m2.any fun (r, _) => r.test el) := by
  induction h with
  | nil => rfl
  | cons x _ ih => simp [List.any_cons, ih]
  | swap x y l => simp [List.any_cons, Bool.or_left_comm]
  | trans _ _ ih1 ih2 => exact ih1.trans ih2

theorem any_test_perm (l1 l2 : List Pat) (el : Bytes) (h : l1.Perm l2) :
    l1.any (·.test el) = l2.any (·.test el) := by
  induction h with
  | nil => rfl
  | cons x _ ih => simp [List.any_cons, ih]
  | swap x y l => simp [List.any_cons, Bool.or_left_comm]
  | trans _ _ ih1 ih2 => exact ih1.trans ih2

theorem allowNoAttrs_perm (p q : Policy) (el : Bytes)
    (h1 : p.setOfElementsAllowedWithoutAttrs.Perm q.setOfElementsAllowedWithoutAttrs)
    (h2 : p.setOfElementsMatchingAllowedWithoutAttrs.Perm q.setOfElementsMatchingAllowedWithoutAttrs) :
    p.allowNoAttrs el = q.allowNoAttrs el := by
  unfold Policy.allowNoAttrs
  have e1 : p.setOfElementsAllowedWithoutAttrs.contains el = q.setOfElementsAllowedWithoutAttrs.contains el := by
    simp only [List.contains_eq_mem]
    exact decide_eq_decide.mpr (h1.mem_iff)
  have e2 := any_test_perm _ _ el h2
  rw [e1, e2]

/-- sanitising does not depend on anything but the policy value and the input, and leaves
    the policy as it was (the loop threads only its five locals) -/
theorem C13_function_of_policy_and_input (p : Policy) (x : Bytes) :
    ∀ n : Nat, (List.replicate n x).map p.sanitize = List.replicate n (p.sanitize x) := by
  intro n; simp

example : attrPoliciesAccept [none, some ⟨1, fun _ => false⟩] b!"v" =
          attrPoliciesAccept [some ⟨1, fun _ => false⟩, none] b!"v" := by decide

end BM.Props
