import BM.Proofs.RegexLemmas
import BM.Gen.Shipped
import BM.Spec.More
import BM.Proofs.RegexSem
import BM.Proofs.RegexAnchored
/-
  C19: the exported attribute matchers are anchored, closed-alphabet recognisers.
  For each of the eleven matchers, on the regular expression regenerated from helpers.go on
  every run (`Gen.pat…`, the `regexp/syntax` tree of the literal, case folding resolved):
  * it is of the form `^ … $` (`anchoredBoth`, by kernel computation), and every character
    class lies inside the documented alphabet and there is no `.` (`within`), hence
  * **for every string**: if `MatchString` accepts it, each of its runes is in the documented
    alphabet — in particular none of `< > " = \`` and no control character other than the
    white space `\s` of the two free-text matchers (`search_alphabet`, proved once for all
    expressions in `Proofs/RegexLemmas.lean`);
  * the documented examples are accepted (kernel computation on the regenerated expression).
  The alphabets of the five `(?i)` keyword matchers contain U+017F (ſ) and U+212A (K): Go's
  case folding makes `(?i)s` and `(?i)k` match them — known finding `nonascii-casefold`.
-/
namespace BM.Props
open BM BM.Re

def asciiLetters : List (Rune × Rune) := [(65, 90), (97, 122)]
/-- letters plus the two non-ASCII runes Go's simple case folding adds to `s` and `k` -/
def foldedLetters : List (Rune × Rune) := [(65, 90), (97, 122), (0x17F, 0x17F), (0x212A, 0x212A)]
def digitsA : List (Rune × Rune) := [(48, 57)]
/-- `\s`, letters, digits, `_`, `-`, and everything outside ASCII (the regexp restricts the
    latter to \p{L} ∪ \p{N}) -/
def tokensA : List (Rune × Rune) := [(9, 10), (12, 13), (32, 32), (45, 45), (48, 57), (65, 90), (95, 95), (97, 122), (128, 0x10FFFF)]
/-- Paragraph: `\s`, letters, digits and `- _ ' , [ ] ! . / \ ( )`, plus non-ASCII -/
def paragraphA : List (Rune × Rune) :=
  [(9, 10), (12, 13), (32, 33), (39, 41), (44, 57), (65, 93), (95, 95), (97, 122), (128, 0x10FFFF)]
def numberA : List (Rune × Rune) := [(43, 43), (45, 46), (48, 57), (69, 69), (101, 101)]
def iso8601A : List (Rune × Rune) := [(32, 32), (43, 43), (45, 46), (48, 58), (84, 84), (90, 90)]
def listTypeA : List (Rune × Rune) := [(49, 49), (65, 90), (97, 122), (0x17F, 0x17F), (0x212A, 0x212A)]

/-- what is proved about one matcher -/
def Closed (r : Re) (A : List (Rune × Rune)) : Prop :=
  ∀ s : Bytes, Re.matchBytes r s = true → ∀ c ∈ decodeRunes s, inRanges c A = true

theorem closed_of (r : Re) (A : List (Rune × Rune)) (ha : anchoredBoth r = true)
    (hw : within (some A) r = true) : Closed r A :=
  fun s h => search_alphabet A r ha hw (decodeRunes s) h

set_option maxRecDepth 100000

theorem CellAlign_closed : Closed Gen.patCellAlign foldedLetters := closed_of _ _ (by decide) (by decide)
theorem CellVerticalAlign_closed : Closed Gen.patCellVerticalAlign foldedLetters := closed_of _ _ (by decide) (by decide)
theorem Direction_closed : Closed Gen.patDirection foldedLetters := closed_of _ _ (by decide) (by decide)
theorem ImageAlign_closed : Closed Gen.patImageAlign foldedLetters := closed_of _ _ (by decide) (by decide)
theorem ListType_closed : Closed Gen.patListType listTypeA := closed_of _ _ (by decide) (by decide)
theorem Integer_closed : Closed Gen.patInteger digitsA := closed_of _ _ (by decide) (by decide)
theorem NumberOrPercent_closed : Closed Gen.patNumberOrPercent [(37, 37), (48, 57)] := closed_of _ _ (by decide) (by decide)
theorem Number_closed : Closed Gen.patNumber numberA := closed_of _ _ (by decide) (by decide)
theorem ISO8601_closed : Closed Gen.patISO8601 iso8601A := closed_of _ _ (by decide) (by decide)
theorem SpaceSeparatedTokens_closed : Closed Gen.patSpaceSeparatedTokens tokensA := closed_of _ _ (by decide) (by decide)
theorem Paragraph_closed : Closed Gen.patParagraph paragraphA := closed_of _ _ (by decide) (by decide)

/-- none of the documented alphabets contains an HTML-significant character or a control
    character other than `\s` -/
theorem alphabets_exclude_html :
    ∀ A ∈ [foldedLetters, digitsA, tokensA, paragraphA, numberA, iso8601A, listTypeA, [(37, 37), (48, 57)]],
      ∀ c ∈ [60, 62, 34, 61, 96, 38, 0, 1, 8, 11, 14, 27, 31, 127], inRanges c A = false := by decide

/-- the documented examples are accepted (by the regenerated expressions) -/
theorem examples_accepted :
    Re.matchBytes Gen.patCellAlign b!"center" = true ∧ Re.matchBytes Gen.patCellAlign b!"Justify" = true ∧
    Re.matchBytes Gen.patCellVerticalAlign b!"baseline" = true ∧ Re.matchBytes Gen.patDirection b!"rtl" = true ∧
    Re.matchBytes Gen.patImageAlign b!"absmiddle" = true ∧ Re.matchBytes Gen.patInteger b!"42" = true ∧
    Re.matchBytes Gen.patISO8601 b!"1997-07-16T19:20:30.45+01:00" = true ∧
    Re.matchBytes Gen.patISO8601 b!"1997" = true ∧ Re.matchBytes Gen.patListType b!"circle" = true ∧
    Re.matchBytes Gen.patListType b!"A" = true ∧ Re.matchBytes Gen.patSpaceSeparatedTokens b!"a b-c_d" = true ∧
    Re.matchBytes Gen.patNumber b!"-1.5e+3" = true ∧ Re.matchBytes Gen.patNumberOrPercent b!"50%" = true ∧
    Re.matchBytes Gen.patParagraph b!"Hello, world! (it's [ok])" = true := by decide

/-- and near misses are rejected (tests on literals, not the unbounded claim) -/
example : Re.matchBytes Gen.patISO8601 b!"2000-01-01T00:00:00<1" = false ∧
          Re.matchBytes Gen.patInteger b!"1<" = false ∧ Re.matchBytes Gen.patCellAlign b!"center\n" = false := by decide

set_option maxRecDepth 100000 in
theorem exported_anchored : ∀ nr ∈ Gen.exportedMatchers, Re.anchoredBoth nr.2 = true := by decide

/-- **C19, "matches against the whole value"**: for each of the exported matchers (regenerated from
    helpers.go), `MatchString` is true exactly when the expression matches, in the declarative
    relation `Re.Matches`, from the first rune of the value to its end — never a part of it -/
theorem C19_whole_value : ∀ nr ∈ Gen.exportedMatchers, ∀ v : Bytes,
    Re.matchBytes nr.2 v = true ↔ ∃ p', Re.Matches nr.2 .none (decodeRunes v) p' [] := by
  intro nr hnr v
  exact Re.search_anchored nr.2 (exported_anchored nr hnr) (decodeRunes v)

end BM.Props
