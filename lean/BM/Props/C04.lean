import BM.Shipped
import BM.Proofs.Escape
import BM.Proofs.Step
import BM.Proofs.RoundTrip
/-
  C04 (Strict half): for every input, StrictPolicy returns text with no markup at all.
  Proved for the model at byte level, which is stronger than the tokenizer-level reading:
  the output contains neither `<` nor `>`.
-/
namespace BM.Props
open BM BM.Html

/-- a policy that allows no element at all, keeps no comments and inserts no spaces -/
structure Bare (p : Policy) : Prop where
  inited : p.initialized = true
  els : p.elsAndAttrs = []
  elsm : p.elsMatchingAndAttrs = []
  comments : p.allowComments = false
  spaces : p.addSpaces = false
  noUnsafe : p.allowUnsafe = false

theorem bare_attrRulesFor {p : Policy} (h : Bare p) (el : Bytes) : p.attrRulesFor el = none := by
  simp [Policy.attrRulesFor, Policy.matchRegex, h.els, h.elsm, Map.get?]

theorem bare_ensureInit {p : Policy} (h : Bare p) : p.ensureInit = p := by
  simp [Policy.ensureInit, h.inited]

theorem bare_space {p : Policy} (h : Bare p) : p.space = [] := by
  simp [Policy.space, h.spaces]

/-- every write of a bare policy is an escaped text -/
theorem bare_step_writes {p : Policy} (h : Bare p) (st : LoopState) (t : Token)
    (st' : LoopState) (ws : List Write) (hs : p.step st t = some (st', ws)) :
    ∀ w ∈ ws, ∃ d, w.data = escape d := by
  have he := step_emit p st t st' ws hs
  cases he with
  | nothing => simp
  | space hsp => simp [h.spaces] at hsp
  | comment _ hc => simp [h.comments] at hc
  | openTag aps _ _ haps _ _ _ _ => simp [bare_attrRulesFor h] at haps
  | closeTag _ _ hall => simp [h.els, h.elsm, Map.contains, Map.get?] at hall
  | text htt _ _ => intro w hw; simp at hw; subst hw; exact ⟨t.data, by simp [Token.render, htt]⟩
  | rawText _ hu _ => simp [h.noUnsafe] at hu

theorem bare_run_writes {p : Policy} (h : Bare p) (ts : List Token) :
    ∀ (st : LoopState), ∀ w ∈ (p.run st ts).1, ∃ d, w.data = escape d := by
  induction ts with
  | nil => intro st w hw; simp [Policy.run] at hw
  | cons t ts ih =>
    intro st w hw
    unfold Policy.run at hw
    split at hw
    · simp at hw
    · rename_i st' ws hs
      simp only [List.mem_append] at hw
      rcases hw with hw | hw
      · exact bare_step_writes h st t st' ws hs w hw
      · exact ih st' w hw

/-- no `<` and no `>` anywhere in what a bare policy writes, for every input -/
theorem bare_no_markup {p : Policy} (h : Bare p) (input : Bytes) :
    ∀ c ∈ p.sanitizeCore input, c ≠ 60 ∧ c ≠ 62 := by
  intro c hc
  simp only [Policy.sanitizeCore, bare_ensureInit h, Policy.sanitizeTokens, List.mem_flatten, List.mem_map] at hc
  obtain ⟨l, ⟨w, hw, rfl⟩, hcl⟩ := hc
  obtain ⟨d, hd⟩ := bare_run_writes h (tokenize input) {} w hw
  rw [hd] at hcl
  have := escape_no_special d c hcl
  exact ⟨this.1, this.2.1⟩

theorem strict_is_bare : Bare strictPolicy :=
  ⟨rfl, rfl, rfl, rfl, rfl, rfl⟩

/-- **C04, Strict**: `StrictPolicy().Sanitize*` never emits `<` or `>` (non-blank input). -/
theorem C04_strict_no_markup (input : Bytes) :
    ∀ c ∈ strictPolicy.sanitizeCore input, c ≠ 60 ∧ c ≠ 62 :=
  bare_no_markup strict_is_bare input

/-- the whole output of a bare policy is the escaping of one string (the visible text) -/
theorem bare_output_escape {p : Policy} (h : Bare p) (input : Bytes) :
    ∃ D, p.sanitizeCore input = escape D := by
  have hw := bare_run_writes h (tokenize input) {}
  unfold Policy.sanitizeCore Policy.sanitizeTokens
  rw [bare_ensureInit h]
  generalize (p.run {} (tokenize input)).1 = ws at hw
  induction ws with
  | nil => exact ⟨[], rfl⟩
  | cons w ws ih =>
    obtain ⟨d, hd⟩ := hw w (by simp)
    obtain ⟨D, hD⟩ := ih (fun w' hw' => hw w' (by simp [hw']))
    refine ⟨d ++ D, ?_⟩
    simp only [List.map_cons, List.flatten_cons, hd, hD, escape_append]

/-- what a bare policy does to an already escaped text: it reads it as one text token and
    writes the same escaping again -/
theorem bare_on_escaped {p : Policy} (h : Bare p) (D : Bytes) : p.sanitizeCore (escape D) = escape D := by
  by_cases hD : D = []
  · subst hD
    simp [Policy.sanitizeCore, Policy.sanitizeTokens, escape, tokenize, tokenizeAux, next, Policy.run]
  · rw [Policy.sanitizeCore, bare_ensureInit h, tokenize_escape D hD]
    have hstep : p.step {} ⟨.text, D, []⟩ = some ({}, [⟨escape D⟩]) := by
      simp [Policy.step, Policy.stepText, isScriptOrStyle, Token.render]
    simp [Policy.sanitizeTokens, Policy.run, hstep]

/-- **C20 for Strict (and every bare policy), byte level**: sanitising the output again
    changes nothing — escaping is not applied twice -/
theorem bare_idempotent {p : Policy} (h : Bare p) (input : Bytes) :
    p.sanitizeCore (p.sanitizeCore input) = p.sanitizeCore input := by
  obtain ⟨D, hD⟩ := bare_output_escape h input
  rw [hD]; exact bare_on_escaped h D

theorem C20_strict_idempotent (input : Bytes) :
    strictPolicy.sanitizeCore (strictPolicy.sanitizeCore input) = strictPolicy.sanitizeCore input :=
  bare_idempotent strict_is_bare input

/-- non-vacuity: the theorem speaks about a run that really writes something -/
example : strictPolicy.sanitizeCore b!"<b>1 < 2</b>" = b!"1 &lt; 2" := by decide

end BM.Props
