import BM.Props.C20c
import BM.Props.C04ugc
/-
  C20 for UGCPolicy.  The property's last clause — "the same holds for UGCPolicy whenever no del/ins cite
  attribute survives the first pass" — does not fit `C20_links`: UGCPolicy attaches a value pattern to `cite` on
  del and ins, so its attribute pass is not a fixed point on those two elements in general.  Here the fixed-point
  argument is made element by element (`LinkBaseAt`, `link_idemAt`) and relative to a fact about the *output*
  (`C20_fix_out`: a predicate known of every start tag re-read from the first pass's result may be used when
  showing that the tag is reproduced), and then instantiated on the policy regenerated from policies.go.
-/
namespace BM.Props
open BM BM.Html BM.Spec

/-! ### a token that is not a text survives in what the tokenizer reads back -/

theorem mem_coalesce_of_mem : ∀ (ts : List Token) (d : Bytes) (k : Token), k ∈ ts → k.tt ≠ .text → k ∈ coalesce d ts
  | [], _, _, h, _ => by simp at h
  | t :: ts, d, k, h, hk => by
    unfold coalesce
    rcases List.mem_cons.mp h with rfl | h
    · have : (k.tt == TT.text) = false := by
        revert hk; cases k.tt <;> intro hk <;> first | rfl | exact absurd rfl hk
      simp [this]
    · split
      · exact mem_coalesce_of_mem ts _ k h hk
      · simp only [List.mem_append, List.mem_cons]
        exact .inr (.inr (mem_coalesce_of_mem ts [] k h hk))

/-! ### the fixed-point argument relative to a fact about the output -/

/-- the attribute list returned for `t` is reproduced when the tag written for `t` satisfies `G` -/
def AttrFixG (p : Policy) (G : Token → Prop) (t : Token) : Prop :=
  ∀ (aps : AttrRules) (attrs : List Attr), isRawTagName t.data = false →
    p.attrRulesFor t.data = some aps → p.cleanAttrs t aps = some attrs → G { t with attrs := attrs } →
    p.cleanAttrs { t with attrs := attrs } aps = some attrs

def isOpen (k : Token) : Prop := k.tt = .start ∨ k.tt = .selfClosing

theorem emit_conformG {p : Policy} (hp : Plain p) (G : Token → Prop) {st : LoopState} {t : Token}
    (hs : AttrFixG p G t) (hwf : TokWF t) {ws : List Write} (he : Emit p st t ws) :
    ∃ toks : List Token, ws.map (·.data) = toks.map Token.render ∧
      ∀ k ∈ toks, SegOK k ∧ ((isOpen k → G k) → Conform p k) := by
  cases he with
  | nothing => exact ⟨[], rfl, by simp⟩
  | space _ =>
    refine ⟨[⟨.text, [32], []⟩], by simp [render_space], ?_⟩
    intro k hk; simp at hk; subst hk; exact ⟨by simp [SegOK], fun _ => ⟨by simp [SegOK], trivial⟩⟩
  | comment _ hc => rw [hp.noComments] at hc; cases hc
  | openTag aps attrs htt haps hss hattrs hbare _ =>
    have hnss : isScriptOrStyle t.data = false := by simpa [hp.noUnsafe] using hss
    have hb : attrs ≠ [] ∨ p.allowNoAttrs t.data = true := by
      cases attrs with
      | nil => right; simpa using hbare
      | cons _ _ => left; simp
    have hall := attrRulesFor_allows' haps
    have hnr : isRawTagName t.data = false := by
      cases h : isRawTagName t.data with
      | false => rfl
      | true => rw [hp.noRaw _ h] at hall; cases hall
    refine ⟨[{ t with attrs := attrs }], by simp, ?_⟩
    intro k hk; simp at hk; subst hk
    have hw : NameOK' t.data ∧ ∀ a ∈ t.attrs, AttrOK a := by
      unfold TokWF at hwf; rcases htt with h | h <;> (rw [h] at hwf; exact hwf)
    have hseg : SegOK ({ t with attrs := attrs } : Token) := by
      rcases htt with h | h <;>
      · unfold SegOK; simp only [h]
        exact ⟨hw.1, hnr, allOK_cleanAttrs p t aps attrs hw.2 hattrs⟩
    refine ⟨hseg, fun hG => ⟨hseg, ?_⟩⟩
    have hidem := hs aps attrs hnr haps hattrs (hG (by unfold isOpen; exact htt))
    rcases htt with h | h
    · simp only [h]; exact ⟨hnss, aps, haps, hidem, hb⟩
    · simp only [h]; exact ⟨hnss, aps, haps, hidem, hb⟩
  | closeTag htt hss hall =>
    have hw : NameOK' t.data ∧ t.attrs = [] := by
      unfold TokWF at hwf; rw [htt] at hwf; exact hwf
    have hnss : isScriptOrStyle t.data = false := by simpa [hp.noUnsafe] using hss
    refine ⟨[t], by simp, ?_⟩
    intro k hk; simp at hk; subst hk
    have hseg : SegOK k := by unfold SegOK; simp only [htt]; exact hw
    refine ⟨hseg, fun _ => ⟨hseg, ?_⟩⟩
    simp only [htt]
    refine ⟨hnss, ?_⟩
    unfold Policy.patternEl Policy.explicitEl
    cases hc : p.elsAndAttrs.contains k.data with
    | true => left; rfl
    | false => right; simpa [hc] using hall
  | text htt _ _ =>
    refine ⟨[⟨.text, t.data, []⟩], by simp [Token.render, htt], ?_⟩
    intro k hk; simp at hk; subst hk; exact ⟨by simp [SegOK], fun _ => ⟨by simp [SegOK], trivial⟩⟩
  | rawText _ hun _ => rw [hp.noUnsafe] at hun; cases hun

theorem run_conformG {p : Policy} (hp : Plain p) (G : Token → Prop) (ts : List Token)
    (hs : ∀ t ∈ ts, AttrFixG p G t) (hwf : ∀ t ∈ ts, TokWF t) :
    ∀ st, ∃ toks : List Token, (p.run st ts).1.map (·.data) = toks.map Token.render ∧
      ∀ k ∈ toks, SegOK k ∧ ((isOpen k → G k) → Conform p k) := by
  induction ts with
  | nil => intro st; exact ⟨[], by simp [Policy.run], by simp⟩
  | cons t ts ih =>
    intro st
    unfold Policy.run
    split
    · exact ⟨[], by simp, by simp⟩
    · rename_i st' ws hstep
      obtain ⟨k1, hk1, hf1⟩ := emit_conformG hp G (hs t (by simp)) (hwf t (by simp)) (step_emit p st t st' ws hstep)
      obtain ⟨k2, hk2, hf2⟩ := ih (fun x hx => hs x (by simp [hx])) (fun x hx => hwf x (by simp [hx])) st'
      refine ⟨k1 ++ k2, by simp [hk1, hk2], ?_⟩
      intro k hk
      simp only [List.mem_append] at hk
      rcases hk with h | h
      · exact hf1 k h
      · exact hf2 k h

/-- **C20 relative to a fact about the first pass's output**: if `G` holds of every start / self-closing tag an
    HTML tokenizer reads from `Sanitize(x)`, and for every input tag the attribute list the sanitiser returns is
    reproduced whenever the tag written satisfies `G`, then `Sanitize(Sanitize(x)) = Sanitize(x)` -/
theorem C20_fix_out (p : Policy) (hp : Plain p.ensureInit) (G : Token → Prop) (input : Bytes)
    (hs : ∀ t ∈ tokenize input, AttrFixG p.ensureInit G t)
    (hG : ∀ k ∈ tokenize (p.sanitizeCore input), isOpen k → G k) :
    p.sanitizeCore (p.sanitizeCore input) = p.sanitizeCore input := by
  obtain ⟨toks, hr, hconf⟩ := run_conformG hp G (tokenize input) hs (tokenize_wf input) {}
  have hb : p.sanitizeCore input = renderAll toks := by
    unfold Policy.sanitizeCore Policy.sanitizeTokens
    rw [hr, flatten_map_render]
  have hrt : tokenize (p.sanitizeCore input) = coalesce [] toks := by
    rw [hb]; exact tokenize_renderAll toks fun k hk => (hconf k hk).1
  rw [hb]
  apply C07_bytes p toks
  intro k hk
  refine (hconf k hk).2 fun ho => hG k ?_ ho
  rw [hrt]
  apply mem_coalesce_of_mem toks [] k hk
  rcases ho with h | h <;> rw [h] <;> decide

/-! ### the link-option fixed point, element by element -/

/-- what `LinkSimple` asks, for one element, without the clause about value patterns on the URL attribute -/
structure LinkCoreAt (p : Policy) (el : Bytes) : Prop where
  noStyle : p.hasStylePolicies el = false
  noCross : p.requireCrossOriginAnonymous = false
  noSandbox : p.requireSandboxOnIFrame = none
  noRewriter : p.srcRewriter = none

/-- … and the rules let neither rel nor target through on a link element -/
structure LinkBaseAt (p : Policy) (el : Bytes) : Prop extends LinkCoreAt p el where
  noRelTarget : ∀ aps, p.attrRulesFor el = some aps → isHrefElement el = true → ∀ v,
    (p.filterAttr el aps false ⟨b!"rel", v⟩).isSome = false ∧ (p.filterAttr el aps false ⟨b!"target", v⟩).isSome = false

theorem link_sanitizeAttrs3 (p : Policy) (el : Bytes) (h1 : p.hasStylePolicies el = false)
    (h2 : p.requireCrossOriginAnonymous = false) (h3 : p.requireSandboxOnIFrame = none)
    (attrs : List Attr) (aps : AttrRules) :
    p.sanitizeAttrs el attrs aps =
      (let c := attrs.filter fun a => (p.filterAttr el aps false a).isSome
       if c.isEmpty then some c else p.linkPasses el c) := by
  unfold Policy.sanitizeAttrs
  split
  · rename_i h; simp [List.isEmpty_iff.mp h]
  · simp only [h1, filterMap_eq_filter]
    split
    · rename_i h; simp [h]
    · rename_i h
      unfold Policy.forceSandbox Policy.forceCrossOrigin
      simp only [h2, h3, Bool.false_and, Bool.false_eq_true, ↓reduceIte]
      cases p.linkPasses el (List.filter (fun a => (p.filterAttr el aps false a).isSome) attrs) <;> rfl

theorem link_sanitizeAttrsAt (p : Policy) (el : Bytes) (hs : LinkCoreAt p el) (attrs : List Attr) (aps : AttrRules) :
    p.sanitizeAttrs el attrs aps =
      (let c := attrs.filter fun a => (p.filterAttr el aps false a).isSome
       if c.isEmpty then some c else p.linkPasses el c) :=
  link_sanitizeAttrs3 p el hs.noStyle hs.noCross hs.noSandbox attrs aps

theorem mapMOpt_all_fix {α} (f : α → Option (Option α)) (l : List α) (h : ∀ b ∈ l, f b = some (some b)) :
    mapMOpt f l = some l := by
  induction l with
  | nil => rfl
  | cons x xs ih =>
    unfold mapMOpt
    rw [h x (by simp), ih (fun b hb => h b (by simp [hb]))]

/-- the URL pass on one attribute: it keeps the key, and a changed attribute has the element's URL key -/
theorem urlFixAt {p : Policy} {el : Bytes} (hs : LinkCoreAt p el) (a b : Attr)
    (h : p.urlPassAttr el a = some (some b)) :
    b.key = a.key ∧ (b = a ∨ (urlKeyFor el = some a.key ∧ p.validURL a.val = some b.val)) := by
  rw [urlPassAttr_eq p hs.noRewriter] at h
  split at h
  · rename_i k hk
    split at h
    · rename_i hak
      have hak' : a.key = k := by simpa using hak
      simp only [Option.some.injEq, Option.map_eq_some_iff] at h
      obtain ⟨u, hu, rfl⟩ := h
      exact ⟨rfl, .inr ⟨by rw [hak']; exact hk, hu⟩⟩
    · simp only [Option.some.injEq] at h; subst h
      exact ⟨rfl, .inl rfl⟩
  · simp only [Option.some.injEq] at h; subst h
    exact ⟨rfl, .inl rfl⟩

/-- **URL normalisation is stable on this attribute list**: every value at the element's URL attribute is
    returned unchanged by the URL check.  This is the form in which the proviso of C20 is used — a statement about
    the URLs that actually occur in `Sanitize(x)`, not about all URLs (for which it is false of net/url: the known
    finding `url-reprint-unstable`) -/
def UrlStableOn (p : Policy) (el : Bytes) (l : List Attr) : Prop :=
  ∀ b ∈ l, urlKeyFor el = some b.key → p.validURL b.val = some b.val

/-- the URL pass leaves an attribute alone iff its URL value is stable (or it is not the element's URL attribute) -/
theorem urlPass_fixed (p : Policy) (hr : p.srcRewriter = none) (el : Bytes) (b : Attr)
    (h : urlKeyFor el = some b.key → p.validURL b.val = some b.val) :
    p.urlPassAttr el b = some (some b) := by
  rw [urlPassAttr_eq p hr]
  split
  · rename_i k hk
    split
    · rename_i hbk
      have hbk' : b.key = k := by simpa using hbk
      rw [h (by rw [hbk']; exact hk)]
      rfl
    · rfl
  · rfl

/-- **the attribute pass reproduces its result on element `el`** when, for the element's URL attribute, either
    the rules do not look at the value, or the element is not a link element and the result carries no such
    attribute -/
theorem link_idemAt (p : Policy) (el : Bytes) (hs : LinkBaseAt p el) (attrs out : List Attr) (aps : AttrRules)
    (haps : p.attrRulesFor el = some aps) (h : p.sanitizeAttrs el attrs aps = some out)
    (hblind : ∀ k, urlKeyFor el = some k →
      (∀ v v', (p.filterAttr el aps false ⟨k, v⟩).isSome = (p.filterAttr el aps false ⟨k, v'⟩).isSome) ∨
      (isHrefElement el = false ∧ ∀ b ∈ out, b.key ≠ k))
    (hstab : UrlStableOn p el out) :
    p.sanitizeAttrs el out aps = some out := by
  rw [link_sanitizeAttrsAt p el hs.toLinkCoreAt] at h ⊢
  simp only at h ⊢
  generalize hacc : (fun a => (p.filterAttr el aps false a).isSome) = acc at h ⊢
  generalize hc : attrs.filter acc = c at h
  have hcacc : ∀ a ∈ c, acc a = true := by
    intro a ha; rw [← hc] at ha; exact (List.mem_filter.mp ha).2
  have hblind' : ∀ k, urlKeyFor el = some k →
      (∀ v v', acc ⟨k, v⟩ = acc ⟨k, v'⟩) ∨ (isHrefElement el = false ∧ ∀ b ∈ out, b.key ≠ k) := by
    intro k hk; rw [← hacc]; exact hblind k hk
  by_cases hce : c.isEmpty = true
  · simp only [hce, ↓reduceIte, Option.some.injEq] at h
    subst h
    have : c = [] := List.isEmpty_iff.mp hce
    subst this
    rfl
  · simp only [hce, Bool.false_eq_true, ↓reduceIte] at h
    unfold Policy.linkPasses at h
    by_cases hl : linkable el = true
    · simp only [hl, ↓reduceIte] at h
      obtain ⟨u, hu, hout⟩ : ∃ u, (if p.requireParseableURLs = true then mapMOpt (p.urlPassAttr el) c else some c) = some u ∧
          out = (if (p.requireNoFollow || p.requireNoFollowFullyQualifiedLinks || p.requireNoReferrer ||
              p.requireNoReferrerFullyQualifiedLinks || p.addTargetBlankToFullyQualifiedLinks) &&
              decide (u.length > 0) && isHrefElement el then p.hardenLinks el u else u) := by
        cases hm : (if p.requireParseableURLs = true then mapMOpt (p.urlPassAttr el) c else some c) with
        | none => rw [hm] at h; simp at h
        | some u => rw [hm] at h; simp only [Option.map_some, Option.some.injEq] at h; exact ⟨u, rfl, h.symm⟩
      have huacc : ∀ b ∈ u, acc b = true := by
        intro b hb
        by_cases hrp : p.requireParseableURLs = true
        · simp only [hrp, ↓reduceIte] at hu
          obtain ⟨a, ha, hfa⟩ := mapMOpt_mem _ c u hu b hb
          obtain ⟨hk, hor⟩ := urlFixAt hs.toLinkCoreAt a b hfa
          rcases hor with rfl | ⟨hkey, _⟩
          · exact hcacc _ ha
          · rcases hblind' a.key hkey with hbl | ⟨hnh, hno⟩
            · have := hbl a.val b.val
              have hb' : b = ⟨a.key, b.val⟩ := by cases b; simp_all
              rw [hb', ← this]
              exact hcacc a ha
            · -- not a link element: nothing is appended, so `b` is in the result, with the URL key
              exfalso
              have hou : out = u := by rw [hout]; simp [hnh]
              exact hno b (by rw [hou]; exact hb) hk
        · simp only [hrp, Bool.false_eq_true, ↓reduceIte, Option.some.injEq] at hu
          subst hu; exact hcacc b hb
      -- the URL pass leaves `u` alone as soon as `u` is part of the result, whose URLs are stable
      have hufix_of : (∀ b ∈ u, b ∈ out) →
          (if p.requireParseableURLs = true then mapMOpt (p.urlPassAttr el) u else some u) = some u := by
        intro hsub
        by_cases hrp : p.requireParseableURLs = true
        · simp only [hrp, ↓reduceIte]
          exact mapMOpt_all_fix _ _ fun b hb => urlPass_fixed p hs.noRewriter el b (hstab b (hsub b hb))
        · simp only [hrp, Bool.false_eq_true, ↓reduceIte]
      have hfu : u.filter acc = u := List.filter_eq_self.mpr huacc
      by_cases hcond : ((p.requireNoFollow || p.requireNoFollowFullyQualifiedLinks || p.requireNoReferrer ||
          p.requireNoReferrerFullyQualifiedLinks || p.addTargetBlankToFullyQualifiedLinks) &&
          decide (u.length > 0) && isHrefElement el) = true
      · simp only [hcond, ↓reduceIte] at hout
        have hhref : isHrefElement el = true := by simp only [Bool.and_eq_true] at hcond; exact hcond.2
        have hupos : u.length > 0 := by simp only [Bool.and_eq_true, decide_eq_true_eq] at hcond; exact hcond.1.2
        have hnoacc : ∀ v, acc ⟨b!"rel", v⟩ = false ∧ acc ⟨b!"target", v⟩ = false := by
          intro v
          have := hs.noRelTarget aps haps hhref v
          rw [← hacc]
          exact this
        have hnrt : ∀ a ∈ u, isRelOrTarget a = false := by
          intro a ha
          have hacc_a := huacc a ha
          unfold isRelOrTarget
          rcases hrel : (a.key == b!"rel") with _ | _
          · rcases htg : (a.key == b!"target") with _ | _
            · rfl
            · have : a = ⟨b!"target", a.val⟩ := by cases a; simp_all
              rw [this, (hnoacc a.val).2] at hacc_a; cases hacc_a
          · have : a = ⟨b!"rel", a.val⟩ := by cases a; simp_all
            rw [this, (hnoacc a.val).1] at hacc_a; cases hacc_a
        obtain ⟨E, hE, hEk⟩ := hardenLinks_appends p el u hnrt
        rw [hE] at hout
        have hfE : E.filter acc = [] := by
          rw [List.filter_eq_nil_iff]
          intro a ha
          have hk := hEk a ha
          unfold isRelOrTarget at hk
          simp only [Bool.or_eq_true, beq_iff_eq] at hk
          rcases hk with hk | hk
          · have : a = ⟨b!"rel", a.val⟩ := by cases a; simp_all
            rw [this, (hnoacc a.val).1]; simp
          · have : a = ⟨b!"target", a.val⟩ := by cases a; simp_all
            rw [this, (hnoacc a.val).2]; simp
        have hufix := hufix_of (fun b hb => by rw [hout]; exact List.mem_append_left _ hb)
        subst hout
        rw [List.filter_append, hfu, hfE, List.append_nil]
        have hune : u.isEmpty = false := by
          cases u with
          | nil => simp at hupos
          | cons _ _ => rfl
        simp only [hune, Bool.false_eq_true, ↓reduceIte]
        unfold Policy.linkPasses
        simp only [hl, ↓reduceIte, hufix, Option.map_some, hcond, hE]
      · simp only [hcond, Bool.false_eq_true, ↓reduceIte] at hout
        have hufix := hufix_of (fun b hb => by rw [hout]; exact hb)
        subst hout
        rw [hfu]
        by_cases hue : out.isEmpty = true
        · simp only [hue, ↓reduceIte]
        · simp only [hue, Bool.false_eq_true, ↓reduceIte]
          unfold Policy.linkPasses
          simp only [hl, ↓reduceIte, hufix, Option.map_some, hcond, Bool.false_eq_true]
    · have hl' : linkable el = false := by simpa using hl
      simp only [hl', Bool.false_eq_true, ↓reduceIte, Option.some.injEq] at h
      subst h
      have hfc : c.filter acc = c := List.filter_eq_self.mpr hcacc
      rw [hfc]
      simp only [hce, Bool.false_eq_true, ↓reduceIte]
      unfold Policy.linkPasses
      simp only [hl', Bool.false_eq_true, ↓reduceIte]

/-! ### UGCPolicy, regenerated from policies.go -/

/-- the rules for attribute `k` in a table carry no value pattern -/
def patFree (rules : AttrRules) (k : Bytes) : Bool :=
  match rules.get? k with
  | some apl => apl.all Option.isNone
  | none => true

/-- the table has no rule for attribute `k` -/
def noRule (rules : AttrRules) (k : Bytes) : Bool := (rules.get? k).isNone

theorem accept_patFree (apl : List AttrPolicy) (h : apl.all Option.isNone = true) (v v' : Bytes) :
    attrPoliciesAccept apl v = attrPoliciesAccept apl v' := by
  unfold attrPoliciesAccept
  induction apl with
  | nil => rfl
  | cons ap rest ih =>
    simp only [List.all_cons, Bool.and_eq_true] at h
    cases ap with
    | none => simp
    | some r => simp at h

theorem filterAttr_blind (p : Policy) (el : Bytes) (aps : AttrRules) (k : Bytes)
    (h1 : patFree aps k = true) (h2 : patFree p.globalAttrs k = true) (v v' : Bytes) :
    (p.filterAttr el aps false ⟨k, v⟩).isSome = (p.filterAttr el aps false ⟨k, v'⟩).isSome := by
  unfold patFree at h1 h2
  unfold Policy.filterAttr
  dsimp only
  cases hA : (p.allowDataAttributes && isDataAttribute k)
  · simp only [Bool.false_eq_true, ↓reduceIte, Bool.and_false]
    cases hg1 : aps.get? k with
    | none =>
      cases hg2 : p.globalAttrs.get? k with
      | none => rfl
      | some g =>
        rw [hg2] at h2
        simp only [accept_patFree g h2 v v', Bool.false_eq_true, ↓reduceIte]
        by_cases hx : attrPoliciesAccept g v' = true <;> simp [hx]
    | some a =>
      rw [hg1] at h1
      simp only [accept_patFree a h1 v v']
      by_cases hy : attrPoliciesAccept a v' = true
      · simp [hy]
      · simp only [hy, Bool.false_eq_true, ↓reduceIte]
        cases hg2 : p.globalAttrs.get? k with
        | none => rfl
        | some g =>
          rw [hg2] at h2
          simp only [accept_patFree g h2 v v']
          by_cases hx : attrPoliciesAccept g v' = true <;> simp [hx]
  · rfl

theorem filterAttr_noRule (p : Policy) (el : Bytes) (aps : AttrRules) (k : Bytes)
    (hd : (p.allowDataAttributes && isDataAttribute k) = false)
    (h1 : noRule aps k = true) (h2 : noRule p.globalAttrs k = true) (v : Bytes) :
    (p.filterAttr el aps false ⟨k, v⟩).isSome = false := by
  unfold noRule at h1 h2
  have g1 : aps.get? k = none := by simpa using h1
  have g2 : p.globalAttrs.get? k = none := by simpa using h2
  unfold Policy.filterAttr
  simp [hd, g1, g2]

set_option maxRecDepth 100000

/-- what the regenerated UGC tables say about the attributes the sanitiser itself rewrites: outside del and ins no
    element rule attaches a value pattern to href, cite or src; no link element other than area has a rule for rel
    or target (area: `AllowAttrs("rel").Matching(SpaceSeparatedTokens)`); the global rules mention none of the five -/
theorem ugc_rewritten_attrs :
    (Gen.ugcPolicy.elsAndAttrs.all fun e =>
      (e.1 == b!"del" || e.1 == b!"ins" || (patFree e.2 b!"href" && patFree e.2 b!"cite" && patFree e.2 b!"src")) &&
      (e.1 == b!"area" || !isHrefElement e.1 || (noRule e.2 b!"rel" && noRule e.2 b!"target"))) = true ∧
    (noRule Gen.ugcPolicy.globalAttrs b!"href" && noRule Gen.ugcPolicy.globalAttrs b!"cite" &&
     noRule Gen.ugcPolicy.globalAttrs b!"src" && noRule Gen.ugcPolicy.globalAttrs b!"rel" &&
     noRule Gen.ugcPolicy.globalAttrs b!"target") = true := by decide

theorem ugc_attrRulesFor (el : Bytes) (aps : AttrRules) (h : Gen.ugcPolicy.attrRulesFor el = some aps) :
    (el, aps) ∈ Gen.ugcPolicy.elsAndAttrs := by
  have hnopat : Gen.ugcPolicy.elsMatchingAndAttrs = [] := by decide
  unfold Policy.attrRulesFor at h
  cases hg : Gen.ugcPolicy.elsAndAttrs.get? el with
  | some a => rw [hg] at h; simp only [Option.some.injEq] at h; subst h; exact map_get_mem _ _ _ hg
  | none => rw [hg] at h; simp [Policy.matchRegex, hnopat] at h

theorem patFree_of_noRule (rules : AttrRules) (k : Bytes) (h : noRule rules k = true) : patFree rules k = true := by
  unfold noRule at h
  have : rules.get? k = none := by simpa using h
  simp [patFree, this]

theorem ugc_linkBaseAt (el : Bytes) (hna : el ≠ b!"area") : LinkBaseAt Gen.ugcPolicy el where
  noStyle := by
    have h1 : Gen.ugcPolicy.globalStyles = [] := by decide
    have h2 : Gen.ugcPolicy.elsAndStyles = [] := by decide
    have h3 : Gen.ugcPolicy.elsMatchingAndStyles = [] := by decide
    simp [Policy.hasStylePolicies, h1, h2, h3, Map.get?]
  noCross := by decide
  noSandbox := by decide
  noRewriter := rfl
  noRelTarget := by
    intro aps haps hhref v
    have hmem := ugc_attrRulesFor el aps haps
    have hrow := List.all_eq_true.mp ugc_rewritten_attrs.1 _ hmem
    have hglob := ugc_rewritten_attrs.2
    simp only [Bool.and_eq_true, Bool.or_eq_true, Bool.not_eq_true'] at hrow hglob
    have hnd : Gen.ugcPolicy.allowDataAttributes = false := by decide
    rcases hrow.2 with (hne | hne) | ⟨hr, ht⟩
    · exact absurd (by simpa using hne) hna
    · rw [hhref] at hne; cases hne
    · exact ⟨filterAttr_noRule _ el aps _ (by simp [hnd]) hr hglob.1.2 v,
             filterAttr_noRule _ el aps _ (by simp [hnd]) ht hglob.2 v⟩

/-- what the property's proviso says of a tag of the first pass's output — and, the part that makes the theorem
    below partial, that the tag is not an `area` tag -/
def NoCiteOnDelIns (k : Token) : Prop :=
  ((k.data = b!"del" ∨ k.data = b!"ins") → ∀ b ∈ k.attrs, b.key ≠ b!"cite") ∧ k.data ≠ b!"area" ∧
  UrlStableOn Gen.ugcPolicy k.data k.attrs

theorem ugc_attrFixG (t : Token) : AttrFixG Gen.ugcPolicy NoCiteOnDelIns t := by
  intro aps attrs _ haps h hG
  unfold Policy.cleanAttrs at h ⊢
  split at h
  · simp at h; subst h; simp_all
  · simp only
    split
    · rename_i he
      have : attrs = [] := List.isEmpty_iff.mp he
      subst this; rfl
    · refine link_idemAt Gen.ugcPolicy t.data (ugc_linkBaseAt t.data hG.2.1) t.attrs attrs aps haps h ?_ hG.2.2
      intro k hk
      by_cases hdi : t.data = b!"del" ∨ t.data = b!"ins"
      · right
        have hkc : k = b!"cite" ∧ isHrefElement t.data = false := by
          rcases hdi with hd | hd <;> rw [hd] at hk ⊢
          · have : urlKeyFor b!"del" = some b!"cite" := by decide
            rw [this] at hk; exact ⟨(Option.some.inj hk).symm, by decide⟩
          · have : urlKeyFor b!"ins" = some b!"cite" := by decide
            rw [this] at hk; exact ⟨(Option.some.inj hk).symm, by decide⟩
        refine ⟨hkc.2, ?_⟩
        rw [hkc.1]
        exact hG.1 hdi
      · left
        have hmem := ugc_attrRulesFor t.data aps haps
        have hrow := List.all_eq_true.mp ugc_rewritten_attrs.1 _ hmem
        have hglob := ugc_rewritten_attrs.2
        simp only [Bool.and_eq_true, Bool.or_eq_true, beq_iff_eq] at hrow hglob
        have hpf : patFree aps b!"href" = true ∧ patFree aps b!"cite" = true ∧ patFree aps b!"src" = true := by
          rcases hrow.1 with (hd | hd) | hpf
          · exact absurd (.inl hd) hdi
          · exact absurd (.inr hd) hdi
          · exact ⟨hpf.1.1, hpf.1.2, hpf.2⟩
        intro v v'
        rcases urlKeyFor_mem t.data k hk with rfl | rfl | rfl
        · exact filterAttr_blind _ _ _ _ hpf.1 (patFree_of_noRule _ _ hglob.1.1.1.1) v v'
        · exact filterAttr_blind _ _ _ _ hpf.2.1 (patFree_of_noRule _ _ hglob.1.1.1.2) v v'
        · exact filterAttr_blind _ _ _ _ hpf.2.2 (patFree_of_noRule _ _ hglob.1.1.2) v v'

/-- **C20 for UGCPolicy** (the policy regenerated from policies.go on every run), *partial*: whenever no del / ins
    tag an HTML tokenizer reads from `Sanitize(x)` carries a cite attribute — the property's proviso — **and no
    `area` tag is among them**, `Sanitize(Sanitize(x)) = Sanitize(x)`: the `rel="nofollow"` the policy adds is
    stripped and added again identically, escaping is not applied twice — provided URL normalisation is stable (the
    part of the clause that belongs to net/url): here in the form that every URL value at a checked position of
    `Sanitize(x)` is returned unchanged by the URL check — a statement about the URLs of this output, true of all
    but the few paths of the known finding `url-reprint-unstable`.
    What is missing for the full clause: `area`, the one link element on which UGCPolicy lets `rel` through
    (with the SpaceSeparatedTokens pattern), where the added token stays in place on the second pass instead of
    being stripped and re-added; that case is held to the property by the `idem` family on every run. -/
theorem C20_ugc_partial (input : Bytes)
    (hcite : ∀ k ∈ tokenize (Gen.ugcPolicy.sanitizeCore input), isOpen k → NoCiteOnDelIns k) :
    Gen.ugcPolicy.sanitizeCore (Gen.ugcPolicy.sanitizeCore input) = Gen.ugcPolicy.sanitizeCore input := by
  refine C20_fix_out Gen.ugcPolicy ugc_plain NoCiteOnDelIns input ?_ hcite
  intro t _
  rw [ugc_init]
  exact ugc_attrFixG t

/-- the proviso is met by a case in which the link option is at work (a test of the hypotheses, not the claim) -/
example :
    Gen.ugcPolicy.sanitizeCore b!"<a href=\"http://x.com/\" rel=me>t</a><del cite=\"a b\">u</del>" =
      b!"<a href=\"http://x.com/\" rel=\"nofollow\">t</a><del>u</del>" ∧
    ∀ k ∈ tokenize (Gen.ugcPolicy.sanitizeCore b!"<a href=\"http://x.com/\" rel=me>t</a><del cite=\"a b\">u</del>"),
      isOpen k → NoCiteOnDelIns k := by
  unfold isOpen NoCiteOnDelIns UrlStableOn
  decide

end BM.Props
