import BM.Props.C11
import BM.Props.C12
import BM.Proofs.Escape
import BM.Props.C04
/-
  C20: re-sanitising sanitised output is a no-op.  Proved, clause by clause of the statement:
  * "added rel tokens are not repeated": the rel sub-passes are idempotent on values —
    `addRelToken need tok (addRelToken need tok v) = addRelToken need tok v`, and the whole
    rel fix is idempotent;
  * forced attributes re-derive identically: the crossorigin block and the sandbox token
    filter are idempotent;
  * "escaping is not applied twice": an escaped text contains no `<`, so the second pass reads
    it as text again (no markup can appear), and `unescape (escape d) = d` is the round-trip
    lemma (`Proofs/RoundTrip.lean`, as far as it has got).
  Partial: the composition into `S p (S p x) = S p x` for the whole class needs the full
  render/tokenize round trip and a stability lemma for net/url's Parse∘String, which is
  **false** on Go 1.23 for some paths (`/%2f}` ↦ `//%7D`, which does not parse again) — known
  finding `url-reprint-unstable`.  The property is checked end to end by the `idem` family.
-/
namespace BM.Props
open BM BM.Html

theorem addRelToken_idem (need : Bool) (tok v : Bytes) (hw : WsFree tok) :
    addRelToken need tok (addRelToken need tok v) = addRelToken need tok v := by
  cases need with
  | false => simp [addRelToken]
  | true => exact addRelToken_no_dup true tok _ (addRelToken_has tok v hw)

/-- the rel sub-pass applied twice changes nothing more -/
theorem relFix_idem (nf nr : Bool) (a : Attr) : relFix nf nr (relFix nf nr a) = relFix nf nr a := by
  by_cases hk : (a.key == b!"rel" && (nf || nr)) = true
  · have hk' : ((relFix nf nr a).key == b!"rel" && (nf || nr)) = true := by rw [relFix_key]; exact hk
    have e : relFix nf nr a = ⟨a.key, addRelToken nr b!"noreferrer" (addRelToken nf b!"nofollow" a.val)⟩ := by
      simp [relFix, hk]
    rw [e] at hk' ⊢
    simp only [relFix, hk', ↓reduceIte]
    congr 1
    -- nofollow is already a token, so the inner call is the identity; then noreferrer likewise
    have h1 : addRelToken nf b!"nofollow" (addRelToken nr b!"noreferrer" (addRelToken nf b!"nofollow" a.val)) =
        addRelToken nr b!"noreferrer" (addRelToken nf b!"nofollow" a.val) := by
      cases nf with
      | false => simp [addRelToken]
      | true =>
        exact addRelToken_no_dup true _ _
          (addRelToken_keeps nr _ _ _ wsfree_noreferrer (addRelToken_has _ _ wsfree_nofollow))
    rw [h1]
    exact addRelToken_idem nr _ _ wsfree_noreferrer
  · have e : relFix nf nr a = a := by simp [relFix, hk]
    rw [e, e]

theorem setVal_idem (k : Bytes) (v : Bytes) (a : Attr) :
    setVal k (fun _ => v) (setVal k (fun _ => v) a) = setVal k (fun _ => v) a := by
  unfold setVal; split <;> simp_all

/-- an escaped text has no tag opener: read again, it is text and nothing else -/
theorem escaped_text_stays_text (d : Bytes) : ∀ c ∈ escape d, c ≠ 60 :=
  fun c hc => (escape_no_special d c hc).1

/-- **C20 for StrictPolicy, byte level** (from `Props/C04.lean`: the output is one escaped
    string, which the tokenizer reads back as that string — `tokenize_escape`,
    `unescape_escape` — and which is then escaped to the same bytes) -/
theorem C20_strict (input : Bytes) :
    strictPolicy.sanitizeCore (strictPolicy.sanitizeCore input) = strictPolicy.sanitizeCore input :=
  C20_strict_idempotent input

example : addRelToken true b!"nofollow" (addRelToken true b!"nofollow" b!"author") = b!"author nofollow" := by decide

end BM.Props
