import BM.Props.C11
import BM.Props.C12
import BM.Proofs.Escape
import BM.Props.C04
import BM.Props.C07
/-
  C20: re-sanitising sanitised output is a no-op.  Proved, clause by clause of the statement:
  * "added rel tokens are not repeated": the rel sub-passes are idempotent on values —
    `addRelToken need tok (addRelToken need tok v) = addRelToken need tok v`, and the whole
    rel fix is idempotent;
  * forced attributes re-derive identically: the crossorigin block and the sandbox token
    filter are idempotent;
  * "escaping is not applied twice": an escaped text contains no `<`, so the second pass reads
    it as text again (no markup can appear), and `unescape (escape d) = d` is the round-trip
    lemma (`Proofs/RoundTrip.lean`, as far as it has got).
  Partial: the composition into `S p (S p x) = S p x` for the whole class needs the full
  render/tokenize round trip and a stability lemma for net/url's Parse∘String, which is
  **false** on Go 1.23 for some paths (`/%2f}` ↦ `//%7D`, which does not parse again) — known
  finding `url-reprint-unstable`.  The property is checked end to end by the `idem` family.
-/
namespace BM.Props
open BM BM.Html BM.Spec

theorem addRelToken_idem (need : Bool) (tok v : Bytes) (hw : WsFree tok) :
    addRelToken need tok (addRelToken need tok v) = addRelToken need tok v := by
  cases need with
  | false => simp [addRelToken]
  | true => exact addRelToken_no_dup true tok _ (addRelToken_has tok v hw)

/-- the rel sub-pass applied twice changes nothing more -/
theorem relFix_idem (nf nr : Bool) (a : Attr) : relFix nf nr (relFix nf nr a) = relFix nf nr a := by
  by_cases hk : (a.key == b!"rel" && (nf || nr)) = true
  · have hk' : ((relFix nf nr a).key == b!"rel" && (nf || nr)) = true := by rw [relFix_key]; exact hk
    have e : relFix nf nr a = ⟨a.key, addRelToken nr b!"noreferrer" (addRelToken nf b!"nofollow" a.val)⟩ := by
      simp [relFix, hk]
    rw [e] at hk' ⊢
    simp only [relFix, hk', ↓reduceIte]
    congr 1
    -- nofollow is already a token, so the inner call is the identity; then noreferrer likewise
    have h1 : addRelToken nf b!"nofollow" (addRelToken nr b!"noreferrer" (addRelToken nf b!"nofollow" a.val)) =
        addRelToken nr b!"noreferrer" (addRelToken nf b!"nofollow" a.val) := by
      cases nf with
      | false => simp [addRelToken]
      | true =>
        exact addRelToken_no_dup true _ _
          (addRelToken_keeps nr _ _ _ wsfree_noreferrer (addRelToken_has _ _ wsfree_nofollow))
    rw [h1]
    exact addRelToken_idem nr _ _ wsfree_noreferrer
  · have e : relFix nf nr a = a := by simp [relFix, hk]
    rw [e, e]

theorem setVal_idem (k : Bytes) (v : Bytes) (a : Attr) :
    setVal k (fun _ => v) (setVal k (fun _ => v) a) = setVal k (fun _ => v) a := by
  unfold setVal; split <;> simp_all

/-- an escaped text has no tag opener: read again, it is text and nothing else -/
theorem escaped_text_stays_text (d : Bytes) : ∀ c ∈ escape d, c ≠ 60 :=
  fun c hc => (escape_no_special d c hc).1

/-- **C20 for StrictPolicy, byte level** (from `Props/C04.lean`: the output is one escaped
    string, which the tokenizer reads back as that string — `tokenize_escape`,
    `unescape_escape` — and which is then escaped to the same bytes) -/
theorem C20_strict (input : Bytes) :
    strictPolicy.sanitizeCore (strictPolicy.sanitizeCore input) = strictPolicy.sanitizeCore input :=
  C20_strict_idempotent input

/-! ### whole-pipeline idempotence for plain, attribute-simple policies -/

/-- a policy whose attribute handling is pure filtering: no URL checking (hence no link
    hardening), no style rules, no forced crossorigin / sandbox -/
structure AttrSimple (p : Policy) : Prop where
  noUrl : p.requireParseableURLs = false
  noFollow : p.requireNoFollow = false
  noFollowFQ : p.requireNoFollowFullyQualifiedLinks = false
  noReferrer : p.requireNoReferrer = false
  noReferrerFQ : p.requireNoReferrerFullyQualifiedLinks = false
  noBlank : p.addTargetBlankToFullyQualifiedLinks = false
  noStyle : ∀ el, p.hasStylePolicies el = false
  noCross : p.requireCrossOriginAnonymous = false
  noSandbox : p.requireSandboxOnIFrame = none

theorem filterAttr_nostyle (p : Policy) (el : Bytes) (aps : AttrRules) (a b : Attr)
    (h : p.filterAttr el aps false a = some b) : b = a := by
  unfold Policy.filterAttr at h
  repeat' split at h
  all_goals (simp at h)
  all_goals (first | exact h.symm | (rename_i hst; simp at hst))

theorem filterMap_eq_filter (p : Policy) (el : Bytes) (aps : AttrRules) (l : List Attr) :
    l.filterMap (p.filterAttr el aps false) = l.filter fun a => (p.filterAttr el aps false a).isSome := by
  induction l with
  | nil => rfl
  | cons a as ih =>
    cases h : p.filterAttr el aps false a with
    | none => simp [List.filterMap_cons, h, List.filter_cons, ih]
    | some b =>
      have := filterAttr_nostyle p el aps a b h
      subst this
      simp [List.filterMap_cons, h, List.filter_cons, ih]

theorem simple_sanitizeAttrs (p : Policy) (hs : AttrSimple p) (el : Bytes) (attrs : List Attr) (aps : AttrRules) :
    p.sanitizeAttrs el attrs aps = some (attrs.filter fun a => (p.filterAttr el aps false a).isSome) := by
  unfold Policy.sanitizeAttrs
  split
  · rename_i h; simp [List.isEmpty_iff.mp h]
  · simp only [hs.noStyle el, filterMap_eq_filter]
    split
    · rename_i h; simp [List.isEmpty_iff.mp h]
    · unfold Policy.linkPasses Policy.forceSandbox Policy.forceCrossOrigin
      simp [hs.noUrl, hs.noFollow, hs.noFollowFQ, hs.noReferrer, hs.noReferrerFQ, hs.noBlank, hs.noCross, hs.noSandbox]

/-- cleaning already-cleaned attributes changes nothing -/
theorem simple_cleanAttrs_idem (p : Policy) (hs : AttrSimple p) (t : Token) (aps : AttrRules) (attrs : List Attr)
    (h : p.cleanAttrs t aps = some attrs) : p.cleanAttrs { t with attrs := attrs } aps = some attrs := by
  unfold Policy.cleanAttrs at h ⊢
  split at h
  · simp at h; subst h; simp_all
  · rw [simple_sanitizeAttrs p hs] at h
    simp at h; subst h
    simp only
    split
    · rename_i he; simp [List.isEmpty_iff.mp he]
    · rw [simple_sanitizeAttrs p hs]
      simp [List.filter_filter]

/-- what a plain, attribute-simple policy writes is conforming for that policy -/
theorem emit_conform {p : Policy} (hp : Plain p) (hs : AttrSimple p) {st : LoopState} {t : Token} (hwf : TokWF t)
    {ws : List Write} (he : Emit p st t ws) :
    ∃ toks : List Token, ws.map (·.data) = toks.map Token.render ∧ ∀ k ∈ toks, Conform p k := by
  obtain ⟨toks, hr, hf⟩ := emit_toks hp hwf he
  -- re-derive the facts `Conform` needs from the same case analysis
  cases he with
  | nothing => exact ⟨[], rfl, by simp⟩
  | space _ =>
    refine ⟨[⟨.text, [32], []⟩], by simp [render_space], ?_⟩
    intro k hk; simp at hk; subst hk; exact ⟨by simp [SegOK], trivial⟩
  | comment _ hc => rw [hp.noComments] at hc; cases hc
  | openTag aps attrs htt haps hss hattrs hbare _ =>
    have hnss : isScriptOrStyle t.data = false := by simpa [hp.noUnsafe] using hss
    have hb : attrs ≠ [] ∨ p.allowNoAttrs t.data = true := by
      cases attrs with
      | nil => right; simpa using hbare
      | cons _ _ => left; simp
    have hidem := simple_cleanAttrs_idem p hs t aps attrs hattrs
    simp at hr
    have hk1 : toks.map Token.render = [({ t with attrs := attrs } : Token).render] := hr.symm
    refine ⟨[{ t with attrs := attrs }], by simp, ?_⟩
    intro k hk; simp at hk; subst hk
    have hall := attrRulesFor_allows' haps
    have hnr : isRawTagName t.data = false := by
      cases h : isRawTagName t.data with
      | false => rfl
      | true => rw [hp.noRaw _ h] at hall; cases hall
    rcases htt with h | h
    · have hw : NameOK' t.data ∧ ∀ a ∈ t.attrs, AttrOK a := by
        unfold TokWF at hwf; rw [h] at hwf; exact hwf
      refine ⟨?_, ?_⟩
      · unfold SegOK; simp only [h]
        exact ⟨hw.1, hnr, allOK_cleanAttrs p t aps attrs hw.2 hattrs⟩
      · simp only [h]; exact ⟨hnss, aps, haps, hidem, hb⟩
    · have hw : NameOK' t.data ∧ ∀ a ∈ t.attrs, AttrOK a := by
        unfold TokWF at hwf; rw [h] at hwf; exact hwf
      refine ⟨?_, ?_⟩
      · unfold SegOK; simp only [h]
        exact ⟨hw.1, hnr, allOK_cleanAttrs p t aps attrs hw.2 hattrs⟩
      · simp only [h]; exact ⟨hnss, aps, haps, hidem, hb⟩
  | closeTag htt hss hall =>
    have hw : NameOK' t.data ∧ t.attrs = [] := by
      unfold TokWF at hwf; rw [htt] at hwf; exact hwf
    have hnss : isScriptOrStyle t.data = false := by simpa [hp.noUnsafe] using hss
    refine ⟨[t], by simp, ?_⟩
    intro k hk; simp at hk; subst hk
    refine ⟨by unfold SegOK; simp only [htt]; exact hw, ?_⟩
    simp only [htt]
    refine ⟨hnss, ?_⟩
    unfold Policy.patternEl Policy.explicitEl
    cases hc : p.elsAndAttrs.contains k.data with
    | true => left; rfl
    | false => right; simpa [hc] using hall
  | text htt _ _ =>
    refine ⟨[⟨.text, t.data, []⟩], by simp [Token.render, htt], ?_⟩
    intro k hk; simp at hk; subst hk; exact ⟨by simp [SegOK], trivial⟩
  | rawText _ hun _ => rw [hp.noUnsafe] at hun; cases hun

theorem run_conform {p : Policy} (hp : Plain p) (hs : AttrSimple p) (ts : List Token) (hwf : ∀ t ∈ ts, TokWF t) :
    ∀ st, ∃ toks : List Token, (p.run st ts).1.map (·.data) = toks.map Token.render ∧ ∀ k ∈ toks, Conform p k := by
  induction ts with
  | nil => intro st; exact ⟨[], by simp [Policy.run], by simp⟩
  | cons t ts ih =>
    intro st
    unfold Policy.run
    split
    · exact ⟨[], by simp, by simp⟩
    · rename_i st' ws hstep
      obtain ⟨k1, hk1, hf1⟩ := emit_conform hp hs (hwf t (by simp)) (step_emit p st t st' ws hstep)
      obtain ⟨k2, hk2, hf2⟩ := ih (fun x hx => hwf x (by simp [hx])) st'
      refine ⟨k1 ++ k2, by simp [hk1, hk2], ?_⟩
      intro k hk
      simp only [List.mem_append] at hk
      rcases hk with h | h
      · exact hf1 k h
      · exact hf2 k h

/-- **C20 (byte level) for plain, attribute-simple policies**: sanitising the output again
    returns it unchanged, for every input — escaping is not applied twice, kept tags are kept
    as they are, nothing is re-ordered. -/
theorem C20_simple (p : Policy) (hp : Plain p.ensureInit) (hs : AttrSimple p.ensureInit) (input : Bytes) :
    p.sanitizeCore (p.sanitizeCore input) = p.sanitizeCore input := by
  obtain ⟨toks, hr, hconf⟩ := run_conform hp hs (tokenize input) (tokenize_wf input) {}
  have hb : p.sanitizeCore input = renderAll toks := by
    unfold Policy.sanitizeCore Policy.sanitizeTokens
    rw [hr, flatten_map_render]
  rw [hb]
  exact C07_bytes p toks hconf

/-- non-vacuity: a policy with elements, attributes and a pattern rule that is plain and
    attribute-simple -/
example :
    let p : Policy := { initialized := true, elsAndAttrs := [(b!"b", []), (b!"a", [(b!"title", [none])])],
                        setOfElementsAllowedWithoutAttrs := [b!"b"] }
    AttrSimple p.ensureInit := by
  refine ⟨rfl, rfl, rfl, rfl, rfl, rfl, ?_, rfl, rfl⟩
  intro el
  simp [Policy.hasStylePolicies, Policy.ensureInit, Map.get?]

example : addRelToken true b!"nofollow" (addRelToken true b!"nofollow" b!"author") = b!"author nofollow" := by decide

end BM.Props
