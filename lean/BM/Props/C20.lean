import BM.Props.C11
import BM.Props.C12
import BM.Proofs.Escape
import BM.Props.C04
import BM.Props.C07
/-
  C20: re-sanitising sanitised output is a no-op.  Proved, clause by clause of the statement:
  * "added rel tokens are not repeated": the rel sub-passes are idempotent on values —
    `addRelToken need tok (addRelToken need tok v) = addRelToken need tok v`, and the whole
    rel fix is idempotent;
  * forced attributes re-derive identically: the crossorigin block and the sandbox token
    filter are idempotent;
  * "escaping is not applied twice": an escaped text contains no `<`, so the second pass reads
    it as text again (no markup can appear), and `unescape (escape d) = d` is the round-trip
    lemma (`Proofs/RoundTrip.lean`, as far as it has got).
  Partial: the composition into `S p (S p x) = S p x` for the whole class needs the full
  render/tokenize round trip and a stability lemma for net/url's Parse∘String, which is
  **false** on Go 1.23 for some paths (`/%2f}` ↦ `//%7D`, which does not parse again) — known
  finding `url-reprint-unstable`.  The property is checked end to end by the `idem` family.
-/
namespace BM.Props
open BM BM.Html BM.Spec

theorem addRelToken_idem (need : Bool) (tok v : Bytes) (hw : WsFree tok) :
    addRelToken need tok (addRelToken need tok v) = addRelToken need tok v := by
  cases need with
  | false => simp [addRelToken]
  | true => exact addRelToken_no_dup true tok _ (addRelToken_has tok v hw)

/-- the rel sub-pass applied twice changes nothing more -/
theorem relFix_idem (nf nr : Bool) (a : Attr) : relFix nf nr (relFix nf nr a) = relFix nf nr a := by
  by_cases hk : (a.key == b!"rel" && (nf || nr)) = true
  · have hk' : ((relFix nf nr a).key == b!"rel" && (nf || nr)) = true := by rw [relFix_key]; exact hk
    have e : relFix nf nr a = ⟨a.key, addRelToken nr b!"noreferrer" (addRelToken nf b!"nofollow" a.val)⟩ := by
      simp [relFix, hk]
    rw [e] at hk' ⊢
    simp only [relFix, hk', ↓reduceIte]
    congr 1
    -- nofollow is already a token, so the inner call is the identity; then noreferrer likewise
    have h1 : addRelToken nf b!"nofollow" (addRelToken nr b!"noreferrer" (addRelToken nf b!"nofollow" a.val)) =
        addRelToken nr b!"noreferrer" (addRelToken nf b!"nofollow" a.val) := by
      cases nf with
      | false => simp [addRelToken]
      | true =>
        exact addRelToken_no_dup true _ _
          (addRelToken_keeps nr _ _ _ wsfree_noreferrer (addRelToken_has _ _ wsfree_nofollow))
    rw [h1]
    exact addRelToken_idem nr _ _ wsfree_noreferrer
  · have e : relFix nf nr a = a := by simp [relFix, hk]
    rw [e, e]

theorem setVal_idem (k : Bytes) (v : Bytes) (a : Attr) :
    setVal k (fun _ => v) (setVal k (fun _ => v) a) = setVal k (fun _ => v) a := by
  unfold setVal; split <;> simp_all

/-- an escaped text has no tag opener: read again, it is text and nothing else -/
theorem escaped_text_stays_text (d : Bytes) : ∀ c ∈ escape d, c ≠ 60 :=
  fun c hc => (escape_no_special d c hc).1

/-- **C20 for StrictPolicy, byte level** (from `Props/C04.lean`: the output is one escaped
    string, which the tokenizer reads back as that string — `tokenize_escape`,
    `unescape_escape` — and which is then escaped to the same bytes) -/
theorem C20_strict (input : Bytes) :
    strictPolicy.sanitizeCore (strictPolicy.sanitizeCore input) = strictPolicy.sanitizeCore input :=
  C20_strict_idempotent input

/-! ### whole-pipeline idempotence for plain, attribute-simple policies -/

/-- a policy whose attribute handling is pure filtering: no URL checking (hence no link
    hardening), no style rules, no forced crossorigin / sandbox -/
structure AttrSimple (p : Policy) : Prop where
  noUrl : p.requireParseableURLs = false
  noFollow : p.requireNoFollow = false
  noFollowFQ : p.requireNoFollowFullyQualifiedLinks = false
  noReferrer : p.requireNoReferrer = false
  noReferrerFQ : p.requireNoReferrerFullyQualifiedLinks = false
  noBlank : p.addTargetBlankToFullyQualifiedLinks = false
  noStyle : ∀ el, p.hasStylePolicies el = false
  noCross : p.requireCrossOriginAnonymous = false
  noSandbox : p.requireSandboxOnIFrame = none

theorem filterAttr_nostyle (p : Policy) (el : Bytes) (aps : AttrRules) (a b : Attr)
    (h : p.filterAttr el aps false a = some b) : b = a := by
  unfold Policy.filterAttr at h
  repeat' split at h
  all_goals (simp at h)
  all_goals (first | exact h.symm | (rename_i hst; simp at hst))

theorem filterMap_eq_filter (p : Policy) (el : Bytes) (aps : AttrRules) (l : List Attr) :
    l.filterMap (p.filterAttr el aps false) = l.filter fun a => (p.filterAttr el aps false a).isSome := by
  induction l with
  | nil => rfl
  | cons a as ih =>
    cases h : p.filterAttr el aps false a with
    | none => simp [List.filterMap_cons, h, List.filter_cons, ih]
    | some b =>
      have := filterAttr_nostyle p el aps a b h
      subst this
      simp [List.filterMap_cons, h, List.filter_cons, ih]

theorem simple_sanitizeAttrs (p : Policy) (hs : AttrSimple p) (el : Bytes) (attrs : List Attr) (aps : AttrRules) :
    p.sanitizeAttrs el attrs aps = some (attrs.filter fun a => (p.filterAttr el aps false a).isSome) := by
  unfold Policy.sanitizeAttrs
  split
  · rename_i h; simp [List.isEmpty_iff.mp h]
  · simp only [hs.noStyle el, filterMap_eq_filter]
    split
    · rename_i h; simp [List.isEmpty_iff.mp h]
    · unfold Policy.linkPasses Policy.forceSandbox Policy.forceCrossOrigin
      simp [hs.noUrl, hs.noFollow, hs.noFollowFQ, hs.noReferrer, hs.noReferrerFQ, hs.noBlank, hs.noCross, hs.noSandbox]

/-- cleaning already-cleaned attributes changes nothing -/
theorem simple_cleanAttrs_idem (p : Policy) (hs : AttrSimple p) (t : Token) (aps : AttrRules) (attrs : List Attr)
    (h : p.cleanAttrs t aps = some attrs) : p.cleanAttrs { t with attrs := attrs } aps = some attrs := by
  unfold Policy.cleanAttrs at h ⊢
  split at h
  · simp at h; subst h; simp_all
  · rw [simple_sanitizeAttrs p hs] at h
    simp at h; subst h
    simp only
    split
    · rename_i he; simp [List.isEmpty_iff.mp he]
    · rw [simple_sanitizeAttrs p hs]
      simp [List.filter_filter]

/-- the attribute lists `sanitizeAttrs` returns are fixed points of it (for the elements a plain
    policy can emit, with the rules the policy has for them) -/
def AttrFix (p : Policy) : Prop :=
  ∀ (t : Token) (aps : AttrRules) (attrs : List Attr), isRawTagName t.data = false →
    p.attrRulesFor t.data = some aps → p.cleanAttrs t aps = some attrs →
    p.cleanAttrs { t with attrs := attrs } aps = some attrs

theorem attrFix_of_simple (p : Policy) (hs : AttrSimple p) : AttrFix p :=
  fun t aps attrs _ _ h => simple_cleanAttrs_idem p hs t aps attrs h

/-- what a plain policy whose attribute pass has fixed points writes is conforming for that policy -/
theorem emit_conform {p : Policy} (hp : Plain p) (hs : AttrFix p) {st : LoopState} {t : Token} (hwf : TokWF t)
    {ws : List Write} (he : Emit p st t ws) :
    ∃ toks : List Token, ws.map (·.data) = toks.map Token.render ∧ ∀ k ∈ toks, Conform p k := by
  obtain ⟨toks, hr, hf⟩ := emit_toks hp hwf he
  -- re-derive the facts `Conform` needs from the same case analysis
  cases he with
  | nothing => exact ⟨[], rfl, by simp⟩
  | space _ =>
    refine ⟨[⟨.text, [32], []⟩], by simp [render_space], ?_⟩
    intro k hk; simp at hk; subst hk; exact ⟨by simp [SegOK], trivial⟩
  | comment _ hc => rw [hp.noComments] at hc; cases hc
  | openTag aps attrs htt haps hss hattrs hbare _ =>
    have hnss : isScriptOrStyle t.data = false := by simpa [hp.noUnsafe] using hss
    have hb : attrs ≠ [] ∨ p.allowNoAttrs t.data = true := by
      cases attrs with
      | nil => right; simpa using hbare
      | cons _ _ => left; simp
    have hall := attrRulesFor_allows' haps
    have hnr : isRawTagName t.data = false := by
      cases h : isRawTagName t.data with
      | false => rfl
      | true => rw [hp.noRaw _ h] at hall; cases hall
    have hidem := hs t aps attrs hnr haps hattrs
    simp at hr
    have hk1 : toks.map Token.render = [({ t with attrs := attrs } : Token).render] := hr.symm
    refine ⟨[{ t with attrs := attrs }], by simp, ?_⟩
    intro k hk; simp at hk; subst hk
    rcases htt with h | h
    · have hw : NameOK' t.data ∧ ∀ a ∈ t.attrs, AttrOK a := by
        unfold TokWF at hwf; rw [h] at hwf; exact hwf
      refine ⟨?_, ?_⟩
      · unfold SegOK; simp only [h]
        exact ⟨hw.1, hnr, allOK_cleanAttrs p t aps attrs hw.2 hattrs⟩
      · simp only [h]; exact ⟨hnss, aps, haps, hidem, hb⟩
    · have hw : NameOK' t.data ∧ ∀ a ∈ t.attrs, AttrOK a := by
        unfold TokWF at hwf; rw [h] at hwf; exact hwf
      refine ⟨?_, ?_⟩
      · unfold SegOK; simp only [h]
        exact ⟨hw.1, hnr, allOK_cleanAttrs p t aps attrs hw.2 hattrs⟩
      · simp only [h]; exact ⟨hnss, aps, haps, hidem, hb⟩
  | closeTag htt hss hall =>
    have hw : NameOK' t.data ∧ t.attrs = [] := by
      unfold TokWF at hwf; rw [htt] at hwf; exact hwf
    have hnss : isScriptOrStyle t.data = false := by simpa [hp.noUnsafe] using hss
    refine ⟨[t], by simp, ?_⟩
    intro k hk; simp at hk; subst hk
    refine ⟨by unfold SegOK; simp only [htt]; exact hw, ?_⟩
    simp only [htt]
    refine ⟨hnss, ?_⟩
    unfold Policy.patternEl Policy.explicitEl
    cases hc : p.elsAndAttrs.contains k.data with
    | true => left; rfl
    | false => right; simpa [hc] using hall
  | text htt _ _ =>
    refine ⟨[⟨.text, t.data, []⟩], by simp [Token.render, htt], ?_⟩
    intro k hk; simp at hk; subst hk; exact ⟨by simp [SegOK], trivial⟩
  | rawText _ hun _ => rw [hp.noUnsafe] at hun; cases hun

theorem run_conform {p : Policy} (hp : Plain p) (hs : AttrFix p) (ts : List Token) (hwf : ∀ t ∈ ts, TokWF t) :
    ∀ st, ∃ toks : List Token, (p.run st ts).1.map (·.data) = toks.map Token.render ∧ ∀ k ∈ toks, Conform p k := by
  induction ts with
  | nil => intro st; exact ⟨[], by simp [Policy.run], by simp⟩
  | cons t ts ih =>
    intro st
    unfold Policy.run
    split
    · exact ⟨[], by simp, by simp⟩
    · rename_i st' ws hstep
      obtain ⟨k1, hk1, hf1⟩ := emit_conform hp hs (hwf t (by simp)) (step_emit p st t st' ws hstep)
      obtain ⟨k2, hk2, hf2⟩ := ih (fun x hx => hwf x (by simp [hx])) st'
      refine ⟨k1 ++ k2, by simp [hk1, hk2], ?_⟩
      intro k hk
      simp only [List.mem_append] at hk
      rcases hk with h | h
      · exact hf1 k h
      · exact hf2 k h

/-- **C20 (byte level) for plain policies whose attribute pass has fixed points**: sanitising
    the output again returns it unchanged, for every input — escaping is not applied twice, kept
    tags are kept as they are, nothing is re-ordered. -/
theorem C20_fix (p : Policy) (hp : Plain p.ensureInit) (hs : AttrFix p.ensureInit) (input : Bytes) :
    p.sanitizeCore (p.sanitizeCore input) = p.sanitizeCore input := by
  obtain ⟨toks, hr, hconf⟩ := run_conform hp hs (tokenize input) (tokenize_wf input) {}
  have hb : p.sanitizeCore input = renderAll toks := by
    unfold Policy.sanitizeCore Policy.sanitizeTokens
    rw [hr, flatten_map_render]
  rw [hb]
  exact C07_bytes p toks hconf

/-- **C20 (byte level) for plain, attribute-simple policies** -/
theorem C20_simple (p : Policy) (hp : Plain p.ensureInit) (hs : AttrSimple p.ensureInit) (input : Bytes) :
    p.sanitizeCore (p.sanitizeCore input) = p.sanitizeCore input :=
  C20_fix p hp (attrFix_of_simple _ hs) input

/-! ### forced crossorigin -/

/-- like `AttrSimple`, but `RequireCrossOriginAnonymous` may be on; no rule attaches a value
    pattern to `crossorigin` (acceptance of that attribute does not depend on its value) -/
structure CrossSimple (p : Policy) : Prop where
  noUrl : p.requireParseableURLs = false
  noFollow : p.requireNoFollow = false
  noFollowFQ : p.requireNoFollowFullyQualifiedLinks = false
  noReferrer : p.requireNoReferrer = false
  noReferrerFQ : p.requireNoReferrerFullyQualifiedLinks = false
  noBlank : p.addTargetBlankToFullyQualifiedLinks = false
  noStyle : ∀ el, p.hasStylePolicies el = false
  noSandbox : p.requireSandboxOnIFrame = none
  blind : ∀ el aps, p.attrRulesFor el = some aps → ∀ v v',
    (p.filterAttr el aps false ⟨b!"crossorigin", v⟩).isSome = (p.filterAttr el aps false ⟨b!"crossorigin", v'⟩).isSome

theorem cross_sanitizeAttrs (p : Policy) (hs : CrossSimple p) (el : Bytes) (attrs : List Attr) (aps : AttrRules) :
    p.sanitizeAttrs el attrs aps =
      some (let c := attrs.filter fun a => (p.filterAttr el aps false a).isSome
            if c.isEmpty then c else p.forceCrossOrigin el c) := by
  unfold Policy.sanitizeAttrs
  split
  · rename_i h; simp [List.isEmpty_iff.mp h]
  · simp only [hs.noStyle el, filterMap_eq_filter]
    split
    · rename_i h; simp [h]
    · rename_i h
      unfold Policy.linkPasses Policy.forceSandbox
      simp [hs.noUrl, hs.noFollow, hs.noFollowFQ, hs.noReferrer, hs.noReferrerFQ, hs.noBlank, hs.noSandbox, h]

theorem setVal_co_idem (a : Attr) :
    setVal b!"crossorigin" (fun _ => b!"anonymous") (setVal b!"crossorigin" (fun _ => b!"anonymous") a) =
      setVal b!"crossorigin" (fun _ => b!"anonymous") a := by
  unfold setVal
  split
  · rename_i h; simp [h]
  · rename_i h; simp [h]

/-- **the forced crossorigin pass has fixed points**: what `sanitizeAttrs` returns under a
    `CrossSimple` policy is returned unchanged when it is given back -/
theorem cross_sanitizeAttrs_idem (p : Policy) (hs : CrossSimple p) (el : Bytes) (attrs out : List Attr) (aps : AttrRules)
    (haps : p.attrRulesFor el = some aps) (h : p.sanitizeAttrs el attrs aps = some out) :
    p.sanitizeAttrs el out aps = some out := by
  rw [cross_sanitizeAttrs p hs] at h ⊢
  simp only [Option.some.injEq] at h ⊢
  generalize hacc : (fun a => (p.filterAttr el aps false a).isSome) = acc at h ⊢
  generalize hc : attrs.filter acc = c at h
  have hcacc : ∀ a ∈ c, acc a = true := by
    intro a ha; rw [← hc] at ha; exact (List.mem_filter.mp ha).2
  have hfc : c.filter acc = c := List.filter_eq_self.mpr hcacc
  have hblind : ∀ v v', acc ⟨b!"crossorigin", v⟩ = acc ⟨b!"crossorigin", v'⟩ := by
    intro v v'; rw [← hacc]; exact hs.blind el aps haps v v'
  by_cases hce : c.isEmpty = true
  · simp only [hce, ↓reduceIte] at h
    subst h
    have : c = [] := List.isEmpty_iff.mp hce
    subst this
    rfl
  · simp only [hce, Bool.false_eq_true, ↓reduceIte] at h
    have hcne : c ≠ [] := fun hn => hce (by rw [hn]; rfl)
    have hclen : c.length > 0 := List.length_pos_iff.mpr hcne
    unfold Policy.forceCrossOrigin at h
    by_cases hcond : (p.requireCrossOriginAnonymous && decide (c.length > 0) && isCrossOriginElement el) = true
    · simp only [hcond, ↓reduceIte] at h
      have hreq : p.requireCrossOriginAnonymous = true := by
        simp only [Bool.and_eq_true] at hcond; exact hcond.1.1
      have hel : isCrossOriginElement el = true := by
        simp only [Bool.and_eq_true] at hcond; exact hcond.2
      by_cases hany : c.any (·.key == b!"crossorigin") = true
      · -- the value of the existing crossorigin attribute(s) is overwritten in place
        simp only [hany, ↓reduceIte] at h
        subst h
        have hacc' : ∀ a ∈ c.map (setVal b!"crossorigin" fun _ => b!"anonymous"), acc a = true := by
          intro a ha
          simp only [List.mem_map] at ha
          obtain ⟨a0, ha0, rfl⟩ := ha
          unfold setVal
          split
          · rename_i hk
            have hk' : a0.key = b!"crossorigin" := by simpa using hk
            have : a0 = ⟨b!"crossorigin", a0.val⟩ := by cases a0; simp_all
            rw [hk', hblind _ a0.val, ← this]
            exact hcacc a0 ha0
          · exact hcacc a0 ha0
        rw [List.filter_eq_self.mpr hacc']
        have hne : (c.map (setVal b!"crossorigin" fun _ => b!"anonymous")).isEmpty = false := by
          cases c with
          | nil => exact absurd rfl hcne
          | cons _ _ => rfl
        simp only [hne, Bool.false_eq_true, ↓reduceIte]
        unfold Policy.forceCrossOrigin
        have hany' : (c.map (setVal b!"crossorigin" fun _ => b!"anonymous")).any (·.key == b!"crossorigin") = true := by
          simp only [List.any_map, List.any_eq_true, Function.comp] at hany ⊢
          obtain ⟨a, ha, hk⟩ := hany
          refine ⟨a, ha, ?_⟩
          unfold setVal; split <;> simpa using hk
        simp only [hreq, hel, List.length_map, hclen, decide_true, Bool.and_self, ↓reduceIte, hany', List.map_map]
        apply List.map_congr_left
        intro a _
        exact setVal_co_idem a
      · -- crossorigin="anonymous" is appended
        simp only [hany, Bool.false_eq_true, ↓reduceIte] at h
        subst h
        rw [List.filter_append, hfc]
        have hnoco : ∀ a ∈ c, (a.key == b!"crossorigin") = false := by
          intro a ha
          cases hk : a.key == b!"crossorigin" with
          | false => rfl
          | true => exact absurd (List.any_eq_true.mpr ⟨a, ha, hk⟩) hany
        by_cases hlast : acc ⟨b!"crossorigin", b!"anonymous"⟩ = true
        · simp only [List.filter_cons, hlast, ↓reduceIte, List.filter_nil]
          have hne : (c ++ [(⟨b!"crossorigin", b!"anonymous"⟩ : Attr)]).isEmpty = false := by
            cases c <;> rfl
          simp only [hne, Bool.false_eq_true, ↓reduceIte]
          unfold Policy.forceCrossOrigin
          have hany' : (c ++ [(⟨b!"crossorigin", b!"anonymous"⟩ : Attr)]).any (·.key == b!"crossorigin") = true := by
            simp [List.any_append]
          have hlen : (c ++ [(⟨b!"crossorigin", b!"anonymous"⟩ : Attr)]).length > 0 := by simp
          simp only [hreq, hel, hlen, decide_true, Bool.and_self, ↓reduceIte, hany', List.map_append, List.map_cons,
            List.map_nil]
          congr 1
          · rw [List.map_congr_left (g := id)]
            · simp
            · intro a ha
              unfold setVal
              simp [hnoco a ha]
        · simp only [List.filter_cons, hlast, Bool.false_eq_true, ↓reduceIte, List.filter_nil, List.append_nil, hce]
          unfold Policy.forceCrossOrigin
          simp only [hcond, ↓reduceIte, hany, Bool.false_eq_true]
    · -- nothing is forced for this element
      simp only [hcond, Bool.false_eq_true, ↓reduceIte] at h
      subst h
      rw [hfc]
      simp only [hce, Bool.false_eq_true, ↓reduceIte]
      unfold Policy.forceCrossOrigin
      simp only [hcond, Bool.false_eq_true, ↓reduceIte]

theorem attrFix_of_cross (p : Policy) (hs : CrossSimple p) : AttrFix p := by
  intro t aps attrs _ haps h
  unfold Policy.cleanAttrs at h ⊢
  split at h
  · simp at h; subst h; simp_all
  · simp only
    split
    · rename_i he
      have : attrs = [] := List.isEmpty_iff.mp he
      subst this; rfl
    · exact cross_sanitizeAttrs_idem p hs t.data t.attrs attrs aps haps h

/-- **C20 (byte level) with forced crossorigin**: for every plain policy that does no URL checking
    and has no style rules, with or without `RequireCrossOriginAnonymous`, and whose rules attach no
    value pattern to `crossorigin`, sanitising the output again returns it unchanged — the forced
    attribute is neither repeated nor moved -/
theorem C20_crossorigin (p : Policy) (hp : Plain p.ensureInit) (hs : CrossSimple p.ensureInit) (input : Bytes) :
    p.sanitizeCore (p.sanitizeCore input) = p.sanitizeCore input :=
  C20_fix p hp (attrFix_of_cross _ hs) input

/-- non-vacuity: a policy with elements, attributes and a pattern rule that is plain and
    attribute-simple -/
example :
    let p : Policy := { initialized := true, elsAndAttrs := [(b!"b", []), (b!"a", [(b!"title", [none])])],
                        setOfElementsAllowedWithoutAttrs := [b!"b"] }
    AttrSimple p.ensureInit := by
  refine ⟨rfl, rfl, rfl, rfl, rfl, rfl, ?_, rfl, rfl⟩
  intro el
  simp [Policy.hasStylePolicies, Policy.ensureInit, Map.get?]

example : addRelToken true b!"nofollow" (addRelToken true b!"nofollow" b!"author") = b!"author nofollow" := by decide

/-- non-vacuity of `C20_crossorigin`: a policy with RequireCrossOriginAnonymous that is in the class;
    the forced attribute appears once, also on the second pass -/
example :
    let p : Policy := { initialized := true, requireCrossOriginAnonymous := true,
                        elsAndAttrs := [(b!"b", []), (b!"img", [(b!"alt", [none]), (b!"crossorigin", [none])])],
                        setOfElementsAllowedWithoutAttrs := [b!"b"] }
    CrossSimple p.ensureInit ∧
    p.sanitizeCore b!"<img alt=x><b>t</b>" = b!"<img alt=\"x\" crossorigin=\"anonymous\"><b>t</b>" ∧
    p.sanitizeCore b!"<img crossorigin=use-credentials alt=x>" = b!"<img crossorigin=\"anonymous\" alt=\"x\">" := by
  refine ⟨⟨rfl, rfl, rfl, rfl, rfl, rfl, ?_, rfl, ?_⟩, by decide, by decide⟩
  · intro el
    simp [Policy.hasStylePolicies, Policy.ensureInit, Map.get?]
  · intro el aps h v v'
    have haps : aps = [] ∨ aps = [(b!"alt", [none]), (b!"crossorigin", [none])] := by
      simp only [Policy.ensureInit, Policy.attrRulesFor, Map.get?, Policy.matchRegex, ↓reduceIte] at h
      by_cases h1 : (b!"b" == el) = true
      · simp only [h1, ↓reduceIte] at h; cases h; exact .inl rfl
      · by_cases h2 : (b!"img" == el) = true
        · simp only [h1, h2, ↓reduceIte] at h; cases h; exact .inr rfl
        · simp [h1, h2] at h
    rcases haps with rfl | rfl
    · simp [Policy.filterAttr, Policy.ensureInit, Map.get?]
    · simp [Policy.filterAttr, Policy.ensureInit, Map.get?, attrPoliciesAccept]

/-! ### URL checking, given that normalisation is stable -/

/-- a policy whose attribute handling is filtering plus the URL pass: no link options, no style rules,
    no forced crossorigin / sandbox, no src rewriter; the rules attach no value pattern to the URL
    attributes (`blind`); and — the part that belongs to net/url — what `validURL` returns it returns
    unchanged when it is given back (`stable`) -/
structure UrlSimple (p : Policy) : Prop where
  noFollow : p.requireNoFollow = false
  noFollowFQ : p.requireNoFollowFullyQualifiedLinks = false
  noReferrer : p.requireNoReferrer = false
  noReferrerFQ : p.requireNoReferrerFullyQualifiedLinks = false
  noBlank : p.addTargetBlankToFullyQualifiedLinks = false
  noStyle : ∀ el, p.hasStylePolicies el = false
  noCross : p.requireCrossOriginAnonymous = false
  noSandbox : p.requireSandboxOnIFrame = none
  noRewriter : p.srcRewriter = none
  blind : ∀ el aps, p.attrRulesFor el = some aps → ∀ k v v', (k = b!"href" ∨ k = b!"cite" ∨ k = b!"src") →
    (p.filterAttr el aps false ⟨k, v⟩).isSome = (p.filterAttr el aps false ⟨k, v'⟩).isSome
  stable : ∀ v v', p.validURL v = some v' → p.validURL v' = some v'

theorem url_sanitizeAttrs (p : Policy) (hs : UrlSimple p) (el : Bytes) (attrs : List Attr) (aps : AttrRules) :
    p.sanitizeAttrs el attrs aps =
      (let c := attrs.filter fun a => (p.filterAttr el aps false a).isSome
       if c.isEmpty then some c
       else if linkable el && p.requireParseableURLs then mapMOpt (p.urlPassAttr el) c else some c) := by
  unfold Policy.sanitizeAttrs
  split
  · rename_i h; simp [List.isEmpty_iff.mp h]
  · simp only [hs.noStyle el, filterMap_eq_filter]
    split
    · rename_i h; simp [h]
    · rename_i h
      unfold Policy.linkPasses Policy.forceSandbox Policy.forceCrossOrigin
      simp only [hs.noFollow, hs.noFollowFQ, hs.noReferrer, hs.noReferrerFQ, hs.noBlank, hs.noCross, hs.noSandbox,
        Bool.or_self, Bool.false_and, Bool.false_eq_true, ↓reduceIte, h]
      by_cases hl : linkable el = true
      · simp only [hl, ↓reduceIte, Bool.true_and]
        by_cases hu : p.requireParseableURLs = true
        · simp only [hu, ↓reduceIte]
          cases mapMOpt (p.urlPassAttr el) (List.filter (fun a => (p.filterAttr el aps false a).isSome) attrs) <;> rfl
        · have hu' : p.requireParseableURLs = false := by simpa using hu
          simp [hu']
      · have hl' : linkable el = false := by simpa using hl
        simp [hl']

/-- the URL attribute of an element, if it has one -/
def urlKeyFor (el : Bytes) : Option Bytes :=
  if isHrefElement el then some b!"href" else if isCiteElement el then some b!"cite"
  else if isSrcElement el then some b!"src" else none

theorem urlKeyFor_mem (el k : Bytes) (h : urlKeyFor el = some k) : k = b!"href" ∨ k = b!"cite" ∨ k = b!"src" := by
  unfold urlKeyFor at h
  repeat' split at h
  all_goals (simp only [Option.some.injEq, reduceCtorEq] at h)
  · exact .inl h.symm
  · exact .inr (.inl h.symm)
  · exact .inr (.inr h.symm)

/-- the URL pass for one attribute when no rewriter is installed -/
theorem urlPassAttr_eq (p : Policy) (hr : p.srcRewriter = none) (el : Bytes) (a : Attr) :
    p.urlPassAttr el a =
      match urlKeyFor el with
      | some k => if a.key == k then some ((p.validURL a.val).map fun u => ⟨a.key, u⟩) else some (some a)
      | none => some (some a) := by
  unfold Policy.urlPassAttr urlKeyFor
  rw [hr]
  by_cases h1 : isHrefElement el = true
  · simp only [h1, ↓reduceIte]
  · have h1' : isHrefElement el = false := by simpa using h1
    simp only [h1', Bool.false_eq_true, ↓reduceIte]
    by_cases h2 : isCiteElement el = true
    · simp only [h2, ↓reduceIte]
    · have h2' : isCiteElement el = false := by simpa using h2
      simp only [h2', Bool.false_eq_true, ↓reduceIte]
      by_cases h3 : isSrcElement el = true
      · simp only [h3, ↓reduceIte]
        by_cases hk : (a.key == b!"src") = true
        · simp only [hk, ↓reduceIte]
          cases p.validURL a.val <;> rfl
        · have hk' : (a.key == b!"src") = false := by simpa using hk
          simp only [hk', Bool.false_eq_true, ↓reduceIte]
      · have h3' : isSrcElement el = false := by simpa using h3
        simp only [h3', Bool.false_eq_true, ↓reduceIte]

/-- what the URL pass makes of one attribute: it keeps the key, and a changed value is a `validURL` result
    of a URL attribute -/
theorem urlPassAttr_some (p : Policy) (hs : UrlSimple p) (el : Bytes) (a b : Attr) (h : p.urlPassAttr el a = some (some b)) :
    b.key = a.key ∧ (b = a ∨ ((a.key = b!"href" ∨ a.key = b!"cite" ∨ a.key = b!"src") ∧ p.validURL a.val = some b.val)) := by
  rw [urlPassAttr_eq p hs.noRewriter] at h
  split at h
  · rename_i k hk
    split at h
    · rename_i hak
      have hak' : a.key = k := by simpa using hak
      simp only [Option.some.injEq, Option.map_eq_some_iff] at h
      obtain ⟨u, hu, rfl⟩ := h
      exact ⟨rfl, .inr ⟨by rw [hak']; exact urlKeyFor_mem el k hk, hu⟩⟩
    · simp only [Option.some.injEq] at h; subst h; exact ⟨rfl, .inl rfl⟩
  · simp only [Option.some.injEq] at h; subst h; exact ⟨rfl, .inl rfl⟩

/-- the URL pass leaves what it produced as it is -/
theorem urlPassAttr_fix (p : Policy) (hs : UrlSimple p) (el : Bytes) (a b : Attr) (h : p.urlPassAttr el a = some (some b)) :
    p.urlPassAttr el b = some (some b) := by
  rw [urlPassAttr_eq p hs.noRewriter] at h ⊢
  split at h
  · rename_i k hk
    split at h
    · rename_i hak
      simp only [Option.some.injEq, Option.map_eq_some_iff] at h
      obtain ⟨u, hu, rfl⟩ := h
      simp only [hak, ↓reduceIte, hs.stable _ _ hu, Option.map_some]
    · simp only [Option.some.injEq] at h; subst h
      rename_i hak
      simp only [hak, Bool.false_eq_true, ↓reduceIte]
  · rfl

theorem mapMOpt_fix {α} (f : α → Option (Option α)) (hf : ∀ a b, f a = some (some b) → f b = some (some b)) :
    ∀ (l out : List α), mapMOpt f l = some out → mapMOpt f out = some out := by
  intro l
  induction l with
  | nil => intro out h; simp only [mapMOpt, Option.some.injEq] at h; subst h; rfl
  | cons x xs ih =>
    intro out h
    unfold mapMOpt at h
    split at h
    · rename_i y ys hy hys
      simp only [Option.some.injEq] at h; subst h
      unfold mapMOpt
      rw [hf x y hy, ih ys hys]
    · rename_i ys hy hys
      simp only [Option.some.injEq] at h; subst h
      exact ih ys hys
    · cases h

theorem mapMOpt_mem {α} (f : α → Option (Option α)) : ∀ (l out : List α), mapMOpt f l = some out →
    ∀ b ∈ out, ∃ a ∈ l, f a = some (some b) := by
  intro l
  induction l with
  | nil => intro out h b hb; simp only [mapMOpt, Option.some.injEq] at h; subst h; simp at hb
  | cons x xs ih =>
    intro out h b hb
    unfold mapMOpt at h
    split at h
    · rename_i y ys hy hys
      simp only [Option.some.injEq] at h; subst h
      rcases List.mem_cons.mp hb with rfl | hb
      · exact ⟨x, by simp, hy⟩
      · obtain ⟨a, ha, hfa⟩ := ih ys hys b hb
        exact ⟨a, List.mem_cons_of_mem _ ha, hfa⟩
    · rename_i ys hy hys
      simp only [Option.some.injEq] at h; subst h
      obtain ⟨a, ha, hfa⟩ := ih ys hys b hb
      exact ⟨a, List.mem_cons_of_mem _ ha, hfa⟩
    · cases h

/-- **the URL pass has fixed points** under a `UrlSimple` policy -/
theorem url_sanitizeAttrs_idem (p : Policy) (hs : UrlSimple p) (el : Bytes) (attrs out : List Attr) (aps : AttrRules)
    (haps : p.attrRulesFor el = some aps) (h : p.sanitizeAttrs el attrs aps = some out) :
    p.sanitizeAttrs el out aps = some out := by
  rw [url_sanitizeAttrs p hs] at h ⊢
  simp only at h ⊢
  generalize hacc : (fun a => (p.filterAttr el aps false a).isSome) = acc at h ⊢
  generalize hc : attrs.filter acc = c at h
  have hcacc : ∀ a ∈ c, acc a = true := by
    intro a ha; rw [← hc] at ha; exact (List.mem_filter.mp ha).2
  have hblind : ∀ k v v', (k = b!"href" ∨ k = b!"cite" ∨ k = b!"src") → acc ⟨k, v⟩ = acc ⟨k, v'⟩ := by
    intro k v v' hk; rw [← hacc]; exact hs.blind el aps haps k v v' hk
  by_cases hce : c.isEmpty = true
  · simp only [hce, ↓reduceIte, Option.some.injEq] at h
    subst h
    have : c = [] := List.isEmpty_iff.mp hce
    subst this
    rfl
  · simp only [hce, Bool.false_eq_true, ↓reduceIte] at h
    by_cases hlu : (linkable el && p.requireParseableURLs) = true
    · simp only [hlu, ↓reduceIte] at h
      -- every attribute of `out` is still accepted by the rules
      have houtacc : ∀ b ∈ out, acc b = true := by
        intro b hb
        obtain ⟨a, ha, hfa⟩ := mapMOpt_mem _ c out h b hb
        obtain ⟨hk, hor⟩ := urlPassAttr_some p hs el a b hfa
        rcases hor with rfl | ⟨hkey, _⟩
        · exact hcacc _ ha
        · have := hblind a.key a.val b.val hkey
          have hb' : b = ⟨a.key, b.val⟩ := by cases b; simp_all
          rw [hb', ← this]
          exact hcacc a ha
      have hfo : out.filter acc = out := List.filter_eq_self.mpr houtacc
      rw [hfo]
      by_cases hoe : out.isEmpty = true
      · simp only [hoe, ↓reduceIte]
      · simp only [hoe, Bool.false_eq_true, ↓reduceIte, hlu]
        exact mapMOpt_fix _ (urlPassAttr_fix p hs el) c out h
    · simp only [hlu, Bool.false_eq_true, ↓reduceIte, Option.some.injEq] at h
      subst h
      have hfc : c.filter acc = c := List.filter_eq_self.mpr hcacc
      rw [hfc]
      simp only [hce, Bool.false_eq_true, ↓reduceIte, hlu]

theorem attrFix_of_url (p : Policy) (hs : UrlSimple p) : AttrFix p := by
  intro t aps attrs _ haps h
  unfold Policy.cleanAttrs at h ⊢
  split at h
  · simp at h; subst h; simp_all
  · simp only
    split
    · rename_i he
      have : attrs = [] := List.isEmpty_iff.mp he
      subst this; rfl
    · exact url_sanitizeAttrs_idem p hs t.data t.attrs attrs aps haps h

/-- **C20, policies that check URLs** (no link options): sanitising twice is sanitising once, for every
    input, provided URL normalisation is stable — `validURL` returns unchanged what it returned before.
    That proviso is exactly the part of the clause that belongs to net/url (on Go 1.23 it fails for
    paths such as `/%2f}`: the known finding `url-reprint-unstable`) -/
theorem C20_urls (p : Policy) (hp : Plain p.ensureInit) (hs : UrlSimple p.ensureInit) (input : Bytes) :
    p.sanitizeCore (p.sanitizeCore input) = p.sanitizeCore input :=
  C20_fix p hp (attrFix_of_url _ hs) input

/-! ### link options, when the rules let neither rel nor target through -/

/-- `UrlSimple` with link options allowed, for policies whose rules accept no `rel` and no `target`
    attribute on the elements the options apply to: what the options add is stripped by the second pass
    and added again, identically -/
structure LinkSimple (p : Policy) : Prop where
  noStyle : ∀ el, p.hasStylePolicies el = false
  noCross : p.requireCrossOriginAnonymous = false
  noSandbox : p.requireSandboxOnIFrame = none
  noRewriter : p.srcRewriter = none
  blind : ∀ el aps, p.attrRulesFor el = some aps → ∀ k v v', (k = b!"href" ∨ k = b!"cite" ∨ k = b!"src") →
    (p.filterAttr el aps false ⟨k, v⟩).isSome = (p.filterAttr el aps false ⟨k, v'⟩).isSome
  stable : ∀ v v', p.validURL v = some v' → p.validURL v' = some v'
  noRelTarget : ∀ el aps, p.attrRulesFor el = some aps → isHrefElement el = true → ∀ v,
    (p.filterAttr el aps false ⟨b!"rel", v⟩).isSome = false ∧ (p.filterAttr el aps false ⟨b!"target", v⟩).isSome = false

def isRelOrTarget (a : Attr) : Bool := a.key == b!"rel" || a.key == b!"target"

theorem map_relFix_noRel (nf nr : Bool) (u : List Attr) (h : ∀ a ∈ u, isRelOrTarget a = false) :
    u.map (relFix nf nr) = u := by
  induction u with
  | nil => rfl
  | cons a as ih =>
    have ha := h a (by simp)
    simp only [isRelOrTarget, Bool.or_eq_false_iff] at ha
    simp only [List.map_cons, relFix, ha.1, Bool.false_and, Bool.false_eq_true, ↓reduceIte]
    rw [ih (fun x hx => h x (by simp [hx]))]

theorem fixFirstTarget_noTarget (u : List Attr) (h : ∀ a ∈ u, isRelOrTarget a = false) : fixFirstTarget u = u := by
  induction u with
  | nil => rfl
  | cons a as ih =>
    have ha := h a (by simp)
    simp only [isRelOrTarget, Bool.or_eq_false_iff] at ha
    simp only [fixFirstTarget, ha.2, Bool.false_eq_true, ↓reduceIte]
    rw [ih (fun x hx => h x (by simp [hx]))]

theorem any_key_false (u : List Attr) (k : Bytes) (hk : k = b!"rel" ∨ k = b!"target")
    (h : ∀ a ∈ u, isRelOrTarget a = false) : u.any (·.key == k) = false := by
  rw [List.any_eq_false]
  intro a ha
  have := h a ha
  simp only [isRelOrTarget, Bool.or_eq_false_iff] at this
  rcases hk with rfl | rfl
  · simp [this.1]
  · simp [this.2]

/-- the hardening block once the three decisions are taken -/
def hardenCore (isA nf nr tb : Bool) (clean : List Attr) : List Attr :=
  let hasRel := clean.any (·.key == b!"rel")
  let hasTarget := clean.any (·.key == b!"target")
  let out := clean.map (relFix nf nr)
  let out := if isA && tb then fixFirstTarget out else out
  let out := if (nf || nr) && !hasRel then out ++ [⟨b!"rel", newRelValue nf nr⟩] else out
  let blankFound := isA &&
    ((clean.any fun a => a.key == b!"target" && asciiEqualFold a.val b!"_blank") || (tb && hasTarget))
  let out := if isA && tb && !blankFound then out ++ [⟨b!"target", b!"_blank"⟩] else out
  if blankFound || (isA && tb) then addNoOpener out else out

theorem hardenLinks_core (p : Policy) (el : Bytes) (clean : List Attr) :
    p.hardenLinks el clean =
      (let hrefs := clean.filter (·.key == b!"href")
       let ext := hrefs.any fun a => match Url.parse a.val with
         | some u => !u.host.isEmpty
         | none => false
       if hrefs.isEmpty then clean
       else hardenCore (el == b!"a") (p.requireNoFollow || (ext && p.requireNoFollowFullyQualifiedLinks))
         (p.requireNoReferrer || (ext && p.requireNoReferrerFullyQualifiedLinks))
         (ext && p.addTargetBlankToFullyQualifiedLinks) clean) := rfl

/-- what the hardening block appends when there is neither a `rel` nor a `target` attribute -/
def hardenExtra (isA nf nr tb : Bool) : List Attr :=
  let tgtE : List Attr := if isA && tb then [⟨b!"target", b!"_blank"⟩] else []
  if isA && tb then
    (if nf || nr then [⟨b!"rel", addRelToken true b!"noopener" (newRelValue nf nr)⟩] ++ tgtE
     else tgtE ++ [⟨b!"rel", b!"noopener"⟩])
  else (if nf || nr then [⟨b!"rel", newRelValue nf nr⟩] else []) ++ tgtE

theorem hardenExtra_keys (isA nf nr tb : Bool) : ∀ a ∈ hardenExtra isA nf nr tb, isRelOrTarget a = true := by
  cases isA <;> cases nf <;> cases nr <;> cases tb <;> simp [hardenExtra, isRelOrTarget]

/-- with no `rel` and no `target` among the attributes, the hardening block only appends `rel` / `target` -/
theorem hardenCore_appends (isA nf nr tb : Bool) (u : List Attr) (h : ∀ a ∈ u, isRelOrTarget a = false) :
    hardenCore isA nf nr tb u = u ++ hardenExtra isA nf nr tb := by
  have hrel := any_key_false u b!"rel" (.inl rfl) h
  have htgt := any_key_false u b!"target" (.inr rfl) h
  have htgt2 : (u.any fun a => a.key == b!"target" && asciiEqualFold a.val b!"_blank") = false := by
    rw [List.any_eq_false]
    intro a ha
    have := h a ha
    simp only [isRelOrTarget, Bool.or_eq_false_iff] at this
    simp [this.2]
  have hmapid : ∀ (g : Attr → Attr), (∀ a, a.key ≠ b!"rel" → g a = a) → u.map g = u := by
    intro g hg
    have : ∀ l : List Attr, (∀ a ∈ l, isRelOrTarget a = false) → l.map g = l := by
      intro l
      induction l with
      | nil => intro _; rfl
      | cons a as ih =>
        intro hl
        have ha := hl a (by simp)
        simp only [isRelOrTarget, Bool.or_eq_false_iff] at ha
        rw [List.map_cons, hg a (by simpa using ha.1), ih (fun x hx => hl x (by simp [hx]))]
    exact this u h
  unfold hardenCore
  simp only [map_relFix_noRel _ _ u h, fixFirstTarget_noTarget u h, hrel, htgt, htgt2]
  cases isA <;> cases nf <;> cases nr <;> cases tb <;>
    simp [hardenExtra, addNoOpener, hrel]
  all_goals (apply hmapid; intro a ha; simp [ha])

theorem hardenLinks_appends (p : Policy) (el : Bytes) (u : List Attr) (h : ∀ a ∈ u, isRelOrTarget a = false) :
    ∃ E, p.hardenLinks el u = u ++ E ∧ ∀ a ∈ E, isRelOrTarget a = true := by
  rw [hardenLinks_core]
  simp only
  split
  · exact ⟨[], by simp, by simp⟩
  · exact ⟨_, hardenCore_appends _ _ _ _ u h, hardenExtra_keys _ _ _ _⟩

theorem link_sanitizeAttrs (p : Policy) (hs : LinkSimple p) (el : Bytes) (attrs : List Attr) (aps : AttrRules) :
    p.sanitizeAttrs el attrs aps =
      (let c := attrs.filter fun a => (p.filterAttr el aps false a).isSome
       if c.isEmpty then some c else p.linkPasses el c) := by
  unfold Policy.sanitizeAttrs
  split
  · rename_i h; simp [List.isEmpty_iff.mp h]
  · simp only [hs.noStyle el, filterMap_eq_filter]
    split
    · rename_i h; simp [h]
    · rename_i h
      unfold Policy.forceSandbox Policy.forceCrossOrigin
      simp only [hs.noCross, hs.noSandbox, Bool.false_and, Bool.false_eq_true, ↓reduceIte, h]
      cases p.linkPasses el (List.filter (fun a => (p.filterAttr el aps false a).isSome) attrs) <;> rfl

/-- the URL pass as `UrlSimple` sees it, from the fields `LinkSimple` shares with it -/
theorem LinkSimple.urlFix {p : Policy} (hs : LinkSimple p) (el : Bytes) (a b : Attr)
    (h : p.urlPassAttr el a = some (some b)) :
    p.urlPassAttr el b = some (some b) ∧ b.key = a.key ∧
      (b = a ∨ ((a.key = b!"href" ∨ a.key = b!"cite" ∨ a.key = b!"src") ∧ p.validURL a.val = some b.val)) := by
  rw [urlPassAttr_eq p hs.noRewriter] at h ⊢
  split at h
  · rename_i k hk
    split at h
    · rename_i hak
      have hak' : a.key = k := by simpa using hak
      simp only [Option.some.injEq, Option.map_eq_some_iff] at h
      obtain ⟨u, hu, rfl⟩ := h
      refine ⟨?_, rfl, .inr ⟨by rw [hak']; exact urlKeyFor_mem el k hk, hu⟩⟩
      simp only [hak, ↓reduceIte, hs.stable _ _ hu, Option.map_some]
    · simp only [Option.some.injEq] at h; subst h
      rename_i hak
      refine ⟨?_, rfl, .inl rfl⟩
      simp only [hak, Bool.false_eq_true, ↓reduceIte]
  · simp only [Option.some.injEq] at h; subst h
    exact ⟨rfl, rfl, .inl rfl⟩

/-- **link options re-derive what they added**, under a `LinkSimple` policy -/
theorem link_sanitizeAttrs_idem (p : Policy) (hs : LinkSimple p) (el : Bytes) (attrs out : List Attr) (aps : AttrRules)
    (haps : p.attrRulesFor el = some aps) (h : p.sanitizeAttrs el attrs aps = some out) :
    p.sanitizeAttrs el out aps = some out := by
  rw [link_sanitizeAttrs p hs] at h ⊢
  simp only at h ⊢
  generalize hacc : (fun a => (p.filterAttr el aps false a).isSome) = acc at h ⊢
  generalize hc : attrs.filter acc = c at h
  have hcacc : ∀ a ∈ c, acc a = true := by
    intro a ha; rw [← hc] at ha; exact (List.mem_filter.mp ha).2
  have hblind : ∀ k v v', (k = b!"href" ∨ k = b!"cite" ∨ k = b!"src") → acc ⟨k, v⟩ = acc ⟨k, v'⟩ := by
    intro k v v' hk; rw [← hacc]; exact hs.blind el aps haps k v v' hk
  by_cases hce : c.isEmpty = true
  · simp only [hce, ↓reduceIte, Option.some.injEq] at h
    subst h
    have : c = [] := List.isEmpty_iff.mp hce
    subst this
    rfl
  · simp only [hce, Bool.false_eq_true, ↓reduceIte] at h
    unfold Policy.linkPasses at h
    by_cases hl : linkable el = true
    · simp only [hl, ↓reduceIte] at h
      -- after the URL pass
      obtain ⟨u, hu, hout⟩ : ∃ u, (if p.requireParseableURLs = true then mapMOpt (p.urlPassAttr el) c else some c) = some u ∧
          out = (if (p.requireNoFollow || p.requireNoFollowFullyQualifiedLinks || p.requireNoReferrer ||
              p.requireNoReferrerFullyQualifiedLinks || p.addTargetBlankToFullyQualifiedLinks) &&
              decide (u.length > 0) && isHrefElement el then p.hardenLinks el u else u) := by
        cases hm : (if p.requireParseableURLs = true then mapMOpt (p.urlPassAttr el) c else some c) with
        | none => rw [hm] at h; simp at h
        | some u => rw [hm] at h; simp only [Option.map_some, Option.some.injEq] at h; exact ⟨u, rfl, h.symm⟩
      -- what the URL pass returned is accepted by the rules and is a fixed point of the URL pass
      have huacc : ∀ b ∈ u, acc b = true := by
        intro b hb
        by_cases hrp : p.requireParseableURLs = true
        · simp only [hrp, ↓reduceIte] at hu
          obtain ⟨a, ha, hfa⟩ := mapMOpt_mem _ c u hu b hb
          obtain ⟨_, hk, hor⟩ := hs.urlFix el a b hfa
          rcases hor with rfl | ⟨hkey, _⟩
          · exact hcacc _ ha
          · have := hblind a.key a.val b.val hkey
            have hb' : b = ⟨a.key, b.val⟩ := by cases b; simp_all
            rw [hb', ← this]
            exact hcacc a ha
        · simp only [hrp, Bool.false_eq_true, ↓reduceIte, Option.some.injEq] at hu
          subst hu; exact hcacc b hb
      have hufix : (if p.requireParseableURLs = true then mapMOpt (p.urlPassAttr el) u else some u) = some u := by
        by_cases hrp : p.requireParseableURLs = true
        · simp only [hrp, ↓reduceIte] at hu ⊢
          exact mapMOpt_fix _ (fun a b hab => (hs.urlFix el a b hab).1) c u hu
        · simp only [hrp, Bool.false_eq_true, ↓reduceIte]
      have hfu : u.filter acc = u := List.filter_eq_self.mpr huacc
      by_cases hcond : ((p.requireNoFollow || p.requireNoFollowFullyQualifiedLinks || p.requireNoReferrer ||
          p.requireNoReferrerFullyQualifiedLinks || p.addTargetBlankToFullyQualifiedLinks) &&
          decide (u.length > 0) && isHrefElement el) = true
      · -- hardening ran: it appended rel / target, which the rules strip again
        simp only [hcond, ↓reduceIte] at hout
        have hhref : isHrefElement el = true := by simp only [Bool.and_eq_true] at hcond; exact hcond.2
        have hupos : u.length > 0 := by simp only [Bool.and_eq_true, decide_eq_true_eq] at hcond; exact hcond.1.2
        have hnoacc : ∀ v, acc ⟨b!"rel", v⟩ = false ∧ acc ⟨b!"target", v⟩ = false := by
          intro v
          have := hs.noRelTarget el aps haps hhref v
          rw [← hacc]
          exact this
        have hnrt : ∀ a ∈ u, isRelOrTarget a = false := by
          intro a ha
          have hacc_a := huacc a ha
          unfold isRelOrTarget
          rcases hrel : (a.key == b!"rel") with _ | _
          · rcases htg : (a.key == b!"target") with _ | _
            · rfl
            · have : a = ⟨b!"target", a.val⟩ := by cases a; simp_all
              rw [this, (hnoacc a.val).2] at hacc_a; cases hacc_a
          · have : a = ⟨b!"rel", a.val⟩ := by cases a; simp_all
            rw [this, (hnoacc a.val).1] at hacc_a; cases hacc_a
        obtain ⟨E, hE, hEk⟩ := hardenLinks_appends p el u hnrt
        rw [hE] at hout
        have hfE : E.filter acc = [] := by
          rw [List.filter_eq_nil_iff]
          intro a ha
          have hk := hEk a ha
          unfold isRelOrTarget at hk
          simp only [Bool.or_eq_true, beq_iff_eq] at hk
          rcases hk with hk | hk
          · have : a = ⟨b!"rel", a.val⟩ := by cases a; simp_all
            rw [this, (hnoacc a.val).1]; simp
          · have : a = ⟨b!"target", a.val⟩ := by cases a; simp_all
            rw [this, (hnoacc a.val).2]; simp
        subst hout
        rw [List.filter_append, hfu, hfE, List.append_nil]
        have hune : u.isEmpty = false := by
          cases u with
          | nil => simp at hupos
          | cons _ _ => rfl
        simp only [hune, Bool.false_eq_true, ↓reduceIte]
        unfold Policy.linkPasses
        simp only [hl, ↓reduceIte, hufix, Option.map_some, hcond, hE]
      · -- no hardening: the URL pass alone
        simp only [hcond, Bool.false_eq_true, ↓reduceIte] at hout
        subst hout
        rw [hfu]
        by_cases hue : out.isEmpty = true
        · simp only [hue, ↓reduceIte]
        · simp only [hue, Bool.false_eq_true, ↓reduceIte]
          unfold Policy.linkPasses
          simp only [hl, ↓reduceIte, hufix, Option.map_some, hcond, Bool.false_eq_true]
    · have hl' : linkable el = false := by simpa using hl
      simp only [hl', Bool.false_eq_true, ↓reduceIte, Option.some.injEq] at h
      subst h
      have hfc : c.filter acc = c := List.filter_eq_self.mpr hcacc
      rw [hfc]
      simp only [hce, Bool.false_eq_true, ↓reduceIte]
      unfold Policy.linkPasses
      simp only [hl', Bool.false_eq_true, ↓reduceIte]

theorem attrFix_of_link (p : Policy) (hs : LinkSimple p) : AttrFix p := by
  intro t aps attrs _ haps h
  unfold Policy.cleanAttrs at h ⊢
  split at h
  · simp at h; subst h; simp_all
  · simp only
    split
    · rename_i he
      have : attrs = [] := List.isEmpty_iff.mp he
      subst this; rfl
    · exact link_sanitizeAttrs_idem p hs t.data t.attrs attrs aps haps h

/-- **C20, policies with link options** whose rules let neither `rel` nor `target` through on a, area, base,
    link: sanitising twice is sanitising once for every input — the `rel` tokens and the `target` the
    options add are stripped by the second pass and added again identically — provided URL normalisation
    is stable.  (When the rules let exactly one of the two through, the order of the attributes changes
    on the second pass: the known finding `forced-attr-order`.) -/
theorem C20_links (p : Policy) (hp : Plain p.ensureInit) (hs : LinkSimple p.ensureInit) (input : Bytes) :
    p.sanitizeCore (p.sanitizeCore input) = p.sanitizeCore input :=
  C20_fix p hp (attrFix_of_link _ hs) input

/-- the proviso is needed, and the model shows why: under a policy that allows relative URLs, `/%2f}` is
    normalised to `//%7D`, which is refused when it comes back — so the second pass drops the link the
    first pass kept (the known finding `url-reprint-unstable`, here on the model's `net/url`) -/
example :
    let p : Policy := { initialized := true, requireParseableURLs := true, allowRelativeURLs := true,
                        allowURLSchemes := [(b!"https", [])], elsAndAttrs := [(b!"a", [(b!"href", [none])])] }
    p.validURL b!"https://a.b/c?d=e#f" = some b!"https://a.b/c?d=e#f" ∧
    p.validURL b!"/%2f}" = some b!"//%7D" ∧ p.validURL b!"//%7D" = none ∧
    p.sanitizeCore b!"<a href=\"/%2f}\">t</a>" = b!"<a href=\"//%7D\">t</a>" ∧
    p.sanitizeCore (p.sanitizeCore b!"<a href=\"/%2f}\">t</a>") = b!"t" := by decide

/-- a policy of the `LinkSimple` kind at work (a test, not the unbounded claim): the options add `rel` and
    `target`, the rules would let neither through, and the second pass reproduces the first -/
example :
    let p : Policy := { initialized := true, requireParseableURLs := true, requireNoFollow := true,
                        addTargetBlankToFullyQualifiedLinks := true, allowURLSchemes := [(b!"https", [])],
                        elsAndAttrs := [(b!"a", [(b!"href", [none])])] }
    p.sanitizeCore b!"<a href=\"https://a.b/\" rel=\"author\" target=\"x\">t</a>" =
      b!"<a href=\"https://a.b/\" rel=\"nofollow noopener\" target=\"_blank\">t</a>" ∧
    p.sanitizeCore (p.sanitizeCore b!"<a href=\"https://a.b/\" rel=\"author\" target=\"x\">t</a>") =
      p.sanitizeCore b!"<a href=\"https://a.b/\" rel=\"author\" target=\"x\">t</a>" := by decide

end BM.Props
