import BM.Props.C19
import BM.Proofs.RegexWords
/-
  C19, "accepts only strings of its documented form".  For the five keyword matchers the documented
  form is a word list: a value is accepted only if it spells one of the documented words, letter by
  letter, up to the case folding `(?i)` stands for (which adds U+017F to `s` and U+212A to `k`: the
  known finding of this property).  Integer and NumberOrPercent: a non-empty run of digits, for the
  latter optionally followed by one `%`.  The statements are about the syntax trees regenerated
  from helpers.go on every run; the class words are computed by `Re.cwords` and compared with the
  documented words by the kernel.
-/
namespace BM.Props
open BM BM.Re

/-- the runes `(?i)` lets stand for the ASCII letter `x` (Go's simple case folding) -/
def foldOrbit (x : Rune) : List Rune :=
  (if 97 ≤ x && x ≤ 122 then [x, x - 32] else if 65 ≤ x && x ≤ 90 then [x, x + 32] else [x]) ++
  (if x == 115 || x == 83 then [0x17F] else []) ++ (if x == 107 || x == 75 then [0x212A] else [])

/-- `s` spells the word `d` up to case folding -/
def foldSpells (s d : List Rune) : Bool :=
  s.length == d.length && (s.zip d).all fun cx => (foldOrbit cx.2).contains cx.1

/-- the runes of a class -/
def classRunes (rs : List (Rune × Rune)) : List Rune :=
  rs.flatMap fun lohi => (List.range (lohi.2 - lohi.1 + 1)).map (lohi.1 + ·)

theorem mem_classRunes (rs : List (Rune × Rune)) (c : Rune) (hc : inRanges c rs = true) : c ∈ classRunes rs := by
  induction rs with
  | nil => simp [inRanges] at hc
  | cons r rest ih =>
    obtain ⟨lo, hi⟩ := r
    simp only [inRanges, Bool.or_eq_true, Bool.and_eq_true, decide_eq_true_eq] at hc
    simp only [classRunes, List.flatMap_cons, List.mem_append, List.mem_map, List.mem_range]
    rcases hc with ⟨h1, h2⟩ | hc
    · left
      have key : ∀ (lo hi c : Nat), lo ≤ c → c ≤ hi → c - lo < hi - lo + 1 ∧ lo + (c - lo) = c := by
        intro lo hi c h1 h2; omega
      exact ⟨c - lo, (key lo hi c h1 h2).1, (key lo hi c h1 h2).2⟩
    · right; exact ih hc

/-- the documented words that are still possible after a rune: those whose next letter it folds to -/
def stepDocs (docs : List (List Rune)) (c : Rune) : List (List Rune) :=
  docs.filterMap fun d => match d with
    | x :: d' => if (foldOrbit x).contains c then some d' else none
    | [] => none

/-- every rune word the class word stands for spells one of the documented words -/
def covered : CWord → List (List Rune) → Bool
  | [], docs => docs.contains []
  | rs :: w, docs => (classRunes rs).all fun c => covered w (stepDocs docs c)

theorem foldSpells_of_covered : ∀ (w : CWord) (s : List Rune) (docs : List (List Rune)), fits s w = true →
    covered w docs = true → ∃ d ∈ docs, foldSpells s d = true := by
  intro w
  induction w with
  | nil =>
    intro s docs hf hc
    cases s with
    | nil => exact ⟨[], List.contains_iff_mem.mp hc, rfl⟩
    | cons _ _ => simp [fits] at hf
  | cons rs w ih =>
    intro s docs hf hc
    cases s with
    | nil => simp [fits] at hf
    | cons c cs =>
      simp only [fits, Bool.and_eq_true] at hf
      simp only [covered, List.all_eq_true] at hc
      obtain ⟨d', hd', hsp⟩ := ih cs (stepDocs docs c) hf.2 (hc c (mem_classRunes rs c hf.1))
      unfold stepDocs at hd'
      obtain ⟨d, hd, hdd⟩ := List.mem_filterMap.mp hd'
      split at hdd
      · rename_i x d''
        split at hdd
        · rename_i hx
          simp only [Option.some.injEq] at hdd
          subst hdd
          refine ⟨x :: d'', hd, ?_⟩
          simp only [foldSpells, Bool.and_eq_true, beq_iff_eq] at hsp
          simp only [foldSpells, List.length_cons, List.zip_cons_cons, List.all_cons, Bool.and_eq_true, beq_iff_eq,
            Nat.add_right_cancel_iff]
          exact ⟨hsp.1, hx, hsp.2⟩
        · cases hdd
      · cases hdd

/-- every class word of `r` lies within one of the documented words -/
def formOK (r : Re) (docs : List (List Rune)) : Bool :=
  match cwords r with
  | some ws => ws.all fun w => covered w docs
  | Option.none => false

/-- **the documented form of a keyword matcher**: an accepted value spells one of the documented words -/
theorem keyword_form (r : Re) (docs : List (List Rune)) (ha : anchoredBoth r = true) (hf : formOK r docs = true)
    (v : Bytes) (h : Re.matchBytes r v = true) : ∃ d ∈ docs, foldSpells (decodeRunes v) d = true := by
  obtain ⟨p', hm⟩ := (search_anchored r ha (decodeRunes v)).mp h
  unfold formOK at hf
  split at hf
  · rename_i ws hws
    obtain ⟨w, hw, pre, hs, hfit⟩ := cwords_sound hm ws hws
    simp only [List.append_nil] at hs
    subst hs
    exact foldSpells_of_covered w _ docs hfit (List.all_eq_true.mp hf w hw)
  · cases hf

def runes (s : Bytes) : List Rune := s.map (·.toNat)

def docCellAlign : List (List Rune) := [b!"center", b!"justify", b!"left", b!"right", b!"char"].map runes
def docCellVerticalAlign : List (List Rune) := [b!"baseline", b!"bottom", b!"middle", b!"top"].map runes
def docDirection : List (List Rune) := [b!"rtl", b!"ltr"].map runes
def docImageAlign : List (List Rune) :=
  [b!"left", b!"right", b!"top", b!"texttop", b!"middle", b!"absmiddle", b!"baseline", b!"bottom", b!"absbottom"].map runes
def docListType : List (List Rune) := [b!"circle", b!"disc", b!"square", b!"a", b!"i", b!"1"].map runes

set_option maxRecDepth 100000 in
theorem CellAlign_form (v : Bytes) (h : Re.matchBytes Gen.patCellAlign v = true) :
    ∃ d ∈ docCellAlign, foldSpells (decodeRunes v) d = true :=
  keyword_form _ _ (by decide) (by decide) v h

set_option maxRecDepth 100000 in
theorem CellVerticalAlign_form (v : Bytes) (h : Re.matchBytes Gen.patCellVerticalAlign v = true) :
    ∃ d ∈ docCellVerticalAlign, foldSpells (decodeRunes v) d = true :=
  keyword_form _ _ (by decide) (by decide) v h

set_option maxRecDepth 100000 in
theorem Direction_form (v : Bytes) (h : Re.matchBytes Gen.patDirection v = true) :
    ∃ d ∈ docDirection, foldSpells (decodeRunes v) d = true :=
  keyword_form _ _ (by decide) (by decide) v h

set_option maxRecDepth 100000 in
theorem ImageAlign_form (v : Bytes) (h : Re.matchBytes Gen.patImageAlign v = true) :
    ∃ d ∈ docImageAlign, foldSpells (decodeRunes v) d = true :=
  keyword_form _ _ (by decide) (by decide) v h

set_option maxRecDepth 100000 in
theorem ListType_form (v : Bytes) (h : Re.matchBytes Gen.patListType v = true) :
    ∃ d ∈ docListType, foldSpells (decodeRunes v) d = true :=
  keyword_form _ _ (by decide) (by decide) v h

/-- non-vacuity and sharpness: `Justify` spells a documented word, `juſtify` does too (the known
    finding), `centre` does not -/
example : foldSpells (runes b!"Justify") (runes b!"justify") = true ∧
    foldSpells [106, 117, 0x17F, 116, 105, 102, 121] (runes b!"justify") = true ∧
    docCellAlign.all (fun d => !foldSpells (runes b!"centre") d) = true := by decide

/-! ### the two digit matchers -/

def isDigitRune (c : Rune) : Bool := decide (48 ≤ c ∧ c ≤ 57)

theorem digit_of_inRanges (c : Rune) (h : inRanges c [(48, 57)] = true) : isDigitRune c = true := by
  simpa [inRanges, isDigitRune] using h

/-- **Integer**: an accepted value is a non-empty run of ASCII digits -/
theorem Integer_form (v : Bytes) (h : Re.matchBytes Gen.patInteger v = true) :
    decodeRunes v ≠ [] ∧ (decodeRunes v).all isDigitRune = true := by
  obtain ⟨p', hm⟩ := (search_anchored Gen.patInteger (by decide) (decodeRunes v)).mp h
  unfold Gen.patInteger at hm
  cases hm with
  | cat _ _ _ _ p1 s1 _ _ hbot hrest =>
    cases hbot with
    | bot _ _ _ =>
      cases hrest with
      | cat _ _ _ _ p2 s2 _ _ hplus heot =>
        cases heot with
        | eot _ _ _ =>
          obtain ⟨c, pre, hs, hc, hpre⟩ := plus_cls hplus
          rw [hs]
          refine ⟨by simp, ?_⟩
          simp only [List.append_nil, List.all_cons, Bool.and_eq_true, List.all_eq_true]
          exact ⟨digit_of_inRanges c hc, fun x hx => digit_of_inRanges x (hpre x hx)⟩

/-- **NumberOrPercent**: a non-empty run of ASCII digits, optionally followed by one `%` -/
theorem NumberOrPercent_form (v : Bytes) (h : Re.matchBytes Gen.patNumberOrPercent v = true) :
    ∃ ds, ds ≠ [] ∧ ds.all isDigitRune = true ∧ (decodeRunes v = ds ∨ decodeRunes v = ds ++ [37]) := by
  obtain ⟨p', hm⟩ := (search_anchored Gen.patNumberOrPercent (by decide) (decodeRunes v)).mp h
  unfold Gen.patNumberOrPercent at hm
  cases hm with
  | cat _ _ _ _ p1 s1 _ _ hbot hrest =>
    cases hbot with
    | bot _ _ _ =>
      cases hrest with
      | cat _ _ _ _ p2 s2 _ _ hplus hrest2 =>
        obtain ⟨c, pre, hs, hc, hpre⟩ := plus_cls hplus
        have hds : (c :: pre).all isDigitRune = true := by
          simp only [List.all_cons, Bool.and_eq_true, List.all_eq_true]
          exact ⟨digit_of_inRanges c hc, fun x hx => digit_of_inRanges x (hpre x hx)⟩
        cases hrest2 with
        | cat _ _ _ _ p3 s3 _ _ hq heot =>
          cases heot with
          | eot _ _ hs3 =>
            cases hq with
            | quest0 =>
              refine ⟨c :: pre, by simp, hds, Or.inl ?_⟩
              rw [hs]; simp
            | questS _ _ _ _ _ hcls =>
              cases hcls with
              | cls _ _ x cs hin =>
                have hx : x = 37 := by
                  simp only [inRanges, Bool.or_false, Bool.and_eq_true, decide_eq_true_eq] at hin
                  exact Nat.le_antisymm hin.2 hin.1
                subst hx
                refine ⟨c :: pre, by simp, hds, Or.inr ?_⟩
                rw [hs]

end BM.Props
