import BM.Props.C19
import BM.Proofs.RegexWords
/-
  C19, "accepts only strings of its documented form".  For the five keyword matchers the documented
  form is a word list: a value is accepted only if it spells one of the documented words, letter by
  letter, up to the case folding `(?i)` stands for (which adds U+017F to `s` and U+212A to `k`: the
  known finding of this property).  Integer and NumberOrPercent: a non-empty run of digits, for the
  latter optionally followed by one `%`.  The statements are about the syntax trees regenerated
  from helpers.go on every run; the class words are computed by `Re.cwords` and compared with the
  documented words by the kernel.
-/
namespace BM.Props
open BM BM.Re

/-- the runes `(?i)` lets stand for the ASCII letter `x` (Go's simple case folding) -/
def foldOrbit (x : Rune) : List Rune :=
  (if 97 ≤ x && x ≤ 122 then [x, x - 32] else if 65 ≤ x && x ≤ 90 then [x, x + 32] else [x]) ++
  (if x == 115 || x == 83 then [0x17F] else []) ++ (if x == 107 || x == 75 then [0x212A] else [])

/-- `s` spells the word `d` up to case folding -/
def foldSpells (s d : List Rune) : Bool :=
  s.length == d.length && (s.zip d).all fun cx => (foldOrbit cx.2).contains cx.1

/-- the runes of a class -/
def classRunes (rs : List (Rune × Rune)) : List Rune :=
  rs.flatMap fun lohi => (List.range (lohi.2 - lohi.1 + 1)).map (lohi.1 + ·)

theorem mem_classRunes (rs : List (Rune × Rune)) (c : Rune) (hc : inRanges c rs = true) : c ∈ classRunes rs := by
  induction rs with
  | nil => simp [inRanges] at hc
  | cons r rest ih =>
    obtain ⟨lo, hi⟩ := r
    simp only [inRanges, Bool.or_eq_true, Bool.and_eq_true, decide_eq_true_eq] at hc
    simp only [classRunes, List.flatMap_cons, List.mem_append, List.mem_map, List.mem_range]
    rcases hc with ⟨h1, h2⟩ | hc
    · left
      have key : ∀ (lo hi c : Nat), lo ≤ c → c ≤ hi → c - lo < hi - lo + 1 ∧ lo + (c - lo) = c := by
        intro lo hi c h1 h2; omega
      exact ⟨c - lo, (key lo hi c h1 h2).1, (key lo hi c h1 h2).2⟩
    · right; exact ih hc

/-- the documented words that are still possible after a rune: those whose next letter it folds to -/
def stepDocs (docs : List (List Rune)) (c : Rune) : List (List Rune) :=
  docs.filterMap fun d => match d with
    | x :: d' => if (foldOrbit x).contains c then some d' else none
    | [] => none

/-- every rune word the class word stands for spells one of the documented words -/
def covered : CWord → List (List Rune) → Bool
  | [], docs => docs.contains []
  | rs :: w, docs => (classRunes rs).all fun c => covered w (stepDocs docs c)

theorem foldSpells_of_covered : ∀ (w : CWord) (s : List Rune) (docs : List (List Rune)), fits s w = true →
    covered w docs = true → ∃ d ∈ docs, foldSpells s d = true := by
  intro w
  induction w with
  | nil =>
    intro s docs hf hc
    cases s with
    | nil => exact ⟨[], List.contains_iff_mem.mp hc, rfl⟩
    | cons _ _ => simp [fits] at hf
  | cons rs w ih =>
    intro s docs hf hc
    cases s with
    | nil => simp [fits] at hf
    | cons c cs =>
      simp only [fits, Bool.and_eq_true] at hf
      simp only [covered, List.all_eq_true] at hc
      obtain ⟨d', hd', hsp⟩ := ih cs (stepDocs docs c) hf.2 (hc c (mem_classRunes rs c hf.1))
      unfold stepDocs at hd'
      obtain ⟨d, hd, hdd⟩ := List.mem_filterMap.mp hd'
      split at hdd
      · rename_i x d''
        split at hdd
        · rename_i hx
          simp only [Option.some.injEq] at hdd
          subst hdd
          refine ⟨x :: d'', hd, ?_⟩
          simp only [foldSpells, Bool.and_eq_true, beq_iff_eq] at hsp
          simp only [foldSpells, List.length_cons, List.zip_cons_cons, List.all_cons, Bool.and_eq_true, beq_iff_eq,
            Nat.add_right_cancel_iff]
          exact ⟨hsp.1, hx, hsp.2⟩
        · cases hdd
      · cases hdd

/-- every class word of `r` lies within one of the documented words -/
def formOK (r : Re) (docs : List (List Rune)) : Bool :=
  match cwords r with
  | some ws => ws.all fun w => covered w docs
  | Option.none => false

/-- **the documented form of a keyword matcher**: an accepted value spells one of the documented words -/
theorem keyword_form (r : Re) (docs : List (List Rune)) (ha : anchoredBoth r = true) (hf : formOK r docs = true)
    (v : Bytes) (h : Re.matchBytes r v = true) : ∃ d ∈ docs, foldSpells (decodeRunes v) d = true := by
  obtain ⟨p', hm⟩ := (search_anchored r ha (decodeRunes v)).mp h
  unfold formOK at hf
  split at hf
  · rename_i ws hws
    obtain ⟨w, hw, pre, hs, hfit⟩ := cwords_sound hm ws hws
    simp only [List.append_nil] at hs
    subst hs
    exact foldSpells_of_covered w _ docs hfit (List.all_eq_true.mp hf w hw)
  · cases hf

def runes (s : Bytes) : List Rune := s.map (·.toNat)

def docCellAlign : List (List Rune) := [b!"center", b!"justify", b!"left", b!"right", b!"char"].map runes
def docCellVerticalAlign : List (List Rune) := [b!"baseline", b!"bottom", b!"middle", b!"top"].map runes
def docDirection : List (List Rune) := [b!"rtl", b!"ltr"].map runes
def docImageAlign : List (List Rune) :=
  [b!"left", b!"right", b!"top", b!"texttop", b!"middle", b!"absmiddle", b!"baseline", b!"bottom", b!"absbottom"].map runes
def docListType : List (List Rune) := [b!"circle", b!"disc", b!"square", b!"a", b!"i", b!"1"].map runes

set_option maxRecDepth 100000 in
theorem CellAlign_form (v : Bytes) (h : Re.matchBytes Gen.patCellAlign v = true) :
    ∃ d ∈ docCellAlign, foldSpells (decodeRunes v) d = true :=
  keyword_form _ _ (by decide) (by decide) v h

set_option maxRecDepth 100000 in
theorem CellVerticalAlign_form (v : Bytes) (h : Re.matchBytes Gen.patCellVerticalAlign v = true) :
    ∃ d ∈ docCellVerticalAlign, foldSpells (decodeRunes v) d = true :=
  keyword_form _ _ (by decide) (by decide) v h

set_option maxRecDepth 100000 in
theorem Direction_form (v : Bytes) (h : Re.matchBytes Gen.patDirection v = true) :
    ∃ d ∈ docDirection, foldSpells (decodeRunes v) d = true :=
  keyword_form _ _ (by decide) (by decide) v h

set_option maxRecDepth 100000 in
theorem ImageAlign_form (v : Bytes) (h : Re.matchBytes Gen.patImageAlign v = true) :
    ∃ d ∈ docImageAlign, foldSpells (decodeRunes v) d = true :=
  keyword_form _ _ (by decide) (by decide) v h

set_option maxRecDepth 100000 in
theorem ListType_form (v : Bytes) (h : Re.matchBytes Gen.patListType v = true) :
    ∃ d ∈ docListType, foldSpells (decodeRunes v) d = true :=
  keyword_form _ _ (by decide) (by decide) v h

/-- non-vacuity and sharpness: `Justify` spells a documented word, `juſtify` does too (the known
    finding), `centre` does not -/
example : foldSpells (runes b!"Justify") (runes b!"justify") = true ∧
    foldSpells [106, 117, 0x17F, 116, 105, 102, 121] (runes b!"justify") = true ∧
    docCellAlign.all (fun d => !foldSpells (runes b!"centre") d) = true := by decide

/-! ### the two digit matchers -/

def isDigitRune (c : Rune) : Bool := decide (48 ≤ c ∧ c ≤ 57)

theorem digit_of_inRanges (c : Rune) (h : inRanges c [(48, 57)] = true) : isDigitRune c = true := by
  simpa [inRanges, isDigitRune] using h

/-- **Integer**: an accepted value is a non-empty run of ASCII digits -/
theorem Integer_form (v : Bytes) (h : Re.matchBytes Gen.patInteger v = true) :
    decodeRunes v ≠ [] ∧ (decodeRunes v).all isDigitRune = true := by
  obtain ⟨p', hm⟩ := (search_anchored Gen.patInteger (by decide) (decodeRunes v)).mp h
  unfold Gen.patInteger at hm
  cases hm with
  | cat _ _ _ _ p1 s1 _ _ hbot hrest =>
    cases hbot with
    | bot _ _ _ =>
      cases hrest with
      | cat _ _ _ _ p2 s2 _ _ hplus heot =>
        cases heot with
        | eot _ _ _ =>
          obtain ⟨c, pre, hs, hc, hpre⟩ := plus_cls hplus
          rw [hs]
          refine ⟨by simp, ?_⟩
          simp only [List.append_nil, List.all_cons, Bool.and_eq_true, List.all_eq_true]
          exact ⟨digit_of_inRanges c hc, fun x hx => digit_of_inRanges x (hpre x hx)⟩

/-- **NumberOrPercent**: a non-empty run of ASCII digits, optionally followed by one `%` -/
theorem NumberOrPercent_form (v : Bytes) (h : Re.matchBytes Gen.patNumberOrPercent v = true) :
    ∃ ds, ds ≠ [] ∧ ds.all isDigitRune = true ∧ (decodeRunes v = ds ∨ decodeRunes v = ds ++ [37]) := by
  obtain ⟨p', hm⟩ := (search_anchored Gen.patNumberOrPercent (by decide) (decodeRunes v)).mp h
  unfold Gen.patNumberOrPercent at hm
  cases hm with
  | cat _ _ _ _ p1 s1 _ _ hbot hrest =>
    cases hbot with
    | bot _ _ _ =>
      cases hrest with
      | cat _ _ _ _ p2 s2 _ _ hplus hrest2 =>
        obtain ⟨c, pre, hs, hc, hpre⟩ := plus_cls hplus
        have hds : (c :: pre).all isDigitRune = true := by
          simp only [List.all_cons, Bool.and_eq_true, List.all_eq_true]
          exact ⟨digit_of_inRanges c hc, fun x hx => digit_of_inRanges x (hpre x hx)⟩
        cases hrest2 with
        | cat _ _ _ _ p3 s3 _ _ hq heot =>
          cases heot with
          | eot _ _ hs3 =>
            cases hq with
            | quest0 =>
              refine ⟨c :: pre, by simp, hds, Or.inl ?_⟩
              rw [hs]; simp
            | questS _ _ _ _ _ hcls =>
              cases hcls with
              | cls _ _ x cs hin =>
                have hx : x = 37 := by
                  simp only [inRanges, Bool.or_false, Bool.and_eq_true, decide_eq_true_eq] at hin
                  exact Nat.le_antisymm hin.2 hin.1
                subst hx
                refine ⟨c :: pre, by simp, hds, Or.inr ?_⟩
                rw [hs]

/-! ### ISO8601: the W3C date-time note's shapes -/

/-- every class of `w` lies within the class of `w'` at the same position -/
def cwordSub (w w' : CWord) : Bool :=
  w.length == w'.length && (w.zip w').all fun rr => (classRunes rr.1).all fun c => inRanges c rr.2

theorem fits_of_sub : ∀ (s : List Rune) (w w' : CWord), fits s w = true → cwordSub w w' = true → fits s w' = true := by
  intro s
  induction s with
  | nil =>
    intro w w' hf hs
    cases w with
    | nil =>
      cases w' with
      | nil => rfl
      | cons _ _ => simp [cwordSub] at hs
    | cons _ _ => simp [fits] at hf
  | cons c cs ih =>
    intro w w' hf hs
    cases w with
    | nil => simp [fits] at hf
    | cons rs w1 =>
      cases w' with
      | nil => simp [cwordSub] at hs
      | cons rs' w1' =>
        simp only [fits, Bool.and_eq_true] at hf ⊢
        simp only [cwordSub, List.length_cons, List.zip_cons_cons, List.all_cons, Bool.and_eq_true, beq_iff_eq,
          Nat.add_right_cancel_iff] at hs
        refine ⟨List.all_eq_true.mp hs.2.1 c (mem_classRunes rs c hf.1), ih w1 w1' hf.2 ?_⟩
        simp only [cwordSub, Bool.and_eq_true, beq_iff_eq]
        exact ⟨hs.1, hs.2.2⟩

def dg : List (Rune × Rune) := [(48, 57)]
def ch (c : Rune) : List (Rune × Rune) := [(c, c)]

/-- `YYYY`, `YYYY-MM`, `YYYY-MM-DD`, and `YYYY-MM-DD(T| )hh:mm[:ss][.f{1,6}][Z][(+|-)hh:mm]`, as class words -/
def isoShapes : List CWord :=
  let year : CWord := [dg, dg, dg, dg]
  let month : CWord := year ++ [ch 45, dg, dg]
  let day : CWord := month ++ [ch 45, dg, dg]
  let hm : CWord := day ++ [[(32, 32), (84, 84)], dg, dg, ch 58, dg, dg]
  let secs : List CWord := [[], [ch 58, dg, dg]]
  let fracs : List CWord := [[]] ++ (List.range 6).map fun n => ch 46 :: List.replicate (n + 1) dg
  let zs : List CWord := [[], [ch 90]]
  let tzs : List CWord := [[], [[(43, 43), (45, 45)], dg, dg, ch 58, dg, dg]]
  [year, month, day] ++
    secs.flatMap fun a => fracs.flatMap fun b => zs.flatMap fun c => tzs.map fun d => hm ++ a ++ b ++ c ++ d

/-- every class word of the expression lies within one of the shapes -/
def shapesOK (r : Re) (shapes : List CWord) : Bool :=
  match cwords r with
  | some ws => ws.all fun w => shapes.any fun w' => cwordSub w w'
  | Option.none => false

theorem shape_form (r : Re) (shapes : List CWord) (ha : anchoredBoth r = true) (hf : shapesOK r shapes = true)
    (v : Bytes) (h : Re.matchBytes r v = true) : ∃ w ∈ shapes, fits (decodeRunes v) w = true := by
  obtain ⟨p', hm⟩ := (search_anchored r ha (decodeRunes v)).mp h
  unfold shapesOK at hf
  split at hf
  · rename_i ws hws
    obtain ⟨w, hw, pre, hs, hfit⟩ := cwords_sound hm ws hws
    simp only [List.append_nil] at hs
    subst hs
    obtain ⟨w', hw', hsub⟩ := List.any_eq_true.mp (List.all_eq_true.mp hf w hw)
    exact ⟨w', hw', fits_of_sub _ w w' hfit hsub⟩
  · cases hf

set_option maxRecDepth 1000000 in
/-- **ISO8601**: an accepted value has one of the shapes of the W3C date-time note -/
theorem ISO8601_form (v : Bytes) (h : Re.matchBytes Gen.patISO8601 v = true) :
    ∃ w ∈ isoShapes, fits (decodeRunes v) w = true :=
  shape_form _ _ (by decide) (by decide) v h

example : isoShapes.length = 59 ∧ isoShapes.any (fits (runes b!"2024-02-29T12:30:05.123Z")) = true ∧
    isoShapes.any (fits (runes b!"2024-02-29T12:30<")) = false := by decide

/-! ### Number -/

/-- a floating-point literal: sign, digits, point, digits, exponent -/
def NumberForm (s : List Rune) : Prop :=
  ∃ sign int dot frac exp, s = sign ++ int ++ dot ++ frac ++ exp ∧
    (sign = [] ∨ sign = [43] ∨ sign = [45]) ∧ int.all isDigitRune = true ∧ (dot = [] ∨ dot = [46]) ∧
    frac ≠ [] ∧ frac.all isDigitRune = true ∧
    (exp = [] ∨ ∃ e esign ed, exp = e :: esign ++ ed ∧ (e = 69 ∨ e = 101) ∧ (esign = [] ∨ esign = [43] ∨ esign = [45]) ∧
      ed ≠ [] ∧ ed.all isDigitRune = true)

theorem sign_of_inRanges (c : Rune) (h : inRanges c [(43, 43), (45, 45)] = true) : [c] = [43] ∨ [c] = [45] := by
  simp only [inRanges, Bool.or_false, Bool.or_eq_true, Bool.and_eq_true, decide_eq_true_eq] at h
  rcases h with ⟨h1, h2⟩ | ⟨h1, h2⟩
  · left; rw [Nat.le_antisymm h2 h1]
  · right; rw [Nat.le_antisymm h2 h1]

theorem quest_sign {p s p' s'} (h : Matches (.quest (.cls [(43, 43), (45, 45)])) p s p' s') :
    ∃ sg, s = sg ++ s' ∧ (sg = [] ∨ sg = [43] ∨ sg = [45]) := by
  cases h with
  | quest0 => exact ⟨[], rfl, .inl rfl⟩
  | questS _ _ _ _ _ hc =>
    cases hc with
    | cls _ _ c cs hin => exact ⟨[c], rfl, .inr (sign_of_inRanges c hin)⟩

theorem digits_all (l : List Rune) (h : ∀ x ∈ l, inRanges x [(48, 57)] = true) : l.all isDigitRune = true :=
  List.all_eq_true.mpr fun x hx => digit_of_inRanges x (h x hx)

/-- **Number**: an accepted value is a floating-point literal of that shape -/
theorem Number_form (v : Bytes) (h : Re.matchBytes Gen.patNumber v = true) : NumberForm (decodeRunes v) := by
  obtain ⟨p', hm⟩ := (search_anchored Gen.patNumber (by decide) (decodeRunes v)).mp h
  unfold Gen.patNumber at hm
  cases hm with
  | cat _ _ _ _ _ _ _ _ hbot h1 =>
    cases hbot with
    | bot _ _ _ =>
      cases h1 with
      | cat _ _ _ _ _ s1 _ _ hsign h2 =>
        obtain ⟨sign, hs0, hsign'⟩ := quest_sign hsign
        cases h2 with
        | cat _ _ _ _ _ s2 _ _ hint h3 =>
          obtain ⟨int, hs1, hint'⟩ := star_cls hint rfl
          cases h3 with
          | cat _ _ _ _ _ s3 _ _ hdot h4 =>
            have hdot' : ∃ dot, s2 = dot ++ s3 ∧ (dot = [] ∨ dot = [46]) := by
              cases hdot with
              | quest0 => exact ⟨[], rfl, .inl rfl⟩
              | questS _ _ _ _ _ hc =>
                cases hc with
                | cls _ _ c cs hin =>
                  refine ⟨[c], rfl, .inr ?_⟩
                  simp only [inRanges, Bool.or_false, Bool.and_eq_true, decide_eq_true_eq] at hin
                  rw [Nat.le_antisymm hin.2 hin.1]
            obtain ⟨dot, hs2, hdot''⟩ := hdot'
            cases h4 with
            | cat _ _ _ _ _ s4 _ _ hfrac h5 =>
              obtain ⟨f0, frest, hs3, hf0, hfrest⟩ := plus_cls hfrac
              cases h5 with
              | cat _ _ _ _ _ s5 _ _ hexp heot =>
                cases heot with
                | eot _ _ hs5 =>
                  have hexp' : s4 = [] ∨ ∃ e esign ed, s4 = e :: esign ++ ed ∧ (e = 69 ∨ e = 101) ∧
                      (esign = [] ∨ esign = [43] ∨ esign = [45]) ∧ ed ≠ [] ∧ ed.all isDigitRune = true := by
                    cases hexp with
                    | quest0 => exact .inl rfl
                    | questS _ _ _ _ _ hc =>
                      right
                      cases hc with
                      | cat _ _ _ _ _ t1 _ _ he hrest =>
                        cases he with
                        | cls _ _ e cs hin =>
                          cases hrest with
                          | cat _ _ _ _ _ t2 _ _ hes hed =>
                            obtain ⟨esign, ht1, hes'⟩ := quest_sign hes
                            obtain ⟨d0, drest, ht2, hd0, hdrest⟩ := plus_cls hed
                            refine ⟨e, esign, d0 :: drest, ?_, ?_, hes', by simp, ?_⟩
                            · rw [ht1, ht2]; simp
                            · simp only [inRanges, Bool.or_false, Bool.or_eq_true, Bool.and_eq_true, decide_eq_true_eq] at hin
                              rcases hin with ⟨a, b⟩ | ⟨a, b⟩
                              · left; exact Nat.le_antisymm b a
                              · right; exact Nat.le_antisymm b a
                            · simp only [List.all_cons, Bool.and_eq_true]
                              exact ⟨digit_of_inRanges d0 hd0, digits_all drest hdrest⟩
                  refine ⟨sign, int, dot, f0 :: frest, s4, ?_, hsign', digits_all int hint', hdot'', by simp, ?_, hexp'⟩
                  · rw [hs0, hs1, hs2, hs3]; simp
                  · simp only [List.all_cons, Bool.and_eq_true]
                    exact ⟨digit_of_inRanges f0 hf0, digits_all frest hfrest⟩

/-! ### the two free-text matchers: their form is their alphabet -/

/-- **SpaceSeparatedTokens**: one or more characters of the class the expression names (white space,
    letters, numbers, `_`, `-`; the class is the regenerated one and is within `tokensA`) -/
theorem SpaceSeparatedTokens_form (v : Bytes) (h : Re.matchBytes Gen.patSpaceSeparatedTokens v = true) :
    ∃ rs, Gen.patSpaceSeparatedTokens = .cat .bot (.cat (.plus (.cls rs)) .eot) ∧ decodeRunes v ≠ [] ∧
      ∀ c ∈ decodeRunes v, inRanges c rs = true := by
  obtain ⟨p', hm⟩ := (search_anchored Gen.patSpaceSeparatedTokens (by decide) (decodeRunes v)).mp h
  unfold Gen.patSpaceSeparatedTokens at hm ⊢
  refine ⟨_, rfl, ?_⟩
  cases hm with
  | cat _ _ _ _ _ _ _ _ hbot hrest =>
    cases hbot with
    | bot _ _ _ =>
      cases hrest with
      | cat _ _ _ _ _ _ _ _ hplus heot =>
        cases heot with
        | eot _ _ _ =>
          obtain ⟨c, pre, hs, hc, hpre⟩ := plus_cls hplus
          rw [hs]
          refine ⟨by simp, ?_⟩
          intro x hx
          simp only [List.append_nil, List.mem_cons] at hx
          rcases hx with rfl | hx
          · exact hc
          · exact hpre x hx

/-- **Paragraph**: zero or more characters of the class the expression names -/
theorem Paragraph_form (v : Bytes) (h : Re.matchBytes Gen.patParagraph v = true) :
    ∃ rs, Gen.patParagraph = .cat .bot (.cat (.star (.cls rs)) .eot) ∧ ∀ c ∈ decodeRunes v, inRanges c rs = true := by
  obtain ⟨p', hm⟩ := (search_anchored Gen.patParagraph (by decide) (decodeRunes v)).mp h
  unfold Gen.patParagraph at hm ⊢
  refine ⟨_, rfl, ?_⟩
  cases hm with
  | cat _ _ _ _ _ _ _ _ hbot hrest =>
    cases hbot with
    | bot _ _ _ =>
      cases hrest with
      | cat _ _ _ _ _ _ _ _ hstar heot =>
        cases heot with
        | eot _ _ _ =>
          obtain ⟨pre, hs, hpre⟩ := star_cls hstar rfl
          rw [hs, List.append_nil]
          exact hpre

end BM.Props
