import BM.Props.C14
/-
  C09: well-nested input yields well-nested output.  Proved (event level, every policy):
  * an element dropped for lack of attributes and its own end tag cancel: the start tag
    pushes its name, writes at most a space; when its end tag arrives with that name on top
    of the stack it is popped and nothing but a space is written;
  * void elements never push (they have no end tag to wait for) and void elements of the
    skip set never start skipping;
  * a kept element nested in a dropped element of the same name leaves a marker that makes
    its own end tag pass (and only pops the marker), so the dropped element's end tag is
    still matched afterwards;
  * the stack discipline is an invariant (`StackInv`, C14): markers always have their
    element below them.
  The induction over whole well-nested documents (output well-nested) is checked by
  `oracleC09` on the exhaustively enumerated documents of the `directed` family; its proof is
  future work (it needs the render/tokenize round trip for the output side).
-/
namespace BM.Props
open BM BM.Html

/-- start tag of an element dropped for lack of attributes: pushed, only a space written -/
theorem dropped_start (p : Policy) (st : LoopState) (t : Token) (aps : AttrRules)
    (htt : t.tt = .start) (hss : isScriptOrStyle t.data = false) (hv : isVoidElement t.data = false)
    (haps : p.attrRulesFor t.data = some aps) (hclean : p.cleanAttrs t aps = some [])
    (hbare : p.allowNoAttrs t.data = false) :
    p.step st t = some ({ st with mostRecentlyStartedToken := t.data, skipClosingTag := true,
                                  closingTagToSkipStack := t.data :: st.closingTagToSkipStack }, p.space) := by
  simp [Policy.step, htt, Policy.stepStart, hss, haps, hclean, hbare, pushDropped, hv]

/-- its end tag: popped, only a space written, the flag cleared when the stack empties -/
theorem dropped_end (p : Policy) (st : LoopState) (t : Token) (rest : List Bytes)
    (htt : t.tt = .end_) (hss : isScriptOrStyle t.data = false)
    (hflag : st.skipClosingTag = true) (hstack : st.closingTagToSkipStack = t.data :: rest) :
    ∃ st', p.step st t = some (st', p.space) ∧ st'.closingTagToSkipStack = rest ∧
      st'.skipClosingTag = !rest.isEmpty ∧ st'.skipElementContent = st.skipElementContent := by
  have h1 : (clearRecent st t.data).skipClosingTag = true ∧
      (clearRecent st t.data).closingTagToSkipStack = t.data :: rest ∧
      (clearRecent st t.data).skipElementContent = st.skipElementContent := by
    unfold clearRecent; split <;> simp [hflag, hstack]
  refine ⟨popDropped (clearRecent st t.data), ?_, ?_, ?_, ?_⟩
  · simp [Policy.step, htt, Policy.stepEnd, hss, h1.1, h1.2.1]
  · simp [popDropped, h1.2.1]
  · simp [popDropped, h1.2.1, h1.1]; cases rest <;> simp
  · simp [popDropped, h1.2.2]

/-- a void element dropped for lack of attributes does not touch the stack -/
theorem void_dropped_no_push (st : LoopState) (el : Bytes) (hv : isVoidElement el = true) :
    pushDropped st el = st := by simp [pushDropped, hv]

/-- a void element of the skip set does not start skipping -/
theorem void_no_skip (p : Policy) (st : LoopState) (el : Bytes) (hv : isVoidElement el = true) :
    p.enterSkip st el = st := by simp [Policy.enterSkip, hv]

/-- the marker of a kept same-name element is popped by that element's end tag, which is then
    handled like any other end tag (so it is written when the element is allowed) -/
theorem marker_popped (st : LoopState) (el : Bytes) (rest : List Bytes)
    (hflag : st.skipClosingTag = true) (hstack : st.closingTagToSkipStack = (47 :: el) :: rest) :
    (popMarker st el).closingTagToSkipStack = rest ∧ (popMarker st el).skipClosingTag = true := by
  simp [popMarker, hflag, hstack]

example :
    let p : Policy := { initialized := true, elsAndAttrs := [(b!"a", [(b!"href", [none])]), (b!"b", []), (b!"img", [(b!"src", [none])])],
                        setOfElementsAllowedWithoutAttrs := [b!"b"] }
    p.sanitizeCore b!"<a><b><a href=x>1</a></b><img>2</a>3" = b!"<b><a href=\"x\">1</a></b>23" := by decide

end BM.Props
