import BM.Props.C14
import BM.Props.Pins
import BM.Proofs.Nesting
import BM.Proofs.Bytes
import BM.Proofs.ProvC
/-
  C09: well-nested input yields well-nested output.  Proved (event level, every policy):
  * an element dropped for lack of attributes and its own end tag cancel: the start tag
    pushes its name, writes at most a space; when its end tag arrives with that name on top
    of the stack it is popped and nothing but a space is written;
  * void elements never push (they have no end tag to wait for) and void elements of the
    skip set never start skipping;
  * a kept element nested in a dropped element of the same name leaves a marker that makes
    its own end tag pass (and only pops the marker), so the dropped element's end tag is
    still matched afterwards;
  * the stack discipline is an invariant (`StackInv`, C14): markers always have their
    element below them.
  The whole-document statement is `C09_events` (every policy without AllowUnsafe: the written
  tokens are well nested whenever the input's tokens are — by the simulation `nest_run` of
  `Proofs/Nesting.lean`, which shows that the five state variables of the loop are a function
  of the open elements of the input) and, for plain policies, `C09_bytes` (what a tokenizer
  reads from the returned bytes is well nested).
-/
namespace BM.Props
open BM BM.Html BM.Spec

/-- start tag of an element dropped for lack of attributes: pushed, only a space written -/
theorem dropped_start (p : Policy) (st : LoopState) (t : Token) (aps : AttrRules)
    (htt : t.tt = .start) (hss : isScriptOrStyle t.data = false) (hv : isVoidElement t.data = false)
    (haps : p.attrRulesFor t.data = some aps) (hclean : p.cleanAttrs t aps = some [])
    (hbare : p.allowNoAttrs t.data = false) :
    p.step st t = some ({ st with mostRecentlyStartedToken := t.data, skipClosingTag := true,
                                  closingTagToSkipStack := t.data :: st.closingTagToSkipStack }, p.space) := by
  simp [Policy.step, htt, Policy.stepStart, hss, haps, hclean, hbare, pushDropped, hv]

/-- its end tag: popped, only a space written, the flag cleared when the stack empties -/
theorem dropped_end (p : Policy) (st : LoopState) (t : Token) (rest : List Bytes)
    (htt : t.tt = .end_) (hss : isScriptOrStyle t.data = false)
    (hflag : st.skipClosingTag = true) (hstack : st.closingTagToSkipStack = t.data :: rest) :
    ∃ st', p.step st t = some (st', p.space) ∧ st'.closingTagToSkipStack = rest ∧
      st'.skipClosingTag = !rest.isEmpty ∧ st'.skipElementContent = st.skipElementContent := by
  have h1 : (clearRecent st t.data).skipClosingTag = true ∧
      (clearRecent st t.data).closingTagToSkipStack = t.data :: rest ∧
      (clearRecent st t.data).skipElementContent = st.skipElementContent := by
    unfold clearRecent; split <;> simp [hflag, hstack]
  refine ⟨popDropped (clearRecent st t.data), ?_, ?_, ?_, ?_⟩
  · simp [Policy.step, htt, Policy.stepEnd, hss, h1.1, h1.2.1]
  · simp [popDropped, h1.2.1]
  · simp [popDropped, h1.2.1, h1.1]; cases rest <;> simp
  · simp [popDropped, h1.2.2]

/-- a void element dropped for lack of attributes does not touch the stack -/
theorem void_dropped_no_push (st : LoopState) (el : Bytes) (hv : isVoidElement el = true) :
    pushDropped st el = st := by simp [pushDropped, hv]

/-- a void element of the skip set does not start skipping -/
theorem void_no_skip (p : Policy) (st : LoopState) (el : Bytes) (hv : isVoidElement el = true) :
    p.enterSkip st el = st := by simp [Policy.enterSkip, hv]

/-- the marker of a kept same-name element is popped by that element's end tag, which is then
    handled like any other end tag (so it is written when the element is allowed) -/
theorem marker_popped (st : LoopState) (el : Bytes) (rest : List Bytes)
    (hflag : st.skipClosingTag = true) (hstack : st.closingTagToSkipStack = (47 :: el) :: rest) :
    (popMarker st el).closingTagToSkipStack = rest ∧ (popMarker st el).skipClosingTag = true := by
  simp [popMarker, hflag, hstack]

/-! ### whole documents -/

/-- **C09 (event level, every policy without AllowUnsafe, every input)**: if the input's
    non-void elements are properly opened and closed, the loop does not panic and what it
    writes is the serialisation of a token list with the same property — whatever is dropped,
    skipped, kept, nested in same-named dropped elements, or void. -/
theorem C09_events (p : Policy) (hu : p.ensureInit.allowUnsafe = false) (input : Bytes)
    (hwn : wellNested (tokenize input) = true) :
    ∃ ws toks, p.ensureInit.run {} (tokenize input) = (ws, false) ∧
      RunWrites p.ensureInit (tokenize input) ws toks ∧ wellNested toks = true :=
  nest_run p.ensureInit hu (tokenize input) [] {} (abs_init _) (tokenizeAux_nameOK _ _ _) hwn

/-- a written token of a plain policy is covered by the round trip -/
theorem prov_segOK {p : Policy} (hp : Plain p) {t k : Token} (hwf : TokWF t) (h : Prov p t k) : SegOK k := by
  rcases h with ⟨rfl, _⟩ | ⟨rfl, htt⟩ | ⟨aps, attrs, hr, hc, rfl, htt⟩
  · simp [SegOK]
  · rcases htt with h | h | ⟨_, hcm⟩
    · unfold SegOK; rw [h]; trivial
    · unfold SegOK TokWF at *; rw [h] at hwf ⊢; exact hwf
    · rw [hp.noComments] at hcm; cases hcm
  · have hall := attrRulesFor_allows' hr
    have hnr : isRawTagName t.data = false := by
      cases h : isRawTagName t.data with
      | false => rfl
      | true => rw [hp.noRaw _ h] at hall; cases hall
    rcases htt with h | h
    · have hw : NameOK' t.data ∧ ∀ a ∈ t.attrs, AttrOK a := by
        unfold TokWF at hwf; rw [h] at hwf; exact hwf
      unfold SegOK; simp only [h]
      exact ⟨hw.1, hnr, allOK_cleanAttrs p t aps attrs hw.2 hc⟩
    · have hw : NameOK' t.data ∧ ∀ a ∈ t.attrs, AttrOK a := by
        unfold TokWF at hwf; rw [h] at hwf; exact hwf
      unfold SegOK; simp only [h]
      exact ⟨hw.1, hnr, allOK_cleanAttrs p t aps attrs hw.2 hc⟩

/-- merging adjacent texts does not change the nesting -/
theorem wn_coalesce : ∀ (ts : List Token) (d : Bytes) (S : List Bytes),
    wellNestedAux S (coalesce d ts) = wellNestedAux S ts
  | [], d, S => by
    simp only [coalesce, flushText]
    split <;> simp [wellNestedAux]
  | t :: ts, d, S => by
    simp only [coalesce]
    split
    · rename_i h
      have ht : t.tt = .text := by revert h; cases t.tt <;> intro h <;> first | rfl | exact absurd h (by decide)
      rw [wn_coalesce ts]
      simp [wellNestedAux, ht]
    · have hflush : ∀ rest, wellNestedAux S (flushText d ++ rest) = wellNestedAux S rest := by
        intro rest
        unfold flushText; split <;> simp [wellNestedAux]
      rw [hflush]
      simp only [wellNestedAux]
      cases htt : t.tt <;> simp only [wn_coalesce ts]

/-- **C09 (byte level, plain policies)**: if the tokens of the input are well nested, so are the
    tokens an HTML tokenizer reads from the returned bytes. -/
theorem C09_bytes (p : Policy) (hp : Plain p.ensureInit) (input : Bytes)
    (hwn : wellNested (tokenize input) = true) : wellNested (tokenize (p.sanitizeCore input)) = true := by
  obtain ⟨ws, toks, hrun, ⟨hbytes, hprov⟩, hout⟩ := C09_events p hp.noUnsafe input hwn
  have hseg : ∀ k ∈ toks, SegOK k := by
    intro k hk
    obtain ⟨t, ht, hpr⟩ := hprov k hk
    exact prov_segOK hp (tokenize_wf input t ht) hpr
  have hb : p.sanitizeCore input = renderAll toks := by
    unfold Policy.sanitizeCore Policy.sanitizeTokens
    rw [hrun]
    simp only
    unfold TokBytes at hbytes
    rw [hbytes, flatten_map_render]
  rw [hb, tokenize_renderAll toks hseg]
  unfold wellNested
  rw [wn_coalesce]
  exact hout

example :
    let p : Policy := { initialized := true, elsAndAttrs := [(b!"a", [(b!"href", [none])]), (b!"b", []), (b!"img", [(b!"src", [none])])],
                        setOfElementsAllowedWithoutAttrs := [b!"b"] }
    p.sanitizeCore b!"<a><b><a href=x>1</a></b><img>2</a>3" = b!"<b><a href=\"x\">1</a></b>23" := by decide

/-- **C09 (byte level), comments allowed or not**: the same for every policy without AllowUnsafe and
    without a raw-text element on its allowlist — a comment between tags is not an element -/
theorem C09_bytesC (p : Policy) (hp : PlainC p.ensureInit) (input : Bytes)
    (hwn : wellNested (tokenize input) = true) : wellNested (tokenize (p.sanitizeCore input)) = true := by
  obtain ⟨ws, toks, hrun, ⟨hbytes, hprov⟩, hout⟩ := C09_events p hp.noUnsafe input hwn
  have hseg : ∀ k ∈ toks, SegOKC k := by
    intro k hk
    obtain ⟨t, ht, hpr⟩ := hprov k hk
    exact prov_segOKC hp (tokenize_wf input t ht) hpr
  have hb : p.sanitizeCore input = renderAll toks := by
    unfold Policy.sanitizeCore Policy.sanitizeTokens
    rw [hrun]
    simp only
    unfold TokBytes at hbytes
    rw [hbytes, flatten_map_render]
  rw [hb, tokenize_renderAllC toks hseg]
  unfold wellNested
  rw [wn_coalesce, wn_map_reread]
  exact hout

/-- (per-input form)  **C09 (byte level), comments allowed or not**: the same for every policy without AllowUnsafe and
    without a raw-text element on its allowlist — a comment between tags is not an element -/
theorem C09_bytesC_on (p : Policy) (input : Bytes) (hp : PlainOn p.ensureInit (tokenize input))
    (hwn : wellNested (tokenize input) = true) : wellNested (tokenize (p.sanitizeCore input)) = true := by
  obtain ⟨ws, toks, hrun, ⟨hbytes, hprov⟩, hout⟩ := C09_events p hp.noUnsafe input hwn
  have hseg : ∀ k ∈ toks, SegOKC k := by
    intro k hk
    obtain ⟨t, ht, hpr⟩ := hprov k hk
    exact prov_segOKOn (hp.noRaw t ht) (tokenize_wf input t ht) hpr
  have hb : p.sanitizeCore input = renderAll toks := by
    unfold Policy.sanitizeCore Policy.sanitizeTokens
    rw [hrun]
    simp only
    unfold TokBytes at hbytes
    rw [hbytes, flatten_map_render]
  rw [hb, tokenize_renderAllC toks hseg]
  unfold wellNested
  rw [wn_coalesce, wn_map_reread]
  exact hout

end BM.Props
