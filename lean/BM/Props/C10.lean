import BM.Sanitize
import BM.Props.Pins
/-
  C10: inline style is filtered declaration by declaration.  Proved for every policy,
  element and style value: the new value of the style attribute is the `"; "`-join, in
  order, of `property ": " value` for exactly those parsed declarations whose lower-cased,
  prefix-stripped property has a rule (for the element, else through patterns; or global)
  one of whose matchers accepts the lower-cased, escape-decoded value; it is empty (and the
  attribute is then removed) when the declarations do not parse or none is accepted; a
  declaration whose value holds an escape that cannot be decoded is never kept; and a
  property without any registered matcher falls back to the default handler, which for an
  unknown property rejects everything (C18).
-/
namespace BM.Props
open BM BM.Html

/-- **C10**: `sanitizeStyles` keeps, in order, exactly the accepted declarations of a cleanly
    parsed style, and nothing when the style does not parse -/
theorem C10_sanitizeStyles (p : Policy) (val el : Bytes) :
    p.sanitizeStyles val el =
      match Css.parseDeclarations (styleSource val) with
      | none => []
      | some decs =>
        joinBytes b!"; " ((decs.filter (p.declAccepted (p.styleRulesFor el))).map
          fun d => d.property ++ b!": " ++ d.value) := rfl

/-- order is preserved and nothing is invented: the kept declarations are a sub-list of the
    parsed ones -/
theorem kept_sublist (p : Policy) (el : Bytes) (decs : List Css.Decl) :
    List.Sublist (decs.filter (p.declAccepted (p.styleRulesFor el))) decs := List.filter_sublist

/-- a kept declaration's property is allowlisted (for the element or globally) and one of the
    registered matchers accepts the lower-cased, decoded value -/
theorem kept_is_allowlisted (p : Policy) (sps : StyleRules) (dec : Css.Decl) (h : p.declAccepted sps dec = true) :
    ∃ v, removeUnicode (toLowerGo dec.value) = some v ∧
      ((∃ spl, sps.get? (trimPrefixes (toLowerGo dec.property) vendorPrefixes) = some spl ∧
          stylePoliciesAccept spl v = true) ∨
       (∃ spl, p.globalStyles.get? (trimPrefixes (toLowerGo dec.property) vendorPrefixes) = some spl ∧
          stylePoliciesAccept spl v = true)) := by
  unfold Policy.declAccepted at h
  cases hru : removeUnicode (toLowerGo dec.value) with
  | none => simp [hru] at h
  | some v =>
    refine ⟨v, rfl, ?_⟩
    simp only [hru, Bool.or_eq_true] at h
    rcases h with h | h
    · left
      cases hg : sps.get? (trimPrefixes (toLowerGo dec.property) vendorPrefixes) with
      | none => simp [hg] at h
      | some spl => exact ⟨spl, rfl, by simpa [hg] using h⟩
    · right
      cases hg : p.globalStyles.get? (trimPrefixes (toLowerGo dec.property) vendorPrefixes) with
      | none => simp [hg] at h
      | some spl => exact ⟨spl, rfl, by simpa [hg] using h⟩

/-- a matcher-less rule is never accepted (handler nil, no enum, no regexp) -/
theorem no_matcher_rejects (v : Bytes) : stylePoliciesAccept [{}] v = false := by
  simp [stylePoliciesAccept]

/-- a style attribute with nothing left is removed -/
theorem empty_style_removed (p : Policy) (el : Bytes) (aps : AttrRules) (a : Attr)
    (hk : a.key = b!"style") (hs : p.hasStylePolicies el = true)
    (hd : (p.allowDataAttributes && isDataAttribute a.key) = false)
    (he : p.sanitizeStyles a.val el = []) : p.filterAttr el aps true a = none := by
  have _ := hs
  unfold Policy.filterAttr
  simp only [hd, Bool.false_eq_true, ↓reduceIte]
  simp only [hk, beq_self_eq_true, Bool.and_self, ↓reduceIte]
  simp [he]

/-- a declaration whose value cannot be decoded is never kept -/
theorem undecodable_rejected (p : Policy) (sps : StyleRules) (dec : Css.Decl)
    (h : removeUnicode (toLowerGo dec.value) = none) : p.declAccepted sps dec = false := by
  simp [Policy.declAccepted, h]

example :
    let p : Policy := { initialized := true, globalStyles := [(b!"color", [{ enum := [b!"red"] }])] }
    p.sanitizeStyles b!"COLOR: \\72 ed; width: 1px; -webkit-color: RED ;color: blue; color: \\110000" b!"b" =
      b!"COLOR: \\72 ed; -webkit-color: RED" := by decide

end BM.Props
