import BM.Props.C17
import BM.Proofs.ViewTables
import BM.Proofs.WFBuild
/-
  C17 at the level of the bytes returned.  `C17_view_of_tables`: the view through which `sanitize`
  reads a policy (Proofs/Congr) is determined by the switches, the skip set, the scheme
  registrations and the rule tables *read as sets* (`SameTables`, `SameTables2`), for well-formed
  policies.  With `sanitize_congr` and the table theorems of Props/C17 this gives the property at
  full strength on the model: histories that make the same rule-adding calls, in any order and in
  any spelling, and the same switch-like calls in the same order, build policies that return the
  same bytes for every input.
-/
namespace BM.Props
open BM

theorem bool_eq_of_iff {a b : Bool} (h : a = true ↔ b = true) : a = b := by
  cases a <;> cases b <;> simp_all

/-- **the view is a function of the tables read as sets** -/
theorem C17_view_of_tables (T : Nat → Bytes → Bool) (p q : Policy) (hp : p.WF T) (hq : q.WF T)
    (hsw : p.switches = q.switches) (h1 : SameTables p q) (h2 : SameTables2 p q)
    (hskip : ∀ el, p.setOfElementsToSkipContent.contains el = q.setOfElementsToSkipContent.contains el)
    (hsch : ∀ s, p.allowURLSchemes.get? s = q.allowURLSchemes.get? s) : p.view = q.view := by
  have hES : ∀ el, p.hasElemStyle el ↔ q.hasElemStyle el := by
    intro el
    unfold Policy.hasElemStyle
    simp only [h1.elemStyleRules]
  simp only [Policy.view, View.mk.injEq]
  refine ⟨hsw, ?_, ?_, ?_, ?_, ?_, ?_, ?_, ?_, ?_, ?_⟩
  · funext el
    apply bool_eq_of_iff
    rw [rulesSome_iff T p hp, rulesSome_iff T q hq, h1.hasElem]
    simp only [h2.hasPattern]
  · funext el k v
    apply bool_eq_of_iff
    rw [accept_iff T p hp, accept_iff T q hq, h1.hasElem]
    simp only [h1.elemRules, h2.matchRules]
  · funext k v
    apply bool_eq_of_iff
    rw [gaccept_iff, gaccept_iff]
    simp only [h1.globalRules]
  · funext el
    apply bool_eq_of_iff
    rw [noAttrs_iff T p hp, noAttrs_iff T q hq, h2.bareOK]
    simp only [h2.bareOKPattern]
  · funext el; exact hskip el
  · funext el
    apply bool_eq_of_iff
    rw [explicit_iff, explicit_iff, h1.hasElem]
  · funext el
    apply bool_eq_of_iff
    rw [pattern_iff T p hp, pattern_iff T q hq, h1.hasElem]
    simp only [h2.hasPattern]
  · funext el
    apply bool_eq_of_iff
    rw [hasStyle_iff T p hp, hasStyle_iff T q hq, hES]
    simp only [h1.globalStyleRules, h2.matchStyleRules]
  · funext el dec
    apply bool_eq_of_iff
    rw [decl_iff T p hp, decl_iff T q hq]
    simp only [hES, h1.elemStyleRules, h1.globalStyleRules, h2.matchStyleRules]
  · funext u
    apply bool_eq_of_iff
    rw [schemeOK_iff T p hp, schemeOK_iff T q hq, hsch]
    simp only [h2.schemePattern]

/-- **the output is a function of the tables read by lookup**: `sanitize` consults the Go maps of a
    policy only by key and by "some entry / some rule accepts" — two well-formed policies with the
    same switches, skip set and scheme registrations whose tables agree as sets return the same
    bytes, however the entries are ordered inside the maps and slices (C13: no dependence on map
    iteration order; C17: a policy is its rule set) -/
theorem C17_output_of_tables (T : Nat → Bytes → Bool) (p q : Policy) (hip : p.initialized = true)
    (hiq : q.initialized = true) (hp : p.WF T) (hq : q.WF T)
    (hsw : p.switches = q.switches) (h1 : SameTables p q) (h2 : SameTables2 p q)
    (hskip : ∀ el, p.setOfElementsToSkipContent.contains el = q.setOfElementsToSkipContent.contains el)
    (hsch : ∀ s, p.allowURLSchemes.get? s = q.allowURLSchemes.get? s) (input : Bytes) :
    p.sanitize input = q.sanitize input ∧ p.panics input = q.panics input := by
  have hv : p.ensureInit.view = q.ensureInit.view := by
    rw [ensureInit_of_init _ hip, ensureInit_of_init _ hiq]
    exact C17_view_of_tables T p q hp hq hsw h1 h2 hskip hsch
  exact ⟨sanitize_congr p q hv input, panics_congr p q hv input⟩

/-! ### histories -/

variable (d : Bytes → Bytes → Bool)

/-- the calls that add to a table (element, attribute and style rules, element and scheme
    patterns); every other call is switch-like -/
def isRuleOp : BuilderOp → Bool
  | .allowElements _ | .allowElementsMatching _ | .allowAttrs _ _ _ _ | .allowStyles _ _ _
  | .allowURLSchemesMatching _ => true
  | _ => false

def isSwitchLike (op : BuilderOp) : Bool := !isRuleOp op

theorem setSwitches_rule (op : BuilderOp) (h : isSwitchLike op = false) (s : Switches) : op.setSwitches s = s := by
  cases op <;> first | rfl | (simp [isSwitchLike, isRuleOp] at h)

theorem setsSkip_rule (op : BuilderOp) (h : isSwitchLike op = false) (el : Bytes) : op.setsSkip el = none := by
  cases op <;> first | rfl | (simp [isSwitchLike, isRuleOp] at h)

theorem setsScheme_rule (op : BuilderOp) (h : isSwitchLike op = false) (s : Bytes) (st : Option (List UrlPolicy)) :
    op.setsScheme s st = st := by
  cases op <;> first | rfl | (simp [isSwitchLike, isRuleOp] at h)

theorem foldl_filter_id {α γ : Type} (f : γ → α → γ) (keep : α → Bool) (h : ∀ a s, keep a = false → f s a = s)
    (l : List α) (s : γ) : l.foldl f s = (l.filter keep).foldl f s := by
  induction l generalizing s with
  | nil => rfl
  | cons a rest ih =>
    simp only [List.foldl_cons, List.filter_cons]
    cases hk : keep a with
    | true => simp only [↓reduceIte, List.foldl_cons]; exact ih _
    | false => simp only [Bool.false_eq_true, ↓reduceIte]; rw [h a s hk]; exact ih _

theorem findSome?_reverse_filter {α γ : Type} (g : α → Option γ) (keep : α → Bool) (h : ∀ a, keep a = false → g a = none)
    (l : List α) : l.reverse.findSome? g = (l.filter keep).reverse.findSome? g := by
  induction l with
  | nil => rfl
  | cons a rest ih =>
    simp only [List.reverse_cons, List.findSome?_append, List.filter_cons]
    cases hk : keep a with
    | true => simp only [↓reduceIte, List.reverse_cons, List.findSome?_append, ih]
    | false =>
      simp only [Bool.false_eq_true, ↓reduceIte, ih, List.findSome?_cons, h a hk, List.findSome?_nil]
      cases List.findSome? g (List.filter keep rest).reverse <;> rfl

/-- the switches, the skip set and the scheme registrations after a history depend only on its
    switch-like calls, in their order -/
theorem switchlike_determines (p : Policy) (hi : p.initialized = true) (ops₁ ops₂ : List BuilderOp)
    (h : ops₁.filter isSwitchLike = ops₂.filter isSwitchLike) :
    (applyOps d p ops₁).switches = (applyOps d p ops₂).switches ∧
    (∀ el, (applyOps d p ops₁).setOfElementsToSkipContent.contains el =
           (applyOps d p ops₂).setOfElementsToSkipContent.contains el) ∧
    (∀ s, (applyOps d p ops₁).allowURLSchemes.get? s = (applyOps d p ops₂).allowURLSchemes.get? s) := by
  refine ⟨?_, ?_, ?_⟩
  · rw [switches_applyOps d p hi, switches_applyOps d p hi,
      foldl_filter_id _ isSwitchLike (fun a s ha => setSwitches_rule a ha s) ops₁,
      foldl_filter_id _ isSwitchLike (fun a s ha => setSwitches_rule a ha s) ops₂, h]
  · intro el
    have e1 := skips_applyOps d p hi ops₁ el
    have e2 := skips_applyOps d p hi ops₂ el
    unfold Policy.skips at e1 e2
    rw [e1, e2, findSome?_reverse_filter _ isSwitchLike (fun a ha => setsSkip_rule a ha el) ops₁,
      findSome?_reverse_filter _ isSwitchLike (fun a ha => setsSkip_rule a ha el) ops₂, h]
  · intro s
    rw [scheme_applyOps d p hi, scheme_applyOps d p hi,
      foldl_filter_id _ isSwitchLike (fun a st ha => setsScheme_rule a ha s st) ops₁,
      foldl_filter_id _ isSwitchLike (fun a st ha => setsScheme_rule a ha s st) ops₂, h]

theorem applyOps_initialized (p : Policy) (hi : p.initialized = true) (ops : List BuilderOp) :
    (applyOps d p ops).initialized = true := by
  unfold applyOps
  induction ops generalizing p with
  | nil => exact hi
  | cons op rest ih => exact ih _ (applyOp_initialized d p hi op)

/-- **C17 at the level of the output: a policy is its rule set.**  Two histories of builder calls
    on the same well-formed initialised policy (e.g. `NewPolicy()`) that make the same calls —
    as a *set*: any order, any repetition — and whose switch-like calls (booleans, skip / keep
    content, scheme registrations) come in the same order build policies that return the same
    bytes for every input. -/
theorem C17_output_rule_set (T : Nat → Bytes → Bool) (p : Policy) (hi : p.initialized = true) (hw : p.WF T)
    (ops₁ ops₂ : List BuilderOp) (hp1 : ∀ op ∈ ops₁, op.patsOK T) (hp2 : ∀ op ∈ ops₂, op.patsOK T)
    (hrules : ∀ op, isRuleOp op = true → (op ∈ ops₁ ↔ op ∈ ops₂))
    (hsw : ops₁.filter isSwitchLike = ops₂.filter isSwitchLike) (input : Bytes) :
    (applyOps d p ops₁).sanitize input = (applyOps d p ops₂).sanitize input := by
  have hall : ∀ op, op ∈ ops₁ ↔ op ∈ ops₂ := by
    intro op
    cases hr : isRuleOp op with
    | true => exact hrules op hr
    | false =>
      have hs : isSwitchLike op = true := by simp [isSwitchLike, hr]
      have e1 : op ∈ ops₁ ↔ op ∈ ops₁.filter isSwitchLike := by simp [List.mem_filter, hs]
      have e2 : op ∈ ops₂ ↔ op ∈ ops₂.filter isSwitchLike := by simp [List.mem_filter, hs]
      rw [e1, e2, hsw]
  obtain ⟨h1, h2, h3⟩ := switchlike_determines d p hi ops₁ ops₂ hsw
  apply sanitize_congr
  rw [ensureInit_of_init _ (applyOps_initialized d p hi ops₁), ensureInit_of_init _ (applyOps_initialized d p hi ops₂)]
  exact C17_view_of_tables T _ _ (wf_applyOps T d p hi hw ops₁ hp1) (wf_applyOps T d p hi hw ops₂ hp2) h1
    (sameTables_of_same_calls d p hi ops₁ ops₂ hall) (sameTables2_of_same_calls d p hi ops₁ ops₂ hall) h2 h3

/-- **order independence of the output**: permuting a history without reordering its switch-like
    calls among themselves does not change a single byte of any output -/
theorem C17_output_order_independent (T : Nat → Bytes → Bool) (p : Policy) (hi : p.initialized = true) (hw : p.WF T)
    (ops₁ ops₂ : List BuilderOp) (hp1 : ∀ op ∈ ops₁, op.patsOK T) (hperm : ops₁.Perm ops₂)
    (hsw : ops₁.filter isSwitchLike = ops₂.filter isSwitchLike) (input : Bytes) :
    (applyOps d p ops₁).sanitize input = (applyOps d p ops₂).sanitize input :=
  C17_output_rule_set d T p hi hw ops₁ ops₂ hp1 (fun op h => hp1 op (hperm.mem_iff.mpr h))
    (fun _ _ => hperm.mem_iff) hsw input

/-- **accumulation at the level of the output**: repeating rule-adding calls changes nothing -/
theorem C17_output_repetition (T : Nat → Bytes → Bool) (p : Policy) (hi : p.initialized = true) (hw : p.WF T)
    (rules sw : List BuilderOp) (hp : ∀ op ∈ rules ++ sw, op.patsOK T) (hr : ∀ op ∈ rules, isRuleOp op = true)
    (input : Bytes) :
    (applyOps d p (rules ++ sw ++ rules)).sanitize input = (applyOps d p (rules ++ sw)).sanitize input := by
  have hfr : rules.filter isSwitchLike = [] := by
    rw [List.filter_eq_nil_iff]
    intro a ha
    simp [isSwitchLike, hr a ha]
  apply C17_output_rule_set d T p hi hw
  · intro op hop
    simp only [List.mem_append] at hop
    rcases hop with (h | h) | h
    · exact hp op (List.mem_append_left _ h)
    · exact hp op (List.mem_append_right _ h)
    · exact hp op (List.mem_append_left _ h)
  · exact hp
  · intro op _
    simp only [List.mem_append]
    constructor
    · rintro ((h | h) | h)
      · exact .inl h
      · exact .inr h
      · exact .inl h
    · rintro (h | h)
      · exact .inl (.inl h)
      · exact .inl (.inr h)
  · simp only [List.filter_append, hfr, List.append_nil]

/-- a builder call with every name respelled by `f`: element, attribute and property names of
    rules (`respell`), and also the names given to `SkipElementsContent`, `AllowElementsContent`,
    `AllowURLSchemes` and `AllowURLSchemeWithCustomPolicy` -/
def respellAll (f : Bytes → Bytes) : BuilderOp → BuilderOp
  | .skipElementsContent names => .skipElementsContent (names.map f)
  | .allowElementsContent names => .allowElementsContent (names.map f)
  | .allowURLSchemes names => .allowURLSchemes (names.map f)
  | .allowURLSchemeWithCustomPolicy s g => .allowURLSchemeWithCustomPolicy (f s) g
  | op => respell f op

theorem respellAll_rule (f : Bytes → Bytes) (op : BuilderOp) (h : isRuleOp op = true) : respellAll f op = respell f op := by
  cases op <;> first | rfl | (simp [isRuleOp] at h)

theorem respellAll_isRuleOp (f : Bytes → Bytes) (op : BuilderOp) : isRuleOp (respellAll f op) = isRuleOp op := by
  cases op with
  | allowAttrs names re ae scope => cases scope <;> rfl
  | allowStyles names m scope => cases scope <;> rfl
  | _ => rfl

theorem respellAll_patsOK (T : Nat → Bytes → Bool) (f : Bytes → Bytes) (op : BuilderOp) (h : op.patsOK T) :
    (respellAll f op).patsOK T := by
  cases op with
  | allowAttrs names re ae scope => cases scope <;> exact h
  | allowStyles names m scope => cases scope <;> exact h
  | _ => first | exact h | trivial

/-- what a respelled call does to the switch-like state is what the call does -/
theorem respellAll_switchlike (f : Bytes → Bytes) (hf : ∀ n, toLowerName (f n) = toLowerName n) (op : BuilderOp) :
    (∀ s, (respellAll f op).setSwitches s = op.setSwitches s) ∧
    (∀ el, (respellAll f op).setsSkip el = op.setsSkip el) ∧
    (∀ s st, (respellAll f op).setsScheme s st = op.setsScheme s st) := by
  have hm := map_lower_respell f hf
  cases op with
  | allowAttrs names re ae scope => cases scope <;> exact ⟨fun _ => rfl, fun _ => rfl, fun _ _ => rfl⟩
  | allowStyles names m scope => cases scope <;> exact ⟨fun _ => rfl, fun _ => rfl, fun _ _ => rfl⟩
  | skipElementsContent names =>
    refine ⟨fun _ => rfl, ?_, fun _ _ => rfl⟩
    intro el; simp only [respellAll, BuilderOp.setsSkip, hm]
  | allowElementsContent names =>
    refine ⟨fun _ => rfl, ?_, fun _ _ => rfl⟩
    intro el; simp only [respellAll, BuilderOp.setsSkip, hm]
  | allowURLSchemes names =>
    refine ⟨fun _ => rfl, fun _ => rfl, ?_⟩
    intro s st; simp only [respellAll, BuilderOp.setsScheme, hm]
  | allowURLSchemeWithCustomPolicy sch g =>
    refine ⟨fun _ => rfl, fun _ => rfl, ?_⟩
    intro s st; simp only [respellAll, BuilderOp.setsScheme, hf]
  | _ => exact ⟨fun _ => rfl, fun _ => rfl, fun _ _ => rfl⟩

/-- what a respelled call contributes to the tables is what the call contributes -/
theorem respellAll_adds (f : Bytes → Bytes) (hf : ∀ n, toLowerName (f n) = toLowerName n) (op : BuilderOp) :
    ((∀ el attr x, (respellAll f op).addsElemRule el attr x ↔ op.addsElemRule el attr x) ∧
     (∀ attr x, (respellAll f op).addsGlobalRule attr x ↔ op.addsGlobalRule attr x) ∧
     (∀ el, (respellAll f op).addsElem el ↔ op.addsElem el) ∧
     (∀ el prop x, (respellAll f op).addsElemStyle d el prop x ↔ op.addsElemStyle d el prop x) ∧
     (∀ prop x, (respellAll f op).addsGlobalStyle d prop x ↔ op.addsGlobalStyle d prop x)) ∧
    ((∀ r attr x, (respellAll f op).addsMatchRule r attr x ↔ op.addsMatchRule r attr x) ∧
     (∀ r, (respellAll f op).addsPattern r ↔ op.addsPattern r) ∧
     (∀ r prop x, (respellAll f op).addsMatchStyle d r prop x ↔ op.addsMatchStyle d r prop x) ∧
     (∀ el, (respellAll f op).addsBareOK el ↔ op.addsBareOK el) ∧
     (∀ id, (respellAll f op).addsBareOKPattern id ↔ op.addsBareOKPattern id) ∧
     (∀ id, (respellAll f op).addsSchemePattern id ↔ op.addsSchemePattern id)) := by
  cases hr : isRuleOp op with
  | true => rw [respellAll_rule f op hr]; exact ⟨respell_adds d f hf op, respell_adds2 d f hf op⟩
  | false =>
    cases op <;> first
      | exact ⟨⟨fun _ _ _ => Iff.rfl, fun _ _ => Iff.rfl, fun _ => Iff.rfl, fun _ _ _ => Iff.rfl, fun _ _ => Iff.rfl⟩,
          ⟨fun _ _ _ => Iff.rfl, fun _ => Iff.rfl, fun _ _ _ => Iff.rfl, fun _ => Iff.rfl, fun _ => Iff.rfl, fun _ => Iff.rfl⟩⟩
      | (simp [isRuleOp] at hr)

/-- **case independence of the output**: respelling every element, attribute, property and scheme
    name of a history by any `f` that `strings.ToLower` cannot tell from the identity (any mixture
    of upper and lower case) does not change a single byte of any output -/
theorem C17_output_case_independent (T : Nat → Bytes → Bool) (f : Bytes → Bytes)
    (hf : ∀ n, toLowerName (f n) = toLowerName n) (p : Policy) (hi : p.initialized = true) (hw : p.WF T)
    (ops : List BuilderOp) (hp : ∀ op ∈ ops, op.patsOK T) (input : Bytes) :
    (applyOps d p (ops.map (respellAll f))).sanitize input = (applyOps d p ops).sanitize input := by
  have hp' : ∀ op ∈ ops.map (respellAll f), op.patsOK T := by
    intro op hop
    obtain ⟨o, ho, rfl⟩ := List.mem_map.mp hop
    exact respellAll_patsOK T f o (hp o ho)
  have hex : ∀ (Q Q' : BuilderOp → Prop), (∀ op, Q' (respellAll f op) ↔ Q op) →
      ((∃ op ∈ ops.map (respellAll f), Q' op) ↔ (∃ op ∈ ops, Q op)) := by
    intro Q Q' hq
    simp only [List.mem_map]
    constructor
    · rintro ⟨_, ⟨op, hm, rfl⟩, h⟩; exact ⟨op, hm, (hq op).mp h⟩
    · rintro ⟨op, hm, h⟩; exact ⟨_, ⟨op, hm, rfl⟩, (hq op).mpr h⟩
  have hT1 : SameTables (applyOps d p (ops.map (respellAll f))) (applyOps d p ops) := by
    obtain ⟨a1, g1, e1, s1, t1⟩ := rules_applyOps d p hi (ops.map (respellAll f))
    obtain ⟨a2, g2, e2, s2, t2⟩ := rules_applyOps d p hi ops
    constructor
    · intro el attr x; rw [a1, a2, hex _ _ (fun op => (respellAll_adds d f hf op).1.1 el attr x)]
    · intro attr x; rw [g1, g2, hex _ _ (fun op => (respellAll_adds d f hf op).1.2.1 attr x)]
    · intro el; rw [e1, e2, hex _ _ (fun op => (respellAll_adds d f hf op).1.2.2.1 el)]
    · intro el prop x; rw [s1, s2, hex _ _ (fun op => (respellAll_adds d f hf op).1.2.2.2.1 el prop x)]
    · intro prop x; rw [t1, t2, hex _ _ (fun op => (respellAll_adds d f hf op).1.2.2.2.2 prop x)]
  have hT2 : SameTables2 (applyOps d p (ops.map (respellAll f))) (applyOps d p ops) := by
    obtain ⟨a1, b1, c1, e1, f1, g1⟩ := rules2_applyOps d p hi (ops.map (respellAll f))
    obtain ⟨a2, b2, c2, e2, f2, g2⟩ := rules2_applyOps d p hi ops
    constructor
    · intro r attr x; rw [a1, a2, hex _ _ (fun op => (respellAll_adds d f hf op).2.1 r attr x)]
    · intro r; rw [b1, b2, hex _ _ (fun op => (respellAll_adds d f hf op).2.2.1 r)]
    · intro r prop x; rw [c1, c2, hex _ _ (fun op => (respellAll_adds d f hf op).2.2.2.1 r prop x)]
    · intro el; rw [e1, e2, hex _ _ (fun op => (respellAll_adds d f hf op).2.2.2.2.1 el)]
    · intro id; rw [f1, f2, hex _ _ (fun op => (respellAll_adds d f hf op).2.2.2.2.2.1 id)]
    · intro id; rw [g1, g2, hex _ _ (fun op => (respellAll_adds d f hf op).2.2.2.2.2.2 id)]
  have hfold : ∀ {γ : Type} (step : BuilderOp → γ → γ) (hs : ∀ op s, step (respellAll f op) s = step op s) (s : γ),
      (ops.map (respellAll f)).foldl (fun s op => step op s) s = ops.foldl (fun s op => step op s) s := by
    intro γ step hs s
    rw [List.foldl_map]
    congr 1
    funext s op
    exact hs op s
  apply sanitize_congr
  rw [ensureInit_of_init _ (applyOps_initialized d p hi _), ensureInit_of_init _ (applyOps_initialized d p hi _)]
  refine C17_view_of_tables T _ _ (wf_applyOps T d p hi hw _ hp') (wf_applyOps T d p hi hw ops hp) ?_ hT1 hT2 ?_ ?_
  · rw [switches_applyOps d p hi, switches_applyOps d p hi]
    exact hfold (fun op s => op.setSwitches s) (fun op s => (respellAll_switchlike f hf op).1 s) _
  · intro el
    have e1 := skips_applyOps d p hi (ops.map (respellAll f)) el
    have e2 := skips_applyOps d p hi ops el
    unfold Policy.skips at e1 e2
    rw [e1, e2, ← List.map_reverse, List.findSome?_map]
    congr 2
    funext op
    exact (respellAll_switchlike f hf op).2.1 el
  · intro s
    rw [scheme_applyOps d p hi, scheme_applyOps d p hi]
    exact hfold (fun op st => op.setsScheme s st) (fun op st => (respellAll_switchlike f hf op).2.2 s st) _

/-- non-vacuity: `NewPolicy()` is well formed, two orders / spellings of a history with a pattern
    rule, a switch and a skip setting satisfy the hypotheses, and the policy does something -/
example :
    let d : Bytes → Bytes → Bool := fun _ _ => false
    let r : Pat := ⟨1, fun s => s == b!"x-a"⟩
    let T : Nat → Bytes → Bool := fun _ s => s == b!"x-a"
    let h1 := [BuilderOp.allowAttrs [b!"ID"] none false (.onElementsMatching r), .allowElements [b!"B"],
               .requireNoFollowOnLinks true, .skipElementsContent [b!"B"], .allowElementsContent [b!"b"]]
    let h2 := [BuilderOp.requireNoFollowOnLinks true, .allowElements [b!"b"], .skipElementsContent [b!"B"],
               .allowAttrs [b!"ID"] none false (.onElementsMatching r), .allowElementsContent [b!"b"], .allowElements [b!"b"]]
    (∀ op ∈ h1, op.patsOK T) ∧ h1.filter isSwitchLike = h2.filter isSwitchLike ∧
    (applyOps d { initialized := true } h1).sanitize b!"<x-a id=1>t</x-a><i>u</i><B>v" = b!"<x-a id=\"1\">t</x-a>uv" := by
  refine ⟨?_, ?_, ?_⟩
  · intro op hop
    simp only [List.mem_cons, List.not_mem_nil, or_false] at hop
    rcases hop with rfl | rfl | rfl | rfl | rfl <;> simp [BuilderOp.patsOK]
  · rfl
  · decide

end BM.Props
