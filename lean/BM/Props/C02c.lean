import BM.Props.C02
import BM.Props.C17
/-
  C02 for whole policies, by induction over builder histories.  `C02_sanitizeAttrs` justifies every returned
  attribute by the policy's tables; here the tables are traced back to the calls that filled them
  (`rules_applyOps`): on an explicitly named element of a policy built from `NewPolicy()`, an attribute that is
  neither added by the sanitiser, nor a data attribute, nor the filtered style attribute reaches the result only
  if some `AllowAttrs(…k…)[.Matching(re)].OnElements(…el…)` or `.Globally()` call of the history — anywhere, in
  any spelling — has no pattern or a pattern accepting the attribute's decoded value.
-/
namespace BM.Props
open BM BM.Html

/-- accepted by a call of the history: an element-scoped or a global `AllowAttrs` naming the attribute, whose
    pattern (if any) matches the value -/
def AllowedByCall (ops : List BuilderOp) (el k v : Bytes) : Prop :=
  ∃ op ∈ ops, ∃ ap, (op.addsElemRule el k ap ∨ op.addsGlobalRule k ap) ∧
    (match ap with | none => true | some r => r.test v) = true

/-- **C02 traced back to the builder history** (explicitly named elements): every attribute `sanitizeAttrs`
    returns is one the sanitiser adds or forces, or comes from an attribute `a` of the tag that is a data attribute
    (data attributes enabled), the style attribute (style rules apply), or allowed by a call of the history on its
    decoded value — and carries that value, except that href / cite / src may carry the URL pass's form of it -/
theorem C02_built_policy (d : Bytes → Bytes → Bool) (ops : List BuilderOp) (el : Bytes) (attrs out : List Attr)
    (h : (applyOps d { initialized := true } ops).sanitizeAttrs el attrs
          (rulesOf (applyOps d { initialized := true } ops).elsAndAttrs el) = some out) :
    ∀ b ∈ out, forcedKey b.key ∨ ∃ a ∈ attrs, a.key = b.key ∧
      ((isDataAttribute a.key = true ∧ b.val = a.val) ∨ a.key = b!"style" ∨
       (AllowedByCall ops el a.key a.val ∧ (b.val = a.val ∨ urlKey b.key))) := by
  intro b hb
  rcases C02_sanitizeAttrs _ el attrs _ out h b hb with hf | ⟨a, ha, b0, hj, hkey, hval⟩
  · exact .inl hf
  · right
    obtain ⟨hE, hG, _⟩ := rules_applyOps d { initialized := true } rfl ops
    cases hj with
    | data _ hd =>
      refine ⟨a, ha, hkey, .inl ⟨hd, ?_⟩⟩
      rcases hval with hv | hu
      · exact hv
      · -- a data attribute is not a URL attribute
        exfalso
        rw [← hkey] at hu
        unfold urlKey at hu
        rcases hu with hu | hu | hu <;> rw [hu] at hd <;> revert hd <;> decide
    | style v hk _ _ _ => exact ⟨a, ha, hkey, .inr (.inl hk)⟩
    | elementRule apl hget hacc =>
      refine ⟨a, ha, hkey, .inr (.inr ⟨?_, hval⟩)⟩
      have hm : ∃ ap ∈ rulesOf (rulesOf (applyOps d { initialized := true } ops).elsAndAttrs el) a.key,
          (match ap with | none => true | some r => r.test a.val) = true := by
        apply (accept_iff_mem _ a.key a.val).mp
        rw [hget]; exact hacc
      obtain ⟨ap, hmem, hok⟩ := hm
      rcases (hE el a.key ap).mp hmem with h0 | ⟨op, hop, hadd⟩
      · simp [Policy.elemRules, rulesOf, Map.get?] at h0
      · exact ⟨op, hop, ap, .inl hadd, hok⟩
    | globalRule apl hget hacc =>
      refine ⟨a, ha, hkey, .inr (.inr ⟨?_, hval⟩)⟩
      have hm : ∃ ap ∈ rulesOf (applyOps d { initialized := true } ops).globalAttrs a.key,
          (match ap with | none => true | some r => r.test a.val) = true := by
        apply (accept_iff_mem _ a.key a.val).mp
        rw [hget]; exact hacc
      obtain ⟨ap, hmem, hok⟩ := hm
      rcases (hG a.key ap).mp hmem with h0 | ⟨op, hop, hadd⟩
      · simp [Policy.globalRules, rulesOf, Map.get?] at h0
      · exact ⟨op, hop, ap, .inr hadd, hok⟩

end BM.Props
