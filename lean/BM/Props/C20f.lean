import BM.Props.C20e
import BM.Props.C19c
import BM.Proofs.Utf8Append
/-
  C20 for UGCPolicy, the `area` case, which completes the property's last clause.  UGCPolicy lets `rel` through
  on `area` under the SpaceSeparatedTokens pattern, so the `nofollow` the link option adds stays in the value on
  the second pass.  That the second pass accepts the new value is a fact about the pattern: a value it accepts is
  still accepted with ` nofollow` appended (`sst_addRelToken`: the expression is one or more characters of a class
  that contains the space and the letters; appending ASCII bytes does not change how the value itself decodes).
-/
namespace BM.Props
open BM BM.Html BM.Spec BM.Re

set_option maxRecDepth 100000

/-! ### SpaceSeparatedTokens is closed under appending a token -/

def sstRanges : List (Rune × Rune) :=
  match Gen.patSpaceSeparatedTokens with
  | .cat .bot (.cat (.plus (.cls rs)) .eot) => rs
  | _ => []

theorem sst_shape : Gen.patSpaceSeparatedTokens = .cat .bot (.cat (.plus (.cls sstRanges)) .eot) := rfl

theorem star_cls_all (rs : List (Rune × Rune)) : ∀ (s : List Rune) (p : Option Rune),
    (∀ c ∈ s, inRanges c rs = true) → ∃ p', Matches (.star (.cls rs)) p s p' []
  | [], p, _ => ⟨p, .star0 _ _ _⟩
  | c :: cs, p, h => by
    obtain ⟨p', hm⟩ := star_cls_all rs cs (some c) (fun x hx => h x (List.mem_cons_of_mem _ hx))
    exact ⟨p', .starS _ _ _ _ _ _ _ (.cls rs p c cs (h c (by simp))) (by simp) hm⟩

/-- the converse of `SpaceSeparatedTokens_form`: a non-empty value all of whose characters are in the class is accepted -/
theorem sst_accepts (v : Bytes) (hne : decodeRunes v ≠ []) (hall : ∀ c ∈ decodeRunes v, inRanges c sstRanges = true) :
    Re.matchBytes Gen.patSpaceSeparatedTokens v = true := by
  apply (search_anchored Gen.patSpaceSeparatedTokens (by decide) (decodeRunes v)).mpr
  rw [sst_shape]
  cases hs : decodeRunes v with
  | nil => exact absurd hs hne
  | cons c cs =>
    rw [hs] at hall
    obtain ⟨p', hm⟩ := star_cls_all sstRanges cs (some c) (fun x hx => hall x (List.mem_cons_of_mem _ hx))
    refine ⟨p', .cat _ _ _ _ _ _ _ _ (.bot _ _ rfl) (.cat _ _ _ _ _ _ _ _ ?_ (.eot _ _ rfl))⟩
    exact .plus _ _ _ _ _ _ _ (.cls _ _ c cs (hall c (by simp))) hm

theorem sst_all (v : Bytes) (h : Re.matchBytes Gen.patSpaceSeparatedTokens v = true) :
    decodeRunes v ≠ [] ∧ ∀ c ∈ decodeRunes v, inRanges c sstRanges = true := by
  obtain ⟨rs, hshape, hne, hall⟩ := SpaceSeparatedTokens_form v h
  have : rs = sstRanges := by
    rw [sst_shape] at hshape
    injection hshape with _ h2
    injection h2 with h3 _
    injection h3 with h4
    injection h4 with h5
    exact h5.symm
  subst this
  exact ⟨hne, hall⟩

/-- an accepted value is still accepted with a space and an ASCII token of the class appended -/
theorem sst_append (v tok : Bytes) (h : Re.matchBytes Gen.patSpaceSeparatedTokens v = true)
    (hascii : AsciiBytes (32 :: tok)) (hin : ∀ c ∈ (32 :: tok).map (·.toNat), inRanges c sstRanges = true) :
    Re.matchBytes Gen.patSpaceSeparatedTokens (v ++ 32 :: tok) = true := by
  obtain ⟨hne, hall⟩ := sst_all v h
  have hdec : decodeRunes (v ++ 32 :: tok) = decodeRunes v ++ (32 :: tok).map (·.toNat) := by
    rw [decodeRunes_append_ascii v.length v _ (Nat.le_refl _) hascii, decodeRunes_ascii _ hascii]
  apply sst_accepts
  · rw [hdec]
    intro hnil
    exact hne (List.append_eq_nil_iff.mp hnil).1
  · rw [hdec]
    intro c hc
    rcases List.mem_append.mp hc with hc | hc
    · exact hall c hc
    · exact hin c hc

theorem sst_addRelToken (v : Bytes) (h : Re.matchBytes Gen.patSpaceSeparatedTokens v = true) :
    Re.matchBytes Gen.patSpaceSeparatedTokens (addRelToken true b!"nofollow" v) = true := by
  unfold addRelToken
  split
  · exact sst_append v b!"nofollow" h (by unfold AsciiBytes; decide) (by decide)
  · exact h

/-! ### UGCPolicy on `area` -/

def areaRules : AttrRules := (Gen.ugcPolicy.elsAndAttrs.get? b!"area").getD []

theorem area_get : Gen.ugcPolicy.elsAndAttrs.get? b!"area" = some areaRules := rfl
theorem area_rel : areaRules.get? b!"rel" = some [some ⟨8, Re.matchBytes Gen.patSpaceSeparatedTokens⟩] := rfl

theorem ugc_area_rules (aps : AttrRules) (h : Gen.ugcPolicy.attrRulesFor b!"area" = some aps) : aps = areaRules := by
  unfold Policy.attrRulesFor at h
  rw [area_get] at h
  exact (Option.some.inj h).symm

/-- on `area`, UGCPolicy accepts a rel attribute exactly when SpaceSeparatedTokens accepts its value -/
theorem ugc_area_rel (v : Bytes) :
    (Gen.ugcPolicy.filterAttr b!"area" areaRules false ⟨b!"rel", v⟩).isSome =
      Re.matchBytes Gen.patSpaceSeparatedTokens v := by
  have hnd : Gen.ugcPolicy.allowDataAttributes = false := by decide
  have hg : Gen.ugcPolicy.globalAttrs.get? b!"rel" = Option.none := rfl
  have hst : (b!"rel" == b!"style") = false := by decide
  unfold Policy.filterAttr
  simp only [hnd, Bool.false_and, Bool.false_eq_true, ↓reduceIte, hst, area_rel, hg]
  simp only [attrPoliciesAccept, List.any_cons, List.any_nil, Bool.or_false]
  cases Re.matchBytes Gen.patSpaceSeparatedTokens v <;> rfl

theorem ugc_flags : Gen.ugcPolicy.requireNoFollow = true ∧ Gen.ugcPolicy.requireNoReferrer = false ∧
    Gen.ugcPolicy.requireNoReferrerFullyQualifiedLinks = false ∧
    Gen.ugcPolicy.addTargetBlankToFullyQualifiedLinks = false := by decide

/-- what the hardening block returns on `area` under UGCPolicy: each attribute with `nofollow` put into a rel
    value, and `rel="nofollow"` at the end when there was no rel -/
theorem ugc_area_harden (u : List Attr) (b : Attr) (hb : b ∈ Gen.ugcPolicy.hardenLinks b!"area" u) :
    b ∈ u ∨ (∃ a ∈ u, a.key = b!"rel" ∧ b = ⟨b!"rel", addRelToken true b!"nofollow" a.val⟩) ∨
      b = ⟨b!"rel", b!"nofollow"⟩ := by
  rw [hardenLinks_ext] at hb
  split at hb
  · exact .inl hb
  · obtain ⟨h1, h2, h3, h4⟩ := ugc_flags
    have hA : (b!"area" == b!"a") = false := by decide
    simp only [h1, h2, h3, h4, Bool.true_or, Bool.and_false, Bool.or_false, hA] at hb
    unfold hardenCore at hb
    simp only [Bool.false_and, Bool.false_eq_true, ↓reduceIte, Bool.true_or, Bool.true_and, Bool.or_self] at hb
    have hmap : ∀ x ∈ u.map (relFix true false), x ∈ u ∨
        (∃ a ∈ u, a.key = b!"rel" ∧ x = ⟨b!"rel", addRelToken true b!"nofollow" a.val⟩) := by
      intro x hx
      obtain ⟨a, ha, rfl⟩ := List.mem_map.mp hx
      unfold relFix
      split
      · rename_i hc
        simp only [Bool.or_false, Bool.and_true, beq_iff_eq] at hc
        right
        refine ⟨a, ha, hc, ?_⟩
        simp [addRelToken, hc]
      · exact .inl ha
    split at hb
    · rcases List.mem_append.mp hb with hb | hb
      · rcases hmap b hb with h | h
        · exact .inl h
        · exact .inr (.inl h)
      · simp only [List.mem_singleton] at hb
        right; right
        rw [hb]; rfl
    · rcases hmap b hb with h | h
      · exact .inl h
      · exact .inr (.inl h)

theorem ugc_area_closed (u : List Attr)
    (hu : ∀ a ∈ u, (Gen.ugcPolicy.filterAttr b!"area" areaRules false a).isSome = true) :
    ∀ b ∈ Gen.ugcPolicy.hardenLinks b!"area" u, (Gen.ugcPolicy.filterAttr b!"area" areaRules false b).isSome = true := by
  intro b hb
  rcases ugc_area_harden u b hb with h | ⟨a, ha, hk, rfl⟩ | rfl
  · exact hu b h
  · have hacc := hu a ha
    have ha' : a = ⟨b!"rel", a.val⟩ := by cases a; simp_all
    rw [ha', ugc_area_rel] at hacc
    rw [ugc_area_rel]
    exact sst_addRelToken a.val hacc
  · rw [ugc_area_rel]; decide

theorem ugc_linkCoreAt (el : Bytes) : LinkCoreAt Gen.ugcPolicy el where
  noStyle := by
    have h1 : Gen.ugcPolicy.globalStyles = [] := by decide
    have h2 : Gen.ugcPolicy.elsAndStyles = [] := by decide
    have h3 : Gen.ugcPolicy.elsMatchingAndStyles = [] := by decide
    simp [Policy.hasStylePolicies, h1, h2, h3, Map.get?]
  noCross := by decide
  noSandbox := by decide
  noRewriter := rfl

/-- the property's provisos, as they read, of a tag of the first pass's output: no cite attribute on a del or ins
    tag, and URL normalisation is stable (every URL value at a checked position is returned unchanged by the check) -/
def NoCite (k : Token) : Prop :=
  ((k.data = b!"del" ∨ k.data = b!"ins") → ∀ b ∈ k.attrs, b.key ≠ b!"cite") ∧ UrlStableOn Gen.ugcPolicy k.data k.attrs

theorem ugc_attrFix_full (t : Token) : AttrFixG Gen.ugcPolicy NoCite t := by
  by_cases harea : t.data = b!"area"
  · intro aps attrs _ haps h hG
    unfold Policy.cleanAttrs at h ⊢
    split at h
    · simp at h; subst h; simp_all
    · simp only
      split
      · rename_i he
        have : attrs = [] := List.isEmpty_iff.mp he
        subst this; rfl
      · have hst : UrlStableOn Gen.ugcPolicy t.data attrs := hG.2
        rw [harea] at haps h hst ⊢
        have haps' := ugc_area_rules aps haps
        subst haps'
        refine link_idemOpen Gen.ugcPolicy b!"area" (ugc_linkCoreAt _) t.attrs attrs areaRules h ?_ ?_ hst
        · intro k hk v v'
          have hkh : k = b!"href" := by
            have : urlKeyFor b!"area" = some b!"href" := by decide
            rw [this] at hk; exact (Option.some.inj hk).symm
          subst hkh
          have hmem := ugc_attrRulesFor b!"area" areaRules haps
          have hrow := List.all_eq_true.mp ugc_rewritten_attrs.1 _ hmem
          have hglob := ugc_rewritten_attrs.2
          simp only [Bool.and_eq_true, Bool.or_eq_true, beq_iff_eq] at hrow hglob
          rcases hrow.1 with (hd | hd) | hpf
          · exact absurd hd (by decide)
          · exact absurd hd (by decide)
          · exact filterAttr_blind _ _ _ _ hpf.1.1 (patFree_of_noRule _ _ hglob.1.1.1.1) v v'
        · intro _ u hu
          exact ugc_area_closed u hu
  · intro aps attrs hnr haps h hG
    exact ugc_attrFixG t aps attrs hnr haps h ⟨hG.1, harea, hG.2⟩

/-- **C20 for UGCPolicy** (the policy regenerated from policies.go on every run) — the property's last clause:
    whenever no del / ins tag an HTML tokenizer reads from `Sanitize(x)` carries a cite attribute, and URL
    normalisation is stable on `Sanitize(x)` (every URL value at a checked position of it is returned unchanged by
    the URL check — the part of the clause that belongs to net/url, true of all URLs but the few paths of the known
    finding `url-reprint-unstable`), `Sanitize(Sanitize(x)) = Sanitize(x)`: escaping is not applied twice, the
    `rel="nofollow"` the policy adds is stripped and added again identically — or, on `area`, where UGCPolicy lets
    rel through, found in place and not repeated.  Both hypotheses are decidable statements about the output. -/
theorem C20_ugc (input : Bytes)
    (hout : ∀ k ∈ tokenize (Gen.ugcPolicy.sanitizeCore input), isOpen k → NoCite k) :
    Gen.ugcPolicy.sanitizeCore (Gen.ugcPolicy.sanitizeCore input) = Gen.ugcPolicy.sanitizeCore input := by
  refine C20_fix_out Gen.ugcPolicy ugc_plain NoCite input ?_ hout
  intro t _
  rw [ugc_init]
  exact ugc_attrFix_full t

/-- the proviso is met by a case with an `area` whose rel value gets the token in place (a test of the hypotheses) -/
example :
    Gen.ugcPolicy.sanitizeCore b!"<area href=\"/x\" rel=\"a b\"><del cite=\"a b\">u</del>" =
      b!"<area href=\"/x\" rel=\"a b nofollow\"><del>u</del>" ∧
    ∀ k ∈ tokenize (Gen.ugcPolicy.sanitizeCore b!"<area href=\"/x\" rel=\"a b\"><del cite=\"a b\">u</del>"),
      isOpen k → NoCite k := by
  unfold isOpen NoCite UrlStableOn
  decide

/-! ### the known finding `important-dropped`, on the model -/

/-- a matcher a user might supply for `float`: lower-case letters, spaces and `!` -/
def lettersAndBang : Re := .cat .bot (.cat (.plus (.cls [(32, 33), (97, 122)])) .eot)

/-- `AllowStyles("float").Matching(^[a-z !]+$).Globally()`, `b` allowed, `style` allowed globally -/
def importantPolicy : Policy :=
  { initialized := true, elsAndAttrs := [(b!"b", [])], globalAttrs := [(b!"style", [Option.none])],
    globalStyles := [(b!"float", [{ re := some ⟨1, Re.matchBytes lettersAndBang⟩ }])] }

/-- policies with style rules are outside every C20 theorem above, and this is why: the declaration parser takes one
    trailing `!important` off the value, `sanitizeStyles` writes `property: value` without it, and a matcher that
    accepts `!important` as text lets a further one through — so each pass removes one and
    `Sanitize(Sanitize(x)) ≠ Sanitize(x)`.  The model shows what the implementation shows (known finding
    `important-dropped`, D22; with the default handlers a repeated `!important` is refused). -/
example :
    importantPolicy.sanitizeCore b!"<b style=\"float: left !important !important !important\">t</b>" =
      b!"<b style=\"float: left !important !important\">t</b>" ∧
    importantPolicy.sanitizeCore b!"<b style=\"float: left !important !important\">t</b>" =
      b!"<b style=\"float: left !important\">t</b>" := by decide

end BM.Props
