import BM.Props.C20d
import BM.Props.C11
/-
  "Added rel tokens are not repeated": the link-hardening block is idempotent.  `hardenLinks_idem` — for every
  policy, element and attribute list, hardening the hardened list changes nothing: a rel value that carries the
  required tokens gets none again, the first target that is `_blank` stays, a rel / target attribute that was
  appended is found on the second run and nothing further is appended.  From it, C20 for policies with link
  options whose rules let `rel` and `target` through on link elements (`LinkOpen`, `C20_links_open`), the
  counterpart of `C20_links` (which covers rules that let neither through).
-/
namespace BM.Props
open BM BM.Html BM.Spec

def hasKey (l : List Attr) (k : Bytes) : Bool := l.any (·.key == k)
def anyBlank (l : List Attr) : Bool := l.any fun a => a.key == b!"target" && asciiEqualFold a.val b!"_blank"

/-! ### when the block has nothing to do -/

theorem relFix_id (nf nr : Bool) (a : Attr)
    (h1 : nf = true → a.key = b!"rel" → hasRelToken a.val b!"nofollow" = true)
    (h2 : nr = true → a.key = b!"rel" → hasRelToken a.val b!"noreferrer" = true) : relFix nf nr a = a := by
  unfold relFix
  split
  · rename_i hc
    simp only [Bool.and_eq_true, beq_iff_eq] at hc
    have e1 : addRelToken nf b!"nofollow" a.val = a.val := by
      cases nf with
      | false => simp [addRelToken]
      | true => exact addRelToken_no_dup _ _ _ (h1 rfl hc.1)
    rw [e1]
    have e2 : addRelToken nr b!"noreferrer" a.val = a.val := by
      cases nr with
      | false => simp [addRelToken]
      | true => exact addRelToken_no_dup _ _ _ (h2 rfl hc.1)
    rw [e2]
  · rfl

theorem map_id_of {α} (g : α → α) (l : List α) (h : ∀ a ∈ l, g a = a) : l.map g = l := by
  induction l with
  | nil => rfl
  | cons a as ih => rw [List.map_cons, h a (by simp), ih (fun x hx => h x (by simp [hx]))]

theorem map_relFix_id (nf nr : Bool) (l : List Attr)
    (h1 : nf = true → AllRel b!"nofollow" l) (h2 : nr = true → AllRel b!"noreferrer" l) :
    l.map (relFix nf nr) = l :=
  map_id_of _ l fun a ha => relFix_id nf nr a (fun hn hk => h1 hn a ha hk) (fun hn hk => h2 hn a ha hk)

theorem addNoOpener_id (l : List Attr) (hr : HasRel l) (ha : AllRel b!"noopener" l) : addNoOpener l = l := by
  unfold addNoOpener
  rw [(hasRel_iff_any l).mp hr]
  simp only [↓reduceIte]
  apply map_id_of
  intro a ham
  split
  · rename_i hk
    have hk' : a.key = b!"rel" := by simpa using hk
    rw [addRelToken_no_dup _ _ _ (ha a ham hk')]
  · rfl

/-- an attribute list on which the block has already done its work -/
structure Hardened (isA nf nr tb : Bool) (l : List Attr) : Prop where
  nofollow : nf = true → HasRel l ∧ AllRel b!"nofollow" l
  noreferrer : nr = true → HasRel l ∧ AllRel b!"noreferrer" l
  target : (isA && tb) = true → fixFirstTarget l = l ∧ hasKey l b!"target" = true
  noopener : ((isA && (anyBlank l || (tb && hasKey l b!"target"))) || (isA && tb)) = true →
    HasRel l ∧ AllRel b!"noopener" l

/-- **the block leaves a hardened list as it is** -/
theorem hardenCore_fixed (isA nf nr tb : Bool) (l : List Attr) (h : Hardened isA nf nr tb l) :
    hardenCore isA nf nr tb l = l := by
  unfold hardenCore
  have hmap : l.map (relFix nf nr) = l :=
    map_relFix_id nf nr l (fun hn => (h.nofollow hn).2) (fun hn => (h.noreferrer hn).2)
  simp only [hmap]
  have hrel : (nf || nr) = true → l.any (·.key == b!"rel") = true := by
    intro hn
    simp only [Bool.or_eq_true] at hn
    rcases hn with hn | hn
    · exact (hasRel_iff_any l).mp (h.nofollow hn).1
    · exact (hasRel_iff_any l).mp (h.noreferrer hn).1
  by_cases hat : (isA && tb) = true
  · obtain ⟨hfix, htgt⟩ := h.target hat
    have hA : isA = true := by simp only [Bool.and_eq_true] at hat; exact hat.1
    have hT : tb = true := by simp only [Bool.and_eq_true] at hat; exact hat.2
    have htgt' : l.any (·.key == b!"target") = true := htgt
    obtain ⟨hr, hno⟩ := h.noopener (by simp [hat])
    have hrel' : l.any (·.key == b!"rel") = true := (hasRel_iff_any l).mp hr
    subst hA hT
    simp only [Bool.and_self, ↓reduceIte, hfix, hrel', Bool.not_true, Bool.and_false, Bool.false_eq_true, htgt',
      Bool.or_true, Bool.true_and]
    exact addNoOpener_id l hr hno
  · have hat' : (isA && tb) = false := by simpa using hat
    simp only [hat', Bool.false_eq_true, ↓reduceIte, Bool.false_and, Bool.or_false]
    have h3 : (if ((nf || nr) && !l.any (·.key == b!"rel")) = true then l ++ [(⟨b!"rel", newRelValue nf nr⟩ : Attr)] else l) = l := by
      by_cases hn : (nf || nr) = true
      · simp [hrel hn]
      · have : (nf || nr) = false := by simpa using hn
        simp [this]
    rw [h3]
    by_cases hb : (isA && ((l.any fun a => a.key == b!"target" && asciiEqualFold a.val b!"_blank") ||
        (tb && l.any (·.key == b!"target")))) = true
    · simp only [hb, ↓reduceIte]
      obtain ⟨hr, hno⟩ := h.noopener (by
        have : (isA && (anyBlank l || (tb && hasKey l b!"target"))) = true := hb
        simp [this])
      exact addNoOpener_id l hr hno
    · simp only [hb, Bool.false_eq_true, ↓reduceIte]

/-! ### what the block does to keys, targets and `_blank` -/

theorem hasKey_map (g : Attr → Attr) (hg : ∀ a, (g a).key = a.key) (l : List Attr) (k : Bytes) :
    hasKey (l.map g) k = hasKey l k := by
  unfold hasKey
  induction l with
  | nil => rfl
  | cons a as ih => simp only [List.map_cons, List.any_cons, hg, ih]

theorem hasKey_append (l m : List Attr) (k : Bytes) : hasKey (l ++ m) k = (hasKey l k || hasKey m k) := by
  simp [hasKey, List.any_append]

theorem hasKey_fixFirstTarget (l : List Attr) (k : Bytes) : hasKey (fixFirstTarget l) k = hasKey l k := by
  unfold hasKey
  induction l with
  | nil => rfl
  | cons a as ih =>
    unfold fixFirstTarget
    split
    · split <;> simp [List.any_cons]
    · simp only [List.any_cons, ih]

theorem fixFirstTarget_no (l : List Attr) (h : hasKey l b!"target" = false) : fixFirstTarget l = l := by
  induction l with
  | nil => rfl
  | cons a as ih =>
    simp only [hasKey, List.any_cons, Bool.or_eq_false_iff] at h
    unfold fixFirstTarget
    simp only [h.1, Bool.false_eq_true, ↓reduceIte]
    rw [ih h.2]

theorem fixFirstTarget_idem (l : List Attr) : fixFirstTarget (fixFirstTarget l) = fixFirstTarget l := by
  induction l with
  | nil => rfl
  | cons a as ih =>
    by_cases hk : (a.key == b!"target") = true
    · by_cases hb : asciiEqualFold a.val b!"_blank" = true
      · have e : fixFirstTarget (a :: as) = a :: as := by simp [fixFirstTarget, hk, hb]
        rw [e, e]
      · have e : fixFirstTarget (a :: as) = ⟨a.key, b!"_blank"⟩ :: as := by simp [fixFirstTarget, hk, hb]
        have hbb : asciiEqualFold b!"_blank" b!"_blank" = true := by decide
        rw [e]
        simp [fixFirstTarget, hk, hbb]
    · have hk' : (a.key == b!"target") = false := by simpa using hk
      have e : ∀ l', fixFirstTarget (a :: l') = a :: fixFirstTarget l' := by
        intro l'; simp [fixFirstTarget, hk']
      rw [e, e, ih]

theorem fixFirstTarget_append_has (l m : List Attr) (h : hasKey l b!"target" = true) :
    fixFirstTarget (l ++ m) = fixFirstTarget l ++ m := by
  induction l with
  | nil => simp [hasKey] at h
  | cons a as ih =>
    by_cases hk : (a.key == b!"target") = true
    · simp only [List.cons_append, fixFirstTarget, hk, ↓reduceIte]
    · have hk' : (a.key == b!"target") = false := by simpa using hk
      simp only [hasKey, List.any_cons, hk', Bool.false_or] at h
      simp only [List.cons_append, fixFirstTarget, hk', Bool.false_eq_true, ↓reduceIte, ih h]

theorem fixFirstTarget_append_no (l m : List Attr) (h : hasKey l b!"target" = false) :
    fixFirstTarget (l ++ m) = l ++ fixFirstTarget m := by
  induction l with
  | nil => rfl
  | cons a as ih =>
    simp only [hasKey, List.any_cons, Bool.or_eq_false_iff] at h
    simp only [List.cons_append, fixFirstTarget, h.1, Bool.false_eq_true, ↓reduceIte, ih h.2]

theorem fixFirstTarget_map (g : Attr → Attr) (hk : ∀ a, (g a).key = a.key)
    (ht : ∀ a, a.key = b!"target" → g a = a) (l : List Attr) :
    fixFirstTarget (l.map g) = (fixFirstTarget l).map g := by
  induction l with
  | nil => rfl
  | cons a as ih =>
    by_cases hka : (a.key == b!"target") = true
    · have hka' : a.key = b!"target" := by simpa using hka
      have hga : g a = a := ht a hka'
      simp only [List.map_cons, fixFirstTarget, hga, hka, ↓reduceIte]
      split
      · simp [hga]
      · have : g ⟨a.key, b!"_blank"⟩ = ⟨a.key, b!"_blank"⟩ := ht _ hka'
        simp [this]
    · have hka' : (a.key == b!"target") = false := by simpa using hka
      have hgk : ((g a).key == b!"target") = false := by rw [hk]; exact hka'
      simp only [List.map_cons, fixFirstTarget, hgk, hka', Bool.false_eq_true, ↓reduceIte, ih]

/-- "there is a target attribute and the first one is `_blank`" -/
def FirstBlank (l : List Attr) : Prop := fixFirstTarget l = l ∧ hasKey l b!"target" = true

theorem firstBlank_append (l m : List Attr) (h : FirstBlank l) : FirstBlank (l ++ m) :=
  ⟨by rw [fixFirstTarget_append_has l m h.2, h.1], by rw [hasKey_append, h.2]; rfl⟩

theorem firstBlank_map (g : Attr → Attr) (hk : ∀ a, (g a).key = a.key)
    (ht : ∀ a, a.key = b!"target" → g a = a) (l : List Attr) (h : FirstBlank l) : FirstBlank (l.map g) :=
  ⟨by rw [fixFirstTarget_map g hk ht, h.1], by rw [hasKey_map g hk, h.2]⟩

def noOpenerFix (a : Attr) : Attr := if a.key == b!"rel" then ⟨a.key, addRelToken true b!"noopener" a.val⟩ else a

theorem noOpenerFix_key (a : Attr) : (noOpenerFix a).key = a.key := by unfold noOpenerFix; split <;> rfl

theorem noOpenerFix_target (a : Attr) (h : a.key = b!"target") : noOpenerFix a = a := by
  unfold noOpenerFix
  have : (a.key == b!"rel") = false := by rw [h]; decide
  simp [this]

theorem addNoOpener_eq (l : List Attr) :
    addNoOpener l = if l.any (·.key == b!"rel") then l.map noOpenerFix else l ++ [⟨b!"rel", b!"noopener"⟩] := rfl

theorem firstBlank_addNoOpener (l : List Attr) (h : FirstBlank l) : FirstBlank (addNoOpener l) := by
  rw [addNoOpener_eq]
  split
  · exact firstBlank_map _ noOpenerFix_key noOpenerFix_target l h
  · exact firstBlank_append l _ h

theorem relFix_target (nf nr : Bool) (a : Attr) (h : a.key = b!"target") : relFix nf nr a = a := by
  unfold relFix
  have : (a.key == b!"rel") = false := by rw [h]; decide
  simp [this]

theorem anyBlank_le (l : List Attr) (h : hasKey l b!"target" = false) : anyBlank l = false := by
  unfold anyBlank hasKey at *
  rw [List.any_eq_false] at h ⊢
  intro a ha
  have := h a ha
  simp only [Bool.not_eq_true] at this
  simp [this]

/-- with AddTargetBlank… on an `a`: after the block the first target attribute is `_blank` -/
theorem firstBlank_hardenCore (nf nr : Bool) (u : List Attr) : FirstBlank (hardenCore true nf nr true u) := by
  unfold hardenCore
  simp only [Bool.and_self, ↓reduceIte, Bool.true_and, Bool.or_true]
  by_cases ht : hasKey u b!"target" = true
  · have ht' : u.any (·.key == b!"target") = true := ht
    have h2 : FirstBlank (fixFirstTarget (u.map (relFix nf nr))) :=
      ⟨fixFirstTarget_idem _, by rw [hasKey_fixFirstTarget, hasKey_map _ (relFix_key nf nr), ht]⟩
    simp only [ht', Bool.or_true, Bool.not_true, Bool.false_eq_true, ↓reduceIte]
    apply firstBlank_addNoOpener
    split
    · exact firstBlank_append _ _ h2
    · exact h2
  · have ht0 : hasKey u b!"target" = false := by simpa using ht
    have ht' : u.any (·.key == b!"target") = false := ht0
    have hab : (u.any fun a => a.key == b!"target" && asciiEqualFold a.val b!"_blank") = false := anyBlank_le u ht0
    have hno : hasKey (u.map (relFix nf nr)) b!"target" = false := by rw [hasKey_map _ (relFix_key nf nr), ht0]
    simp only [ht', hab, Bool.or_self, Bool.not_false, ↓reduceIte, fixFirstTarget_no _ hno]
    apply firstBlank_addNoOpener
    have hbb : fixFirstTarget [(⟨b!"target", b!"_blank"⟩ : Attr)] = [⟨b!"target", b!"_blank"⟩] := by decide
    split
    · have hno2 : hasKey (u.map (relFix nf nr) ++ [(⟨b!"rel", newRelValue nf nr⟩ : Attr)]) b!"target" = false := by
        rw [hasKey_append, hno]
        have : (b!"rel" == b!"target") = false := by decide
        simp [hasKey, this]
      exact ⟨by rw [fixFirstTarget_append_no _ _ hno2, hbb], by rw [hasKey_append]; simp [hasKey]⟩
    · exact ⟨by rw [fixFirstTarget_append_no _ _ hno, hbb], by rw [hasKey_append]; simp [hasKey]⟩

theorem anyBlank_map (g : Attr → Attr) (hk : ∀ a, (g a).key = a.key)
    (ht : ∀ a, a.key = b!"target" → g a = a) (l : List Attr) : anyBlank (l.map g) = anyBlank l := by
  unfold anyBlank
  induction l with
  | nil => rfl
  | cons a as ih =>
    simp only [List.map_cons, List.any_cons, ih]
    by_cases hka : a.key = b!"target"
    · rw [ht a hka]
    · have h1 : (a.key == b!"target") = false := by simpa using hka
      have h2 : ((g a).key == b!"target") = false := by rw [hk]; exact h1
      simp [h1, h2]

theorem anyBlank_append_rel (l : List Attr) (v : Bytes) : anyBlank (l ++ [⟨b!"rel", v⟩]) = anyBlank l := by
  unfold anyBlank
  rw [List.any_append]
  have : ([(⟨b!"rel", v⟩ : Attr)].any fun a => a.key == b!"target" && asciiEqualFold a.val b!"_blank") = false := by
    simp only [List.any_cons, List.any_nil, Bool.or_false]
    have : (b!"rel" == b!"target") = false := by decide
    simp [this]
  rw [this, Bool.or_false]

theorem anyBlank_addNoOpener (l : List Attr) : anyBlank (addNoOpener l) = anyBlank l := by
  rw [addNoOpener_eq]
  split
  · exact anyBlank_map _ noOpenerFix_key noOpenerFix_target l
  · exact anyBlank_append_rel l _

/-- without AddTargetBlank… the block neither adds nor changes a target attribute -/
theorem anyBlank_hardenCore (isA nf nr : Bool) (u : List Attr) :
    anyBlank (hardenCore isA nf nr false u) = anyBlank u := by
  unfold hardenCore
  simp only [Bool.and_false, Bool.false_eq_true, ↓reduceIte, Bool.false_and, Bool.or_false]
  have h1 : anyBlank (u.map (relFix nf nr)) = anyBlank u := anyBlank_map _ (relFix_key nf nr) (relFix_target nf nr) u
  have h3 : anyBlank (if ((nf || nr) && !u.any (·.key == b!"rel")) = true
      then u.map (relFix nf nr) ++ [(⟨b!"rel", newRelValue nf nr⟩ : Attr)] else u.map (relFix nf nr)) = anyBlank u := by
    split
    · rw [anyBlank_append_rel, h1]
    · exact h1
  split
  · rw [anyBlank_addNoOpener, h3]
  · exact h3

/-! ### the block does not touch href attributes -/

def isHref (a : Attr) : Bool := a.key == b!"href"

theorem filter_map_fix (P : Attr → Bool) (g : Attr → Attr) (hP : ∀ a, P (g a) = P a) (hg : ∀ a, P a = true → g a = a)
    (l : List Attr) : (l.map g).filter P = l.filter P := by
  induction l with
  | nil => rfl
  | cons a as ih =>
    simp only [List.map_cons, List.filter_cons, hP, ih]
    split
    · rename_i h; rw [hg a h]
    · rfl

theorem relFix_href (nf nr : Bool) (a : Attr) (h : isHref a = true) : relFix nf nr a = a := by
  unfold relFix
  have hk : a.key = b!"href" := by simpa [isHref] using h
  have : (a.key == b!"rel") = false := by rw [hk]; decide
  simp [this]

theorem noOpenerFix_href (a : Attr) (h : isHref a = true) : noOpenerFix a = a := by
  unfold noOpenerFix
  have hk : a.key = b!"href" := by simpa [isHref] using h
  have : (a.key == b!"rel") = false := by rw [hk]; decide
  simp [this]

theorem filter_href_fixFirstTarget (l : List Attr) : (fixFirstTarget l).filter isHref = l.filter isHref := by
  induction l with
  | nil => rfl
  | cons a as ih =>
    unfold fixFirstTarget
    split
    · rename_i hk
      have hk' : a.key = b!"target" := by simpa using hk
      have h1 : isHref a = false := by unfold isHref; rw [hk']; decide
      split
      · rfl
      · have h2 : isHref ⟨a.key, b!"_blank"⟩ = false := by unfold isHref; rw [hk']; decide
        simp [List.filter_cons, h1, h2]
    · simp only [List.filter_cons, ih]

theorem filter_href_addNoOpener (l : List Attr) : (addNoOpener l).filter isHref = l.filter isHref := by
  rw [addNoOpener_eq]
  split
  · exact filter_map_fix isHref noOpenerFix (fun a => by unfold isHref; rw [noOpenerFix_key]) noOpenerFix_href l
  · rw [List.filter_append]
    have : [(⟨b!"rel", b!"noopener"⟩ : Attr)].filter isHref = [] := by decide
    rw [this, List.append_nil]

theorem filter_href_hardenCore (isA nf nr tb : Bool) (u : List Attr) :
    (hardenCore isA nf nr tb u).filter isHref = u.filter isHref := by
  unfold hardenCore
  have h1 : (u.map (relFix nf nr)).filter isHref = u.filter isHref :=
    filter_map_fix isHref _ (fun a => by unfold isHref; rw [relFix_key]) (relFix_href nf nr) u
  have h2 : (if (isA && tb) = true then fixFirstTarget (u.map (relFix nf nr)) else u.map (relFix nf nr)).filter isHref =
      u.filter isHref := by
    split
    · rw [filter_href_fixFirstTarget, h1]
    · exact h1
  simp only
  generalize (if (isA && tb) = true then fixFirstTarget (u.map (relFix nf nr)) else u.map (relFix nf nr)) = o2 at h2
  have h3 : (if ((nf || nr) && !u.any (·.key == b!"rel")) = true then o2 ++ [(⟨b!"rel", newRelValue nf nr⟩ : Attr)] else o2).filter isHref =
      u.filter isHref := by
    split
    · rw [List.filter_append, h2]
      have : [(⟨b!"rel", newRelValue nf nr⟩ : Attr)].filter isHref = [] := by
        have : (b!"rel" == b!"href") = false := by decide
        simp [isHref, this]
      rw [this, List.append_nil]
    · exact h2
  generalize (if ((nf || nr) && !u.any (·.key == b!"rel")) = true then o2 ++ [(⟨b!"rel", newRelValue nf nr⟩ : Attr)] else o2) = o3 at h3
  generalize (isA && ((u.any fun a => a.key == b!"target" && asciiEqualFold a.val b!"_blank") ||
      (tb && u.any (·.key == b!"target")))) = bf
  have h4 : (if (isA && tb && !bf) = true then o3 ++ [(⟨b!"target", b!"_blank"⟩ : Attr)] else o3).filter isHref =
      u.filter isHref := by
    split
    · rw [List.filter_append, h3]
      have : [(⟨b!"target", b!"_blank"⟩ : Attr)].filter isHref = [] := by decide
      rw [this, List.append_nil]
    · exact h3
  generalize (if (isA && tb && !bf) = true then o3 ++ [(⟨b!"target", b!"_blank"⟩ : Attr)] else o3) = o4 at h4
  split
  · rw [filter_href_addNoOpener, h4]
  · exact h4

/-! ### the block is idempotent -/

/-- does some href of the list have a host (for net/url)? -/
def extOf (u : List Attr) : Bool :=
  (u.filter (·.key == b!"href")).any fun a => match Url.parse a.val with
    | some x => !x.host.isEmpty
    | none => false

theorem hardenLinks_ext (p : Policy) (el : Bytes) (u : List Attr) :
    p.hardenLinks el u =
      if (u.filter (·.key == b!"href")).isEmpty then u
      else hardenCore (el == b!"a") (p.requireNoFollow || (extOf u && p.requireNoFollowFullyQualifiedLinks))
        (p.requireNoReferrer || (extOf u && p.requireNoReferrerFullyQualifiedLinks))
        (extOf u && p.addTargetBlankToFullyQualifiedLinks) u := hardenLinks_core p el u

theorem C11_ext (p : Policy) (el : Bytes) (u : List Attr) (hhref : (u.filter (·.key == b!"href")).isEmpty = false) :
    let nf := p.requireNoFollow || (extOf u && p.requireNoFollowFullyQualifiedLinks)
    let nr := p.requireNoReferrer || (extOf u && p.requireNoReferrerFullyQualifiedLinks)
    let tb := extOf u && p.addTargetBlankToFullyQualifiedLinks
    let blank := el == b!"a" &&
      ((u.any fun a => a.key == b!"target" && asciiEqualFold a.val b!"_blank") || (tb && u.any (·.key == b!"target")))
    (nf = true → HasRel (p.hardenLinks el u) ∧ AllRel b!"nofollow" (p.hardenLinks el u)) ∧
    (nr = true → HasRel (p.hardenLinks el u) ∧ AllRel b!"noreferrer" (p.hardenLinks el u)) ∧
    ((blank || (el == b!"a" && tb)) = true → HasRel (p.hardenLinks el u) ∧ AllRel b!"noopener" (p.hardenLinks el u)) :=
  C11_hardenLinks p el u hhref

theorem extOf_congr (u v : List Attr) (h : v.filter (·.key == b!"href") = u.filter (·.key == b!"href")) :
    extOf v = extOf u := by unfold extOf; rw [h]

/-- **added rel tokens are not repeated**: hardening a hardened attribute list changes nothing — every policy,
    every element, every attribute list -/
theorem hardenLinks_idem (p : Policy) (el : Bytes) (u : List Attr) :
    p.hardenLinks el (p.hardenLinks el u) = p.hardenLinks el u := by
  by_cases he : (u.filter (·.key == b!"href")).isEmpty = true
  · have e : p.hardenLinks el u = u := by rw [hardenLinks_ext]; simp [he]
    rw [e, e]
  · have he' : (u.filter (·.key == b!"href")).isEmpty = false := by simpa using he
    have hC := C11_ext p el u he'
    simp only at hC
    have eH : p.hardenLinks el u = hardenCore (el == b!"a")
        (p.requireNoFollow || (extOf u && p.requireNoFollowFullyQualifiedLinks))
        (p.requireNoReferrer || (extOf u && p.requireNoReferrerFullyQualifiedLinks))
        (extOf u && p.addTargetBlankToFullyQualifiedLinks) u := by
      rw [hardenLinks_ext]
      simp only [he', Bool.false_eq_true, ↓reduceIte]
    rw [eH] at hC ⊢
    generalize hnf : (p.requireNoFollow || (extOf u && p.requireNoFollowFullyQualifiedLinks)) = nf at hC ⊢
    generalize hnr : (p.requireNoReferrer || (extOf u && p.requireNoReferrerFullyQualifiedLinks)) = nr at hC ⊢
    generalize htb : (extOf u && p.addTargetBlankToFullyQualifiedLinks) = tb at hC ⊢
    have hfil : (hardenCore (el == b!"a") nf nr tb u).filter (·.key == b!"href") = u.filter (·.key == b!"href") :=
      filter_href_hardenCore _ _ _ _ u
    have hext : extOf (hardenCore (el == b!"a") nf nr tb u) = extOf u := extOf_congr _ _ hfil
    have eHH : p.hardenLinks el (hardenCore (el == b!"a") nf nr tb u) =
        hardenCore (el == b!"a") nf nr tb (hardenCore (el == b!"a") nf nr tb u) := by
      rw [hardenLinks_ext]
      simp only [hfil, he', Bool.false_eq_true, ↓reduceIte, hext, hnf, hnr, htb]
    rw [eHH]
    apply hardenCore_fixed
    obtain ⟨h1, h2, h4⟩ := hC
    refine ⟨h1, h2, ?_, ?_⟩
    · intro hat
      simp only [Bool.and_eq_true] at hat
      rw [hat.1, hat.2]
      exact firstBlank_hardenCore nf nr u
    · intro hprem
      apply h4
      by_cases hat : ((el == b!"a") && tb) = true
      · simp [hat]
      · have hat' : ((el == b!"a") && tb) = false := by simpa using hat
        rw [hat', Bool.or_false] at hprem
        simp only [Bool.and_eq_true] at hprem
        have hA : (el == b!"a") = true := hprem.1
        have hT : tb = false := by rw [hA] at hat'; simpa using hat'
        subst hT
        have hb := hprem.2
        simp only [Bool.false_and, Bool.or_false] at hb
        rw [anyBlank_hardenCore] at hb
        have : (u.any fun a => a.key == b!"target" && asciiEqualFold a.val b!"_blank") = true := hb
        simp [hA, this]

/-! ### what the block returns: the attributes it was given, or rel / target attributes -/

theorem mem_fixFirstTarget (l : List Attr) (b : Attr) (h : b ∈ fixFirstTarget l) : b ∈ l ∨ isRelOrTarget b = true := by
  induction l with
  | nil => simp [fixFirstTarget] at h
  | cons a as ih =>
    unfold fixFirstTarget at h
    split at h
    · rename_i hk
      rcases List.mem_cons.mp h with rfl | h
      · split
        · exact .inl (by simp)
        · exact .inr (by simp [isRelOrTarget, hk])
      · exact .inl (List.mem_cons_of_mem _ h)
    · rcases List.mem_cons.mp h with rfl | h
      · exact .inl (by simp)
      · rcases ih h with h | h
        · exact .inl (List.mem_cons_of_mem _ h)
        · exact .inr h

theorem mem_addNoOpener (l : List Attr) (b : Attr) (h : b ∈ addNoOpener l) : b ∈ l ∨ isRelOrTarget b = true := by
  rw [addNoOpener_eq] at h
  split at h
  · obtain ⟨a, ha, rfl⟩ := List.mem_map.mp h
    unfold noOpenerFix
    split
    · rename_i hk; exact .inr (by simp [isRelOrTarget, hk])
    · exact .inl ha
  · rcases List.mem_append.mp h with h | h
    · exact .inl h
    · simp only [List.mem_singleton] at h; subst h; exact .inr (by decide)

theorem mem_hardenCore (isA nf nr tb : Bool) (u : List Attr) (b : Attr) (h : b ∈ hardenCore isA nf nr tb u) :
    b ∈ u ∨ isRelOrTarget b = true := by
  unfold hardenCore at h
  simp only at h
  have h1 : ∀ x ∈ u.map (relFix nf nr), x ∈ u ∨ isRelOrTarget x = true := by
    intro x hx
    obtain ⟨a, ha, rfl⟩ := List.mem_map.mp hx
    unfold relFix
    split
    · rename_i hc
      simp only [Bool.and_eq_true] at hc
      exact .inr (by simp [isRelOrTarget, hc.1])
    · exact .inl ha
  have h2 : ∀ x ∈ (if (isA && tb) = true then fixFirstTarget (u.map (relFix nf nr)) else u.map (relFix nf nr)),
      x ∈ u ∨ isRelOrTarget x = true := by
    intro x hx
    split at hx
    · rcases mem_fixFirstTarget _ x hx with hx | hx
      · exact h1 x hx
      · exact .inr hx
    · exact h1 x hx
  generalize (if (isA && tb) = true then fixFirstTarget (u.map (relFix nf nr)) else u.map (relFix nf nr)) = o2 at h h2
  have h3 : ∀ x ∈ (if ((nf || nr) && !u.any (·.key == b!"rel")) = true then o2 ++ [(⟨b!"rel", newRelValue nf nr⟩ : Attr)] else o2),
      x ∈ u ∨ isRelOrTarget x = true := by
    intro x hx
    split at hx
    · rcases List.mem_append.mp hx with hx | hx
      · exact h2 x hx
      · simp only [List.mem_singleton] at hx; subst hx
        exact .inr (by simp [isRelOrTarget])
    · exact h2 x hx
  generalize (if ((nf || nr) && !u.any (·.key == b!"rel")) = true then o2 ++ [(⟨b!"rel", newRelValue nf nr⟩ : Attr)] else o2) = o3 at h h3
  generalize (isA && ((u.any fun a => a.key == b!"target" && asciiEqualFold a.val b!"_blank") ||
      (tb && u.any (·.key == b!"target")))) = bf at h
  have h4 : ∀ x ∈ (if (isA && tb && !bf) = true then o3 ++ [(⟨b!"target", b!"_blank"⟩ : Attr)] else o3),
      x ∈ u ∨ isRelOrTarget x = true := by
    intro x hx
    split at hx
    · rcases List.mem_append.mp hx with hx | hx
      · exact h3 x hx
      · simp only [List.mem_singleton] at hx; subst hx
        exact .inr (by decide)
    · exact h3 x hx
  generalize (if (isA && tb && !bf) = true then o3 ++ [(⟨b!"target", b!"_blank"⟩ : Attr)] else o3) = o4 at h h4
  split at h
  · rcases mem_addNoOpener o4 b h with h | h
    · exact h4 b h
    · exact .inr h
  · exact h4 b h

theorem mem_hardenLinks (p : Policy) (el : Bytes) (u : List Attr) (b : Attr) (h : b ∈ p.hardenLinks el u) :
    b ∈ u ∨ isRelOrTarget b = true := by
  rw [hardenLinks_ext] at h
  split at h
  · exact .inl h
  · exact mem_hardenCore _ _ _ _ u b h

theorem hardenLinks_nonempty (p : Policy) (el : Bytes) (u : List Attr) (h : u.isEmpty = false) :
    (p.hardenLinks el u).isEmpty = false := by
  by_cases he : (u.filter (·.key == b!"href")).isEmpty = true
  · have e : p.hardenLinks el u = u := by rw [hardenLinks_ext]; simp [he]
    rw [e]; exact h
  · have he' : (u.filter (·.key == b!"href")).isEmpty = false := by simpa using he
    have hf : (p.hardenLinks el u).filter (·.key == b!"href") = u.filter (·.key == b!"href") := by
      rw [hardenLinks_ext]
      simp only [he', Bool.false_eq_true, ↓reduceIte]
      exact filter_href_hardenCore _ _ _ _ u
    cases hH : p.hardenLinks el u with
    | nil =>
      rw [hH] at hf
      have : u.filter (·.key == b!"href") = [] := by rw [← hf]; rfl
      rw [this] at he'; cases he'
    | cons _ _ => rfl

/-! ### C20 when the rules let rel and target through -/

/-- **the attribute pass reproduces its result on element `el`** when the rules do not look at the value of the
    element's URL attribute and, on a link element, still accept a list they accepted once the hardening block has
    run over it (`hclosed`; e.g. because they accept `rel` and `target` whatever their value): the tokens and the
    target the options added are found in place on the second pass, and nothing is added again -/
theorem link_idemOpen (p : Policy) (el : Bytes) (hs : LinkCoreAt p el) (attrs out : List Attr) (aps : AttrRules)
    (h : p.sanitizeAttrs el attrs aps = some out)
    (hblind : ∀ k, urlKeyFor el = some k → ∀ v v',
      (p.filterAttr el aps false ⟨k, v⟩).isSome = (p.filterAttr el aps false ⟨k, v'⟩).isSome)
    (hclosed : isHrefElement el = true → ∀ u : List Attr, (∀ a ∈ u, (p.filterAttr el aps false a).isSome = true) →
      ∀ b ∈ p.hardenLinks el u, (p.filterAttr el aps false b).isSome = true)
    (hstab : UrlStableOn p el out) :
    p.sanitizeAttrs el out aps = some out := by
  rw [link_sanitizeAttrsAt p el hs] at h ⊢
  simp only at h ⊢
  generalize hacc : (fun a => (p.filterAttr el aps false a).isSome) = acc at h ⊢
  generalize hc : attrs.filter acc = c at h
  have hcacc : ∀ a ∈ c, acc a = true := by
    intro a ha; rw [← hc] at ha; exact (List.mem_filter.mp ha).2
  have hblind' : ∀ k, urlKeyFor el = some k → ∀ v v', acc ⟨k, v⟩ = acc ⟨k, v'⟩ := by
    intro k hk; rw [← hacc]; exact hblind k hk
  by_cases hce : c.isEmpty = true
  · simp only [hce, ↓reduceIte, Option.some.injEq] at h
    subst h
    have : c = [] := List.isEmpty_iff.mp hce
    subst this
    rfl
  · simp only [hce, Bool.false_eq_true, ↓reduceIte] at h
    unfold Policy.linkPasses at h
    by_cases hl : linkable el = true
    · simp only [hl, ↓reduceIte] at h
      obtain ⟨u, hu, hout⟩ : ∃ u, (if p.requireParseableURLs = true then mapMOpt (p.urlPassAttr el) c else some c) = some u ∧
          out = (if (p.requireNoFollow || p.requireNoFollowFullyQualifiedLinks || p.requireNoReferrer ||
              p.requireNoReferrerFullyQualifiedLinks || p.addTargetBlankToFullyQualifiedLinks) &&
              decide (u.length > 0) && isHrefElement el then p.hardenLinks el u else u) := by
        cases hm : (if p.requireParseableURLs = true then mapMOpt (p.urlPassAttr el) c else some c) with
        | none => rw [hm] at h; simp at h
        | some u => rw [hm] at h; simp only [Option.map_some, Option.some.injEq] at h; exact ⟨u, rfl, h.symm⟩
      have huacc : ∀ b ∈ u, acc b = true := by
        intro b hb
        by_cases hrp : p.requireParseableURLs = true
        · simp only [hrp, ↓reduceIte] at hu
          obtain ⟨a, ha, hfa⟩ := mapMOpt_mem _ c u hu b hb
          obtain ⟨hk, hor⟩ := urlFixAt hs a b hfa
          rcases hor with rfl | ⟨hkey, _⟩
          · exact hcacc _ ha
          · have := hblind' a.key hkey a.val b.val
            have hb' : b = ⟨a.key, b.val⟩ := by cases b; simp_all
            rw [hb', ← this]
            exact hcacc a ha
        · simp only [hrp, Bool.false_eq_true, ↓reduceIte, Option.some.injEq] at hu
          subst hu; exact hcacc b hb
      -- each attribute the URL pass returned is left alone by it
      -- an attribute of `u` at the element's URL key is in the result (the hardening block does not touch href
      -- attributes, and runs on link elements only), whose URLs are stable: the URL pass leaves it alone
      have hueach : ∀ b ∈ u, p.urlPassAttr el b = some (some b) := by
        intro b hb
        apply urlPass_fixed p hs.noRewriter el b
        intro hkey
        apply hstab b ?_ hkey
        rw [hout]
        split
        · rename_i hc
          have hhref : isHrefElement el = true := by simp only [Bool.and_eq_true] at hc; exact hc.2
          have hk : b.key = b!"href" := by
            have : urlKeyFor el = some b!"href" := by simp [urlKeyFor, hhref]
            rw [this] at hkey; exact (Option.some.inj hkey).symm
          have hbf : b ∈ u.filter isHref := List.mem_filter.mpr ⟨hb, by simp [isHref, hk]⟩
          have hfil : (p.hardenLinks el u).filter isHref = u.filter isHref := by
            rw [hardenLinks_ext]
            split
            · rfl
            · exact filter_href_hardenCore _ _ _ _ u
          rw [← hfil] at hbf
          exact (List.mem_filter.mp hbf).1
        · exact hb
      have hfu : u.filter acc = u := List.filter_eq_self.mpr huacc
      by_cases hcond : ((p.requireNoFollow || p.requireNoFollowFullyQualifiedLinks || p.requireNoReferrer ||
          p.requireNoReferrerFullyQualifiedLinks || p.addTargetBlankToFullyQualifiedLinks) &&
          decide (u.length > 0) && isHrefElement el) = true
      · simp only [hcond, ↓reduceIte] at hout
        have hhref : isHrefElement el = true := by simp only [Bool.and_eq_true] at hcond; exact hcond.2
        have hupos : u.length > 0 := by simp only [Bool.and_eq_true, decide_eq_true_eq] at hcond; exact hcond.1.2
        have hflags : (p.requireNoFollow || p.requireNoFollowFullyQualifiedLinks || p.requireNoReferrer ||
            p.requireNoReferrerFullyQualifiedLinks || p.addTargetBlankToFullyQualifiedLinks) = true := by
          simp only [Bool.and_eq_true] at hcond; exact hcond.1.1
        have houtacc : ∀ b ∈ out, acc b = true := by
          intro b hb
          rw [hout] at hb
          have hcl := hclosed hhref u (by intro a ha; have := huacc a ha; rw [← hacc] at this; exact this) b hb
          rw [← hacc]; exact hcl
        have hfo : out.filter acc = out := List.filter_eq_self.mpr houtacc
        have hune : u.isEmpty = false := by
          cases u with
          | nil => simp at hupos
          | cons _ _ => rfl
        have hone : out.isEmpty = false := by rw [hout]; exact hardenLinks_nonempty p el u hune
        have hopos : out.length > 0 := by
          cases out with
          | nil => simp at hone
          | cons _ _ => simp
        have houtfix : (if p.requireParseableURLs = true then mapMOpt (p.urlPassAttr el) out else some out) = some out := by
          by_cases hrp : p.requireParseableURLs = true
          · simp only [hrp, ↓reduceIte]
            apply mapMOpt_all_fix
            intro b hb
            rw [hout] at hb
            rcases mem_hardenLinks p el u b hb with hb | hb
            · exact hueach b hb
            · -- a rel or target attribute is not the URL attribute of a link element
              have hkne : (b.key == b!"href") = false := by
                unfold isRelOrTarget at hb
                simp only [Bool.or_eq_true, beq_iff_eq] at hb
                rcases hb with hk | hk <;> rw [hk] <;> decide
              unfold Policy.urlPassAttr
              simp only [hhref, ↓reduceIte, hkne, Bool.false_eq_true]
          · simp only [hrp, Bool.false_eq_true, ↓reduceIte]
        rw [hfo]
        simp only [hone, Bool.false_eq_true, ↓reduceIte]
        unfold Policy.linkPasses
        have hcond2 : ((p.requireNoFollow || p.requireNoFollowFullyQualifiedLinks || p.requireNoReferrer ||
            p.requireNoReferrerFullyQualifiedLinks || p.addTargetBlankToFullyQualifiedLinks) &&
            decide (out.length > 0) && isHrefElement el) = true := by
          simp [hflags, hopos, hhref]
        simp only [hl, ↓reduceIte, houtfix, Option.map_some, hcond2]
        rw [hout, hardenLinks_idem]
      · simp only [hcond, Bool.false_eq_true, ↓reduceIte] at hout
        subst hout
        have hufix : (if p.requireParseableURLs = true then mapMOpt (p.urlPassAttr el) out else some out) = some out := by
          by_cases hrp : p.requireParseableURLs = true
          · simp only [hrp, ↓reduceIte]
            exact mapMOpt_all_fix _ _ hueach
          · simp only [hrp, Bool.false_eq_true, ↓reduceIte]
        rw [hfu]
        by_cases hue : out.isEmpty = true
        · simp only [hue, ↓reduceIte]
        · simp only [hue, Bool.false_eq_true, ↓reduceIte]
          unfold Policy.linkPasses
          simp only [hl, ↓reduceIte, hufix, Option.map_some, hcond, Bool.false_eq_true]
    · have hl' : linkable el = false := by simpa using hl
      simp only [hl', Bool.false_eq_true, ↓reduceIte, Option.some.injEq] at h
      subst h
      have hfc : c.filter acc = c := List.filter_eq_self.mpr hcacc
      rw [hfc]
      simp only [hce, Bool.false_eq_true, ↓reduceIte]
      unfold Policy.linkPasses
      simp only [hl', Bool.false_eq_true, ↓reduceIte]

/-- policies with link options whose rules let `rel` and `target` through, whatever their value, on the link
    elements (and, like `LinkSimple`, attach no value pattern to the URL attributes; no styles, forced crossorigin
    or sandbox, no rewriter) -/
structure LinkOpen (p : Policy) : Prop where
  core : ∀ el, LinkCoreAt p el
  blind : ∀ el aps, p.attrRulesFor el = some aps → ∀ k, urlKeyFor el = some k → ∀ v v',
    (p.filterAttr el aps false ⟨k, v⟩).isSome = (p.filterAttr el aps false ⟨k, v'⟩).isSome
  letThrough : ∀ el aps, p.attrRulesFor el = some aps → isHrefElement el = true → ∀ v,
    (p.filterAttr el aps false ⟨b!"rel", v⟩).isSome = true ∧ (p.filterAttr el aps false ⟨b!"target", v⟩).isSome = true

/-- URL normalisation is stable on a tag of the output -/
def UrlStableTag (p : Policy) (k : Token) : Prop := UrlStableOn p k.data k.attrs

theorem attrFixG_of_open (p : Policy) (hs : LinkOpen p) (t : Token) : AttrFixG p (UrlStableTag p) t := by
  intro aps attrs _ haps h hG
  unfold Policy.cleanAttrs at h ⊢
  split at h
  · simp at h; subst h; simp_all
  · simp only
    split
    · rename_i he
      have : attrs = [] := List.isEmpty_iff.mp he
      subst this; rfl
    · refine link_idemOpen p t.data (hs.core t.data) t.attrs attrs aps h (hs.blind t.data aps haps) ?_ hG
      intro hhref u hu b hb
      rcases mem_hardenLinks p t.data u b hb with hb | hb
      · exact hu b hb
      · unfold isRelOrTarget at hb
        simp only [Bool.or_eq_true, beq_iff_eq] at hb
        rcases hb with hk | hk
        · have : b = ⟨b!"rel", b.val⟩ := by cases b; simp_all
          rw [this]; exact (hs.letThrough t.data aps haps hhref b.val).1
        · have : b = ⟨b!"target", b.val⟩ := by cases b; simp_all
          rw [this]; exact (hs.letThrough t.data aps haps hhref b.val).2

/-- **C20, policies with link options whose rules let rel and target through**: sanitising twice is sanitising
    once — "added rel tokens are not repeated" — whenever URL normalisation is stable on the output: every URL
    value at a checked position of `Sanitize(x)` is returned unchanged by the URL check.
    Together with `C20_links` (rules that let neither through) this leaves exactly the mixed case, where the
    order of the two attributes changes on the second pass: the known finding `forced-attr-order`. -/
theorem C20_links_open (p : Policy) (hp : Plain p.ensureInit) (hs : LinkOpen p.ensureInit) (input : Bytes)
    (hstab : ∀ k ∈ tokenize (p.sanitizeCore input), isOpen k → UrlStableTag p.ensureInit k) :
    p.sanitizeCore (p.sanitizeCore input) = p.sanitizeCore input :=
  C20_fix_out p hp (UrlStableTag p.ensureInit) input (fun t _ => attrFixG_of_open _ hs t) hstab


/-- policies with link options whose rules let neither `rel` nor `target` through on link elements and attach no
    value pattern to the URL attributes (no styles, forced crossorigin or sandbox, no rewriter) — `LinkSimple`
    without its whole-policy proviso on URL normalisation -/
structure LinkClosed (p : Policy) : Prop where
  base : ∀ el, LinkBaseAt p el
  blind : ∀ el aps, p.attrRulesFor el = some aps → ∀ k, urlKeyFor el = some k → ∀ v v',
    (p.filterAttr el aps false ⟨k, v⟩).isSome = (p.filterAttr el aps false ⟨k, v'⟩).isSome

theorem attrFixG_of_closed (p : Policy) (hs : LinkClosed p) (t : Token) : AttrFixG p (UrlStableTag p) t := by
  intro aps attrs _ haps h hG
  unfold Policy.cleanAttrs at h ⊢
  split at h
  · simp at h; subst h; simp_all
  · simp only
    split
    · rename_i he
      have : attrs = [] := List.isEmpty_iff.mp he
      subst this; rfl
    · exact link_idemAt p t.data (hs.base t.data) t.attrs attrs aps haps h
        (fun k hk => .inl (hs.blind t.data aps haps k hk)) hG

/-- **C20, policies that check URLs, with or without link options, whose rules let neither rel nor target
    through**: sanitising twice is sanitising once whenever URL normalisation is stable on the output.  (The
    output-level form of `C20_urls` and `C20_links`, whose proviso is a hypothesis on the policy.) -/
theorem C20_links_out (p : Policy) (hp : Plain p.ensureInit) (hs : LinkClosed p.ensureInit) (input : Bytes)
    (hstab : ∀ k ∈ tokenize (p.sanitizeCore input), isOpen k → UrlStableTag p.ensureInit k) :
    p.sanitizeCore (p.sanitizeCore input) = p.sanitizeCore input :=
  C20_fix_out p hp (UrlStableTag p.ensureInit) input (fun t _ => attrFixG_of_closed _ hs t) hstab


/-- the class is inhabited: rel and target allowed on `a` next to href, nofollow and target-blank options -/
def openPolicy : Policy :=
  { initialized := true, requireParseableURLs := true, requireNoFollow := true,
    addTargetBlankToFullyQualifiedLinks := true, allowURLSchemes := [(b!"https", [])],
    elsAndAttrs := [(b!"a", [(b!"href", [Option.none]), (b!"rel", [Option.none]), (b!"target", [Option.none])])] }

theorem openPolicy_rules (el : Bytes) (aps : AttrRules) (h : openPolicy.attrRulesFor el = some aps) :
    el = b!"a" ∧ aps = [(b!"href", [Option.none]), (b!"rel", [Option.none]), (b!"target", [Option.none])] := by
  simp only [openPolicy, Policy.attrRulesFor, Map.get?, Policy.matchRegex] at h
  by_cases h1 : (b!"a" == el) = true
  · simp only [h1, ↓reduceIte, Option.some.injEq] at h
    exact ⟨(by simpa using h1 : b!"a" = el).symm, h.symm⟩
  · simp [h1] at h

example : LinkOpen openPolicy where
  core := fun el =>
    { noStyle := by simp [openPolicy, Policy.hasStylePolicies, Map.get?]
      noCross := rfl
      noSandbox := rfl
      noRewriter := rfl }
  blind := by
    intro el aps h k hk v v'
    obtain ⟨rfl, rfl⟩ := openPolicy_rules el aps h
    have hkh : k = b!"href" := by
      have : urlKeyFor b!"a" = some b!"href" := by decide
      rw [this] at hk; exact (Option.some.inj hk).symm
    subst hkh
    exact filterAttr_blind _ _ _ _ (by decide) (by decide) v v'
  letThrough := by
    intro el aps h _ v
    obtain ⟨rfl, rfl⟩ := openPolicy_rules el aps h
    constructor <;> simp [Policy.filterAttr, openPolicy, Map.get?, attrPoliciesAccept, isDataAttribute]


/-- … and so is `LinkClosed`: only href allowed on `a`, the same options -/
def closedPolicy : Policy :=
  { initialized := true, requireParseableURLs := true, requireNoFollow := true,
    addTargetBlankToFullyQualifiedLinks := true, allowURLSchemes := [(b!"https", [])],
    elsAndAttrs := [(b!"a", [(b!"href", [Option.none])])] }

theorem closedPolicy_rules (el : Bytes) (aps : AttrRules) (h : closedPolicy.attrRulesFor el = some aps) :
    el = b!"a" ∧ aps = [(b!"href", [Option.none])] := by
  simp only [closedPolicy, Policy.attrRulesFor, Map.get?, Policy.matchRegex] at h
  by_cases h1 : (b!"a" == el) = true
  · simp only [h1, ↓reduceIte, Option.some.injEq] at h
    exact ⟨(by simpa using h1 : b!"a" = el).symm, h.symm⟩
  · simp [h1] at h

example : LinkClosed closedPolicy where
  base := fun el =>
    { noStyle := by simp [closedPolicy, Policy.hasStylePolicies, Map.get?]
      noCross := rfl
      noSandbox := rfl
      noRewriter := rfl
      noRelTarget := by
        intro aps h _ v
        obtain ⟨rfl, rfl⟩ := closedPolicy_rules el aps h
        exact ⟨filterAttr_noRule _ _ _ _ (by decide) (by decide) (by decide) v,
               filterAttr_noRule _ _ _ _ (by decide) (by decide) (by decide) v⟩ }
  blind := by
    intro el aps h k hk v v'
    obtain ⟨rfl, rfl⟩ := closedPolicy_rules el aps h
    have hkh : k = b!"href" := by
      have : urlKeyFor b!"a" = some b!"href" := by decide
      rw [this] at hk; exact (Option.some.inj hk).symm
    subst hkh
    exact filterAttr_blind _ _ _ _ (by decide) (by decide) v v'

/-- such a policy at work (a test, not the unbounded claim): rel and target are allowed on `a`, the options add
    to them in place, and the second pass changes nothing -/
example :
    let p : Policy := { initialized := true, requireParseableURLs := true, requireNoFollow := true,
                        addTargetBlankToFullyQualifiedLinks := true, allowURLSchemes := [(b!"https", [])],
                        elsAndAttrs := [(b!"a", [(b!"href", [none]), (b!"rel", [none]), (b!"target", [none])])] }
    p.sanitizeCore b!"<a rel=\"author\" href=\"https://a.b/\" target=\"x\">t</a>" =
      b!"<a rel=\"author nofollow noopener\" href=\"https://a.b/\" target=\"_blank\">t</a>" ∧
    p.sanitizeCore (p.sanitizeCore b!"<a rel=\"author\" href=\"https://a.b/\" target=\"x\">t</a>") =
      p.sanitizeCore b!"<a rel=\"author\" href=\"https://a.b/\" target=\"x\">t</a>" := by decide

end BM.Props
