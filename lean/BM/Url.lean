import BM.Basic
/-
  Model of net/url (Go 1.23): Parse, URL.String and what they call.
  Hand-written from src/net/url/url.go; tied to the real package only by the
  correspondence run (`url` family).
-/
namespace BM.Url

inductive Mode where
  | path | pathSegment | host | zone | userPassword | queryComponent | fragment
  deriving BEq, Repr, DecidableEq

def isHostSub (c : UInt8) : Bool :=
  c == 33 || c == 36 || c == 38 || c == 39 || c == 40 || c == 41 || c == 42 || c == 43 ||
  c == 44 || c == 59 || c == 61 || c == 58 || c == 91 || c == 93 || c == 60 || c == 62 || c == 34

def isReserved (c : UInt8) : Bool :=
  c == 36 || c == 38 || c == 43 || c == 44 || c == 47 || c == 58 || c == 59 || c == 61 ||
  c == 63 || c == 64

/-- `shouldEscape`. -/
def shouldEscape (c : UInt8) (mode : Mode) : Bool :=
  if isAlnum c then false
  else if (mode == .host || mode == .zone) && isHostSub c then false
  else if c == 45 || c == 95 || c == 46 || c == 126 then false
  else if isReserved c &&
      (mode == .path || mode == .pathSegment || mode == .userPassword ||
       mode == .queryComponent || mode == .fragment) then
    match mode with
    | .path => c == 63
    | .pathSegment => c == 47 || c == 59 || c == 44 || c == 63
    | .userPassword => c == 64 || c == 47 || c == 63 || c == 58
    | .queryComponent => true
    | _ => false
  else if mode == .fragment && (c == 33 || c == 40 || c == 41 || c == 42) then false
  else true

def upperHex (n : Nat) : UInt8 := if n < 10 then (48 + n).toUInt8 else (55 + n).toUInt8

/-- `escape`. -/
def escape (mode : Mode) : Bytes → Bytes
  | [] => []
  | c :: cs =>
    if c == 32 && mode == .queryComponent then 43 :: escape mode cs
    else if shouldEscape c mode then
      37 :: upperHex (c.toNat / 16) :: upperHex (c.toNat % 16) :: escape mode cs
    else c :: escape mode cs

def isHex (c : UInt8) : Bool := (hexVal c).isSome
def unhex (c : UInt8) : Nat := (hexVal c).getD 0

/-- `unescape`: `none` is an error (EscapeError / InvalidHostError). The validation pass
    and the rewriting pass of the Go code are fused; they agree because validation fails
    on the first offending position either way. -/
def unescape (mode : Mode) : Bytes → Option Bytes
  | [] => some []
  | c :: cs =>
    if c == 37 then
      match cs with
      | h1 :: h2 :: rest =>
        if !(isHex h1 && isHex h2) then none
        else if mode == .host && unhex h1 < 8 && !(h1 == 50 && h2 == 53) then none
        else if mode == .zone &&
            (let v := (unhex h1 * 16 + unhex h2).toUInt8
             !(h1 == 50 && h2 == 53) && v != 32 && shouldEscape v .host) then none
        else (unescape mode rest).map fun r => (unhex h1 * 16 + unhex h2).toUInt8 :: r
      | _ => none
    else if c == 43 then
      (unescape mode cs).map fun r => (if mode == .queryComponent then 32 else 43) :: r
    else if (mode == .host || mode == .zone) && c < 0x80 && shouldEscape c mode then none
    else (unescape mode cs).map fun r => c :: r

structure URL where
  scheme : Bytes := []
  opaq : Bytes := []
  hasUser : Bool := false
  username : Bytes := []
  password : Bytes := []
  passwordSet : Bool := false
  host : Bytes := []
  path : Bytes := []
  rawPath : Bytes := []
  omitHost : Bool := false
  forceQuery : Bool := false
  rawQuery : Bytes := []
  fragment : Bytes := []
  rawFragment : Bytes := []
  deriving Repr, BEq, DecidableEq, Inhabited

inductive SchemeResult where
  | err
  | ok (scheme rest : Bytes)

/-- `getScheme`. -/
def getSchemeAux (all : Bytes) : Nat → Bytes → SchemeResult
  | _, [] => .ok [] all
  | i, c :: cs =>
    if isAlpha c then getSchemeAux all (i + 1) cs
    else if isDigit c || c == 43 || c == 45 || c == 46 then
      if i == 0 then .ok [] all else getSchemeAux all (i + 1) cs
    else if c == 58 then
      if i == 0 then .err else .ok (all.take i) cs
    else .ok [] all

def getScheme (s : Bytes) : SchemeResult := getSchemeAux s 0 s

def containsCTL (s : Bytes) : Bool := s.any fun b => b < 32 || b == 0x7f

/-- `strings.Cut(s, sep)` for a one-byte separator. -/
def cut (sep : UInt8) : Bytes → Bytes × Bytes × Bool
  | [] => ([], [], false)
  | c :: cs => if c == sep then ([], cs, true) else
    let (a, b, f) := cut sep cs; (c :: a, b, f)

def count (x : UInt8) (s : Bytes) : Nat := (s.filter (· == x)).length

def lastIndex (x : UInt8) (s : Bytes) : Option Nat :=
  let rec go : Bytes → Nat → Option Nat → Option Nat
    | [], _, acc => acc
    | c :: cs, i, acc => go cs (i + 1) (if c == x then some i else acc)
  go s 0 none

def indexOfSub (sub : Bytes) : Bytes → Nat → Option Nat
  | [], i => if sub.isEmpty then some i else none
  | s@(_ :: cs), i => if hasPrefix sub s then some i else indexOfSub sub cs (i + 1)

def validOptionalPort : Bytes → Bool
  | [] => true
  | c :: cs => c == 58 && cs.all isDigit

/-- `validOptionalPort` ranges over runes; a non-ASCII byte can never be a digit, so the
    byte-wise test agrees. -/
def validUserinfoByte (c : UInt8) : Bool :=
  isAlnum c || c == 45 || c == 46 || c == 95 || c == 58 || c == 126 || c == 33 || c == 36 ||
  c == 38 || c == 39 || c == 40 || c == 41 || c == 42 || c == 43 || c == 44 || c == 59 ||
  c == 61 || c == 37 || c == 64

def validUserinfo (s : Bytes) : Bool := s.all validUserinfoByte

/-- `parseHost`. -/
def parseHost (host : Bytes) : Option Bytes :=
  if hasPrefix [91] host then
    match lastIndex 93 host with
    | none => none
    | some i =>
      if !validOptionalPort (host.drop (i + 1)) then none
      else match indexOfSub b!"%25" (host.take i) 0 with
        | some zone =>
          match unescape .host (host.take zone), unescape .zone ((host.take i).drop zone),
                unescape .host (host.drop i) with
          | some h1, some h2, some h3 => some (h1 ++ h2 ++ h3)
          | _, _, _ => none
        | none => unescape .host host
  else
    match lastIndex 58 host with
    | some i => if !validOptionalPort (host.drop i) then none else unescape .host host
    | none => unescape .host host

/-- `parseAuthority`: (hasUser, username, password, passwordSet, host). -/
def parseAuthority (authority : Bytes) : Option (Bool × Bytes × Bytes × Bool × Bytes) :=
  match lastIndex 64 authority with
  | none => (parseHost authority).map fun h => (false, [], [], false, h)
  | some i =>
    match parseHost (authority.drop (i + 1)) with
    | none => none
    | some h =>
      let userinfo := authority.take i
      if !validUserinfo userinfo then none
      else if !userinfo.contains 58 then
        (unescape .userPassword userinfo).map fun u => (true, u, [], false, h)
      else
        let (un, pw, _) := cut 58 userinfo
        match unescape .userPassword un, unescape .userPassword pw with
        | some u, some p => some (true, u, p, true, h)
        | _, _ => none

/-- `setPath`. -/
def setPath (u : URL) (p : Bytes) : Option URL :=
  (unescape .path p).map fun path =>
    { u with path := path, rawPath := if escape .path path == p then [] else p }

/-- `parse(rawURL, viaRequest = false)`. -/
def parseNoFrag (raw : Bytes) : Option URL :=
  if containsCTL raw then none
  else if raw == [42] then some { path := [42] }
  else match getScheme raw with
  | .err => none
  | .ok scheme rest0 =>
    let scheme := lowerAscii scheme
    let (rest, rawQuery, forceQuery) :=
      if hasSuffix [63] rest0 && count 63 rest0 == 1 then (rest0.take (rest0.length - 1), [], true)
      else let (a, b, _) := cut 63 rest0; (a, b, false)
    let u : URL := { scheme := scheme, rawQuery := rawQuery, forceQuery := forceQuery }
    if !hasPrefix [47] rest && !scheme.isEmpty then some { u with opaq := rest }
    else if !hasPrefix [47] rest && (cut 47 rest).1.contains 58 then none
    else
      if (!scheme.isEmpty || !hasPrefix b!"///" rest) && hasPrefix b!"//" rest then
        let auth0 := rest.drop 2
        let (authority, rest') := match indexOfSub [47] auth0 0 with
          | some i => (auth0.take i, auth0.drop i)
          | none => (auth0, [])
        match parseAuthority authority with
        | none => none
        | some (hasUser, un, pw, pwSet, host) =>
          setPath { u with hasUser := hasUser, username := un, password := pw,
                           passwordSet := pwSet, host := host } rest'
      else if !scheme.isEmpty && hasPrefix [47] rest then setPath { u with omitHost := true } rest
      else setPath u rest

/-- `setFragment`. -/
def setFragment (u : URL) (f : Bytes) : Option URL :=
  (unescape .fragment f).map fun frag =>
    { u with fragment := frag, rawFragment := if escape .fragment frag == f then [] else f }

/-- `url.Parse`. -/
def parse (raw : Bytes) : Option URL :=
  let (u, frag, _) := cut 35 raw
  match parseNoFrag u with
  | none => none
  | some url => if frag.isEmpty then some url else setFragment url frag

def validEncodedByte (mode : Mode) (c : UInt8) : Bool :=
  c == 33 || c == 36 || c == 38 || c == 39 || c == 40 || c == 41 || c == 42 || c == 43 ||
  c == 44 || c == 59 || c == 61 || c == 58 || c == 64 || c == 91 || c == 93 || c == 37 ||
  !shouldEscape c mode

def validEncoded (s : Bytes) (mode : Mode) : Bool := s.all (validEncodedByte mode)

def escapedPath (u : URL) : Bytes :=
  if !u.rawPath.isEmpty && validEncoded u.rawPath .path && unescape .path u.rawPath == some u.path
  then u.rawPath
  else if u.path == [42] then [42]
  else escape .path u.path

def escapedFragment (u : URL) : Bytes :=
  if !u.rawFragment.isEmpty && validEncoded u.rawFragment .fragment &&
      unescape .fragment u.rawFragment == some u.fragment
  then u.rawFragment
  else escape .fragment u.fragment

def userString (u : URL) : Bytes :=
  escape .userPassword u.username ++
    (if u.passwordSet then 58 :: escape .userPassword u.password else [])

/-- `URL.String`. -/
def print (u : URL) : Bytes :=
  let head := if u.scheme.isEmpty then [] else u.scheme ++ [58]
  let body :=
    if !u.opaq.isEmpty then head ++ u.opaq
    else
      let auth :=
        if !u.scheme.isEmpty || !u.host.isEmpty || u.hasUser then
          if u.omitHost && u.host.isEmpty && !u.hasUser then []
          else
            (if !u.host.isEmpty || !u.path.isEmpty || u.hasUser then b!"//" else []) ++
            (if u.hasUser then userString u ++ [64] else []) ++
            (if !u.host.isEmpty then escape .host u.host else [])
        else []
      let buf := head ++ auth
      let path := escapedPath u
      let buf := if !path.isEmpty && path.head? != some 47 && !u.host.isEmpty then buf ++ [47] else buf
      let buf := if buf.isEmpty && (cut 47 path).1.contains 58 then b!"./" else buf
      buf ++ path
  let body := if u.forceQuery || !u.rawQuery.isEmpty then body ++ 63 :: u.rawQuery else body
  if !u.fragment.isEmpty then body ++ 35 :: escapedFragment u else body

end BM.Url
