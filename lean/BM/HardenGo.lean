import BM.Sanitize
/-
  The link-hardening block of `sanitizeAttrs` (`case "a", "area", "base", "link":` in sanitize.go)
  statement by statement, as the Go code runs it: the scan for hrefs, the loop over the attributes
  with its three flags and its temporary slice, the conditional replacement of the attribute list,
  the two appends, and the second loop for `noopener` with its flag.  `BM/Sanitize.lean` states
  what this computes (`Policy.hardenLinks`); `Proofs/HardenGo` proves the two equal for every
  policy, element and attribute list, so every C11 / C20 theorem about `hardenLinks` is a theorem
  about this loop.
-/
namespace BM
open Html

structure HLState where
  noFollowFound : Bool := false
  noReferrerFound : Bool := false
  targetBlankFound : Bool := false
  tmpAttrs : List Attr := []

/-- one iteration of `for _, htmlAttr := range cleanAttrs { … }` (the first loop) -/
def hlStep (isA addNoFollow addNoReferrer addTargetBlank : Bool) (s : HLState) (a : Attr) : HLState :=
  -- if htmlAttr.Key == "rel" && (addNoFollow || addNoReferrer) { … appended = true }
  let r : HLState × Attr × Bool :=
    if a.key == b!"rel" && (addNoFollow || addNoReferrer) then
      let v := a.val
      let v := if addNoFollow && !hasRelToken v b!"nofollow" then v ++ b!" nofollow" else v
      let v := if addNoReferrer && !hasRelToken v b!"noreferrer" then v ++ b!" noreferrer" else v
      ({ s with noFollowFound := addNoFollow, noReferrerFound := addNoReferrer,
                tmpAttrs := s.tmpAttrs ++ [⟨a.key, v⟩] }, ⟨a.key, v⟩, true)
    else (s, a, false)
  let s := r.1
  let a := r.2.1
  let appended := r.2.2
  -- if elementName == "a" && htmlAttr.Key == "target" { … }
  let r2 : HLState × Bool :=
    if isA && a.key == b!"target" then
      let s := if asciiEqualFold a.val b!"_blank" then { s with targetBlankFound := true } else s
      if addTargetBlank && !s.targetBlankFound then
        ({ s with targetBlankFound := true, tmpAttrs := s.tmpAttrs ++ [⟨a.key, b!"_blank"⟩] }, true)
      else (s, appended)
    else (s, appended)
  -- if !appended { tmpAttrs = append(tmpAttrs, htmlAttr) }
  if !r2.2 then { r2.1 with tmpAttrs := r2.1.tmpAttrs ++ [a] } else r2.1

/-- one iteration of the second loop (`noopener`) -/
def noOpenerStep (s : Bool × List Attr) (a : Attr) : Bool × List Attr :=
  if a.key == b!"rel" then
    if hasRelToken a.val b!"noopener" then (true, s.2 ++ [a])
    else (true, s.2 ++ [⟨a.key, a.val ++ b!" noopener"⟩])
  else (s.1, s.2 ++ [a])

/-- one iteration of the scan for hrefs: (hrefFound, externalLink) -/
def hrefScanStep (acc : Bool × Bool) (a : Attr) : Bool × Bool :=
  if a.key == b!"href" then
    match Url.parse a.val with
    | none => (true, acc.2)
    | some u => (true, acc.2 || !u.host.isEmpty)
  else acc

/-- the block, for an element in {a, area, base, link} -/
def Policy.hardenLinksGo (p : Policy) (el : Bytes) (cleanAttrs : List Attr) : List Attr :=
  -- first scan: hrefFound, externalLink
  let scan : Bool × Bool := cleanAttrs.foldl hrefScanStep (false, false)
  let hrefFound := scan.1
  let externalLink := scan.2
  if !hrefFound then cleanAttrs else
  let addNoFollow := p.requireNoFollow || (externalLink && p.requireNoFollowFullyQualifiedLinks)
  let addNoReferrer := p.requireNoReferrer || (externalLink && p.requireNoReferrerFullyQualifiedLinks)
  let addTargetBlank := externalLink && p.addTargetBlankToFullyQualifiedLinks
  let isA := el == b!"a"
  let s := cleanAttrs.foldl (hlStep isA addNoFollow addNoReferrer addTargetBlank) {}
  let cleanAttrs := if s.noFollowFound || s.noReferrerFound || s.targetBlankFound then s.tmpAttrs else cleanAttrs
  let cleanAttrs :=
    if (addNoFollow && !s.noFollowFound) || (addNoReferrer && !s.noReferrerFound) then
      let v : Bytes := if addNoFollow then b!"nofollow" else []
      let v := if addNoReferrer then (if !v.isEmpty then v ++ [32] else v) ++ b!"noreferrer" else v
      cleanAttrs ++ [⟨b!"rel", v⟩]
    else cleanAttrs
  let r : List Attr × Bool :=
    if isA && addTargetBlank && !s.targetBlankFound then (cleanAttrs ++ [⟨b!"target", b!"_blank"⟩], true)
    else (cleanAttrs, s.targetBlankFound)
  let cleanAttrs := r.1
  let targetBlankFound := r.2
  if targetBlankFound then
    let n := cleanAttrs.foldl noOpenerStep (false, [])
    if n.1 then n.2 else cleanAttrs ++ [⟨b!"rel", b!"noopener"⟩]
  else cleanAttrs

end BM
