import BM.Basic
/-
  Regular expressions as Go's `regexp/syntax` produces them after `Simplify()`,
  and an executable backtracking matcher with Go's `MatchString` / leftmost-first
  `FindStringIndex` semantics on the node kinds that occur in bluemonday.

  The translator (go/bmx, `reToSexp`) resolves case folding into explicit classes,
  so the AST has no fold flag.
-/
namespace BM

inductive Re where
  | empty                                   -- OpEmptyMatch
  | none                                    -- OpNoMatch
  | cls (ranges : List (Rune × Rune))       -- OpCharClass / single literal rune (incl. folded)
  | anyNL                                   -- OpAnyChar      (any rune)
  | any                                     -- OpAnyCharNotNL (any rune but \n)
  | bot | eot                               -- OpBeginText / OpEndText
  | bol | eol                               -- OpBeginLine / OpEndLine
  | cat (a b : Re)
  | alt (a b : Re)
  | star (a : Re) | plus (a : Re) | quest (a : Re)
  | starL (a : Re) | plusL (a : Re) | questL (a : Re)   -- non-greedy forms
  deriving Repr, BEq, Inhabited

namespace Re

def inRanges (r : Rune) : List (Rune × Rune) → Bool
  | [] => false
  | (lo, hi) :: rest => (lo ≤ r && r ≤ hi) || inRanges r rest

/-- Greedy star loop over a matcher `mr` for the body. `fuel` bounds the number of
    iterations; every iteration must consume at least one rune. -/
def starLoop {α} (mr : Option Rune → List Rune → (Option Rune → List Rune → Option α) → Option α) :
    Nat → Option Rune → List Rune → (Option Rune → List Rune → Option α) → Option α
  | 0, p, s, k => k p s
  | fuel + 1, p, s, k =>
    (mr p s fun p' s' => if s'.length < s.length then starLoop mr fuel p' s' k else .none)
      <|> k p s

/-- Non-greedy star loop: try the continuation first. -/
def starLoopL {α} (mr : Option Rune → List Rune → (Option Rune → List Rune → Option α) → Option α) :
    Nat → Option Rune → List Rune → (Option Rune → List Rune → Option α) → Option α
  | 0, p, s, k => k p s
  | fuel + 1, p, s, k =>
    k p s <|>
      (mr p s fun p' s' => if s'.length < s.length then starLoopL mr fuel p' s' k else .none)

/-- `m r prev s k`: match `r` at a position whose previous rune is `prev` (`none` = start
    of text) and whose remaining input is `s`; on success call the continuation with the
    new position. Alternatives are explored in Perl priority order. -/
def m {α} : Re → Option Rune → List Rune → (Option Rune → List Rune → Option α) → Option α
  | empty, p, s, k => k p s
  | none, _, _, _ => .none
  | cls rs, _, s, k => match s with
    | c :: cs => if inRanges c rs then k (some c) cs else .none
    | [] => .none
  | anyNL, _, s, k => match s with
    | c :: cs => k (some c) cs
    | [] => .none
  | any, _, s, k => match s with
    | c :: cs => if c != 10 then k (some c) cs else .none
    | [] => .none
  | bot, p, s, k => if p.isNone then k p s else .none
  | eot, p, s, k => if s.isEmpty then k p s else .none
  | bol, p, s, k => if p.isNone || p == some 10 then k p s else .none
  | eol, p, s, k => match s with
    | [] => k p s
    | c :: _ => if c == 10 then k p s else .none
  | cat a b, p, s, k => m a p s fun p' s' => m b p' s' k
  | alt a b, p, s, k => m a p s k <|> m b p s k
  | star a, p, s, k => starLoop (m a) (s.length + 1) p s k
  | plus a, p, s, k => m a p s fun p' s' => starLoop (m a) (s.length + 1) p' s' k
  | quest a, p, s, k => m a p s k <|> k p s
  | starL a, p, s, k => starLoopL (m a) (s.length + 1) p s k
  | plusL a, p, s, k => m a p s fun p' s' => starLoopL (m a) (s.length + 1) p' s' k
  | questL a, p, s, k => k p s <|> m a p s k

/-- Does `r` match starting exactly at this position (any end)? -/
def matchesAt (r : Re) (p : Option Rune) (s : List Rune) : Bool :=
  (m r p s fun _ _ => some ()).isSome

/-- Unanchored search over all start positions (Go `MatchString` on decoded runes). -/
def searchFrom (r : Re) : Option Rune → List Rune → Bool
  | p, [] => matchesAt r p []
  | p, s@(c :: cs) => matchesAt r p s || searchFrom r (some c) cs

def search (r : Re) (s : List Rune) : Bool := searchFrom r .none s

/-- `MatchString` on a byte string. -/
def matchBytes (r : Re) (s : Bytes) : Bool := search r (decodeRunes s)

/-- Whole-string match of `r` (used on the spec side). -/
def fullMatch (r : Re) (s : List Rune) : Bool :=
  (m r .none s fun _ s' => if s'.isEmpty then some () else .none).isSome

/-- Leftmost-first match: number of runes skipped and number of runes matched. -/
def findFrom (r : Re) : Nat → Option Rune → List Rune → Option (Nat × Nat)
  | i, p, [] => (m r p [] fun _ _ => some ()).map fun _ => (i, 0)
  | i, p, s@(c :: cs) =>
    match m r p s fun _ s' => some s'.length with
    | some rem => some (i, s.length - rem)
    | .none => findFrom r (i + 1) (some c) cs

def find (r : Re) (s : List Rune) : Option (Nat × Nat) := findFrom r 0 .none s

end Re

/-! ### S-expression syntax used by the translator and the line protocol

  `E` empty, `N` none, `A` anyNL, `D` any (dot), `^` bot, `$` eot, `b` bol, `e` eol,
  `C<lo>-<hi>,<lo>-<hi>…;` class with hex bounds, `.xy` cat, `|xy` alt, `*x` star,
  `+x` plus, `?x` quest, `sx` `px` `qx` their non-greedy forms — prefix notation, no separators needed.
-/

namespace Re

def parseHexNat : Bytes → Nat → Nat × Bytes
  | [], acc => (acc, [])
  | c :: cs, acc => match hexVal c with
    | some v => parseHexNat cs (acc * 16 + v)
    | .none => (acc, c :: cs)

def parseRanges : Nat → Bytes → List (Rune × Rune) → Option (List (Rune × Rune) × Bytes)
  | 0, _, _ => .none
  | _, [], _ => .none
  | fuel + 1, c :: cs, acc =>
    if c == 59 then some (acc.reverse, cs)          -- ';'
    else
      let s := if c == 44 then cs else c :: cs      -- ','
      let (lo, r1) := parseHexNat s 0
      match r1 with
      | 45 :: r2 =>                                  -- '-'
        let (hi, r3) := parseHexNat r2 0
        parseRanges fuel r3 ((lo, hi) :: acc)
      | _ => .none

def parseAux : Nat → Bytes → Option (Re × Bytes)
  | 0, _ => .none
  | _, [] => .none
  | fuel + 1, c :: cs =>
    if c == 69 then some (empty, cs)
    else if c == 78 then some (none, cs)
    else if c == 65 then some (anyNL, cs)
    else if c == 68 then some (any, cs)
    else if c == 94 then some (bot, cs)
    else if c == 36 then some (eot, cs)
    else if c == 98 then some (bol, cs)
    else if c == 101 then some (eol, cs)
    else if c == 67 then (parseRanges (cs.length + 1) cs []).map fun (rs, r) => (cls rs, r)
    else if c == 46 then
      match parseAux fuel cs with
      | some (a, r1) => (parseAux fuel r1).map fun (b, r2) => (cat a b, r2)
      | .none => .none
    else if c == 124 then
      match parseAux fuel cs with
      | some (a, r1) => (parseAux fuel r1).map fun (b, r2) => (alt a b, r2)
      | .none => .none
    else if c == 42 then (parseAux fuel cs).map fun (a, r) => (star a, r)
    else if c == 43 then (parseAux fuel cs).map fun (a, r) => (plus a, r)
    else if c == 63 then (parseAux fuel cs).map fun (a, r) => (quest a, r)
    else if c == 115 then (parseAux fuel cs).map fun (a, r) => (starL a, r)
    else if c == 112 then (parseAux fuel cs).map fun (a, r) => (plusL a, r)
    else if c == 113 then (parseAux fuel cs).map fun (a, r) => (questL a, r)
    else .none

def parse (s : Bytes) : Option Re :=
  match parseAux (s.length + 1) s with
  | some (r, []) => some r
  | _ => .none

end Re
end BM
