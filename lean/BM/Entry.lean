import BM.Sanitize
/-
  The four entry points of sanitize.go as they are written: `sanitize(r, w)` funnels everything;
  `SanitizeReaderToWriter` is that funnel, `SanitizeReader` runs it into a buffer and hands out an
  *empty* buffer if it returned an error, `Sanitize` / `SanitizeBytes` return blank input as it is
  and otherwise call `SanitizeReader` on a reader over the input.  The source is a reader that
  delivers some bytes and then ends with `io.EOF` or with another error; the destination is the
  fault-injected writer of `feed`.
-/
namespace BM
open Html

/-- how the source reader ends -/
inductive ReadEnd where
  | eof      -- io.EOF
  | failed   -- any other error (also one that wraps io.EOF)
  deriving DecidableEq, Repr

/-- `p.sanitize(r, w)` / `SanitizeReaderToWriter`: the writes the destination accepted and whether
    an error is returned.  A failed write returns at once; the reader's error is looked at when the
    tokenizer has used up what was delivered (`ErrorToken`): `io.EOF` is success. -/
def Policy.sanitizeRW (p : Policy) (delivered : Bytes) (e : ReadEnd) (failAt : Option Nat) (permanent : Bool) :
    List Bytes × Bool :=
  let ws := (p.ensureInit.run {} (tokenize delivered)).1
  let r := feed failAt permanent 0 ws
  (r.1, r.2.2 || decide (e = .failed))

/-- `SanitizeReader` (`sanitizeWithBuff`): the buffer, emptied when the funnel returned an error -/
def Policy.sanitizeReaderM (p : Policy) (delivered : Bytes) (e : ReadEnd) : Bytes :=
  let r := p.sanitizeRW delivered e none false
  if r.2 then [] else r.1.flatten

/-- `Sanitize` / `SanitizeBytes` -/
def Policy.sanitizeEntry (p : Policy) (input : Bytes) : Bytes :=
  if (Css.trimSpace input).isEmpty then input else p.sanitizeReaderM input .eof

end BM
