/-
  Basic byte-string vocabulary shared by the whole model.
  Core Lean only (the driver is compiled to a native executable).
-/
namespace BM

abbrev Bytes := List UInt8

open Lean in
/-- `b!"abc"` expands at elaboration time to the explicit list `[97, 98, 99]`
    (so that `decide`/`rfl` can evaluate model functions on literals). -/
macro:max "b!" s:str : term => do
  let bs := s.getString.toUTF8.toList
  let elems ← bs.toArray.mapM fun b => `(($(Syntax.mkNumLit (toString b.toNat)) : UInt8))
  `(([$elems,*] : List UInt8))

def strBytes (s : String) : Bytes := s.toUTF8.toList

/-- ASCII whitespace as understood by the x/net/html tokenizer: space, LF, CR, TAB, FF. -/
@[inline] def isWs (c : UInt8) : Bool := c == 32 || c == 10 || c == 13 || c == 9 || c == 12

@[inline] def isUpper (c : UInt8) : Bool := 65 ≤ c && c ≤ 90
@[inline] def isLowerA (c : UInt8) : Bool := 97 ≤ c && c ≤ 122
@[inline] def isAlpha (c : UInt8) : Bool := isUpper c || isLowerA c
@[inline] def isDigit (c : UInt8) : Bool := 48 ≤ c && c ≤ 57
@[inline] def isAlnum (c : UInt8) : Bool := isAlpha c || isDigit c

/-- ASCII-only lower-casing (x/net/html `lower`). -/
@[inline] def lowerByte (c : UInt8) : UInt8 := if isUpper c then c + 32 else c
def lowerAscii (s : Bytes) : Bytes := s.map lowerByte

def hexDigit (n : Nat) : UInt8 :=
  if n < 10 then (48 + n).toUInt8 else (87 + n).toUInt8

def toHex : Bytes → Bytes
  | [] => []
  | c :: cs => hexDigit (c.toNat / 16) :: hexDigit (c.toNat % 16) :: toHex cs

def hexVal (c : UInt8) : Option Nat :=
  if 48 ≤ c && c ≤ 57 then some (c.toNat - 48)
  else if 97 ≤ c && c ≤ 102 then some (c.toNat - 87)
  else if 65 ≤ c && c ≤ 70 then some (c.toNat - 55)
  else none

def fromHex : Bytes → Option Bytes
  | [] => some []
  | [_] => none
  | a :: b :: cs =>
    match hexVal a, hexVal b, fromHex cs with
    | some x, some y, some r => some ((x * 16 + y).toUInt8 :: r)
    | _, _, _ => none

def bytesToString (b : Bytes) : String :=
  String.ofList (b.map fun c => Char.ofNat c.toNat)

def hexStr (b : Bytes) : String := bytesToString (toHex b)

/-- `isPrefixOf`-style helper returning the remainder. -/
def stripPrefix? : Bytes → Bytes → Option Bytes
  | [], s => some s
  | _ :: _, [] => none
  | p :: ps, c :: cs => if p == c then stripPrefix? ps cs else none

def hasPrefix (p s : Bytes) : Bool := (stripPrefix? p s).isSome

def hasSuffix (suf s : Bytes) : Bool := hasPrefix suf.reverse s.reverse

/-- substring test (`strings.Contains`). -/
def containsSub (sub : Bytes) : Bytes → Bool
  | [] => sub.isEmpty
  | s@(_ :: cs) => hasPrefix sub s || containsSub sub cs

def joinBytes (sep : Bytes) : List Bytes → Bytes
  | [] => []
  | [x] => x
  | x :: xs => x ++ sep ++ joinBytes sep xs

/-! ### UTF-8 (Go semantics: an invalid byte decodes as U+FFFD of width 1) -/

abbrev Rune := Nat

def runeError : Rune := 0xFFFD

/-- Go's `utf8.DecodeRune`: returns the rune and the number of bytes consumed (≥ 1 on
    non-empty input). Invalid or short sequences give `(0xFFFD, 1)`. -/
def decodeRune : Bytes → Rune × Nat
  | [] => (runeError, 0)
  | b0 :: rest =>
    let n0 := b0.toNat
    if n0 < 0x80 then (n0, 1)
    else if n0 < 0xC2 then (runeError, 1)
    else if n0 < 0xE0 then
      match rest with
      | b1 :: _ =>
        let n1 := b1.toNat
        if 0x80 ≤ n1 && n1 ≤ 0xBF then ((n0 % 32) * 64 + n1 % 64, 2) else (runeError, 1)
      | _ => (runeError, 1)
    else if n0 < 0xF0 then
      match rest with
      | b1 :: b2 :: _ =>
        let n1 := b1.toNat; let n2 := b2.toNat
        let lo := if n0 == 0xE0 then 0xA0 else 0x80
        let hi := if n0 == 0xED then 0x9F else 0xBF
        if lo ≤ n1 && n1 ≤ hi && 0x80 ≤ n2 && n2 ≤ 0xBF then
          ((n0 % 16) * 4096 + (n1 % 64) * 64 + n2 % 64, 3)
        else (runeError, 1)
      | _ => (runeError, 1)
    else if n0 < 0xF5 then
      match rest with
      | b1 :: b2 :: b3 :: _ =>
        let n1 := b1.toNat; let n2 := b2.toNat; let n3 := b3.toNat
        let lo := if n0 == 0xF0 then 0x90 else 0x80
        let hi := if n0 == 0xF4 then 0x8F else 0xBF
        if lo ≤ n1 && n1 ≤ hi && 0x80 ≤ n2 && n2 ≤ 0xBF && 0x80 ≤ n3 && n3 ≤ 0xBF then
          ((n0 % 8) * 262144 + (n1 % 64) * 4096 + (n2 % 64) * 64 + n3 % 64, 4)
        else (runeError, 1)
      | _ => (runeError, 1)
    else (runeError, 1)

/-- Go's `utf8.EncodeRune` (surrogates and out-of-range become U+FFFD). -/
def encodeRune (r : Rune) : Bytes :=
  let r := if (0xD800 ≤ r && r ≤ 0xDFFF) || r > 0x10FFFF then runeError else r
  if r < 0x80 then [r.toUInt8]
  else if r < 0x800 then [(0xC0 + r / 64).toUInt8, (0x80 + r % 64).toUInt8]
  else if r < 0x10000 then
    [(0xE0 + r / 4096).toUInt8, (0x80 + (r / 64) % 64).toUInt8, (0x80 + r % 64).toUInt8]
  else
    [(0xF0 + r / 262144).toUInt8, (0x80 + (r / 4096) % 64).toUInt8,
     (0x80 + (r / 64) % 64).toUInt8, (0x80 + r % 64).toUInt8]

/-- Decode a whole byte string the way `for _, r := range s` does. -/
def decodeRunesAux : Nat → Bytes → List Rune
  | 0, _ => []
  | _, [] => []
  | fuel + 1, s =>
    let (r, n) := decodeRune s
    r :: decodeRunesAux fuel (s.drop n)

def decodeRunes (s : Bytes) : List Rune := decodeRunesAux s.length s

def encodeRunes (rs : List Rune) : Bytes := rs.flatMap encodeRune

end BM
