import BM.Sanitize
/-
  Spec side: decidable oracles, one per property, written only in terms of
  * what a tokenizer reads back from the output (`Html.tokenize`),
  * what the policy *says* (its tables, read directly),
  * independent notions (WHATWG-style scheme extraction, rel tokens, HTML5 void list …).
  None of them calls the filter model (`Policy.step`, `sanitizeAttrs`, …).
  The same functions are (a) what the theorems in BM/Props are about and (b) evaluated by
  the driver on the *implementation's* output for every generated case.
-/
namespace BM.Spec
open BM BM.Html

/-- the policy allows this element by name or by pattern -/
def allowsElement (p : Policy) (el : Bytes) : Bool :=
  p.elsAndAttrs.contains el || p.elsMatchingAndAttrs.any fun (r, _) => r.test el

def isTag (t : Token) : Bool := t.tt == .start || t.tt == .end_ || t.tt == .selfClosing

def rawTextSix : List Bytes :=
  [b!"iframe", b!"noembed", b!"noframes", b!"noscript", b!"plaintext", b!"xmp"]

def textOf (ts : List Token) : Bytes := (ts.filter (·.tt == .text)).flatMap (·.data)

/-! ### C01 -/

def tokenOkC01 (p : Policy) (t : Token) : Bool :=
  match t.tt with
  | .text => true
  | .doctype => false
  | .comment => p.allowComments
  | _ => allowsElement p t.data

/-- every tag the re-reader finds names an allowed element; comments only if allowed; no doctype -/
def oracleC01 (p : Policy) (out : Bytes) : Bool := (tokenize out).all (tokenOkC01 p)

/-! ### C05 -/

def isScriptStyle (n : Bytes) : Bool := n == b!"script" || n == b!"style"

/-- raw text bodies of script/style elements of the input (the text token that directly
    follows a script/style start or self-closing tag) -/
def hiddenBodies : List Token → List Bytes
  | t1 :: t2 :: rest =>
    if (t1.tt == .start || t1.tt == .selfClosing) && isScriptStyle t1.data && t2.tt == .text then
      t2.data :: hiddenBodies (t2 :: rest)
    else hiddenBodies (t2 :: rest)
  | _ => []

/-- marker words `ZQ<digits>` occurring in a byte string -/
def markersAux : Nat → Bytes → List Bytes
  | 0, _ => []
  | _, [] => []
  | fuel + 1, c :: cs =>
    match c :: cs with
    | 90 :: 81 :: rest =>
      let ds := rest.takeWhile isDigit
      if ds.isEmpty then markersAux fuel cs else (90 :: 81 :: ds) :: markersAux fuel cs
    | _ => markersAux fuel cs

def markers (s : Bytes) : List Bytes := markersAux (s.length + 1) s

/-- no script/style tag is re-read from the output, and no marker planted in a script/style
    body of the input occurs in the output -/
def oracleC05 (inp out : Bytes) : Bool :=
  (tokenize out).all (fun t => !(isTag t && isScriptStyle t.data)) &&
  ((hiddenBodies (tokenize inp)).flatMap markers).all fun m =>
    -- the marker must not survive unless it also occurs outside hidden bodies
    !containsSub m out

/-! ### C02 -/

def isUrlPosition (el k : Bytes) : Bool :=
  (k == b!"href" && (el == b!"a" || el == b!"area" || el == b!"base" || el == b!"link")) ||
  (k == b!"cite" && (el == b!"blockquote" || el == b!"del" || el == b!"ins" || el == b!"q")) ||
  (k == b!"src" && (el == b!"audio" || el == b!"embed" || el == b!"iframe" || el == b!"img" ||
     el == b!"input" || el == b!"script" || el == b!"source" || el == b!"track" || el == b!"video"))

/-- documented shape of a data attribute: `data-` + at least one character, nothing upper
    case, no semicolon, not `data-xml…` -/
def wellFormedDataAttr (k : Bytes) : Bool :=
  match stripPrefix? b!"data-" k with
  | none => false
  | some rest =>
    -- the library documents `data-xml*` (a non-empty tail after xml) as invalid; today's HTML
    -- standard has no xml restriction at all, so `data-xml` itself is well formed either way
    !rest.isEmpty && !(hasPrefix b!"xml" rest && rest.length > 3) && rest.all fun c => !isUpper c && c != 59

def anyLinkOption (p : Policy) : Bool :=
  p.requireNoFollow || p.requireNoFollowFullyQualifiedLinks || p.requireNoReferrer ||
  p.requireNoReferrerFullyQualifiedLinks || p.addTargetBlankToFullyQualifiedLinks

def isHrefEl (el : Bytes) : Bool := el == b!"a" || el == b!"area" || el == b!"base" || el == b!"link"
def isCoEl (el : Bytes) : Bool :=
  el == b!"audio" || el == b!"img" || el == b!"link" || el == b!"script" || el == b!"video"

/-- attribute the policy instructs the sanitiser to add or force -/
def forcedAttr (p : Policy) (el k : Bytes) : Bool :=
  ((k == b!"rel" || k == b!"target") && anyLinkOption p && isHrefEl el) ||
  (k == b!"crossorigin" && p.requireCrossOriginAnonymous && isCoEl el) ||
  (k == b!"sandbox" && p.requireSandboxOnIFrame.isSome && el == b!"iframe")

/-- the rules the policy registered for attribute `k` on element `el`: the element's own
    rules if it was added by name (these shadow pattern rules, as documented), otherwise
    those of every matching element pattern; plus the global ones -/
def rulesFor (p : Policy) (el k : Bytes) : List AttrPolicy :=
  (match p.elsAndAttrs.get? el with
   | some rules => (rules.get? k).getD []
   | none => (p.elsMatchingAndAttrs.filter fun (r, _) => r.test el).flatMap fun (_, rules) =>
       (rules.get? k).getD []) ++
  (p.globalAttrs.get? k).getD []

def ruleAccepts (aps : List AttrPolicy) (v : Bytes) : Bool :=
  aps.any fun ap => match ap with | none => true | some r => r.test v

def hasStyleRules (p : Policy) (el : Bytes) : Bool :=
  !p.globalStyles.isEmpty ||
  (match p.elsAndStyles.get? el with | some s => !s.isEmpty | none => false) ||
  p.elsMatchingAndStyles.any fun (r, v) => r.test el && !v.isEmpty

/-- is attribute `(k, v)` on element `el` justified by the policy?  `origVals` are the
    values the input carried for `k` on tags of this element (URL attributes are judged on
    the decoded input value, before re-serialisation). -/
def attrJustified (p : Policy) (el k v : Bytes) (origVals : List Bytes) : Bool :=
  (p.allowDataAttributes && wellFormedDataAttr k) ||
  (k == b!"style" && hasStyleRules p el) ||
  forcedAttr p el k ||
  (let aps := rulesFor p el k
   if p.requireParseableURLs && isUrlPosition el k then
     ruleAccepts aps v || origVals.any (ruleAccepts aps)
   else ruleAccepts aps v)

def allowNoAttrsSpec (p : Policy) (el : Bytes) : Bool :=
  p.setOfElementsAllowedWithoutAttrs.contains el ||
  p.setOfElementsMatchingAllowedWithoutAttrs.any (·.test el)

def inputValsFor (inp : List Token) (el k : Bytes) : List Bytes :=
  (inp.filter fun t => isTag t && t.data == el).flatMap fun t =>
    (t.attrs.filter (·.key == k)).map (·.val)

def oracleC02 (p : Policy) (inp out : Bytes) : Bool :=
  let it := tokenize inp
  (tokenize out).all fun t =>
    if t.tt == .start || t.tt == .selfClosing then
      (if t.attrs.isEmpty then allowNoAttrsSpec p t.data else true) &&
      t.attrs.all fun a => attrJustified p t.data a.key a.val (inputValsFor it t.data a.key)
    else true

/-! ### C03: what a browser makes of a URL attribute value -/

def isC0OrSpace (c : UInt8) : Bool := c ≤ 32

inductive UrlClass where
  | scheme (s : Bytes)     -- lower-cased
  | relative
  deriving Repr, BEq, DecidableEq

/-- WHATWG URL parser, scheme start / scheme states: strip leading and trailing C0-or-space,
    delete tab and newlines, then `ALPHA *(ALPHA / DIGIT / + / - / .) ":"`. -/
def classifyUrl (v : Bytes) : UrlClass :=
  let v := (v.dropWhile isC0OrSpace).reverse.dropWhile isC0OrSpace |>.reverse
  let v := v.filter fun c => c != 9 && c != 10 && c != 13
  match v with
  | c :: _ =>
    if isAlpha c then
      let s := v.takeWhile fun c => isAlnum c || c == 43 || c == 45 || c == 46
      if (v.drop s.length).head? == some 58 then .scheme (lowerAscii s) else .relative
    else .relative
  | [] => .relative

def hasWsOrCtl (v : Bytes) : Bool := v.any fun c => c ≤ 32 || c == 0x7f

/-- is a surviving URL value acceptable under the policy? -/
def urlOk (p : Policy) (v : Bytes) : Bool :=
  match classifyUrl v with
  | .scheme s =>
    (match p.allowURLSchemes.get? s with
     | some checks =>
       -- the registered checks judged the URL as parsed from the input; on the output we can
       -- re-judge only what parses again
       checks.isEmpty || (match Url.parse v with
         | some u => checks.any (· u)
         | none => true)
     | none => p.allowURLSchemeRegexps.any (·.test s)) &&
    (!hasWsOrCtl v || s == b!"data")
  | .relative => p.allowRelativeURLs && !hasWsOrCtl v

/-- the results of the src rewriter `f` on the src values of the input's `el` tags: each value as
    the policy's URL check hands it on (trimmed, normalised), parsed, rewritten, printed -/
def rewrittenSrcs (p : Policy) (f : UrlRewriter) (inp : Bytes) (el : Bytes) : List Bytes :=
  (tokenize inp).flatMap fun t =>
    if (t.tt == .start || t.tt == .selfClosing) && t.data == el then
      t.attrs.filterMap fun a =>
        if a.key == b!"src" then
          (p.validURL a.val).bind fun u => (Url.parse u).map fun parsed => Url.print (f parsed)
        else none
    else []

def oracleC03 (p : Policy) (inp out : Bytes) : Bool :=
  !p.requireParseableURLs ||
  (tokenize out).all fun t =>
    if t.tt == .start || t.tt == .selfClosing then
      t.attrs.all fun a =>
        !isUrlPosition t.data a.key ||
        -- with a src rewriter installed every surviving src is the rewriter's result for one of the
        -- src values the input gave to an element of that name, whatever that result is
        (match p.srcRewriter with
         | some f => if a.key == b!"src" then (rewrittenSrcs p f inp t.data).contains a.val else urlOk p a.val
         | none => urlOk p a.val)
    else true

/-! ### C06 -/

def noSpaces (s : Bytes) : Bytes := s.filter (· != 32)

def tagCount (ts : List Token) : Nat := (ts.filter isTag).length

/-- is the case inside the class C06 speaks about? -/
def inClassC06 (p : Policy) (inp : Bytes) : Bool :=
  !p.allowUnsafe &&
  rawTextSix.all (fun n => !allowsElement p n) &&
  (tokenize inp).all fun t =>
    !isTag t || !(isScriptStyle t.data || p.setOfElementsToSkipContent.contains t.data)

def oracleC06 (p : Policy) (inp out : Bytes) : Bool :=
  !inClassC06 p inp ||
  (let ti := tokenize inp
   let to := tokenize out
   if p.addSpaces then
     noSpaces (textOf to) == noSpaces (textOf ti) &&
     (textOf to).length + tagCount to == (textOf ti).length + tagCount ti
   else textOf to == textOf ti)

/-! ### well-nestedness (C08, C09) -/

def voidElements : List Bytes :=
  [b!"area", b!"base", b!"br", b!"col", b!"embed", b!"hr", b!"img", b!"input", b!"link", b!"meta",
   b!"param", b!"source", b!"track", b!"wbr"]

/-- every non-void element is opened and closed properly -/
def wellNestedAux : List Bytes → List Token → Bool
  | stack, [] => stack.isEmpty
  | stack, t :: ts =>
    match t.tt with
    | .start => if voidElements.contains t.data then wellNestedAux stack ts
                else wellNestedAux (t.data :: stack) ts
    | .end_ => match stack with
      | top :: rest => top == t.data && wellNestedAux rest ts
      | [] => false
    | _ => wellNestedAux stack ts

def wellNested (ts : List Token) : Bool := wellNestedAux [] ts

def oracleC09 (inp out : Bytes) : Bool :=
  !wellNested (tokenize inp) || wellNested (tokenize out)

/-- text of the input that lies outside every disallowed skip-content element (and outside
    script/style), for a well-nested token list -/
def visibleTextAux (p : Policy) : Nat → List Bytes → List Token → Bytes
  | _, _, [] => []
  | depth, stack, t :: ts =>
    let hides (n : Bytes) : Bool := !allowsElement p n && p.setOfElementsToSkipContent.contains n
    match t.tt with
    | .start =>
      if voidElements.contains t.data then visibleTextAux p depth stack ts
      else visibleTextAux p (if hides t.data then depth + 1 else depth) (t.data :: stack) ts
    | .end_ =>
      visibleTextAux p (if hides t.data then depth - 1 else depth) stack.tail ts
    | .text =>
      (if depth == 0 && !(match stack with | top :: _ => isScriptStyle top | [] => false)
       then t.data else []) ++ visibleTextAux p depth stack ts
    | _ => visibleTextAux p depth stack ts

/-- class of C08: well-nested input, no self-closing tags on non-void elements, no void
    element in the skip set, nothing that turns the re-read text raw -/
def inClassC08 (p : Policy) (inp : Bytes) : Bool :=
  let ti := tokenize inp
  -- AllowUnsafe only matters when script / style are allowed or their content is kept: otherwise
  -- they are ordinary disallowed skip-content elements
  (!p.allowUnsafe || [b!"script", b!"style"].all fun n =>
      !allowsElement p n && p.setOfElementsToSkipContent.contains n) &&
  !p.addSpaces && wellNested ti &&
  ti.all (fun t => t.tt != .selfClosing) &&
  (voidElements.all fun v => !p.setOfElementsToSkipContent.contains v) &&
  ti.all fun t => !(isTag t && isRawTagName t.data && allowsElement p t.data)

def oracleC08 (p : Policy) (inp out : Bytes) : Bool :=
  !inClassC08 p inp ||
  textOf (tokenize out) == visibleTextAux p 0 [] (tokenize inp)

/-! ### C11 / C12 -/

/-- ASCII-whitespace separated tokens -/
def splitWsAux : Bytes → Bytes → List Bytes
  | [], cur => if cur.isEmpty then [] else [cur.reverse]
  | c :: cs, cur =>
    if isWs c then (if cur.isEmpty then [] else [cur.reverse]) ++ splitWsAux cs []
    else splitWsAux cs (c :: cur)

def relTokens (v : Bytes) : List Bytes := splitWsAux v []

def hasToken (tok : Bytes) (v : Bytes) : Bool := (relTokens v).any (lowerAscii · == tok)

def countToken (tok : Bytes) (v : Bytes) : Nat := ((relTokens v).filter (lowerAscii · == tok)).length

def firstAttr (t : Token) (k : Bytes) : Option Bytes := (t.attrs.find? (·.key == k)).map (·.val)

def isSpecialScheme (s : Bytes) : Bool :=
  s == b!"http" || s == b!"https" || s == b!"ftp" || s == b!"ws" || s == b!"wss" || s == b!"file"

/-- does a browser see an authority in this href?  A scheme followed by `//` (for the special
    schemes a backslash counts as a slash), or a scheme-relative reference. -/
def hostQualified (v : Bytes) : Bool :=
  let v := (v.dropWhile isC0OrSpace).filter fun c => c != 9 && c != 10 && c != 13
  -- `//` (for special schemes and relative references: any run of two or more slashes, a
  -- backslash counting as a slash) followed by the first byte of a non-empty host
  let authority (special : Bool) (rest : Bytes) : Bool :=
    let isSl (c : UInt8) : Bool := c == 47 || (c == 92 && special)
    match rest with
    | a :: b :: r =>
      isSl a && isSl b &&
      (match (if special then r.dropWhile isSl else r) with
       | c :: _ => !(c == 47 || c == 92 || c == 63 || c == 35 || c == 58 || c == 64)
       | [] => false)
    | _ => false
  match classifyUrl v with
  | .scheme s => authority (isSpecialScheme s) (v.drop (s.length + 1))
  | .relative => authority true v

def oracleC11 (p : Policy) (out : Bytes) : Bool :=
  (tokenize out).all fun t =>
    if !(t.tt == .start || t.tt == .selfClosing) then true else
    match firstAttr t b!"href" with
    | none => true
    | some href =>
      if !(t.data == b!"a" || t.data == b!"area" || t.data == b!"link") then true else
      let rel := (firstAttr t b!"rel").getD []
      let ext := hostQualified href
      let needNF := p.requireNoFollow || (ext && p.requireNoFollowFullyQualifiedLinks)
      let needNR := p.requireNoReferrer || (ext && p.requireNoReferrerFullyQualifiedLinks)
      let target := firstAttr t b!"target"
      let blank := match target with | some v => lowerAscii v == b!"_blank" | none => false
      (!needNF || hasToken b!"nofollow" rel) &&
      (!needNR || hasToken b!"noreferrer" rel) &&
      (!(t.data == b!"a" && ext && p.addTargetBlankToFullyQualifiedLinks) || blank) &&
      (!(t.data == b!"a" && anyLinkOption p && blank) || hasToken b!"noopener" rel)

def oracleC12 (p : Policy) (out : Bytes) : Bool :=
  (tokenize out).all fun t =>
    if !(t.tt == .start || t.tt == .selfClosing) || t.attrs.isEmpty then true else
    (!(p.requireCrossOriginAnonymous && isCoEl t.data) ||
      ((t.attrs.any (·.key == b!"crossorigin")) &&
       (t.attrs.all fun a => a.key != b!"crossorigin" || a.val == b!"anonymous"))) &&
    (match p.requireSandboxOnIFrame with
     | some allowed =>
       t.data != b!"iframe" ||
       ((t.attrs.any (·.key == b!"sandbox")) &&
        t.attrs.all fun a => a.key != b!"sandbox" ||
          (let toks := relTokens a.val
           toks.all allowed.contains && toks.eraseDups.length == toks.length))
     | none => true)

end BM.Spec
