import BM.Spec.Oracles
import BM.Gen.Unicode
/-
  Spec side, second part: documented vocabularies and value forms (C04, C07, C18, C19, C20).
  Hand-written from the README, the comments in policies.go / helpers.go and the
  statements of the properties; independent of the filter model.
-/
namespace BM.Spec
open BM BM.Html

/-- split a byte string at single spaces (kernel-reducible, so vocabularies can be used in proofs) -/
def splitSp : Bytes → Bytes → List Bytes
  | [], cur => [cur.reverse]
  | c :: cs, cur => if c == 32 then cur.reverse :: splitSp cs [] else splitSp cs (c :: cur)

def w (b : Bytes) : List Bytes := splitSp b []

/-! ### C04: the documented UGC vocabulary -/

def ugcElements : List Bytes :=
  w b!"article aside details figure section summary h1 h2 h3 h4 h5 h6 hgroup blockquote br div hr p span wbr" ++
  w b!"a map area img abbr acronym cite code dfn em figcaption mark s samp strong sub sup var q time" ++
  w b!"b i pre small strike tt u bdi bdo rp rt ruby del ins ol ul li dl dt dd" ++
  w b!"table caption col colgroup thead tr td th tbody tfoot meter progress"

def ugcGlobalAttrs : List Bytes := w b!"dir lang id title"

/-- (attribute, elements) pairs of the documented UGC vocabulary -/
def ugcAttrTable : List (Bytes × List Bytes) :=
  [(b!"open", w b!"details"), (b!"cite", w b!"blockquote q del ins"), (b!"href", w b!"a area"),
   (b!"name", w b!"map"), (b!"alt", w b!"area img"), (b!"coords", w b!"area"), (b!"rel", w b!"area a"),
   (b!"shape", w b!"area"), (b!"usemap", w b!"img"), (b!"datetime", w b!"time del ins"),
   (b!"dir", w b!"bdi bdo"), (b!"type", w b!"ol ul li"), (b!"value", w b!"li meter progress"),
   (b!"height", w b!"table col colgroup td th img"), (b!"width", w b!"table col colgroup td th img"),
   (b!"summary", w b!"table"), (b!"align", w b!"col colgroup thead tr td th tbody tfoot img"),
   (b!"span", w b!"col colgroup"), (b!"valign", w b!"col colgroup thead tr td th tbody tfoot"),
   (b!"abbr", w b!"td th"), (b!"colspan", w b!"td th"), (b!"rowspan", w b!"td th"), (b!"headers", w b!"td th"),
   (b!"scope", w b!"td th"), (b!"nowrap", w b!"td th"),
   (b!"min", w b!"meter"), (b!"max", w b!"meter progress"), (b!"low", w b!"meter"), (b!"high", w b!"meter"),
   (b!"optimum", w b!"meter"), (b!"src", w b!"img")]

def ugcAttrOk (el k : Bytes) : Bool :=
  ugcGlobalAttrs.contains k ||
  (match ugcAttrTable.find? (·.1 == k) with
   | some (_, els) => els.contains el
   | none => false)

def ugcSchemeOk (v : Bytes) : Bool :=
  match classifyUrl v with
  | .scheme s => s == b!"http" || s == b!"https" || s == b!"mailto"
  | .relative => true

/-- the output of UGCPolicy, re-read: only documented elements and attributes, only
    http / https / mailto / relative URLs, no comment, no doctype -/
def oracleC04ugc (out : Bytes) : Bool :=
  (tokenize out).all fun t =>
    match t.tt with
    | .text => true
    | .comment => false
    | .doctype => false
    | _ =>
      ugcElements.contains t.data &&
      t.attrs.all fun a =>
        ugcAttrOk t.data a.key && !hasPrefix b!"on" a.key && a.key != b!"style" &&
        (!isUrlPosition t.data a.key || ugcSchemeOk a.val)

def oracleC04strict (out : Bytes) : Bool := out.all fun c => c != 60 && c != 62

/-! ### C20: the class of policies for which re-sanitising must be a no-op -/

def rewrittenAttrs : List Bytes :=
  [b!"href", b!"src", b!"cite", b!"rel", b!"target", b!"crossorigin", b!"sandbox"]

def rulesHavePatternOnRewritten (rules : AttrRules) : Bool :=
  rules.any fun (k, aps) => rewrittenAttrs.contains k && aps.any (·.isSome)

def inClassC20 (p : Policy) : Bool :=
  !p.allowUnsafe && !p.allowComments && p.srcRewriter.isNone &&
  -- element patterns: none of the ten raw-text names may be matched
  ([b!"iframe", b!"noembed", b!"noframes", b!"noscript", b!"plaintext", b!"script", b!"style",
    b!"textarea", b!"title", b!"xmp"].all fun n => !allowsElement p n) &&
  !rulesHavePatternOnRewritten p.globalAttrs &&
  (p.elsAndAttrs.all fun (_, r) => !rulesHavePatternOnRewritten r) &&
  (p.elsMatchingAndAttrs.all fun (_, r) => !rulesHavePatternOnRewritten r)


/-! ### C20: the priority of a kept declaration -/

/-- delete every `!important` (with the white space before it and inside it, any letter case) from a byte string -/
def dropImportantAux : Nat → Bytes → Bytes
  | 0, s => s
  | _, [] => []
  | fuel + 1, c :: cs =>
    let afterWs := (c :: cs).dropWhile fun x => x == 32 || x == 9 || x == 10
    match afterWs with
    | 33 :: rest =>
      let rest' := rest.dropWhile fun x => x == 32 || x == 9 || x == 10
      if lowerAscii (rest'.take 9) == b!"important" then dropImportantAux fuel (rest'.drop 9)
      else c :: dropImportantAux fuel cs
    | _ => c :: dropImportantAux fuel cs

def dropImportant (s : Bytes) : Bytes := dropImportantAux (s.length + 1) s

/-! ### C07: conforming documents -/

/-- rules that apply to attribute `k` of element `el` with the documented shadowing -/
def acceptsAttr (p : Policy) (el : Bytes) (a : Attr) : Bool :=
  (p.allowDataAttributes && wellFormedDataAttr a.key) || ruleAccepts (rulesFor p el a.key) a.val

def isForcedKey (k : Bytes) : Bool :=
  k == b!"rel" || k == b!"target" || k == b!"crossorigin" || k == b!"sandbox"

/-- a tag written in the policy's own vocabulary: allowed element (not script/style, not a
    raw-text element), every attribute accepted by some applicable rule, no style attribute
    (C10 governs those), URL attributes non-empty and already in the normal form the
    sanitiser keeps (an empty reference is documented as not a valid URL), not bare unless
    allowed bare -/
def conformingTag (p : Policy) (t : Token) : Bool :=
  allowsElement p t.data && !isRawTagName t.data &&
  (!t.attrs.isEmpty || allowNoAttrsSpec p t.data) &&
  t.attrs.all fun a =>
    a.key != b!"style" && !isForcedKey a.key && acceptsAttr p t.data a &&
    (!(p.requireParseableURLs && isUrlPosition t.data a.key) ||
       (!a.val.isEmpty && urlOk p a.val && (Url.parse a.val).map Url.print == some a.val &&
        -- `validURL` trims white space in Go's sense (Unicode) first: a value it would trim is not in normal form
        Css.trimSpace a.val == a.val))

def conformingDoc (p : Policy) (ts : List Token) : Bool :=
  wellNested ts &&
  ts.all fun t =>
    match t.tt with
    | .text => true
    | .start => conformingTag p t
    | .end_ => allowsElement p t.data && !isRawTagName t.data
    | _ => false

def stripForced (t : Token) : Token := { t with attrs := t.attrs.filter fun a => !isForcedKey a.key }

/-- canonical serialisation: the document is exactly the rendering of its own tokens -/
def canonicalDoc (inp : Bytes) : Bool :=
  ((tokenize inp).flatMap Token.render) == inp

/-- a conforming canonical document comes back byte for byte, except for attributes the
    policy instructs the sanitiser to add -/
def oracleC07 (p : Policy) (inp out : Bytes) : Bool :=
  let ti := tokenize inp
  if p.allowUnsafe || p.srcRewriter.isSome || !canonicalDoc inp || !conformingDoc p ti then true
  else
    let to := tokenize out
    to.map stripForced == ti &&
    (anyLinkOption p || p.requireCrossOriginAnonymous || p.requireSandboxOnIFrame.isSome || out == inp)

/-! ### C18: inert CSS values -/

/-- after `url(`: optional quote, then `http://` or `https://` -/
def plainHttpUrlStart (s : Bytes) : Bool :=
  let s := match s with
    | c :: r => if c == 34 || c == 39 then r else s
    | [] => s
  hasPrefix b!"http://" s || hasPrefix b!"https://" s

/-- `prev` is the byte before the current position (`none` at the start): a `javascript:` or
    `data:` reference counts where a URL can start — at the start of the value, after
    whitespace, a comma, an opening parenthesis or a quote -/
def urlStartPos (prev : Option UInt8) : Bool :=
  match prev with
  | none => true
  | some c => isWs c || c == 44 || c == 40 || c == 34 || c == 39

def inertAux : Nat → Option UInt8 → Bytes → Bool
  | 0, _, _ => true
  | _, _, [] => true
  | fuel + 1, prev, s@(c :: cs) =>
    if c == 92 || c == 60 || c == 62 || c == 64 || c == 59 || c == 123 || c == 125 then false
    else if hasPrefix b!"expression(" s then false
    else if urlStartPos prev && (hasPrefix b!"javascript:" s || hasPrefix b!"data:" s) then false
    else if hasPrefix b!"url(" s then plainHttpUrlStart (s.drop 4) && inertAux fuel (some c) cs
    else inertAux fuel (some c) cs

/-- no backslash, angle bracket or at-sign, no semicolon or brace (a value cannot end the declaration
    or the block it is written into); no `expression(`; no `javascript:` / `data:`
    reference; every `url(` opens a plain http/https reference -/
def inert (v : Bytes) : Bool := inertAux (v.length + 1) none v

/-! ### C19: the documented value forms of the exported matchers -/

def inRangeTable (t : List (Nat × Nat)) (r : Rune) : Bool := t.any fun (lo, hi) => lo ≤ r && r ≤ hi

def isLetter (r : Rune) : Bool := inRangeTable Gen.letterRanges r
def isNumber (r : Rune) : Bool := inRangeTable Gen.numberRanges r
def isReSpace (r : Rune) : Bool := r == 9 || r == 10 || r == 12 || r == 13 || r == 32

def digits1 (s : Bytes) : Option Bytes :=
  let d := s.takeWhile isDigit
  if d.isEmpty then none else some (s.drop d.length)

def exactDigits (n : Nat) (s : Bytes) : Option Bytes :=
  if (s.take n).length == n && (s.take n).all isDigit then some (s.drop n) else none

def optSign : Bytes → Bytes
  | c :: r => if c == 43 || c == 45 then r else c :: r
  | [] => []

/-- `[-+]?[0-9]*\.?[0-9]+([eE][-+]?[0-9]+)?` as a hand-written recogniser -/
def isNumberForm (s : Bytes) : Bool :=
  let s := optSign s
  let ip := s.takeWhile isDigit
  let r := s.drop ip.length
  let mant : Option Bytes :=
    match r with
    | 46 :: r2 => digits1 r2
    | _ => if ip.isEmpty then none else some r
  -- "12." is not a number; "12" is; ".5" is
  match mant with
  | none => false
  | some [] => true
  | some (e :: r4) =>
    if e == 101 || e == 69 then
      match digits1 (optSign r4) with
      | some [] => true
      | _ => false
    else false

/-- W3C NOTE-datetime subset, as documented above the ISO8601 matcher -/
def isISO8601Form (s : Bytes) : Bool :=
  match exactDigits 4 s with
  | none => false
  | some [] => true
  | some (45 :: r1) =>
    match exactDigits 2 r1 with
    | none => false
    | some [] => true
    | some (45 :: r2) =>
      match exactDigits 2 r2 with
      | none => false
      | some [] => true
      | some (sep :: r3) =>
        if sep != 32 && sep != 84 then false else
        match exactDigits 2 r3 with
        | some (58 :: r4) =>
          match exactDigits 2 r4 with
          | none => false
          | some r5 =>
            -- optional :ss
            let r6 : Bytes := match r5 with
              | 58 :: x => (exactDigits 2 x).getD (58 :: x)
              | x => x
            if r6.head? == some (58 : UInt8) then false else
            -- optional fraction
            let r7 : Option Bytes := match r6 with
              | 46 :: x =>
                let d := (x.take 6).takeWhile isDigit
                if d.isEmpty then none else some (x.drop d.length)
              | x => some x
            match r7 with
            | none => false
            | some r7 =>
              let r8 : Bytes := match r7 with | 90 :: x => x | x => x
              match r8 with
              | [] => true
              | sg :: x =>
                if sg == 43 || sg == 45 then
                  match exactDigits 2 x with
                  | some (58 :: y) => exactDigits 2 y == some []
                  | _ => false
                else false
        | _ => false
    | _ => false
  | _ => false

def paragraphPunct : Bytes := b!"-_',[]!./\\()"

/-- is `v` of the documented form of matcher `name`?  (`none`: unknown matcher) -/
def matcherDocForm (name : String) (v : Bytes) : Option Bool :=
  let kw (l : List Bytes) : Bool := l.contains (lowerAscii v)
  let runes := decodeRunes v
  match name with
  | "CellAlign" => some (kw (w b!"center justify left right char"))
  | "CellVerticalAlign" => some (kw (w b!"baseline bottom middle top"))
  | "Direction" => some (kw (w b!"rtl ltr"))
  | "ImageAlign" => some (kw (w b!"left right top texttop middle absmiddle baseline bottom absbottom"))
  | "ListType" => some (kw (w b!"circle disc square a i 1"))
  | "Integer" => some (!v.isEmpty && v.all isDigit)
  | "NumberOrPercent" =>
    some (match digits1 v with
      | some [] => true
      | some [37] => true
      | _ => false)
  | "Number" => some (isNumberForm v)
  | "ISO8601" => some (isISO8601Form v)
  | "SpaceSeparatedTokens" =>
    some (!runes.isEmpty && runes.all fun r => isLetter r || isNumber r || isReSpace r || r == 95 || r == 45)
  | "Paragraph" =>
    some (runes.all fun r => isLetter r || isNumber r || isReSpace r ||
      (r < 128 && paragraphPunct.contains r.toUInt8))
  | _ => none

/-! ### C17: rules accumulate -/

/-- every attribute of `a` is on `b` with the same value (the style attribute is governed by
    style rules and is only required to be compared by those, C10: ignored here) -/
def attrsSub (a b : List Attr) : Bool :=
  a.all fun x => x.key == b!"style" || b.any fun y => y.key == x.key && y.val == x.val

/-- the tags of the first token list embed, in order, into the tags of the second, each with at
    least its attributes -/
def tagsEmbed : List Token → List Token → Bool
  | [], _ => true
  | _ :: _, [] => false
  | x :: xs, y :: ys =>
    if x.tt == y.tt && x.data == y.data && attrsSub x.attrs y.attrs then tagsEmbed xs ys
    else tagsEmbed (x :: xs) ys

/-- what the policy with fewer rules keeps, the policy with one more rule keeps too -/
def oracleMono (outA outB : Bytes) : Bool :=
  tagsEmbed ((tokenize outA).filter isTag) ((tokenize outB).filter isTag)

/-! ### C20: classification of a known finding -/

/-- the same tokens, except that within a tag rel / target may sit at different positions among
    the (otherwise identically ordered) attributes -/
def sameUpToForcedAttrOrder : List Token → List Token → Bool
  | [], [] => true
  | x :: xs, y :: ys =>
    x.tt == y.tt && x.data == y.data &&
    (x.attrs.filter fun a => a.key != b!"rel" && a.key != b!"target") ==
      (y.attrs.filter fun a => a.key != b!"rel" && a.key != b!"target") &&
    (x.attrs.filter fun a => a.key == b!"rel") == (y.attrs.filter fun a => a.key == b!"rel") &&
    (x.attrs.filter fun a => a.key == b!"target") == (y.attrs.filter fun a => a.key == b!"target") &&
    sameUpToForcedAttrOrder xs ys
  | _, _ => false

end BM.Spec
